base/QcField.vo base/QcField.glob base/QcField.v.beautified base/QcField.required_vo: base/QcField.v 
base/QcField.vio: base/QcField.v 
base/QcField.vos base/QcField.vok base/QcField.required_vos: base/QcField.v 
base/QcOrder.vo base/QcOrder.glob base/QcOrder.v.beautified base/QcOrder.required_vo: base/QcOrder.v base/QcField.vo
base/QcOrder.vio: base/QcOrder.v base/QcField.vio
base/QcOrder.vos base/QcOrder.vok base/QcOrder.required_vos: base/QcOrder.v base/QcField.vos
