(* Executable determinant and inverse on function-matrices, proved equal to MathComp's. *)
From mathcomp Require Import all_ssreflect all_algebra.
From GT Require Import Tensor.
Set Implicit Arguments.
Unset Strict Implicit.
Unset Printing Implicit Defensive.
Import GRing.Theory.
Local Open Scope ring_scope.

Section DetExec.
Variable F : fieldType.
Notation mat := (mat F).

Definition minor (i j : nat) (A : mat) : mat := fun a b => A (bump i a) (bump j b).

Fixpoint detn (n : nat) (A : mat) : F :=
  match n with
  | 0%N => 1
  | S n' => sumn n (fun j => A 0%N j * ((-1) ^+ j * detn n' (minor 0 j A)))
  end.

Lemma detnS n A : detn n.+1 A = sumn n.+1 (fun j => A 0%N j * ((-1) ^+ j * detn n (minor 0 j A))).
Proof. by []. Qed.

Lemma detnE n A : detn n A = \det (mxf n n A).
Proof.
elim: n A => [|n IH] A; first by rewrite /= det_mx00.
rewrite detnS sumnE (expand_det_row _ ord0); apply: eq_bigr => j _.
rewrite mxE /cofactor add0n IH; congr (_ * (_ * \det _)).
by apply/matrixP => a b; rewrite !mxE.
Qed.

Definition cofn (n : nat) (A : mat) (i j : nat) : F := (-1) ^+ (i + j) * detn n.-1 (minor i j A).

Lemma cofnE n A (i j : 'I_n) : cofn n A i j = cofactor (mxf n n A) i j.
Proof.
rewrite /cofn /cofactor detnE; congr (_ * \det _).
by apply/matrixP => a b; rewrite !mxE.
Qed.

(* cofactor inverse; the determinant is computed once, the result is materialised *)
Definition minv (n : nat) (A : mat) : mat :=
  let di := (detn n A)^-1 in tabm n n (fun i j => di * cofn n A j i).

Lemma mxf_inv n A : detn n A != 0 -> mxf n n (minv n A) = invmx (mxf n n A).
Proof.
move=> dn0; rewrite /minv mxf_tab /invmx unitmxE unitfE -detnE dn0.
by apply/matrixP => i j; rewrite !mxE cofnE.
Qed.

Lemma mxf_invVl n A : detn n A != 0 -> mxf n n (minv n A) *m mxf n n A = 1%:M.
Proof. by move=> dn0; rewrite mxf_inv // mulVmx // unitmxE unitfE -detnE. Qed.
Lemma mxf_invVr n A : detn n A != 0 -> mxf n n A *m mxf n n (minv n A) = 1%:M.
Proof. by move=> dn0; rewrite mxf_inv // mulmxV // unitmxE unitfE -detnE. Qed.

(* diagonal inverse: utils/linalg.py invert_diagonal *)
Definition minv_diag (A : mat) : mat := fun i j => if i == j then (A i i)^-1 else 0.
Definition det_diag (n : nat) (A : mat) : F := \prod_(i < n) A i i.
Fixpoint prodn (n : nat) (f : nat -> F) : F := match n with 0%N => 1 | S k => prodn k f * f k end.
Lemma prodnE n f : prodn n f = \prod_(i < n) f i.
Proof. by elim: n => [|n IH] /=; [rewrite big_ord0 | rewrite big_ord_recr /= IH]. Qed.

End DetExec.
