From Coq Require Import QArith Qcanon ZArith Lia.
From mathcomp Require Import all_ssreflect all_algebra.
From GT Require Import QcField QcOrder.
Set Implicit Arguments.
Unset Strict Implicit.
Unset Printing Implicit Defensive.
Local Close Scope Q_scope.
Local Close Scope Qc_scope.
Local Close Scope Z_scope.
Import GRing.Theory Num.Theory Order.Theory.
Local Open Scope ring_scope.

(* log structure over an ordered field: hln x = (1/2) ln x, hl2p = (1/2) ln (2 pi) *)
Record logS (F : realFieldType) := LogS {
  L :> zmodType;
  emb : {additive F -> L};
  hln : F -> L;
  hl2p : L;
  hlnM : forall x y, 0 < x -> 0 < y -> hln (x * y) = hln x + hln y;
}.

(* ---- the multiplicative group of non-zero elements of a field, written additively ---- *)
Section Mult.
Variable F : fieldType.
Record nz := Nz { nzval :> F; nzP : nzval != 0 }.
Canonical nz_subType := Eval hnf in [subType for nzval].
Definition nz_eqMixin := Eval hnf in [eqMixin of nz by <:].
Canonical nz_eqType := Eval hnf in EqType nz nz_eqMixin.
Definition nz_choiceMixin := [choiceMixin of nz by <:].
Canonical nz_choiceType := Eval hnf in ChoiceType nz nz_choiceMixin.
Definition nz_one : nz := Nz (oner_neq0 F).
(* proofs are rebuilt from the computed boolean, so that vm_compute never runs lemma bodies *)
Definition mk_nz (x : F) : nz :=
  (if x != 0 as b return (x != 0) = b -> nz then fun p => Nz p else fun _ => nz_one) (erefl _).
Lemma mk_nzK x : x != 0 -> nzval (mk_nz x) = x.
Proof.
rewrite /mk_nz => xn.
move: (erefl (x != 0)); rewrite {2 3}xn => p //.
Qed.
Definition nz_mul (a b : nz) : nz := mk_nz (nzval a * nzval b).
Definition nz_inv (a : nz) : nz := mk_nz (nzval a)^-1.
Lemma nz_mulE a b : nzval (nz_mul a b) = nzval a * nzval b.
Proof. by rewrite mk_nzK // mulf_neq0 ?nzP. Qed.
Lemma nz_invE a : nzval (nz_inv a) = (nzval a)^-1.
Proof. by rewrite mk_nzK // invr_neq0 ?nzP. Qed.
Lemma nz_mulA : associative nz_mul. Proof. by move=> a b c; apply: val_inj; rewrite /= !nz_mulE mulrA. Qed.
Lemma nz_mulC : commutative nz_mul. Proof. by move=> a b; apply: val_inj; rewrite /= !nz_mulE mulrC. Qed.
Lemma nz_mul1 : left_id nz_one nz_mul. Proof. by move=> a; apply: val_inj; rewrite /= nz_mulE mul1r. Qed.
Lemma nz_mulV : left_inverse nz_one nz_inv nz_mul.
Proof. by move=> a; apply: val_inj; rewrite /= nz_mulE nz_invE mulVf ?nzP. Qed.
Definition nz_zmodMixin := ZmodMixin nz_mulA nz_mulC nz_mul1 nz_mulV.
Canonical nz_zmodType := Eval hnf in ZmodType nz nz_zmodMixin.
End Mult.

(* ---- executable instance: value = q + c * (1/2) ln (2 pi) + (1/2) ln r ---- *)
Section Exec.
Variable F : realFieldType.
Definition Lx : zmodType := [zmodType of (F * int * nz F)%type].
Definition lx_emb (x : F) : Lx := (x, 0, 0).
Lemma lx_emb_additive : additive lx_emb.
Proof. by move=> x y; rewrite /lx_emb; congr (_, _, _); rewrite ?subr0. Qed.
Canonical lx_emb_add := Additive lx_emb_additive.
Definition lx_hln (x : F) : Lx := (0, 0, mk_nz x).
Definition lx_hl2p : Lx := (0, 1, 0).
Lemma lx_hlnM x y : 0 < x -> 0 < y -> lx_hln (x * y) = lx_hln x + lx_hln y.
Proof.
move=> x0 y0; rewrite /lx_hln.
have xn : x != 0 by rewrite gt_eqF.
have yn : y != 0 by rewrite gt_eqF.
congr (_, _, _); rewrite ?addr0 //.
by apply: val_inj; rewrite /= nz_mulE !mk_nzK // mulf_neq0.
Qed.
Definition logS_exec : logS F := @LogS F Lx lx_emb_add lx_hln lx_hl2p lx_hlnM.
End Exec.


Section LogLemmas.
Variables (F : realFieldType) (LS : logS F).
Lemma hln1 : hln LS 1 = 0.
Proof.
have := @hlnM _ LS 1 1 ltr01 ltr01; rewrite mulr1 => /eqP.
by rewrite -subr_eq0 opprD addNKr oppr_eq0 => /eqP.
Qed.
Lemma hlnV x : 0 < x -> hln LS x^-1 = - hln LS x.
Proof.
move=> x0; apply/eqP; rewrite -addr_eq0 -hlnM ?invr_gt0 // mulVf ?hln1 //.
by rewrite gt_eqF.
Qed.
Lemma hln_div x y : 0 < x -> 0 < y -> hln LS (x / y) = hln LS x - hln LS y.
Proof. by move=> x0 y0; rewrite hlnM ?invr_gt0 // hlnV. Qed.
End LogLemmas.

(* the executable log domain used by the correspondence check *)
Definition q (n : Z) (d : positive) : Qc := Q2Qc (Qmake n d).
Definition LQ : logS Qc_realFieldType := logS_exec Qc_realFieldType.
Print Assumptions logS_exec.
