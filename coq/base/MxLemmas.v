(* Matrix identities behind the library's shortcuts, over MathComp matrices of any size. *)
From mathcomp Require Import all_ssreflect all_fingroup all_algebra.
From mathcomp Require Import ring.
From GT Require Import MxTac.
Set Implicit Arguments.
Unset Strict Implicit.
Unset Printing Implicit Defensive.
Import GRing.Theory.
Local Open Scope ring_scope.

Section Basic.
Variable F : fieldType.

Lemma scalar11 (A : 'M[F]_1) : A = (A 0 0)%:M.
Proof. by apply/matrixP => i j; rewrite !ord1 mxE eqxx mulr1n. Qed.

Lemma inv_unique n (A B : 'M[F]_n) : B *m A = 1%:M -> B = invmx A.
Proof.
move=> BA; have Au : A \in unitmx by rewrite unitmxE; apply/unitrP; exists (\det B);
  rewrite -!det_mulmx BA (mulmx1C BA) det1.
by rewrite -[B]mulmx1 -(mulmxV Au) mulmxA BA mul1mx.
Qed.

Lemma inv_sym n (S L : 'M[F]_n) : S *m L = 1%:M -> L^T = L -> S^T = S.
Proof.
move=> SL Lsym; have LS := mulmx1C SL.
have H : S^T *m L = 1%:M by rewrite -Lsym -trmx_mul LS trmx1.
by rewrite (inv_unique H) -(inv_unique SL).
Qed.

Lemma det_inv n (S L : 'M[F]_n) : S *m L = 1%:M -> \det S * \det L = 1.
Proof. by move=> SL; rewrite -det_mulmx SL det1. Qed.

End Basic.

Section SM.
Variable F : fieldType.
Variable n : nat.
Implicit Types (L S : 'M[F]_n) (v : 'cV[F]_n) (g : F).

Definition qf S v : F := (v^T *m S *m v) 0 0.

(* Sherman-Morrison *)
Lemma sherman_morrison L S v g :
  S *m L = 1%:M -> 1 + g * qf S v != 0 ->
  (S - (g / (1 + g * qf S v)) *: (S *m v *m v^T *m S)) *m (L + g *: (v *m v^T)) = 1%:M.
Proof.
move=> SL dn0; set d := 1 + g * qf S v.
have LS : L *m S = 1%:M by apply: mulmx1C.
rewrite mulmxDr !mulmxBl SL.
rewrite -!scalemxAl -!scalemxAr.
rewrite -![_ *m S *m L]mulmxA SL mulmx1.
have H : S *m v *m v^T *m S *m (v *m v^T) = qf S v *: (S *m v *m v^T).
  rewrite -!mulmxA [v^T *m (S *m _)]mulmxA [v^T *m S *m _]mulmxA.
  rewrite [v^T *m S *m v]scalar11 -/(qf S v) mul_scalar_mx -scalemxAr -scalemxAr.
  by rewrite !mulmxA.
rewrite H mulmxA !scalerA.
set X := S *m v *m v^T.
rewrite -addrA -{2}[1%:M]addr0; congr (_ + _).
rewrite addrA -scaleNr -scaleNr -!scalerDl.
suff -> : - (g / d) + g - g / d * g * qf S v = 0 by rewrite scale0r.
by rewrite /d; field.
Qed.

(* det (1 + u w^T) = 1 + w^T u *)
Lemma det_rank1_id (u w : 'cV[F]_n) : \det (1%:M + u *m w^T) = 1 + (w^T *m u) 0 0.
Proof.
pose A : 'M[F]_(n + 1) := block_mx 1%:M 0 w^T 1%:M.
pose B : 'M[F]_(n + 1) := block_mx (1%:M + u *m w^T) u 0 1%:M.
pose C : 'M[F]_(n + 1) := block_mx 1%:M 0 (- w^T) 1%:M.
pose E : 'M[F]_(n + 1) := block_mx 1%:M u 0 (1%:M + w^T *m u).
have HE : A *m B *m C = E.
  rewrite /A /B /C /E !mulmx_block.
  rewrite !mul1mx !mul0mx !mulmx0 !mulmx1 !addr0 !add0r.
  congr block_mx.
  - by rewrite mulmxN -addrA subrr addr0.
  - rewrite mulmxDr mulmx1 mulmxN mulmxDl mul1mx opprD addrA mulmxA.
    by rewrite addrAC [w^T + _]addrC addrK subrr.
  - by rewrite addrC.
have := congr1 determinant HE.
rewrite !det_mulmx /A /B /C /E !det_lblock !det_ublock !det1 !mul1r !mulr1 det_mx11 !mxE.
by rewrite eqxx mulr1n.
Qed.

(* matrix determinant lemma in the form the code uses it *)
Lemma det_rank1_update L S v g : S *m L = 1%:M ->
  \det (L + g *: (v *m v^T)) = \det L * (1 + g * qf S v).
Proof.
move=> SL; have LS : L *m S = 1%:M by apply: mulmx1C.
have -> : L + g *: (v *m v^T) = L *m (1%:M + (S *m (g *: v)) *m v^T).
  by rewrite mulmxDr mulmx1 !mulmxA LS mul1mx -scalemxAl.
rewrite det_mulmx det_rank1_id; congr (_ * (1 + _)).
by rewrite mulmxA -scalemxAr mxE /qf.
Qed.
End SM.

Section Joint.
Variable F : fieldType.
Variables dx dy : nat.
Variables (Sx Lx : 'M[F]_dx) (Sy Ly : 'M[F]_dy) (M : 'M[F]_(dy, dx)).
Hypothesis SLx : Sx *m Lx = 1%:M.
Hypothesis SLy : Sy *m Ly = 1%:M.

Definition Sxy : 'M[F]_(dx + dy) := block_mx Sx (Sx *m M^T) (M *m Sx) (Sy + M *m Sx *m M^T).
Definition Lxy : 'M[F]_(dx + dy) := block_mx (Lx + M^T *m Ly *m M) (- (M^T *m Ly)) (- (Ly *m M)) Ly.

Lemma joint_inverse : Sxy *m Lxy = 1%:M.
Proof.
rewrite /Sxy /Lxy mulmx_block (scalar_mx_block _ _ 1).
congr block_mx; rewrite !(mulmxDl, mulmxDr, mulmxN, mulNmx) !mulmxA ?SLx ?SLy.
- by mx_abel.
- by mx_abel.
- have -> : M *m Sx *m Lx = M by rewrite -mulmxA SLx mulmx1.
  by rewrite mul1mx; mx_abel.
- by mx_abel.
Qed.

Lemma joint_det : \det Sxy = \det Sx * \det Sy.
Proof.
have -> : Sxy = block_mx 1%:M 0 M 1%:M *m block_mx Sx 0 0 Sy *m block_mx 1%:M M^T 0 1%:M.
  rewrite /Sxy !mulmx_block !mul1mx !mulmx1 !mul0mx !mulmx0 !addr0 !add0r.
  by congr block_mx; rewrite // addrC.
by rewrite !det_mulmx det_lblock !det_ublock !det1 !mul1r !mulr1.
Qed.
End Joint.

Section Cond.
Variable F : fieldType.
Variables da db : nat.
Variables (Laa : 'M[F]_da) (Lab : 'M[F]_(da, db)) (Lba : 'M[F]_(db, da)) (Lbb : 'M[F]_db).
Variables (Saa : 'M[F]_da) (Sab : 'M[F]_(da, db)) (Sba : 'M[F]_(db, da)) (Sbb : 'M[F]_db).
Variable Caa : 'M[F]_da.
Let Lam := block_mx Laa Lab Lba Lbb.
Let Sig := block_mx Saa Sab Sba Sbb.
Hypothesis SL : Sig *m Lam = 1%:M.
Hypothesis CL : Caa *m Laa = 1%:M.

Lemma blocks :
  [/\ Saa *m Laa + Sab *m Lba = 1%:M, Saa *m Lab + Sab *m Lbb = 0,
      Sba *m Laa + Sbb *m Lba = 0 & Sba *m Lab + Sbb *m Lbb = 1%:M].
Proof.
move: SL; rewrite /Sig /Lam mulmx_block (scalar_mx_block _ _ 1) => /eq_block_mx [-> -> -> ->].
by split.
Qed.

Lemma marginal_precision : Sbb *m (Lbb - Lba *m Caa *m Lab) = 1%:M.
Proof.
have [_ _ H3 H4] := blocks.
have LC : Laa *m Caa = 1%:M by apply: mulmx1C.
have E : Sbb *m Lba = - (Sba *m Laa) by apply/eqP; rewrite -subr_eq0 opprK addrC H3.
rewrite mulmxBr !mulmxA E mulNmx -[Sba *m Laa *m Caa]mulmxA LC mulmx1 mulNmx opprK addrC.
exact: H4.
Qed.

Lemma det_marginal : \det Sig * \det Laa = \det Sbb.
Proof.
have [H1 _ H3 _] := blocks.
have <- : \det (block_mx Laa 0 Lba 1%:M : 'M_(da + db)) = \det Laa by rewrite det_lblock det1 mulr1.
rewrite -det_mulmx /Sig mulmx_block !mulmx0 !mulmx1 !add0r H1 H3.
by rewrite det_ublock det1 mul1r.
Qed.

Hypothesis Laa_sym : Laa^T = Laa.
Hypothesis Lba_tr : Lba = Lab^T.

Lemma complete_square (u : 'cV[F]_da) (w : 'cV[F]_db) :
  (col_mx u w)^T *m Lam *m col_mx u w
  = (u + Caa *m Lab *m w)^T *m Laa *m (u + Caa *m Lab *m w)
    + w^T *m (Lbb - Lba *m Caa *m Lab) *m w.
Proof.
have LC : Laa *m Caa = 1%:M by apply: mulmx1C.
have R1 n (X : 'M[F]_(n, da)) : X *m Laa *m Caa = X by rewrite -mulmxA LC mulmx1.
have R2 n (X : 'M[F]_(n, da)) : X *m Caa^T *m Laa = X.
  by rewrite -mulmxA -[Laa]Laa_sym -trmx_mul LC trmx1 mulmx1.
have Csym : Caa^T = Caa by rewrite -[LHS]mulmx1 -LC mulmxA -[Caa^T]mul1mx R2 mul1mx.
rewrite /Lam tr_col_mx mul_row_block mul_row_col.
do 4![rewrite ?(linearD, linearN, linearB) /= ?trmx_mul ?(mulmxDl, mulmxDr, mulmxBr, mulmxBl, mulmxN, mulNmx) ?mulmxA].
rewrite ?R1 ?R2 Lba_tr Csym.
mx_abel.
Qed.
End Cond.

Section Perm.
Variable F : fieldType.
Variable n : nat.
Variable s : 'S_n.
Implicit Types (A B : 'M[F]_n) (x : 'cV[F]_n).

Definition pmx A : 'M[F]_n := row_perm s (col_perm s A).
Definition pcv x : 'cV[F]_n := row_perm s x.

Lemma pmxE A i j : pmx A i j = A (s i) (s j). Proof. by rewrite !mxE. Qed.
Lemma pmx_mul A B : pmx (A *m B) = pmx A *m pmx B.
Proof.
apply/matrixP => i j; rewrite pmxE !mxE (reindex_inj (@perm_inj _ s)) /=.
by apply: eq_bigr => k _; rewrite !mxE.
Qed.
Lemma pmx1 : pmx (1%:M) = 1%:M.
Proof. by apply/matrixP => i j; rewrite pmxE !mxE (inj_eq perm_inj). Qed.
Lemma pmx_inverse A B : A *m B = 1%:M -> pmx A *m pmx B = 1%:M.
Proof. by move=> AB; rewrite -pmx_mul AB pmx1. Qed.
Lemma det_pmx A : \det (pmx A) = \det A.
Proof.
rewrite /pmx row_permE col_permE !det_mulmx !det_perm odd_permV.
by rewrite mulrCA -signr_addb addbb mulr1.
Qed.
Lemma pmx_quad A x : (pcv x)^T *m pmx A *m pcv x = x^T *m A *m x.
Proof.
rewrite /pcv /pmx !row_permE col_permE !trmx_mul tr_perm_mx !mulmxA.
rewrite -[x^T *m _ *m perm_mx s]mulmxA -perm_mxM mulVg perm_mx1 mulmx1.
rewrite -[x^T *m A *m _ *m perm_mx s]mulmxA -perm_mxM mulVg perm_mx1 mulmx1.
by [].
Qed.
End Perm.
