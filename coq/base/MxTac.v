(* mx_abel: closes additive / scalar goals between matrices by abstracting every product,
   transpose and scalar matrix (up to conversion, with `set`), going entrywise, and calling ring. *)
From mathcomp Require Import all_ssreflect all_algebra.
From mathcomp Require Import ring.
Set Implicit Arguments.
Unset Strict Implicit.
Unset Printing Implicit Defensive.
Import GRing.Theory.
Local Open Scope ring_scope.

Ltac gen_mulmx :=
  repeat match goal with
  | |- context [@mulmx ?R ?m ?n ?p ?A ?B] =>
      let Z := fresh "Z" in set Z := (@mulmx R m n p A B); clearbody Z
  | |- context [@scalar_mx ?R ?n ?a] =>
      let Z := fresh "Z" in set Z := (@scalar_mx R n a); clearbody Z
  | |- context [@trmx ?R ?m ?n ?A] =>
      let Z := fresh "Z" in set Z := (@trmx R m n A); clearbody Z
  | |- context [@invmx ?R ?n ?A] =>
      let Z := fresh "Z" in set Z := (@invmx R n A); clearbody Z
  end.
Ltac gen_entries :=
  repeat match goal with
  | |- context [@fun_of_matrix ?R ?m ?n ?M ?i ?j] =>
      let e := fresh "e" in set e := (@fun_of_matrix R m n M i j); clearbody e
  end.
Ltac mx_abel := gen_mulmx; apply/matrixP => ? ?; rewrite ?mxE; gen_entries; ring.

(* abstract \sum / \tr / \det atoms before ring/field *)
Ltac gen_atoms :=
  repeat match goal with
  | |- context [@mxtrace ?R ?n ?A] =>
      let e := fresh "t" in set e := (@mxtrace R n A); clearbody e
  | |- context [@determinant ?R ?n ?A] =>
      let e := fresh "d" in set e := (@determinant R n A); clearbody e
  end.

Section T.
Variable F : fieldType.
Variables (m n : nat) (P Q R : 'M[F]_(m, n)) (X : 'M[F]_m) (g : F).
Goal P + Q - P = Q. Proof. mx_abel. Qed.
Goal X *m P + g *: (X *m Q) - X *m P + (1 - g) *: (X *m Q) = X *m Q. Proof. mx_abel. Qed.
End T.
