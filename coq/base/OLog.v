(* Ordered log structure: a logarithm with values in the field itself, so that inequalities between
   log-domain quantities (KL >= 0, MI >= 0) can be stated.  hln x = (1/2) ln x, and the only analytic fact
   used is ln x <= x - 1 (strict off x = 1).  Instance at the real numbers: base/RField.v. *)
From mathcomp Require Import all_ssreflect all_algebra.
From GT Require Import QcField QcOrder LogDom.
Set Implicit Arguments.
Unset Strict Implicit.
Unset Printing Implicit Defensive.
Import GRing.Theory Num.Theory Order.Theory.
Local Open Scope ring_scope.

Record ologS (F : realFieldType) := OLogS {
  oln : F -> F;                       (* (1/2) ln *)
  ol2p : F;                           (* (1/2) ln (2 pi) *)
  olnM : forall x y, 0 < x -> 0 < y -> oln (x * y) = oln x + oln y;
  oln_lt : forall x, 0 < x -> x != 1 -> oln x < (x - 1) / 2%:R }.

Section OLog.
Variables (F : realFieldType) (O : ologS F).
Definition logS_of : logS F := @LogS F [zmodType of F] [additive of @idfun F] (oln O) (ol2p O) (@olnM _ O).

Lemma oln1 : oln O 1 = 0.
Proof. exact: (@hln1 _ logS_of). Qed.
Lemma oln_le x : 0 < x -> oln O x <= (x - 1) / 2%:R.
Proof.
move=> x0; case: (eqVneq x 1) => [->|xn]; first by rewrite oln1 subrr mul0r.
by apply: ltW; apply: oln_lt.
Qed.
Lemma olnV x : 0 < x -> oln O x^-1 = - oln O x.
Proof. exact: (@hlnV _ logS_of). Qed.
(* monotone *)
Lemma oln_mono x y : 0 < x -> x <= y -> oln O x <= oln O y.
Proof.
move=> x0 xy; have y0 : 0 < y by exact: lt_le_trans xy.
have -> : y = x * (y / x) by rewrite mulrCA divff ?mulr1 // gt_eqF.
have q0 : 0 < y / x by rewrite divr_gt0.
rewrite olnM // ler_addl -oppr_le0 -olnV // invf_div.
apply: le_trans (oln_le _) _; first by rewrite divr_gt0.
by rewrite mulr_le0_ge0 ?invr_ge0 ?ler0n // subr_le0 ler_pdivr_mulr // mul1r.
Qed.
End OLog.
