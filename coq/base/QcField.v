From Coq Require Import QArith Qcanon ZArith Lia.
From mathcomp Require Import all_ssreflect all_algebra.
Set Implicit Arguments.
Unset Strict Implicit.
Unset Printing Implicit Defensive.
Local Close Scope Q_scope.
Local Close Scope Qc_scope.
Local Close Scope Z_scope.
Local Open Scope nat_scope.

(* ---- Qc as eqType ---- *)
Definition Qc_eqb (a b : Qc) : bool := Qeq_bool a b.
Lemma Qc_eqP : Equality.axiom Qc_eqb.
Proof.
move=> a b; apply: (iffP idP).
- by move=> H; apply Qc_is_canon; apply Qeq_bool_eq.
- by move=> ->; apply Qeq_eq_bool.
Qed.
Canonical Qc_eqMixin := EqMixin Qc_eqP.
Canonical Qc_eqType := Eval hnf in EqType Qc Qc_eqMixin.

(* ---- choice/countable via embedding into Z * positive ---- *)
Definition Z_pickle (z : Z) : bool * nat := (Z.ltb z 0, Z.abs_nat z).
Definition Z_unpickle (p : bool * nat) : Z := if p.1 then Z.opp (Z.of_nat p.2) else Z.of_nat p.2.
Lemma Z_pickleK : cancel Z_pickle Z_unpickle.
Proof.
move=> z; rewrite /Z_pickle /Z_unpickle /=.
case: Z.ltb_spec => H; rewrite Zabs2Nat.id_abs; lia.
Qed.
Definition Z_eqb_ax : Equality.axiom Z.eqb.
Proof. move=> a b; apply: (iffP idP); [by move/Z.eqb_eq | by move=> ->; apply Z.eqb_refl]. Qed.
Canonical Z_eqMixin := EqMixin Z_eqb_ax.
Canonical Z_eqType := Eval hnf in EqType Z Z_eqMixin.
Definition Z_choiceMixin := CanChoiceMixin Z_pickleK.
Canonical Z_choiceType := Eval hnf in ChoiceType Z Z_choiceMixin.

Definition Qc_enc (q : Qc) : Z * Z := (Qnum q, Zpos (Qden q)).
Definition Qc_dec (p : Z * Z) : Qc := Q2Qc (Qmake p.1 (Z.to_pos p.2)).
Lemma Qc_encK : cancel Qc_enc Qc_dec.
Proof.
move=> q; apply Qc_is_canon; rewrite /Qc_dec /Qc_enc.
case: q => [[n d] H]; exact: Qred_correct.
Qed.
Definition Qc_choiceMixin := CanChoiceMixin Qc_encK.
Canonical Qc_choiceType := Eval hnf in ChoiceType Qc Qc_choiceMixin.

(* ---- ring structures from stdlib Qc lemmas ---- *)
Lemma QcaddA : associative Qcplus. Proof. by move=> a b c; rewrite Qcplus_assoc. Qed.
Lemma QcaddC : commutative Qcplus. Proof. by move=> a b; rewrite Qcplus_comm. Qed.
Lemma Qcadd0 : left_id (Q2Qc (Qmake Z0 xH)) Qcplus. Proof. by move=> a; rewrite Qcplus_0_l. Qed.
Lemma QcaddN : left_inverse (Q2Qc (Qmake Z0 xH)) Qcopp Qcplus.
Proof. by move=> a; rewrite Qcplus_comm Qcplus_opp_r. Qed.
Definition Qc_zmodMixin := ZmodMixin QcaddA QcaddC Qcadd0 QcaddN.
Canonical Qc_zmodType := Eval hnf in ZmodType Qc Qc_zmodMixin.

Lemma QcmulA : associative Qcmult. Proof. by move=> a b c; rewrite Qcmult_assoc. Qed.
Lemma QcmulC : commutative Qcmult. Proof. by move=> a b; rewrite Qcmult_comm. Qed.
Lemma Qcmul1 : left_id (Q2Qc (Qmake (Zpos xH) xH)) Qcmult. Proof. by move=> a; rewrite Qcmult_1_l. Qed.
Lemma QcmulD : left_distributive Qcmult Qcplus.
Proof. by move=> a b c; rewrite Qcmult_plus_distr_l. Qed.
Lemma Qc10 : Q2Qc (Qmake (Zpos xH) xH) != Q2Qc (Qmake Z0 xH). Proof. by []. Qed.
Definition Qc_comRingMixin := ComRingMixin QcmulA QcmulC Qcmul1 QcmulD Qc10.
Canonical Qc_ringType := Eval hnf in RingType Qc Qc_comRingMixin.
Canonical Qc_comRingType := Eval hnf in ComRingType Qc QcmulC.

Lemma QcmulV : forall x : Qc, x != 0%R -> Qcmult (Qcinv x) x = 1%R.
Proof. move=> x /eqP Hx. rewrite Qcmult_comm. by apply Qcmult_inv_r. Qed.
Lemma Qcinv0 : Qcinv 0%R = 0%R. Proof. by apply Qc_is_canon. Qed.
Definition Qc_unitRingMixin := FieldUnitMixin QcmulV Qcinv0.
Canonical Qc_unitRingType := Eval hnf in UnitRingType Qc Qc_unitRingMixin.
Canonical Qc_comUnitRingType := Eval hnf in [comUnitRingType of Qc].
Lemma Qc_field_axiom : GRing.Field.mixin_of Qc_unitRingType. Proof. by []. Qed.
Definition Qc_idomainMixin := FieldIdomainMixin Qc_field_axiom.
Canonical Qc_idomainType := Eval hnf in IdomainType Qc Qc_idomainMixin.
Canonical Qc_fieldType := Eval hnf in FieldType Qc Qc_field_axiom.
