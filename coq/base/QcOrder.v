From Coq Require Import QArith Qcanon ZArith Lia Qabs.
From mathcomp Require Import all_ssreflect all_algebra.
From GT Require Import QcField.
Set Implicit Arguments.
Unset Strict Implicit.
Unset Printing Implicit Defensive.
Local Close Scope Q_scope.
Local Close Scope Qc_scope.
Local Close Scope Z_scope.
Import GRing.Theory.
Local Open Scope ring_scope.

Definition ltq (x y : Qc) : bool := match Qcompare x y with Lt => true | _ => false end.
Definition leq_ (x y : Qc) : bool := match Qcompare x y with Gt => false | _ => true end.
Definition normq (x : Qc) : Qc := if ltq x 0 then - x else x.

Lemma ltqP (x y : Qc) : reflect (Qlt x y) (ltq x y).
Proof. rewrite /ltq; apply: (iffP idP); rewrite Qlt_alt; by case: Qcompare. Qed.
Lemma leqP_ (x y : Qc) : reflect (Qle x y) (leq_ x y).
Proof. rewrite /leq_; apply: (iffP idP); rewrite Qle_alt; case: Qcompare => //; by move=> H; case: H. Qed.

(* Q-level views of the Qc operations *)
Lemma thisD (x y : Qc) : Qeq (this (x + y)) (Qplus x y). Proof. exact: Qred_correct. Qed.
Lemma thisM (x y : Qc) : Qeq (this (x * y)) (Qmult x y). Proof. exact: Qred_correct. Qed.
Lemma thisN (x : Qc) : Qeq (this (- x)) (Qopp x). Proof. exact: Qred_correct. Qed.
Lemma this0 : this (0 : Qc) = Qmake Z0 xH. Proof. by []. Qed.

Lemma lt0_add (x y : Qc) : ltq 0 x -> ltq 0 y -> ltq 0 (x + y).
Proof.
move=> /ltqP Hx /ltqP Hy; apply/ltqP; rewrite thisD this0 in Hx Hy *.
have := Qplus_lt_le_compat _ _ _ _ Hx (Qlt_le_weak _ _ Hy); by rewrite Qplus_0_l.
Qed.
Lemma lt0_mul (x y : Qc) : ltq 0 x -> ltq 0 y -> ltq 0 (x * y).
Proof.
move=> /ltqP Hx /ltqP Hy; apply/ltqP; rewrite thisM this0 in Hx Hy *.
exact: Qmult_lt_0_compat.
Qed.
Lemma lt0_ngt0 (x : Qc) : ltq 0 x -> ~~ ltq x 0.
Proof. move=> /ltqP Hx; apply/negP => /ltqP Hx'; exact: (Qlt_irrefl _ (Qlt_trans _ _ _ Hx Hx')). Qed.
Lemma sub_gt0 (x y : Qc) : ltq 0 (y - x) = ltq x y.
Proof.
apply/ltqP/ltqP; rewrite thisD this0 => H.
- have := proj2 (Qlt_minus_iff x y); apply. by move: H; rewrite thisN.
- rewrite thisN. exact: (proj1 (Qlt_minus_iff x y)).
Qed.
Lemma lt0_total (x : Qc) : x != 0 -> ltq 0 x || ltq x 0.
Proof.
move=> /eqP Hx; apply/orP.
case: (Q_dec (Qmake Z0 xH) x) => [[H|H]|H]; [left|right|]; try exact/ltqP.
by case: Hx; apply: Qc_is_canon; rewrite -H.
Qed.
Lemma normqN (x : Qc) : normq (- x) = normq x.
Proof.
rewrite /normq.
case: (ltqP x 0) => Hx; case: (ltqP (- x) 0) => Hnx //.
- exfalso; move: Hnx; rewrite thisN this0 => Hnx.
  have := Qopp_lt_compat _ _ Hx; rewrite /= => H. 
  exact: (Qlt_irrefl _ (Qlt_trans _ _ _ Hnx H)).
- by rewrite opprK.
- have E : x = 0.
    apply: Qc_is_canon; apply: Qle_antisym; first by apply: Qnot_lt_le; move: Hnx; rewrite thisN this0 => H H'; apply: H; have := Qopp_lt_compat _ _ H'.
    exact: Qnot_lt_le.
  by rewrite E; apply: Qc_is_canon.
Qed.
Lemma ge0_normq (x : Qc) : leq_ 0 x -> normq x = x.
Proof.
move=> /leqP_ Hx; rewrite /normq; case: ltqP => // Hx'.
by case: (Qlt_not_le _ _ Hx').
Qed.
Lemma le_defq (x y : Qc) : leq_ x y = (x == y) || ltq x y.
Proof.
apply/leqP_/orP => [H|[/eqP->|/ltqP H]]; last 2 first.
- exact: Qle_refl.
- exact: Qlt_le_weak.
case: (Qle_lt_or_eq _ _ H) => [Hlt|Heq]; [right; exact/ltqP | left].
by apply/eqP; apply: Qc_is_canon.
Qed.

Definition Qc_realLtMixin := RealLtMixin lt0_add lt0_mul lt0_ngt0 sub_gt0 lt0_total normqN ge0_normq le_defq.
Canonical Qc_porderType := Eval hnf in POrderType ring_display Qc Qc_realLtMixin.
Canonical Qc_latticeType := Eval hnf in LatticeType Qc Qc_realLtMixin.
Canonical Qc_distrLatticeType := Eval hnf in DistrLatticeType Qc Qc_realLtMixin.
Canonical Qc_orderType := Eval hnf in OrderType Qc Qc_realLtMixin.
Canonical Qc_numDomainType := Eval hnf in NumDomainType Qc Qc_realLtMixin.
Canonical Qc_normedZmodType := Eval hnf in NormedZmodType Qc Qc Qc_realLtMixin.
Canonical Qc_numFieldType := Eval hnf in [numFieldType of Qc].
Canonical Qc_realDomainType := Eval hnf in [realDomainType of Qc].
Canonical Qc_realFieldType := Eval hnf in [realFieldType of Qc].
Check (Qc_realFieldType : realFieldType).
Eval vm_compute in ((Q2Qc (Qmake 3 4) : Qc_realFieldType) < Q2Qc (Qmake 4 5))%R.
Print Assumptions Qc_realFieldType.
