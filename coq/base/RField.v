(* The Coq standard-library real numbers as a MathComp realFieldType, and the ordered log structure at R
   (oln x = ln x / 2, ol2p = ln (2 PI) / 2). *)
From Coq Require Import Reals Rpower Epsilon FunctionalExtensionality Lra.
From mathcomp Require Import all_ssreflect all_algebra.
From GT Require Import LogDom OLog.
Set Implicit Arguments.
Unset Strict Implicit.
Unset Printing Implicit Defensive.
Local Close Scope R_scope.
Delimit Scope R_scope with coqR.
Import GRing.Theory.
Local Open Scope ring_scope.

(* ---- eqType ---- *)
Definition Reqb (x y : R) : bool := if Req_EM_T x y then true else false.
Lemma ReqP (x y : R) : reflect (x = y) (Reqb x y).
Proof. by rewrite /Reqb; case: Req_EM_T => H; constructor. Qed.
Canonical R_eqMixin := EqMixin ReqP.
Canonical R_eqType := Eval hnf in EqType R R_eqMixin.

(* ---- choiceType through epsilon ---- *)
Definition pickR (P : pred R) (n : nat) : option R :=
  let x := epsilon (inhabits R0) P in if P x then Some x else None.
Lemma pickR_some (P : pred R) n x : pickR P n = Some x -> P x.
Proof. by rewrite /pickR; case: (boolP (P _)) => // Px [<-]. Qed.
Lemma pickR_ex (P : pred R) : (exists x : R, P x) -> exists n, pickR P n.
Proof.
move=> exP; exists 0%N; rewrite /pickR.
by have -> : P (epsilon (inhabits R0) P) by exact: epsilon_spec exP.
Qed.
Lemma pickR_ext (P Q : pred R) : P =1 Q -> pickR P =1 pickR Q.
Proof.
move=> PEQ n; rewrite /pickR.
by have -> : P = Q by exact: functional_extensionality PEQ.
Qed.
Definition R_choiceMixin : choiceMixin R := Choice.Mixin pickR_some pickR_ex pickR_ext.
Canonical R_choiceType := Eval hnf in ChoiceType R R_choiceMixin.

(* ---- ring structures ---- *)
Lemma RaddA : associative Rplus. Proof. by move=> a b c; rewrite Rplus_assoc. Qed.
Lemma RaddC : commutative Rplus. Proof. by move=> a b; rewrite Rplus_comm. Qed.
Lemma Radd0 : left_id R0 Rplus. Proof. by move=> a; rewrite Rplus_0_l. Qed.
Lemma RaddN : left_inverse R0 Ropp Rplus. Proof. by move=> a; rewrite Rplus_opp_l. Qed.
Definition R_zmodMixin := ZmodMixin RaddA RaddC Radd0 RaddN.
Canonical R_zmodType := Eval hnf in ZmodType R R_zmodMixin.

Lemma RmulA : associative Rmult. Proof. by move=> a b c; rewrite Rmult_assoc. Qed.
Lemma RmulC : commutative Rmult. Proof. by move=> a b; rewrite Rmult_comm. Qed.
Lemma Rmul1 : left_id R1 Rmult. Proof. by move=> a; rewrite Rmult_1_l. Qed.
Lemma RmulD : left_distributive Rmult Rplus.
Proof. by move=> a b c; rewrite Rmult_plus_distr_r. Qed.
Lemma R10 : R1 != R0. Proof. by apply/eqP; exact: R1_neq_R0. Qed.
Definition R_comRingMixin := ComRingMixin RmulA RmulC Rmul1 RmulD R10.
Canonical R_ringType := Eval hnf in RingType R R_comRingMixin.
Canonical R_comRingType := Eval hnf in ComRingType R RmulC.

Lemma RmulV : forall x : R, x != 0 -> Rmult (Rinv x) x = 1.
Proof. by move=> x /eqP Hx; rewrite Rinv_l. Qed.
Lemma Rinv0 : Rinv 0%R = 0. Proof. exact: Rinv_0. Qed.
Definition R_unitRingMixin := FieldUnitMixin RmulV Rinv0.
Canonical R_unitRingType := Eval hnf in UnitRingType R R_unitRingMixin.
Canonical R_comUnitRingType := Eval hnf in [comUnitRingType of R].
Lemma R_field_mixin : GRing.Field.mixin_of R_unitRingType. Proof. by []. Qed.
Definition R_idomainMixin := FieldIdomainMixin R_field_mixin.
Canonical R_idomainType := Eval hnf in IdomainType R R_idomainMixin.
Canonical R_fieldType := Eval hnf in FieldType R R_field_mixin.

(* ---- reflection of the ring operations ---- *)
Lemma RplusE (x y : R) : x + y = Rplus x y. Proof. by []. Qed.
Lemma RoppE (x : R) : - x = Ropp x. Proof. by []. Qed.
Lemma RminusE (x y : R) : x - y = Rminus x y. Proof. by []. Qed.
Lemma RmultE (x y : R) : x * y = Rmult x y. Proof. by []. Qed.
Lemma RinvE (x : R) : x^-1 = Rinv x.
Proof. by []. Qed.
Lemma RdivE (x y : R) : x / y = Rdiv x y. Proof. by rewrite RinvE. Qed.
Lemma R0E : (0%R : R) = R0. Proof. by []. Qed.
Lemma R1E : (1%R : R) = R1. Proof. by []. Qed.
Lemma RnatE (n : nat) : (n%:R : R) = INR n.
Proof.
elim: n => [|n IH] //; rewrite S_INR -IH -addn1 natrD.
by [].
Qed.
Lemma ReqE (x y : R) : reflect (x = y) (x == y). Proof. exact: eqP. Qed.

(* ---- order ---- *)
Definition Rltb (x y : R) : bool := if Rlt_dec x y then true else false.
Definition Rleb (x y : R) : bool := if Rle_dec x y then true else false.
Arguments Rltb (_ _)%R.
Arguments Rleb (_ _)%R.
Definition normR (x : R) : R := (if Rltb x 0 then - x else x)%R.
Arguments normR _%R.
Lemma RltbP (x y : R) : reflect (Rlt x y) (Rltb x y).
Proof. by rewrite /Rltb; case: Rlt_dec => H; constructor. Qed.
Lemma RlebP (x y : R) : reflect (Rle x y) (Rleb x y).
Proof. by rewrite /Rleb; case: Rle_dec => H; constructor. Qed.

Lemma Rlt0_add (x y : R) : Rltb 0 x -> Rltb 0 y -> Rltb 0 (x + y).
Proof. move=> /RltbP Hx /RltbP Hy; apply/RltbP; rewrite ?RplusE ?R0E in Hx Hy *; lra. Qed.
Lemma Rlt0_mul (x y : R) : Rltb 0 x -> Rltb 0 y -> Rltb 0 (x * y).
Proof. move=> /RltbP Hx /RltbP Hy; apply/RltbP; exact: Rmult_lt_0_compat. Qed.
Lemma Rlt0_ngt0 (x : R) : Rltb 0 x -> ~~ Rltb x 0.
Proof. move=> /RltbP Hx; apply/negP => /RltbP Hx'; rewrite ?R0E in Hx Hx'; lra. Qed.
Lemma Rsub_gt0 (x y : R) : Rltb 0 (y - x) = Rltb x y.
Proof. by apply/RltbP/RltbP; rewrite ?RminusE ?R0E => H; lra. Qed.
Lemma Rlt0_total (x : R) : x != 0 -> Rltb 0 x || Rltb x 0.
Proof.
move=> /eqP Hx; apply/orP.
case: (total_order_T 0 x) => [[H|H]|H]; [left|by case: Hx|right]; exact/RltbP.
Qed.
Lemma normRN (x : R) : normR (- x) = normR x.
Proof.
rewrite /normR; case: (RltbP x 0) => Hx; case: (RltbP (- x) 0) => Hnx //;
  rewrite ?RoppE ?R0E in Hx Hnx *; lra.
Qed.
Lemma Rge0_norm (x : R) : Rleb 0 x -> normR x = x.
Proof.
move=> /RlebP Hx; rewrite /normR; case: RltbP => // Hx'; rewrite ?R0E in Hx Hx'; lra.
Qed.
Lemma Rle_def (x y : R) : Rleb x y = (x == y) || Rltb x y.
Proof.
apply/RlebP/orP => [H|[/eqP->|/RltbP H]].
- by case: H => H; [right; exact/RltbP | left; exact/eqP].
- exact: Rle_refl.
- exact: Rlt_le.
Qed.

Definition R_realLtMixin :=
  RealLtMixin Rlt0_add Rlt0_mul Rlt0_ngt0 Rsub_gt0 Rlt0_total normRN Rge0_norm Rle_def.
Canonical R_porderType := Eval hnf in POrderType ring_display R R_realLtMixin.
Canonical R_latticeType := Eval hnf in LatticeType R R_realLtMixin.
Canonical R_distrLatticeType := Eval hnf in DistrLatticeType R R_realLtMixin.
Canonical R_orderType := Eval hnf in OrderType R R_realLtMixin.
Canonical R_numDomainType := Eval hnf in NumDomainType R R_realLtMixin.
Canonical R_normedZmodType := Eval hnf in NormedZmodType R R R_realLtMixin.
Canonical R_numFieldType := Eval hnf in [numFieldType of R].
Canonical R_realDomainType := Eval hnf in [realDomainType of R].
Canonical R_realFieldType := Eval hnf in [realFieldType of R].
Check (R_realFieldType : realFieldType).

Import Num.Theory Order.Theory.

Lemma RleP (x y : R) : reflect (Rle x y) (x <= y).
Proof. exact: RlebP. Qed.
Lemma RltP (x y : R) : reflect (Rlt x y) (x < y).
Proof. exact: RltbP. Qed.
Lemma RnormE (x : R) : `|x| = Rabs x.
Proof.
have -> : `|x| = normR x by [].
rewrite /normR /Rabs; case: RltbP => H; case: Rcase_abs => H' //; rewrite ?R0E in H; lra.
Qed.

(* ---- the ordered log structure at R ---- *)
Definition Roln (x : R) : R := (ln x / 2%:R)%R.
Arguments Roln _%R.
Definition Rol2p : R := (ln (Rmult 2%:R PI) / 2%:R)%R.

Lemma two_E : (2%:R : R) = IZR 2.
Proof. by rewrite RnatE /= ; rewrite /IZR /= /IPR; ring_simplify. Qed.

Lemma RolnM (x y : R) : 0 < x -> 0 < y -> Roln (x * y) = Roln x + Roln y.
Proof.
move=> /RltP x0 /RltP y0; by rewrite /Roln [x * y]RmultE ln_mult // -[Rplus _ _]RplusE mulrDl.
Qed.

Lemma ln_lt_sub1 (x : R) : Rlt R0 x -> x <> R1 -> Rlt (ln x) (Rminus x R1).
Proof.
move=> x0 x1.
have e0 : Rminus x R1 <> R0 by lra.
have := @exp_ineq1 _ e0.
have -> : Rplus R1 (Rminus x R1) = x by lra.
move=> H; rewrite -[X in Rlt _ X]ln_exp; exact: ln_increasing.
Qed.

Lemma Roln_lt (x : R) : 0 < x -> x != 1 -> Roln x < (x - 1) / 2%:R.
Proof.
move=> /RltP x0 /eqP x1; rewrite /Roln.
rewrite ltr_pmul2r ?invr_gt0 ?ltr0n //.
by apply/RltP; rewrite RminusE; exact: ln_lt_sub1.
Qed.

Definition OR : ologS R_realFieldType := @OLogS R_realFieldType Roln Rol2p RolnM Roln_lt.
Definition LR : logS R_realFieldType := logS_of OR.

(* ---- sanity ---- *)
Lemma OR_olnE (x : R) : oln OR x = Rdiv (ln x) (IZR 2).
Proof. by rewrite /= /Roln RdivE two_E. Qed.
Lemma OR_ol2pE : ol2p OR = Rdiv (ln (Rmult (IZR 2) PI)) (IZR 2).
Proof. by rewrite /= /Rol2p RdivE two_E. Qed.
Lemma OR_oln_exp (x : R) : oln OR (exp x) = x / 2%:R.
Proof. by rewrite /= /Roln ln_exp. Qed.
Lemma LR_hlnE (x : R) : hln LR x = oln OR x. Proof. by []. Qed.
Lemma LR_hl2pE : hl2p LR = ol2p OR. Proof. by []. Qed.
Lemma LR_embE (x : R) : emb LR x = x. Proof. by []. Qed.
Lemma LR_hln_two_halves (x : R) : 0 < x -> hln LR x + hln LR x = ln x.
Proof.
move=> _; rewrite /= /Roln -mulrDr -mulr2n -mulr_natr mulVf ?mulr1 //.
by rewrite pnatr_eq0.
Qed.

Print Assumptions R_realFieldType.
Print Assumptions OR.
Print Assumptions LR.
