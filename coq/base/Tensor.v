(* Executable tensors: total functions with explicit sizes, their combinators, and the bridges
   to MathComp matrices.  Everything here is generic in the scalar field; the correspondence
   check runs it at Qc with vm_compute, the theorems are about the same terms. *)
From mathcomp Require Import all_ssreflect all_algebra.
Set Implicit Arguments.
Unset Strict Implicit.
Unset Printing Implicit Defensive.
Import GRing.Theory.
Local Open Scope ring_scope.

Section Tensor.
Variable F : fieldType.

Fixpoint sumn (n : nat) (f : nat -> F) : F :=
  match n with 0%N => 0 | S k => sumn k f + f k end.

Definition vec := nat -> F.
Definition mat := nat -> nat -> F.

(* materialisation points ("the array is computed here") *)
Definition tabv (n : nat) (v : vec) : vec :=
  let l := mkseq v n in fun i => nth 0 l i.
Definition tabm (m n : nat) (A : mat) : mat :=
  let l := mkseq (fun i => mkseq (A i) n) m in fun i j => nth 0 (nth [::] l i) j.
Definition tabb (R m n : nat) (A : nat -> mat) : nat -> mat :=
  let l := mkseq (fun r => tabm m n (A r)) R in fun r => nth (fun _ _ => 0) l r.
Definition tabbv (R n : nat) (A : nat -> vec) : nat -> vec :=
  let l := mkseq (fun r => tabv n (A r)) R in fun r => nth (fun _ => 0) l r.

(* views as MathComp matrices *)
Definition mxf (m n : nat) (A : mat) : 'M[F]_(m, n) := \matrix_(i, j) A i j.
Definition cvf (n : nat) (v : vec) : 'cV[F]_n := \col_i v i.

(* combinators *)
Definition madd (A B : mat) : mat := fun i j => A i j + B i j.
Definition msub (A B : mat) : mat := fun i j => A i j - B i j.
Definition mopp (A : mat) : mat := fun i j => - A i j.
Definition mscale (c : F) (A : mat) : mat := fun i j => c * A i j.
Definition mtr (A : mat) : mat := fun i j => A j i.
Definition mmul (n : nat) (A B : mat) : mat := fun i j => sumn n (fun k => A i k * B k j).
Definition mid : mat := fun i j => if i == j then 1 else 0.
Definition mzero : mat := fun _ _ => 0.
Definition mdiagv (d : vec) : mat := fun i j => if i == j then d i else 0.
Definition outer (u v : vec) : mat := fun i j => u i * v j.
Definition mvec (n : nat) (A : mat) (v : vec) : vec := fun i => sumn n (fun k => A i k * v k).
Definition vmat (n : nat) (v : vec) (A : mat) : vec := fun j => sumn n (fun k => v k * A k j).
Definition dot (n : nat) (u v : vec) : F := sumn n (fun k => u k * v k).
Definition vadd (u v : vec) : vec := fun i => u i + v i.
Definition vsub (u v : vec) : vec := fun i => u i - v i.
Definition vopp (u : vec) : vec := fun i => - u i.
Definition vscale (c : F) (u : vec) : vec := fun i => c * u i.
Definition vzero : vec := fun _ => 0.
Definition trace (n : nat) (A : mat) : F := sumn n (fun i => A i i).
Definition quad (n : nat) (A : mat) (x : vec) : F := dot n x (mvec n A x).
Definition mblock (dx : nat) (A B C E : mat) : mat := fun i j =>
  if (i < dx)%N then (if (j < dx)%N then A i j else B i (j - dx)%N)
  else (if (j < dx)%N then C (i - dx)%N j else E (i - dx)%N (j - dx)%N).
Definition vcat (dx : nat) (u v : vec) : vec := fun i => if (i < dx)%N then u i else v (i - dx)%N.
Definition mrows (idx : seq nat) (A : mat) : mat := fun i j => A (nth 0%N idx i) j.
Definition mcols (idx : seq nat) (A : mat) : mat := fun i j => A i (nth 0%N idx j).
Definition vsel (idx : seq nat) (v : vec) : vec := fun i => v (nth 0%N idx i).

(* ------------------------------------------------------------------ lemmas *)
Lemma sumnE n f : sumn n f = \sum_(i < n) f i.
Proof. by elim: n => [|n IH] /=; [rewrite big_ord0 | rewrite big_ord_recr /= IH]. Qed.

Lemma eq_sumn n f g : (forall i, (i < n)%N -> f i = g i) -> sumn n f = sumn n g.
Proof.
elim: n => [|n IH] //= H; rewrite IH ?H // => i Hi; apply: H.
exact: (ltn_trans Hi).
Qed.

Lemma sumnD n f g : sumn n (fun i => f i + g i) = sumn n f + sumn n g.
Proof. by rewrite !sumnE big_split. Qed.
Lemma sumnN n f : sumn n (fun i => - f i) = - sumn n f.
Proof. by rewrite !sumnE sumrN. Qed.
Lemma sumnB n f g : sumn n (fun i => f i - g i) = sumn n f - sumn n g.
Proof. by rewrite !sumnE sumrB. Qed.
Lemma sumnMl n c f : sumn n (fun i => c * f i) = c * sumn n f.
Proof. by rewrite !sumnE mulr_sumr. Qed.
Lemma sumnMr n c f : sumn n (fun i => f i * c) = sumn n f * c.
Proof. by rewrite !sumnE mulr_suml. Qed.
Lemma sumn0 n : sumn n (fun _ => 0) = 0.
Proof. by rewrite sumnE big1. Qed.

Lemma tabvE n v i : (i < n)%N -> tabv n v i = v i.
Proof. by move=> Hi; rewrite /tabv nth_mkseq. Qed.
Lemma tabmE m n A i j : (i < m)%N -> (j < n)%N -> tabm m n A i j = A i j.
Proof. by move=> Hi Hj; rewrite /tabm nth_mkseq // nth_mkseq. Qed.
Lemma tabbE R m n A r i j : (r < R)%N -> (i < m)%N -> (j < n)%N -> tabb R m n A r i j = A r i j.
Proof. by move=> Hr Hi Hj; rewrite /tabb nth_mkseq // tabmE. Qed.
Lemma tabbvE R n A r i : (r < R)%N -> (i < n)%N -> tabbv R n A r i = A r i.
Proof. by move=> Hr Hi; rewrite /tabbv nth_mkseq // tabvE. Qed.

Lemma mxfP m n A B : (forall i j, (i < m)%N -> (j < n)%N -> A i j = B i j) <-> mxf m n A = mxf m n B.
Proof.
split=> [H|H i j Hi Hj].
  by apply/matrixP => i j; rewrite !mxE H.
by move/matrixP/(_ (Ordinal Hi) (Ordinal Hj)): H; rewrite !mxE.
Qed.
Lemma cvfP n u v : (forall i, (i < n)%N -> u i = v i) <-> cvf n u = cvf n v.
Proof.
split=> [H|H i Hi].
  by apply/matrixP => i j; rewrite !mxE H.
by move/matrixP/(_ (Ordinal Hi) ord0): H; rewrite !mxE.
Qed.

Lemma mxf_tab m n A : mxf m n (tabm m n A) = mxf m n A.
Proof. by apply/mxfP => i j Hi Hj; rewrite tabmE. Qed.
Lemma cvf_tab n v : cvf n (tabv n v) = cvf n v.
Proof. by apply/cvfP => i Hi; rewrite tabvE. Qed.
Lemma mxf_tabb R m n A r : (r < R)%N -> mxf m n (tabb R m n A r) = mxf m n (A r).
Proof. by move=> Hr; apply/mxfP => i j Hi Hj; rewrite tabbE. Qed.
Lemma cvf_tabbv R n A r : (r < R)%N -> cvf n (tabbv R n A r) = cvf n (A r).
Proof. by move=> Hr; apply/cvfP => i Hi; rewrite tabbvE. Qed.

Lemma mxf_add m n A B : mxf m n (madd A B) = mxf m n A + mxf m n B.
Proof. by apply/matrixP => i j; rewrite !mxE. Qed.
Lemma mxf_sub m n A B : mxf m n (msub A B) = mxf m n A - mxf m n B.
Proof. by apply/matrixP => i j; rewrite !mxE. Qed.
Lemma mxf_opp m n A : mxf m n (mopp A) = - mxf m n A.
Proof. by apply/matrixP => i j; rewrite !mxE. Qed.
Lemma mxf_scale m n c A : mxf m n (mscale c A) = c *: mxf m n A.
Proof. by apply/matrixP => i j; rewrite !mxE. Qed.
Lemma mxf_tr m n A : mxf m n (mtr A) = (mxf n m A)^T.
Proof. by apply/matrixP => i j; rewrite !mxE. Qed.
Lemma mxf_mul m n p A B : mxf m p (mmul n A B) = mxf m n A *m mxf n p B.
Proof.
apply/matrixP => i j; rewrite !mxE /mmul sumnE.
by apply: eq_bigr => k _; rewrite !mxE.
Qed.
Lemma mxf_id n : mxf n n mid = 1%:M.
Proof. by apply/matrixP => i j; rewrite !mxE /mid -val_eqE; case: (_ == _). Qed.
Lemma mxf_zero m n : mxf m n mzero = 0.
Proof. by apply/matrixP => i j; rewrite !mxE. Qed.
Lemma mxf_outer m n u v : mxf m n (outer u v) = cvf m u *m (cvf n v)^T.
Proof. by apply/matrixP => i j; rewrite !mxE big_ord_recl big_ord0 addr0 !mxE. Qed.
Lemma cvf_mvec m n A v : cvf m (mvec n A v) = mxf m n A *m cvf n v.
Proof.
apply/matrixP => i j; rewrite !mxE /mvec sumnE.
by apply: eq_bigr => k _; rewrite !mxE.
Qed.
Lemma cvf_vmat m n v A : (cvf n (vmat m v A))^T = (cvf m v)^T *m mxf m n A.
Proof.
apply/matrixP => i j; rewrite !mxE /vmat sumnE.
by apply: eq_bigr => k _; rewrite !mxE.
Qed.
Lemma cvf_add n u v : cvf n (vadd u v) = cvf n u + cvf n v.
Proof. by apply/matrixP => i j; rewrite !mxE. Qed.
Lemma cvf_sub n u v : cvf n (vsub u v) = cvf n u - cvf n v.
Proof. by apply/matrixP => i j; rewrite !mxE. Qed.
Lemma cvf_opp n u : cvf n (vopp u) = - cvf n u.
Proof. by apply/matrixP => i j; rewrite !mxE. Qed.
Lemma cvf_scale n c u : cvf n (vscale c u) = c *: cvf n u.
Proof. by apply/matrixP => i j; rewrite !mxE. Qed.
Lemma cvf_zero n : cvf n vzero = 0.
Proof. by apply/matrixP => i j; rewrite !mxE. Qed.
Lemma dotE n u v : dot n u v = ((cvf n u)^T *m cvf n v) 0 0.
Proof. by rewrite /dot sumnE mxE; apply: eq_bigr => k _; rewrite !mxE. Qed.
Lemma traceE n A : trace n A = \tr (mxf n n A).
Proof. by rewrite /trace sumnE /mxtrace; apply: eq_bigr => k _; rewrite !mxE. Qed.
Lemma quadE n A x : quad n A x = ((cvf n x)^T *m mxf n n A *m cvf n x) 0 0.
Proof. by rewrite /quad dotE cvf_mvec mulmxA. Qed.

Lemma mxf_block dx dy A B C E :
  mxf (dx + dy) (dx + dy) (mblock dx A B C E)
  = block_mx (mxf dx dx A) (mxf dx dy B) (mxf dy dx C) (mxf dy dy E).
Proof.
apply/matrixP => i j; rewrite [LHS]mxE /mblock.
case: (split_ordP i) => i' ->; case: (split_ordP j) => j' ->;
  rewrite ?block_mxEul ?block_mxEur ?block_mxEdl ?block_mxEdr !mxE /= ?ltn_ord //
          ?ltnNge ?leq_addr /= ?addKn //.
Qed.
Lemma cvf_cat dx dy u v : cvf (dx + dy) (vcat dx u v) = col_mx (cvf dx u) (cvf dy v).
Proof.
apply/matrixP => i j; rewrite [LHS]mxE /vcat.
case: (split_ordP i) => i' ->; rewrite ?col_mxEu ?col_mxEd !mxE /= ?ltn_ord //
          ?ltnNge ?leq_addr /= ?addKn //.
Qed.

Lemma mxf_diagv n d : mxf n n (mdiagv d) = diag_mx ((cvf n d)^T).
Proof. by apply/matrixP => i j; rewrite !mxE /mdiagv -val_eqE; case: (_ == _); rewrite ?mulr1n ?mulr0n. Qed.

End Tensor.

Arguments mid {F}.
Arguments mzero {F}.
Arguments vzero {F}.
