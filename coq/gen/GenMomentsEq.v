From mathcomp Require Import all_ssreflect all_algebra.
From mathcomp Require Import ring.
From GT Require Import Tensor DetExec LogDom Obj Factor Measure Moments.
Require Import GenMoments.
Set Implicit Arguments. Unset Strict Implicit. Unset Printing Implicit Defensive.
Import GRing.Theory Num.Theory.
Local Open Scope ring_scope.

(* The definitions GENERATED from the Python source (GenMoments.v) equal the hand-written model
   (model/Moments.v), index by index.

   The proofs do not look at the names of the generated [let]s nor at the parenthesisation of the
   generated text: both sides are unfolded down to nested [sumn]s over ring expressions and the
   tactic [sum_ring] proves the equality "modulo ring axioms, with sums as atoms":
     - every [sumn n f] on the left is paired with some [sumn n g] on the right for which
       [forall i, f i = g i] can be proved by the same tactic (recursively, through [eq_sumn]);
       paired sums are replaced by ONE opaque variable on both sides;
     - when no sum is left to pair, the remaining sums are abstracted as atoms and [ring] closes
       the goal (commutativity / associativity / distributivity of + and * between the atoms).  *)

(* ---- algebra of [sumn] (Tensor.v has sumnD / sumnMl / sumnMr; the names asked for here) ---- *)
Section SumnLemmas.
Variable F : realFieldType.
Implicit Types (f g : nat -> F) (c : F).

Lemma sumn_mull n c f : c * sumn n f = sumn n (fun i => c * f i).
Proof. by elim: n => [|n IH] /=; rewrite ?mulr0 // mulrDr IH. Qed.
Lemma sumn_mulr n c f : sumn n f * c = sumn n (fun i => f i * c).
Proof. by elim: n => [|n IH] /=; rewrite ?mul0r // mulrDl IH. Qed.
Lemma sumn_add n f g : sumn n f + sumn n g = sumn n (fun i => f i + g i).
Proof. by elim: n => [|n IH] /=; rewrite ?addr0 // -IH; ring. Qed.
Lemma sumn_exchange m n (f : nat -> nat -> F) :
  sumn m (fun i => sumn n (fun j => f i j)) = sumn n (fun j => sumn m (fun i => f i j)).
Proof.
elim: m => [|m IH] /=; first by elim: n => [|n IHn] //=; rewrite -IHn addr0.
by rewrite IH sumn_add.
Qed.
End SumnLemmas.

(* ---- the tactic ---- *)
Ltac sr_abs_rest :=
  repeat match goal with
  | |- context [@sumn ?F ?n ?f] =>
      let x := fresh "s" in set x := (@sumn F n f); clearbody x
  end.

Ltac sum_ring :=
  cbv beta;
  repeat match goal with
  | |- ?L = ?R =>
      match L with
      | context [@sumn ?F ?n ?f] =>
          first
          [ (* the very same sum occurs on the right: one atom *)
            match R with
            | context [@sumn F n f] =>
                let x := fresh "s" in set x := (@sumn F n f); clearbody x
            end
          | (* some sum over the same range on the right is pointwise equal *)
            match R with
            | context [@sumn F n ?g] =>
                let H := fresh "H" in
                let x := fresh "s" in
                (have H : @sumn F n f = @sumn F n g
                   by (apply: eq_sumn => ? _; sum_ring));
                rewrite H; clear H;
                set x := (@sumn F n g); clearbody x
            end ]
      end
  end;
  sr_abs_rest; ring.

(* unfold the generated definitions and the model down to [sumn] and ring operations *)
Ltac unfold_all :=
  cbv beta zeta delta
    [gen_general_linear gen_xxT gen_general_quadratic_inner gen_general_quadratic_outer
     gen_xbxx gen_general_cubic_inner gen_general_cubic_outer gen_general_quartic_outer
     gen_general_quartic_inner
     E_linear E_xxT E_quadratic_inner E_quadratic_outer E_xbxx E_cubic_inner
     E_cubic_outer_general E_quartic_outer E_quartic_inner aff XSY
     madd msub mopp mscale mtr mmul outer mvec vmat dot vadd vsub vopp vscale trace].

Ltac gen_eq := unfold_all; sum_ring.

Section GenEq.
Variable F : realFieldType.
Variable D : nat.
Variables (mu : vec F) (S : mat F).

Theorem gen_general_linear_eq K A a i : gen_general_linear D mu K A a i = E_linear D mu A a i.
Proof. by gen_eq. Qed.

Theorem gen_xxT_eq i j : gen_xxT mu S i j = E_xxT mu S i j.
Proof. by gen_eq. Qed.

Theorem gen_general_quadratic_inner_eq K A a B b :
  gen_general_quadratic_inner D mu S K A a B b = E_quadratic_inner D mu S K A a B b.
Proof. by gen_eq. Qed.

Theorem gen_general_quadratic_outer_eq K L A a B b i j :
  gen_general_quadratic_outer D mu S K L A a B b i j = E_quadratic_outer D mu S A a B b i j.
Proof. by gen_eq. Qed.

Theorem gen_xbxx_eq b i j : gen_xbxx D mu S b i j = E_xbxx D mu S b i j.
Proof. by gen_eq. Qed.

Theorem gen_general_cubic_inner_eq K L A a B b C c i :
  gen_general_cubic_inner D mu S K L A a B b C c i = E_cubic_inner D mu S L A a B b C c i.
Proof. by gen_eq. Qed.

Theorem gen_general_cubic_outer_eq K L A a B b C c i :
  gen_general_cubic_outer D mu S K L A a B b C c i = E_cubic_outer_general D mu S K A a B b C c i.
Proof. by gen_eq. Qed.

Theorem gen_general_quartic_outer_eq K L M A a B b C c Dm d i j :
  gen_general_quartic_outer D mu S K L M A a B b C c Dm d i j
  = E_quartic_outer D mu S L A a B b C c Dm d i j.
Proof. by gen_eq. Qed.

Theorem gen_general_quartic_inner_eq K L A a B b C c Dm d :
  gen_general_quartic_inner D mu S K L A a B b C c Dm d
  = E_quartic_inner D mu S K L A a B b C c Dm d.
Proof. by gen_eq. Qed.

End GenEq.

Print Assumptions gen_general_linear_eq.
Print Assumptions gen_xxT_eq.
Print Assumptions gen_general_quadratic_inner_eq.
Print Assumptions gen_general_quadratic_outer_eq.
Print Assumptions gen_xbxx_eq.
Print Assumptions gen_general_cubic_inner_eq.
Print Assumptions gen_general_cubic_outer_eq.
Print Assumptions gen_general_quartic_outer_eq.
Print Assumptions gen_general_quartic_inner_eq.

(* ---- wiring: the integration table and the wrappers, as extracted from the source ---- *)
From Coq Require Import String List.
Import ListNotations.
Open Scope string_scope.
(* every documented expression is routed to the method of the same name *)
Theorem dispatch_table_ok : dispatch =
  [("1", "integral"); ("x", "integrate_x"); ("(Ax+a)", "integrate_general_linear"); ("xx'", "integrate_xxT");
   ("(Ax+a)'(Bx+b)", "integrate_general_quadratic_inner"); ("(Ax+a)(Bx+b)'", "integrate_general_quadratic_outer");
   ("(Ax+a)(Bx+b)'(Cx+c)", "integrate_general_cubic_inner"); ("(Ax+a)'(Bx+b)(Cx+c)'", "integrate_general_cubic_outer");
   ("x(A'x + a)x'", "integrate_cubic_outer"); ("xb'xx'", "integrate_xbxx");
   ("(Ax+a)'(Bx+b)(Cx+c)'(Dx+d)", "integrate_general_quartic_inner"); ("(Ax+a)(Bx+b)'(Cx+c)(Dx+d)'", "integrate_general_quartic_outer");
   ("log u(x)", "integrate_log_factor")].
Proof. reflexivity. Qed.
(* every general wrapper passes each (matrix, vector) pair through _get_default, takes the total mass, and returns mass * the
   expectation of the SAME expression with the arguments in their declared order (the translator has checked the shape
   "constant = self.integral(); return constant[...] * self._expectation_*(...)" of the body) *)
Definition expected_wrapper (key wr ex : string) (n : nat) : string * string * string * list string * list string :=
  let names := firstn (2 * n) ["A_mat"; "a_vec"; "B_mat"; "b_vec"; "C_mat"; "c_vec"; "D_mat"; "d_vec"] in
  (key, wr, ex, names, names).
Theorem wrappers_ok : wrappers =
  [expected_wrapper "(Ax+a)" "integrate_general_linear" "_expectation_general_linear" 1;
   expected_wrapper "(Ax+a)'(Bx+b)" "integrate_general_quadratic_inner" "_expectation_general_quadratic_inner" 2;
   expected_wrapper "(Ax+a)(Bx+b)'" "integrate_general_quadratic_outer" "_expectation_general_quadratic_outer" 2;
   expected_wrapper "(Ax+a)(Bx+b)'(Cx+c)" "integrate_general_cubic_inner" "_expectation_general_cubic_inner" 3;
   expected_wrapper "(Ax+a)'(Bx+b)(Cx+c)'" "integrate_general_cubic_outer" "_expectation_general_cubic_outer" 3;
   expected_wrapper "(Ax+a)'(Bx+b)(Cx+c)'(Dx+d)" "integrate_general_quartic_inner" "_expectation_general_quartic_inner" 4;
   expected_wrapper "(Ax+a)(Bx+b)'(Cx+c)(Dx+d)'" "integrate_general_quartic_outer" "_expectation_general_quartic_outer" 4].
Proof. reflexivity. Qed.
Print Assumptions dispatch_table_ok.
Print Assumptions wrappers_ok.
