(* approximate_conditional.py: moment matching of the approximate conditionals (C16) and the
   x-dependent covariance of the heteroscedastic ones (C17).  Quantities that pass through exp / Phi
   (kernel expectations E[k], expected link values) enter the model as INPUTS ("seams"): the model is the
   exact linear algebra the code performs on them; the kernel construction and the log-integrals that
   produce them are modelled with Factor / Measure and compared in the log domain. *)
From mathcomp Require Import all_ssreflect all_algebra.
From GT Require Import Tensor DetExec LogDom Obj Factor Measure Pdf Cond Moments.
Set Implicit Arguments.
Unset Strict Implicit.
Unset Printing Implicit Defensive.
Import GRing.Theory Num.Theory.
Local Open Scope ring_scope.

Section Approx.
Variable F : realFieldType.
Variable LS : logS F.
Notation mat := (mat F).
Notation vec := (vec F).
Notation lvec := (nat -> LS).
Notation measure := (measure LS).
Notation cond := (cond LS).
Notation factor := (factor LS).

(* ---- kernels (approximate_conditional.py:337-342, 551-556) ---- *)
(* RBF: k_j(x) = exp(-1/2 |x - c_j|^2 / l_j^2) as a diagonal measure: Lambda = I / l^2, nu = c / l^2,
   ln beta = -1/2 sum (c / l)^2; l is per kernel and per dimension [Dk, Dx] *)
Definition lrbf_kfunc (Dk Dx : nat) (c l : nat -> vec) : measure :=
  mk_measure CDiagMeas Dk Dx
    (fun j => mdiagv (fun i => (l j i * l j i)^-1)) (fun j i => c j i / (l j i * l j i))
    (fun j => emb LS (- half F * sumn Dx (fun i => (c j i / l j i) * (c j i / l j i)))) None None None.
(* squared-exponential: k_j(x) = exp(-1/2 (w_j'x - w0_j)^2) as a rank-one factor: v = w, g = 1,
   nu = w * w0, ln beta = -1/2 w0^2  (W[:,0] is w0, W[:,1:] is w) *)
Definition lsem_kfunc (Dk Dx : nat) (w : nat -> vec) (w0 : vec) : factor :=
  mk_onerank Dk Dx w (fun _ => 1) (fun j => vscale (w0 j) (w j)) (fun j => emb LS (- half F * (w0 j * w0 j))).

(* ---- feature models: y = M [x; k(x)] + b + noise, one component of p(x) ----
   inputs: Ex, Exx (moments of x), Ek_j = E[k_j], Ekx_j = E[k_j x], Ekk_ij = E[k_i k_j] *)
Section Feature.
Variables (Dx Dk Dy : nat) (M : mat) (b : vec) (Sig : mat).
Variables (Ex : vec) (Exx : mat) (Ek : vec) (Ekx Ekk : mat) (mux : vec) (Sx : mat).
Definition Dphi := (Dx + Dk)%N.
Definition Ef : vec := vcat Dx Ex Ek.
Definition Eff : mat := mblock Dx Exx (mtr Ekx) Ekx Ekk.
Definition fm_mu : vec := vadd (mvec Dphi M Ef) b.
Definition fm_Sigma : mat :=
  let MEf := tabv Dy (mvec Dphi M Ef) in
  let S0 := fun i j => Sig i j + mmul Dphi M (mmul Dphi Eff (mtr M)) i j
                       + MEf i * b j + MEf j * b i + b i * b j - fm_mu i * fm_mu j in
  fun i j => half F * (S0 i j + S0 j i).
(* E[y x'] = M [Exx; Ekx] + b Ex' *)
Definition fm_Eyx : mat :=
  let Efx : mat := fun i j => if (i < Dx)%N then Exx i j else Ekx (i - Dx)%N j in
  madd (mmul Dphi M Efx) (outer b Ex).
Definition fm_cov_yx : mat := fun i j => fm_Eyx i j - fm_mu i * mux j.
Definition fm_joint_mu : vec := vcat Dx mux fm_mu.
Definition fm_joint_Sigma : mat := mblock Dx Sx (mtr fm_cov_yx) fm_cov_yx fm_Sigma.
(* conditional transformation: the Gaussian conditional of that joint *)
Definition fm_cond_M : mat := mmul Dy (mtr fm_cov_yx) (minv Dy (tabm Dy Dy fm_Sigma)).
Definition fm_cond_b : vec := vsub mux (mvec Dy fm_cond_M fm_mu).
Definition fm_cond_Sigma : mat :=
  let S0 := tabm Dx Dx (msub Sx (mmul Dy (tabm Dx Dy fm_cond_M) fm_cov_yx)) in fun i j => half F * (S0 i j + S0 j i).
End Feature.

(* ---- heteroscedastic conditionals (approximate_conditional.py:776-838) ---- *)
Section Hetero.
Variables (Dy Da Dk Dx : nat) (A : mat) (M : mat) (b : vec).
Definition het_Sigma0 : mat := tabm Dy Dy (mmul Da A (mtr A)).
Definition het_Lambda0 : mat := minv Dy het_Sigma0.
Definition het_hS0 : LS := hln LS (detn Dy het_Sigma0).
Definition Ak : mat := fun i j => A i j.           (* first Dk columns *)
(* Sigma(x) = A A' + A_k diag(link(h(x))) A_k' *)
Definition het_Sigma (Dv : vec) : mat := madd het_Sigma0 (mmul Dk Ak (mmul Dk (mdiagv Dv) (mtr Ak))).
(* the code's inverse: Lambda - (Lambda A_k) diag(D / (1 + D)) (Lambda A_k)' and ln det Sigma + sum ln (1 + D) *)
Definition het_Lambda (Dv : vec) : mat :=
  let Ai := tabm Dy Dk (mmul Dy het_Lambda0 Ak) in
  msub het_Lambda0 (mmul Dk Ai (mmul Dk (mdiagv (fun j => Dv j / (1 + Dv j))) (mtr Ai))).
Definition het_hS (Dv : vec) : LS := het_hS0 + suml Dk (fun j => hln LS (1 + Dv j)).
(* repaired variant: the true inverse and log-determinant of Sigma(x) *)
Definition het_Lambda_true (Dv : vec) : mat := minv Dy (tabm Dy Dy (het_Sigma Dv)).
Definition het_hS_true (Dv : vec) : LS := hln LS (detn Dy (tabm Dy Dy (het_Sigma Dv))).
(* condition_on_x at N points with link values Dvs *)
Definition het_condition_on_x (faithful : bool) (xs Dvs : seq vec) : measure :=
  let N := size xs in
  mk_pdf false N Dy (fun n => het_Sigma (nth vzero Dvs n))
         (fun n => vadd (mvec Dx M (nth vzero xs n)) b)
         (Some (fun n => if faithful then het_Lambda (nth vzero Dvs n) else het_Lambda_true (nth vzero Dvs n)))
         (Some (fun n => if faithful then het_hS (nth vzero Dvs n) else het_hS_true (nth vzero Dvs n))).

(* moment matching: Dint_j = E[link(h_j(x))] (input), one component of p(x) with mean mux, covariance Sx *)
Variables (mux : vec) (Sx : mat) (Dint : vec).
Definition het_Sigma_int : mat :=
  let S0 := tabm Dy Dy (het_Sigma Dint) in fun i j => half F * (S0 i j + S0 j i).
Definition het_mu : vec := vadd (mvec Dx M mux) b.
Definition het_Sigma_y : mat :=
  let Eyy := madd het_Sigma_int (E_quadratic_outer Dx mux Sx M b M b) in
  let S0 := fun i j => Eyy i j - het_mu i * het_mu j in
  fun i j => half F * (S0 i j + S0 j i).
Definition het_Eyx : mat := E_quadratic_outer Dx mux Sx M b mid vzero.
Definition het_cov_yx : mat := fun i j => het_Eyx i j - het_mu i * mux j.
Definition het_joint_Sigma : mat := mblock Dx Sx (mtr het_cov_yx) het_cov_yx het_Sigma_y.
Definition het_cond_M : mat := mmul Dy (mtr het_cov_yx) (minv Dy (tabm Dy Dy het_Sigma_y)).
Definition het_cond_b : vec := vsub mux (mvec Dy het_cond_M het_mu).
Definition het_cond_Sigma : mat := msub Sx (mmul Dy (tabm Dx Dy het_cond_M) het_cov_yx).
End Hetero.

End Approx.
