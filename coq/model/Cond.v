(* conditional.py: the linear-Gaussian conditional classes as operators on densities. *)
From mathcomp Require Import all_ssreflect all_algebra.
From GT Require Import Tensor DetExec LogDom Obj Factor Measure Pdf.
Set Implicit Arguments.
Unset Strict Implicit.
Unset Printing Implicit Defensive.
Import GRing.Theory Num.Theory.
Local Open Scope ring_scope.

Section CondModel.
Variable F : realFieldType.
Variable LS : logS F.
Notation mat := (mat F).
Notation vec := (vec F).
Notation lvec := (nat -> LS).
Notation measure := (measure LS).
Notation cond := (cond LS).
Notation factor := (factor LS).

(* effective M, b of a component (identity classes: M = I, b = 0) *)
Definition effM (c : cond) (r : nat) : mat := if cident (ccl c) then mid else cM c r.
Definition effb (c : cond) (r : nat) : vec := if cident (ccl c) then vzero else cb c r.

(* set_y (conditional.py:160-201, 982-1014, 1417-1442).
   dxn = true : the normaliser carries Dx * 1/2 ln 2pi, as the code does (faithful variant);
   dxn = false: Dy * 1/2 ln 2pi (repaired variant).  N observations; R = 1 or R = N. *)
Definition set_y (dxn : bool) (c : cond) (ys : seq vec) : factor :=
  let N := size ys in let R := cR c in let Dy := cDy c in let Dx := cDx c in
  let Rn := if R == 1%N then N else R in
  let rc := bidx R in
  let ymb := fun k => vsub (nth vzero ys k) (effb c (rc k)) in
  let LM := fun r => mmul Dy (cLam c r) (effM c r) in                     (* Lambda M : Dy x Dx *)
  mk_general Rn Dx
    (fun k => mmul Dy (mtr (effM c (rc k))) (LM (rc k)))                    (* M' Lambda M *)
    (fun k => vmat Dy (ymb k) (LM (rc k)))                                  (* (Lambda M)' (y - b) *)
    (fun k => emb LS (- (half F) * dot Dy (vmat Dy (ymb k) (cLam c (rc k))) (ymb k))
              - hl2p LS *+ (if dxn then Dx else Dy) - chS c (rc k)).

(* batch layout of all three affine transformations: R = R_cond * R_x, k = rc * R_x + rx *)
Definition jrc (p : measure) (k : nat) : nat := (k %/ uR p)%N.
Definition jrx (p : measure) (k : nat) : nat := (k %% uR p)%N.

(* affine_marginal_transformation (conditional.py:295-326, 1100-1131) *)
Definition marg_Sigma (c : cond) (p : measure) (k : nat) : mat :=
  let Dx := cDx c in let M := effM c (jrc p k) in
  madd (cSig c (jrc p k)) (mmul Dx (mmul Dx M (getS p (jrx p k))) (mtr M)).
Definition affine_marginal (c : cond) (p : measure) : measure :=
  let R := (cR c * uR p)%N in
  mk_pdf false R (cDy c) (marg_Sigma c p) (fun k => cond_mu c (jrc p k) (getmu p (jrx p k))) None None.

(* affine_joint_transformation (conditional.py:203-293, 1016-1098), x first *)
Definition joint_Sigma (c : cond) (p : measure) (k : nat) : mat :=
  let Dx := cDx c in let M := effM c (jrc p k) in
  let C := tabm (cDy c) Dx (mmul Dx M (getS p (jrx p k))) in                (* M Sigma_x *)
  mblock Dx (getS p (jrx p k)) (mtr C) C (marg_Sigma c p k).
Definition joint_Lambda (c : cond) (p : measure) (k : nat) : mat :=
  let Dx := cDx c in let Dy := cDy c in let M := effM c (jrc p k) in
  let LM := tabm Dy Dx (mmul Dy (cLam c (jrc p k)) M) in                    (* Lambda_y M *)
  mblock Dx (madd (uLam p (jrx p k)) (mmul Dy (mtr M) LM)) (mtr (mopp LM)) (mopp LM) (cLam c (jrc p k)).
Definition joint_hld (c : cond) (p : measure) (k : nat) : LS :=
  let Dx := cDx c in let Dy := cDy c in let M := effM c (jrc p k) in
  if (Dy < Dx)%N then
    (* ln det Sigma_x + ln det (Sigma_y - C Lambda_x C') *)
    let C := tabm Dy Dx (mmul Dx M (getS p (jrx p k))) in
    gethS p (jrx p k)
    + hln LS (detn Dy (msub (marg_Sigma c p k) (mmul Dx (mmul Dx C (uLam p (jrx p k))) (mtr C))))
  else
    (* -(ln det Lambda_y + ln det (Lambda_x' - L' Sigma_y L)),  L = -Lambda_y M *)
    let L := tabm Dy Dx (mopp (mmul Dy (cLam c (jrc p k)) M)) in
    let Lx := madd (uLam p (jrx p k)) (mmul Dy (mtr M) (mopp L)) in
    - (- chS c (jrc p k)
       + hln LS (detn Dx (msub Lx (mmul Dy (mtr L) (mmul Dy (cSig c (jrc p k)) L))))).
Definition affine_joint (c : cond) (p : measure) : measure :=
  let R := (cR c * uR p)%N in let Dx := cDx c in
  mk_pdf false R (Dx + cDy c) (joint_Sigma c p)
    (fun k => vcat Dx (getmu p (jrx p k)) (cond_mu c (jrc p k) (getmu p (jrx p k))))
    (Some (joint_Lambda c p)) (Some (joint_hld c p)).

(* affine_conditional_transformation (conditional.py:328-383, 1133-1185): p(x|y), general class *)
Definition affine_conditional (c : cond) (p : measure) : cond :=
  let R := (cR c * uR p)%N in let Dx := cDx c in let Dy := cDy c in
  let MtL := fun k => tabm Dx Dy (mmul Dy (mtr (effM c (jrc p k))) (cLam c (jrc p k))) in   (* M' Lambda_y *)
  let Lx := tabb R Dx Dx (fun k => madd (uLam p (jrx p k)) (mmul Dy (MtL k) (effM c (jrc p k)))) in
  let Sx := tabb R Dx Dx (fun k => minv Dx (Lx k)) in
  let hL := tabl R (fun k => hln LS (detn Dx (Lx k))) in
  let Mx := tabb R Dx Dy (fun k => mmul Dx (Sx k) (MtL k)) in
  let bx := fun k => vadd (vopp (mvec Dy (Mx k) (effb c (jrc p k)))) (mvec Dx (Sx k) (unu p (jrx p k))) in
  mk_cond CFull R Dx Dy Mx bx (Some Sx) (Some Lx) (Some (fun k => - hL k)).

(* conditional_entropy, mutual_information (conditional.py:463-496, 1258-1291).
   sgn = true: H(Y|X) - H(Y) as the pinned code computed it; false: H(Y) - H(Y|X) *)
Definition conditional_entropy (c : cond) (p : measure) : lvec :=
  let j := affine_joint c p in
  fun k => entropy j k - entropy p (bidx (uR p) k).
Definition mutual_information (neg : bool) (c : cond) (p : measure) : lvec :=
  let ce := conditional_entropy c p in let py := affine_marginal c p in
  fun k => if neg then ce k - entropy py k else entropy py k - ce k.

(* update_Sigma (conditional.py:498-513, 1293-1306) *)
Definition update_Sigma (c : cond) (Sig : nat -> mat) : cond :=
  mk_cond (ccl c) (cR c) (cDy c) (cDx c) (cM c) (cb c) (Some Sig) None None.

(* NNControlGaussianConditional.set_control_variable (conditional.py:626-664): M(u), b(u) from the
   control function (evaluated outside the model), Sigma / Lambda / ln_det_Sigma tiled *)
Definition nn_set_control (base : cond) (Ru : nat) (M : nat -> mat) (b : nat -> vec) : cond :=
  Cond Ru (cDy base) (cDx base) (tabb Ru (cDy base) (cDx base) M) (tabbv Ru (cDy base) b)
       (fun _ => cSig base 0%N) (fun _ => cLam base 0%N) (fun _ => chS base 0%N) CFull.

End CondModel.
