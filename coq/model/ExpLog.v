(* Expected log-factor and expected log-conditional integrals (C14), linear-Gaussian classes:
   factor.py:228-248, measure.py:1027-1036, conditional.py:385-461, 796-849, 1187-1256, 1444-1512.
   Every result is (total mass) * (an expectation in the log domain); densities have mass 1. *)
From mathcomp Require Import all_ssreflect all_algebra.
From GT Require Import Tensor DetExec LogDom Obj Factor Measure Pdf Cond Moments.
Set Implicit Arguments.
Unset Strict Implicit.
Unset Printing Implicit Defensive.
Import GRing.Theory Num.Theory.
Local Open Scope ring_scope.

Section ExpLog.
Variable F : realFieldType.
Variable LS : logS F.
Notation mat := (mat F).
Notation vec := (vec F).
Notation lvec := (nat -> LS).
Notation measure := (measure LS).
Notation cond := (cond LS).
Notation factor := (factor LS).

(* integrate("log u(x)", factor=f) / integral(): -1/2 E[x' Lambda_f x] + nu_f . E[x] + ln beta_f;
   factor batch R_f = 1 (broadcast) or R_f = R *)
Definition int_log_factor (u : measure) (f : factor) (r : nat) : LS :=
  let u1 := prepare u in let D := uD u in let rf := bidx (fR f) r in
  emb LS (- half F * E_quadratic_inner D (getmu u1 r) (getS u1 r) D mid vzero (fLam f rf) vzero
          + dot D (fnu f rf) (getmu u1 r))
  + flb f rf.

(* integrate_log_conditional(p_yx): E_q[ln p(y|x)], q over z = (y, x), y FIRST.
   A = [I, -M], a = -b, A~ = Lambda A, a~ = Lambda a *)
Definition ilc_A (c : cond) (r : nat) : mat := fun i j =>
  if (j < cDy c)%N then (if i == j then 1 else 0) else - effM c r i (j - cDy c)%N.
Definition int_log_cond (c : cond) (q : measure) (k : nat) : LS :=
  let q1 := prepare q in let Dy := cDy c in let Dz := (cDy c + cDx c)%N in
  let r := bidx (cR c) k in let rq := bidx (uR q) k in
  let A := tabm Dy Dz (ilc_A c r) in let a := vopp (effb c r) in
  let At := tabm Dy Dz (mmul Dy (cLam c r) A) in let at' := mvec Dy (cLam c r) a in
  emb LS (- half F * E_quadratic_inner Dz (getmu q1 rq) (getS q1 rq) Dy A a At at')
  - chS c r - hl2p LS *+ Dy.

(* integrate_log_conditional_y(p_x, y): y -> E_{p(x)}[ln p(y|x)]; R_cond = 1; component k of the result
   pairs p_x component (bidx R k) with observation (bidx N k) *)
Definition int_log_cond_y (c : cond) (p : measure) (ys : seq vec) (k : nat) : LS :=
  let p1 := prepare p in let Dy := cDy c in let Dx := cDx c in
  let rp := bidx (uR p) k in let y := nth vzero ys (bidx (size ys) k) in
  let A := effM c 0%N in let a := effb c 0%N in
  let At := tabm Dy Dx (mmul Dy (cLam c 0%N) A) in let at' := mvec Dy (cLam c 0%N) a in
  let quad := E_quadratic_inner Dx (getmu p1 rp) (getS p1 rp) Dy A a At at' in
  let lin := E_linear Dx (getmu p1 rp) At at' in
  emb LS (- half F * dot Dy y (mvec Dy (cLam c 0%N) y) + dot Dy y lin - half F * quad)
  - chS c 0%N - hl2p LS *+ Dy.

End ExpLog.
