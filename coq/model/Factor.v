(* factor.py and the product-related part of measure.py, path by path. *)
From mathcomp Require Import all_ssreflect all_algebra.
From GT Require Import Tensor DetExec LogDom Obj.
Set Implicit Arguments.
Unset Strict Implicit.
Unset Printing Implicit Defensive.
Import GRing.Theory Num.Theory.
Local Open Scope ring_scope.

Section FactorModel.
Variable F : realFieldType.
Variable LS : logS F.
Notation mat := (mat F).
Notation vec := (vec F).
Notation lvec := (nat -> LS).
Notation factor := (factor LS).
Notation measure := (measure LS).

(* ---- constructors (factor.py:46-50, 320-329, 504-507, 642-648) ---- *)
Definition mk_general (R D : nat) (Lam : nat -> mat) (nu : nat -> vec) (lb : lvec) : factor :=
  Factor KGeneral R D (tabb R D D Lam) (tabbv R D nu) (tabl R lb).
(* _get_Lambda: einsum("ab,ac->abc", v, g*v) *)
Definition mk_onerank (R D : nat) (v : nat -> vec) (g : vec) (nu : nat -> vec) (lb : lvec) : factor :=
  let v' := tabbv R D v in let g' := tabv R g in
  Factor (KOneRank v' g') R D
    (tabb R D D (fun r => outer (v' r) (vscale (g' r) (v' r)))) (tabbv R D nu) (tabl R lb).
Definition mk_linear (R D : nat) (nu : nat -> vec) (lb : lvec) : factor :=
  Factor KLinear R D (fun _ => mzero) (tabbv R D nu) (tabl R lb).
Definition mk_constant (R D : nat) (lb : lvec) : factor :=
  Factor KConstant R D (fun _ => mzero) (fun _ => vzero) (tabl R lb).

(* measure.py:49-58: optional caches are taken as given, lnZ and mu always start empty *)
Definition mk_measure (c : mcls) (R D : nat) (Lam : nat -> mat) (nu : nat -> vec) (lb : lvec)
    (Sig : option (nat -> mat)) (hS hL : option lvec) : measure :=
  Measure R D (tabb R D D Lam) (tabbv R D nu) (tabl R lb)
          (omap (tabb R D D) Sig) (omap (tabl R) hS) (omap (tabl R) hL) None None c.

(* ---- slice (factor.py:126-139, 341-355, 519-531, 660-671) ---- *)
Definition fslice (idx : seq int) (f : factor) : factor :=
  let R' := size idx in let D := fD f in
  let s := fun k => nidx (fR f) (nth 0 idx k) in
  match fk f with
  | KGeneral => mk_general R' D (fun k => fLam f (s k)) (fun k => fnu f (s k)) (fun k => flb f (s k))
  | KOneRank v g => mk_onerank R' D (fun k => v (s k)) (fun k => g (s k)) (fun k => fnu f (s k)) (fun k => flb f (s k))
  | KLinear => mk_linear R' D (fun k => fnu f (s k)) (fun k => flb f (s k))
  | KConstant => mk_constant R' D (fun k => flb f (s k))
  end.

(* ---- product (factor.py:141-154): always a general factor with one component ---- *)
Definition sumv (R : nat) (v : nat -> vec) : vec := fun i => sumn R (fun r => v r i).
Definition summ (R : nat) (A : nat -> mat) : mat := fun i j => sumn R (fun r => A r i j).
Fixpoint suml (R : nat) (v : lvec) : LS := match R with 0%N => 0 | S k => suml k v + v k end.
Definition fproduct (f : factor) : factor :=
  mk_general 1 (fD f) (fun _ => summ (fR f) (fLam f)) (fun _ => sumv (fR f) (fnu f)) (fun _ => suml (fR f) (flb f)).

(* ---- full inversion of all components (linalg.invert_matrix on a batch) ---- *)
Definition inv_all (R D : nat) (Lam : nat -> mat) : (nat -> mat) * lvec :=
  (tabb R D D (fun k => minv D (Lam k)), tabl R (fun k => hln LS (detn D (Lam k)))).

Definition with_inverse (R D : nat) (Lam : nat -> mat) (nu : nat -> vec) (lb : lvec) : measure :=
  let: (Sig, hL) := inv_all R D Lam in
  Measure R D Lam nu lb (Some Sig) (Some (tabl R (fun k => - hL k))) (Some hL) None None CMeas.
Definition without_cache (R D : nat) (Lam : nat -> mat) (nu : nat -> vec) (lb : lvec) : measure :=
  Measure R D Lam nu lb None None None None None CMeas.
Definition with_cache (R D : nat) (Lam : nat -> mat) (nu : nat -> vec) (lb : lvec)
    (Sig : nat -> mat) (hS : lvec) : measure :=
  Measure R D Lam nu lb (Some Sig) (Some hS) (Some (tabl R (fun k => - hS k))) None None CMeas.

(* Sherman-Morrison pieces of one component (factor.py:399-410 / 449-457) *)
Definition sm_Sigma_v (D : nat) (S : mat) (v : vec) : vec := mvec D S v.
Definition sm_denom (D : nat) (S : mat) (v : vec) (g : F) : F := 1 + g * dot D (sm_Sigma_v D S v) v.
Definition sm_Sigma (D : nat) (S : mat) (v : vec) (g : F) : mat :=
  let Sv := tabv D (sm_Sigma_v D S v) in let d := sm_denom D S v g in
  fun b c => S b c - g * (Sv b * Sv c) / d.

(* ---- _multiply_with_measure, all kinds: result component k = (k %/ R2, k %% R2) ---- *)
Definition multiply (upd : bool) (u : measure) (f : factor) : measure :=
  let R2 := fR f in let R := (uR u * R2)%N in let D := fD f in
  let i := fun k => (k %/ R2)%N in let j := fun k => (k %% R2)%N in
  let lb := tabl R (fun k => ulb u (i k) + flb f (j k)) in
  match fk f with
  | KGeneral =>
      let Lam := tabb R D D (fun k => madd (uLam u (i k)) (fLam f (j k))) in
      let nu := tabbv R D (fun k => vadd (unu u (i k)) (fnu f (j k))) in
      if upd then with_inverse R D Lam nu lb else without_cache R D Lam nu lb
  | KOneRank v g =>
      let Lam := tabb R D D (fun k => madd (uLam u (i k)) (fLam f (j k))) in
      let nu := tabbv R D (fun k => vadd (unu u (i k)) (fnu f (j k))) in
      if ~~ upd then without_cache R D Lam nu lb else
      match uSig u with
      | None => with_inverse R D Lam nu lb
      | Some Sg =>
          let hS := odflt (fun _ => 0) (uhldS u) in
          with_cache R D Lam nu lb
            (tabb R D D (fun k => sm_Sigma D (Sg (i k)) (v (j k)) (g (j k))))
            (tabl R (fun k => hS (i k) - hln LS (sm_denom D (Sg (i k)) (v (j k)) (g (j k)))))
      end
  | KLinear =>
      let Lam := tabb R D D (fun k => uLam u (i k)) in
      let nu := tabbv R D (fun k => vadd (unu u (i k)) (fnu f (j k))) in
      if ~~ upd then without_cache R D Lam nu lb else
      match uSig u with
      | None => with_inverse R D Lam nu lb
      | Some Sg => let hS := odflt (fun _ => 0) (uhldS u) in
          with_cache R D Lam nu lb (tabb R D D (fun k => Sg (i k))) (tabl R (fun k => hS (i k)))
      end
  | KConstant =>
      let Lam := tabb R D D (fun k => uLam u (i k)) in
      let nu := tabbv R D (fun k => unu u (i k)) in
      if ~~ upd then without_cache R D Lam nu lb else
      match uSig u with
      | None => with_inverse R D Lam nu lb
      | Some Sg => let hS := odflt (fun _ => 0) (uhldS u) in
          with_cache R D Lam nu lb (tabb R D D (fun k => Sg (i k))) (tabl R (fun k => hS (i k)))
      end
  end.

(* ---- _hadamard_with_measure: component-wise, a size-1 leading axis broadcasts ---- *)
Definition hadamard (upd : bool) (u : measure) (f : factor) : measure :=
  let R1 := uR u in let R2 := fR f in let R := maxn R1 R2 in let D := fD f in
  let i := bidx R1 in let j := bidx R2 in
  let lb := tabl R (fun k => ulb u (i k) + flb f (j k)) in
  match fk f with
  | KGeneral =>
      let Lam := tabb R D D (fun k => madd (uLam u (i k)) (fLam f (j k))) in
      let nu := tabbv R D (fun k => vadd (unu u (i k)) (fnu f (j k))) in
      if upd then with_inverse R D Lam nu lb else without_cache R D Lam nu lb
  | KOneRank v g =>
      let Lam := tabb R D D (fun k => madd (uLam u (i k)) (fLam f (j k))) in
      let nu := tabbv R D (fun k => vadd (unu u (i k)) (fnu f (j k))) in
      if ~~ upd then without_cache R D Lam nu lb else
      match uSig u with
      | None => with_inverse R D Lam nu lb
      | Some Sg =>
          let hS := odflt (fun _ => 0) (uhldS u) in
          with_cache R D Lam nu lb
            (tabb R D D (fun k => sm_Sigma D (Sg (i k)) (v (j k)) (g (j k))))
            (tabl R (fun k => hS (i k) - hln LS (sm_denom D (Sg (i k)) (v (j k)) (g (j k)))))
      end
  | KLinear =>
      let Lam := tabb R D D (fun k => uLam u (i k)) in
      let nu := tabbv R D (fun k => vadd (unu u (i k)) (fnu f (j k))) in
      if ~~ upd then without_cache R D Lam nu lb else
      match uSig u with
      | None => with_inverse R D Lam nu lb
      | Some Sg => let hS := odflt (fun _ => 0) (uhldS u) in
          with_cache R D Lam nu lb (tabb R D D (fun k => Sg (i k))) (tabl R (fun k => hS (i k)))
      end
  | KConstant =>
      let Lam := tabb R D D (fun k => uLam u (i k)) in
      let nu := tabbv R D (fun k => unu u (i k)) in
      if ~~ upd then without_cache R D Lam nu lb else
      match uSig u with
      | None => with_inverse R D Lam nu lb
      | Some Sg => let hS := odflt (fun _ => 0) (uhldS u) in
          with_cache R D Lam nu lb (tabb R D D (fun k => Sg (i k))) (tabl R (fun k => hS (i k)))
      end
  end.

End FactorModel.
