(* approximate_conditional.py:344-474, 558-689: expected log-conditional integrals of the feature models
   y = M [x; k(x)] + b + noise (RBF and squared-exponential kernels), R_cond = 1.
   Seams: Ek_j = E[k_j(x)] and Ekk_ij = E[k_i k_j] (exp of log-integrals) are inputs; the means of the product
   measures q * k_j are computed exactly by the model. *)
From mathcomp Require Import all_ssreflect all_algebra.
From GT Require Import Tensor DetExec LogDom Obj Factor Measure Pdf Cond Moments ExpLog Approx.
Set Implicit Arguments.
Unset Strict Implicit.
Unset Printing Implicit Defensive.
Import GRing.Theory Num.Theory.
Local Open Scope ring_scope.

Section FeatLog.
Variable F : realFieldType.
Variable LS : logS F.
Notation mat := (mat F).
Notation vec := (vec F).
Notation measure := (measure LS).
Notation factor := (factor LS).

(* a kernel factor over x lifted to z = (y, x): zero on the y coordinates *)
Definition lift_mat (Dy : nat) (A : mat) : mat := fun i j => if (i < Dy)%N || (j < Dy)%N then 0 else A (i - Dy)%N (j - Dy)%N.
Definition lift_vec (Dy : nat) (v : vec) : vec := fun i => if (i < Dy)%N then 0 else v (i - Dy)%N.
Definition lift_general (Dy : nat) (k : factor) : factor :=
  mk_general (fR k) (Dy + fD k) (fun j => lift_mat Dy (fLam k j)) (fun j => lift_vec Dy (fnu k j)) (flb k).

Section One.
Variables (Dx Dk Dy : nat) (M : mat) (b : vec) (Lam : mat) (hS : LS).
Definition Mlin : mat := fun i j => M i j.                       (* first Dx columns *)
Definition Mk : mat := fun i j => M i (Dx + j)%N.                 (* last Dk columns *)
(* tr(Lambda Mk Ekk Mk') *)
Definition kk_term (Ekk : mat) : F :=
  trace Dy (mmul Dy Lam (mmul Dk Mk (mmul Dk Ekk (mtr Mk)))).

(* integrate_log_conditional(q), q over z = (y, x): one component with mean mq, covariance Sq;
   mk j = mean of the product measure q * (lifted k_j) *)
Definition flc_A : mat := fun i j => if (j < Dy)%N then (if i == j then 1 else 0) else - Mlin i (j - Dy)%N.
Definition feat_log_cond (mq : vec) (Sq : mat) (Ek : vec) (mk : nat -> vec) (Ekk : mat) : LS :=
  let Dz := (Dy + Dx)%N in
  let A := tabm Dy Dz flc_A in let a := vopp b in
  let At := tabm Dy Dz (mmul Dy Lam A) in let at' := mvec Dy Lam a in
  let quad := E_quadratic_inner Dz mq Sq Dy A a At at' in
  let lin := sumn Dy (fun i => sumn Dk (fun j => Mk i j * (Ek j * (mvec Dz At (mk j) i + at' i)))) in
  emb LS (- half F * (quad - lin - lin + kk_term Ekk)) - hS - hl2p LS *+ Dy.

(* integrate_log_conditional_y(p_x, y) at y: one component of p_x with mean mx, covariance Sx; mk j = mean of p_x * k_j *)
Definition feat_log_cond_y (mx : vec) (Sx : mat) (Ek : vec) (mk : nat -> vec) (Ekk : mat) (y : vec) : LS :=
  let A := Mlin in
  let At := tabm Dy Dx (mmul Dy Lam A) in let bt := mvec Dy Lam b in
  let lin_int := E_linear Dx mx At bt in
  let EMk := mvec Dy Lam (mvec Dk Mk Ek) in
  let quad := E_quadratic_inner Dx mx Sx Dy A b At bt in
  let EMk_lin := sumn Dy (fun i => sumn Dk (fun j => Mk i j * (Ek j * (mvec Dx At (mk j) i + bt i)))) in
  emb LS (- half F * dot Dy y (mvec Dy Lam y) + dot Dy y (vadd lin_int EMk)
          - half F * (quad + EMk_lin + EMk_lin + kk_term Ekk)) - hS - hl2p LS *+ Dy.
End One.
End FeatLog.
