(* approximate_conditional.py:1039-1248: the variational lower bound integrate_log_conditional_y of the
   heteroscedastic conditionals, exp and cosh-1 links, per noise unit i (w = W[i,1:], b0 = W[i,0]) and per
   observation n.  The variational parameters are INPUTS (seams): om n = omega, lc n = ln cosh(omega / 2) (exp) or
   ln cosh(omega) (cosh-1), th n = tanh(omega / 2) resp. tanh(omega) -- any positive omega gives a valid bound
   (trunc/C17R.v), the fixed-point loop of the code only optimises it.  Everything the code then does is the exact
   measure / factor algebra of Factor.v, Measure.v, Moments.v. *)
From mathcomp Require Import all_ssreflect all_algebra.
From GT Require Import Tensor DetExec LogDom Obj Factor Measure Pdf Cond Moments Approx.
Set Implicit Arguments.
Unset Strict Implicit.
Unset Printing Implicit Defensive.
Import GRing.Theory Num.Theory.
Local Open Scope ring_scope.

Section HetBound.
Variable F : realFieldType.
Variable LS : logS F.
Notation mat := (mat F).
Notation vec := (vec F).
Notation lvec := (nat -> LS).
Notation measure := (measure LS).
Notation factor := (factor LS).

Definition ln2 : LS := hln LS 2%:R + hln LS 2%:R.
Definition row1 (v : vec) : mat := fun _ j => v j.
Definition vec1 (c : F) : vec := fun _ => c.

(* ---- exp link, _lower_bound_integrals (1149-1166): the rank-one factor
        g1 = fprime / omega, fprime = tanh(omega/2) / 2, fomega = ln cosh(omega/2) + ln 2 ---- *)
Definition hb_exp_g1 (om th : vec) (n : nat) : F := half F * th n / om n.
Definition hb_exp_factor (N Dx : nat) (w : vec) (b0 : F) (om lc th : vec) : factor :=
  let g1 := hb_exp_g1 om th in
  mk_onerank N Dx (fun _ => w) g1 (fun n => vscale (- (g1 n * b0 - half F)) w)
    (fun n => emb LS (- lc n - half F * g1 n * (b0 * b0 - om n * om n) + half F * b0) - ln2).
(* ---- cosh-1 link (1222-1248): g1 = tanh(omega) / omega, and the two exponential factors exp(+-h) / 2 ---- *)
Definition hb_cosh_g1 (om th : vec) (n : nat) : F := th n / om n.
Definition hb_cosh_factor (N Dx : nat) (w : vec) (b0 : F) (om lc th : vec) : factor :=
  let g1 := hb_cosh_g1 om th in
  mk_onerank N Dx (fun _ => w) g1 (fun n => vscale (- (g1 n * b0)) w)
    (fun n => emb LS (- lc n - half F * g1 n * (b0 * b0 - om n * om n))).
Definition hb_h_plus (Dx : nat) (w : vec) (b0 : F) : factor := mk_linear 1 Dx (fun _ => w) (fun _ => emb LS b0 - ln2).
Definition hb_h_minus (Dx : nat) (w : vec) (b0 : F) : factor :=
  mk_linear 1 Dx (fun _ => vopp w) (fun _ => emb LS (- b0) - ln2).

(* integrate("(Ax+a)'(Bx+b)") with A = B = -a_i'M ([1,1,Dx]) and a = b = a_i'(y_n - b) ([N,1]):
   (log of the total mass, expectation of the squared projected residual) *)
Definition hb_quad (u : measure) (N : nat) (aM ayb : vec) (n : nat) : LS * F :=
  let A := M3 1 1 (fun _ => row1 (vopp aM)) in let a := V2 N (fun k => vec1 (ayb k)) in
  (log_mass u n, int_quadratic_inner u A a A a n).
(* exp link: (log-mass, expectation) of quadratic_integral[n] = mass * expectation *)
Definition hb_exp_quad (p : measure) (N Dx : nat) (w : vec) (b0 : F) (om lc th aM ayb : vec) (n : nat) : LS * F :=
  hb_quad (hadamard true p (hb_exp_factor N Dx w b0 om lc th)) N aM ayb n.
(* cosh-1 link: quadratic_integral = quadratic_plus + quadratic_minus - quadratic_1; the three (log-mass, expectation) pairs *)
Definition hb_cosh_quad (p : measure) (N Dx : nat) (w : vec) (b0 : F) (om lc th aM ayb : vec) (n : nat)
    : (LS * F) * (LS * F) * (LS * F) :=
  let lbm := hadamard true p (hb_cosh_factor N Dx w b0 om lc th) in
  (hb_quad (hadamard true lbm (hb_h_plus Dx w b0)) N aM ayb n,
   hb_quad (hadamard true lbm (hb_h_minus Dx w b0)) N aM ayb n,
   hb_quad lbm N aM ayb n).

(* ---- k_func (1139-1146, 1214-1220): expectation of the upper bound of ln(1 + link(h)) under the density p_x,
        component r; om, lc, th at omega_dagger.  Rational part; the exp link adds ln 2 ---- *)
Definition hb_Eh (p : measure) (w : vec) (b0 : F) (r : nat) : F :=
  int_linear p (M2 1 (row1 w)) (V2 1 (fun _ => vec1 b0)) r 0%N.
Definition hb_Eh2 (p : measure) (w : vec) (b0 : F) (r : nat) : F :=
  let A := M2 1 (row1 w) in let a := V2 1 (fun _ => vec1 b0) in int_quadratic_inner p A a A a r.
Definition hb_exp_kq (p : measure) (w : vec) (b0 : F) (om lc th : vec) (r : nat) : F :=
  half F * hb_Eh p w b0 r + lc r + half F * hb_exp_g1 om th r * (hb_Eh2 p w b0 r - om r * om r).
Definition hb_cosh_kq (p : measure) (w : vec) (b0 : F) (om lc th : vec) (r : nat) : F :=
  lc r + half F * hb_cosh_g1 om th r * (hb_Eh2 p w b0 r - om r * om r).

(* ---- assembly (1039-1068): -1/2 (homoscedastic term - sum_i het_i + ln det Sigma + sum_i k_i + Dy ln 2pi);
        het i n = quadratic_integral of unit i (a seam: it went through exp), kq i n = rational part of k_func,
        nln2 = how many ln 2 the k_i carry (Dk for the exp link, 0 for cosh-1) ---- *)
Section Assembly.
Variables (Dy Da Dk Dx : nat) (A M : mat) (b : vec).
Definition hb_Lam : mat := het_Lambda0 Dy Da A.
Definition hb_Ainv : mat := tabm Dy Dk (mmul Dy hb_Lam (Ak A)).          (* Lambda A_k; a_i = column i *)
Definition hb_ai (i : nat) : vec := fun a => hb_Ainv a i.
Definition hb_aM (i : nat) : vec := vmat Dy (hb_ai i) M.                  (* a_i' M *)
Definition hb_ayb (ys : seq vec) (i : nat) : vec := fun n => dot Dy (hb_ai i) (vsub (nth vzero ys n) b).
(* homoscedastic term: p_x.integrate("(Ax+a)'(Bx+b)") with A = -Lambda M, a = Lambda (y_n - b), B = -M, b = y_n - b;
   the coefficient vectors are per observation n, a one-component p_x is broadcast (component bidx (uR p) n) *)
Definition hb_homo (p : measure) (ys : seq vec) (n : nat) : F :=
  let p1 := prepare p in let rp := bidx (uR p) n in
  let LM := tabm Dy Dx (mmul Dy hb_Lam M) in
  let yb := vsub (nth vzero ys n) b in
  E_quadratic_inner Dx (getmu p1 rp) (getS p1 rp) Dy (mopp LM) (mvec Dy hb_Lam yb) (mopp M) yb.
Definition hb_final (p : measure) (ys : seq vec) (het kq : nat -> vec) (nln2 : nat) (n : nat) : LS :=
  emb LS (- half F * (hb_homo p ys n - sumn Dk (fun i => het i n) + sumn Dk (fun i => kq i (bidx (uR p) n))))
  - het_hS0 LS Dy Da A - hln LS 2%:R *+ nln2 - hl2p LS *+ Dy.
End Assembly.

End HetBound.
