(* approximate_conditional.py:1411-1461 (rectified-linear link of the heteroscedastic conditionals) and the
   regression of g on h that the step / ReLU updates read off the joint covariance of (g, h).
   Executable definitions only.  The truncated moments of the one-dimensional density of the pre-activation
   h = w'x + w0 (Zh = mass on [0, oo), Eh, E0..E4 = moments on [0, oo)) and l1p n = ln(1 + omega_n) are INPUTS
   (seams): they go through erf / exp / ln.  Everything the code then does with them is the rational algebra below
   and the exact factor algebra of Factor.v. *)
From mathcomp Require Import all_ssreflect all_algebra.
From GT Require Import Tensor DetExec LogDom Obj Factor Measure Pdf Cond Moments Approx HetBound.
Set Implicit Arguments.
Unset Strict Implicit.
Unset Printing Implicit Defensive.
Import GRing.Theory Num.Theory.
Local Open Scope ring_scope.

Section HetRelu.
Variable F : realFieldType.
Variable LS : logS F.
Notation mat := (mat F).
Notation vec := (vec F).
Notation lvec := (nat -> LS).
Notation measure := (measure LS).
Notation factor := (factor LS).

(* the factor on the one-dimensional density of h: nu = -1/(1+omega), ln_beta = -ln(1+omega) + omega/(1+omega);
   l1p n = ln (1 + om n) is an input *)
Definition hb_relu_factor (N : nat) (om l1p : vec) : factor :=
  mk_linear N 1 (fun n => vec1 (- (1 + om n)^-1)) (fun n => emb LS (- l1p n + om n / (1 + om n))).

(* k_func: Zh * c0 + c1 * (Eh - Zh * omega), c0 = ln(1+omega), c1 = 1/(1+omega);
   Zh, Eh = truncated mass and first moment of h on [0, oo) (inputs) *)
Definition hb_relu_kq (om l1p Zh Eh : vec) (r : nat) : F :=
  Zh r * l1p r + (1 + om r)^-1 * (Eh r - Zh r * om r).

(* the regression of g on h from the joint covariance of (g, h) (index 0 = g, 1 = h), as the code computes it *)
Definition reg_c1 (S : mat) : F := S 0%N 1%N / S 1%N 1%N.
Definition reg_c0 (m : vec) (S : mat) : F := m 0%N - reg_c1 S * m 1%N.
Definition reg_v (S : mat) : F := S 0%N 0%N - reg_c1 S * S 0%N 1%N.

(* cubic / quartic integrals of the ReLU update and the step-link term from truncated moments E0..E4 of h *)
Definition hb_poly2 (c0 c1 v : F) (E0 E1 E2 : F) : F :=
  E0 * c0 ^+ 2 + E2 * c1 ^+ 2 + 2%:R * E1 * c1 * c0 + E0 * v.

End HetRelu.
