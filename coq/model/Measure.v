(* measure.py (caches, integrals of order 0, normalisation, slice, product) and the GaussianPDF
   constructor / slice / update of pdf.py.  Mutating Python methods return the new object. *)
From mathcomp Require Import all_ssreflect all_algebra.
From GT Require Import Tensor DetExec LogDom Obj Factor.
Set Implicit Arguments.
Unset Strict Implicit.
Unset Printing Implicit Defensive.
Import GRing.Theory Num.Theory.
Local Open Scope ring_scope.

Section MeasureModel.
Variable F : realFieldType.
Variable LS : logS F.
Notation mat := (mat F).
Notation vec := (vec F).
Notation lvec := (nat -> LS).
Notation measure := (measure LS).

(* invert_lambda (measure.py:119-122, diag: 1062-1064) *)
Definition invert_lambda (u : measure) : measure :=
  let R := uR u in let D := uD u in
  let Sig := tabb R D D (fun k => (inv_ld LS (is_diag (ucls u)) D (uLam u k)).1) in
  let hL := tabl R (fun k => (inv_ld LS (is_diag (ucls u)) D (uLam u k)).2) in
  Measure R D (uLam u) (unu u) (ulb u) (Some Sig) (Some (tabl R (fun k => - hL k))) (Some hL)
          (umu u) (ulnZ u) (ucls u).

Definition ensure_Sigma (u : measure) : measure :=
  if uSig u is Some _ then u else invert_lambda u.

Definition getS (u : measure) : nat -> mat := odflt (fun _ => mzero) (uSig u).
Definition gethS (u : measure) : lvec := odflt (fun _ => 0) (uhldS u).
Definition getmu (u : measure) : nat -> vec := odflt (fun _ => vzero) (umu u).
Definition getlnZ (u : measure) : lvec := odflt (fun _ => 0) (ulnZ u).

(* compute_lnZ (measure.py:108-117): lnZ = 1/2 (nu' Sigma nu + D ln 2pi + ln det Sigma) *)
Definition compute_lnZ (u0 : measure) : measure :=
  let u := ensure_Sigma u0 in let R := uR u in let D := uD u in
  let lnZ := tabl R (fun k => emb LS (half F * dot D (unu u k) (mvec D (getS u k) (unu u k)))
                              + hl2p LS *+ D + gethS u k) in
  Measure R D (uLam u) (unu u) (ulb u) (uSig u) (uhldS u) (uhldL u) (umu u) (Some lnZ) (ucls u).

(* compute_mu (measure.py:272-276) *)
Definition compute_mu (u0 : measure) : measure :=
  let u := ensure_Sigma u0 in let R := uR u in let D := uD u in
  let mu := tabbv R D (fun k => mvec D (getS u k) (unu u k)) in
  Measure R D (uLam u) (unu u) (ulb u) (uSig u) (uhldS u) (uhldL u) (Some mu) (ulnZ u) (ucls u).

(* _prepare_integration (measure.py:101-106) *)
Definition prepare (u : measure) : measure :=
  let u1 := if ulnZ u is Some _ then u else compute_lnZ u in
  if umu u1 is Some _ then u1 else compute_mu u1.

(* log_integral_light / log_integral (measure.py:203-228): new object state and value *)
Definition log_integral_light (u : measure) : measure * lvec :=
  let u1 := if ulnZ u is Some _ then u else compute_lnZ u in
  (u1, fun k => getlnZ u1 k + ulb u1 k).
Definition log_integral (u : measure) : measure * lvec :=
  let u1 := prepare u in (u1, fun k => getlnZ u1 k + ulb u1 k).

(* normalize (measure.py:254-262): lnZ recomputed unconditionally *)
Definition normalize (u : measure) : measure :=
  let u1 := compute_lnZ u in
  Measure (uR u1) (uD u1) (uLam u1) (unu u1) (tabl (uR u1) (fun k => - getlnZ u1 k))
          (uSig u1) (uhldS u1) (uhldL u1) (umu u1) (ulnZ u1) (ucls u1).

(* GaussianPDF.__post_init__ (pdf.py:44-51, 275-282) *)
Definition mk_pdf (diag : bool) (R D : nat) (Sig : nat -> mat) (mu : nat -> vec)
    (Lam : option (nat -> mat)) (hS : option lvec) : measure :=
  let Sig' := tabb R D D Sig in let mu' := tabbv R D mu in
  (* projections instead of a pattern-matching let, so that uR / uD of the result compute *)
  let Lam' :=
    match Lam with
    | None => tabb R D D (fun k => (inv_ld LS diag D (Sig' k)).1)
    | Some L => tabb R D D L
    end in
  let hS' :=
    match Lam with
    | None => tabl R (fun k => (inv_ld LS diag D (Sig' k)).2)
    | Some _ => match hS with
                | Some h => tabl R h
                | None => tabl R (fun k => hln LS (detn D (Sig' k)))   (* slogdet *)
                end
    end in
  (* nu = einsum("abc,ab->ac", Lambda, mu) *)
  let nu := tabbv R D (fun k => vmat D (mu' k) (Lam' k)) in
  let u0 := Measure R D Lam' nu (fun _ => 0) (Some Sig') (Some hS') None (Some mu') None
                    (if diag then CDiagPdf else CPdf) in
  normalize (prepare u0).

(* get_density (measure.py:278-292) *)
Definition get_density (u : measure) : measure * measure :=
  let u1 := prepare u in
  (u1, mk_pdf false (uR u1) (uD u1) (getS u1) (getmu u1) (Some (uLam u1)) (Some (gethS u1))).

(* slice: measure.py:81-99, 1066-1086 (copies Sigma and both log-dets iff Sigma is cached; lnZ, mu
   start empty again); pdf.py:71-92, 284-304 (re-runs the constructor on the four stored fields) *)
Definition uslice (idx : seq int) (u : measure) : measure :=
  let R' := size idx in let D := uD u in
  let s := fun k => nidx (uR u) (nth 0 idx k) in
  if is_pdf (ucls u) then
    mk_pdf (is_diag (ucls u)) R' D (fun k => getS u (s k)) (fun k => getmu u (s k))
           (Some (fun k => uLam u (s k))) (Some (fun k => gethS u (s k)))
  else
    let c := if uSig u is Some _ then true else false in
    Measure R' D (tabb R' D D (fun k => uLam u (s k))) (tabbv R' D (fun k => unu u (s k)))
            (tabl R' (fun k => ulb u (s k)))
            (if c then Some (tabb R' D D (fun k => getS u (s k))) else None)
            (if c then Some (tabl R' (fun k => gethS u (s k))) else None)
            (if c then Some (tabl R' (fun k => odflt (fun _ => 0) (uhldL u) (s k))) else None)
            None None (ucls u).

(* product (measure.py:175-191, 1088-1106) *)
Definition uproduct (u : measure) : measure :=
  let D := uD u in
  let c := if is_diag (ucls u) then CDiagMeas else CMeas in
  let p := Measure 1 D (tabb 1 D D (fun _ => summ (uR u) (uLam u))) (tabbv 1 D (fun _ => sumv (uR u) (unu u)))
                   (tabl 1 (fun _ => suml (uR u) (ulb u))) None None None None None c in
  if uSig u is Some _ then prepare p else p.

(* pdf.update (pdf.py:94-108): seven arrays written in place at the addressed components.
   Later duplicates win (jnp .at[].set with repeated indices is unspecified; distinct only). *)
Definition upd_at {T : Type} (R : nat) (idx : seq int) (old new : nat -> T) : nat -> T :=
  fun r => let pos := index r [seq nidx R i | i <- idx] in
           if (pos < size idx)%N then new pos else old r.
Definition pdf_update (idx : seq int) (p d : measure) : measure :=
  let R := uR p in
  Measure R (uD p) (upd_at R idx (uLam p) (uLam d)) (upd_at R idx (unu p) (unu d))
          (upd_at R idx (ulb p) (ulb d))
          (Some (upd_at R idx (getS p) (getS d))) (Some (upd_at R idx (gethS p) (gethS d)))
          (uhldL p) (Some (upd_at R idx (getmu p) (getmu d))) (Some (upd_at R idx (getlnZ p) (getlnZ d)))
          (ucls p).

End MeasureModel.
