(* measure.py:294-985: the polynomial integrals.  Each integrate_* method is
   (total mass) * (Gaussian expectation); the expectations are transcribed formula by formula
   from the _expectation_* methods, per component, with the coefficient defaults / broadcasting
   of _get_default written out. *)
From mathcomp Require Import all_ssreflect all_algebra.
From GT Require Import Tensor DetExec LogDom Obj Factor Measure.
Set Implicit Arguments.
Unset Strict Implicit.
Unset Printing Implicit Defensive.
Import GRing.Theory Num.Theory.
Local Open Scope ring_scope.

Section Moments.
Variable F : realFieldType.
Variable LS : logS F.
Notation mat := (mat F).
Notation vec := (vec F).
Notation measure := (measure LS).

(* ---- coefficient arguments as the caller passes them ---- *)
Inductive cmat := MNone | M2 (K : nat) (A : mat) | M3 (RA K : nat) (A : nat -> mat).
Inductive cvec := VNone | V1 (a : vec) | V2 (Ra : nat) (a : nat -> vec).

(* an affine form per component after _get_default: K rows, A_r = A (bidx RA r), a_r = a (bidx Ra r) *)
Record form := Form { fK : nat; fRA : nat; fA : nat -> mat; fRa : nat; fa : nat -> vec }.
Definition formA (f : form) (r : nat) : mat := fA f (bidx (fRA f) r).
Definition forma (f : form) (r : nat) : vec := fa f (bidx (fRa f) r).

(* _get_default (measure.py:294-320) *)
Definition get_default (D : nat) (m : cmat) (v : cvec) : form :=
  let K := match m with MNone => D | M2 K _ => K | M3 _ K _ => K end in
  match v with
  | VNone | V1 _ =>
      let a := match v with V1 a => a | _ => vzero end in
      (* vec.ndim == 1: a 2-D matrix becomes [1,K,D]; the vector is tiled to mat.shape[0] rows *)
      match m with
      | MNone => Form K 1 (fun _ => mid) 1 (fun _ => a)
      | M2 _ A => Form K 1 (fun _ => A) 1 (fun _ => a)
      | M3 RA _ A => Form K RA A RA (fun _ => a)
      end
  | V2 Ra a =>
      match m with
      | MNone => Form K Ra (fun _ => mid) Ra a
      | M2 _ A => Form K Ra (fun _ => A) Ra a
      | M3 RA _ A => Form K RA A Ra a
      end
  end.

(* ---- per-component expectations under N(mu, S) ---- *)
Section OneComponent.
Variable D : nat.
Variables (mu : vec) (S : mat).

Definition aff (A : mat) (a : vec) : vec := vadd (mvec D A mu) a.                  (* A mu + a *)
Definition XSY (X Y : mat) : mat := mmul D X (mmul D S (mtr Y)).                   (* X S Y' *)

Definition E_x : vec := mu.
Definition E_linear (A : mat) (a : vec) : vec := aff A a.
Definition E_xxT : mat := madd S (outer mu mu).

(* (Ax+a)'(Bx+b), A, B : K x D *)
Definition E_quadratic_inner (K : nat) (A : mat) (a : vec) (B : mat) (b : vec) : F :=
  let AB := mmul K (mtr A) B in
  trace D (mmul D AB S) + dot D (vmat D mu AB) mu + dot K (mvec D A mu) b + dot K a (aff B b).

(* (Ax+a)(Bx+b)', A : K x D, B : L x D *)
Definition E_quadratic_outer (A : mat) (a : vec) (B : mat) (b : vec) : mat :=
  madd (madd (mmul D A (mmul D E_xxT (mtr B))) (outer (mvec D A mu) b)) (outer a (aff B b)).

(* x b'x x' *)
Definition E_xbxx (b : vec) : mat :=
  madd (madd (mmul D (outer mu b) E_xxT) (mscale (dot D mu b) S)) (mmul D S (outer b mu)).

(* x (A'x + a) x', A a vector, a a scalar *)
Definition E_cubic_outer (A : vec) (a : F) : mat := madd (E_xbxx A) (mscale a E_xxT).

(* (Ax+a)(Bx+b)'(Cx+c): A : K x D, B, C : L x D *)
Definition E_cubic_inner (L : nat) (A : mat) (a : vec) (B : mat) (b : vec) (C : mat) (c : vec) : vec :=
  let Bm := aff B b in let Cm := aff C c in
  let first := mvec D (mmul D A S) (vadd (vmat L Cm B) (vmat L Bm C)) in
  let second := vscale (trace L (XSY B C) + dot L Bm Cm) (aff A a) in
  vadd first second.

(* (Ax+a)'(Bx+b)(Cx+c)': A, B : K x D, C : L x D *)
Definition E_cubic_outer_general (K : nat) (A : mat) (a : vec) (B : mat) (b : vec) (C : mat) (c : vec) : vec :=
  let Am := aff A a in let Bm := aff B b in let Cm := aff C c in
  let first := vmat K Am (madd (XSY B C) (outer Bm Cm)) in
  let second := vmat K Bm (madd (XSY A C) (outer Am Cm)) in
  let third := vscale (- dot K Am Bm) Cm in
  let fourth := vscale (trace K (XSY A B)) Cm in
  vadd (vadd (vadd first second) third) fourth.

(* (Ax+a)(Bx+b)'(Cx+c)(Dx+d)': A : K x D, B, C : L x D, Dm : M x D *)
Definition E_quartic_outer (L : nat) (A : mat) (a : vec) (B : mat) (b : vec) (C : mat) (c : vec)
    (Dm : mat) (d : vec) : mat :=
  let Am := aff A a in let Bm := aff B b in let Cm := aff C c in let Dv := aff Dm d in
  let first := mmul L (madd (XSY A B) (outer Am Bm)) (madd (XSY C Dm) (outer Cm Dv)) in
  let second := mmul L (madd (XSY A C) (outer Am Cm)) (madd (XSY B Dm) (outer Bm Dv)) in
  let third := mscale (dot L Bm Cm) (msub (XSY A Dm) (outer Am Dv)) in
  let fourth := mscale (trace L (XSY B C)) (madd (XSY A Dm) (outer Am Dv)) in
  madd (madd (madd first second) third) fourth.

(* (Ax+a)'(Bx+b)(Cx+c)'(Dx+d): A, B : K x D, C, Dm : L x D *)
Definition E_quartic_inner (K L : nat) (A : mat) (a : vec) (B : mat) (b : vec) (C : mat) (c : vec)
    (Dm : mat) (d : vec) : F :=
  let Am := aff A a in let Bm := aff B b in let Cm := aff C c in let Dv := aff Dm d in
  let CD := mmul L (mtr C) Dm in
  let CD_DC := madd CD (mtr CD) in
  let SCDS := mmul D (mmul D S CD_DC) S in
  let first := trace K (mmul D (mmul D A SCDS) (mtr B)) in
  let second := dot D (vmat D (vadd (vmat K Am B) (vmat K Bm A)) S) (vadd (vmat L Dv C) (vmat L Cm Dm)) in
  let third := (trace K (XSY A B) + dot K Am Bm) * (trace L (XSY C Dm) + dot L Cm Dv) in
  first + second + third.
End OneComponent.

(* ---- the integrate_* methods: _prepare_integration, then mass * expectation ----
   The mass exp(lnZ + ln_beta) is not rational: every method returns the log-mass and the expectation. *)
Definition moments_of (u : measure) : measure := prepare u.
Definition log_mass (u : measure) (r : nat) : LS := let u1 := prepare u in getlnZ u1 r + ulb u1 r.

Definition int_x (u : measure) (r : nat) : vec := let u1 := prepare u in E_x (getmu u1 r).
Definition int_linear (u : measure) (A : cmat) (a : cvec) (r : nat) : vec :=
  let u1 := prepare u in let f := get_default (uD u) A a in
  E_linear (uD u) (getmu u1 r) (formA f r) (forma f r).
Definition int_xxT (u : measure) (r : nat) : mat := let u1 := prepare u in E_xxT (getmu u1 r) (getS u1 r).
Definition int_quadratic_inner (u : measure) (A : cmat) (a : cvec) (B : cmat) (b : cvec) (r : nat) : F :=
  let u1 := prepare u in let f := get_default (uD u) A a in let g := get_default (uD u) B b in
  E_quadratic_inner (uD u) (getmu u1 r) (getS u1 r) (fK f) (formA f r) (forma f r) (formA g r) (forma g r).
Definition int_quadratic_outer (u : measure) (A : cmat) (a : cvec) (B : cmat) (b : cvec) (r : nat) : mat :=
  let u1 := prepare u in let f := get_default (uD u) A a in let g := get_default (uD u) B b in
  E_quadratic_outer (uD u) (getmu u1 r) (getS u1 r) (formA f r) (forma f r) (formA g r) (forma g r).
(* integrate_xbxx: b 1-D (shared) or 2-D (per component) *)
Definition int_xbxx (u : measure) (Rb : nat) (b : nat -> vec) (r : nat) : mat :=
  let u1 := prepare u in E_xbxx (uD u) (getmu u1 r) (getS u1 r) (b (bidx Rb r)).
(* integrate_cubic_outer: A_mat [1,D] / [R,1,D], a_vec [1] / [R,1]; row 0 is used *)
Definition int_cubic_outer (u : measure) (RA : nat) (A : nat -> vec) (Ra : nat) (a : nat -> F) (r : nat) : mat :=
  let u1 := prepare u in E_cubic_outer (uD u) (getmu u1 r) (getS u1 r) (A (bidx RA r)) (a (bidx Ra r)).
Definition int_cubic_inner (u : measure) (A : cmat) (a : cvec) (B : cmat) (b : cvec) (C : cmat) (c : cvec) (r : nat) : vec :=
  let u1 := prepare u in let D := uD u in
  let f := get_default D A a in let g := get_default D B b in let h := get_default D C c in
  E_cubic_inner D (getmu u1 r) (getS u1 r) (fK g) (formA f r) (forma f r) (formA g r) (forma g r) (formA h r) (forma h r).
Definition int_cubic_outer_general (u : measure) (A : cmat) (a : cvec) (B : cmat) (b : cvec) (C : cmat) (c : cvec) (r : nat) : vec :=
  let u1 := prepare u in let D := uD u in
  let f := get_default D A a in let g := get_default D B b in let h := get_default D C c in
  E_cubic_outer_general D (getmu u1 r) (getS u1 r) (fK f) (formA f r) (forma f r) (formA g r) (forma g r) (formA h r) (forma h r).
Definition int_quartic_outer (u : measure) (A : cmat) (a : cvec) (B : cmat) (b : cvec) (C : cmat) (c : cvec)
    (Dm : cmat) (d : cvec) (r : nat) : mat :=
  let u1 := prepare u in let D := uD u in
  let f := get_default D A a in let g := get_default D B b in let h := get_default D C c in let e := get_default D Dm d in
  E_quartic_outer D (getmu u1 r) (getS u1 r) (fK g) (formA f r) (forma f r) (formA g r) (forma g r)
                  (formA h r) (forma h r) (formA e r) (forma e r).
Definition int_quartic_inner (u : measure) (A : cmat) (a : cvec) (B : cmat) (b : cvec) (C : cmat) (c : cvec)
    (Dm : cmat) (d : cvec) (r : nat) : F :=
  let u1 := prepare u in let D := uD u in
  let f := get_default D A a in let g := get_default D B b in let h := get_default D C c in let e := get_default D Dm d in
  E_quartic_inner D (getmu u1 r) (getS u1 r) (fK f) (fK h) (formA f r) (forma f r) (formA g r) (forma g r)
                  (formA h r) (forma h r) (formA e r) (forma e r).

End Moments.
Arguments MNone {F}.
Arguments VNone {F}.
