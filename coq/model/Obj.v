(* Objects of the library as records of total functions; caches are option-valued exactly where
   the Python attribute can be None.  Log-determinants are stored as HALF log-determinants
   (hld = 1/2 ln det), the observable ln_det is hld + hld; every use in the code is 0.5*ln_det. *)
From mathcomp Require Import all_ssreflect all_algebra.
From GT Require Import Tensor DetExec LogDom.
Set Implicit Arguments.
Unset Strict Implicit.
Unset Printing Implicit Defensive.
Import GRing.Theory Num.Theory.
Local Open Scope ring_scope.

Section Obj.
Variable F : realFieldType.
Variable LS : logS F.
Notation mat := (mat F).
Notation vec := (vec F).
Notation lvec := (nat -> LS).

Definition half : F := 2%:R^-1.

Definition tabl (n : nat) (v : lvec) : lvec := let l := mkseq v n in fun i => nth 0 l i.
Lemma tablE n v i : (i < n)%N -> tabl n v i = v i.
Proof. by move=> Hi; rewrite /tabl nth_mkseq. Qed.

(* jnp.take index semantics: negative indices wrap *)
Definition nidx (R : nat) (i : int) : nat :=
  match i with Posz n => n | Negz n => (R - n.+1)%N end.

(* broadcasting selector for size-1 leading axes *)
Definition bidx (R r : nat) : nat := if R == 1%N then 0%N else r.

(* ---- factors (factor.py) ---- *)
Inductive fkind :=
  | KGeneral
  | KOneRank (v : nat -> vec) (g : vec)
  | KLinear
  | KConstant.

Record factor := Factor {
  fk : fkind; fR : nat; fD : nat;
  fLam : nat -> mat; fnu : nat -> vec; flb : lvec }.

(* ---- measures / densities (measure.py, pdf.py) ---- *)
Inductive mcls := CMeas | CDiagMeas | CPdf | CDiagPdf.
Definition is_diag (c : mcls) : bool := match c with CDiagMeas | CDiagPdf => true | _ => false end.
Definition is_pdf (c : mcls) : bool := match c with CPdf | CDiagPdf => true | _ => false end.

Record measure := Measure {
  uR : nat; uD : nat;
  uLam : nat -> mat; unu : nat -> vec; ulb : lvec;
  uSig : option (nat -> mat);
  uhldS : option lvec;          (* 1/2 ln det Sigma *)
  uhldL : option lvec;          (* 1/2 ln det Lambda *)
  umu : option (nat -> vec);
  ulnZ : option lvec;
  ucls : mcls }.                (* which Python class: decides inversion routine and slice/update *)

(* the function an object evaluates to, in the log domain: factor.py:79-109 (non element-wise) *)
Definition eval_core (D : nat) (Lam : mat) (nu : vec) (lb : LS) (x : vec) : LS :=
  emb LS (- half * quad D Lam x + dot D x nu) + lb.
Definition feval (f : factor) (r : nat) (x : vec) : LS := eval_core (fD f) (fLam f r) (fnu f r) (flb f r) x.
Definition ueval (u : measure) (r : nat) (x : vec) : LS := eval_core (uD u) (uLam u r) (unu u r) (ulb u r) x.

(* a measure or density used as a factor: it inherits the general ConjugateFactor methods *)
Definition factor_of_measure (u : measure) : factor :=
  Factor KGeneral (uR u) (uD u) (uLam u) (unu u) (ulb u).

(* utils/linalg.py: inverse and (half) log-determinant *)
Definition inv_ld (diag : bool) (D : nat) (A : mat) : mat * LS :=
  if diag then (tabm D D (minv_diag A), hln LS (prodn D (fun i => A i i)))
  else (minv D A, hln LS (detn D A)).

End Obj.

Arguments KGeneral {F}.
Arguments KLinear {F}.
Arguments KConstant {F}.
