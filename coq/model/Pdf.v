(* pdf.py: marginals, conditioning on coordinates, linear images, entropy, KL. *)
From mathcomp Require Import all_ssreflect all_algebra.
From GT Require Import Tensor DetExec LogDom Obj Factor Measure.
Set Implicit Arguments.
Unset Strict Implicit.
Unset Printing Implicit Defensive.
Import GRing.Theory Num.Theory.
Local Open Scope ring_scope.

Section PdfModel.
Variable F : realFieldType.
Variable LS : logS F.
Notation mat := (mat F).
Notation vec := (vec F).
Notation lvec := (nat -> LS).
Notation measure := (measure LS).

(* ---- conditionals (conditional.py) ---- *)
Inductive ccls := CFull | CDiag | CIdent | CIdentDiag.
Definition cdiag (c : ccls) : bool := match c with CDiag | CIdentDiag => true | _ => false end.
Definition cident (c : ccls) : bool := match c with CIdent | CIdentDiag => true | _ => false end.

Record cond := Cond {
  cR : nat; cDy : nat; cDx : nat;
  cM : nat -> mat; cb : nat -> vec;
  cSig : nat -> mat; cLam : nat -> mat;
  chS : lvec;                       (* 1/2 ln det Sigma *)
  ccl : ccls }.

(* __post_init__ of the four linear classes (conditional.py:53-66, 537-547, 880-892, 1328-1338):
   Sigma given: Lambda and ln_det_Sigma are recomputed unless BOTH are supplied;
   else Sigma from Lambda.  Identity classes carry M = I, b = 0 implicitly. *)
Definition mk_cond (c : ccls) (R Dy Dx : nat) (M : nat -> mat) (b : nat -> vec)
    (Sig Lam : option (nat -> mat)) (hS : option lvec) : cond :=
  let M' := if cident c then (fun _ => mid) else tabb R Dy Dx M in
  let b' := if cident c then (fun _ => vzero) else tabbv R Dy b in
  let recompute := ~~ (isSome Lam && isSome hS) in     (* Sigma given: Lambda, ln_det recomputed unless both supplied *)
  let S' := match Sig, Lam with
            | Some S0, _ => tabb R Dy Dy S0
            | None, Some L => tabb R Dy Dy (fun k => (inv_ld LS (cdiag c) Dy (tabb R Dy Dy L k)).1)
            | None, None => fun _ => mzero                  (* RuntimeError in Python *)
            end in
  let L' := match Sig, Lam with
            | Some S0, Some L => if recompute then tabb R Dy Dy (fun k => (inv_ld LS (cdiag c) Dy (S' k)).1)
                                 else tabb R Dy Dy L
            | Some S0, None => tabb R Dy Dy (fun k => (inv_ld LS (cdiag c) Dy (S' k)).1)
            | None, Some L => tabb R Dy Dy L
            | None, None => fun _ => mzero
            end in
  let h' := match Sig, Lam with
            | Some S0, _ => if recompute then tabl R (fun k => (inv_ld LS (cdiag c) Dy (S' k)).2)
                            else tabl R (odflt (fun _ => 0) hS)
            | None, Some L => tabl R (fun k => - (inv_ld LS (cdiag c) Dy (L' k)).2)
            | None, None => fun _ => 0
            end in
  Cond R Dy Dx M' b' S' L' h' c.

Definition cslice (idx : seq int) (c : cond) : cond :=
  let s := fun k => nidx (cR c) (nth 0 idx k) in
  (* the identity-diagonal class slices to the identity (full) class: conditional.py:1358-1374 *)
  let cl := match ccl c with CIdentDiag => CIdent | x => x end in
  mk_cond cl (size idx) (cDy c) (cDx c) (fun k => cM c (s k)) (fun k => cb c (s k))
          (Some (fun k => cSig c (s k))) (Some (fun k => cLam c (s k))) (Some (fun k => chS c (s k))).

(* get_conditional_mu: einsum("abc,dc->adb", M, x) + b[:, None]; identity classes tile x *)
Definition cond_mu (c : cond) (r : nat) (x : vec) : vec :=
  if cident (ccl c) then x else vadd (mvec (cDx c) (cM c r) x) (cb c r).

(* condition_on_x: component r*N+n *)
Definition condition_on_x (c : cond) (xs : seq vec) : measure :=
  let N := size xs in let R := (cR c * N)%N in
  let r := fun k => (k %/ N)%N in let n := fun k => (k %% N)%N in
  @mk_pdf _ LS false R (cDy c) (fun k => cSig c (r k)) (fun k => cond_mu c (r k) (nth vzero xs (n k)))
         (Some (fun k => cLam c (r k))) (Some (fun k => chS c (r k))).

(* ---- GaussianPDF methods ---- *)
Definition msub2 (ri ci : seq nat) (A : mat) : mat := fun i j => A (nth 0%N ri i) (nth 0%N ci j).

(* get_marginal (pdf.py:110-125, 322-335): sub-blocks, constructor re-run on (Sigma, mu) only *)
Definition get_marginal (idx : seq nat) (p : measure) : measure :=
  let d := size idx in
  @mk_pdf _ LS (is_diag (ucls p)) (uR p) d (fun r => msub2 idx idx (getS p r)) (fun r => vsel idx (getmu p r))
         None None.

(* jnp.setxor1d(arange(D), dim_y): ascending complement *)
Definition complement (D : nat) (idx : seq nat) : seq nat := [seq i <- iota 0 D | i \notin idx].

(* condition_on_explicit (pdf.py:192-215); condition_on = explicit with the ascending complement *)
Definition condition_on_explicit (dy dx : seq nat) (p : measure) : cond :=
  let R := uR p in let nx := size dx in let ny := size dy in
  let Lx := tabb R nx nx (fun r => msub2 dx dx (uLam p r)) in
  let Sx := tabb R nx nx (fun r => minv nx (Lx r)) in
  let hL := tabl R (fun r => hln LS (detn nx (Lx r))) in
  let M := tabb R nx ny (fun r => mopp (mmul nx (Sx r) (msub2 dx dy (uLam p r)))) in
  let b := fun r => vsub (vsel dx (getmu p r)) (mvec ny (M r) (vsel dy (getmu p r))) in
  mk_cond CFull R nx ny M b (Some Sx) (Some Lx) (Some (fun r => - hL r)).
Definition condition_on (dy : seq nat) (p : measure) : cond :=
  condition_on_explicit dy (complement (uD p) dy) p.

(* get_density_of_linear_sum (pdf.py:217-235): W is per component [R, Dsum, D] *)
Definition density_of_linear_sum (ds : nat) (W : nat -> mat) (b : option (nat -> vec)) (p : measure) : measure :=
  let D := uD p in
  @mk_pdf _ LS false (uR p) ds
    (fun r => mmul D (W r) (mmul D (getS p r) (mtr (W r))))
    (fun r => let m := mvec D (W r) (getmu p r) in if b is Some b' then vadd m (b' r) else m)
    None None.

(* entropy (pdf.py:127-137): 1/2 (D (1 + ln 2pi) + ln det Sigma) *)
Definition entropy (p : measure) : lvec :=
  fun r => emb LS (half F * (uD p)%:R) + hl2p LS *+ (uD p) + gethS p r.

(* kl_divergence(self=p0, p1) (pdf.py:139-166), batch sizes equal or one of them 1 *)
Definition kl_divergence (p0 p1 : measure) : lvec :=
  let D := uD p0 in let R := maxn (uR p0) (uR p1) in
  fun k => let r0 := bidx (uR p0) k in let r1 := bidx (uR p1) k in
    let dmu := vsub (getmu p1 r1) (getmu p0 r0) in
    emb LS (half F * (trace D (mmul D (uLam p1 r1) (getS p0 r0)) + dot D (vmat D dmu (uLam p1 r1)) dmu - D%:R))
    + gethS p1 r1 - gethS p0 r0.

End PdfModel.

