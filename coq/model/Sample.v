(* pdf.py:56-69  GaussianPDF.sample: x[d,a,:] = mu_a + L_a z[d,a,:], L = cholesky(Sigma), z = the key's
   standard normal stream of shape (n, R, D).  The stream and the Cholesky factorisation are inputs
   of the model (jax.random / LAPACK are not modelled); the Cholesky specification is checkable. *)
From mathcomp Require Import all_ssreflect all_algebra.
From GT Require Import Tensor.
Set Implicit Arguments.
Unset Strict Implicit.
Unset Printing Implicit Defensive.
Import GRing.Theory Num.Theory.
Local Open Scope ring_scope.

Section Sample.
Variable F : realFieldType.
Notation mat := (mat F).
Notation vec := (vec F).

(* einsum("abc,dac->dab", L, z) + mu[None] : draw d of component a *)
Definition sample (D : nat) (mu : nat -> vec) (L : nat -> mat) (z : nat -> nat -> vec) (d a : nat) : vec :=
  vadd (mu a) (mvec D (L a) (z d a)).

(* Cholesky specification: lower triangular, positive diagonal, L L' = Sigma *)
Definition is_chol (D : nat) (L S : mat) : bool :=
  all (fun i => all (fun j => [&& (if (i < j)%N then L i j == 0 else true),
                                   (if i == j then 0 < L i i else true)
                                 & mmul D L (mtr L) i j == S i j]) (iota 0 D)) (iota 0 D).
End Sample.
