(* C01: the product with a conjugate factor is pointwise multiplication, for every factor kind,
   with or without update_full, with or without cached covariance. *)
From mathcomp Require Import all_ssreflect all_algebra.
From GT Require Import Tensor DetExec LogDom Obj Factor Measure EvalLemmas.
Set Implicit Arguments.
Unset Strict Implicit.
Unset Printing Implicit Defensive.
Import GRing.Theory Num.Theory.
Local Open Scope ring_scope.

Section C01.
Variable F : realFieldType.
Variable LS : logS F.
Notation mat := (mat F).
Notation vec := (vec F).
Notation factor := (factor LS).
Notation measure := (measure LS).

(* kind-consistency of a factor: what the four constructors establish *)
Definition fwf (f : factor) : Prop :=
  match fk f with
  | KGeneral | KOneRank _ _ => True
  | KLinear => forall r, fLam f r = mzero
  | KConstant => (forall r, fLam f r = mzero) /\ (forall r, fnu f r = vzero)
  end.

Lemma fwf_general R D L n l : fwf (mk_general (LS:=LS) R D L n l). Proof. by []. Qed.
Lemma fwf_onerank R D v g n l : fwf (mk_onerank (LS:=LS) R D v g n l). Proof. by []. Qed.
Lemma fwf_linear R D n l : fwf (mk_linear (LS:=LS) R D n l). Proof. by []. Qed.
Lemma fwf_constant R D l : fwf (mk_constant (LS:=LS) R D l). Proof. by []. Qed.
Lemma fwf_measure (u : measure) : fwf (factor_of_measure u). Proof. by []. Qed.

Lemma ueval_tab R D (Lam : nat -> mat) (nu : nat -> vec) (lb : nat -> LS) S hS hL mu lnZ c k x :
  (k < R)%N ->
  ueval (Measure R D (tabb R D D Lam) (tabbv R D nu) (tabl R lb) S hS hL mu lnZ c) k x
  = eval_core D (Lam k) (nu k) (lb k) x.
Proof.
move=> Hk; rewrite /ueval /= tablE //; apply: eval_core_ext => [i j Hi Hj|i Hi].
- by rewrite tabbE.
- by rewrite tabbvE.
Qed.

(* the natural parameters of every product are the same on all four code paths *)
Ltac paths := rewrite /with_inverse /without_cache /with_cache /inv_all /=.

(* what remains after unfolding one code path: the sum of natural parameters, with the zero
   blocks of linear / constant factors written out *)
Lemma eval_core_lin_add D (A : mat) (a b : vec) (la lb : LS) x :
  eval_core D A (vadd a b) (la + lb) x = eval_core D A a la x + eval_core D mzero b lb x.
Proof.
rewrite -eval_coreD; apply: eval_core_ext => // i j _ _.
by rewrite /madd /mzero addr0.
Qed.
Lemma eval_core_const_add D (A : mat) (a : vec) (la lb : LS) x :
  eval_core D A a (la + lb) x = eval_core D A a la x + eval_core D mzero vzero lb x.
Proof.
rewrite -eval_coreD; apply: eval_core_ext => [i j _ _|i _].
- by rewrite /madd /mzero addr0.
- by rewrite /vadd /vzero addr0.
Qed.

Ltac kinds Hwf :=
  first [ by rewrite eval_coreD
        | by rewrite Hwf eval_core_lin_add
        | by let HL := fresh "HL" in let Hn := fresh "Hn" in case: Hwf => HL Hn; rewrite HL Hn eval_core_const_add ].

Theorem multiply_eval upd (u : measure) (f : factor) i j x :
  fwf f -> uD u = fD f -> (i < uR u)%N -> (j < fR f)%N ->
  ueval (multiply upd u f) (i * fR f + j) x = ueval u i x + feval f j x.
Proof.
move=> Hwf HD Hi Hj.
have Hk : (i * fR f + j < uR u * fR f)%N.
  apply: (@leq_trans (i.+1 * fR f)); last by rewrite leq_mul2r Hi orbT.
  by rewrite mulSn addnC ltn_add2r.
have Hd : ((i * fR f + j) %/ fR f = i)%N by rewrite divnMDl ?(leq_ltn_trans _ Hj) // divn_small // addn0.
have Hm : ((i * fR f + j) %% fR f = j)%N by rewrite modnMDl modn_small.
move: Hwf; rewrite /multiply /fwf /feval {2}/ueval HD.
case: (fk f) => [|v g||] Hwf; case: upd => /=; try (case: (uSig u) => [Sg|] /=); paths;
  rewrite ueval_tab // ?Hd ?Hm; kinds Hwf.
Qed.

Theorem multiply_R upd (u : measure) (f : factor) : uR (multiply upd u f) = (uR u * fR f)%N.
Proof.
rewrite /multiply; case: (fk f) => [|v g||]; case: upd => /=; try (case: (uSig u) => [Sg|] /=); by paths.
Qed.

(* component-wise product; a single-component operand is broadcast *)
Theorem hadamard_eval upd (u : measure) (f : factor) k x :
  fwf f -> uD u = fD f -> (k < maxn (uR u) (fR f))%N ->
  ueval (hadamard upd u f) k x = ueval u (bidx (uR u) k) x + feval f (bidx (fR f) k) x.
Proof.
move=> Hwf HD Hk; move: Hwf; rewrite /hadamard /fwf /feval {2}/ueval HD.
case: (fk f) => [|v g||] Hwf; case: upd => /=; try (case: (uSig u) => [Sg|] /=); paths;
  rewrite ueval_tab //; kinds Hwf.
Qed.

Theorem hadamard_R upd (u : measure) (f : factor) : uR (hadamard upd u f) = maxn (uR u) (fR f).
Proof.
rewrite /hadamard; case: (fk f) => [|v g||]; case: upd => /=; try (case: (uSig u) => [Sg|] /=); by paths.
Qed.

(* product(): one component, the product of all of them *)
Theorem fproduct_eval (f : factor) x :
  feval (fproduct f) 0 x = suml (fR f) (fun r => feval f r x).
Proof.
rewrite /fproduct /mk_general /feval /= tablE // -eval_core_sum.
by apply: eval_core_ext => [i j Hi Hj|i Hi]; rewrite ?tabbE ?tabbvE.
Qed.

Definition core (u : measure) := (uR u, uD u, uLam u, unu u, ulb u, ucls u).
Definition same_core (u v : measure) : Prop := core v = core u.
Lemma same_core_refl u : same_core u u. Proof. by []. Qed.
Lemma same_core_trans u v w : same_core u v -> same_core v w -> same_core u w.
Proof. by rewrite /same_core => H1 H2; rewrite H2 H1. Qed.
Lemma ensure_Sigma_core u : same_core u (ensure_Sigma u).
Proof. by rewrite /ensure_Sigma; case: (uSig u) => [Sg|]. Qed.
Lemma compute_lnZ_core u : same_core u (compute_lnZ u).
Proof. exact: (ensure_Sigma_core u). Qed.
Lemma compute_mu_core u : same_core u (compute_mu u).
Proof. exact: (ensure_Sigma_core u). Qed.
Lemma prepare_same_core u : same_core u (prepare u).
Proof.
rewrite /prepare; set u1 := (if ulnZ u is Some _ then u else compute_lnZ u).
have H1 : same_core u u1 by rewrite /u1; case: (ulnZ u) => [z|]; [exact: same_core_refl | exact: compute_lnZ_core].
case: (umu u1) => [m|] //; exact: (same_core_trans H1 (compute_mu_core u1)).
Qed.
Lemma prepare_core (u : measure) :
  [/\ uR (prepare u) = uR u, uD (prepare u) = uD u, uLam (prepare u) = uLam u,
      unu (prepare u) = unu u & ulb (prepare u) = ulb u].
Proof. by have [-> -> -> -> -> _] := prepare_same_core u. Qed.

Theorem uproduct_eval (u : measure) x :
  ueval (uproduct u) 0 x = suml (uR u) (fun r => ueval u r x).
Proof.
rewrite /uproduct; set p := Measure _ _ _ _ _ _ _ _ _ _ _.
have Hp : ueval p 0 x = suml (uR u) (fun r => ueval u r x).
  rewrite /p ueval_tab // -eval_core_sum; exact: eval_core_ext.
by case: (uSig u) => [Sg|] //; rewrite -Hp /ueval; have [_ -> -> -> ->] := prepare_core p.
Qed.

Theorem uproduct_R (u : measure) : uR (uproduct u) = 1%N.
Proof.
by rewrite /uproduct; case: (uSig u) => [Sg|] //; have [-> _ _ _ _] := prepare_core (Measure 1 (uD u) _ _ _ None None None None None _).
Qed.

End C01.
