(* C02, approximate affine transformations: the moment-matched marginals and joints the approximate conditionals return
   are built by the density constructor from a covariance the code symmetrises; they are densities (pdf_ok: evaluate to
   lnN, integrate to one) whenever that covariance has positive determinant. *)
From mathcomp Require Import all_ssreflect all_algebra.
From mathcomp Require Import ring.
From GT Require Import Tensor DetExec LogDom MxTac MxLemmas Obj Factor Measure Pdf Cond Moments Approx EvalLemmas Spec C01_proofs PdfLemmas.
Set Implicit Arguments.
Unset Strict Implicit.
Unset Printing Implicit Defensive.
Import GRing.Theory Num.Theory.
Local Open Scope ring_scope.

Section C02approx.
Variable F : realFieldType.
Variable LS : logS F.
Notation mat := (mat F).
Notation vec := (vec F).

(* a covariance given by a symmetric function is a valid constructor argument as soon as its determinant is positive *)
Lemma sym_args_ok R D (Sig : nat -> mat) :
  (forall r i j, Sig r i j = Sig r j i) -> (forall r, (r < R)%N -> 0 < \det (mxf D D (Sig r))) ->
  pdf_args_ok (LS:=LS) false R D Sig None None.
Proof.
move=> Hs Hd r Hr /=; split=> //; last exact: Hd.
by apply/matrixP=> i j; rewrite !mxE Hs.
Qed.

Lemma fm_Sigma_sym Dx Dk Dy (M : mat) (b : vec) (Sig : mat) (Ex : vec) (Exx : mat) (Ek : vec) (Ekx Ekk : mat) i j :
  fm_Sigma Dx Dk Dy M b Sig Ex Exx Ek Ekx Ekk i j = fm_Sigma Dx Dk Dy M b Sig Ex Exx Ek Ekx Ekk j i.
Proof. by rewrite /fm_Sigma; congr (_ * _); rewrite addrC. Qed.

Lemma het_Sigma_y_sym Dy Da Dk Dx (A M : mat) (b mux : vec) (Sx : mat) (Dint : vec) i j :
  het_Sigma_y Dy Da Dk Dx A M b mux Sx Dint i j = het_Sigma_y Dy Da Dk Dx A M b mux Sx Dint j i.
Proof. by rewrite /het_Sigma_y; congr (_ * _); rewrite addrC. Qed.

(* marginal transformation of the feature models (one component of p(x)) *)
Theorem approx_feature_marginal_density Dx Dk Dy (M : mat) (b : vec) (Sig : mat) (Ex : vec) (Exx : mat) (Ek : vec) (Ekx Ekk : mat) :
  0 < \det (mxf Dy Dy (fm_Sigma Dx Dk Dy M b Sig Ex Exx Ek Ekx Ekk)) ->
  pdf_ok (mk_pdf (LS:=LS) false 1 Dy (fun _ => fm_Sigma Dx Dk Dy M b Sig Ex Exx Ek Ekx Ekk) (fun _ => fm_mu Dx Dk M b Ex Ek) None None).
Proof.
move=> Hd; apply: mk_pdf_ok; apply: sym_args_ok => [r i j|r _] //.
exact: fm_Sigma_sym.
Qed.

(* marginal transformation of the heteroscedastic models *)
Theorem approx_hetero_marginal_density Dy Da Dk Dx (A M : mat) (b mux : vec) (Sx : mat) (Dint : vec) :
  0 < \det (mxf Dy Dy (het_Sigma_y Dy Da Dk Dx A M b mux Sx Dint)) ->
  pdf_ok (mk_pdf (LS:=LS) false 1 Dy (fun _ => het_Sigma_y Dy Da Dk Dx A M b mux Sx Dint) (fun _ => het_mu Dx M b mux) None None).
Proof.
move=> Hd; apply: mk_pdf_ok; apply: sym_args_ok => [r i j|r _] //.
exact: het_Sigma_y_sym.
Qed.

(* joint transformation: the block covariance [[Sx, C'], [C, Sy]] with symmetric Sx *)
Lemma mblock_sym D1 (Sx C Sy : mat) :
  (forall i j, Sx i j = Sx j i) -> (forall i j, Sy i j = Sy j i) ->
  forall i j, mblock D1 Sx (mtr C) C Sy i j = mblock D1 Sx (mtr C) C Sy j i.
Proof.
move=> Hx Hy i j; rewrite /mblock /mtr.
by case: (ltnP i D1) => Hi; case: (ltnP j D1) => Hj.
Qed.

(* joint transformation of the feature models: x first, covariance [[Sx, C'], [C, Sy]] *)
Theorem approx_feature_joint_density Dx Dk Dy (M : mat) (b : vec) (Sig : mat) (Ex : vec) (Exx : mat) (Ek : vec) (Ekx Ekk : mat)
    (mux : vec) (Sx : mat) :
  (forall i j, Sx i j = Sx j i) ->
  0 < \det (mxf (Dx + Dy) (Dx + Dy) (fm_joint_Sigma Dx Dk Dy M b Sig Ex Exx Ek Ekx Ekk mux Sx)) ->
  pdf_ok (mk_pdf (LS:=LS) false 1 (Dx + Dy) (fun _ => fm_joint_Sigma Dx Dk Dy M b Sig Ex Exx Ek Ekx Ekk mux Sx)
                 (fun _ => fm_joint_mu Dx Dk M b Ex Ek mux) None None).
Proof.
move=> HS Hd; apply: mk_pdf_ok; apply: sym_args_ok => [r i j|r _] //.
by rewrite /fm_joint_Sigma; apply: mblock_sym => // a c; exact: fm_Sigma_sym.
Qed.
End C02approx.
Print Assumptions approx_feature_marginal_density.
Print Assumptions approx_hetero_marginal_density.
Print Assumptions approx_feature_joint_density.
