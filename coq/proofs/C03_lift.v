(* C03: from the per-component expectation formulas to the integrate_* methods of a measure in any cache
   state: the moments they read are the TRUE mean and (symmetric) covariance of the component. *)
From mathcomp Require Import all_ssreflect all_algebra.
From GT Require Import Tensor DetExec LogDom MxTac MxLemmas Obj Factor Measure Pdf Cond Moments ExpLog EvalLemmas Spec Wick
  C01_proofs PdfLemmas C04_proofs C14_proofs C03a_proofs C03b_proofs.
Set Implicit Arguments.
Unset Strict Implicit.
Unset Printing Implicit Defensive.
Import GRing.Theory Num.Theory.
Local Open Scope ring_scope.

Section Lift.
Variable F : realFieldType.
Variable LS : logS F.
Notation measure := (measure LS).

(* the covariance every integrate_* method reads is symmetric (it is the inverse of a symmetric precision) *)
Lemma prepared_S_sym (u : measure) r : cache_ok u -> diag_ok u -> posdet u -> (r < uR u)%N ->
  forall i j, (i < uD u)%N -> (j < uD u)%N -> getS (prepare u) r i j = getS (prepare u) r j i.
Proof.
move=> H1 H2 H3 Hr i j Hi Hj.
have [HS _] := prepare_moments H1 H2 H3 Hr.
have sy : (Lm u r)^T = Lm u r := co_sym (H1 r Hr).
have St : (mxf (uD u) (uD u) (getS (prepare u) r))^T = mxf (uD u) (uD u) (getS (prepare u) r).
  by rewrite HS trmx_inv sy.
by move/matrixP/(_ (Ordinal Hj) (Ordinal Hi)): St; rewrite !mxE.
Qed.

(* the total mass is the Gaussian integral *)
Lemma log_mass_spec (u : measure) r : cache_ok u -> diag_ok u -> posdet u -> (r < uR u)%N ->
  log_mass u r = lngint (Lm u r) (nuv u r) (ulb u r).
Proof. by move=> H1 H2 H3 Hr; have [<- _ _ _] := log_integral_spec H1 H2 H3 Hr. Qed.

(* hence, e.g., the quartic inner integral of a measure: mass times the sum of Wick moments of the rows *)
Lemma int_quartic_inner_wick (u : measure) A a B b C c Dm d r :
  cache_ok u -> diag_ok u -> posdet u -> (r < uR u)%N ->
  let D := uD u in let u1 := prepare u in
  let f := get_default D A a in let g := get_default D B b in
  let h := get_default D C c in let e := get_default D Dm d in
  int_quartic_inner u A a B b C c Dm d r
  = sumn (fK f) (fun k => sumn (fK h) (fun l =>
      gE D (getmu u1 r) (getS u1 r)
         [:: rowf (formA f r) (forma f r) k; rowf (formA g r) (forma g r) k;
             rowf (formA h r) (forma h r) l; rowf (formA e r) (forma e r) l])).
Proof.
move=> H1 H2 H3 Hr /=; rewrite /int_quartic_inner.
by apply: E_quartic_inner_wick; exact: prepared_S_sym.
Qed.
End Lift.
