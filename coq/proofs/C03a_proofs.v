(* C03, part a: polynomial integrals up to third order are the exact Gaussian moments. *)
From mathcomp Require Import all_ssreflect all_algebra.
From mathcomp Require Import ring.
From GT Require Import Tensor DetExec LogDom MxTac MxLemmas Obj Factor Measure Moments EvalLemmas Wick.
Set Implicit Arguments.
Unset Strict Implicit.
Unset Printing Implicit Defensive.
Import GRing.Theory Num.Theory.
Local Open Scope ring_scope.


Section SumHelpers.
Variable F : fieldType.

Lemma sumn_exch m n (f : nat -> nat -> F) :
  sumn m (fun i => sumn n (fun j => f i j)) = sumn n (fun j => sumn m (fun i => f i j)).
Proof.
rewrite sumnE (eq_bigr (fun i : 'I_m => \sum_(j < n) f i j)); last by move=> i _; rewrite sumnE.
by rewrite exchange_big /= sumnE; apply: eq_bigr => j _; rewrite sumnE.
Qed.

Lemma sumn_delta_l n i (v : nat -> F) : (i < n)%N -> sumn n (fun j => (i == j)%:R * v j) = v i.
Proof.
move=> Hi; rewrite sumnE (bigD1 (Ordinal Hi)) //= eqxx mul1r big1 ?addr0 // => j Hj.
have -> : (i == j) = false by apply/negbTE; move: Hj; rewrite -val_eqE /= eq_sym.
by rewrite mul0r.
Qed.

Lemma sumn_delta_r n i (v : nat -> F) : (i < n)%N -> sumn n (fun j => v j * (i == j)%:R) = v i.
Proof.
by move=> Hi; rewrite -[RHS](sumn_delta_l v Hi); apply: eq_sumn => j _; rewrite mulrC.
Qed.

Lemma dot_delta_l n i (v : vec F) : (i < n)%N -> dot n (fun j => (i == j)%:R) v = v i.
Proof. exact: sumn_delta_l. Qed.

Lemma dot_delta_r n i (v : vec F) : (i < n)%N -> dot n v (fun j => (i == j)%:R) = v i.
Proof. exact: sumn_delta_r. Qed.

Lemma mvec_delta n (X : mat F) i j : (j < n)%N -> mvec n X (fun k => (j == k)%:R) i = X i j.
Proof. by move=> Hj; rewrite /mvec (sumn_delta_r (fun k => X i k) Hj). Qed.

(* associativity of a bilinear form written with sums: (x' X) y = x' (X y) *)
Lemma bilA m n (x : vec F) (X : mat F) (y : vec F) :
  sumn n (fun i => sumn m (fun j => x j * X j i) * y i)
  = sumn m (fun j => x j * sumn n (fun i => X j i * y i)).
Proof.
rewrite (eq_sumn (g := fun i => sumn m (fun j => x j * X j i * y i))); last first.
  by move=> i _; rewrite -sumnMr.
rewrite sumn_exch; apply: eq_sumn => j _.
by rewrite -sumnMl; apply: eq_sumn => i _; rewrite mulrA.
Qed.

Lemma dotC n (u v : vec F) : dot n u v = dot n v u.
Proof. by apply: eq_sumn => k _; rewrite mulrC. Qed.

End SumHelpers.

Section C03a.
Variable F : realFieldType.
Notation mat := (mat F).
Notation vec := (vec F).
Variable D : nat.
Variables (mu : vec) (S : mat).
Hypothesis S_sym : forall i j, (i < D)%N -> (j < D)%N -> S i j = S j i.
Notation gE := (gE D mu S).
Notation rowf := (@rowf F).
Notation coordf := (@coordf F).

Let Ssym_mx : (mxf D D S)^T = mxf D D S.
Proof. by rewrite -mxf_tr; apply/mxfP => i j Hi Hj; rewrite /mtr S_sym. Qed.

(* means and covariances of the two kinds of forms *)
Lemma fmean_coord i : (i < D)%N -> fmean D mu (coordf i) = mu i.
Proof. by move=> Hi; rewrite /fmean /= addr0 dot_delta_l. Qed.
Lemma fmean_row (A : mat) (a : vec) k : fmean D mu (rowf A a k) = aff D mu A a k.
Proof. by []. Qed.
Lemma fcov_row (A : mat) (a : vec) (B : mat) (b : vec) k l :
  fcov D S (rowf A a k) (rowf B b l) = XSY D S A B k l.
Proof. by []. Qed.
Lemma fcov_coordl i (g : aform F) : (i < D)%N -> fcov D S (coordf i) g = mvec D S g.1 i.
Proof. by move=> Hi; rewrite /fcov /= dot_delta_l. Qed.
Lemma fcov_coordr (f : aform F) j : (j < D)%N -> fcov D S f (coordf j) = vmat D f.1 S j.
Proof.
move=> Hj; rewrite /fcov /= /dot /vmat; apply: eq_sumn => k _.
by rewrite mvec_delta.
Qed.
Lemma fcov_coord i j : (i < D)%N -> (j < D)%N -> fcov D S (coordf i) (coordf j) = S i j.
Proof. by move=> Hi Hj; rewrite fcov_coordl //= mvec_delta. Qed.

Lemma E_x_wick i : (i < D)%N -> E_x mu i = gE [:: coordf i].
Proof. by move=> Hi; rewrite /gE E1 fmean_coord. Qed.
Lemma E_linear_wick (A : mat) (a : vec) k : E_linear D mu A a k = gE [:: rowf A a k].
Proof. by rewrite /gE E1. Qed.
Lemma E_xxT_wick i j : (i < D)%N -> (j < D)%N -> E_xxT mu S i j = gE [:: coordf i; coordf j].
Proof.
move=> Hi Hj; rewrite /gE E2 !fmean_coord // fcov_coord // /E_xxT /madd /outer.
by rewrite addrC.
Qed.
(* A (S + mu mu') B' = A S B' + (A mu)(B mu)' *)
Lemma AEA (A B : mat) k l :
  mmul D A (mmul D (E_xxT mu S) (mtr B)) k l = XSY D S A B k l + mvec D A mu k * mvec D B mu l.
Proof.
rewrite /mmul /E_xxT /madd /outer /mtr /XSY /mmul /mtr /mvec -sumnMr -sumnD.
apply: eq_sumn => i _.
rewrite (eq_sumn (g := fun j => S i j * B l j + mu i * (B l j * mu j))); last first.
  by move=> j _; ring.
rewrite sumnD sumnMl.
set x1 := sumn _ _; set x2 := sumn _ _; clearbody x1 x2; ring.
Qed.

Lemma E_quadratic_inner_wick K (A : mat) (a : vec) (B : mat) (b : vec) :
  E_quadratic_inner D mu S K A a B b = sumn K (fun k => gE [:: rowf A a k; rowf B b k]).
Proof.
have T1 : trace D (mmul D (mmul K (mtr A) B) S) = trace K (XSY D S A B).
  rewrite !traceE /XSY !mxf_mul (mxf_tr _ _ A) (mxf_tr _ _ B) -mulmxA mxtrace_mulC.
  by rewrite -mxtrace_tr !trmx_mul trmxK Ssym_mx mulmxA.
have T2 : dot D (vmat D mu (mmul K (mtr A) B)) mu = dot K (mvec D A mu) (mvec D B mu).
  by rewrite !dotE cvf_vmat !cvf_mvec !mxf_mul (mxf_tr _ _ A) trmx_mul !mulmxA.
rewrite (eq_sumn (g := fun k => XSY D S A B k k + mvec D A mu k * mvec D B mu k
                              + mvec D A mu k * b k + a k * aff D mu B b k)); last first.
  move=> k _; rewrite /gE E2 !fmean_row fcov_row /aff /vadd.
  set x1 := mvec _ _ _ _; set x2 := mvec _ _ _ _; set x3 := XSY _ _ _ _ _ _.
  by clearbody x1 x2 x3; ring.
by rewrite !sumnD /E_quadratic_inner T1 T2.
Qed.
Lemma E_quadratic_outer_wick (A : mat) (a : vec) (B : mat) (b : vec) k l :
  E_quadratic_outer D mu S A a B b k l = gE [:: rowf A a k; rowf B b l].
Proof.
rewrite /gE E2 !fmean_row fcov_row /E_quadratic_outer /madd /outer (AEA A B k l) /aff /vadd.
set x1 := mvec _ _ _ _; set x2 := mvec _ _ _ _; set x3 := XSY _ _ _ _ _ _.
clearbody x1 x2 x3; ring.
Qed.
Lemma xbxx_core (b : vec) (beta : F) i j : (i < D)%N -> (j < D)%N ->
  E_xbxx D mu S b i j + beta * E_xxT mu S i j = gE [:: coordf i; (b, beta); coordf j].
Proof.
move=> Hi Hj; rewrite /gE E3 !fmean_coord // fcov_coord // fcov_coordl // fcov_coordr //=.
rewrite /fmean /= /E_xbxx /madd /mscale.
have -> : mmul D (outer mu b) (E_xxT mu S) i j = mu i * (vmat D b S j + dot D b mu * mu j).
  rewrite /mmul /outer /E_xxT /madd /outer /vmat /dot -sumnMr -sumnD -sumnMl.
  by apply: eq_sumn => k _; ring.
have -> : mmul D S (outer b mu) i j = mvec D S b i * mu j.
  by rewrite /mmul /outer /mvec -sumnMr; apply: eq_sumn => k _; rewrite mulrA.
rewrite (dotC D mu b) /E_xxT /madd /outer.
set x1 := vmat _ _ _ _; set x2 := dot _ _ _; set x3 := mvec _ _ _ _.
clearbody x1 x2 x3; ring.
Qed.

Lemma E_xbxx_wick (b : vec) i j : (i < D)%N -> (j < D)%N ->
  E_xbxx D mu S b i j = gE [:: coordf i; (b, 0); coordf j].
Proof. by move=> Hi Hj; rewrite -xbxx_core // mul0r addr0. Qed.
Lemma E_cubic_outer_wick (A : vec) (a : F) i j : (i < D)%N -> (j < D)%N ->
  E_cubic_outer D mu S A a i j = gE [:: coordf i; (A, a); coordf j].
Proof. by move=> Hi Hj; rewrite -xbxx_core. Qed.
Lemma E_cubic_inner_wick L (A : mat) (a : vec) (B : mat) (b : vec) (C : mat) (c : vec) k :
  E_cubic_inner D mu S L A a B b C c k = sumn L (fun l => gE [:: rowf A a k; rowf B b l; rowf C c l]).
Proof.
set Bm := aff D mu B b; set Cm := aff D mu C c.
have XE (Y : mat) l : XSY D S A Y k l = sumn D (fun i => mmul D A S k i * Y l i).
  by rewrite /mmul bilA.
have H1 : mvec D (mmul D A S) (vadd (vmat L Cm B) (vmat L Bm C)) k
          = sumn L (fun l => XSY D S A B k l * Cm l + XSY D S A C k l * Bm l).
  rewrite /mvec /vadd /vmat.
  rewrite (eq_sumn (g := fun i => sumn L (fun l => mmul D A S k i * (Cm l * B l i + Bm l * C l i)))); last first.
    by move=> i _; rewrite sumnMl sumnD.
  rewrite sumn_exch; apply: eq_sumn => l _.
  rewrite !XE -!sumnMr -sumnD; apply: eq_sumn => i _.
  set x := mmul _ _ _ _ _; clearbody x; ring.
rewrite (eq_sumn (g := fun l => (XSY D S A B k l * Cm l + XSY D S A C k l * Bm l)
                               + (XSY D S B C l l + Bm l * Cm l) * aff D mu A a k)); last first.
  move=> l _; rewrite /gE E3 !fmean_row !fcov_row -/Bm -/Cm.
  set x1 := XSY _ _ _ _ _ _; set x2 := XSY _ _ _ _ _ _; set x3 := XSY _ _ _ _ _ _.
  set x4 := aff _ _ _ _ _; set x5 := Bm l; set x6 := Cm l.
  clearbody x1 x2 x3 x4 x5 x6; ring.
by rewrite sumnD sumnMr sumnD -H1.
Qed.
End C03a.

(* the defaults of _get_default: an omitted matrix is the identity (K = D), an omitted vector is zero;
   a 2-D matrix / 1-D vector is shared by all components, a 3-D / 2-D one is per component *)
Section Defaults.
Variable F : realFieldType.
Lemma get_default_none D r : fK (get_default D (@MNone F) (@VNone F)) = D
  /\ formA (get_default D (@MNone F) (@VNone F)) r = mid /\ forma (get_default D (@MNone F) (@VNone F)) r = vzero.
Proof. by []. Qed.
Lemma get_default_shared D K (A : mat F) (a : vec F) r :
  fK (get_default D (M2 K A) (V1 a)) = K /\ formA (get_default D (M2 K A) (V1 a)) r = A
  /\ forma (get_default D (M2 K A) (V1 a)) r = a.
Proof. by []. Qed.
Lemma get_default_per D R K (A : nat -> mat F) (a : nat -> vec F) r : (1 < R)%N ->
  fK (get_default D (M3 R K A) (V2 R a)) = K /\ formA (get_default D (M3 R K A) (V2 R a)) r = A r
  /\ forma (get_default D (M3 R K A) (V2 R a)) r = a r.
Proof. by move=> HR; rewrite /formA /forma /= /bidx (gtn_eqF HR). Qed.
Lemma get_default_mixed D R K (A : mat F) (a : nat -> vec F) (A3 : nat -> mat F) (a1 : vec F) r : (1 < R)%N ->
  [/\ formA (get_default D (M2 K A) (V2 R a)) r = A, forma (get_default D (M2 K A) (V2 R a)) r = a r,
      formA (get_default D (M3 R K A3) (V1 a1)) r = A3 r & forma (get_default D (M3 R K A3) (V1 a1)) r = a1].
Proof. by move=> HR; rewrite /formA /forma /= /bidx (gtn_eqF HR). Qed.
End Defaults.
Print Assumptions E_x_wick.
Print Assumptions E_linear_wick.
Print Assumptions E_xxT_wick.
Print Assumptions E_quadratic_inner_wick.
Print Assumptions E_quadratic_outer_wick.
Print Assumptions E_xbxx_wick.
Print Assumptions E_cubic_outer_wick.
Print Assumptions E_cubic_inner_wick.
Print Assumptions get_default_none.
Print Assumptions get_default_shared.
Print Assumptions get_default_per.
Print Assumptions get_default_mixed.
