(* C03, part b: cubic (outer) and quartic integrals are the exact Gaussian moments. *)
From mathcomp Require Import all_ssreflect all_algebra.
From mathcomp Require Import ring.
From GT Require Import Tensor DetExec LogDom MxTac MxLemmas Obj Factor Measure Moments EvalLemmas Wick.
Set Implicit Arguments.
Unset Strict Implicit.
Unset Printing Implicit Defensive.
Import GRing.Theory Num.Theory.
Local Open Scope ring_scope.

Definition W4 (R : comRingType) (m1 m2 m3 m4 c12 c13 c14 c23 c24 c34 : R) : R :=
  m1 * m2 * m3 * m4 + c12 * m3 * m4 + c13 * m2 * m4 + c14 * m2 * m3
  + c23 * m1 * m4 + c24 * m1 * m3 + c34 * m1 * m2
  + c12 * c34 + c13 * c24 + c14 * c23.

(* ---- the quartic inner formula at MathComp-matrix level ---- *)
Section QuarticM.
Variable R : comRingType.
Variables (D K L : nat).
Variables (S : 'M[R]_D).
Hypothesis S_sym : S^T = S.
Variables (A B : 'M[R]_(K, D)) (u v : 'cV[R]_K).
Variables (C Dm : 'M[R]_(L, D)) (w z : 'cV[R]_L).

Definition qi_first := \tr (A *m S *m (C^T *m Dm + Dm^T *m C) *m S *m B^T).
Definition qi_second := ((u^T *m B + v^T *m A) *m S *m (C^T *m z + Dm^T *m w)) 0 0.
Definition qi_third := (\tr (A *m S *m B^T) + (u^T *m v) 0 0) * (\tr (C *m S *m Dm^T) + (w^T *m z) 0 0).
Definition qi_spec :=
  \sum_(k < K) \sum_(l < L)
    W4 (u k 0) (v k 0) (w l 0) (z l 0)
       ((A *m S *m B^T) k k) ((A *m S *m C^T) k l) ((A *m S *m Dm^T) k l)
       ((B *m S *m C^T) k l) ((B *m S *m Dm^T) k l) ((C *m S *m Dm^T) l l).

Lemma mdotE n (x y : 'cV[R]_n) : (x^T *m y) 0 0 = \sum_(k < n) x k 0 * y k 0.
Proof. by rewrite mxE; apply: eq_bigr => k _; rewrite mxE. Qed.

Lemma bilinE n1 n2 (x : 'cV[R]_n1) (X : 'M[R]_(n1, n2)) (y : 'cV[R]_n2) :
  (x^T *m X *m y) 0 0 = \sum_(k < n1) \sum_(l < n2) x k 0 * X k l * y l 0.
Proof.
rewrite mxE (eq_bigr (fun l => \sum_(k < n1) x k 0 * X k l * y l 0)); last first.
  by move=> l _; rewrite mxE big_distrl /=; apply: eq_bigr => k _; rewrite mxE.
by rewrite exchange_big.
Qed.

Lemma trmulE n1 n2 (X : 'M[R]_(n1, n2)) (Y : 'M[R]_(n2, n1)) :
  \tr (X *m Y) = \sum_(k < n1) \sum_(l < n2) X k l * Y l k.
Proof. by rewrite /mxtrace; apply: eq_bigr => k _; rewrite mxE. Qed.

Lemma XSYt n1 n2 (X : 'M[R]_(n1, D)) (Y : 'M[R]_(n2, D)) k l :
  (X *m S *m Y^T) k l = (Y *m S *m X^T) l k.
Proof.
have -> : X *m S *m Y^T = (Y *m S *m X^T)^T by rewrite !trmx_mul trmxK S_sym mulmxA.
by rewrite mxE.
Qed.

Lemma quartic_inner_mx : qi_first + qi_second + qi_third = qi_spec.
Proof.
rewrite /qi_first /qi_second /qi_third /qi_spec.
have -> : \tr (A *m S *m (C^T *m Dm + Dm^T *m C) *m S *m B^T)
        = \sum_(k < K) \sum_(l < L) ((A *m S *m C^T) k l * (B *m S *m Dm^T) k l
                                    + (A *m S *m Dm^T) k l * (B *m S *m C^T) k l).
  rewrite mulmxDr !mulmxDl mxtraceD.
  have -> : A *m S *m (C^T *m Dm) *m S *m B^T = (A *m S *m C^T) *m (Dm *m S *m B^T) by rewrite !mulmxA.
  have -> : A *m S *m (Dm^T *m C) *m S *m B^T = (A *m S *m Dm^T) *m (C *m S *m B^T) by rewrite !mulmxA.
  rewrite !trmulE -big_split /=; apply: eq_bigr => k _; rewrite -big_split /=.
  by apply: eq_bigr => l _; rewrite (XSYt Dm B) (XSYt C B).
have -> : ((u^T *m B + v^T *m A) *m S *m (C^T *m z + Dm^T *m w)) 0 0
        = \sum_(k < K) \sum_(l < L) (u k 0 * (B *m S *m C^T) k l * z l 0 + u k 0 * (B *m S *m Dm^T) k l * w l 0
                                    + v k 0 * (A *m S *m C^T) k l * z l 0 + v k 0 * (A *m S *m Dm^T) k l * w l 0).
  rewrite !(mulmxDl, mulmxDr) !(mxE addmx_key).
  have E1 : u^T *m B *m S *m (C^T *m z) = u^T *m (B *m S *m C^T) *m z by rewrite !mulmxA.
  have E2 : v^T *m A *m S *m (C^T *m z) = v^T *m (A *m S *m C^T) *m z by rewrite !mulmxA.
  have E3 : u^T *m B *m S *m (Dm^T *m w) = u^T *m (B *m S *m Dm^T) *m w by rewrite !mulmxA.
  have E4 : v^T *m A *m S *m (Dm^T *m w) = v^T *m (A *m S *m Dm^T) *m w by rewrite !mulmxA.
  rewrite E1 E2 E3 E4 !bilinE -!big_split /=; apply: eq_bigr => k _; rewrite -!big_split /=.
  by apply: eq_bigr => l _; ring.
have -> : (\tr (A *m S *m B^T) + (u^T *m v) 0 0) * (\tr (C *m S *m Dm^T) + (w^T *m z) 0 0)
        = \sum_(k < K) \sum_(l < L) ((A *m S *m B^T) k k + u k 0 * v k 0) * ((C *m S *m Dm^T) l l + w l 0 * z l 0).
  by rewrite !mdotE /mxtrace -!big_split /= big_distrlr.
rewrite -!big_split /=; apply: eq_bigr => k _; rewrite -!big_split /=; apply: eq_bigr => l _.
rewrite /W4; ring.
Qed.
End QuarticM.

Section C03b.
Variable F : realFieldType.
Notation mat := (mat F).
Notation vec := (vec F).
Variable D : nat.
Variables (mu : vec) (S : mat).
Hypothesis S_sym : forall i j, (i < D)%N -> (j < D)%N -> S i j = S j i.
Notation gE := (gE D mu S).
Notation rowf := (@rowf F).

Lemma fmean_rowf (A : mat) (a : vec) k : fmean D mu (rowf A a k) = aff D mu A a k.
Proof. by []. Qed.
Lemma fcov_rowf (X : mat) (x : vec) (Y : mat) (y : vec) k l :
  fcov D S (rowf X x k) (rowf Y y l) = XSY D S X Y k l.
Proof. by []. Qed.

Lemma E_cubic_outer_general_wick K (A : mat) (a : vec) (B : mat) (b : vec) (C : mat) (c : vec) l :
  E_cubic_outer_general D mu S K A a B b C c l
  = sumn K (fun k => gE [:: rowf A a k; rowf B b k; rowf C c l]).
Proof.
rewrite /E_cubic_outer_general /vadd /vscale /vmat /madd /outer /dot /trace.
rewrite [RHS](eq_sumn (g := fun k => aff D mu A a k * aff D mu B b k * aff D mu C c l
    + XSY D S A B k k * aff D mu C c l + XSY D S A C k l * aff D mu B b k
    + XSY D S B C k l * aff D mu A a k)); last first.
  by move=> k _; rewrite /Wick.gE E3 !fmean_rowf !fcov_rowf.
rewrite !sumnE mulNr !mulr_suml -sumrN -!big_split /=.
apply: eq_bigr => k _.
set x1 := aff _ _ A a k; set x2 := aff _ _ B b k; set x3 := aff _ _ C c l.
set y1 := XSY _ _ B C k l; set y2 := XSY _ _ A C k l; set y3 := XSY _ _ A B k k.
clearbody x1 x2 x3 y1 y2 y3; ring.
Qed.
Lemma E_quartic_outer_wick L (A : mat) (a : vec) (B : mat) (b : vec) (C : mat) (c : vec) (Dm : mat) (d : vec) k m :
  E_quartic_outer D mu S L A a B b C c Dm d k m
  = sumn L (fun l => gE [:: rowf A a k; rowf B b l; rowf C c l; rowf Dm d m]).
Proof.
rewrite /E_quartic_outer /madd /mscale /msub /mmul /outer /dot /trace.
rewrite [RHS](eq_sumn (g := fun l =>
   W4 (aff D mu A a k) (aff D mu B b l) (aff D mu C c l) (aff D mu Dm d m)
      (XSY D S A B k l) (XSY D S A C k l) (XSY D S A Dm k m)
      (XSY D S B C l l) (XSY D S B Dm l m) (XSY D S C Dm l m))); last first.
  by move=> l _; rewrite /Wick.gE E4 !fmean_rowf !fcov_rowf.
rewrite !sumnE !mulr_suml -!big_split /=.
apply: eq_bigr => l _; rewrite /W4.
set x1 := aff _ _ A a k; set x2 := aff _ _ B b l; set x3 := aff _ _ C c l; set x4 := aff _ _ Dm d m.
set y12 := XSY _ _ A B k l; set y13 := XSY _ _ A C k l; set y14 := XSY _ _ A Dm k m.
set y23 := XSY _ _ B C l l; set y24 := XSY _ _ B Dm l m; set y34 := XSY _ _ C Dm l m.
clearbody x1 x2 x3 x4 y12 y13 y14 y23 y24 y34; ring.
Qed.
Lemma mxf_XSY n1 n2 (X Y : mat) :
  mxf n1 n2 (XSY D S X Y) = mxf n1 D X *m mxf D D S *m (mxf n2 D Y)^T.
Proof. by rewrite /XSY !mxf_mul (mxf_tr D n2 Y) mulmxA. Qed.

Lemma mxf_S_sym : (mxf D D S)^T = mxf D D S.
Proof. by rewrite -mxf_tr; apply/mxfP => i j Hi Hj; rewrite /mtr S_sym. Qed.

Lemma cvf_vmat' m n (v : vec) (X : mat) : cvf n (vmat m v X) = (mxf m n X)^T *m cvf m v.
Proof. by rewrite -[LHS]trmxK cvf_vmat trmx_mul trmxK. Qed.

Lemma E_quartic_inner_wick K L (A : mat) (a : vec) (B : mat) (b : vec) (C : mat) (c : vec) (Dm : mat) (d : vec) :
  E_quartic_inner D mu S K L A a B b C c Dm d
  = sumn K (fun k => sumn L (fun l => gE [:: rowf A a k; rowf B b k; rowf C c l; rowf Dm d l])).
Proof.
have -> : sumn K (fun k => sumn L (fun l => gE [:: rowf A a k; rowf B b k; rowf C c l; rowf Dm d l]))
  = qi_spec (mxf D D S) (mxf K D A) (mxf K D B) (cvf K (aff D mu A a)) (cvf K (aff D mu B b))
            (mxf L D C) (mxf L D Dm) (cvf L (aff D mu C c)) (cvf L (aff D mu Dm d)).
  rewrite /qi_spec sumnE; apply: eq_bigr => k _; rewrite sumnE; apply: eq_bigr => l _.
  by rewrite /Wick.gE E4 !fmean_rowf !fcov_rowf -!mxf_XSY !mxE.
rewrite -(quartic_inner_mx mxf_S_sym) /E_quartic_inner.
set t1 := trace K _; set t2 := dot D _ _; set t3 := (_ + _) * (_ + _).
have -> : t1 = qi_first (mxf D D S) (mxf K D A) (mxf K D B) (mxf L D C) (mxf L D Dm).
  rewrite /t1 /qi_first traceE !mxf_mul (mxf_tr D K B) mxf_add (mxf_tr D D (mmul L (mtr C) Dm)).
  rewrite mxf_mul (mxf_tr D L C) trmx_mul trmxK.
  by rewrite !mulmxA.
have -> : t2 = qi_second (mxf D D S) (mxf K D A) (mxf K D B) (cvf K (aff D mu A a)) (cvf K (aff D mu B b))
            (mxf L D C) (mxf L D Dm) (cvf L (aff D mu C c)) (cvf L (aff D mu Dm d)).
  rewrite /t2 /qi_second dotE cvf_vmat 2!cvf_add 4!cvf_vmat'.
  by rewrite [(_ + _)^T]linearD /= !trmx_mul !trmxK ?mulmxA.
have -> // : t3 = qi_third (mxf D D S) (mxf K D A) (mxf K D B) (cvf K (aff D mu A a)) (cvf K (aff D mu B b))
            (mxf L D C) (mxf L D Dm) (cvf L (aff D mu C c)) (cvf L (aff D mu Dm d)).
by rewrite /t3 /qi_third !traceE !mxf_XSY !dotE.
Qed.
End C03b.
Print Assumptions E_cubic_outer_general_wick.
Print Assumptions E_quartic_outer_wick.
Print Assumptions E_quartic_inner_wick.
