(* C04, induction over programs: every object reachable by ANY finite sequence of the modelled public operations,
   with read-only queries interleaved arbitrarily, satisfies the cache invariant; and erasing the queries does not
   change what the result evaluates to. *)
From mathcomp Require Import all_ssreflect all_fingroup all_algebra.
From mathcomp Require Import ring.
From GT Require Import Tensor DetExec LogDom MxTac MxLemmas Obj Factor Measure Pdf Cond EvalLemmas Spec
  C01_proofs PdfLemmas C04_proofs C05_proofs C06_proofs C0809_proofs C1013_proofs C07_proofs C12_proofs C15_proofs.
Set Implicit Arguments.
Unset Strict Implicit.
Unset Printing Implicit Defensive.
Import GRing.Theory Num.Theory.
Local Open Scope ring_scope.

Section Prog.
Variable F : realFieldType.
Variable LS : logS F.
Notation mat := (mat F).
Notation vec := (vec F).
Notation measure := (measure LS).
Notation cond := (cond LS).
Notation factor := (factor LS).

(* read-only queries: integrate() / log_integral() (= _prepare_integration), log_integral_light(), get_density() *)
Inductive query := QIntegrate | QLight | QDensity | QEval.
Definition warm (q : query) (u : measure) : measure :=
  match q with
  | QIntegrate => prepare u
  | QLight => (log_integral_light u).1
  | QDensity => (get_density u).1
  | QEval => u
  end.

(* measure-valued programs over non-density measures (class CMeas / CDiagMeas leaves) *)
Inductive prog :=
  | PLeaf (u : measure)                                   (* a constructed measure *)
  | PWarm (q : query) (p : prog)                          (* perform a read-only query first *)
  | PMul (upd : bool) (p : prog) (f : factor)             (* multiply / * *)
  | PHad (upd : bool) (p : prog) (f : factor)             (* hadamard *)
  | PSlice (idx : seq int) (p : prog)
  | PProduct (p : prog)
  | PNormalize (p : prog).

Fixpoint eval (p : prog) : measure :=
  match p with
  | PLeaf u => u
  | PWarm q p => warm q (eval p)
  | PMul upd p f => multiply upd (eval p) f
  | PHad upd p f => hadamard upd (eval p) f
  | PSlice idx p => uslice idx (eval p)
  | PProduct p => uproduct (eval p)
  | PNormalize p => normalize (eval p)
  end.

Fixpoint erase (p : prog) : prog :=
  match p with
  | PLeaf u => PLeaf u
  | PWarm _ p => erase p
  | PMul upd p f => PMul upd (erase p) f
  | PHad upd p f => PHad upd (erase p) f
  | PSlice idx p => PSlice idx (erase p)
  | PProduct p => PProduct (erase p)
  | PNormalize p => PNormalize (erase p)
  end.

(* what the library requires of its inputs at every step (nothing is ill-conditioned, shapes fit, index arrays in
   range): the side conditions of the step lemmas, collected along the program *)
Definition wf_factor (u : measure) (f : factor) : Prop := [/\ fwf f, fwf1 f, fsym f & uD u = fD f].
Definition good (u : measure) : Prop :=
  [/\ cache_ok u, diag_ok u, posdet u, ~~ is_pdf (ucls u) & (uSig u -> uhldL u)].
Fixpoint ok (p : prog) : Prop :=
  match p with
  | PLeaf u => good u
  | PWarm q p => ok p
  | PMul upd p f => [/\ ok p, wf_factor (eval p) f & posdet (multiply upd (eval p) f)]
  | PHad upd p f => [/\ ok p, wf_factor (eval p) f, posdet (hadamard upd (eval p) f)
                      & uR (eval p) = fR f \/ (uR (eval p) = 1%N /\ (0 < fR f)%N) \/ (fR f = 1%N /\ (0 < uR (eval p))%N)]
  | PSlice idx p => ok p /\ all (fun i => (nidx (uR (eval p)) i < uR (eval p))%N) idx
  | PProduct p => ok p /\ posdet (uproduct (eval p))
  | PNormalize p => ok p
  end.

(* ------------------------------------------------------------------ helpers for eval_good *)

(* "ln_det_Lambda is stored whenever Sigma is" *)
Definition hl (u : measure) : Prop := uSig u -> uhldL u.

Lemma same_core_cls (u v : measure) : same_core u v -> ucls v = ucls u.
Proof. by move=> [_ _ _ _ _ ->]. Qed.

Lemma hl_ensure (u : measure) : hl u -> hl (ensure_Sigma u).
Proof. by rewrite /hl /ensure_Sigma; case E : (uSig u) => [s|] //=; rewrite E. Qed.
Lemma hl_lnZ (u : measure) : hl u -> hl (compute_lnZ u).
Proof. by move=> /hl_ensure. Qed.
Lemma hl_mu (u : measure) : hl u -> hl (compute_mu u).
Proof. by move=> /hl_ensure. Qed.
Lemma hl_light (u : measure) : hl u -> hl (log_integral_light u).1.
Proof. by rewrite /log_integral_light /=; case: (ulnZ u) => [z|] //; apply: hl_lnZ. Qed.
Lemma hl_prepare (u : measure) : hl u -> hl (prepare u).
Proof.
move=> /hl_light; rewrite /prepare /log_integral_light /=.
move: (if ulnZ u is Some _ then u else compute_lnZ u) => u1 H1.
by case: (umu u1) => [m|] //; apply: hl_mu.
Qed.

(* the parts of `good` that only depend on the core *)
Lemma good_same_core (u v : measure) : same_core u v -> cache_ok v -> hl v -> good u -> good v.
Proof.
move=> sc Hc Hh [_ Hd Hp Hn _]; split=> //.
- exact: (same_core_diag_ok sc).
- exact: (same_core_posdet sc).
- by rewrite (same_core_cls sc).
Qed.

Lemma light_same_core (u : measure) : same_core u (log_integral_light u).1.
Proof. by rewrite /log_integral_light /=; case: (ulnZ u) => [z|] //; apply: compute_lnZ_core. Qed.

Lemma light_ok (u : measure) : cache_ok u -> diag_ok u -> posdet u -> cache_ok (log_integral_light u).1.
Proof. by move=> Hc Hd Hp; rewrite /log_integral_light /=; case: (ulnZ u) => [z|] //; apply: compute_lnZ_ok. Qed.

Lemma warm_good q (u : measure) : good u -> good (warm q u).
Proof.
move=> Hg; have [Hc Hd Hp Hn Hh] := Hg; case: q => //=.
- apply: (good_same_core (prepare_same_core u)) => //; [exact: prepare_ok | exact: hl_prepare].
- apply: (good_same_core (light_same_core u)) => //; [exact: light_ok | exact: hl_light].
- apply: (good_same_core (prepare_same_core u)) => //; [exact: prepare_ok | exact: hl_prepare].
Qed.

Lemma normalize_good (u : measure) : good u -> good (normalize u).
Proof.
move=> [Hc Hd Hp Hn Hh]; have sc := compute_lnZ_core u.
split.
- exact: normalize_ok.
- exact: (same_core_diag_ok sc Hd).
- exact: (same_core_posdet sc Hp).
- by rewrite /normalize /= (same_core_cls sc).
- exact: (hl_lnZ Hh).
Qed.

Lemma gprod_shape R i j upd (u : measure) (f : factor) :
  [/\ uR (gprod R i j upd u f) = R, uD (gprod R i j upd u f) = fD f, ucls (gprod R i j upd u f) = CMeas
    & hl (gprod R i j upd u f)].
Proof. by rewrite /gprod /hl; case: (fk f) => [|v g||]; case: upd => /=; try (case: (uSig u) => [S0|] /=). Qed.

Lemma gprod_good R i j upd (u : measure) (f : factor) :
  cache_ok (gprod R i j upd u f) -> posdet (gprod R i j upd u f) -> good (gprod R i j upd u f).
Proof.
move=> Hc Hp; have [_ _ Ec Hh] := gprod_shape R i j upd u f.
by split=> //; rewrite ?Ec // /diag_ok Ec.
Qed.

Lemma uslice_good idx (u : measure) :
  good u -> all (fun i => (nidx (uR u) i < uR u)%N) idx -> good (uslice idx u).
Proof.
move=> [Hc Hd Hp Hn Hh] Hall.
have Hc' : cache_ok (uslice idx u) by apply: uslice_ok_partial.
move: Hc'; rewrite /uslice (negbTE Hn) => Hc'; split=> //=.
- move=> dg r a b /= Hr Ha Hb ab; rewrite tabbE //; apply: Hd => //; exact: nidx_all.
- by move=> r Hr; rewrite /Lm /= mxf_tabb //; apply: Hp; apply: nidx_all.
- by rewrite /hl /=; case: (uSig u).
Qed.

Lemma uproduct_good (u : measure) : good u -> posdet (uproduct u) -> good (uproduct u).
Proof.
move=> [Hc Hd Hp Hn Hh] Hpp.
have Hc' : cache_ok (uproduct u) by apply: uproduct_ok.
move: Hc' Hpp; rewrite /uproduct.
set p := Measure _ _ _ _ _ _ _ _ _ _ _ => Hc' Hpp.
have Hdp : diag_ok p.
  rewrite /diag_ok /p /= => dg r a b Hr Ha Hb ab; rewrite tabbE // /summ.
  apply: sumn_eq0 => k Hk; apply: Hd => //.
  by move: dg; case: (ucls u).
have Hnp : ~~ is_pdf (ucls p) by rewrite /p /=; case: (is_diag _).
have Hhp : hl p by [].
move: Hc' Hpp; case: (uSig u) => [S0|] Hc' Hpp; last by split.
have sc := prepare_same_core p.
split; [exact: Hc' | exact: (same_core_diag_ok sc) | exact: Hpp | by rewrite (same_core_cls sc) | exact: hl_prepare].
Qed.

(* MAIN: every reachable object is consistent, for programs of any length *)
Theorem eval_good (p : prog) : ok p -> good (eval p).
Proof.
elim: p => [u|q p IH|upd p IH f|upd p IH f|idx p IH|p IH|p IH] //=.
- by move=> /IH; apply: warm_good.
- move=> [/IH [Hc _ _ _ _] [Hwf Hwf1 Hsym HD] Hp].
  have := multiply_ok Hc Hwf Hwf1 Hsym HD Hp; move: Hp; rewrite multiply_gprod => Hp Hc'.
  exact: gprod_good.
- move=> [/IH [Hc _ _ _ _] [Hwf Hwf1 Hsym HD] Hp Hs].
  have := hadamard_ok_bcast Hs Hc Hwf Hwf1 Hsym HD Hp; move: Hp; rewrite hadamard_gprod => Hp Hc'.
  exact: gprod_good.
- by move=> [/IH Hg Hall]; apply: uslice_good.
- by move=> [/IH Hg Hp]; apply: uproduct_good.
- by move=> /IH; apply: normalize_good.
Qed.
Corollary eval_cache_ok (p : prog) : ok p -> cache_ok (eval p).
Proof. by move=> /eval_good []. Qed.

(* ------------------------------------------------------------------ helpers for queries_transparent *)
(* the induction invariant: extensional agreement of the natural parameters on the index range (C15: pagree) *)

Lemma pagree_refl (u : measure) : pagree u u.
Proof. by split. Qed.
Lemma pagree_sym (u v : measure) : pagree u v -> pagree v u.
Proof.
move=> [ER ED HL Hn Hl]; split; rewrite -?ER -?ED //.
- by move=> r i j Hr Hi Hj; rewrite HL.
- by move=> r i Hr Hi; rewrite Hn.
- by move=> r Hr; rewrite Hl.
Qed.
Lemma pagree_trans (u v w : measure) : pagree u v -> pagree v w -> pagree u w.
Proof.
move=> [ER ED HL Hn Hl] [ER' ED' HL' Hn' Hl']; split.
- by rewrite ER.
- by rewrite ED.
- by move=> r i j Hr Hi Hj; rewrite HL // HL' // -?ER -?ED.
- by move=> r i Hr Hi; rewrite Hn // Hn' // -?ER -?ED.
- by move=> r Hr; rewrite Hl // Hl' // -?ER.
Qed.
Lemma same_core_pagree (u v : measure) : same_core u v -> pagree u v.
Proof.
case: u => R D L n l S hS hL m z c; case: v => R' D' L' n' l' S' hS' hL' m' z' c'.
by rewrite /same_core /core /= => [[-> -> -> -> -> _]].
Qed.

Lemma warm_same_core q (u : measure) : same_core u (warm q u).
Proof.
case: q => /=; [exact: prepare_same_core | exact: light_same_core | exact: prepare_same_core | exact: same_core_refl].
Qed.

(* products: the natural parameters of the result are read entrywise on the range from those of the operand *)
Lemma gprod_pagree2 R i j upd upd' (u u' : measure) (f : factor) :
  pagree u u' -> uD u = fD f -> (forall k, (k < R)%N -> (i k < uR u)%N) ->
  pagree (gprod R i j upd u f) (gprod R i j upd' u' f).
Proof.
case: u => R1 D1 uL un ul uS uhS uhL um uz uc; case: u' => R1' D1' uL' un' ul' uS' uhS' uhL' um' uz' uc'.
case: f => k R2 D fL fn fl.
move=> [/= ER ED HL Hn Hl] HD Hi; subst R1' D1' D1.
rewrite /gprod /=; case: k => [|v g||]; case: upd; case: upd' => /=;
  try (case: uS => [S0|] /=); try (case: uS' => [S0'|] /=); split=> //=;
  try (by move=> r a b Hr Ha Hb; rewrite !tabbE // /madd ?HL //; apply: Hi);
  try (by move=> r a Hr Ha; rewrite !tabbvE // /vadd ?Hn //; apply: Hi);
  by move=> r Hr; rewrite !tablE // Hl //; apply: Hi.
Qed.

Lemma uslice_pagree idx (u u' : measure) : ~~ is_pdf (ucls u) -> ~~ is_pdf (ucls u') -> pagree u u' ->
  all (fun i => (nidx (uR u) i < uR u)%N) idx -> pagree (uslice idx u) (uslice idx u').
Proof.
move=> /negbTE Hc /negbTE Hc' [ER ED HL Hn Hl] Hall; rewrite /uslice Hc Hc' -ER -ED; split=> //=.
- by move=> r a b Hr Ha Hb; rewrite !tabbE //; apply: HL => //; apply: nidx_all.
- by move=> r a Hr Ha; rewrite !tabbvE //; apply: Hn => //; apply: nidx_all.
- by move=> r Hr; rewrite !tablE //; apply: Hl; apply: nidx_all.
Qed.

Definition uprod0 (u : measure) : measure :=
  Measure 1 (uD u) (tabb 1 (uD u) (uD u) (fun _ => summ (uR u) (uLam u))) (tabbv 1 (uD u) (fun _ => sumv (uR u) (unu u)))
          (tabl 1 (fun _ => suml (uR u) (ulb u))) None None None None None
          (if is_diag (ucls u) then CDiagMeas else CMeas).
Lemma uproduct_prod0 (u : measure) : same_core (uprod0 u) (uproduct u).
Proof.
rewrite /uproduct -/(uprod0 u); case: (uSig u) => [S0|]; [exact: prepare_same_core | exact: same_core_refl].
Qed.
Lemma eq_suml R (v v' : nat -> LS) : (forall r, (r < R)%N -> v r = v' r) -> suml R v = suml R v'.
Proof.
elim: R => [|R IH] //= H; rewrite IH ?H // => r Hr; apply: H.
exact: (ltn_trans Hr).
Qed.
Lemma uproduct_pagree (u u' : measure) : pagree u u' -> pagree (uproduct u) (uproduct u').
Proof.
move=> [ER ED HL Hn Hl].
apply: (pagree_trans (pagree_sym (same_core_pagree (uproduct_prod0 u)))).
apply: (pagree_trans _ (same_core_pagree (uproduct_prod0 u'))).
rewrite /uprod0 -ER -ED; split=> //=.
- move=> r a b Hr Ha Hb; rewrite !tabbE // /summ; apply: eq_sumn => k Hk; exact: HL.
- move=> r a Hr Ha; rewrite !tabbvE // /sumv; apply: eq_sumn => k Hk; exact: Hn.
- by move=> r Hr; rewrite !tablE //; apply: eq_suml.
Qed.

(* the cached lnZ is determined by (Lambda, nu) on the range (moments_unique without the mean) *)
Lemma lnZ_unique (v v' : measure) r r' :
  cache_ok_at v r -> cache_ok_at v' r' -> uD v' = uD v ->
  (forall i j, (i < uD v)%N -> (j < uD v)%N -> uLam v' r' i j = uLam v r i j) ->
  (forall i, (i < uD v)%N -> unu v' r' i = unu v r i) ->
  ulnZ v -> ulnZ v' -> getlnZ v' r' = getlnZ v r.
Proof.
case: v => R D L n l S hS hL m z c; case: v' => R' D' L' n' l' S' hS' hL' m' z' c' /= Hv Hv' ED.
move: Hv'; rewrite ED => Hv' HL Hn Hz Hz'.
have [_ cS _ _ cz] := Hv; have [_ cS' _ _ cz'] := Hv'.
have [HS Ez] := cz Hz; have [HS' Ez'] := cz' Hz'.
have [SL _ Eh] := cS HS; have [SL' _ Eh'] := cS' HS'.
have EL : Lm (Measure R' D L' n' l' S' hS' hL' m' z' c') r' = Lm (Measure R D L n l S hS hL m z c) r by apply/mxfP.
have En : nuv (Measure R' D L' n' l' S' hS' hL' m' z' c') r' = nuv (Measure R D L n l S hS hL m z c) r by apply/cvfP.
rewrite EL in SL'.
have ES := inv_same SL' SL.
by rewrite Ez' Ez Eh' Eh ES En.
Qed.

Lemma normalize_pagree (u u' : measure) : good u -> good u' -> pagree u u' -> pagree (normalize u) (normalize u').
Proof.
move=> [Hc Hd Hp _ _] [Hc' Hd' Hp' _ _] Hpa.
have sc := compute_lnZ_core u; have sc' := compute_lnZ_core u'.
have Hv := compute_lnZ_ok Hc Hd Hp; have Hv' := compute_lnZ_ok Hc' Hd' Hp'.
have [ER ED HL Hn Hl] : pagree (compute_lnZ u) (compute_lnZ u').
  apply: (pagree_trans (pagree_sym (same_core_pagree sc))).
  exact: (pagree_trans Hpa (same_core_pagree sc')).
have Hz : ulnZ (compute_lnZ u) by [].
have Hz' : ulnZ (compute_lnZ u') by [].
move: Hv Hv' ER ED HL Hn Hl Hz Hz'; rewrite /normalize.
move: (compute_lnZ u) (compute_lnZ u') => v v' Hv Hv' ER ED HL Hn Hl Hz Hz'.
split=> //= r Hr; rewrite !tablE -?ER //; congr (- _).
apply: esym; apply: lnZ_unique => //.
- exact: Hv.
- by apply: Hv'; rewrite -ER.
- by move=> a b Ha Hb; rewrite HL.
- by move=> a Ha; rewrite Hn.
Qed.

Lemma eval_pagree (p : prog) : ok p -> ok (erase p) -> pagree (eval p) (eval (erase p)).
Proof.
elim: p => [u|q p IH|upd p IH f|upd p IH f|idx p IH|p IH|p IH] /=.
- by move=> _ _; apply: pagree_refl.
- move=> Hok Hok'; apply: (pagree_trans _ (IH Hok Hok')).
  exact: (pagree_sym (same_core_pagree (warm_same_core q (eval p)))).
- move=> [Hok [_ _ _ HD] _] [Hok' _ _]; have Hpa := IH Hok Hok'.
  rewrite !multiply_gprod; have [<- _ _ _ _] := Hpa.
  apply: gprod_pagree2 => // k Hk.
  by rewrite ltn_divLR //; case: (fR f) Hk => //; rewrite muln0.
- move=> [Hok [_ _ _ HD] _ Hs] [Hok' _ _ _]; have Hpa := IH Hok Hok'.
  rewrite !hadamard_gprod; have [<- _ _ _ _] := Hpa.
  apply: gprod_pagree2 => // k.
  case: Hs => [->|[[-> H0]|[-> H0]]].
  + by rewrite maxnn; apply: bidx_lt.
  + by rewrite (maxn_idPr H0).
  + by rewrite (maxn_idPl H0); apply: bidx_lt.
- move=> [Hok Hall] [Hok' _]; have Hpa := IH Hok Hok'.
  have [_ _ _ Hn _] := eval_good Hok; have [_ _ _ Hn' _] := eval_good Hok'.
  exact: uslice_pagree.
- by move=> [Hok _] [Hok' _]; apply: uproduct_pagree; apply: IH.
- move=> Hok Hok'; apply: normalize_pagree; [exact: eval_good | exact: eval_good | exact: IH].
Qed.

(* queries are transparent: the program with all read-only queries erased evaluates to the same function,
   component by component, and has the same number of components *)
Theorem queries_transparent (p : prog) : ok p -> ok (erase p) ->
  uR (eval p) = uR (eval (erase p)) /\ uD (eval p) = uD (eval (erase p)) /\
  forall r x, (r < uR (eval p))%N -> ueval (eval p) r x = ueval (eval (erase p)) r x.
Proof.
move=> Hok Hok'; have [ER ED HL Hn Hl] := eval_pagree Hok Hok'.
split=> //; split=> // r x Hr; rewrite /ueval -ED (Hl r Hr).
by apply: eval_core_ext => [i j Hi Hj|i Hi]; [apply: HL | apply: Hn].
Qed.

End Prog.
Print Assumptions eval_good.
Print Assumptions eval_cache_ok.
Print Assumptions queries_transparent.
