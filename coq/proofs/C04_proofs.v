(* C04 (cache consistency) and the integral part of C02. *)
From mathcomp Require Import all_ssreflect all_algebra.
From mathcomp Require Import ring.
From GT Require Import Tensor DetExec LogDom MxTac MxLemmas Obj Factor Measure Pdf Cond EvalLemmas Spec C01_proofs PdfLemmas.
Set Implicit Arguments.
Unset Strict Implicit.
Unset Printing Implicit Defensive.
Import GRing.Theory Num.Theory.
Local Open Scope ring_scope.

Section C04.
Variable F : realFieldType.
Variable LS : logS F.
Notation mat := (mat F).
Notation vec := (vec F).
Notation lvec := (nat -> LS).
Notation measure := (measure LS).
Notation factor := (factor LS).

(* contracts on the inputs *)
Definition diag_ok (u : measure) : Prop := is_diag (ucls u) ->
  forall r i j, (r < uR u)%N -> (i < uD u)%N -> (j < uD u)%N -> i != j -> uLam u r i j = 0.
Definition posdet (u : measure) : Prop := forall r, (r < uR u)%N -> 0 < \det (Lm u r).
(* factors: symmetric precision; a rank-one factor's Lambda is g v v' (what the constructors build) *)
Definition fsym (f : factor) : Prop := forall r i j, (r < fR f)%N -> (i < fD f)%N -> (j < fD f)%N -> fLam f r i j = fLam f r j i.
Definition fwf1 (f : factor) : Prop :=
  match fk f with
  | KOneRank v g => forall r i j, (r < fR f)%N -> (i < fD f)%N -> (j < fD f)%N -> fLam f r i j = v r i * (g r * v r j)
  | _ => True
  end.

(* ------------------------------------------------------------------ helpers *)

Lemma symP D (A : mat) :
  (forall i j, (i < D)%N -> (j < D)%N -> A i j = A j i) <-> (mxf D D A)^T = mxf D D A.
Proof.
rewrite -mxf_tr; split=> [H|H].
  by apply/mxfP => i j Hi Hj; rewrite /mtr; apply: H.
by move=> i j Hi Hj; move/mxfP: H => /(_ j i Hj Hi).
Qed.

Lemma inv_pos n (S L : 'M[F]_n) : S *m L = 1%:M -> 0 < \det L ->
  \det S = (\det L)^-1 /\ 0 < \det S.
Proof.
move=> SL dL; have dn : \det L != 0 by apply: lt0r_neq0.
have E : \det S = (\det L)^-1.
  by rewrite -[RHS]mul1r; apply: (canRL (mulfK dn)); exact: det_inv.
by split=> //; rewrite E invr_gt0.
Qed.

Lemma inv_pos' n (S L : 'M[F]_n) : S *m L = 1%:M -> 0 < \det S ->
  \det L = (\det S)^-1 /\ 0 < \det L.
Proof. by move=> SL; apply: inv_pos; apply: mulmx1C. Qed.

Lemma inv_same n (S S' L : 'M[F]_n) : S *m L = 1%:M -> S' *m L = 1%:M -> S = S'.
Proof. by move=> /inv_unique -> /inv_unique ->. Qed.

Lemma inv_ld_ok (dg : bool) D (A : mat) :
  (dg -> forall i j, (i < D)%N -> (j < D)%N -> i != j -> A i j = 0) ->
  0 < \det (mxf D D A) ->
  [/\ mxf D D (inv_ld LS dg D A).1 *m mxf D D A = 1%:M,
      0 < \det (mxf D D (inv_ld LS dg D A).1)
    & - (inv_ld LS dg D A).2 = hln LS (\det (mxf D D (inv_ld LS dg D A).1))].
Proof.
move=> Hd dA.
have Hgen (S : mat) (x : F) : mxf D D S *m mxf D D A = 1%:M -> x = \det (mxf D D A) ->
   [/\ mxf D D S *m mxf D D A = 1%:M, 0 < \det (mxf D D S) & - hln LS x = hln LS (\det (mxf D D S))].
  move=> SA ->; have [E dS] := inv_pos SA dA.
  by split=> //; rewrite E hlnV.
case: dg Hd => [/(_ isT) Hd|_]; rewrite /inv_ld /=.
- pose d : 'rV[F]_D := \row_i A i i.
  have EA : mxf D D A = diag_mx d.
    apply/matrixP => i j; rewrite !mxE; case: eqP => [->|/eqP ij]; first by rewrite mulr1n.
    by rewrite mulr0n Hd.
  have dP : \det (mxf D D A) = \prod_(i < D) A i i.
    by rewrite EA matrix.det_diag; apply: eq_bigr => i _; rewrite mxE.
  have dn0 (i : 'I_D) : A i i != 0.
    have : \prod_(i < D) A i i != 0 by rewrite -dP; apply: lt0r_neq0.
    by move/prodf_neq0 => /(_ i isT).
  apply: Hgen; last by rewrite prodnE dP.
  rewrite mxf_tab.
  have -> : mxf D D (minv_diag A) = diag_mx (\row_i (A i i)^-1).
    by apply/matrixP => i j; rewrite !mxE /minv_diag -val_eqE; case: eqP => [->|_]; rewrite ?mulr1n ?mulr0n.
  rewrite EA mulmx_diag; apply/matrixP => i j; rewrite !mxE.
  by case: eqP => [->|_]; rewrite ?mulr0n // mulr1n mulVf.
- have dn : detn D A != 0 by rewrite detnE; apply: lt0r_neq0.
  by apply: Hgen; [exact: mxf_invVl | rewrite detnE].
Qed.

(* ---- transport along same_core ---- *)
Lemma same_core_sym (u v : measure) : same_core u v -> same_core v u.
Proof. by rewrite /same_core => ->. Qed.
Lemma same_core_posdet (u v : measure) : same_core u v -> posdet u -> posdet v.
Proof.
case: u => R D L n l S hS hL m z c; case: v => R' D' L' n' l' S' hS' hL' m' z' c'.
by rewrite /same_core /core /= => [[-> -> -> _ _ _]].
Qed.
Lemma same_core_diag_ok (u v : measure) : same_core u v -> diag_ok u -> diag_ok v.
Proof.
case: u => R D L n l S hS hL m z c; case: v => R' D' L' n' l' S' hS' hL' m' z' c'.
by rewrite /same_core /core /= => [[-> -> -> _ _ ->]].
Qed.
Lemma same_core_lngint (u v : measure) r : same_core u v ->
  lngint (Lm v r) (nuv v r) (ulb v r) = lngint (Lm u r) (nuv u r) (ulb u r).
Proof.
case: u => R D L n l S hS hL m z c; case: v => R' D' L' n' l' S' hS' hL' m' z' c'.
by rewrite /same_core /core /= => [[_ -> -> -> -> _]].
Qed.
Lemma same_core_ueval (u v : measure) r x : same_core u v -> ueval v r x = ueval u r x.
Proof. by rewrite /ueval => [[_ -> -> -> -> _]]. Qed.

(* lazily filled caches are the true quantities *)
Lemma invert_lambda_ok u : cache_ok u -> diag_ok u -> posdet u -> cache_ok (invert_lambda u).
Proof.
move=> Hc Hd Hp r Hr.
have [sy cS cld cmu cz] := Hc r Hr.
have [] := @inv_ld_ok (is_diag (ucls u)) (uD u) (uLam u r) _ (Hp r Hr).
  by move=> dg i j Hi Hj ij; apply: Hd.
set S0 := mxf _ _ _ => SL dS hS.
have ES : Sg (invert_lambda u) r = S0 by rewrite /Sg /= mxf_tabb.
have EhS : gethS (invert_lambda u) r = hln LS (\det S0).
  by rewrite /gethS /= tablE // tablE.
have Eold : uSig u -> Sg u r = S0 /\ gethS u r = gethS (invert_lambda u) r.
  move=> /cS [SL' _ E']; have E := inv_same SL' SL.
  by rewrite EhS E' E.
split=> //.
- by move=> _; rewrite ES.
- by move=> _; split=> // hL [<-]; rewrite /gethS /= !tablE // opprK.
- move=> Hm; have [HS E] := cmu Hm; split=> //.
  by rewrite ES -(proj1 (Eold HS)).
- move=> Hz; have [HS E] := cz Hz; split=> //.
  by have [E1 E2] := Eold HS; rewrite ES -E1 -E2.
Qed.

Lemma ensure_Sigma_ok u : cache_ok u -> diag_ok u -> posdet u -> cache_ok (ensure_Sigma u).
Proof.
by rewrite /ensure_Sigma; case E : (uSig u) => [s|] // *; apply: invert_lambda_ok.
Qed.
Lemma ensure_Sigma_some (u : measure) : uSig (ensure_Sigma u).
Proof. by rewrite /ensure_Sigma; case E : (uSig u) => [s|] //; rewrite E. Qed.

Lemma compute_lnZ_ok u : cache_ok u -> diag_ok u -> posdet u -> cache_ok (compute_lnZ u).
Proof.
move=> Hc Hd Hp; have := ensure_Sigma_ok Hc Hd Hp; have := ensure_Sigma_some u.
rewrite /compute_lnZ; move: (ensure_Sigma u) => v HS Hv r Hr.
have [sy cS cld cmu cz] := Hv r Hr.
split=> //= _; split=> //.
rewrite /getlnZ /= tablE //; congr (emb _ _ + _ + _); congr (_ * _).
by rewrite dotE cvf_mvec mulmxA.
Qed.

Lemma compute_mu_ok u : cache_ok u -> diag_ok u -> posdet u -> cache_ok (compute_mu u).
Proof.
move=> Hc Hd Hp; have := ensure_Sigma_ok Hc Hd Hp; have := ensure_Sigma_some u.
rewrite /compute_mu; move: (ensure_Sigma u) => v HS Hv r Hr.
have [sy cS cld cmu cz] := Hv r Hr.
split=> //= _; split=> //.
by rewrite /muv /getmu /= cvf_tabbv // cvf_mvec.
Qed.

Lemma prepare_ok u : cache_ok u -> diag_ok u -> posdet u -> cache_ok (prepare u).
Proof.
move=> Hc Hd Hp; rewrite /prepare.
set u1 := (if ulnZ u is Some _ then u else compute_lnZ u).
have [H1 [Hc1 [Hd1 Hp1]]] : same_core u u1 /\ cache_ok u1 /\ diag_ok u1 /\ posdet u1.
  rewrite /u1; case: (ulnZ u) => [z|] //.
  have sc := compute_lnZ_core u.
  split=> //; split; first exact: compute_lnZ_ok.
  by split; [exact: (same_core_diag_ok sc) | exact: (same_core_posdet sc)].
by case: (umu u1) => [m|] //; apply: compute_mu_ok.
Qed.

Lemma prepare_some (u : measure) : ulnZ (prepare u) /\ umu (prepare u).
Proof.
rewrite /prepare; set u1 := (if ulnZ u is Some _ then u else compute_lnZ u).
have H1 : ulnZ u1 by rewrite /u1; case E: (ulnZ u) => [z|] //; rewrite E.
case E : (umu u1) => [m|]; first by rewrite E.
by split=> //; rewrite /compute_mu /=; move: H1; rewrite /ensure_Sigma; case: (uSig u1).
Qed.

(* a true lnZ cache plus ln_beta is the Gaussian integral *)
Lemma lnZ_lngint (v : measure) r : cache_ok v -> posdet v -> (r < uR v)%N -> ulnZ v ->
  getlnZ v r + ulb v r = lngint (Lm v r) (nuv v r) (ulb v r).
Proof.
move=> Hv Hp Hr Hz; have [sy cS cld cmu cz] := Hv r Hr.
have [HS ->] := cz Hz; have [SL dS ->] := cS HS.
have [E dL] := inv_pos' SL dS.
rewrite /lngint -(inv_unique SL) E hlnV // opprK.
by rewrite addrC !addrA.
Qed.

(* C02: the reported log-integral is the Gaussian integral of the function the object evaluates to,
   whatever the cache state, and the query leaves a consistent object behind *)
Lemma log_integral_spec u r : cache_ok u -> diag_ok u -> posdet u -> (r < uR u)%N ->
  [/\ (log_integral u).2 r = lngint (Lm u r) (nuv u r) (ulb u r),
      (log_integral_light u).2 r = lngint (Lm u r) (nuv u r) (ulb u r),
      cache_ok (log_integral u).1 & cache_ok (log_integral_light u).1].
Proof.
move=> Hc Hd Hp Hr.
have Hl : cache_ok (log_integral_light u).1.
  by rewrite /log_integral_light /=; case: (ulnZ u) => [z|] //; apply: compute_lnZ_ok.
split=> //; last exact: prepare_ok.
- rewrite /log_integral /=.
  have sc := prepare_same_core u.
  rewrite lnZ_lngint //; first exact: same_core_lngint.
  + exact: prepare_ok.
  + exact: (same_core_posdet sc).
  + by have [-> _ _ _ _] := prepare_core u.
  + by have [] := prepare_some u.
- move: Hl; rewrite /log_integral_light /=.
  set u1 := (if ulnZ u is Some _ then u else compute_lnZ u) => Hl.
  have [sc Hz] : same_core u u1 /\ ulnZ u1.
    rewrite /u1; case E : (ulnZ u) => [z|] /=; rewrite ?E //.
    by split=> //; exact: compute_lnZ_core.
  rewrite lnZ_lngint //; first exact: same_core_lngint.
  + exact: (same_core_posdet sc).
  + by case: sc => ->.
Qed.

(* normalising yields u(x) divided by its integral *)
Lemma normalize_spec u r x : cache_ok u -> diag_ok u -> posdet u -> (r < uR u)%N ->
  ueval (normalize u) r x = ueval u r x - (log_integral u).2 r.
Proof.
move=> Hc Hd Hp Hr.
have [-> _ _ _] := log_integral_spec Hc Hd Hp Hr.
have sc := compute_lnZ_core u.
have Hv := compute_lnZ_ok Hc Hd Hp.
have Hr' : (r < uR (compute_lnZ u))%N by case: sc => ->.
have := lnZ_lngint Hv (same_core_posdet sc Hp) Hr' isT.
rewrite (same_core_lngint r sc) => <-.
rewrite -(same_core_ueval r x sc) /normalize /ueval /eval_core /= tablE //.
by rewrite opprD [- _ - _]addrC addrA addrK.
Qed.

Lemma normalize_ok u : cache_ok u -> diag_ok u -> posdet u -> cache_ok (normalize u).
Proof.
move=> Hc Hd Hp; have := compute_lnZ_ok Hc Hd Hp.
rewrite /normalize; move: (compute_lnZ u) => v Hv r Hr.
by case: (Hv r Hr) => h1 h2 h3 h4 h5; split.
Qed.

Lemma grp1 (a c p h l : LS) : a - c - p - h = a + l - (c + p + h + l).
Proof. by rewrite [c + p + h + l]addrC opprD addrA addrK !opprD !addrA. Qed.

Lemma density_of_ok (v : measure) : cache_ok v -> ulnZ v -> umu v ->
  let p := mk_pdf false (uR v) (uD v) (getS v) (getmu v) (Some (uLam v)) (Some (gethS v)) in
  pdf_ok p /\ forall r x, (r < uR v)%N -> ueval p r x = ueval v r x - (getlnZ v r + ulb v r).
Proof.
move=> Hv Hz Hm p.
have Hargs : pdf_args_ok false (uR v) (uD v) (getS v) (Some (uLam v)) (Some (gethS v)).
  move=> r Hr /=; have [sy cS cld cmu cz] := Hv r Hr.
  have [HS _] := cz Hz; have [SL dS hS] := cS HS.
  split=> //.
  - exact: (inv_sym SL sy).
  - by move=> L [<-].
  - by move=> L h [_] [<-].
split; first exact: mk_pdf_ok.
move=> r x Hr; rewrite /p mk_pdf_eval //.
have [sy cS cld cmu cz] := Hv r Hr.
have [HS Ez] := cz Hz; have [SL dS hS] := cS HS; have [_ Em] := cmu Hm.
rewrite Ez hS /lnN /ueval /eval_core quadE dotE.
rewrite -/(Sg v r) -/(muv v r) -/(Lm v r) -/(nuv v r).
set X := cvf _ x.
have LS' := mulmx1C SL.
rewrite -(inv_unique LS').
have En : Lm v r *m muv v r = nuv v r by rewrite Em mulmxA LS' mul1mx.
have := normal_quad (muv v r) X SL sy; rewrite En /sc => <-.
by rewrite raddfB /=; apply: grp1.
Qed.

Lemma get_density_spec u : cache_ok u -> diag_ok u -> posdet u ->
  pdf_ok (get_density u).2 /\
  forall r x, (r < uR u)%N -> ueval (get_density u).2 r x = ueval u r x - (log_integral u).2 r.
Proof.
move=> Hc Hd Hp; have [Hz Hm] := prepare_some u.
have [H1 H2] := density_of_ok (prepare_ok Hc Hd Hp) Hz Hm.
split=> // r x Hr; rewrite /get_density /= H2; last by have [-> _ _ _ _] := prepare_core u.
by rewrite (same_core_ueval r x (prepare_same_core u)).
Qed.

(* ---- the three cache shapes a product can have ---- *)
Lemma without_cache_ok R D (Lam : nat -> mat) nu (lb : lvec) :
  (forall r, (r < R)%N -> (mxf D D (Lam r))^T = mxf D D (Lam r)) ->
  cache_ok (without_cache R D Lam nu lb).
Proof. by move=> H r Hr; split=> //; exact: H. Qed.

Lemma with_inverse_ok R D (Lam : nat -> mat) nu (lb : lvec) :
  (forall r, (r < R)%N -> (mxf D D (Lam r))^T = mxf D D (Lam r)) ->
  (forall r, (r < R)%N -> 0 < \det (mxf D D (Lam r))) ->
  cache_ok (with_inverse R D Lam nu lb).
Proof.
move=> Hs Hp r Hr.
have [] := @inv_ld_ok false D (Lam r) _ (Hp r Hr) => //=.
move=> SL dS hS.
split=> //; first exact: Hs.
- by move=> _; rewrite /Sg /gethS /= mxf_tabb // !tablE.
- by move=> _; split=> // hL [<-]; rewrite /gethS /= !tablE // opprK.
Qed.

Lemma with_cache_ok R D (Lam : nat -> mat) nu (lb : lvec) (Sig : nat -> mat) (hS : lvec) :
  (forall r, (r < R)%N -> (mxf D D (Lam r))^T = mxf D D (Lam r)) ->
  (forall r, (r < R)%N -> [/\ mxf D D (Sig r) *m mxf D D (Lam r) = 1%:M, 0 < \det (mxf D D (Sig r))
                            & hS r = hln LS (\det (mxf D D (Sig r)))]) ->
  cache_ok (with_cache R D Lam nu lb Sig hS).
Proof.
move=> Hs Hc r Hr; have [SL dS E] := Hc r Hr.
split=> //; first exact: Hs.
by move=> _; split=> // hL [<-]; rewrite /gethS /= !tablE.
Qed.

(* ---- Sherman-Morrison step of one component ---- *)
Lemma sm_ok D (S0 L0 : mat) (v : vec) (g : F) :
  let S := mxf D D S0 in let L := mxf D D L0 in let w := cvf D v in
  S *m L = 1%:M -> L^T = L -> 0 < \det S -> 0 < \det (L + g *: (w *m w^T)) ->
  let S' := mxf D D (sm_Sigma D S0 v g) in
  [/\ S' *m (L + g *: (w *m w^T)) = 1%:M, 0 < \det S'
    & hln LS (\det S) - hln LS (sm_denom D S0 v g) = hln LS (\det S')].
Proof.
move=> S L w SL Lsym dS dN S'.
have Ssym : S^T = S := inv_sym SL Lsym.
have [EL dL] := inv_pos' SL dS.
have Ed : sm_denom D S0 v g = 1 + g * qf S w.
  rewrite /sm_denom /sm_Sigma_v dotE cvf_mvec -/S -/w trmx_mul Ssym; congr (1 + g * _).
have dd : 0 < sm_denom D S0 v g.
  by move: dN; rewrite (det_rank1_update _ _ SL) -Ed pmulr_rgt0.
have ES' : S' = S - (g / (1 + g * qf S w)) *: (S *m w *m w^T *m S).
  rewrite -Ed; set d := sm_denom _ _ _ _.
  have -> : S *m w *m w^T *m S = (S *m w) *m (S *m w)^T by rewrite trmx_mul Ssym !mulmxA.
  rewrite -cvf_mvec; apply/matrixP => a b.
  rewrite !mxE big_ord_recl big_ord0 addr0 !mxE /sm_Sigma -/d !tabvE //.
  by rewrite mulrAC.
have SM : S' *m (L + g *: (w *m w^T)) = 1%:M.
  by rewrite ES'; apply: sherman_morrison => //; rewrite -Ed; apply: lt0r_neq0.
have [E' dS'] := inv_pos SM dN.
split=> //.
rewrite E' (det_rank1_update _ _ SL) -Ed invfM EL invrK.
by rewrite hln_div.
Qed.

(* multiply and hadamard are one function of (R, i, j) *)
Definition gprod (R : nat) (i j : nat -> nat) (upd : bool) (u : measure) (f : factor) : measure :=
  let D := fD f in
  let lb := tabl R (fun k => ulb u (i k) + flb f (j k)) in
  match fk f with
  | KGeneral =>
      let Lam := tabb R D D (fun k => madd (uLam u (i k)) (fLam f (j k))) in
      let nu := tabbv R D (fun k => vadd (unu u (i k)) (fnu f (j k))) in
      if upd then with_inverse R D Lam nu lb else without_cache R D Lam nu lb
  | KOneRank v g =>
      let Lam := tabb R D D (fun k => madd (uLam u (i k)) (fLam f (j k))) in
      let nu := tabbv R D (fun k => vadd (unu u (i k)) (fnu f (j k))) in
      if ~~ upd then without_cache R D Lam nu lb else
      match uSig u with
      | None => with_inverse R D Lam nu lb
      | Some Sg =>
          let hS := odflt (fun _ => 0) (uhldS u) in
          with_cache R D Lam nu lb
            (tabb R D D (fun k => sm_Sigma D (Sg (i k)) (v (j k)) (g (j k))))
            (tabl R (fun k => hS (i k) - hln LS (sm_denom D (Sg (i k)) (v (j k)) (g (j k)))))
      end
  | KLinear =>
      let Lam := tabb R D D (fun k => uLam u (i k)) in
      let nu := tabbv R D (fun k => vadd (unu u (i k)) (fnu f (j k))) in
      if ~~ upd then without_cache R D Lam nu lb else
      match uSig u with
      | None => with_inverse R D Lam nu lb
      | Some Sg => let hS := odflt (fun _ => 0) (uhldS u) in
          with_cache R D Lam nu lb (tabb R D D (fun k => Sg (i k))) (tabl R (fun k => hS (i k)))
      end
  | KConstant =>
      let Lam := tabb R D D (fun k => uLam u (i k)) in
      let nu := tabbv R D (fun k => unu u (i k)) in
      if ~~ upd then without_cache R D Lam nu lb else
      match uSig u with
      | None => with_inverse R D Lam nu lb
      | Some Sg => let hS := odflt (fun _ => 0) (uhldS u) in
          with_cache R D Lam nu lb (tabb R D D (fun k => Sg (i k))) (tabl R (fun k => hS (i k)))
      end
  end.

Lemma multiply_gprod upd (u : measure) (f : factor) :
  multiply upd u f = gprod (uR u * fR f) (fun k => k %/ fR f)%N (fun k => k %% fR f)%N upd u f.
Proof. by []. Qed.
Lemma hadamard_gprod upd (u : measure) (f : factor) :
  hadamard upd u f = gprod (maxn (uR u) (fR f)) (bidx (uR u)) (bidx (fR f)) upd u f.
Proof. by []. Qed.

Lemma gprod_ok R i j upd (u : measure) (f : factor) :
  (forall k, (k < R)%N -> (i k < uR u)%N) -> (forall k, (k < R)%N -> (j k < fR f)%N) ->
  cache_ok u -> fwf f -> fwf1 f -> fsym f -> uD u = fD f ->
  posdet (gprod R i j upd u f) -> cache_ok (gprod R i j upd u f).
Proof.
case: u => R1 D1 uL un ul uS uhS uhL um uz uc; case: f => k R2 D fL fn fl.
rewrite /fwf /fwf1 /fsym /= => Hi Hj Hu Hwf Hwf1 Hsym HD; subst D1.
have usym r : (r < R)%N -> (mxf D D (uL (i r)))^T = mxf D D (uL (i r)).
  by move=> Hr; have [] := Hu _ (Hi r Hr).
have fsymM r : (r < R)%N -> (mxf D D (fL (j r)))^T = mxf D D (fL (j r)).
  by move=> Hr; apply/symP => a b Ha Hb; apply: Hsym => //; apply: Hj.
have E1 r : (r < R)%N -> mxf D D (tabb R D D (fun k => madd (uL (i k)) (fL (j k))) r)
                        = mxf D D (uL (i r)) + mxf D D (fL (j r)).
  by move=> Hr; rewrite mxf_tabb // mxf_add.
have E2 r : (r < R)%N -> mxf D D (tabb R D D (fun k => uL (i k)) r) = mxf D D (uL (i r)).
  by move=> Hr; rewrite mxf_tabb.
have sym1 r : (r < R)%N -> (mxf D D (tabb R D D (fun k => madd (uL (i k)) (fL (j k))) r))^T
                        = mxf D D (tabb R D D (fun k => madd (uL (i k)) (fL (j k))) r).
  by move=> Hr; rewrite E1 // linearD /= usym // fsymM.
have sym2 r : (r < R)%N -> (mxf D D (tabb R D D (fun k => uL (i k)) r))^T
                        = mxf D D (tabb R D D (fun k => uL (i k)) r).
  by move=> Hr; rewrite E2 // usym.
have reuse S0 : uS = Some S0 -> forall r, (r < R)%N ->
    [/\ mxf D D (tabb R D D (fun k => S0 (i k)) r) *m mxf D D (tabb R D D (fun k => uL (i k)) r) = 1%:M,
        0 < \det (mxf D D (tabb R D D (fun k => S0 (i k)) r))
      & tabl R (fun k => odflt (fun _ => 0) uhS (i k)) r
        = hln LS (\det (mxf D D (tabb R D D (fun k => S0 (i k)) r)))].
  move=> ES r Hr; have [_ cS _ _ _] := Hu _ (Hi r Hr).
  move: cS; rewrite /Sg /Lm /gethS /getS /= ES => /(_ isT) [SL dS hS].
  by rewrite !mxf_tabb // tablE.
rewrite /gprod /=; case: k Hwf Hwf1 => [|v g||] Hwf Hwf1; case: upd => /=;
  try (case ES : uS => [S0|] /=); move=> Hp;
  try (by apply: without_cache_ok); try (by apply: with_inverse_ok);
  try (by apply: with_cache_ok => //; apply: reuse).
(* rank one, cached covariance: Sherman-Morrison *)
apply: with_cache_ok => // r Hr.
have [_ cS _ _ _] := Hu _ (Hi r Hr).
move: cS; rewrite /Sg /Lm /gethS /getS /= ES => /(_ isT) [SL dS hS].
have Ef : mxf D D (fL (j r)) = g (j r) *: (cvf D (v (j r)) *m (cvf D (v (j r)))^T).
  apply/matrixP => a b; rewrite mxE Hwf1 //; last exact: Hj.
  by rewrite !mxE big_ord_recl big_ord0 addr0 !mxE mulrCA.
have := Hp r Hr; rewrite /Lm /= E1 // Ef => dN.
have [] := sm_ok SL (usym r Hr) dS dN.
by rewrite /= !mxf_tabb // tablE // hS.
Qed.

(* products keep every cache true: full inversion, Sherman-Morrison + determinant lemma (rank one),
   covariance reuse (linear, constant) *)
Lemma multiply_ok upd (u : measure) (f : factor) :
  cache_ok u -> fwf f -> fwf1 f -> fsym f -> uD u = fD f ->
  posdet (multiply upd u f) -> cache_ok (multiply upd u f).
Proof.
rewrite multiply_gprod; apply: gprod_ok => k Hk.
- by rewrite ltn_divLR //; case: (fR f) Hk => //; rewrite muln0.
- by rewrite ltn_mod; case: (fR f) Hk => //; rewrite muln0.
Qed.

(* ORIGINAL STATEMENT (false without a broadcasting-compatibility hypothesis, see report):
Lemma hadamard_ok upd (u : measure) (f : factor) :
  cache_ok u -> fwf f -> fwf1 f -> fsym f -> uD u = fD f ->
  posdet (hadamard upd u f) -> cache_ok (hadamard upd u f). *)
Lemma hadamard_ok_partial upd (u : measure) (f : factor) :
  (forall k, (k < maxn (uR u) (fR f))%N -> (bidx (uR u) k < uR u)%N /\ (bidx (fR f) k < fR f)%N) ->
  cache_ok u -> fwf f -> fwf1 f -> fsym f -> uD u = fD f ->
  posdet (hadamard upd u f) -> cache_ok (hadamard upd u f).
Proof.
by move=> Hb; rewrite hadamard_gprod; apply: gprod_ok => k /Hb [].
Qed.

Lemma nidx_all R (idx : seq int) k :
  all (fun i => (nidx R i < R)%N) idx -> (k < size idx)%N -> (nidx R (nth (0 : int) idx k) < R)%N.
Proof. by move=> /allP H Hk; apply: H; apply: mem_nth. Qed.

(* ORIGINAL STATEMENT (false w.r.t. the corrected Spec.v, see uslice_ok_false below and the report):
Lemma uslice_ok idx (u : measure) :
  cache_ok u -> ~~ is_pdf (ucls u) -> all (fun i => (nidx (uR u) i < uR u)%N) idx -> cache_ok (uslice idx u).
   Added hypothesis: a cached Sigma comes with a cached ln_det_Lambda (uSig u -> uhldL u); in Python
   slicing a measure that has Sigma but ln_det_Lambda = None raises (jnp.take(None, ...)). *)
Lemma uslice_ok_partial idx (u : measure) :
  (uSig u -> uhldL u) ->
  cache_ok u -> ~~ is_pdf (ucls u) -> all (fun i => (nidx (uR u) i < uR u)%N) idx -> cache_ok (uslice idx u).
Proof.
move=> HL Hu /negbTE Hn Hall; rewrite /uslice Hn => r /= Hr.
have Hs := nidx_all Hall Hr.
have [sy cS cld cmu cz] := Hu _ Hs.
case: u HL Hu Hn Hall Hr Hs sy cS cld cmu cz => R D L n l [S0|] hS hL m z c //= HL Hu Hn Hall Hr Hs sy cS cld cmu cz.
- have [SL dS EhS] := cS isT; have [ShS EhL] := cld isT.
  split=> //=.
  + by rewrite /Lm /= mxf_tabb.
  + by move=> _; rewrite /Sg /Lm /gethS /= !mxf_tabb // tablE.
  + move=> _; split=> // hL' [<-]; rewrite /gethS /= !tablE //.
    by case Eh: hL (HL isT) => [h|] //= _; apply: EhL.
- by split=> //=; rewrite /Lm /= mxf_tabb.
Qed.

Lemma uslice_pdf_ok idx (p : measure) :
  pdf_ok p -> is_pdf (ucls p) -> all (fun i => (nidx (uR p) i < uR p)%N) idx -> pdf_ok (uslice idx p).
Proof.
move=> Hp Hc Hall; rewrite /uslice Hc; apply: mk_pdf_ok => r Hr /=.
have Hs := nidx_all Hall Hr.
have [[sy cS cld cmu cz] [HS _ _ _] _ _] := Hp _ Hs.
have [SL dS EhS] := cS HS.
split=> //.
- exact: (inv_sym SL sy).
- by move=> L [<-].
- by move=> L h [_] [<-].
Qed.

Lemma mxf_summ D R (A : nat -> mat) : mxf D D (summ R A) = \sum_(r < R) mxf D D (A r).
Proof.
apply/matrixP => a b; rewrite mxE /summ sumnE summxE.
by apply: eq_bigr => r _; rewrite mxE.
Qed.

Lemma uproduct_ok (u : measure) : cache_ok u -> diag_ok u -> posdet (uproduct u) -> cache_ok (uproduct u).
Proof.
move=> Hu Hd; rewrite /uproduct.
set p := Measure _ _ _ _ _ _ _ _ _ _ _.
have Hp : cache_ok p.
  move=> r Hr; split=> //; rewrite /Lm /= mxf_tabb // mxf_summ.
  rewrite raddf_sum /=; apply: eq_bigr => k _.
  by have [] := Hu k (ltn_ord k).
have Hdp : diag_ok p.
  rewrite /diag_ok /p /= => dg r a b Hr Ha Hb ab; rewrite tabbE // /summ.
  apply: sumn_eq0 => k Hk; apply: Hd => //.
  by move: dg; case: (ucls u).
by case: (uSig u) => [S0|] // Hpos; apply: prepare_ok.
Qed.

(* a cached value is THE value: two consistent objects with the same natural parameters have equal caches *)
Lemma caches_unique (u u' : measure) r : cache_ok u -> cache_ok u' -> same_core u u' -> (r < uR u)%N ->
  uSig u -> uSig u' ->
  (forall i j, (i < uD u)%N -> (j < uD u)%N -> getS u r i j = getS u' r i j) /\ gethS u r = gethS u' r.
Proof.
case: u => R D L n l S hS hL m z c; case: u' => R' D' L' n' l' S' hS' hL' m' z' c'.
rewrite /same_core /core => Hu Hu' [ER ED EL _ _ _]; move: Hu'; rewrite ER ED EL => Hu' /= Hr HS HS'.
have [_ /(_ HS) [SL _ E] _ _ _] := Hu r Hr.
have [_ /(_ HS') [SL' _ E'] _ _ _] := Hu' r Hr.
have ES := inv_same SL SL'.
split; first by apply/mxfP.
by rewrite E E' ES.
Qed.

(* natural parameters of a product do not depend on update_full nor on the cache state of the operand *)
Lemma gprod_core R i j upd upd' (u u' : measure) (f : factor) : same_core u u' ->
  core (gprod R i j upd u f) = core (gprod R i j upd' u' f).
Proof.
case: u => R1 D1 L n l S hS hL m z c; case: u' => R1' D1' L' n' l' S' hS' hL' m' z' c'.
rewrite /same_core /core /= => [[_ _ -> -> -> _]].
by rewrite /gprod /=; case: (fk f) => [|v g||]; case: upd; case: upd'; case: S => [S0|]; case: S' => [S0'|].
Qed.

Lemma multiply_core upd upd' (u u' : measure) (f : factor) : same_core u u' ->
  core (multiply upd u f) = core (multiply upd' u' f).
Proof.
move=> sc; rewrite !multiply_gprod; have [-> _ _ _ _ _] := sc; exact: gprod_core.
Qed.
Lemma hadamard_core upd upd' (u u' : measure) (f : factor) : same_core u u' ->
  core (hadamard upd u f) = core (hadamard upd' u' f).
Proof.
move=> sc; rewrite !hadamard_gprod; have [-> _ _ _ _ _] := sc; exact: gprod_core.
Qed.

(* ---- hadamard under NumPy broadcasting-compatible shapes ---- *)
Lemma bidx_lt R k : (k < R)%N -> (bidx R k < R)%N.
Proof. by rewrite /bidx; case: eqP => [->|]. Qed.

Lemma hadamard_ok_bcast upd (u : measure) (f : factor) :
  (uR u = fR f \/ (uR u = 1%N /\ (0 < fR f)%N) \/ (fR f = 1%N /\ (0 < uR u)%N)) ->
  cache_ok u -> fwf f -> fwf1 f -> fsym f -> uD u = fD f ->
  posdet (hadamard upd u f) -> cache_ok (hadamard upd u f).
Proof.
move=> Hs; apply: hadamard_ok_partial => k.
case: Hs => [->|[[-> H0]|[-> H0]]].
- by rewrite maxnn => Hk; split; apply: bidx_lt.
- by rewrite (maxn_idPr H0) => Hk; split=> //; apply: bidx_lt.
- by rewrite (maxn_idPl H0) => Hk; split=> //; apply: bidx_lt.
Qed.

(* ---- the original hadamard_ok is FALSE: shapes 2 and 3 do not broadcast, the model then reads
   component 2 of a 2-component measure, about which cache_ok u says nothing ---- *)
Definition cexA : mat := fun i j => if (i == 0%N) && (j == 1%N) then 1 else mid i j.
Definition cex_u : measure :=
  Measure 2 2 (fun r => if (r < 2)%N then mid else cexA) (fun _ => vzero) (fun _ => 0)
          None None None None None CMeas.
Definition cex_f : factor := Factor KGeneral 3 2 (fun _ => mzero) (fun _ => vzero) (fun _ => 0).

Lemma hadamard_ok_false :
  ~ (forall upd (u : measure) (f : factor),
       cache_ok u -> fwf f -> fwf1 f -> fsym f -> uD u = fD f ->
       posdet (hadamard upd u f) -> cache_ok (hadamard upd u f)).
Proof.
move=> /(_ false cex_u cex_f) H.
have Hu : cache_ok cex_u.
  move=> r Hr; split=> //.
  by rewrite /Lm /= Hr mxf_id trmx1.
have Hp : posdet (hadamard false cex_u cex_f).
  move=> r Hr; rewrite /Lm /= mxf_tabb // -detnE /=.
  case: r Hr => [|[|[|r]]] //= _; rewrite /minor /madd /mzero /cexA /mid /= ?(mulr1, mul1r, mulr0, mul0r, addr0, add0r, expr0, expr1); exact: ltr01.
have [] := H Hu I I (fun _ _ _ _ _ _ => erefl) erefl Hp 2%N isT.
move=> /matrixP /(_ (Ordinal (isT : (0 < 2)%N)) (Ordinal (isT : (1 < 2)%N))).
rewrite /Lm !mxE /= !tabbE //= /madd /mzero /cexA /mid /= !addr0 => /eqP.
by rewrite eq_sym oner_eq0.
Qed.

(* ---- the original uslice_ok is FALSE (w.r.t. the corrected Spec.v, where a measure may cache
   Sigma without ln_det_Lambda): the slice then stores ln_det_Lambda = 0 next to Sigma.  It fails
   in every log structure in which hln is not identically 0 on positive numbers. ---- *)
Definition cex_s (x : F) : measure :=
  Measure 1 1 (fun _ _ _ => x^-1) (fun _ => vzero) (fun _ => 0)
          (Some (fun _ _ _ => x)) (Some (fun _ => hln LS x)) None None None CMeas.

Lemma uslice_ok_false (x : F) : 0 < x -> hln LS x != 0 ->
  ~ (forall idx (u : measure), cache_ok u -> ~~ is_pdf (ucls u) ->
       all (fun i => (nidx (uR u) i < uR u)%N) idx -> cache_ok (uslice idx u)).
Proof.
move=> x0 hx /(_ [:: 0] (cex_s x)) H.
have xn : x != 0 by apply: lt0r_neq0.
have Hu : cache_ok (cex_s x).
  move=> r Hr; split=> //.
  - by apply/matrixP => i j; rewrite !mxE.
  - move=> _; rewrite /gethS /= det_mx11 mxE; split=> //.
    apply/matrixP => i j; rewrite !mxE big_ord_recl big_ord0 addr0 !mxE /= mulfV //.
    by rewrite !ord1 eqxx.
have [_ _ cld _ _] := H Hu isT isT 0%N isT.
have [_ /(_ _ erefl)] := cld isT.
rewrite /gethS /= => /eqP; rewrite eq_sym oppr_eq0.
by rewrite (negbTE hx).
Qed.
End C04.
Print Assumptions invert_lambda_ok.
Print Assumptions compute_lnZ_ok.
Print Assumptions compute_mu_ok.
Print Assumptions prepare_ok.
Print Assumptions log_integral_spec.
Print Assumptions normalize_spec.
Print Assumptions normalize_ok.
Print Assumptions get_density_spec.
Print Assumptions multiply_ok.
Print Assumptions hadamard_ok_partial.
Print Assumptions hadamard_ok_bcast.
Print Assumptions hadamard_ok_false.
Print Assumptions uslice_ok_partial.
Print Assumptions uslice_ok_false.
Print Assumptions uslice_pdf_ok.
Print Assumptions uproduct_ok.
Print Assumptions caches_unique.
Print Assumptions multiply_core.
Print Assumptions hadamard_core.
