(* C05: marginals and linear images. *)
From mathcomp Require Import all_ssreflect all_fingroup all_algebra.
From mathcomp Require Import ring.
From GT Require Import Tensor DetExec LogDom MxTac MxLemmas Obj Factor Measure Pdf Cond EvalLemmas Spec C01_proofs PdfLemmas.
Set Implicit Arguments.
Unset Strict Implicit.
Unset Printing Implicit Defensive.
Import GRing.Theory Num.Theory.
Local Open Scope ring_scope.

Section C05.
Variable F : realFieldType.
Variable LS : logS F.
Notation mat := (mat F).
Notation vec := (vec F).
Notation measure := (measure LS).

(* the diagonal class is only ever given diagonal covariances *)
Definition diag_cov_ok (p : measure) : Prop := is_diag (ucls p) ->
  forall r i j, (r < uR p)%N -> (i < uD p)%N -> (j < uD p)%N -> i != j -> getS p r i j = 0.

(* ---- helpers ---- *)
Lemma pdf_Sg_sym (p : measure) r : pdf_ok p -> (r < uR p)%N -> (Sg p r)^T = Sg p r.
Proof.
move=> Hp Hr; have [Hc [HS _ _ _] _ _] := Hp r Hr.
have [HSL _ _] := co_S Hc HS.
exact: inv_sym HSL (co_sym Hc).
Qed.

Lemma mxf_symP n (A : mat) :
  (mxf n n A)^T = mxf n n A -> forall i j, (i < n)%N -> (j < n)%N -> A i j = A j i.
Proof.
rewrite -mxf_tr => /esym/mxfP H i j Hi Hj.
by rewrite (H i j Hi Hj).
Qed.

Lemma msub2_sym n (idx : seq nat) (A : mat) :
  (mxf n n A)^T = mxf n n A -> all (fun i => (i < n)%N) idx ->
  (mxf (size idx) (size idx) (msub2 idx idx A))^T = mxf (size idx) (size idx) (msub2 idx idx A).
Proof.
move=> /mxf_symP Hs /all_nthP Hall; rewrite -mxf_tr; apply/mxfP => i j Hi Hj.
by rewrite /mtr /msub2 Hs //; apply: Hall.
Qed.

Lemma get_marginal_args (idx : seq nat) (p : measure) :
  pdf_ok p -> diag_cov_ok p -> uniq idx -> all (fun i => (i < uD p)%N) idx ->
  (forall r, (r < uR p)%N -> 0 < \det (mxf (size idx) (size idx) (msub2 idx idx (getS p r)))) ->
  pdf_args_ok (LS:=LS) (is_diag (ucls p)) (uR p) (size idx) (fun r => msub2 idx idx (getS p r)) None None.
Proof.
move=> Hp Hd Hu Hall Hpos r Hr /=; split => //.
- exact: (msub2_sym (pdf_Sg_sym Hp Hr) Hall).
- exact: Hpos.
- move=> Hdiag _ i j Hi Hj Hij; rewrite /msub2.
  move/all_nthP: (Hall) => Hn.
  apply: Hd => //; try exact: Hn.
  by rewrite nth_uniq.
Qed.

(* get_marginal(idx) IS N(mu[idx], Sigma[idx,idx]), for any duplicate-free index list in any order *)
Lemma get_marginal_eval (idx : seq nat) (p : measure) r (x : vec) :
  pdf_ok p -> diag_cov_ok p -> uniq idx -> all (fun i => (i < uD p)%N) idx ->
  (forall r, (r < uR p)%N -> 0 < \det (mxf (size idx) (size idx) (msub2 idx idx (getS p r)))) ->
  (r < uR p)%N ->
  ueval (get_marginal idx p) r x
  = lnN LS (cvf (size idx) (vsel idx (getmu p r))) (mxf (size idx) (size idx) (msub2 idx idx (getS p r)))
        (cvf (size idx) x).
Proof.
move=> Hp Hd Hu Hall Hpos Hr; rewrite /get_marginal.
by rewrite (mk_pdf_eval _ _ (get_marginal_args Hp Hd Hu Hall Hpos) Hr).
Qed.
Lemma get_marginal_ok (idx : seq nat) (p : measure) :
  pdf_ok p -> diag_cov_ok p -> uniq idx -> all (fun i => (i < uD p)%N) idx ->
  (forall r, (r < uR p)%N -> 0 < \det (mxf (size idx) (size idx) (msub2 idx idx (getS p r)))) ->
  pdf_ok (get_marginal idx p) /\ uR (get_marginal idx p) = uR p /\ uD (get_marginal idx p) = size idx.
Proof.
move=> Hp Hd Hu Hall Hpos; rewrite /get_marginal; split.
  by apply: mk_pdf_ok; apply: get_marginal_args.
exact: mk_pdf_shape.
Qed.

Lemma linear_sum_args ds (W : nat -> mat) (p : measure) :
  pdf_ok p ->
  (forall r, (r < uR p)%N -> 0 < \det (mxf ds (uD p) (W r) *m Sg p r *m (mxf ds (uD p) (W r))^T)) ->
  pdf_args_ok (LS:=LS) false (uR p) ds (fun r => mmul (uD p) (W r) (mmul (uD p) (getS p r) (mtr (W r)))) None None.
Proof.
move=> Hp Hpos r Hr /=.
have E : mxf ds ds (mmul (uD p) (W r) (mmul (uD p) (getS p r) (mtr (W r))))
         = mxf ds (uD p) (W r) *m Sg p r *m (mxf ds (uD p) (W r))^T.
  by rewrite !mxf_mul mxf_tr mulmxA.
rewrite E; split => //.
- by rewrite !trmx_mul trmxK (pdf_Sg_sym Hp Hr) mulmxA.
- exact: Hpos.
Qed.

(* get_density_of_linear_sum(W, b) IS N(W mu + b, W Sigma W'), b optional *)
Lemma linear_sum_eval ds (W : nat -> mat) (b : option (nat -> vec)) (p : measure) r (x : vec) :
  pdf_ok p ->
  (forall r, (r < uR p)%N -> 0 < \det (mxf ds (uD p) (W r) *m Sg p r *m (mxf ds (uD p) (W r))^T)) ->
  (r < uR p)%N ->
  ueval (density_of_linear_sum ds W b p) r x
  = lnN LS (mxf ds (uD p) (W r) *m muv p r + (if b is Some b' then cvf ds (b' r) else 0))
        (mxf ds (uD p) (W r) *m Sg p r *m (mxf ds (uD p) (W r))^T) (cvf ds x).
Proof.
move=> Hp Hpos Hr; rewrite /density_of_linear_sum.
rewrite (mk_pdf_eval _ _ (linear_sum_args Hp Hpos) Hr).
have -> : mxf ds ds (mmul (uD p) (W r) (mmul (uD p) (getS p r) (mtr (W r))))
         = mxf ds (uD p) (W r) *m Sg p r *m (mxf ds (uD p) (W r))^T.
  by rewrite !mxf_mul mxf_tr mulmxA.
have -> // : cvf ds (if b is Some b' then vadd (mvec (uD p) (W r) (getmu p r)) (b' r)
                    else mvec (uD p) (W r) (getmu p r))
         = mxf ds (uD p) (W r) *m muv p r + (if b is Some b' then cvf ds (b' r) else 0).
by case: b => [b'|]; rewrite ?cvf_add cvf_mvec ?addr0.
Qed.

(* ---- Schur complement with the KEPT block in the upper-left corner ---- *)
Section Marg.
Variable K : fieldType.
Variables da db : nat.
Variables (Laa : 'M[K]_da) (Lab : 'M[K]_(da, db)) (Lba : 'M[K]_(db, da)) (Lbb : 'M[K]_db).
Variables (Saa : 'M[K]_da) (Sab : 'M[K]_(da, db)) (Sba : 'M[K]_(db, da)) (Sbb : 'M[K]_db).
Variable Cbb : 'M[K]_db.
Hypothesis SL : block_mx Saa Sab Sba Sbb *m block_mx Laa Lab Lba Lbb = 1%:M.
Hypothesis CL : Cbb *m Lbb = 1%:M.

Lemma marg_swap : block_mx Sbb Sba Sab Saa *m block_mx Lbb Lba Lab Laa = 1%:M.
Proof.
have [H1 H2 H3 H4] := blocks SL.
rewrite mulmx_block (scalar_mx_block _ _ 1).
by congr block_mx; rewrite addrC.
Qed.

Lemma marg_precision : Saa *m (Laa - Lab *m Cbb *m Lba) = 1%:M.
Proof. exact: (marginal_precision marg_swap CL). Qed.

Lemma marg_det : \det (block_mx Saa Sab Sba Sbb) * \det Lbb = \det Saa.
Proof.
have [_ H2 _ H4] := blocks SL.
have <- : \det (block_mx 1%:M Lab 0 Lbb : 'M_(da + db)) = \det Lbb by rewrite det_ublock det1 mul1r.
rewrite -det_mulmx mulmx_block !mulmx0 !mulmx1 !addr0 H2 H4.
by rewrite det_lblock det1 mulr1.
Qed.

Lemma tr11 (X : 'M[K]_1) : X^T = X.
Proof. by apply/matrixP => i j; rewrite !ord1 !mxE. Qed.

Hypothesis Laa_sym : Laa^T = Laa.
Hypothesis Lbb_sym : Lbb^T = Lbb.
Hypothesis Lba_tr : Lba = Lab^T.

Lemma marg_quad_mx (a mua : 'cV[K]_da) (mub : 'cV[K]_db) :
  let nua := Laa *m mua + Lab *m mub in
  let nub := Lba *m mua + Lbb *m mub in
  nua^T *m mua + nub^T *m mub + a^T *m Laa *m a - (a^T *m nua + a^T *m nua)
    - (nub - Lba *m a)^T *m Cbb *m (nub - Lba *m a)
  = (a - mua)^T *m (Laa - Lab *m Cbb *m Lba) *m (a - mua).
Proof.
move=> nua nub; rewrite /nua /nub Lba_tr.
have LC : Lbb *m Cbb = 1%:M by apply: mulmx1C.
have R1 n (X : 'M[K]_(n, db)) : X *m Cbb *m Lbb = X by rewrite -mulmxA CL mulmx1.
have R2 n (X : 'M[K]_(n, db)) : X *m Lbb *m Cbb = X by rewrite -mulmxA LC mulmx1.
have Csym : Cbb^T = Cbb by exact: (inv_sym CL Lbb_sym).
have trD m n (A B : 'M[K]_(m, n)) : (A + B)^T = A^T + B^T by rewrite linearD.
have trN m n (A : 'M[K]_(m, n)) : (- A)^T = - A^T by rewrite linearN.
rewrite !(trD, trN, trmx_mul, trmxK).
rewrite !(mulmxDl, mulmxDr, mulmxBl, mulmxBr, mulmxN, mulNmx).
rewrite !mulmxA.
rewrite ?Laa_sym ?Lbb_sym ?Csym ?R1 ?R2.
have T1 : mub^T *m Lab^T *m a = a^T *m Lab *m mub.
  by rewrite -[LHS]tr11 !trmx_mul !trmxK mulmxA.
have T2 : mua^T *m Laa *m a = a^T *m Laa *m mua.
  by rewrite -[LHS]tr11 !trmx_mul !trmxK Laa_sym mulmxA.
rewrite T1 T2.
mx_abel.
Qed.
End Marg.

(* ---- views of a (da+db)-sized function matrix / vector as blocks ---- *)
Lemma mxf_split da db (A : mat) :
  mxf (da + db) (da + db) A
  = block_mx (mxf da da (msub2 (iota 0 da) (iota 0 da) A)) (mxf da db (msub2 (iota 0 da) (iota da db) A))
             (mxf db da (msub2 (iota da db) (iota 0 da) A)) (mxf db db (msub2 (iota da db) (iota da db) A)).
Proof.
apply/matrixP => i j; rewrite [LHS]mxE.
by case: (split_ordP i) => i' ->; case: (split_ordP j) => j' ->;
  rewrite ?block_mxEul ?block_mxEur ?block_mxEdl ?block_mxEdr !mxE /msub2 !nth_iota ?add0n.
Qed.
Lemma cvf_split da db (v : vec) :
  cvf (da + db) v = col_mx (cvf da (vsel (iota 0 da) v)) (cvf db (vsel (iota da db) v)).
Proof.
apply/matrixP => i j; rewrite [LHS]mxE.
by case: (split_ordP i) => i' ->; rewrite ?col_mxEu ?col_mxEd !mxE /vsel !nth_iota ?add0n.
Qed.

Lemma scD (A B : 'M[F]_1) : sc (A + B) = sc A + sc B. Proof. by rewrite /sc mxE. Qed.
Lemma scN (A : 'M[F]_1) : sc (- A) = - sc A. Proof. by rewrite /sc mxE. Qed.

Lemma grp7 (G : zmodType) (E1 Ha Hb hS Q1 Q2 hL : G) :
  - E1 - Ha - Hb - hS + Q1 + Q2 + Hb - hL = - E1 + Q1 + Q2 - Ha - hS - hL.
Proof.
rewrite (addrAC _ Q2 Hb) (addrAC _ Q1 Hb) (addrAC _ (- hS) Hb) subrK.
by rewrite [in RHS](addrAC _ Q2 (- Ha)) [in RHS](addrAC _ Q1 (- Ha))
           [in RHS](addrAC _ Q2 (- hS)) [in RHS](addrAC _ Q1 (- hS)).
Qed.

Lemma marg_core D da db (L S : mat) (nu mu xa : vec) :
  D = (da + db)%N ->
  (mxf D D L)^T = mxf D D L ->
  mxf D D S *m mxf D D L = 1%:M -> 0 < \det (mxf D D S) ->
  cvf D nu = mxf D D L *m cvf D mu ->
  0 < \det (mxf db db (msub2 (iota da db) (iota da db) L)) ->
  0 < \det (mxf da da (msub2 (iota 0 da) (iota 0 da) S)) ->
  let Lbb := mxf db db (msub2 (iota da db) (iota da db) L) in
  let Lba := mxf db da (msub2 (iota da db) (iota 0 da) L) in
  let Laa := mxf da da (msub2 (iota 0 da) (iota 0 da) L) in
  let nua := cvf da (vsel (iota 0 da) nu) in
  let nub := cvf db (vsel (iota da db) nu) in
  let a := cvf da xa in
  lngint Lbb (nub - Lba *m a)
    (- (emb LS (half F * sc ((cvf D nu)^T *m mxf D D S *m cvf D nu)) + hl2p LS *+ D + hln LS (\det (mxf D D S)))
     + emb LS (- half F * sc (a^T *m Laa *m a) + sc (a^T *m nua)))
  = lnN LS (cvf da (vsel (iota 0 da) mu)) (mxf da da (msub2 (iota 0 da) (iota 0 da) S)) a.
Proof.
move=> HD; subst D => Lsym SL Spos Hnu Lbbpos Saapos Lbb Lba Laa nua nub a.
have -> : (cvf (da + db) nu)^T *m mxf (da + db) (da + db) S *m cvf (da + db) nu
          = (cvf (da + db) nu)^T *m cvf (da + db) mu.
  by rewrite -mulmxA {2}Hnu (mulmxA (mxf _ _ S)) SL mul1mx.
pose Lab := mxf da db (msub2 (iota 0 da) (iota da db) L).
pose Saa := mxf da da (msub2 (iota 0 da) (iota 0 da) S).
pose Sab := mxf da db (msub2 (iota 0 da) (iota da db) S).
pose Sba := mxf db da (msub2 (iota da db) (iota 0 da) S).
pose Sbb := mxf db db (msub2 (iota da db) (iota da db) S).
pose mua := cvf da (vsel (iota 0 da) mu).
pose mub := cvf db (vsel (iota da db) mu).
have EL : mxf (da + db) (da + db) L = block_mx Laa Lab Lba Lbb by exact: mxf_split.
have ES : mxf (da + db) (da + db) S = block_mx Saa Sab Sba Sbb by exact: mxf_split.
have Enu : cvf (da + db) nu = col_mx nua nub by exact: cvf_split.
have Emu : cvf (da + db) mu = col_mx mua mub by exact: cvf_split.
rewrite -/Saa -/mua in Saapos *.
rewrite -/Lbb in Lbbpos.
rewrite EL ES Enu Emu in Lsym SL Spos Hnu *.
clear EL ES Enu Emu.
clearbody Laa Lab Lba Lbb Saa Sab Sba Sbb nua nub mua mub a.
move: Lsym; rewrite tr_block_mx => /eq_block_mx [Laas HLba HLab Lbbs].
have Lba_tr : Lba = Lab^T by [].
move: Hnu; rewrite mul_block_col => /eq_col_mx [Hnua Hnub].
rewrite tr_col_mx mul_row_col /lngint /lnN.
set Cbb := invmx Lbb.
have Lbbu : Lbb \in unitmx by rewrite unitmxE unitfE lt0r_neq0.
have CL : Cbb *m Lbb = 1%:M by rewrite mulVmx.
have HP := marg_precision SL CL.
have EP : Laa - Lab *m Cbb *m Lba = invmx Saa by apply: inv_unique; apply: mulmx1C.
rewrite -EP -(marg_det SL) hlnM // mulrnDr.
have /= EF := marg_quad_mx CL Laas Lbbs Lba_tr a mua mub.
rewrite -Hnua -Hnub in EF.
set e1 := half F * sc (nua^T *m mua + nub^T *m mub).
set q1 := - half F * sc (a^T *m Laa *m a) + sc (a^T *m nua).
set q2 := half F * sc ((nub - Lba *m a)^T *m Cbb *m (nub - Lba *m a)).
set q3 := - half F * sc ((a - mua)^T *m (Laa - Lab *m Cbb *m Lba) *m (a - mua)).
have EFs : - e1 + q1 + q2 = q3.
  rewrite /e1 /q1 /q2 /q3 -EF !(scD, scN).
  repeat match goal with |- context [sc ?X] => let e := fresh "e" in set e := sc X; clearbody e end.
  by rewrite /half; field.
clearbody e1 q1 q2 q3; rewrite -EFs !raddfD raddfN /= ?opprD !addrA.
exact: grp7.
Qed.

(* The marginal density equals the Gaussian integral (specification GI, Spec.lngint) of the joint
   density over the remaining coordinates.  Stated for the split "first da coordinates kept":
   for every xa, integrating exp(ueval p r (xa, xb)) over xb in R^db gives N(xa; mu_a, Sigma_aa). *)
Lemma marginal_is_integral da db (p : measure) r (xa : vec) :
  pdf_ok p -> uD p = (da + db)%N -> (r < uR p)%N ->
  0 < \det (mxf db db (msub2 (iota da db) (iota da db) (uLam p r))) ->
  0 < \det (mxf da da (msub2 (iota 0 da) (iota 0 da) (getS p r))) ->
  let Lbb := mxf db db (msub2 (iota da db) (iota da db) (uLam p r)) in
  let Lba := mxf db da (msub2 (iota da db) (iota 0 da) (uLam p r)) in
  let Laa := mxf da da (msub2 (iota 0 da) (iota 0 da) (uLam p r)) in
  let nua := cvf da (vsel (iota 0 da) (unu p r)) in
  let nub := cvf db (vsel (iota da db) (unu p r)) in
  let a := cvf da xa in
  lngint Lbb (nub - Lba *m a) (ulb p r + emb LS (- half F * sc (a^T *m Laa *m a) + sc (a^T *m nua)))
  = lnN LS (cvf da (vsel (iota 0 da) (getmu p r))) (mxf da da (msub2 (iota 0 da) (iota 0 da) (getS p r))) a.
Proof.
move=> Hp HD Hr HLpos HSpos.
have [Hc [HS _ Hmu HZ] Hnu Hlb] := Hp r Hr.
have [HSL Sgpos HhS] := co_S Hc HS.
have [_ HlnZ] := co_lnZ Hc HZ.
rewrite Hlb HlnZ HhS.
exact: (marg_core xa HD (co_sym Hc) HSL Sgpos Hnu HLpos HSpos).
Qed.

End C05.
Print Assumptions get_marginal_eval.
Print Assumptions get_marginal_ok.
Print Assumptions linear_sum_eval.
Print Assumptions marginal_is_integral.
