(* C06: conditioning on coordinates satisfies the product rule. *)
From mathcomp Require Import all_ssreflect all_fingroup all_algebra.
From mathcomp Require Import ring.
From GT Require Import Tensor DetExec LogDom MxTac MxLemmas Obj Factor Measure Pdf Cond EvalLemmas Spec C01_proofs PdfLemmas.
Set Implicit Arguments.
Unset Strict Implicit.
Unset Printing Implicit Defensive.
Import GRing.Theory Num.Theory.
Local Open Scope ring_scope.

(* ---- a sequence that enumerates 0..n-1 in some order is a permutation of 'I_n ---- *)
Section PermSeq.
Variable F : realFieldType.
Variable n : nat.
Variable s : seq nat.
Hypothesis Hs : perm_eq s (iota 0 n).

Lemma perm_iota_size : size s = n.
Proof. by rewrite (perm_size Hs) size_iota. Qed.
Lemma perm_iota_uniq : uniq s.
Proof. by rewrite (perm_uniq Hs) iota_uniq. Qed.
Lemma perm_iota_mem i : i \in s -> (i < n)%N.
Proof. by rewrite (perm_mem Hs) mem_iota add0n. Qed.
Lemma perm_iota_nth i : (i < n)%N -> (nth 0%N s i < n)%N.
Proof. by move=> Hi; apply: perm_iota_mem; rewrite mem_nth // perm_iota_size. Qed.

Definition sfun (i : 'I_n) : 'I_n := Ordinal (perm_iota_nth (ltn_ord i)).
Lemma sfun_inj : injective sfun.
Proof.
move=> i j /(congr1 val) /= /eqP.
rewrite nth_uniq ?perm_iota_size ?perm_iota_uniq // => /eqP; exact: val_inj.
Qed.
Definition sperm : 'S_n := perm sfun_inj.

Lemma pmx_sperm (A : mat F) : pmx sperm (mxf n n A) = mxf n n (msub2 s s A).
Proof. by apply/matrixP => i j; rewrite pmxE !mxE !permE. Qed.
Lemma pcv_sperm (v : vec F) : pcv sperm (cvf n v) = cvf n (vsel s v).
Proof. by apply/matrixP => i j; rewrite !mxE permE. Qed.
Lemma pmx_tr (sg : 'S_n) (A : 'M[F]_n) : (pmx sg A)^T = pmx sg A^T.
Proof. by apply/matrixP => i j; rewrite mxE !pmxE mxE. Qed.
End PermSeq.

Section Blocks.
Variable F : realFieldType.
Lemma mxf_msub2_cat (dx dy : seq nat) (A : mat F) :
  mxf (size dx + size dy) (size dx + size dy) (msub2 (dx ++ dy) (dx ++ dy) A)
  = block_mx (mxf (size dx) (size dx) (msub2 dx dx A)) (mxf (size dx) (size dy) (msub2 dx dy A))
             (mxf (size dy) (size dx) (msub2 dy dx A)) (mxf (size dy) (size dy) (msub2 dy dy A)).
Proof.
rewrite -mxf_block; apply/mxfP => i j _ _.
by rewrite /msub2 /mblock !nth_cat; case: ifP; case: ifP.
Qed.
Lemma cvf_vsel_cat (dx dy : seq nat) (v : vec F) :
  cvf (size dx + size dy) (vsel (dx ++ dy) v)
  = col_mx (cvf (size dx) (vsel dx v)) (cvf (size dy) (vsel dy v)).
Proof.
rewrite -cvf_cat; apply/cvfP => i _.
by rewrite /vsel /vcat nth_cat; case: ifP.
Qed.
Lemma zmod_shuffle (V : zmodType) (a b c d e f : V) :
  a - b - c + (d - e - f) = (a + d) - (b + e) - (f + c).
Proof. by rewrite [LHS]addrACA [X in X + _]addrACA -!opprD [c + f]addrC. Qed.
End Blocks.

Section C06.
Variable F : realFieldType.
Variable LS : logS F.
Notation mat := (mat F).
Notation vec := (vec F).
Notation measure := (measure LS).
Notation cond := (cond LS).

(* condition_on is condition_on_explicit with the ascending complement, which together with dy
   partitions the coordinates *)
Lemma condition_on_explicit_complement (dy : seq nat) (p : measure) :
  condition_on dy p = condition_on_explicit dy (complement (uD p) dy) p.
Proof. by []. Qed.
Lemma complement_partition D (dy : seq nat) : uniq dy -> all (fun i => (i < D)%N) dy ->
  perm_eq (complement D dy ++ dy) (iota 0 D) /\ sorted ltn (complement D dy).
Proof.
move=> Hu /allP Hall; split; last first.
  by rewrite /complement sorted_filter ?iota_ltn_sorted //; exact: ltn_trans.
rewrite perm_sym /complement -(perm_filterC (fun i => i \notin dy) (iota 0 D)) perm_cat2l.
apply: uniq_perm => //; first by rewrite filter_uniq // iota_uniq.
move=> i; rewrite mem_filter /= negbK mem_iota add0n /=.
by case Hi: (i \in dy) => //=; rewrite (Hall _ Hi).
Qed.

(* the mathematical core: product rule for a Gaussian whose coordinates are split along dx ++ dy *)
Lemma product_rule_core D (dx dy : seq nat) (L S : mat) (mu x : vec) :
  perm_eq (dx ++ dy) (iota 0 D) ->
  let nx := size dx in let ny := size dy in
  let Laa := mxf nx nx (msub2 dx dx L) in let Lab := mxf nx ny (msub2 dx dy L) in
  let Sbb := mxf ny ny (msub2 dy dy S) in let Caa := invmx Laa in
  mxf D D S *m mxf D D L = 1%:M -> (mxf D D L)^T = mxf D D L ->
  0 < \det Laa -> 0 < \det Sbb ->
  lnN LS (- (Caa *m Lab) *m cvf ny (vsel dy x)
          + (cvf nx (vsel dx mu) - (- (Caa *m Lab)) *m cvf ny (vsel dy mu))) Caa (cvf nx (vsel dx x))
  + lnN LS (cvf ny (vsel dy mu)) Sbb (cvf ny (vsel dy x))
  = lnN LS (cvf D mu) (mxf D D S) (cvf D x).
Proof.
move=> Hs nx ny Laa Lab Sbb Caa.
have e : D = (nx + ny)%N by rewrite -(size_iota 0 D) -(perm_size Hs) size_cat.
move: Hs; rewrite e => Hs SL Lsym dLaa dSbb.
pose sg := sperm Hs.
set Lba := mxf ny nx (msub2 dy dx L).
set Lbb := mxf ny ny (msub2 dy dy L).
have Hblk (A : mat) : pmx sg (mxf (nx + ny) (nx + ny) A)
    = block_mx (mxf nx nx (msub2 dx dx A)) (mxf nx ny (msub2 dx dy A))
               (mxf ny nx (msub2 dy dx A)) (mxf ny ny (msub2 dy dy A)).
  by rewrite /sg pmx_sperm mxf_msub2_cat.
have Hcol (v : vec) : pcv sg (cvf (nx + ny) v) = col_mx (cvf nx (vsel dx v)) (cvf ny (vsel dy v)).
  by rewrite /sg pcv_sperm cvf_vsel_cat.
have SLb := pmx_inverse sg SL; rewrite !Hblk in SLb.
have CL : Caa *m Laa = 1%:M by rewrite mulVmx // unitmxE unitfE lt0r_neq0.
have MP := marginal_precision SLb CL.
have DM := det_marginal SLb.
have := pmx_tr sg (mxf (nx + ny) (nx + ny) L); rewrite Lsym Hblk tr_block_mx.
move=> /eq_block_mx [Laa_sym Hba Hab Lbb_sym].
have CS := complete_square Lbb CL Laa_sym (esym Hab).
set n := (nx + ny)%N in Hs SL Lsym sg Hblk Hcol *.
set xa := cvf nx (vsel dx x); set xb := cvf ny (vsel dy x).
set ma := cvf nx (vsel dx mu); set mb := cvf ny (vsel dy mu).
pose u := xa - ma; pose w := xb - mb.
have Q : (cvf n x - cvf n mu)^T *m mxf n n L *m (cvf n x - cvf n mu)
         = (col_mx u w)^T *m block_mx Laa Lab Lba Lbb *m col_mx u w.
  by rewrite -(pmx_quad sg) Hblk -cvf_sub Hcol /u /w /xa /xb /ma /mb -!cvf_sub.
have dC : 0 < \det Caa.
  by rewrite -(pmulr_lgt0 _ dLaa) (MxLemmas.det_inv CL) ltr01.
have dS : \det (mxf n n S) = \det Sbb * \det Caa.
  by rewrite -(det_pmx sg) Hblk /Sbb -DM -mulrA -det_mulmx (mulmx1C CL) det1 mulr1.
rewrite /lnN.
have -> : invmx Caa = Laa by rewrite /Caa invmxK.
have -> : invmx Sbb = Lbb - Lba *m Caa *m Lab by rewrite -(inv_unique (mulmx1C MP)).
have -> : invmx (mxf n n S) = mxf n n L by rewrite -(inv_unique (mulmx1C SL)).
have -> : xa - (- (Caa *m Lab) *m xb + (ma - - (Caa *m Lab) *m mb)) = u + Caa *m Lab *m w.
  by rewrite /u /w mulmxBr !mulNmx; mx_abel.
have scD (A B : 'M[F]_1) : (A + B) 0 0 = A 0 0 + B 0 0 by rewrite mxE.
rewrite Q CS dS hlnM // mulrnDr /sc scD mulrDr (raddfD (emb LS)) /=.
exact: zmod_shuffle.
Qed.

(* what the components of condition_on_explicit denote *)
Section Views.
Variables (dy dx : seq nat) (p : measure) (r : nat).
Hypothesis Hr : (r < uR p)%N.
Let c := condition_on_explicit dy dx p.
Let nx := size dx.
Let ny := size dy.
Let Laa : 'M[F]_nx := mxf nx nx (msub2 dx dx (uLam p r)).
Let Lab : 'M[F]_(nx, ny) := mxf nx ny (msub2 dx dy (uLam p r)).

Lemma ce_cLm : cLm c r = Laa.
Proof. by rewrite /cLm /c /= !mxf_tabb. Qed.

Hypothesis Hd : 0 < \det Laa.

Lemma ce_detn : detn nx (tabb (uR p) nx nx (fun r => msub2 dx dx (uLam p r)) r) = \det Laa.
Proof. by rewrite detnE mxf_tabb. Qed.
Lemma ce_cSg : cSg c r = invmx Laa.
Proof. by rewrite /cSg /c /= !mxf_tabb // mxf_inv ?ce_detn ?lt0r_neq0 // mxf_tabb. Qed.
Lemma ce_cMm : cMm c r = - (invmx Laa *m Lab).
Proof.
rewrite /cMm /effM /c /= !mxf_tabb // mxf_opp mxf_mul mxf_tabb //.
by rewrite mxf_inv ?ce_detn ?lt0r_neq0 // mxf_tabb.
Qed.
Lemma ce_cbv : cbv c r = cvf nx (vsel dx (getmu p r)) - cMm c r *m cvf ny (vsel dy (getmu p r)).
Proof.
rewrite /cbv /cMm /effb /effM /c /= cvf_tabbv // cvf_sub cvf_mvec.
by rewrite !mxf_tabb.
Qed.
Lemma ce_chS : chS c r = hln LS (\det (invmx Laa)).
Proof.
by rewrite /c /= !tablE // ce_detn matrix.det_inv hlnV.
Qed.
End Views.

(* indices taken from a partition are in range *)
Lemma perm_cat_nth D (dx dy : seq nat) : perm_eq (dx ++ dy) (iota 0 D) ->
  (forall i, (i < size dx)%N -> (nth 0%N dx i < D)%N) /\ (forall i, (i < size dy)%N -> (nth 0%N dy i < D)%N).
Proof.
move=> Hs; split=> i Hi; apply: (perm_iota_mem Hs); rewrite mem_cat mem_nth ?orbT //.
Qed.

Lemma msub2_sym D (idx : seq nat) (A : mat) :
  (forall i, (i < size idx)%N -> (nth 0%N idx i < D)%N) -> (mxf D D A)^T = mxf D D A ->
  (mxf (size idx) (size idx) (msub2 idx idx A))^T = mxf (size idx) (size idx) (msub2 idx idx A).
Proof.
move=> Hi /matrixP Hsym; apply/matrixP => i j; rewrite !mxE /msub2.
have := Hsym (Ordinal (Hi _ (ltn_ord j))) (Ordinal (Hi _ (ltn_ord i))).
by rewrite !mxE.
Qed.

(* the returned conditional is well formed: rows ordered as dx, columns as dy *)
Lemma condition_on_explicit_ok (dy dx : seq nat) (p : measure) :
  pdf_ok p -> perm_eq (dx ++ dy) (iota 0 (uD p)) ->
  (forall r, (r < uR p)%N -> 0 < \det (mxf (size dx) (size dx) (msub2 dx dx (uLam p r)))) ->
  cond_ok (condition_on_explicit dy dx p)
  /\ cR (condition_on_explicit dy dx p) = uR p /\ cDy (condition_on_explicit dy dx p) = size dx
  /\ cDx (condition_on_explicit dy dx p) = size dy.
Proof.
move=> Hp Hs Hd; split=> // r Hr.
have Hr' : (r < uR p)%N by [].
have dL := Hd r Hr'.
have [Hx _] := perm_cat_nth Hs.
have Lsym := co_sym (po_cache (Hp r Hr')).
split.
- by rewrite ce_cSg // ce_cLm // mulVmx // unitmxE unitfE lt0r_neq0.
- by rewrite ce_cLm //; apply: (msub2_sym Hx).
- by rewrite ce_cSg // matrix.det_inv invr_gt0.
- by rewrite ce_chS // ce_cSg.
- by [].
Qed.

(* p(x_a | x_b) p(x_b) = p(x) for every partition (dx, dy) of the coordinates, in any order *)
Lemma condition_product_rule (dy dx : seq nat) (p : measure) r (x : vec) :
  pdf_ok p -> perm_eq (dx ++ dy) (iota 0 (uD p)) -> (r < uR p)%N ->
  (forall r, (r < uR p)%N -> 0 < \det (mxf (size dx) (size dx) (msub2 dx dx (uLam p r)))) ->
  (forall r, (r < uR p)%N -> 0 < \det (mxf (size dy) (size dy) (msub2 dy dy (getS p r)))) ->
  ~~ is_diag (ucls p) ->
  ueval (condition_on_x (condition_on_explicit dy dx p) [:: vsel dy x]) (r * 1 + 0) (vsel dx x)
  + ueval (get_marginal dy p) r (vsel dy x)
  = ueval p r x.
Proof.
move=> Hp Hs Hr HdL HdS Hnd.
have [Hok _] := condition_on_explicit_ok Hp Hs HdL.
have [_ Hy] := perm_cat_nth Hs.
have Hc := po_cache (Hp r Hr).
have Lsym := co_sym Hc.
have [HS _ _ _] := po_all (Hp r Hr).
have [SL dS _] := co_S Hc HS.
have Ssym := inv_sym SL Lsym.
rewrite (@condition_on_x_eval _ _ (condition_on_explicit dy dx p) [:: vsel dy x] r 0 (vsel dx x) Hok Hr (ltn0Sn 0)).
have dL := HdL r Hr.
rewrite ce_cbv // ce_cMm // ce_cSg //= (pdf_ok_eval x Hp Hr).
have Hargs : @pdf_args_ok _ LS (is_diag (ucls p)) (uR p) (size dy)
               (fun r => msub2 dy dy (getS p r)) None None.
  move=> r' Hr' /=.
  have Hc' := po_cache (Hp r' Hr').
  have [HS' _ _ _] := po_all (Hp r' Hr').
  have [SL' _ _] := co_S Hc' HS'.
  split=> //.
  - exact: (msub2_sym Hy (inv_sym SL' (co_sym Hc'))).
  - exact: HdS.
  - by rewrite (negbTE Hnd).
rewrite /get_marginal (mk_pdf_eval _ _ Hargs Hr).
exact: (product_rule_core (getmu p r) x Hs SL Lsym dL (HdS r Hr)).
Qed.
End C06.
Print Assumptions condition_on_explicit_complement.
Print Assumptions complement_partition.
Print Assumptions condition_on_explicit_ok.
Print Assumptions condition_product_rule.
Print Assumptions product_rule_core.
