(* C07: the joint transformation is the chain rule. *)
From mathcomp Require Import all_ssreflect all_fingroup all_algebra.
From mathcomp Require Import ring.
From GT Require Import Tensor DetExec LogDom MxTac MxLemmas Obj Factor Measure Pdf Cond EvalLemmas Spec C01_proofs PdfLemmas.
Set Implicit Arguments.
Unset Strict Implicit.
Unset Printing Implicit Defensive.
Import GRing.Theory Num.Theory.
Local Open Scope ring_scope.

Section C07.
Variable F : realFieldType.
Variable LS : logS F.
Notation mat := (mat F).
Notation vec := (vec F).
Notation measure := (measure LS).
Notation cond := (cond LS).

(* ---- helpers ---- *)

(* batch layout k = rc * R_x + rx *)
Lemma jr_bounds (c : cond) (p : measure) k :
  (k < cR c * uR p)%N -> (jrc p k < cR c)%N /\ (jrx p k < uR p)%N.
Proof.
move=> Hk; have R0 : (0 < uR p)%N by case: (uR p) Hk => //; rewrite muln0.
by rewrite /jrc /jrx ltn_divLR // ltn_mod.
Qed.

(* the density invariant read at a dimension D that is only propositionally uD p *)
Lemma pdf_facts (p : measure) D r : D = uD p -> pdf_ok p -> (r < uR p)%N ->
  let S := mxf D D (getS p r) in let L := mxf D D (uLam p r) in
  [/\ S *m L = 1%:M, L^T = L, 0 < \det S & gethS p r = hln LS (\det S)].
Proof.
move=> -> Hp Hr /=; have [[Hsym HS _ _ _] [HSig _ _ _] _ _] := Hp r Hr.
by have [H1 H2 H3] := HS HSig; split.
Qed.

Lemma pdf_eval_D (p : measure) D r (x : vec) : D = uD p -> pdf_ok p -> (r < uR p)%N ->
  ueval p r x = lnN LS (cvf D (getmu p r)) (mxf D D (getS p r)) (cvf D x).
Proof. by move=> -> Hp Hr; exact: pdf_ok_eval. Qed.

(* quadratic form of the joint precision: no symmetry or invertibility needed *)
Lemma joint_quad dx dy (Lx : 'M[F]_dx) (Ly : 'M[F]_dy) (M : 'M[F]_(dy, dx))
    (u : 'cV[F]_dx) (w : 'cV[F]_dy) :
  (col_mx u w)^T *m Lxy Lx Ly M *m col_mx u w
  = u^T *m Lx *m u + (w - M *m u)^T *m Ly *m (w - M *m u).
Proof.
rewrite /Lxy tr_col_mx mul_row_block mul_row_col.
do 4![rewrite ?(linearD, linearN, linearB) /= ?trmx_mul
        ?(mulmxDl, mulmxDr, mulmxBr, mulmxBl, mulmxN, mulNmx) ?mulmxA].
mx_abel.
Qed.

Lemma mid_mul D D' (v : vec) : D' = D -> mxf D' D mid *m cvf D v = cvf D' v.
Proof. by move=> ->; rewrite mxf_id mul1mx. Qed.

(* get_conditional_mu as an affine map, identity classes included *)
Lemma cond_mu_mx (c : cond) r (v : vec) : (cident (ccl c) -> cDy c = cDx c) ->
  cvf (cDy c) (cond_mu c r v) = cMm c r *m cvf (cDx c) v + cbv c r.
Proof.
rewrite /cond_mu /cMm /cbv /effM /effb; case: (cident (ccl c)) => Hid.
- by rewrite cvf_zero addr0 mid_mul // Hid.
- by rewrite cvf_add cvf_mvec.
Qed.

Section Views.
Variables (c : cond) (p : measure) (k : nat).
Let Dx := cDx c.
Let Dy := cDy c.
Let rc := jrc p k.
Let rx := jrx p k.
Let Sx : 'M[F]_Dx := mxf Dx Dx (getS p rx).
Let Lx : 'M[F]_Dx := mxf Dx Dx (uLam p rx).
Let Sy : 'M[F]_Dy := cSg c rc.
Let Ly : 'M[F]_Dy := cLm c rc.
Let M : 'M[F]_(Dy, Dx) := cMm c rc.

Lemma joint_Sigma_mx : Sx^T = Sx ->
  mxf (Dx + Dy) (Dx + Dy) (joint_Sigma c p k) = Sxy Sx Sy M.
Proof.
move=> Ssym; rewrite /joint_Sigma /marg_Sigma; set Mf := effM c _; set C := tabm _ _ _.
rewrite mxf_block /Sxy (mxf_tr _ _ C) /C mxf_tab mxf_add !mxf_mul (mxf_tr _ _ Mf).
by congr block_mx; rewrite trmx_mul Ssym.
Qed.

Lemma joint_Lambda_mx : Ly^T = Ly ->
  mxf (Dx + Dy) (Dx + Dy) (joint_Lambda c p k) = Lxy Lx Ly M.
Proof.
move=> Lsym; rewrite /joint_Lambda; set Mf := effM c _; set LM := tabm _ _ _.
rewrite mxf_block /Lxy (mxf_tr _ _ (mopp LM)) mxf_opp /LM mxf_tab mxf_add !mxf_mul.
rewrite (mxf_tr _ _ Mf) mxf_tab mxf_mul.
by congr block_mx; rewrite ?mulmxA // [(- _)^T]linearN /= trmx_mul Lsym.
Qed.

Hypothesis SLx : Sx *m Lx = 1%:M.
Hypothesis SLy : Sy *m Ly = 1%:M.
Hypothesis Lxsym : Lx^T = Lx.
Hypothesis Lysym : Ly^T = Ly.
Hypothesis Sxpos : 0 < \det Sx.
Hypothesis Sypos : 0 < \det Sy.
Hypothesis hSx : gethS p rx = hln LS (\det Sx).
Hypothesis hSy : chS c rc = hln LS (\det Sy).

Lemma joint_hld_eq : joint_hld c p k = hln LS (\det Sx) + hln LS (\det Sy).
Proof.
have Sxsym : Sx^T = Sx := inv_sym SLx Lxsym.
have LSx : Lx *m Sx = 1%:M := mulmx1C SLx.
have LSy : Ly *m Sy = 1%:M := mulmx1C SLy.
rewrite /joint_hld; case: ifP => _.
- rewrite /marg_Sigma; set Mf := effM c _; set C := tabm _ _ _.
  rewrite hSx detnE mxf_sub mxf_add !mxf_mul (mxf_tr _ _ Mf) (mxf_tr _ _ C) /C mxf_tab mxf_mul.
  congr (_ + hln _ (\det _)).
  rewrite trmx_mul Sxsym !mulmxA -[_ *m Sx *m Lx]mulmxA SLx mulmx1.
  by rewrite addrK.
- set Mf := effM c _; set L := tabm _ _ _.
  rewrite detnE mxf_sub mxf_add !mxf_mul (mxf_tr _ _ Mf) (mxf_tr _ _ L) mxf_opp /L mxf_tab.
  rewrite mxf_opp mxf_mul.
  have dSn0 : \det Sx != 0 by rewrite lt0r_neq0.
  rewrite [X in \det X](_ : _ = Lx); last first.
    rewrite [(- _)^T]linearN /= trmx_mul Lysym !mulmxN !mulNmx !opprK !mulmxA.
    rewrite -[_ *m Ly *m Sy]mulmxA LSy mulmx1.
    by rewrite addrK.
  have -> : \det Lx = (\det Sx)^-1.
    by rewrite -[LHS]mul1r -(mulVf dSn0) -mulrA (det_inv SLx) mulr1.
  by rewrite hSy hlnV // opprD !opprK addrC.
Qed.

End Views.

(* the arguments handed to the GaussianPDF constructor by affine_joint_transformation satisfy its
   contract: Sigma_xy Lambda_xy = I, and the log-determinant computed through the Schur complement
   (both branches of the Dx > Dy test) is the true one *)
Lemma joint_args_ok (c : cond) (p : measure) :
  pdf_ok p -> cond_ok c -> cDx c = uD p ->
  pdf_args_ok false (cR c * uR p) (cDx c + cDy c) (joint_Sigma c p)
              (Some (joint_Lambda c p)) (Some (joint_hld c p)).
Proof.
move=> Hp Hc HD r Hr.
have [Hrc Hrx] := jr_bounds Hr.
have [SLx Lxsym Sxpos hSx] := pdf_facts HD Hp Hrx.
have [SLy Lysym Sypos hSy _] := Hc _ Hrc.
have Sxsym := inv_sym SLx Lxsym.
have Sysym := inv_sym SLy Lysym.
cbv zeta; rewrite joint_Sigma_mx //; split.
- rewrite /Sxy tr_block_mx.
  by congr block_mx; rewrite ?linearD /= ?trmx_mul ?trmxK ?Sxsym ?Sysym ?mulmxA.
- by rewrite joint_det mulr_gt0.
- by [].
- by move=> L [<-]; rewrite joint_Lambda_mx //; exact: joint_inverse.
- by move=> L h _ [<-]; rewrite joint_hld_eq // joint_det hlnM.
Qed.

Lemma affine_joint_ok (c : cond) (p : measure) :
  pdf_ok p -> cond_ok c -> cDx c = uD p -> pdf_ok (affine_joint c p).
Proof. by move=> Hp Hc HD; apply: mk_pdf_ok; exact: joint_args_ok. Qed.

(* mean and covariance of the joint, x first: (mu, M mu + b), [[S, S M'], [M S, Sy + M S M']] *)
Lemma affine_joint_eval (c : cond) (p : measure) k (z : vec) :
  pdf_ok p -> cond_ok c -> cDx c = uD p -> (k < cR c * uR p)%N ->
  ueval (affine_joint c p) k z
  = lnN LS (cvf (cDx c + cDy c) (vcat (cDx c) (getmu p (jrx p k)) (cond_mu c (jrc p k) (getmu p (jrx p k)))))
        (mxf (cDx c + cDy c) (cDx c + cDy c) (joint_Sigma c p k)) (cvf (cDx c + cDy c) z).
Proof.
move=> Hp Hc HD Hk; rewrite /affine_joint.
by rewrite (mk_pdf_eval _ _ (joint_args_ok Hp Hc HD) Hk).
Qed.

(* chain rule: p(x,y) = p(y|x) p(x) at every point, component k = rc * R_x + rx *)
Lemma joint_chain_rule (c : cond) (p : measure) k (x y : vec) :
  pdf_ok p -> cond_ok c -> cDx c = uD p -> (k < cR c * uR p)%N ->
  ueval (affine_joint c p) k (vcat (cDx c) x y)
  = ueval (condition_on_x c [:: x]) (jrc p k * 1 + 0) y + ueval p (jrx p k) x.
Proof.
move=> Hp Hc HD Hk.
have [Hrc Hrx] := jr_bounds Hk.
rewrite affine_joint_eval // (pdf_eval_D _ HD Hp Hrx).
rewrite (condition_on_x_eval (xs:=[:: x]) y Hc Hrc (n:=0) isT).
have [SLx Lxsym Sxpos hSx] := pdf_facts HD Hp Hrx.
have [SLy Lysym Sypos hSy Hid] := Hc _ Hrc.
have Sxsym := inv_sym SLx Lxsym.
rewrite joint_Sigma_mx // !cvf_cat cond_mu_mx // [nth _ _ _]/=.
set Sx := mxf _ _ (getS p _) in SLx Sxpos Sxsym *.
set Lx := mxf _ _ (uLam p _) in SLx Lxsym *.
set Sy := cSg c _ in SLy Sypos *.
set Ly := cLm c _ in SLy Lysym *.
set M := cMm c _; set b := cbv c _.
set mu := cvf _ (getmu p _); set xv := cvf _ x; set yv := cvf _ y.
rewrite /lnN.
have <- : Lxy Lx Ly M = invmx (Sxy Sx Sy M).
  by apply: inv_unique; apply: mulmx1C; exact: joint_inverse.
have <- : Lx = invmx Sx by apply: inv_unique; exact: mulmx1C.
have <- : Ly = invmx Sy by apply: inv_unique; exact: mulmx1C.
rewrite joint_det hlnM // mulrnDr.
rewrite opp_col_mx add_col_mx joint_quad.
have -> : yv - (M *m mu + b) - M *m (xv - mu) = yv - (M *m xv + b).
  by rewrite mulmxBr; mx_abel.
rewrite /sc mxE mulrDr raddfD /=.
by rewrite !opprD [X in X + _ = _]addrACA addrACA [LHS]addrC.
Qed.

End C07.
Print Assumptions joint_args_ok.
Print Assumptions affine_joint_ok.
Print Assumptions affine_joint_eval.
Print Assumptions joint_chain_rule.
