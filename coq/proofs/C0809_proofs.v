(* C08 / C09: marginal transformation, Bayes rule through the conditional transformation. *)
From mathcomp Require Import all_ssreflect all_fingroup all_algebra.
From mathcomp Require Import ring.
From GT Require Import Tensor DetExec LogDom MxTac MxLemmas Obj Factor Measure Pdf Cond EvalLemmas Spec C01_proofs PdfLemmas.
Set Implicit Arguments.
Unset Strict Implicit.
Unset Printing Implicit Defensive.
Import GRing.Theory Num.Theory.
Local Open Scope ring_scope.

Lemma zm4 (V : zmodType) (a1 a2 a3 a4 h1 h2 l1 l2 l3 l4 : V) :
  a1 + a2 = a3 + a4 -> l1 + l2 = l3 + l4 ->
  a1 - h1 - l1 + (a2 - h2 - l2) = a3 - h2 - l3 + (a4 - h1 - l4).
Proof.
move=> Ha Hl.
rewrite [LHS]addrACA [a1 - h1 + _]addrACA [RHS]addrACA [a3 - h2 + _]addrACA.
by rewrite -!opprD Ha Hl [h2 + h1]addrC.
Qed.

(* Bayes' rule for linear-Gaussian models, on MathComp matrices *)
Section BayesMx.
Variable F : realFieldType.
Variable LS : logS F.
Variables dx dy : nat.
Variables (Sx Lx : 'M[F]_dx) (Sy Ly : 'M[F]_dy) (M : 'M[F]_(dy, dx)).
Hypothesis SLx : Sx *m Lx = 1%:M.
Hypothesis SLy : Sy *m Ly = 1%:M.
Hypothesis Lxsym : Lx^T = Lx.
Hypothesis Lysym : Ly^T = Ly.
Let P : 'M[F]_dx := Lx + M^T *m Ly *m M.
Let T : 'M[F]_dy := Sy + M *m Sx *m M^T.
Hypothesis Ppos : 0 < \det P.
Let C : 'M[F]_dx := invmx P.
Let K : 'M[F]_(dx, dy) := M^T *m Ly.

Lemma bayes_CP : C *m P = 1%:M.
Proof. by rewrite mulVmx // unitmxE unitfE lt0r_neq0. Qed.

Lemma bayes_Psym : P^T = P.
Proof. by rewrite /P linearD /= !trmx_mul trmxK Lxsym Lysym mulmxA. Qed.

Lemma bayes_joint :
  block_mx Sx (Sx *m M^T) (M *m Sx) T *m block_mx P (- K) (- (Ly *m M)) Ly = 1%:M.
Proof. exact: (joint_inverse M SLx SLy). Qed.

Lemma bayes_detT : \det T = \det Sx * \det Sy * \det P.
Proof. by rewrite -(det_marginal bayes_joint) -(joint_det Sx Sy M). Qed.

Lemma bayes_det : \det C * \det T = \det Sy * \det Sx.
Proof.
have := MxLemmas.det_inv bayes_CP; rewrite bayes_detT.
move: (\det C) (\det P) (\det Sx) (\det Sy) => c p sx sy H.
by rewrite mulrCA H mulr1 mulrC.
Qed.

Lemma bayes_woodbury : invmx T = Ly - Ly *m M *m C *m K.
Proof.
symmetry; apply: inv_unique; apply: mulmx1C.
have := marginal_precision bayes_joint bayes_CP.
by rewrite !mulNmx mulmxN opprK.
Qed.

Lemma bayes_quad_uw (u : 'cV[F]_dx) (w : 'cV[F]_dy) :
  (u - C *m K *m w)^T *m invmx C *m (u - C *m K *m w) + w^T *m invmx T *m w
  = (w - M *m u)^T *m invmx Sy *m (w - M *m u) + u^T *m invmx Sx *m u.
Proof.
have Lba : - (Ly *m M) = (- K)^T by rewrite /K linearN /= trmx_mul trmxK Lysym.
have := complete_square Ly bayes_CP bayes_Psym Lba u w.
rewrite bayes_woodbury invmxK.
rewrite -(inv_unique (mulmx1C SLy)) -(inv_unique (mulmx1C SLx)).
rewrite mulmxN !mulNmx mulmxN opprK => <-.
rewrite tr_col_mx mul_row_block mul_row_col /P /K.
do 4![rewrite ?(linearD, linearN, linearB) /= ?trmx_mul ?(mulmxDl, mulmxDr, mulmxBr, mulmxBl, mulmxN, mulNmx) ?mulmxA].
mx_abel.
Qed.

Hypothesis Sxpos : 0 < \det Sx.
Hypothesis Sypos : 0 < \det Sy.

Lemma bayes_lnN (mu x : 'cV[F]_dx) (b y : 'cV[F]_dy) :
  lnN LS (C *m K *m y + (- (C *m K *m b) + C *m (Lx *m mu))) C x + lnN LS (M *m mu + b) T y
  = lnN LS (M *m x + b) Sy y + lnN LS mu Sx x.
Proof.
have H : C *m K *m (M *m mu) + C *m (Lx *m mu) = mu.
  rewrite -[RHS]mul1mx -bayes_CP /P /K mulmxDr mulmxDl !mulmxA; mx_abel.
have Emu := canRL (addrK _) H.
have E1 : x - (C *m K *m y + (- (C *m K *m b) + C *m (Lx *m mu)))
          = (x - mu) - C *m K *m (y - (M *m mu + b)).
  rewrite mulmxBr mulmxDr Emu; mx_abel.
have E2 : y - (M *m x + b) = (y - (M *m mu + b)) - M *m (x - mu).
  rewrite mulmxBr; mx_abel.
have Cpos : 0 < \det C by rewrite matrix.det_inv invr_gt0.
have Tpos : 0 < \det T by rewrite bayes_detT !mulr_gt0.
rewrite /lnN E1 E2; apply: zm4.
- have scD (A B : 'M[F]_1) : sc A + sc B = sc (A + B) by rewrite /sc mxE.
  by rewrite -!raddfD -!mulrDr !scD bayes_quad_uw.
- by rewrite -!hlnM ?bayes_det.
Qed.

(* ---- the identities behind the involution: transforming back recovers (M, b, Sy) and (mu, Sx) ---- *)
Lemma bayes_Csym : C^T = C.
Proof. exact: inv_sym bayes_CP bayes_Psym. Qed.
Lemma bayes_KT : K^T = Ly *m M.
Proof. by rewrite /K trmx_mul trmxK Lysym. Qed.

Lemma back_prec : invmx T + (C *m K)^T *m P *m (C *m K) = Ly.
Proof.
have PC := mulmx1C bayes_CP.
rewrite bayes_woodbury trmx_mul bayes_Csym bayes_KT.
rewrite -[Ly *m M *m C *m P *m _]mulmxA [P *m _]mulmxA PC mul1mx !mulmxA.
by rewrite subrK.
Qed.

Lemma back_M : Sy *m ((C *m K)^T *m P) = M.
Proof.
rewrite trmx_mul bayes_Csym bayes_KT -[_ *m C *m P]mulmxA bayes_CP mulmx1.
by rewrite !mulmxA SLy mul1mx.
Qed.

Lemma back_mu (mu : 'cV[F]_dx) (b : 'cV[F]_dy) :
  C *m K *m (M *m mu + b) + (- (C *m K *m b) + C *m (Lx *m mu)) = mu.
Proof.
have H : C *m K *m (M *m mu) + C *m (Lx *m mu) = mu.
  rewrite -[RHS]mul1mx -bayes_CP /P /K mulmxDr mulmxDl !mulmxA; mx_abel.
rewrite mulmxDr (canRL (addrK _) H); mx_abel.
Qed.

Lemma back_b (mu : 'cV[F]_dx) (b : 'cV[F]_dy) :
  - (M *m (- (C *m K *m b) + C *m (Lx *m mu))) + Sy *m (invmx T *m (M *m mu + b)) = b.
Proof.
have H : C *m K *m (M *m mu) + C *m (Lx *m mu) = mu.
  rewrite -[RHS]mul1mx -bayes_CP /P /K mulmxDr mulmxDl !mulmxA; mx_abel.
have := congr1 (mulmx M) (canRL (addrK _) H); rewrite mulmxBr !mulmxA => E.
rewrite bayes_woodbury /K.
rewrite !(mulmxDr, mulmxBr, mulmxN, mulmxBl, mulmxDl) !mulmxA SLy !mul1mx !mulNmx E.
mx_abel.
Qed.

Lemma back_S : C + C *m K *m T *m (C *m K)^T = Sx.
Proof.
have PC := mulmx1C bayes_CP.
have LSx := mulmx1C SLx. have LSy := mulmx1C SLy.
have PS : P *m (Sx *m M^T) = K *m T.
  rewrite /P /T /K mulmxDl mulmxDr !mulmxA LSx mul1mx.
  by rewrite -[M^T *m Ly *m Sy]mulmxA LSy mulmx1.
have -> : C *m K *m T = Sx *m M^T by rewrite -mulmxA -PS mulmxA bayes_CP mul1mx.
have ES : Sx *m P *m C = Sx by rewrite -mulmxA PC mulmx1.
rewrite trmx_mul bayes_Csym bayes_KT -[RHS]ES /P mulmxDr mulmxDl SLx mul1mx.
by rewrite !mulmxA.
Qed.

End BayesMx.

Section C0809.
Variable F : realFieldType.
Variable LS : logS F.
Notation mat := (mat F).
Notation vec := (vec F).
Notation measure := (measure LS).
Notation cond := (cond LS).

(* covariance of y under p(y|x) p(x), as a MathComp matrix *)
Definition SyM (c : cond) (p : measure) (k : nat) : 'M[F]_(cDy c) :=
  mxf (cDy c) (cDy c) (marg_Sigma c p k).
Definition marg_pos (c : cond) (p : measure) : Prop := forall k, (k < cR c * uR p)%N -> 0 < \det (SyM c p k).

(* ------------------------------------------------------------------ helpers *)
Lemma jr_bounds (c : cond) (p : measure) k : (k < cR c * uR p)%N ->
  (jrc p k < cR c)%N /\ (jrx p k < uR p)%N.
Proof.
move=> Hk; have Hp : (0 < uR p)%N by case: (uR p) Hk => //; rewrite muln0.
by rewrite /jrc /jrx ltn_divLR // Hk ltn_pmod.
Qed.

(* the component r of a density, seen at dimension cDx c *)
Lemma px_facts (c : cond) (p : measure) r : pdf_ok p -> cDx c = uD p -> (r < uR p)%N ->
  let Sx := mxf (cDx c) (cDx c) (getS p r) in let Lx := mxf (cDx c) (cDx c) (uLam p r) in
  [/\ Sx *m Lx = 1%:M, Lx^T = Lx, 0 < \det Sx, Sx^T = Sx
    & cvf (cDx c) (unu p r) = Lx *m cvf (cDx c) (getmu p r)].
Proof.
move=> ok HD Hr; rewrite HD /=.
have [[Hsym HS _ _ _] [HsS _ _ _] Hnu _] := ok r Hr.
have [SL dpos _] := HS HsS.
split=> //; exact: inv_sym SL Hsym.
Qed.

Lemma cd_facts (c : cond) r : cond_ok c -> (r < cR c)%N ->
  [/\ cSg c r *m cLm c r = 1%:M, (cLm c r)^T = cLm c r, 0 < \det (cSg c r) & (cSg c r)^T = cSg c r].
Proof.
move=> ok Hr; have [SL Lsym dpos _ _] := ok r Hr.
split=> //; exact: inv_sym SL Lsym.
Qed.

Lemma cond_muE (c : cond) r (v : vec) : cond_ok c -> (r < cR c)%N ->
  cvf (cDy c) (cond_mu c r v) = cMm c r *m cvf (cDx c) v + cbv c r.
Proof.
move=> ok Hr; have [_ _ _ _ Hid] := ok r Hr.
rewrite /cond_mu /cMm /cbv /effM /effb; case: (cident (ccl c)) Hid => [/(_ isT) E|_].
- by rewrite E mxf_id mul1mx cvf_zero addr0.
- by rewrite cvf_add cvf_mvec.
Qed.

Lemma marg_SigmaE (c : cond) (p : measure) k : cDx c = uD p ->
  SyM c p k = cSg c (jrc p k) + mxf (cDy c) (cDx c) (effM c (jrc p k))
                *m mxf (cDx c) (cDx c) (getS p (jrx p k)) *m (mxf (cDy c) (cDx c) (effM c (jrc p k)))^T.
Proof. by move=> _; rewrite /SyM /marg_Sigma mxf_add !mxf_mul mxf_tr. Qed.

Lemma marg_args_ok (c : cond) (p : measure) :
  pdf_ok p -> cond_ok c -> cDx c = uD p -> marg_pos c p ->
  @pdf_args_ok _ LS false (cR c * uR p) (cDy c) (marg_Sigma c p) None None.
Proof.
move=> okp okc HD Hpos r Hr /=; have [Hrc Hrx] := jr_bounds Hr.
split=> //; last exact: Hpos.
rewrite -/(SyM c p r) marg_SigmaE //.
have [_ _ _ Ssym _] := px_facts okp HD Hrx.
have [_ _ _ cSsym] := cd_facts okc Hrc.
by rewrite linearD /= !trmx_mul trmxK Ssym cSsym mulmxA.
Qed.

(* C08: the marginal transformation IS N(M mu + b, Sigma_y + M Sigma_x M') *)
Lemma affine_marginal_eval (c : cond) (p : measure) k (y : vec) :
  pdf_ok p -> cond_ok c -> cDx c = uD p -> marg_pos c p -> (k < cR c * uR p)%N ->
  ueval (affine_marginal c p) k y
  = lnN LS (cvf (cDy c) (cond_mu c (jrc p k) (getmu p (jrx p k)))) (SyM c p k) (cvf (cDy c) y).
Proof.
move=> okp okc HD Hpos Hk.
by rewrite /affine_marginal (mk_pdf_eval _ _ (marg_args_ok okp okc HD Hpos) Hk).
Qed.
Lemma affine_marginal_ok (c : cond) (p : measure) :
  pdf_ok p -> cond_ok c -> cDx c = uD p -> marg_pos c p -> pdf_ok (affine_marginal c p).
Proof. by move=> okp okc HD Hpos; apply: mk_pdf_ok; apply: marg_args_ok. Qed.

Lemma mk_pdf_cls diag R D Sig mu Lam hS :
  ucls (mk_pdf (LS:=LS) diag R D Sig mu Lam hS) = if diag then CDiagPdf else CPdf.
Proof. by []. Qed.
Lemma mk_pdf_cls_joint (c : cond) (p : measure) : is_diag (ucls (affine_joint c p)) = false.
Proof. by rewrite /affine_joint mk_pdf_cls. Qed.

Lemma joint_yblock (c : cond) (p : measure) k i j :
  (k < cR c * uR p)%N -> (i < cDy c)%N -> (j < cDy c)%N ->
  msub2 (iota (cDx c) (cDy c)) (iota (cDx c) (cDy c)) (getS (affine_joint c p) k) i j
  = marg_Sigma c p k i j.
Proof.
move=> Hk Hi Hj; rewrite /msub2 !nth_iota // /affine_joint.
have [HS _] := mk_pdf_params false (cDx c + cDy c) (joint_Sigma c p)
   (fun k => vcat (cDx c) (getmu p (jrx p k)) (cond_mu c (jrc p k) (getmu p (jrx p k))))
   (Some (joint_Lambda c p)) (Some (joint_hld c p)) Hk.
rewrite HS ?ltn_add2l //.
by rewrite /joint_Sigma /mblock !ltnNge !leq_addr /= !addKn.
Qed.

Lemma joint_ytail (c : cond) (p : measure) k i :
  (k < cR c * uR p)%N -> (i < cDy c)%N ->
  vsel (iota (cDx c) (cDy c)) (getmu (affine_joint c p) k) i
  = cond_mu c (jrc p k) (getmu p (jrx p k)) i.
Proof.
move=> Hk Hi; rewrite /vsel !nth_iota // /affine_joint.
have [_ Hm] := mk_pdf_params false (cDx c + cDy c) (joint_Sigma c p)
   (fun k => vcat (cDx c) (getmu p (jrx p k)) (cond_mu c (jrc p k) (getmu p (jrx p k))))
   (Some (joint_Lambda c p)) (Some (joint_hld c p)) Hk.
rewrite Hm ?ltn_add2l //.
by rewrite /vcat !ltnNge !leq_addr /= !addKn.
Qed.

(* C08: it is the y-marginal of the joint transformation (same mean and covariance on the y block) *)
Lemma marginal_of_joint (c : cond) (p : measure) k (y : vec) :
  pdf_ok p -> cond_ok c -> cDx c = uD p -> marg_pos c p -> (k < cR c * uR p)%N ->
  ueval (get_marginal (iota (cDx c) (cDy c)) (affine_joint c p)) k y = ueval (affine_marginal c p) k y.
Proof.
move=> okp okc HD Hpos Hk.
have Hargs := marg_args_ok okp okc HD Hpos.
rewrite /affine_marginal (mk_pdf_eval _ _ Hargs Hk).
rewrite /get_marginal mk_pdf_cls_joint /= size_iota.
set S1 := (fun r : nat => msub2 _ _ _); set m1 := (fun r : nat => vsel _ _).
have ES r : (r < cR c * uR p)%N -> mxf (cDy c) (cDy c) (S1 r) = mxf (cDy c) (cDy c) (marg_Sigma c p r).
  by move=> Hr; apply/mxfP => i j Hi Hj; rewrite /S1 joint_yblock.
have Em : cvf (cDy c) (m1 k) = cvf (cDy c) (cond_mu c (jrc p k) (getmu p (jrx p k))).
  by apply/cvfP => i Hi; rewrite /m1 joint_ytail.
clearbody S1 m1.
have Hargs' : @pdf_args_ok _ LS false (cR c * uR p) (cDy c) S1 None None.
  move=> r Hr; have [H1 H2 _ _ _] := Hargs r Hr.
  split; [rewrite ES // | rewrite ES // | by [] | by [] | by [] ].
by rewrite (mk_pdf_eval _ _ Hargs' Hk) ES // Em.
Qed.


Definition Mm (c : cond) (p : measure) k : 'M[F]_(cDy c, cDx c) := mxf (cDy c) (cDx c) (effM c (jrc p k)).
Definition Pxm (c : cond) (p : measure) k : 'M[F]_(cDx c) :=
  mxf (cDx c) (cDx c) (uLam p (jrx p k)) + (Mm c p k)^T *m cLm c (jrc p k) *m Mm c p k.
Definition LxF (c : cond) (p : measure) (k : nat) : mat :=
  madd (uLam p (jrx p k))
    (mmul (cDy c) (tabm (cDx c) (cDy c) (mmul (cDy c) (mtr (effM c (jrc p k))) (cLam c (jrc p k))))
          (effM c (jrc p k))).

Lemma LxFE (c : cond) (p : measure) k : mxf (cDx c) (cDx c) (LxF c p k) = Pxm c p k.
Proof. by rewrite /LxF mxf_add mxf_mul mxf_tab mxf_mul mxf_tr. Qed.
Lemma LxF_tab (c : cond) (p : measure) k : (k < cR c * uR p)%N ->
  mxf (cDx c) (cDx c) (tabb (cR c * uR p) (cDx c) (cDx c) (LxF c p) k) = Pxm c p k.
Proof. by move=> Hk; rewrite mxf_tabb // LxFE. Qed.
Lemma LxF_det (c : cond) (p : measure) k : (k < cR c * uR p)%N ->
  detn (cDx c) (tabb (cR c * uR p) (cDx c) (cDx c) (LxF c p) k) = \det (Pxm c p k).
Proof. by move=> Hk; rewrite detnE LxF_tab. Qed.

Lemma LxF_dn0 (c : cond) (p : measure) k : (k < cR c * uR p)%N -> 0 < \det (Pxm c p k) ->
  detn (cDx c) (tabb (cR c * uR p) (cDx c) (cDx c) (LxF c p) k) != 0.
Proof. by move=> Hk Hpos; rewrite LxF_det // lt0r_neq0. Qed.

Lemma acond_Lm (c : cond) (p : measure) k : (k < cR c * uR p)%N ->
  cLm (affine_conditional c p) k = Pxm c p k.
Proof.
move=> Hk; rewrite /cLm /affine_conditional /mk_cond /= -/(LxF c p).
by rewrite mxf_tabb // LxF_tab.
Qed.

Lemma acond_Sg (c : cond) (p : measure) k : (k < cR c * uR p)%N -> 0 < \det (Pxm c p k) ->
  cSg (affine_conditional c p) k = invmx (Pxm c p k).
Proof.
move=> Hk Hpos; rewrite /cSg /affine_conditional /mk_cond /= -/(LxF c p).
by rewrite !mxf_tabb // mxf_inv ?LxF_tab // LxF_dn0.
Qed.

Lemma acond_hS (c : cond) (p : measure) k : (k < cR c * uR p)%N ->
  chS (affine_conditional c p) k = - hln LS (\det (Pxm c p k)).
Proof.
move=> Hk; rewrite /affine_conditional /mk_cond /= -/(LxF c p).
by rewrite !tablE // LxF_det.
Qed.

Lemma acond_Mm (c : cond) (p : measure) k : (k < cR c * uR p)%N -> 0 < \det (Pxm c p k) ->
  cMm (affine_conditional c p) k = invmx (Pxm c p k) *m ((Mm c p k)^T *m cLm c (jrc p k)).
Proof.
move=> Hk Hpos; rewrite /cMm /effM /affine_conditional /mk_cond /= -/(LxF c p).
rewrite !mxf_tabb // mxf_mul mxf_tabb // mxf_inv ?LxF_tab ?LxF_dn0 //.
by rewrite mxf_tab mxf_mul mxf_tr.
Qed.

Lemma acond_bv (c : cond) (p : measure) k : (k < cR c * uR p)%N -> 0 < \det (Pxm c p k) ->
  cbv (affine_conditional c p) k
  = - (invmx (Pxm c p k) *m ((Mm c p k)^T *m cLm c (jrc p k)) *m cbv c (jrc p k))
    + invmx (Pxm c p k) *m cvf (cDx c) (unu p (jrx p k)).
Proof.
move=> Hk Hpos; rewrite /cbv {1}/effb /affine_conditional /mk_cond /= -/(LxF c p).
rewrite cvf_tabbv // cvf_add cvf_opp !cvf_mvec.
rewrite !mxf_tabb // mxf_mul mxf_tabb // mxf_inv ?LxF_tab ?LxF_dn0 //.
by rewrite mxf_tab mxf_mul mxf_tr.
Qed.
(* C09: the conditional transformation returns a consistent conditional p(x|y) ... *)
Definition post_pos (c : cond) (p : measure) : Prop := forall k, (k < cR c * uR p)%N ->
  0 < \det (Lm p (jrx p k) + (mxf (cDy c) (uD p) (effM c (jrc p k)))^T *m
            mxf (cDy c) (cDy c) (cLam c (jrc p k)) *m mxf (cDy c) (uD p) (effM c (jrc p k))).
Lemma post_posE (c : cond) (p : measure) k : cDx c = uD p -> post_pos c p ->
  (k < cR c * uR p)%N -> 0 < \det (Pxm c p k).
Proof. by move=> HD Hpost Hk; have := Hpost k Hk; rewrite /Pxm /Mm /cLm /Lm -HD. Qed.

Lemma affine_conditional_ok (c : cond) (p : measure) :
  pdf_ok p -> cond_ok c -> cDx c = uD p -> post_pos c p ->
  cond_ok (affine_conditional c p)
  /\ cR (affine_conditional c p) = (cR c * uR p)%N /\ cDy (affine_conditional c p) = cDx c
  /\ cDx (affine_conditional c p) = cDy c.
Proof.
move=> okp okc HD Hpost; split; last by [].
move=> k Hk; have Hk' : (k < cR c * uR p)%N := Hk.
have Hp := post_posE HD Hpost Hk'.
have [Hrc Hrx] := jr_bounds Hk'.
have [SLx Lxsym _ _ _] := px_facts okp HD Hrx.
have [SLy Lysym _ _] := cd_facts okc Hrc.
have Pu : Pxm c p k \in unitmx by rewrite unitmxE unitfE lt0r_neq0.
split.
- by rewrite acond_Sg // acond_Lm // mulVmx.
- by rewrite acond_Lm // /Pxm linearD /= !trmx_mul trmxK Lxsym Lysym mulmxA.
- by rewrite acond_Sg // matrix.det_inv invr_gt0.
- by rewrite acond_hS // acond_Sg // matrix.det_inv hlnV.
- by [].
Qed.

(* ... that satisfies Bayes' rule with the marginal transformation: p(x|y) p(y) = p(y|x) p(x) *)
Lemma bayes_rule (c : cond) (p : measure) k (x y : vec) :
  pdf_ok p -> cond_ok c -> cDx c = uD p -> marg_pos c p -> post_pos c p -> (k < cR c * uR p)%N ->
  ueval (condition_on_x (affine_conditional c p) [:: y]) (k * 1 + 0) x + ueval (affine_marginal c p) k y
  = ueval (condition_on_x c [:: x]) (jrc p k * 1 + 0) y + ueval p (jrx p k) x.
Proof.
move=> okp okc HD Hmarg Hpost Hk.
have [Hrc Hrx] := jr_bounds Hk.
have [SLx Lxsym Sxpos _ Hnu] := px_facts okp HD Hrx.
have [SLy Lysym Sypos _] := cd_facts okc Hrc.
have Hp := post_posE HD Hpost Hk.
have [okc' _] := affine_conditional_ok okp okc HD Hpost.
rewrite (affine_marginal_eval _ okp okc HD Hmarg Hk).
have Hk' : (k < cR (affine_conditional c p))%N := Hk.
rewrite (condition_on_x_eval (xs:=[:: y]) (n:=0) x okc' Hk') //.
rewrite (condition_on_x_eval (xs:=[:: x]) (n:=0) y okc Hrc) //.
rewrite (pdf_ok_eval x okp Hrx).
rewrite acond_Mm // acond_bv // acond_Sg //.
rewrite /muv /Sg -HD.
rewrite Hnu cond_muE // marg_SigmaE //=.
exact: bayes_lnN.
Qed.

(* C09: invertibility, single components: transforming p(x|y) back with p(y) recovers M, b, Sigma of
   p(y|x), and its marginal transformation recovers mean and covariance of p(x) *)
Lemma cond_transform_involutive (c : cond) (p : measure) :
  pdf_ok p -> cond_ok c -> cDx c = uD p -> cR c = 1%N -> uR p = 1%N -> ~~ cident (ccl c) ->
  marg_pos c p -> post_pos c p ->
  let back := affine_conditional (affine_conditional c p) (affine_marginal c p) in
  let pback := affine_marginal (affine_conditional c p) (affine_marginal c p) in
  [/\ mxf (cDy c) (cDx c) (cM back 0%N) = mxf (cDy c) (cDx c) (cM c 0%N),
      cvf (cDy c) (cb back 0%N) = cvf (cDy c) (cb c 0%N),
      mxf (cDy c) (cDy c) (cSig back 0%N) = cSg c 0%N,
      cvf (uD p) (getmu pback 0%N) = muv p 0%N
    & mxf (uD p) (uD p) (getS pback 0%N) = Sg p 0%N].
Proof.
move=> okp okc HD HRc HRp Hnid Hmarg Hpost.
set c' := affine_conditional c p; set q := affine_marginal c p => back pback.
have H0 : (0 < cR c * uR p)%N by rewrite HRc HRp.
have j0c : jrc p 0 = 0%N by rewrite /jrc div0n.
have j0x : jrx p 0 = 0%N by rewrite /jrx mod0n.
have Hrc : (0 < cR c)%N by rewrite HRc.
have Hrx : (0 < uR p)%N by rewrite HRp.
have [SLx Lxsym Sxpos _ Hnu] := px_facts okp HD Hrx.
have [SLy Lysym Sypos _] := cd_facts okc Hrc.
have Hp := post_posE HD Hpost H0.
have [okc' _] := affine_conditional_ok okp okc HD Hpost.
have okq := affine_marginal_ok okp okc HD Hmarg.
have F1 := acond_Mm H0 Hp. have F2 := acond_Lm (c:=c) (p:=p) H0.
have F3 := acond_bv H0 Hp. have F4 := acond_Sg H0 Hp.
rewrite /Pxm /Mm j0c j0x -/c' in F1 F2 F3 F4 Hp.
have HDq : cDx c' = uD q by [].
have H0q : (0 < uR q)%N := H0.
have [SLq Lqsym Sqpos Sqsym Hnuq] := px_facts (c:=c') okq HDq H0q.
have j0cq : jrc q 0 = 0%N by rewrite /jrc div0n.
have j0xq : jrx q 0 = 0%N by rewrite /jrx mod0n.
have ESq : mxf (cDx c') (cDx c') (getS q 0) = SyM c p 0.
  apply/mxfP => i j Hi Hj.
  by have [-> //] := mk_pdf_params (LS:=LS) false (cDy c) (marg_Sigma c p)
     (fun k => cond_mu c (jrc p k) (getmu p (jrx p k))) None None H0.
rewrite -/q in SLq Lqsym Sqpos Sqsym Hnuq.
have ELq : mxf (cDx c') (cDx c') (uLam q 0) = invmx (SyM c p 0).
  by rewrite -ESq; apply: inv_unique; apply: mulmx1C.
have Emuq : cvf (cDx c') (getmu q 0) = cMm c 0 *m cvf (cDx c) (getmu p 0) + cbv c 0.
  rewrite -(cond_muE _ okc Hrc); apply/cvfP => i Hi.
  have [_ -> //] := mk_pdf_params (LS:=LS) false (cDy c) (marg_Sigma c p)
     (fun k => cond_mu c (jrc p k) (getmu p (jrx p k))) None None H0.
  by rewrite j0c j0x.
have ET := marg_SigmaE 0 HD; rewrite j0c j0x in ET.
have EP' : Pxm c' q 0 = cLm c 0.
  rewrite /Pxm /Mm j0cq j0xq -/(cMm c' 0) F1 F2 ELq ET; exact: back_prec.
have Lypos : 0 < \det (cLm c 0).
  by have H := MxLemmas.det_inv SLy; rewrite -(pmulr_rgt0 _ Sypos) H ltr01.
have Hp' : 0 < \det (Pxm c' q 0) by rewrite EP'.
have H0b : (0 < cR c' * uR q)%N.
  by rewrite -[cR c']/(cR c * uR p)%N -[uR q]/(cR c * uR p)%N HRc HRp.
have H0c' : (0 < cR c')%N := H0.
have ESy : invmx (cLm c 0) = cSg c 0 by rewrite -(inv_unique SLy).
have EM : mxf (cDy c) (cDx c) (cM c 0) = cMm c 0 by rewrite /cMm /effM (negbTE Hnid).
have Eb : cvf (cDy c) (cb c 0) = cbv c 0 by rewrite /cbv /effb (negbTE Hnid).
have G1 := acond_Mm H0b Hp'. have G3 := acond_bv H0b Hp'. have G4 := acond_Sg H0b Hp'.
rewrite EP' /Mm j0cq j0xq -/(cMm c' 0) F1 F2 ESy in G1 G3 G4.
have E1 : cMm back 0 = cMm c 0 by rewrite G1; exact: back_M.
rewrite -G1 E1 in G3.
split.
- by rewrite EM -[LHS]/(cMm back 0).
- rewrite Eb -[LHS]/(cbv back 0) G3.
  rewrite Hnuq ELq Emuq F3 Hnu ET; exact: back_b.
- by rewrite -[LHS]/(cSg back 0) G4.
- rewrite /muv -HD.
  have -> : cvf (cDx c) (getmu pback 0) = cvf (cDy c') (cond_mu c' (jrc q 0) (getmu q (jrx q 0))).
    apply/cvfP => i Hi.
    by have [_ -> //] := mk_pdf_params (LS:=LS) false (cDy c') (marg_Sigma c' q)
      (fun k => cond_mu c' (jrc q k) (getmu q (jrx q k))) None None H0b.
  rewrite j0cq j0xq (cond_muE _ okc' H0c') F1 F3 Emuq Hnu; exact: back_mu.
- rewrite /Sg -HD.
  have -> : mxf (cDx c) (cDx c) (getS pback 0) = SyM c' q 0.
    apply/mxfP => i j Hi Hj.
    by have [-> //] := mk_pdf_params (LS:=LS) false (cDy c') (marg_Sigma c' q)
      (fun k => cond_mu c' (jrc q k) (getmu q (jrx q k))) None None H0b.
  rewrite (marg_SigmaE 0 HDq) j0cq j0xq -/(cMm c' 0) F4 F1 ESq ET; exact: back_S.
Qed.

End C0809.
Print Assumptions marg_SigmaE.
Print Assumptions affine_marginal_eval.
Print Assumptions affine_marginal_ok.
Print Assumptions marginal_of_joint.
Print Assumptions affine_conditional_ok.
Print Assumptions bayes_rule.
Print Assumptions cond_transform_involutive.
