(* C10: set_y is the likelihood including its normaliser.  C13: information quantities. *)
From mathcomp Require Import all_ssreflect all_fingroup all_algebra.
From mathcomp Require Import ring.
From GT Require Import Tensor DetExec LogDom MxTac MxLemmas Obj Factor Measure Pdf Cond EvalLemmas Spec C01_proofs PdfLemmas.
Set Implicit Arguments.
Unset Strict Implicit.
Unset Printing Implicit Defensive.
Import GRing.Theory Num.Theory.
Local Open Scope ring_scope.

Section C10.
Variable F : realFieldType.
Variable LS : logS F.
Notation mat := (mat F).
Notation vec := (vec F).
Notation measure := (measure LS).
Notation cond := (cond LS).
Notation factor := (factor LS).

(* one factor component per observation *)
Lemma set_y_R dxn (c : cond) (ys : seq vec) :
  fR (set_y dxn c ys) = (if cR c == 1%N then size ys else cR c) /\ fD (set_y dxn c ys) = cDx c.
Proof. by []. Qed.

(* a 1x1 matrix is its own transpose *)
Lemma tr11 (A : 'M[F]_1) : A^T = A.
Proof. by apply/matrixP => i j; rewrite !ord1 !mxE. Qed.

(* expansion of the likelihood exponent -1/2 (w - M x)' L (w - M x) in the natural parameters of x *)
Lemma lik_quad dx dy (L : 'M[F]_dy) (M : 'M[F]_(dy, dx)) (w : 'cV[F]_dy) (x : 'cV[F]_dx) :
  L^T = L ->
  - half F * (x^T *m (M^T *m (L *m M)) *m x) 0 0 + (x^T *m (w^T *m (L *m M))^T) 0 0
    + - half F * (w^T *m L *m w) 0 0
  = - half F * ((w - M *m x)^T *m L *m (w - M *m x)) 0 0.
Proof.
move=> Hsym.
have T : x^T *m (w^T *m (L *m M))^T = w^T *m L *m M *m x.
  by rewrite -[LHS]tr11 trmx_mul !trmxK !mulmxA.
have T2 : x^T *m M^T *m L *m w = w^T *m L *m M *m x.
  by rewrite -[LHS]tr11 !trmx_mul !trmxK Hsym !mulmxA.
have E : (w - M *m x)^T *m L *m (w - M *m x)
  = w^T *m L *m w - w^T *m L *m M *m x - w^T *m L *m M *m x + x^T *m M^T *m L *m M *m x.
  rewrite [(w - _)^T]linearB /= trmx_mul !mulmxBl !mulmxBr !mulmxA T2; mx_abel.
rewrite E T !mulmxA.
set a := _ *m M *m x; set b := _ *m M *m x; set d := _ *m w; clearbody a b d.
rewrite !mxE; set a0 := a 0 0; set b0 := b 0 0; set d0 := d 0 0; clearbody a0 b0 d0.
by rewrite /half; field.
Qed.

(* index bookkeeping of set_y: the paired component exists, and n addresses a factor component *)
Lemma set_y_idx (c : cond) (ys : seq vec) n :
  (cR c == 1%N) || (size ys == cR c) -> (n < size ys)%N ->
  (bidx (cR c) n < cR c)%N /\ (n < (if cR c == 1%N then size ys else cR c))%N.
Proof.
move=> Hb Hn; split.
  rewrite /bidx; case: ifP => [/eqP -> //|H1].
  by move: Hb; rewrite H1 /= => /eqP <-.
by case: ifP => // H1; move: Hb; rewrite H1 /= => /eqP <-.
Qed.

(* value of component n at x: the conditional density N(y_n; M x + b, Sigma) of the component
   paired with observation n, times (2 pi)^((Dy - Dn)/2) where Dn is the dimension used in the
   normaliser: Dx in the code as it is (dxn = true), Dy after the repair (dxn = false) *)
Lemma set_y_eval dxn (c : cond) (ys : seq vec) n (x : vec) :
  cond_ok c -> (cR c == 1%N) || (size ys == cR c) -> (n < size ys)%N ->
  feval (set_y dxn c ys) n x
  = lnN LS (cMm c (bidx (cR c) n) *m cvf (cDx c) x + cbv c (bidx (cR c) n)) (cSg c (bidx (cR c) n))
        (cvf (cDy c) (nth vzero ys n))
    + hl2p LS *+ (cDy c) - hl2p LS *+ (if dxn then cDx c else cDy c).
Proof.
move=> Hc Hb Hn.
have [Hr HRn] := set_y_idx Hb Hn.
have [Hinv Hsym Hpos Hhld _] := Hc _ Hr.
rewrite /feval /set_y /mk_general /= tablE //.
rewrite /eval_core quadE dotE mxf_tabb // cvf_tabbv //.
set r := bidx (cR c) n in Hr Hinv Hsym Hpos Hhld *.
rewrite dotE -[cvf (cDx c) (vmat _ _ _)]trmxK !cvf_vmat !mxf_mul mxf_tr cvf_sub.
rewrite /lnN -/(cMm c r) -/(cLm c r) -/(cbv c r) Hhld.
have LSi : cLm c r *m cSg c r = 1%:M by apply: mulmx1C.
rewrite -(inv_unique LSi).
set M := cMm c r; set L := cLm c r in Hsym *; set b := cbv c r; set xx := cvf _ x.
set y := cvf _ (nth _ _ _).
set h1 := hl2p LS *+ _; set h2 := hl2p LS *+ _; set h3 := hln _ _.
have -> : y - (M *m xx + b) = (y - b) - M *m xx by rewrite opprD addrA addrAC.
rewrite /sc -(lik_quad M (y - b) xx Hsym).
rewrite [in RHS]raddfD /=.
rewrite [_ - h2 - h3]addrAC subrK.
by rewrite !addrA [_ - h3 - h1]addrAC.
Qed.

(* corollaries: exact likelihood for the repaired variant and, for the code as it is, when Dx = Dy *)
Lemma set_y_likelihood_repaired (c : cond) (ys : seq vec) n (x : vec) :
  cond_ok c -> (cR c == 1%N) || (size ys == cR c) -> (n < size ys)%N ->
  feval (set_y false c ys) n x
  = ueval (condition_on_x c [:: x]) (bidx (cR c) n * 1 + 0) (nth vzero ys n).
Proof.
move=> Hc Hb Hn; have [Hr _] := set_y_idx Hb Hn.
rewrite set_y_eval // addrK.
by rewrite (condition_on_x_eval (xs:=[:: x]) (n:=0) _ Hc Hr).
Qed.
Lemma set_y_likelihood_partial (c : cond) (ys : seq vec) n (x : vec) :
  cond_ok c -> (cR c == 1%N) || (size ys == cR c) -> (n < size ys)%N -> cDx c = cDy c ->
  feval (set_y true c ys) n x
  = ueval (condition_on_x c [:: x]) (bidx (cR c) n * 1 + 0) (nth vzero ys n).
Proof.
move=> Hc Hb Hn HD; have [Hr _] := set_y_idx Hb Hn.
rewrite set_y_eval // [in hl2p LS *+ cDx c]HD addrK.
by rewrite (condition_on_x_eval (xs:=[:: x]) (n:=0) _ Hc Hr).
Qed.
(* the known finding, exactly: the code's factor is off by (Dy - Dx) * 1/2 ln 2 pi *)
Lemma set_y_offset (c : cond) (ys : seq vec) n (x : vec) :
  cond_ok c -> (cR c == 1%N) || (size ys == cR c) -> (n < size ys)%N ->
  feval (set_y true c ys) n x
  = ueval (condition_on_x c [:: x]) (bidx (cR c) n * 1 + 0) (nth vzero ys n)
    + hl2p LS *+ (cDy c) - hl2p LS *+ (cDx c).
Proof.
move=> Hc Hb Hn; have [Hr _] := set_y_idx Hb Hn.
rewrite set_y_eval //.
by rewrite (condition_on_x_eval (xs:=[:: x]) (n:=0) _ Hc Hr).
Qed.

End C10.

Section C13.
Variable F : realFieldType.
Variable LS : logS F.
Notation mat := (mat F).
Notation vec := (vec F).
Notation measure := (measure LS).
Notation cond := (cond LS).

(* E_{x ~ N(mu0, S0)} [ ln N(x; mu, S) ]  (Gaussian second moments: E[(x-mu)'A(x-mu)] = tr(A S0) + (mu0-mu)'A(mu0-mu)) *)
Definition ElnN (D : nat) (mu0 : 'cV[F]_D) (S0 : 'M[F]_D) (mu : 'cV[F]_D) (S : 'M[F]_D) : LS :=
  emb LS (- half F * (\tr (invmx S *m S0) + sc ((mu0 - mu)^T *m invmx S *m (mu0 - mu))))
  - hl2p LS *+ D - hln LS (\det S).

Lemma entropy_spec (p : measure) r : pdf_ok p -> (r < uR p)%N ->
  entropy p r = - ElnN (muv p r) (Sg p r) (muv p r) (Sg p r).
Proof.
move=> Hp Hr; have [Hc [HS _ _ _] _ _] := Hp r Hr.
have [Hinv Hpos HhS] := co_S Hc HS.
have Li : Lm p r *m Sg p r = 1%:M by apply: mulmx1C.
rewrite /entropy /ElnN -(inv_unique Li) Li mxtrace1 subrr trmx0 !mul0mx /sc mxE addr0 HhS.
by rewrite mulNr raddfN /= -!opprD opprK.
Qed.

Lemma zmod_kl (V : zmodType) (a b h s0 s1 : V) :
  a - b + s1 - s0 = (a - h - s0) - (b - h - s1).
Proof.
rewrite !opprD !opprK [a - h - s0]addrAC [- b + h]addrC -[h - b + s1]addrA addrA subrK.
by rewrite addrAC [a - b - s0]addrAC -addrA.
Qed.

(* general form: the two addressed components exist *)
Lemma kl_gen (p0 p1 : measure) k : pdf_ok p0 -> pdf_ok p1 -> uD p0 = uD p1 ->
  let r0 := bidx (uR p0) k in let r1 := bidx (uR p1) k in
  (r0 < uR p0)%N -> (r1 < uR p1)%N ->
  kl_divergence p0 p1 k
  = ElnN (muv p0 r0) (Sg p0 r0) (muv p0 r0) (Sg p0 r0)
    - ElnN (muv p0 r0) (Sg p0 r0) (cvf (uD p0) (getmu p1 r1)) (mxf (uD p0) (uD p0) (getS p1 r1)).
Proof.
move=> H0 H1 HD r0 r1 Hr0 Hr1.
have [Hc0 [HS0 _ _ _] _ _] := H0 r0 Hr0.
have [Hinv0 Hpos0 HhS0] := co_S Hc0 HS0.
have [Hc1 [HS1 _ _ _] _ _] := H1 r1 Hr1.
have [Hinv1 Hpos1 HhS1] := co_S Hc1 HS1.
move: Hinv1 HhS1; rewrite /Sg /Lm -HD => Hinv1 HhS1.
have Li0 : Lm p0 r0 *m Sg p0 r0 = 1%:M by apply: mulmx1C.
have Li1 := mulmx1C Hinv1.
rewrite /kl_divergence /ElnN -/r0 -/r1 -(inv_unique Li0) Li0 mxtrace1 subrr trmx0 !mul0mx /sc [(0 : 'M_1) 0 0]mxE addr0.
rewrite -(inv_unique Li1) traceE mxf_mul dotE cvf_vmat cvf_sub HhS0 HhS1.
rewrite /muv -/(Sg p0 r0).
set L1 := mxf _ _ (uLam p1 r1); set m1 := cvf _ (getmu p1 r1); set m0 := cvf _ (getmu p0 r0).
have -> : m0 - m1 = - (m1 - m0) by rewrite opprB.
rewrite [(- _)^T]linearN /= !mulNmx mulmxN opprK.
set t := \tr _; set q := (_ *m _) 0 0; set d := (uD p0)%:R; clearbody t q d.
have -> : half F * (t + q - d) = - half F * d - (- half F * (t + q)) by ring.
by rewrite raddfB /= -zmod_kl.
Qed.

(* KL(p0 || p1) = E_p0[ln p0 - ln p1]; a single-component operand is broadcast *)
(* ORIGINAL STATEMENT (false when one operand has NO component and the other exactly one, e.g.
   uR p0 = 0, uR p1 = 1, k = 0: then pdf_ok p0 is vacuous and component bidx 0 0 = 0 of p0 is
   unconstrained; see kl_spec_counterexample after the section):
Lemma kl_spec (p0 p1 : measure) k : pdf_ok p0 -> pdf_ok p1 -> uD p0 = uD p1 ->
  (k < maxn (uR p0) (uR p1))%N -> (uR p0 == uR p1) || (uR p0 == 1%N) || (uR p1 == 1%N) ->
  let r0 := bidx (uR p0) k in let r1 := bidx (uR p1) k in
  kl_divergence p0 p1 k
  = ElnN (muv p0 r0) (Sg p0 r0) (muv p0 r0) (Sg p0 r0)
    - ElnN (muv p0 r0) (Sg p0 r0) (cvf (uD p0) (getmu p1 r1)) (mxf (uD p0) (uD p0) (getS p1 r1)).
*)
Lemma bidx_lt2 a b k : (0 < a)%N -> (0 < b)%N -> (k < maxn a b)%N ->
  (a == b) || (a == 1%N) || (b == 1%N) -> (bidx a k < a)%N /\ (bidx b k < b)%N.
Proof.
move=> Ha Hb Hk; rewrite /bidx.
case: (altP (a =P 1%N)) => [Ea|Na]; case: (altP (b =P 1%N)) => [Eb|Nb] /=; rewrite ?orbT ?orbF.
- by rewrite Ea Eb.
- by move=> _; split; [rewrite Ea | move: Hk; rewrite Ea (maxn_idPr Hb)].
- by move=> _; split; [move: Hk; rewrite Eb (maxn_idPl Ha) | rewrite Eb].
- by move=> /eqP E; move: Hk; rewrite -E maxnn.
Qed.

(* the statement with the missing hypotheses added: both operands have at least one component *)
Lemma kl_spec_partial (p0 p1 : measure) k : pdf_ok p0 -> pdf_ok p1 -> uD p0 = uD p1 ->
  (0 < uR p0)%N -> (0 < uR p1)%N ->
  (k < maxn (uR p0) (uR p1))%N -> (uR p0 == uR p1) || (uR p0 == 1%N) || (uR p1 == 1%N) ->
  let r0 := bidx (uR p0) k in let r1 := bidx (uR p1) k in
  kl_divergence p0 p1 k
  = ElnN (muv p0 r0) (Sg p0 r0) (muv p0 r0) (Sg p0 r0)
    - ElnN (muv p0 r0) (Sg p0 r0) (cvf (uD p0) (getmu p1 r1)) (mxf (uD p0) (uD p0) (getS p1 r1)).
Proof.
move=> H0 H1 HD P0 P1 Hk Hb r0 r1.
have [Hr0 Hr1] := bidx_lt2 P0 P1 Hk Hb.
exact: kl_gen.
Qed.

Lemma kl_self (p : measure) r : pdf_ok p -> (r < uR p)%N -> kl_divergence p p r = 0.
Proof.
move=> Hp Hr.
have P : (0 < uR p)%N by apply: leq_ltn_trans Hr.
have Hk : (r < maxn (uR p) (uR p))%N by rewrite maxnn.
have Hb : (uR p == uR p) || (uR p == 1%N) || (uR p == 1%N) by rewrite eqxx.
have [Hr0 _] := bidx_lt2 P P Hk Hb.
by rewrite (kl_gen Hp Hp (erefl _) Hr0 Hr0) subrr.
Qed.

(* conditional entropy and mutual information are the entropy differences of the property text *)
Lemma conditional_entropy_spec (c : cond) (p : measure) k :
  conditional_entropy c p k = entropy (affine_joint c p) k - entropy p (bidx (uR p) k).
Proof. by []. Qed.
Lemma mutual_information_spec (c : cond) (p : measure) k :
  mutual_information false c p k
  = entropy p (bidx (uR p) k) + entropy (affine_marginal c p) k - entropy (affine_joint c p) k.
Proof.
rewrite /mutual_information /conditional_entropy /=.
by rewrite opprB addrA [_ + entropy p _]addrC.
Qed.
Lemma mutual_information_neg (c : cond) (p : measure) k :
  mutual_information true c p k = - mutual_information false c p k.
Proof. by rewrite /mutual_information /= opprB. Qed.
(* what the constructor stores as half log-determinant, read off by computation *)
Lemma mk_pdf_gethS_None R D (Sig : nat -> mat) (mu : nat -> vec) r : (r < R)%N ->
  gethS (mk_pdf (LS:=LS) false R D Sig mu None None) r = hln LS (\det (mxf D D (Sig r))).
Proof. by move=> Hr; rewrite /mk_pdf /gethS /= tablE // detnE mxf_tabb. Qed.
Lemma mk_pdf_gethS_Some R D (Sig : nat -> mat) (mu : nat -> vec) L h r : (r < R)%N ->
  gethS (mk_pdf (LS:=LS) false R D Sig mu (Some L) (Some h)) r = h r.
Proof. by move=> Hr; rewrite /mk_pdf /gethS /= tablE. Qed.

Lemma zmod_mi (V : zmodType) (a b h1 h2 sx sy sj : V) :
  (a + h1 + sx) + (b + h2 + sy) - (a + b + (h1 + h2) + sj) = sx + sy - sj.
Proof.
rewrite [a + h1 + sx + _]addrACA [a + h1 + (b + h2)]addrACA opprD addrA.
by rewrite [_ + (sx + sy)]addrC addrK.
Qed.

(* batch layout: the x-component addressed by entropy (broadcast index) is the one of the joint *)
Lemma jr_idx (c : cond) (p : measure) k :
  (k < cR c * uR p)%N -> (cR c == 1%N) || (uR p == 1%N) ->
  [/\ bidx (uR p) k = jrx p k, (jrx p k < uR p)%N & (jrc p k < cR c)%N].
Proof.
move=> Hk Hb.
have P : (0 < uR p)%N by case: (uR p) Hk => //; rewrite muln0.
split; last 1 first.
- by rewrite /jrc ltn_divLR.
- rewrite /bidx /jrx; case: ifP => [/eqP -> |N1]; first by rewrite modn1.
  by move: Hb Hk; rewrite N1 orbF => /eqP ->; rewrite mul1n => Hk; rewrite modn_small.
- by rewrite /jrx ltn_pmod.
Qed.

Section JointContract.
(* proved in proofs/C07_proofs.v (joint_args_ok), assumed here as stated there *)
Hypothesis joint_args_ok : forall (c : cond) (p : measure),
  pdf_ok p -> cond_ok c -> cDx c = uD p ->
  pdf_args_ok false (cR c * uR p) (cDx c + cDy c) (joint_Sigma c p)
              (Some (joint_Lambda c p)) (Some (joint_hld c p)).

(* in terms of true determinants: MI = 1/2 ln (det Sx det Sy / det Sxy) *)
Lemma mutual_information_det (c : cond) (p : measure) k :
  pdf_ok p -> cond_ok c -> cDx c = uD p -> (k < cR c * uR p)%N -> (cR c == 1%N) || (uR p == 1%N) ->
  (0 < \det (mxf (cDy c) (cDy c) (marg_Sigma c p k))) ->
  mutual_information false c p k
  = hln LS (\det (Sg p (jrx p k))) + hln LS (\det (mxf (cDy c) (cDy c) (marg_Sigma c p k)))
    - hln LS (\det (mxf (cDx c + cDy c) (cDx c + cDy c) (joint_Sigma c p k))).
Proof.
move=> Hp Hc HD Hk Hb _.
have [Ei Hrx Hrc] := jr_idx Hk Hb.
have [Hca [HS _ _ _] _ _] := Hp _ Hrx.
have [_ _ HhS] := co_S Hca HS.
have [_ _ _ _ Hj] := joint_args_ok Hp Hc HD Hk.
rewrite mutual_information_spec /entropy Ei HhS.
rewrite {1}/affine_marginal mk_pdf_gethS_None // {3}/affine_joint mk_pdf_gethS_Some //.
rewrite (Hj _ _ (erefl _) (erefl _)).
have -> : uD (affine_marginal c p) = cDy c by [].
have -> : uD (affine_joint c p) = (cDx c + cDy c)%N by [].
set sx := hln LS (\det (Sg _ _)); set sy := hln LS (\det (mxf (cDy c) _ _)).
set sj := hln LS (\det (mxf (cDx c + cDy c) _ _)); clearbody sx sy sj.
rewrite -HD natrD mulrDr [emb LS (_ + _)]raddfD /= mulrnDr.
exact: zmod_mi.
Qed.

(* y independent of x (M = 0) gives zero mutual information *)
Lemma mutual_information_indep (c : cond) (p : measure) k :
  pdf_ok p -> cond_ok c -> cDx c = uD p -> (k < cR c * uR p)%N -> (cR c == 1%N) || (uR p == 1%N) ->
  (forall i j, effM c (jrc p k) i j = 0) ->
  mutual_information false c p k = 0.
Proof.
move=> Hp Hc HD Hk Hb HM.
have [Ei Hrx Hrc] := jr_idx Hk Hb.
have [Hca [HS _ _ _] _ _] := Hp _ Hrx.
have [_ Hposx _] := co_S Hca HS.
have [_ _ Hposy _ _] := Hc _ Hrc.
have M0 : mxf (cDy c) (cDx c) (effM c (jrc p k)) = 0.
  by apply/matrixP => i j; rewrite !mxE HM.
have Em : mxf (cDy c) (cDy c) (marg_Sigma c p k) = cSg c (jrc p k).
  by rewrite /marg_Sigma mxf_add !mxf_mul mxf_tr M0 !mul0mx addr0.
have Ej : \det (mxf (cDx c + cDy c) (cDx c + cDy c) (joint_Sigma c p k))
          = \det (Sg p (jrx p k)) * \det (cSg c (jrc p k)).
  rewrite /joint_Sigma mxf_block Em mxf_tr mxf_tab mxf_mul M0 mul0mx trmx0 det_ublock.
  by congr (_ * _); rewrite /Sg HD.
by rewrite mutual_information_det // Em // Ej hlnM // subrr.
Qed.

End JointContract.
End C13.

(* ---- the original statement of kl_spec is false: counterexample in the executable log domain ----
   p0 has NO component (so pdf_ok p0 holds vacuously) but its arrays are read at index
   bidx 0 0 = 0; p1 is a genuine one-component density of dimension 0.  The hypotheses
   k < maxn (uR p0) (uR p1) and "equal sizes or one of them 1" hold with k = 0. *)
Section KLCounterexample.
Variable F : realFieldType.
Let LS := logS_exec F.
Notation measure := (measure LS).

Definition kl_cex_p0 : measure :=
  Measure 0 0 (fun _ => mzero) (fun _ => vzero) (fun _ => 0)
    (Some (fun _ => mzero)) (Some (fun _ => hl2p LS)) None (Some (fun _ => vzero)) (Some (fun _ => 0)) CPdf.
Definition kl_cex_p1 : measure :=
  Measure 1 0 (fun _ => mzero) (fun _ => vzero) (fun _ => 0)
    (Some (fun _ => mzero)) (Some (fun _ => 0)) None (Some (fun _ => vzero)) (Some (fun _ => 0)) CPdf.

Lemma kl_cex_ok0 : pdf_ok kl_cex_p0.
Proof. by move=> r. Qed.

Lemma kl_cex_ok1 : pdf_ok kl_cex_p1.
Proof.
move=> r _; split.
- split.
  + by rewrite /Lm /= [LHS]flatmx0 [RHS]flatmx0.
  + move=> _; split.
    * by rewrite /Sg /Lm /= [LHS]flatmx0 [RHS]flatmx0.
    * by rewrite /Sg /= det_mx00 ltr01.
    * by rewrite /Sg det_mx00 hln1.
  + by move=> _; split.
  + by move=> _; split=> //; rewrite /muv /= [LHS]flatmx0 [RHS]flatmx0.
  + move=> _; split=> //.
    by rewrite /sc mxE big_ord0 mulr0 raddf0 /= mulr0n !addr0.
- by [].
- by rewrite /nuv /= [LHS]flatmx0 [RHS]flatmx0.
- by rewrite /= oppr0.
Qed.

Lemma kl_spec_counterexample :
  ~ (forall (p0 p1 : measure) k, pdf_ok p0 -> pdf_ok p1 -> uD p0 = uD p1 ->
      (k < maxn (uR p0) (uR p1))%N -> (uR p0 == uR p1) || (uR p0 == 1%N) || (uR p1 == 1%N) ->
      let r0 := bidx (uR p0) k in let r1 := bidx (uR p1) k in
      kl_divergence p0 p1 k
      = ElnN LS (muv p0 r0) (Sg p0 r0) (muv p0 r0) (Sg p0 r0)
        - ElnN LS (muv p0 r0) (Sg p0 r0) (cvf (uD p0) (getmu p1 r1)) (mxf (uD p0) (uD p0) (getS p1 r1))).
Proof.
move=> H.
have := H kl_cex_p0 kl_cex_p1 0%N kl_cex_ok0 kl_cex_ok1 (erefl _) isT isT.
cbv zeta.
have -> : cvf (uD kl_cex_p0) (getmu kl_cex_p1 (bidx (uR kl_cex_p1) 0)) = muv kl_cex_p0 (bidx (uR kl_cex_p0) 0).
  by rewrite [LHS]flatmx0 [RHS]flatmx0.
have -> : mxf (uD kl_cex_p0) (uD kl_cex_p0) (getS kl_cex_p1 (bidx (uR kl_cex_p1) 0)) = Sg kl_cex_p0 (bidx (uR kl_cex_p0) 0).
  by rewrite [LHS]flatmx0 [RHS]flatmx0.
rewrite subrr /kl_divergence.
(* second (integer) coordinate of the executable log domain: 0 + 0 - 1 = 0 *)
by move/(congr1 (fun t : Lx F => t.1.2)).
Qed.
End KLCounterexample.
Print Assumptions set_y_R.
Print Assumptions set_y_eval.
Print Assumptions set_y_likelihood_repaired.
Print Assumptions set_y_likelihood_partial.
Print Assumptions set_y_offset.
Print Assumptions entropy_spec.
Print Assumptions kl_gen.
Print Assumptions kl_spec_partial.
Print Assumptions kl_self.
Print Assumptions kl_spec_counterexample.
Print Assumptions conditional_entropy_spec.
Print Assumptions mutual_information_spec.
Print Assumptions mutual_information_neg.
Print Assumptions mutual_information_det.
Print Assumptions mutual_information_indep.
