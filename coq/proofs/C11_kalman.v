(* C11, Kalman filtering: for EVERY number of steps the filter recursion (predict = marginal transformation,
   update = conditional transformation + conditioning) factorises the full joint density of states and observations:
   joint = evidence x filtered density at the last state x product of the backward kernels. *)
From mathcomp Require Import all_ssreflect all_fingroup all_algebra.
From mathcomp Require Import ring.
From GT Require Import Tensor DetExec LogDom MxTac MxLemmas Obj Factor Measure Pdf Cond EvalLemmas Spec
  C01_proofs PdfLemmas C04_proofs C05_proofs C06_proofs C0809_proofs C1013_proofs C11_proofs.
Set Implicit Arguments.
Unset Strict Implicit.
Unset Printing Implicit Defensive.
Import GRing.Theory Num.Theory.
Local Open Scope ring_scope.

(* the abelian-group bookkeeping of one filter step *)
Lemma kalman_alg (V : zmodType) (a t o J e E f b K q m : V) :
  b + m = t + a -> q + e = o + m -> q + J = E + f + K ->
  a + (t + o + J) = e + E + f + (b + K).
Proof.
move=> B1 B2 IH.
rewrite -[e + E + f]addrA addrACA -IH addrACA [e + q]addrC B2.
rewrite [b + J]addrC addrACA [m + b]addrC B1.
by rewrite addrACA [o + t]addrC [RHS]addrA [LHS]addrC -addrA.
Qed.

Section C11kalman.
Variable F : realFieldType.
Variable LS : logS F.
Notation mat := (mat F).
Notation vec := (vec F).
Notation measure := (measure LS).
Notation cond := (cond LS).

(* one time step of a linear-Gaussian state-space model: transition p(x_t | x_{t-1}), emission p(y_t | x_t), observed y_t *)
Record kstep := KStep { ktrans : cond; kobs : cond; ky : vec }.
(* the filter as the library user writes it: predict = affine_marginal_transformation,
   update = affine_conditional_transformation + condition_on_x *)
Definition kpred (s : kstep) (p : measure) : measure := affine_marginal (ktrans s) p.
Definition kpost (s : kstep) (p : measure) : measure := bayes_step (kobs s) (ky s) (kpred s p).
Fixpoint kfilter (ss : seq kstep) (p : measure) : measure :=
  match ss with [::] => p | s :: ss' => kfilter ss' (kpost s p) end.
(* accumulated log-evidence: sum of predictive log-densities ln p(y_t | y_1..t-1) *)
Fixpoint kevidence (ss : seq kstep) (p : measure) : LS :=
  match ss with
  | [::] => 0
  | s :: ss' => ueval (affine_marginal (kobs s) (kpred s p)) 0%N (ky s) + kevidence ss' (kpost s p)
  end.
(* backward kernels p(x_{t-1} | x_t, y_1..t-1): the conditional transformation of the transition with the current
   filtered density *)
Fixpoint kback (ss : seq kstep) (p : measure) : seq cond :=
  match ss with [::] => [::] | s :: ss' => affine_conditional (ktrans s) p :: kback ss' (kpost s p) end.
(* log-density of a conditional c at (given x, value y):  ln p(y | x) *)
Definition cdens (c : cond) (x y : vec) : LS := ueval (condition_on_x c [:: x]) 0%N y.
(* the full joint log-density of a trajectory x0, x1..xT together with the observed y's:
   ln p(x0) + sum_t [ln p(x_t|x_{t-1}) + ln p(y_t|x_t)] *)
Fixpoint kjoint_tail (ss : seq kstep) (xprev : vec) (xs : seq vec) : LS :=
  match ss, xs with
  | s :: ss', x :: xs' => cdens (ktrans s) xprev x + cdens (kobs s) x (ky s) + kjoint_tail ss' x xs'
  | _, _ => 0
  end.
Definition kjoint (ss : seq kstep) (p : measure) (x0 : vec) (xs : seq vec) : LS :=
  ueval p 0%N x0 + kjoint_tail ss x0 xs.
(* sum of the backward kernels along the trajectory: sum_t ln p(x_{t-1} | x_t, y_1..t-1) *)
Fixpoint kback_sum (bs : seq cond) (xprev : vec) (xs : seq vec) : LS :=
  match bs, xs with
  | b :: bs', x :: xs' => cdens b x xprev + kback_sum bs' x xs'
  | _, _ => 0
  end.
(* side conditions, step by step: single components, shapes fit, the matrices that get inverted are invertible *)
Fixpoint kok (ss : seq kstep) (p : measure) : Prop :=
  match ss with
  | [::] => True
  | s :: ss' => [/\ single (ktrans s) p, marg_pos (ktrans s) p, post_pos (ktrans s) p
                  & [/\ single (kobs s) (kpred s p), marg_pos (kobs s) (kpred s p), post_pos (kobs s) (kpred s p)
                      & kok ss' (kpost s p)]]
  end.
Fixpoint all_cond_ok (bs : seq cond) : Prop :=
  match bs with [::] => True | b :: bs' => cond_ok b /\ all_cond_ok bs' end.

(* unfolding lemmas (never let /= loose on the model terms) *)
Lemma kfilter_cons s ss p : kfilter (s :: ss) p = kfilter ss (kpost s p).
Proof. by []. Qed.
Lemma kevidence_cons s ss p :
  kevidence (s :: ss) p = ueval (affine_marginal (kobs s) (kpred s p)) 0%N (ky s) + kevidence ss (kpost s p).
Proof. by []. Qed.
Lemma kback_cons s ss p : kback (s :: ss) p = affine_conditional (ktrans s) p :: kback ss (kpost s p).
Proof. by []. Qed.
Lemma kjoint_tail_cons s ss xprev x xs :
  kjoint_tail (s :: ss) xprev (x :: xs)
  = cdens (ktrans s) xprev x + cdens (kobs s) x (ky s) + kjoint_tail ss x xs.
Proof. by []. Qed.
Lemma kback_sum_cons b bs xprev x xs : kback_sum (b :: bs) xprev (x :: xs) = cdens b x xprev + kback_sum bs x xs.
Proof. by []. Qed.
Lemma kok_cons s ss p :
  kok (s :: ss) p = [/\ single (ktrans s) p, marg_pos (ktrans s) p, post_pos (ktrans s) p
                  & [/\ single (kobs s) (kpred s p), marg_pos (kobs s) (kpred s p), post_pos (kobs s) (kpred s p)
                      & kok ss (kpost s p)]].
Proof. by []. Qed.

(* Bayes' rule for single components, in the cdens notation: p(x|y) p(y) = p(y|x) p(x) *)
Lemma bayes_rule_single (c : cond) (p : measure) (x y : vec) :
  single c p -> marg_pos c p -> post_pos c p ->
  cdens (affine_conditional c p) y x + ueval (affine_marginal c p) 0%N y = cdens c x y + ueval p 0%N x.
Proof.
move=> [okp okc HD HRc HRp] Hmarg Hpost.
have H0 : (0 < cR c * uR p)%N by rewrite HRc HRp.
have B := bayes_rule x y okp okc HD Hmarg Hpost H0.
by rewrite /jrc /jrx div0n mod0n !mul0n !addn0 in B.
Qed.

(* one step keeps the invariant: the updated density is a density with one component *)
Lemma kpost_ok s p : single (kobs s) (kpred s p) -> post_pos (kobs s) (kpred s p) ->
  pdf_ok (kpost s p) /\ uR (kpost s p) = 1%N.
Proof.
move=> Hs Hpost.
by have [okq Rq _ _ _] := bayes_step_natural (ky s) Hs Hpost.
Qed.

Theorem kalman_factorisation (ss : seq kstep) (p : measure) (x0 : vec) (xs : seq vec) :
  pdf_ok p -> uR p = 1%N -> kok ss p -> size xs = size ss ->
  kjoint ss p x0 xs = kevidence ss p + ueval (kfilter ss p) 0%N (last x0 xs) + kback_sum (kback ss p) x0 xs.
Proof.
elim: ss p x0 xs => [|s ss IH] p x0 [|x1 xs] okp HR //.
- by move=> _ _; rewrite /kjoint [kjoint_tail _ _ _]/= [kevidence _ _]/= [kback_sum _ _ _]/= [kfilter _ _]/= !addr0 add0r.
- rewrite kok_cons => -[Hs1 Hm1 Hp1 [Hs2 Hm2 Hp2 Hok]] [Hsz].
  have [okq Rq] := kpost_ok Hs2 Hp2.
  have B1 := bayes_rule_single x0 x1 Hs1 Hm1 Hp1.
  have B2 := bayes_rule_single x1 (ky s) Hs2 Hm2 Hp2.
  have Eq : cdens (affine_conditional (kobs s) (kpred s p)) (ky s) x1 = ueval (kpost s p) 0%N x1 by [].
  rewrite Eq {Eq} in B2.
  have := IH (kpost s p) x1 xs okq Rq Hok Hsz.
  rewrite /kjoint kjoint_tail_cons kevidence_cons kfilter_cons kback_cons kback_sum_cons [last _ (_ :: _)]/=.
  rewrite -/(kpred s p) -/(kpost s p) in B1 B2 *.
  move: B1 B2.
  move: (kjoint_tail ss x1 xs) (kevidence ss _) (ueval (kfilter ss _) _ _) (kback_sum (kback ss _) _ _).
  move: (ueval p _ _) (cdens (ktrans s) _ _) (cdens (kobs s) _ _) (cdens (affine_conditional _ _) _ _).
  move: (ueval (kpred s p) _ _) (ueval (kpost s p) _ _) (ueval (affine_marginal (kobs s) _) _ _).
  move=> m q e a t o b J E f K B1 B2 IH'.
  exact: (kalman_alg B1 B2 IH').
Qed.

(* everything the factorisation mentions is well formed *)
Theorem kalman_wellformed (ss : seq kstep) (p : measure) : pdf_ok p -> uR p = 1%N -> kok ss p ->
  pdf_ok (kfilter ss p) /\ uR (kfilter ss p) = 1%N /\ all_cond_ok (kback ss p).
Proof.
elim: ss p => [|s ss IH] p okp HR; first by [].
rewrite kok_cons => -[Hs1 Hm1 Hp1 [Hs2 Hm2 Hp2 Hok]].
have [okq Rq] := kpost_ok Hs2 Hp2.
have [okf [Rf Hb]] := IH (kpost s p) okq Rq Hok.
rewrite kfilter_cons kback_cons; split=> //; split=> //; split=> //.
have [okp' okc HD _ _] := Hs1.
by have [] := affine_conditional_ok okp' okc HD Hp1.
Qed.

(* every backward kernel, conditioned on ANY later state, is a Gaussian density whose log-integral (specification GI)
   is zero: integrating the factorisation over x_0, then x_1, ... removes the kernels one by one and leaves
   evidence x filtered density *)
Fixpoint all_kernels_normalised (bs : seq cond) : Prop :=
  match bs with
  | [::] => True
  | b :: bs' => (forall x : vec, (log_integral (condition_on_x b [:: x])).2 0%N = 0) /\ all_kernels_normalised bs'
  end.
Theorem kalman_backward_normalised (ss : seq kstep) (p : measure) : pdf_ok p -> uR p = 1%N -> kok ss p ->
  all_kernels_normalised (kback ss p).
Proof.
elim: ss p => [|s ss IH] p okp HR; first by [].
rewrite kok_cons => -[Hs1 Hm1 Hp1 [Hs2 Hm2 Hp2 Hok]].
have [okq Rq] := kpost_ok Hs2 Hp2.
rewrite kback_cons; split; last exact: IH.
have [okp' okc HD HRc HRp] := Hs1.
have [okb [Rb _]] := affine_conditional_ok okp' okc HD Hp1.
move=> x; apply: log_integral_density; first exact: condition_on_x_ok.
have -> : uR (condition_on_x (affine_conditional (ktrans s) p) [:: x]) = (cR (affine_conditional (ktrans s) p) * 1)%N by [].
by rewrite Rb HRc HRp.
Qed.

Lemma kalman_nil p x0 :
  kjoint [::] p x0 [::] = kevidence [::] p + ueval (kfilter [::] p) 0%N (last x0 [::]) + kback_sum (kback [::] p) x0 [::].
Proof. by rewrite /kjoint /= !addr0 add0r. Qed.

Lemma kok_one s p : single (ktrans s) p -> marg_pos (ktrans s) p -> post_pos (ktrans s) p ->
  single (kobs s) (kpred s p) -> marg_pos (kobs s) (kpred s p) -> post_pos (kobs s) (kpred s p) -> kok [:: s] p.
Proof. by move=> H1 H2 H3 H4 H5 H6; rewrite kok_cons; split=> //; split. Qed.

End C11kalman.
Print Assumptions kalman_factorisation.
Print Assumptions kalman_wellformed.
Print Assumptions kalman_backward_normalised.
