(* C11, observation lists: sequential updating over ANY finite list of observations. *)
From Coq Require Import Permutation.
From mathcomp Require Import all_ssreflect all_fingroup all_algebra.
From mathcomp Require Import ring.
From GT Require Import Tensor DetExec LogDom MxTac MxLemmas Obj Factor Measure Pdf Cond Moments Approx EvalLemmas Spec
  C01_proofs PdfLemmas C04_proofs C05_proofs C06_proofs C0809_proofs C1013_proofs C12_proofs C15_proofs C07_proofs C11_proofs.
Set Implicit Arguments.
Unset Strict Implicit.
Unset Printing Implicit Defensive.
Import GRing.Theory Num.Theory.
Local Open Scope ring_scope.

Section C11list.
Variable F : realFieldType.
Variable LS : logS F.
Notation mat := (mat F).
Notation vec := (vec F).
Notation measure := (measure LS).
Notation cond := (cond LS).

(* an observation: a single-component linear-Gaussian model and the observed value *)
Definition obs : Type := (cond * vec)%type.
(* sequential updating, first observation first *)
Fixpoint seq_update (os : seq obs) (p : measure) : measure :=
  match os with [::] => p | o :: os' => seq_update os' (bayes_step o.1 o.2 p) end.
(* the unnormalised product prior x prod_i lik_i (repaired normaliser), factors multiplied one by one *)
Fixpoint lik_product (os : seq obs) (u : measure) : measure :=
  match os with [::] => u | o :: os' => lik_product os' (multiply false u (set_y false o.1 [:: o.2])) end.
(* accumulated sequential predictive log-densities *)
Fixpoint seq_evidence (os : seq obs) (p : measure) : LS :=
  match os with
  | [::] => 0
  | o :: os' => ueval (affine_marginal o.1 p) 0%N o.2 + seq_evidence os' (bayes_step o.1 o.2 p)
  end.
(* what the library requires along the way: shapes fit and the matrices that get inverted are invertible *)
Fixpoint obs_ok (os : seq obs) (p : measure) : Prop :=
  match os with
  | [::] => True
  | o :: os' => [/\ single o.1 p, post_pos o.1 p, marg_pos o.1 p & obs_ok os' (bayes_step o.1 o.2 p)]
  end.

(* natural parameters after any list of updates: prior + sum of M' Lambda M and M' Lambda (y - b) *)
Lemma seq_update_natural (os : seq obs) (p : measure) : pdf_ok p -> uR p = 1%N -> obs_ok os p ->
  let q := seq_update os p in let D := uD p in
  [/\ pdf_ok q, uR q = 1%N, uD q = D,
      forall i j, (i < D)%N -> (j < D)%N ->
        uLam q 0%N i j = uLam p 0%N i j
          + \sum_(o <- os) mmul (cDy o.1) (mtr (effM o.1 0%N)) (mmul (cDy o.1) (cLam o.1 0%N) (effM o.1 0%N)) i j
    & forall i, (i < D)%N ->
        unu q 0%N i = unu p 0%N i
          + \sum_(o <- os) vmat (cDy o.1) (vsub o.2 (effb o.1 0%N)) (mmul (cDy o.1) (cLam o.1 0%N) (effM o.1 0%N)) i].
Proof.
elim: os p => [|[c y] os IH] p okp HR.
- by move=> _; split=> // [i j _ _|i _]; rewrite big_nil addr0.
- rewrite [obs_ok _ _]/= => -[Hs Hpost Hmarg Hok].
  have [okq Rq Dq Lq nq] := bayes_step_natural y Hs Hpost.
  have := IH _ okq Rq Hok; rewrite [seq_update (_ :: _) _]/=.
  move: Hok okq Rq Dq Lq nq.
  move: (bayes_step c y p) => q1 Hok okq Rq Dq Lq nq.
  move: (seq_update os q1) => q [okr Rr Dr Lr nr].
  split=> //; first by rewrite Dr Dq.
  + by move=> i j Hi Hj; rewrite big_cons Lr ?Dq // Lq // addrA.
  + by move=> i Hi; rewrite big_cons nr ?Dq // nq // addrA.
Qed.

(* sums over lists related by Coq's Permutation, in any commutative group *)
Lemma perm_sum (V : zmodType) (T : Type) (f : T -> V) (s s' : seq T) :
  Permutation s s' -> \sum_(o <- s) f o = \sum_(o <- s') f o.
Proof.
elim=> [|a l l' _ IH|a b l|l l' l'' _ IH1 _ IH2] //.
- by rewrite !big_cons IH.
- by rewrite !big_cons addrCA.
- by rewrite IH1.
Qed.

(* path independence: any permutation of the observations gives the same posterior *)
Lemma seq_update_perm (os os' : seq obs) (p : measure) (x : vec) : pdf_ok p -> uR p = 1%N ->
  Permutation os os' -> obs_ok os p -> obs_ok os' p ->
  ueval (seq_update os p) 0%N x = ueval (seq_update os' p) 0%N x.
Proof.
move=> okp HR Hperm Hok Hok'.
have [okq Rq Dq Lq nq] := seq_update_natural okp HR Hok.
have [okq' Rq' Dq' Lq' nq'] := seq_update_natural okp HR Hok'.
move: okq Rq Dq Lq nq okq' Rq' Dq' Lq' nq'.
move: (seq_update os p) (seq_update os' p) => q q' okq Rq Dq Lq nq okq' Rq' Dq' Lq' nq'.
have ED : uD q = uD q' by rewrite Dq Dq'.
have R0 : (0 < uR q)%N by rewrite Rq.
have R0' : (0 < uR q')%N by rewrite Rq'.
apply: (natural_params_determine_density x okq okq' ED R0 R0').
- move=> i j; rewrite Dq => Hi Hj; rewrite Lq // Lq' //; congr (_ + _).
  exact: (perm_sum (fun o : obs => mmul (cDy o.1) (mtr (effM o.1 0%N)) (mmul (cDy o.1) (cLam o.1 0%N) (effM o.1 0%N)) i j) Hperm).
- move=> i; rewrite Dq => Hi; rewrite nq // nq' //; congr (_ + _).
  exact: (perm_sum (fun o : obs => vmat (cDy o.1) (vsub o.2 (effb o.1 0%N)) (mmul (cDy o.1) (cLam o.1 0%N) (effM o.1 0%N)) i) Hperm).
Qed.

Lemma lik_product_cons (c : cond) (y : vec) (os : seq obs) (u : measure) :
  lik_product ((c, y) :: os) u = lik_product os (multiply false u (set_y false c [:: y])).
Proof. by []. Qed.
Lemma seq_evidence_cons (c : cond) (y : vec) (os : seq obs) (p : measure) :
  seq_evidence ((c, y) :: os) p = ueval (affine_marginal c p) 0%N y + seq_evidence os (bayes_step c y p).
Proof. by []. Qed.
Lemma obs_ok_cons (c : cond) (y : vec) (os : seq obs) (p : measure) :
  obs_ok ((c, y) :: os) p = [/\ single c p, post_pos c p, marg_pos c p & obs_ok os (bayes_step c y p)].
Proof. by []. Qed.

(* the invariant behind evidence_chain: the unnormalised product started from any measure u = q * exp(C)
   (same natural parameters as the density q, log-constant offset C) integrates to exp(C + sequential evidence) *)
Lemma lik_product_inv (os : seq obs) (u q : measure) (C : LS) :
  cache_ok u -> diag_ok u -> uR u = 1%N ->
  pdf_ok q -> uR q = 1%N -> uD u = uD q ->
  (forall i j, (i < uD q)%N -> (j < uD q)%N -> uLam u 0%N i j = uLam q 0%N i j) ->
  (forall i, (i < uD q)%N -> unu u 0%N i = unu q 0%N i) ->
  ueval u 0%N vzero = ueval q 0%N vzero + C ->
  obs_ok os q -> posdet (lik_product os u) ->
  (log_integral (lik_product os u)).2 0%N = C + seq_evidence os q.
Proof.
elim: os u q C => [|[c y] os IH] u q C Hcu Hdu Ru okq Rq ED HL Hn Ev.
- move=> _ Hp; rewrite [seq_evidence _ _]/= addr0.
  have Hp' : posdet u by [].
  apply: (logint_shift (q:=q) Hcu Hdu Hp' okq ED _ _ _ _ Ev); rewrite ?Ru ?Rq ?ED //.
- rewrite obs_ok_cons lik_product_cons seq_evidence_cons => -[Hs Hpost Hmarg Hok] Hp.
  have [_ okc HD HRc _] := Hs.
  have [okq1 Rq1 Dq1 Lq1 nq1] := bayes_step_natural y Hs Hpost.
  have HDu : cDx c = uD u by rewrite ED.
  have [Rw Dw cw Lw nw] := sety_mult false y HRc Ru.
  have [Hcw Hdw] := sety_mult_cache false y Hcu okc HDu HRc Ru.
  have Hr0 : (0 < uR u)%N by rewrite Ru.
  have Hf : (0 < fR (set_y false c [:: y]))%N by rewrite /= HRc.
  have E1 := multiply_eval false vzero (fwf_general _ _ _ _ _) (esym HDu : uD u = fD (set_y false c [:: y])) Hr0 Hf.
  rewrite mul0n addn0 Ev addrAC (prior_times_lik false y vzero Hs Hpost Hmarg) addrK -addrA in E1.
  rewrite addrA [C + _]addrC.
  move: Hok Hp okq1 Rq1 Dq1 Lq1 nq1 Rw Dw Lw nw Hcw Hdw E1.
  move: (multiply _ _ _) (bayes_step _ _ _) (ueval (affine_marginal _ _) _ _) => w q1 m.
  move=> Hok Hp okq1 Rq1 Dq1 Lq1 nq1 Rw Dw Lw nw Hcw Hdw E1.
  apply: (IH w q1 (m + C) Hcw Hdw Rw okq1 Rq1 _ _ _ E1 Hok Hp).
  + by rewrite Dw Dq1.
  + by move=> i j; rewrite Dq1 => Hi Hj; rewrite Lw ?HD // Lq1 // HL.
  + by move=> i; rewrite Dq1 => Hi; rewrite nw ?HD // nq1 // Hn.
Qed.

(* evidence: the log-integral of prior x all likelihood factors is the sum of the sequential predictive
   log-densities (the log marginal likelihood), for any number of observations *)
Lemma evidence_chain (os : seq obs) (p : measure) : pdf_ok p -> uR p = 1%N -> ~~ is_diag (ucls p) -> obs_ok os p ->
  posdet (lik_product os p) ->
  (log_integral (lik_product os p)).2 0%N = seq_evidence os p.
Proof.
move=> okp HR Hnd Hok Hp.
have Hcp : cache_ok p by move=> k Hk; exact: (po_cache (okp k Hk)).
have Hdp : diag_ok p by move=> Hd; rewrite Hd in Hnd.
rewrite -[RHS]add0r.
apply: (lik_product_inv (q:=p) Hcp Hdp HR okp HR (erefl _) _ _ _ Hok Hp) => //.
by rewrite addr0.
Qed.

(* the posdet hypothesis of evidence_chain is derivable: the precision of the product is that of the posterior *)
Lemma posdet_same (w r : measure) : uR w = 1%N -> uR r = 1%N -> uD w = uD r -> pdf_ok r ->
  (forall i j, (i < uD r)%N -> (j < uD r)%N -> uLam w 0%N i j = uLam r 0%N i j) -> posdet w.
Proof.
move=> Rw Rr ED okr HL k; rewrite Rw ltnS leqn0 => /eqP -> {k}.
have H0 : (0 < uR r)%N by rewrite Rr.
have := pdf_posdet okr H0; rewrite /Lm; clear -ED HL.
case: w ED HL => R D L n l S hS hL m z c; case: r => R' D' L' n' l' S' hS' hL' m' z' c' /= ED.
rewrite -ED {D' ED} => HL.
by have -> : mxf D D (L' 0%N) = mxf D D (L 0%N) by apply/mxfP => i j Hi Hj; rewrite HL.
Qed.

Lemma lik_product_natural (os : seq obs) (u q : measure) :
  uR u = 1%N -> pdf_ok q -> uR q = 1%N -> uD u = uD q ->
  (forall i j, (i < uD q)%N -> (j < uD q)%N -> uLam u 0%N i j = uLam q 0%N i j) ->
  obs_ok os q -> posdet (lik_product os u).
Proof.
elim: os u q => [|[c y] os IH] u q Ru okq Rq ED HL.
- by move=> _; apply: (posdet_same Ru Rq ED okq HL).
- rewrite obs_ok_cons lik_product_cons => -[Hs Hpost Hmarg Hok].
  have [_ okc HD HRc _] := Hs.
  have [okq1 Rq1 Dq1 Lq1 nq1] := bayes_step_natural y Hs Hpost.
  have [Rw Dw cw Lw nw] := sety_mult false y HRc Ru.
  move: Hok okq1 Rq1 Dq1 Lq1 Rw Dw Lw.
  move: (multiply _ _ _) (bayes_step _ _ _) => w q1 Hok okq1 Rq1 Dq1 Lq1 Rw Dw Lw.
  apply: (IH w q1 Rw okq1 Rq1 _ _ Hok).
  + by rewrite Dw Dq1.
  + by move=> i j; rewrite Dq1 => Hi Hj; rewrite Lw ?HD // Lq1 // HL.
Qed.

(* evidence_chain without the posdet side condition *)
Lemma evidence_chain_derived (os : seq obs) (p : measure) : pdf_ok p -> uR p = 1%N -> ~~ is_diag (ucls p) -> obs_ok os p ->
  (log_integral (lik_product os p)).2 0%N = seq_evidence os p.
Proof.
move=> okp HR Hnd Hok; apply: evidence_chain => //.
exact: (lik_product_natural HR okp HR (erefl _) _ Hok).
Qed.

End C11list.
Print Assumptions seq_update_natural.
Print Assumptions seq_update_perm.
Print Assumptions evidence_chain.
Print Assumptions evidence_chain_derived.
