(* C11: Bayesian updating is path independent (posterior and evidence). *)
From mathcomp Require Import all_ssreflect all_fingroup all_algebra.
From mathcomp Require Import ring.
From GT Require Import Tensor DetExec LogDom MxTac MxLemmas Obj Factor Measure Pdf Cond EvalLemmas Spec C01_proofs PdfLemmas C04_proofs C05_proofs C06_proofs C0809_proofs C1013_proofs.
Set Implicit Arguments.
Unset Strict Implicit.
Unset Printing Implicit Defensive.
Import GRing.Theory Num.Theory.
Local Open Scope ring_scope.

Section C11.
Variable F : realFieldType.
Variable LS : logS F.
Notation mat := (mat F).
Notation vec := (vec F).
Notation measure := (measure LS).
Notation cond := (cond LS).

(* one sequential update: conditional transformation, then conditioning on the observed value *)
Definition bayes_step (c : cond) (y : vec) (p : measure) : measure :=
  condition_on_x (affine_conditional c p) [:: y].
(* route b: joint transformation, then coordinate conditioning on the y block *)
Definition bayes_step_joint (c : cond) (y : vec) (p : measure) : measure :=
  condition_on_x (condition_on (iota (cDx c) (cDy c)) (affine_joint c p)) [:: y].
(* route c: prior times the likelihood factor, normalised (dxn as in Cond.set_y) *)
Definition bayes_step_factor (dxn : bool) (c : cond) (y : vec) (p : measure) : measure :=
  (get_density (multiply false p (set_y dxn c [:: y]))).2.

(* single components on both sides *)
Definition single (c : cond) (p : measure) : Prop :=
  [/\ pdf_ok p, cond_ok c, cDx c = uD p, cR c = 1%N & uR p = 1%N].

(* two densities with the same precision and information vector are the same function *)
Lemma natural_params_determine_density (p p' : measure) r (x : vec) :
  pdf_ok p -> pdf_ok p' -> uD p = uD p' -> (r < uR p)%N -> (r < uR p')%N ->
  (forall i j, (i < uD p)%N -> (j < uD p)%N -> uLam p r i j = uLam p' r i j) ->
  (forall i, (i < uD p)%N -> unu p r i = unu p' r i) ->
  ueval p r x = ueval p' r x.
Proof.
case: p => R D L n l S hS hL m z c; case: p' => R' D' L' n' l' S' hS' hL' m' z' c' /=.
move=> Hp Hp' HD; move: Hp'; rewrite -HD {D' HD} => Hp' Hr Hr' HL Hn.
rewrite (pdf_ok_eval x Hp Hr) (pdf_ok_eval x Hp' Hr').
have [[sy cS _ cmu _] [aS _ amu _] _ _] := Hp r Hr.
have [[sy' cS' _ cmu' _] [aS' _ amu' _] _ _] := Hp' r Hr'.
have [SL _ _] := cS aS. have [SL' _ _] := cS' aS'.
have [_ Em] := cmu amu. have [_ Em'] := cmu' amu'.
move: SL SL' Em Em'; rewrite /Sg /Lm /muv /nuv /= => SL SL' Em Em'.
have EL : mxf D D (L' r) = mxf D D (L r) by apply/mxfP => i j Hi Hj; rewrite HL.
have En : cvf D (n' r) = cvf D (n r) by apply/cvfP => i Hi; rewrite Hn.
rewrite EL in SL'; have ES := inv_same SL SL'.
by rewrite Em Em' En ES.
Qed.

(* the posterior's natural parameters are prior + M' Lambda_y M and prior + M' Lambda_y (y - b) *)
Lemma bayes_step_natural (c : cond) (y : vec) (p : measure) :
  single c p -> post_pos c p ->
  let q := bayes_step c y p in let D := uD p in let Dy := cDy c in
  let M := effM c 0%N in let Ly := cLam c 0%N in
  [/\ pdf_ok q, uR q = 1%N, uD q = D,
      forall i j, (i < D)%N -> (j < D)%N -> uLam q 0%N i j = uLam p 0%N i j + mmul Dy (mtr M) (mmul Dy Ly M) i j
    & forall i, (i < D)%N -> unu q 0%N i = unu p 0%N i + vmat Dy (vsub y (effb c 0%N)) (mmul Dy Ly M) i].
Proof.
move=> [okp okc HD HRc HRp] Hpost q D Dy M Ly.
have [okc' _] := affine_conditional_ok okp okc HD Hpost.
have okq : pdf_ok q by apply: condition_on_x_ok.
have H0 : (0 < cR c * uR p)%N by rewrite HRc HRp.
have j0c : jrc p 0 = 0%N by rewrite /jrc div0n.
have j0x : jrx p 0 = 0%N by rewrite /jrx mod0n.
have Hp := post_posE HD Hpost H0.
have Hrc : (0 < cR c)%N by rewrite HRc.
have Hrx : (0 < uR p)%N by rewrite HRp.
have [SLx Lxsym _ _ Hnu] := px_facts okp HD Hrx.
have [SLy Lysym _ _] := cd_facts okc Hrc.
have F1 := acond_Mm H0 Hp. have F2 := acond_Lm (c:=c) (p:=p) H0.
have F3 := acond_bv H0 Hp.
rewrite /Pxm /Mm j0c j0x in F1 F2 F3 Hp.
have ERq : uR q = 1%N.
  by have -> : uR q = (cR c * uR p * 1)%N by []; rewrite HRc HRp.
have Hq0 : (0 < uR q)%N by rewrite ERq.
have Hq0' : (0 < cR (affine_conditional c p) * size [:: y])%N by rewrite -[X in (_ < X)%N]/(uR q).
have ELq : mxf (cDx c) (cDx c) (uLam q 0) = cLm (affine_conditional c p) 0.
  by rewrite /q /bayes_step /condition_on_x mk_pdfE /= /pdf_Lam mxf_tabb.
have Emu : cvf (cDx c) (getmu q 0) = cMm (affine_conditional c p) 0 *m cvf (cDy c) y + cbv (affine_conditional c p) 0.
  rewrite -(cond_muE _ okc' H0); apply/cvfP => i Hi.
  by have [_ -> //] := mk_pdf_params (LS:=LS) false (cDx c) (fun k => cSig (affine_conditional c p) (k %/ 1))
     (fun k => cond_mu (affine_conditional c p) (k %/ 1) (nth vzero [:: y] (k %% 1)))
     (Some (fun k => cLam (affine_conditional c p) (k %/ 1))) (Some (fun k => chS (affine_conditional c p) (k %/ 1))) Hq0'.
have Hnuq : cvf (cDx c) (unu q 0) = mxf (cDx c) (cDx c) (uLam q 0) *m cvf (cDx c) (getmu q 0).
  by have [_ _ H _] := okq 0%N Hq0.
split=> //; rewrite /D -HD.
- move=> i j Hi Hj.
  suff /mxfP E : mxf (cDx c) (cDx c) (uLam q 0)
       = mxf (cDx c) (cDx c) (madd (uLam p 0) (mmul Dy (mtr M) (mmul Dy Ly M))) by exact: E.
  by rewrite ELq F2 mxf_add !mxf_mul (mxf_tr (cDx c) (cDy c) M) mulmxA.
- move=> i Hi.
  suff /cvfP E : cvf (cDx c) (unu q 0)
       = cvf (cDx c) (vadd (unu p 0) (vmat Dy (vsub y (effb c 0%N)) (mmul Dy Ly M))) by exact: E.
  rewrite Hnuq ELq Emu F1 F2 F3 cvf_add -[cvf (cDx c) (vmat _ _ _)]trmxK cvf_vmat mxf_mul cvf_sub.
  rewrite -/(cbv c 0) -/(cLm c 0) -/(cMm c 0).
  set P := _ + _ *m _ *m _ in Hp *.
  have Pu : P \in unitmx by rewrite unitmxE unitfE lt0r_neq0.
  rewrite !mulmxDr mulmxN !mulmxA (mulmxV Pu) !mul1mx.
  rewrite !trmx_mul trmxK Lysym /Dy !mulmxBr !mulmxA.
  by mx_abel.
Qed.

(* ---- helpers: the product of a single-component measure with the likelihood factor of one observation ---- *)
Lemma sety_mult dxn (c : cond) (y : vec) (u : measure) :
  cR c = 1%N -> uR u = 1%N ->
  let w := multiply false u (set_y dxn c [:: y]) in
  let Dy := cDy c in let M := effM c 0%N in let Ly := cLam c 0%N in
  [/\ uR w = 1%N, uD w = cDx c, ucls w = CMeas,
      forall i j, (i < cDx c)%N -> (j < cDx c)%N ->
        uLam w 0%N i j = uLam u 0%N i j + mmul Dy (mtr M) (mmul Dy Ly M) i j
    & forall i, (i < cDx c)%N -> unu w 0%N i = unu u 0%N i + vmat Dy (vsub y (effb c 0%N)) (mmul Dy Ly M) i].
Proof.
move=> HRc HRu; rewrite /multiply /set_y /mk_general /without_cache /= HRc HRu /=.
split=> // [i j Hi Hj|i Hi].
- by rewrite tabbE // /madd tabbE.
- by rewrite tabbvE // /vadd tabbvE.
Qed.

Lemma sety_mult_cache dxn (c : cond) (y : vec) (u : measure) :
  cache_ok u -> cond_ok c -> cDx c = uD u -> cR c = 1%N -> uR u = 1%N ->
  let w := multiply false u (set_y dxn c [:: y]) in cache_ok w /\ diag_ok w.
Proof.
move=> Hu okc HD HRc HRu w.
have [Rw Dw cw Lw nw] := sety_mult dxn y HRc HRu; rewrite -/w in Rw Dw cw Lw nw.
split; last by rewrite /diag_ok cw.
move=> r; rewrite Rw ltnS leqn0 => /eqP -> {r}.
have H0 : (0 < uR u)%N by rewrite HRu.
have Hc0 : (0 < cR c)%N by rewrite HRc.
have [sy _ _ _ _] := Hu 0%N H0.
have [_ Lysym _ _] := cd_facts okc Hc0.
have Ew : uSig w = None /\ umu w = None /\ ulnZ w = None by [].
have [E1 [E2 E3]] := Ew.
split; rewrite ?E1 ?E2 ?E3 //.
have -> : Lm w 0 = mxf (cDx c) (cDx c) (madd (uLam u 0%N) (mmul (cDy c) (mtr (effM c 0%N)) (mmul (cDy c) (cLam c 0%N) (effM c 0%N)))).
  by apply/mxfP => i j Hi Hj; rewrite Lw.
move: sy; rewrite /Lm -HD => sy.
rewrite mxf_add !mxf_mul (mxf_tr (cDx c) (cDy c) (effM c 0%N)) linearD /= sy !trmx_mul trmxK.
by rewrite -/(cLm c 0) Lysym mulmxA.
Qed.

Lemma sety_mult_posdet dxn (c : cond) (y : vec) (u : measure) :
  cDx c = uD u -> cR c = 1%N -> uR u = 1%N -> post_pos c u ->
  posdet (multiply false u (set_y dxn c [:: y])).
Proof.
move=> HD HRc HRu Hpost; set w := multiply _ _ _.
have [Rw Dw cw Lw nw] := sety_mult dxn y HRc HRu; rewrite -/w in Rw Dw cw Lw nw.
move=> r; rewrite Rw ltnS leqn0 => /eqP -> {r}.
have H0 : (0 < cR c * uR u)%N by rewrite HRc HRu.
have := post_posE HD Hpost H0; rewrite /Pxm /Mm /jrc /jrx div0n mod0n.
have -> : Lm w 0 = mxf (cDx c) (cDx c) (madd (uLam u 0%N) (mmul (cDy c) (mtr (effM c 0%N)) (mmul (cDy c) (cLam c 0%N) (effM c 0%N)))).
  by apply/mxfP => i j Hi Hj; rewrite Lw.
by rewrite mxf_add !mxf_mul (mxf_tr (cDx c) (cDy c) (effM c 0%N)) mulmxA.
Qed.

Lemma eval_core_zero D (A : mat) (n : vec) (l : LS) : eval_core D A n l vzero = l.
Proof.
rewrite /eval_core /quad /dot !sumn_eq0 ?mulr0 ?addr0 ?raddf0 ?add0r // => i _.
- by rewrite /vzero mul0r.
- by rewrite /vzero mul0r.
Qed.

Lemma pdf_posdet (p : measure) : pdf_ok p -> posdet p.
Proof.
move=> Hp r Hr; have [[_ cS _ _ _] [aS _ _ _] _ _] := Hp r Hr.
by have [SL dS _] := cS aS; have [] := inv_pos' SL dS.
Qed.

(* a measure that is a constant multiple exp(C) of a density with the same natural parameters
   integrates to exp(C) *)
Lemma logint_shift (u q : measure) r (C : LS) :
  cache_ok u -> diag_ok u -> posdet u -> pdf_ok q -> uD u = uD q -> (r < uR u)%N -> (r < uR q)%N ->
  (forall i j, (i < uD u)%N -> (j < uD u)%N -> uLam u r i j = uLam q r i j) ->
  (forall i, (i < uD u)%N -> unu u r i = unu q r i) ->
  ueval u r vzero = ueval q r vzero + C ->
  (log_integral u).2 r = C.
Proof.
move=> Hc Hd Hp Hq HD Hr Hrq HL Hn; rewrite /ueval !eval_core_zero => Hlb.
have [-> _ _ _] := log_integral_spec Hc Hd Hp Hr.
have [_ [_ _ _ aZ] _ Elb] := Hq r Hrq.
have := lnZ_lngint (fun k Hk => po_cache (Hq k Hk)) (pdf_posdet Hq) Hrq aZ.
have -> : getlnZ q r + ulb q r = 0 by rewrite Elb subrr.
rewrite Hlb /lngint /Lm /nuv; clear -HD HL Hn.
case: u HD HL Hn => R D L n l S hS hL m z c; case: q => R' D' L' n' l' S' hS' hL' m' z' c' /= HD.
rewrite -HD {D' HD} => HL Hn.
have -> : mxf D D (L' r) = mxf D D (L r) by apply/mxfP => i j Hi Hj; rewrite HL.
have -> : cvf D (n' r) = cvf D (n r) by apply/cvfP => i Hi; rewrite Hn.
move: (emb _ _) (hl2p _ *+ _) (hln _ _) => a b d /=; rewrite -!addrA => E.
by rewrite addrCA -E addr0.
Qed.

(* normalising (get_density) keeps the natural parameters *)
Lemma get_density_natural (u : measure) r : cache_ok u -> diag_ok u -> posdet u -> (r < uR u)%N ->
  let q := (get_density u).2 in
  [/\ pdf_ok q, uR q = uR u, uD q = uD u,
      forall i j, (i < uD u)%N -> (j < uD u)%N -> uLam q r i j = uLam u r i j
    & forall i, (i < uD u)%N -> unu q r i = unu u r i].
Proof.
move=> Hc Hd Hp Hr q.
have [okq _] := get_density_spec Hc Hd Hp.
have Hv := prepare_ok Hc Hd Hp.
have [Hz Hm] := prepare_some u.
have [ER ED EL En _] := prepare_core u.
rewrite -ER -ED -EL -En; rewrite -ER in Hr.
move: okq; rewrite /q /get_density.
set q' := mk_pdf _ _ _ _ _ _ _; rewrite -[(_, _).2]/q' /q'.
move: (prepare u) Hv Hz Hm Hr => v Hv Hz Hm Hr {ER ED EL En q q'} okq.
have [sy cS _ cmu _] := Hv r Hr.
have [HS Emu] := cmu Hm; have [SL _ _] := cS HS.
split=> // [i j Hi Hj|i Hi]; first by rewrite mk_pdfE /= tabbE.
suff /cvfP E : cvf (uD v) (unu (mk_pdf false (uR v) (uD v) (getS v) (getmu v) (Some (uLam v)) (Some (gethS v))) r)
               = cvf (uD v) (unu v r) by exact: E.
rewrite mk_pdfE /= /pdf_nu cvf_tabbv // -[LHS]trmxK cvf_vmat cvf_tabbv // /pdf_Lam mxf_tabb //.
rewrite -/(muv v r) -/(Lm v r) -/(nuv v r) trmx_mul trmxK sy Emu mulmxA (mulmx1C SL) mul1mx.
by [].
Qed.

(* the ascending complement of the trailing block is the leading block *)
Lemma complement_iota (a b : nat) : complement (a + b) (iota a b) = iota 0 a.
Proof.
rewrite /complement iotaD add0n filter_cat.
have -> : [seq i <- iota 0 a | i \notin iota a b] = iota 0 a.
  apply/all_filterP/allP => i; rewrite !mem_iota add0n /= => Hi.
  by rewrite negb_and -ltnNge Hi.
have -> : [seq i <- iota a b | i \notin iota a b] = [::].
  by rewrite -(filter_pred0 (iota a b)); apply: eq_in_filter => i Hi /=; rewrite Hi.
by rewrite cats0.
Qed.

(* natural parameters of a single-component coordinate conditional evaluated at a point: only the
   precision and the mean of the conditioned object are read *)
Lemma cond_explicit_natural (dy dx : seq nat) (J : measure) (yv : vec) :
  let nx := size dx in let ny := size dy in
  let cb := condition_on_explicit dy dx J in let qb := condition_on_x cb [:: yv] in
  let L := uLam J 0%N in let mu := getmu J 0%N in
  uR J = 1%N -> (mxf nx nx (msub2 dx dx L))^T = mxf nx nx (msub2 dx dx L) ->
  0 < \det (mxf nx nx (msub2 dx dx L)) ->
  [/\ pdf_ok qb, uR qb = 1%N, uD qb = nx,
      forall i j, (i < nx)%N -> (j < nx)%N -> uLam qb 0%N i j = msub2 dx dx L i j
    & forall i, (i < nx)%N -> unu qb 0%N i
        = vsub (mvec nx (msub2 dx dx L) (vsel dx mu)) (mvec ny (msub2 dx dy L) (vsub yv (vsel dy mu))) i].
Proof.
move=> nx ny cb qb L mu HR Lsym Ld.
have H0 : (0 < uR J)%N by rewrite HR.
have Pu : mxf nx nx (msub2 dx dx L) \in unitmx by rewrite unitmxE unitfE lt0r_neq0.
have okc : cond_ok cb.
  move=> r; rewrite -[cR cb]/(uR J) HR ltnS leqn0 => /eqP ->.
  split.
  - by rewrite ce_cSg // ce_cLm // mulVmx.
  - by rewrite ce_cLm.
  - by rewrite ce_cSg // matrix.det_inv invr_gt0.
  - by rewrite ce_chS // ce_cSg.
  - by [].
have okq : pdf_ok qb by apply: condition_on_x_ok.
have ERq : uR qb = 1%N by rewrite -[uR qb]/(uR J * 1)%N HR.
have Hq0 : (0 < uR qb)%N by rewrite ERq.
have Hq0' : (0 < cR cb * size [:: yv])%N by rewrite -[X in (_ < X)%N]/(uR qb).
have Hc0 : (0 < cR cb)%N by [].
have ELq : mxf nx nx (uLam qb 0) = cLm cb 0.
  by rewrite /qb /condition_on_x mk_pdfE /= /pdf_Lam mxf_tabb.
have Emu : cvf nx (getmu qb 0) = cMm cb 0 *m cvf ny yv + cbv cb 0.
  rewrite -(cond_muE _ okc Hc0); apply/cvfP => i Hi.
  by have [_ -> //] := mk_pdf_params (LS:=LS) false nx (fun k => cSig cb (k %/ 1))
     (fun k => cond_mu cb (k %/ 1) (nth vzero [:: yv] (k %% 1)))
     (Some (fun k => cLam cb (k %/ 1))) (Some (fun k => chS cb (k %/ 1))) Hq0'.
have Hnuq : cvf nx (unu qb 0) = mxf nx nx (uLam qb 0) *m cvf nx (getmu qb 0).
  by have [_ _ H _] := okq 0%N Hq0.
split=> //.
- move=> i j Hi Hj.
  suff /mxfP E : mxf nx nx (uLam qb 0) = mxf nx nx (msub2 dx dx L) by exact: E.
  by rewrite ELq ce_cLm.
- move=> i Hi.
  suff /cvfP E : cvf nx (unu qb 0)
       = cvf nx (vsub (mvec nx (msub2 dx dx L) (vsel dx mu)) (mvec ny (msub2 dx dy L) (vsub yv (vsel dy mu))))
    by exact: E.
  rewrite Hnuq ELq Emu ce_cLm // ce_cbv // ce_cMm // cvf_sub !cvf_mvec cvf_sub.
  rewrite -/L -/mu -/nx -/ny.
  set A := mxf nx nx _ in Pu *; set B := mxf nx ny _.
  rewrite !(mulmxDr, mulmxBr, mulmxN, mulNmx) !mulmxA (mulmxV Pu) !mul1mx.
  by mx_abel.
Qed.

(* (a) = (b) = (c): the three routes give the same posterior density; route (c) with either normaliser
   variant, because normalisation removes the constant *)
Lemma routes_agree dxn (c : cond) (y : vec) (p : measure) (x : vec) :
  single c p -> post_pos c p -> marg_pos c p -> ~~ is_diag (ucls p) ->
  ueval (bayes_step_joint c y p) 0%N x = ueval (bayes_step c y p) 0%N x
  /\ ueval (bayes_step_factor dxn c y p) 0%N x = ueval (bayes_step c y p) 0%N x.
Proof.
move=> Hs Hpost Hmarg _; have [okp okc HD HRc HRp] := Hs.
have [okq Rq Dq Lq nq] := bayes_step_natural y Hs Hpost.
have Rq0 : (0 < uR (bayes_step c y p))%N by rewrite Rq.
have H0 : (0 < cR c * uR p)%N by rewrite HRc HRp.
have j0c : jrc p 0 = 0%N by rewrite /jrc div0n.
have j0x : jrx p 0 = 0%N by rewrite /jrx mod0n.
have Hrc : (0 < cR c)%N by rewrite HRc.
have Hrx : (0 < uR p)%N by rewrite HRp.
split.
- (* route (b) *)
  rewrite /bayes_step_joint /condition_on.
  have -> : complement (uD (affine_joint c p)) (iota (cDx c) (cDy c)) = iota 0 (cDx c) by exact: complement_iota.
  have RJ : uR (affine_joint c p) = 1%N by rewrite -[uR _]/(cR c * uR p)%N HRc HRp.
  have Hp := post_posE HD Hpost H0.
  have [SLx Lxsym _ _ Hnu] := px_facts okp HD Hrx.
  have [SLy Lysym _ _] := cd_facts okc Hrc.
  (* blocks of the joint precision and mean that the conditioning reads *)
  have ELaa : mxf (cDx c) (cDx c) (msub2 (iota 0 (cDx c)) (iota 0 (cDx c)) (uLam (affine_joint c p) 0)) = Pxm c p 0.
    transitivity (mxf (cDx c) (cDx c) (madd (uLam p 0%N)
        (mmul (cDy c) (mtr (effM c 0%N)) (tabm (cDy c) (cDx c) (mmul (cDy c) (cLam c 0%N) (effM c 0%N)))))).
      apply/mxfP => i j Hi Hj; rewrite /msub2 !nth_iota // !add0n /affine_joint mk_pdfE /= tabbE ?ltn_addr //.
      by rewrite /joint_Lambda /mblock Hi Hj j0c j0x.
    by rewrite mxf_add mxf_mul (mxf_tr (cDx c) (cDy c) (effM c 0%N)) mxf_tab mxf_mul /Pxm /Mm j0c j0x mulmxA.
  have ELab : mxf (cDx c) (cDy c) (msub2 (iota 0 (cDx c)) (iota (cDx c) (cDy c)) (uLam (affine_joint c p) 0))
              = - (cLm c 0 *m cMm c 0)^T.
    transitivity (mxf (cDx c) (cDy c) (mtr (mopp (tabm (cDy c) (cDx c) (mmul (cDy c) (cLam c 0%N) (effM c 0%N)))))).
      apply/mxfP => i j Hi Hj; rewrite /msub2 !nth_iota // !add0n /affine_joint mk_pdfE /= tabbE ?ltn_add2l ?ltn_addr //.
      by rewrite /joint_Lambda /mblock Hi ltnNge leq_addr /= addKn j0c.
    by rewrite (mxf_tr (cDx c) (cDy c) (mopp (tabm (cDy c) (cDx c) (mmul (cDy c) (cLam c 0%N) (effM c 0%N))))) mxf_opp mxf_tab mxf_mul linearN.
  have Emua : cvf (cDx c) (vsel (iota 0 (cDx c)) (getmu (affine_joint c p) 0)) = cvf (cDx c) (getmu p 0).
    apply/cvfP => i Hi; rewrite /vsel nth_iota // add0n /affine_joint mk_pdfE /getmu /= tabbvE ?ltn_addr //.
    by rewrite /vcat Hi j0x.
  have Emub : cvf (cDy c) (vsel (iota (cDx c) (cDy c)) (getmu (affine_joint c p) 0))
              = cMm c 0 *m cvf (cDx c) (getmu p 0) + cbv c 0.
    rewrite -(cond_muE _ okc Hrc); apply/cvfP => i Hi.
    by rewrite (joint_ytail H0 Hi) j0c j0x.
  have := @cond_explicit_natural (iota (cDx c) (cDy c)) (iota 0 (cDx c)) (affine_joint c p) y RJ.
  cbv zeta; rewrite !size_iota ELaa.
  have Psym : (Pxm c p 0)^T = Pxm c p 0.
    by rewrite /Pxm /Mm j0c j0x linearD /= !trmx_mul trmxK Lxsym Lysym mulmxA.
  move=> /(_ Psym Hp) [okb Rb Db Lb nb].
  have Rb0 : (0 < uR (condition_on_x (condition_on_explicit (iota (cDx c) (cDy c)) (iota 0 (cDx c)) (affine_joint c p)) [:: y]))%N
    by rewrite Rb.
  move: okq Rq0 Dq Lq nq okb Rb0 Db Lb nb ELaa ELab Emua Emub.
  move: (condition_on_x _ _) (bayes_step _ _ _) => qb q.
  move: (msub2 _ (iota 0 _) _) (msub2 _ (iota (cDx c) _) _) (vsel (iota 0 _) _) (vsel (iota (cDx c) _) _) => Aa Ab ma mb.
  move=> okq Rq0 Dq Lq nq okb Rb0 Db Lb nb ELaa ELab Emua Emub.
  have ED : uD qb = uD q by rewrite Db Dq.
  apply: (natural_params_determine_density x okb okq ED Rb0 Rq0).
  + move=> i j; rewrite Db => Hi Hj.
    have Hi' : (i < uD p)%N by rewrite -HD.
    have Hj' : (j < uD p)%N by rewrite -HD.
    rewrite (Lb i j Hi Hj) (Lq i j Hi' Hj').
    suff /mxfP E : mxf (cDx c) (cDx c) Aa = mxf (cDx c) (cDx c)
        (madd (uLam p 0%N) (mmul (cDy c) (mtr (effM c 0%N)) (mmul (cDy c) (cLam c 0%N) (effM c 0%N)))) by exact: E.
    by rewrite ELaa mxf_add !mxf_mul (mxf_tr (cDx c) (cDy c) (effM c 0%N)) /Pxm /Mm j0c j0x mulmxA.
  + move=> i; rewrite Db => Hi.
    have Hi' : (i < uD p)%N by rewrite -HD.
    rewrite (nb i Hi) (nq i Hi').
    suff /cvfP E : cvf (cDx c) (vsub (mvec (cDx c) Aa ma) (mvec (cDy c) Ab (vsub y mb)))
       = cvf (cDx c) (vadd (unu p 0%N) (vmat (cDy c) (vsub y (effb c 0%N)) (mmul (cDy c) (cLam c 0%N) (effM c 0%N))))
      by exact: E.
    rewrite cvf_sub !cvf_mvec cvf_sub ELaa ELab Emua Emub.
    rewrite cvf_add -[cvf (cDx c) (vmat _ _ _)]trmxK cvf_vmat mxf_mul cvf_sub Hnu.
    rewrite -/(cbv c 0) -/(cLm c 0) -/(cMm c 0) /Pxm /Mm j0c j0x -/(cMm c 0).
    rewrite !trmx_mul trmxK Lysym.
    rewrite !(mulmxDl, mulmxDr, mulmxBr, mulmxBl, mulmxN, mulNmx, opprD, opprK) !mulmxA.
    by mx_abel.
- (* route (c) *)
  rewrite /bayes_step_factor.
  have [Rw Dw cw Lw nw] := sety_mult dxn y HRc HRp.
  have Hcp : cache_ok p by move=> k Hk; exact: (po_cache (okp k Hk)).
  have [Hcw Hdw] := sety_mult_cache dxn y Hcp okc HD HRc HRp.
  have Hpw := sety_mult_posdet (dxn:=dxn) (y:=y) HD HRc HRp Hpost.
  have Hw0 : (0 < uR (multiply false p (set_y dxn c [:: y])))%N by rewrite Rw.
  have [okf Rf Df Lf nf] := get_density_natural Hcw Hdw Hpw Hw0.
  move: okq Rq0 Dq Lq nq Rw Dw Lw nw okf Rf Df Lf nf.
  move: (get_density _).2 (bayes_step _ _ _) => qc q.
  move: (multiply _ _ _) => w okq Rq0 Dq Lq nq Rw Dw Lw nw okf Rf Df Lf nf.
  have ED : uD qc = uD q by rewrite Df Dw Dq.
  have Rf0 : (0 < uR qc)%N by rewrite Rf Rw.
  apply: (natural_params_determine_density x okf okq ED Rf0 Rq0).
  + move=> i j; rewrite Df Dw => Hi Hj.
    have Hi' : (i < uD p)%N by rewrite -HD.
    have Hj' : (j < uD p)%N by rewrite -HD.
    have Hi2 : (i < uD w)%N by rewrite Dw.
    have Hj2 : (j < uD w)%N by rewrite Dw.
    by rewrite (Lf i j Hi2 Hj2) (Lw i j Hi Hj) (Lq i j Hi' Hj').
  + move=> i; rewrite Df Dw => Hi.
    have Hi' : (i < uD p)%N by rewrite -HD.
    have Hi2 : (i < uD w)%N by rewrite Dw.
    by rewrite (nf i Hi2) (nw i Hi) (nq i Hi').
Qed.

(* updating in either order gives the same posterior *)
Lemma posterior_order_independent (c1 c2 : cond) (y1 y2 : vec) (p : measure) (x : vec) :
  single c1 p -> single c2 p -> post_pos c1 p -> post_pos c2 p ->
  post_pos c2 (bayes_step c1 y1 p) -> post_pos c1 (bayes_step c2 y2 p) ->
  ueval (bayes_step c2 y2 (bayes_step c1 y1 p)) 0%N x = ueval (bayes_step c1 y1 (bayes_step c2 y2 p)) 0%N x.
Proof.
move=> S1 S2 P1 P2 P21 P12.
have [okq1 Rq1 Dq1 Lq1 nq1] := bayes_step_natural y1 S1 P1.
have [okq2 Rq2 Dq2 Lq2 nq2] := bayes_step_natural y2 S2 P2.
have [okp okc1 HD1 HRc1 HRp] := S1; have [_ okc2 HD2 HRc2 _] := S2.
have S21 : single c2 (bayes_step c1 y1 p) by split=> //; rewrite Dq1.
have S12 : single c1 (bayes_step c2 y2 p) by split=> //; rewrite Dq2.
have [okq21 Rq21 Dq21 Lq21 nq21] := bayes_step_natural y2 S21 P21.
have [okq12 Rq12 Dq12 Lq12 nq12] := bayes_step_natural y1 S12 P12.
move: okq21 Rq21 Dq21 Lq21 nq21 okq12 Rq12 Dq12 Lq12 nq12 Dq1 Lq1 nq1 Dq2 Lq2 nq2.
move: (bayes_step c2 y2 (bayes_step c1 y1 p)) (bayes_step c1 y1 (bayes_step c2 y2 p)) => q21 q12.
move: (bayes_step c1 y1 p) (bayes_step c2 y2 p) => q1 q2.
move=> okq21 Rq21 Dq21 Lq21 nq21 okq12 Rq12 Dq12 Lq12 nq12 Dq1 Lq1 nq1 Dq2 Lq2 nq2.
have ED : uD q21 = uD q12 by rewrite Dq21 Dq12 Dq1 Dq2.
have R21 : (0 < uR q21)%N by rewrite Rq21.
have R12 : (0 < uR q12)%N by rewrite Rq12.
apply: (natural_params_determine_density x okq21 okq12 ED R21 R12).
- move=> i j; rewrite Dq21 Dq1 => Hi Hj.
  have Hi1 : (i < uD q1)%N by rewrite Dq1.
  have Hj1 : (j < uD q1)%N by rewrite Dq1.
  have Hi2 : (i < uD q2)%N by rewrite Dq2.
  have Hj2 : (j < uD q2)%N by rewrite Dq2.
  by rewrite (Lq21 i j Hi1 Hj1) (Lq12 i j Hi2 Hj2) (Lq1 i j Hi Hj) (Lq2 i j Hi Hj) addrAC.
- move=> i; rewrite Dq21 Dq1 => Hi.
  have Hi1 : (i < uD q1)%N by rewrite Dq1.
  have Hi2 : (i < uD q2)%N by rewrite Dq2.
  by rewrite (nq21 i Hi1) (nq12 i Hi2) (nq1 i Hi) (nq2 i Hi) addrAC.
Qed.

(* a density integrates to one: its reported log-integral is zero *)
Lemma log_integral_density (p : measure) r : pdf_ok p -> (r < uR p)%N -> (log_integral p).2 r = 0.
Proof.
move=> Hp Hr; have [_ [_ _ amu aZ] _ Hlb] := Hp r Hr.
rewrite /log_integral /prepare /=.
case: (ulnZ p) aZ => [z|] // _; case: (umu p) amu => [m|] // _.
by rewrite Hlb subrr.
Qed.

(* prior times likelihood factor = posterior times predictive density (times the normaliser offset) *)
Lemma prior_times_lik dxn (c : cond) (y : vec) (p : measure) (x : vec) :
  single c p -> post_pos c p -> marg_pos c p ->
  ueval p 0%N x + feval (set_y dxn c [:: y]) 0%N x
  = ueval (bayes_step c y p) 0%N x
    + (ueval (affine_marginal c p) 0%N y + hl2p LS *+ (cDy c) - hl2p LS *+ (if dxn then cDx c else cDy c)).
Proof.
move=> [okp okc HD HRc HRp] Hpost Hmarg.
have H0 : (0 < cR c * uR p)%N by rewrite HRc HRp.
have Hrc : (0 < cR c)%N by rewrite HRc.
have Hb : (cR c == 1%N) || (size [:: y] == cR c) by rewrite HRc.
rewrite (set_y_eval dxn x okc Hb (ltn0Sn 0)).
have B := bayes_rule x y okp okc HD Hmarg Hpost H0.
rewrite /jrc /jrx div0n mod0n !mul0n !addn0 in B.
have E := condition_on_x_eval (xs:=[:: x]) (n:=0) y okc Hrc (ltn0Sn 0).
rewrite mul0n addn0 [nth _ _ _]/= in E; rewrite E in B.
have -> : bidx (cR c) 0 = 0%N by rewrite /bidx; case: ifP.
rewrite /bayes_step [nth _ _ _]/=; move: B.
set a := ueval p _ _; set l := lnN _ _ _ _; set b := ueval (condition_on_x _ _) _ _.
set m := ueval (affine_marginal _ _) _ _.
move: a l b m (hl2p _ *+ (if dxn then _ else _)) (hl2p _ *+ _) => a l b m h2 h1 B.
by rewrite !addrA B [a + l]addrC.
Qed.

(* evidence of one observation: log-integral of prior times (repaired) likelihood = predictive log-density;
   with the code's normaliser (dxn = true) it is off by (Dy - Dx) * 1/2 ln 2pi *)
Lemma evidence_one_step dxn (c : cond) (y : vec) (p : measure) :
  single c p -> post_pos c p -> marg_pos c p -> ~~ is_diag (ucls p) ->
  (log_integral (multiply false p (set_y dxn c [:: y]))).2 0%N
  = ueval (affine_marginal c p) 0%N y + hl2p LS *+ (cDy c) - hl2p LS *+ (if dxn then cDx c else cDy c).
Proof.
move=> Hs Hpost Hmarg _; have [okp okc HD HRc HRp] := Hs.
have [okq Rq Dq Lq nq] := bayes_step_natural y Hs Hpost.
have [Rw Dw cw Lw nw] := sety_mult dxn y HRc HRp.
have Hcp : cache_ok p by move=> k Hk; exact: (po_cache (okp k Hk)).
have [Hcw Hdw] := sety_mult_cache dxn y Hcp okc HD HRc HRp.
have Hpw := sety_mult_posdet (dxn:=dxn) (y:=y) HD HRc HRp Hpost.
have Hrx : (0 < uR p)%N by rewrite HRp.
have Hf : (0 < fR (set_y dxn c [:: y]))%N by rewrite /= HRc.
have := multiply_eval false vzero (fwf_general _ _ _ _ _) (esym HD : uD p = fD (set_y dxn c [:: y])) Hrx Hf.
rewrite mul0n addn0 (prior_times_lik dxn y vzero Hs Hpost Hmarg).
move: Rq Dq Lq nq Rw Dw Lw nw Hcw Hdw Hpw okq.
move: (multiply _ _ _) (bayes_step _ _ _) => w q Rq Dq Lq nq Rw Dw Lw nw Hcw Hdw Hpw okq Ev.
apply: (logint_shift (q:=q) Hcw Hdw Hpw okq _ _ _ _ _ Ev).
- by rewrite Dw Dq.
- by rewrite Rw.
- by rewrite Rq.
- by move=> i j; rewrite Dw => Hi Hj; rewrite Lw // Lq // -HD.
- by move=> i; rewrite Dw => Hi; rewrite nw // nq // -HD.
Qed.

(* chain: the unnormalised product after the first observation is the posterior times the evidence, so the
   log-evidence of two observations is the sum of the sequential predictive log-densities *)
Lemma evidence_chain2 (c1 c2 : cond) (y1 y2 : vec) (p : measure) :
  single c1 p -> single c2 p -> post_pos c1 p -> marg_pos c1 p -> ~~ is_diag (ucls p) ->
  post_pos c2 (bayes_step c1 y1 p) -> marg_pos c2 (bayes_step c1 y1 p) ->
  posdet (multiply false (multiply false p (set_y false c1 [:: y1])) (set_y false c2 [:: y2])) ->
  (log_integral (multiply false (multiply false p (set_y false c1 [:: y1])) (set_y false c2 [:: y2]))).2 0%N
  = ueval (affine_marginal c1 p) 0%N y1 + ueval (affine_marginal c2 (bayes_step c1 y1 p)) 0%N y2.
Proof.
move=> S1 S2 P1 M1 _ P21 M21 Hpw2.
have [okp okc1 HD1 HRc1 HRp] := S1; have [_ okc2 HD2 HRc2 _] := S2.
have [okq1 Rq1 Dq1 Lq1 nq1] := bayes_step_natural y1 S1 P1.
have S21 : single c2 (bayes_step c1 y1 p) by split=> //; rewrite Dq1.
have [okq2 Rq2 Dq2 Lq2 nq2] := bayes_step_natural y2 S21 P21.
have [Rw1 Dw1 cw1 Lw1 nw1] := sety_mult false y1 HRc1 HRp.
have Hcp : cache_ok p by move=> k Hk; exact: (po_cache (okp k Hk)).
have [Hcw1 Hdw1] := sety_mult_cache false y1 Hcp okc1 HD1 HRc1 HRp.
have HD21 : cDx c2 = cDx c1 by rewrite HD2 HD1.
have HD2' : cDx c2 = uD (multiply false p (set_y false c1 [:: y1])) by rewrite Dw1.
have [Rw2 Dw2 cw2 Lw2 nw2] := sety_mult false y2 HRc2 Rw1.
have [Hcw2 Hdw2] := sety_mult_cache false y2 Hcw1 okc2 HD2' HRc2 Rw1.
have Hrx : (0 < uR p)%N by rewrite HRp.
have Hf1 : (0 < fR (set_y false c1 [:: y1]))%N by rewrite /= HRc1.
have Hf2 : (0 < fR (set_y false c2 [:: y2]))%N by rewrite /= HRc2.
have Hr1 : (0 < uR (multiply false p (set_y false c1 [:: y1])))%N by rewrite Rw1.
have E1 := multiply_eval false vzero (fwf_general _ _ _ _ _) (esym HD1 : uD p = fD (set_y false c1 [:: y1])) Hrx Hf1.
have E2 := multiply_eval false vzero (fwf_general _ _ _ _ _)
             (esym HD2' : uD (multiply false p (set_y false c1 [:: y1])) = fD (set_y false c2 [:: y2])) Hr1 Hf2.
rewrite mul0n addn0 in E1; rewrite mul0n addn0 E1 (prior_times_lik false y1 vzero S1 P1 M1) addrK in E2.
rewrite addrAC (prior_times_lik false y2 vzero S21 P21 M21) addrK -addrA in E2.
move: Rq1 Dq1 Lq1 nq1 Rq2 Dq2 Lq2 nq2 okq2 Rw1 Dw1 Lw1 nw1 Rw2 Dw2 Lw2 nw2 Hcw2 Hdw2 Hpw2 E2.
move: (multiply false (multiply _ _ _) _) (bayes_step c2 _ _) (ueval (affine_marginal c2 _) _ _) => w2 q2 C2.
move: (multiply _ _ _) (bayes_step _ _ _) (ueval (affine_marginal _ _) _ _) => w1 q1 C1.
move=> Rq1 Dq1 Lq1 nq1 Rq2 Dq2 Lq2 nq2 okq2 Rw1 Dw1 Lw1 nw1 Rw2 Dw2 Lw2 nw2 Hcw2 Hdw2 Hpw2 E2.
rewrite [C1 + C2]addrC.
apply: (logint_shift (q:=q2) Hcw2 Hdw2 Hpw2 okq2 _ _ _ _ _ E2).
- by rewrite Dw2 Dq2 Dq1.
- by rewrite Rw2.
- by rewrite Rq2.
- move=> i j; rewrite Dw2 => Hi Hj.
  have Hi1 : (i < cDx c1)%N by rewrite -HD21.
  have Hj1 : (j < cDx c1)%N by rewrite -HD21.
  have Hip : (i < uD p)%N by rewrite -HD2.
  have Hjp : (j < uD p)%N by rewrite -HD2.
  have Hiq : (i < uD q1)%N by rewrite Dq1.
  have Hjq : (j < uD q1)%N by rewrite Dq1.
  by rewrite (Lw2 i j Hi Hj) (Lw1 i j Hi1 Hj1) (Lq2 i j Hiq Hjq) (Lq1 i j Hip Hjp).
- move=> i; rewrite Dw2 => Hi.
  have Hi1 : (i < cDx c1)%N by rewrite -HD21.
  have Hip : (i < uD p)%N by rewrite -HD2.
  have Hiq : (i < uD q1)%N by rewrite Dq1.
  by rewrite (nw2 i Hi) (nw1 i Hi1) (nq2 i Hiq) (nq1 i Hip).
Qed.

End C11.
Print Assumptions natural_params_determine_density.
Print Assumptions bayes_step_natural.
Print Assumptions routes_agree.
Print Assumptions posterior_order_independent.
Print Assumptions log_integral_density.
Print Assumptions evidence_one_step.
Print Assumptions evidence_chain2.
