(* C12 for the CONDITIONAL transformation: slicing commutes with affine_conditional (batch on the conditional,
   batch on p_x), and the batched round trip of C09 stated slice-wise. *)
From mathcomp Require Import all_ssreflect all_fingroup all_algebra.
From mathcomp Require Import ring.
From GT Require Import Tensor DetExec LogDom MxTac MxLemmas Obj Factor Measure Pdf Cond Moments Approx EvalLemmas Spec
  C01_proofs PdfLemmas C04_proofs C05_proofs C06_proofs C0809_proofs C1013_proofs C12_proofs C15_proofs C07_proofs
  Extra_proofs.
Set Implicit Arguments.
Unset Strict Implicit.
Unset Printing Implicit Defensive.
Import GRing.Theory Num.Theory.
Local Open Scope ring_scope.

Section C12cond.
Variables (F : realFieldType) (LS : logS F).
Notation mat := (mat F).
Notation vec := (vec F).
Notation measure := (measure LS).
Notation cond := (cond LS).

(* ---- the posterior conditional p(x|y), observed through its density, as lnN of MathComp matrices built from
   the views of the selected components of p(y|x) and p(x) ---- *)
Lemma acond_lnN (c : cond) (p : measure) k (y x : vec) :
  pdf_ok p -> cond_ok c -> cDx c = uD p -> post_pos c p -> (k < cR c * uR p)%N ->
  ueval (condition_on_x (affine_conditional c p) [:: y]) (k * 1 + 0) x
  = lnN LS (invmx (Pxm c p k) *m ((Mm c p k)^T *m cLm c (jrc p k)) *m cvf (cDy c) y
            + (- (invmx (Pxm c p k) *m ((Mm c p k)^T *m cLm c (jrc p k)) *m cbv c (jrc p k))
               + invmx (Pxm c p k) *m cvf (cDx c) (unu p (jrx p k))))
        (invmx (Pxm c p k)) (cvf (cDx c) x).
Proof.
move=> okp okc HD Hpost Hk.
have Hp := post_posE HD Hpost Hk.
have [okc' _] := affine_conditional_ok okp okc HD Hpost.
have Hk' : (k < cR (affine_conditional c p))%N := Hk.
rewrite (condition_on_x_eval (xs:=[:: y]) (n:=0) x okc' Hk') //.
by rewrite acond_Mm // acond_bv // acond_Sg.
Qed.

(* the precision view of a sliced conditional *)
Lemma cslice_Lm idx (c : cond) k : (k < size idx)%N -> cLm (cslice idx c) k = cLm c (sel (cR c) idx k).
Proof. by move=> Hk; have [_ [_ HL _]] := cslice_fields c Hk; apply/mxfP. Qed.

(* the posterior precision Lambda_x + M' Lambda_y M of a component of the sliced conditional *)
Lemma Pxm_slice_cond idx (c : cond) (p : measure) k : uR p = 1%N -> (k < size idx)%N ->
  Pxm (cslice idx c) p k = Pxm c p (sel (cR c) idx k).
Proof.
move=> HR Hk.
have [Ec Ex] := jr_px1 k HR; have [Ec' Ex'] := jr_px1 (sel (cR c) idx k) HR.
have [EM _ _] := cslice_views c Hk.
have EL := cslice_Lm c Hk.
by rewrite /Pxm /Mm Ec Ex Ec' Ex' -!/(cMm _ _) EM EL.
Qed.

Lemma cslice_post_pos idx (c : cond) (p : measure) :
  cDx c = uD p -> uR p = 1%N -> post_pos c p -> idx_ok (cR c) idx -> post_pos (cslice idx c) p.
Proof.
move=> HD HR Hpost Hidx k; rewrite cslice_R HR muln1 => Hk.
have Hs : (sel (cR c) idx k < cR c * uR p)%N by rewrite HR muln1; apply: Hidx.
have := post_posE HD Hpost Hs; rewrite -(Pxm_slice_cond c HR Hk).
by rewrite /Pxm /Mm /cLm /Lm -HD.
Qed.

(* (1) batch on the conditional, p_x single *)
Lemma slice_conditional_cond idx (c : cond) (p : measure) k (y x : vec) :
  pdf_ok p -> cond_ok c -> cDx c = uD p -> uR p = 1%N -> post_pos c p -> idx_ok (cR c) idx -> (k < size idx)%N ->
  ueval (condition_on_x (affine_conditional (cslice idx c) p) [:: y]) (k * 1 + 0) x
  = ueval (condition_on_x (affine_conditional c p) [:: y]) (sel (cR c) idx k * 1 + 0) x.
Proof.
move=> Hp Hc HD HR Hpost Hidx Hk.
have Hc' := cslice_ok Hc Hidx.
have Hpost' := cslice_post_pos HD HR Hpost Hidx.
have Hk1 : (k < cR (cslice idx c) * uR p)%N by rewrite cslice_R HR muln1.
have Hs1 : (sel (cR c) idx k < cR c * uR p)%N by rewrite HR muln1; apply: Hidx.
have HD' : cDx (cslice idx c) = uD p := HD.
rewrite (acond_lnN y x Hp Hc' HD' Hpost' Hk1) (acond_lnN y x Hp Hc HD Hpost Hs1).
rewrite (Pxm_slice_cond c HR Hk).
have [Ec Ex] := jr_px1 k HR; have [Ec' Ex'] := jr_px1 (sel (cR c) idx k) HR.
have [EM Eb ES] := cslice_views c Hk.
have EL := cslice_Lm c Hk.
by rewrite /Mm Ec Ex Ec' Ex' -!/(cMm _ _) EM EL Eb.
Qed.

(* precision matrix and nu vector (Lambda, nu) of a sliced density are those of the selected component *)
Lemma uslice_nat_views idx (c : cond) (p : measure) k :
  pdf_ok p -> is_pdf (ucls p) -> cDx c = uD p -> idx_ok (uR p) idx -> (k < size idx)%N ->
  mxf (cDx c) (cDx c) (uLam (uslice idx p) k) = mxf (cDx c) (cDx c) (uLam p (sel (uR p) idx k))
  /\ cvf (cDx c) (unu (uslice idx p) k) = cvf (cDx c) (unu p (sel (uR p) idx k)).
Proof.
move=> Hp Hcl HD Hidx Hk.
have Hp' := uslice_pdf_ok Hp Hcl (idx_ok_all Hidx).
have HD' : cDx c = uD (uslice idx p) by rewrite uslice_D.
have Hk' : (k < uR (uslice idx p))%N by rewrite uslice_R.
have [SL' _ _ _ Hnu'] := px_facts Hp' HD' Hk'.
have [SL _ _ _ Hnu] := px_facts Hp HD (Hidx _ Hk).
have [Em ES] := uslice_views Hcl HD Hk.
have EL : mxf (cDx c) (cDx c) (uLam (uslice idx p) k) = mxf (cDx c) (cDx c) (uLam p (sel (uR p) idx k)).
  rewrite ES in SL'.
  by rewrite (inv_unique (mulmx1C SL')) (inv_unique (mulmx1C SL)).
by split=> //; rewrite Hnu' Hnu EL Em.
Qed.

Lemma Pxm_slice_px idx (c : cond) (p : measure) k :
  pdf_ok p -> is_pdf (ucls p) -> cDx c = uD p -> idx_ok (uR p) idx -> (k < size idx)%N ->
  Pxm c (uslice idx p) k = Pxm c p (sel (uR p) idx k).
Proof.
move=> Hp Hcl HD Hidx Hk.
have Hk' : (k < uR (uslice idx p))%N by rewrite uslice_R.
have [Ec Ex] := jr_small Hk'; have [Ec' Ex'] := jr_small (Hidx _ Hk).
have [EL _] := uslice_nat_views Hp Hcl HD Hidx Hk.
by rewrite /Pxm /Mm Ec Ex Ec' Ex' EL.
Qed.

Lemma uslice_post_pos idx (c : cond) (p : measure) :
  pdf_ok p -> is_pdf (ucls p) -> cDx c = uD p -> cR c = 1%N -> post_pos c p -> idx_ok (uR p) idx ->
  post_pos c (uslice idx p).
Proof.
move=> Hp Hcl HD HR Hpost Hidx k; rewrite uslice_R HR mul1n => Hk.
have Hs : (sel (uR p) idx k < cR c * uR p)%N by rewrite HR mul1n; apply: Hidx.
have HD' : cDx c = uD (uslice idx p) by rewrite uslice_D.
have := post_posE HD Hpost Hs; rewrite -(Pxm_slice_px Hp Hcl HD Hidx Hk).
by rewrite /Pxm /Mm /cLm /Lm -HD'.
Qed.

(* (2) batch on p_x, the conditional single *)
Lemma slice_conditional_px idx (c : cond) (p : measure) k (y x : vec) :
  pdf_ok p -> is_pdf (ucls p) -> cond_ok c -> cDx c = uD p -> cR c = 1%N -> post_pos c p -> idx_ok (uR p) idx ->
  (k < size idx)%N ->
  ueval (condition_on_x (affine_conditional c (uslice idx p)) [:: y]) (k * 1 + 0) x
  = ueval (condition_on_x (affine_conditional c p) [:: y]) (sel (uR p) idx k * 1 + 0) x.
Proof.
move=> Hp Hcl Hc HD HR Hpost Hidx Hk.
have Hp' := uslice_pdf_ok Hp Hcl (idx_ok_all Hidx).
have Hpost' := uslice_post_pos Hp Hcl HD HR Hpost Hidx.
have HD' : cDx c = uD (uslice idx p) by rewrite uslice_D.
have Hk' : (k < uR (uslice idx p))%N by rewrite uslice_R.
have Hk1 : (k < cR c * uR (uslice idx p))%N by rewrite HR mul1n.
have Hs1 : (sel (uR p) idx k < cR c * uR p)%N by rewrite HR mul1n; apply: Hidx.
rewrite (acond_lnN y x Hp' Hc HD' Hpost' Hk1) (acond_lnN y x Hp Hc HD Hpost Hs1).
rewrite (Pxm_slice_px Hp Hcl HD Hidx Hk).
have [Ec Ex] := jr_small Hk'; have [Ec' Ex'] := jr_small (Hidx _ Hk).
have [_ En] := uslice_nat_views Hp Hcl HD Hidx Hk.
by rewrite /Mm Ec Ex Ec' Ex' En.
Qed.

(* component-wise form of (1) and (2): the views of the posterior conditional of the sliced object at k are the
   views of the full posterior conditional at the selected component *)
Lemma slice_conditional_cond_views idx (c : cond) (p : measure) k :
  cDx c = uD p -> uR p = 1%N -> post_pos c p -> idx_ok (cR c) idx -> (k < size idx)%N ->
  let a' := affine_conditional (cslice idx c) p in let a := affine_conditional c p in
  let s := sel (cR c) idx k in
  [/\ cMm a' k = cMm a s, cbv a' k = cbv a s, cSg a' k = cSg a s, cLm a' k = cLm a s & chS a' k = chS a s].
Proof.
move=> HD HR Hpost Hidx Hk a' a s; rewrite /a' /a /s {a' a s}.
have Hpost' := cslice_post_pos HD HR Hpost Hidx.
have Hk1 : (k < cR (cslice idx c) * uR p)%N by rewrite cslice_R HR muln1.
have Hs1 : (sel (cR c) idx k < cR c * uR p)%N by rewrite HR muln1; apply: Hidx.
have HD' : cDx (cslice idx c) = uD p := HD.
have Hp := post_posE HD Hpost Hs1. have Hp' := post_posE HD' Hpost' Hk1.
have EP := Pxm_slice_cond c HR Hk.
have [Ec Ex] := jr_px1 k HR; have [Ec' Ex'] := jr_px1 (sel (cR c) idx k) HR.
have [EM Eb ES] := cslice_views c Hk.
have EL := cslice_Lm c Hk.
split.
- by rewrite (acond_Mm Hk1 Hp') (acond_Mm Hs1 Hp) EP /Mm Ec Ec' -!/(cMm _ _) EM EL.
- by rewrite (acond_bv Hk1 Hp') (acond_bv Hs1 Hp) EP /Mm Ec Ex Ec' Ex' -!/(cMm _ _) EM EL Eb.
- by rewrite (acond_Sg Hk1 Hp') (acond_Sg Hs1 Hp) EP.
- by rewrite (acond_Lm Hk1) (acond_Lm Hs1) EP.
- by rewrite (acond_hS Hk1) (acond_hS Hs1) EP.
Qed.

Lemma slice_conditional_px_views idx (c : cond) (p : measure) k :
  pdf_ok p -> is_pdf (ucls p) -> cDx c = uD p -> cR c = 1%N -> post_pos c p -> idx_ok (uR p) idx ->
  (k < size idx)%N ->
  let a' := affine_conditional c (uslice idx p) in let a := affine_conditional c p in
  let s := sel (uR p) idx k in
  [/\ cMm a' k = cMm a s, cbv a' k = cbv a s, cSg a' k = cSg a s, cLm a' k = cLm a s & chS a' k = chS a s].
Proof.
move=> okp Hcl HD HR Hpost Hidx Hk a' a s; rewrite /a' /a /s {a' a s}.
have Hpost' := uslice_post_pos okp Hcl HD HR Hpost Hidx.
have HD' : cDx c = uD (uslice idx p) by rewrite uslice_D.
have Hk' : (k < uR (uslice idx p))%N by rewrite uslice_R.
have Hk1 : (k < cR c * uR (uslice idx p))%N by rewrite HR mul1n.
have Hs1 : (sel (uR p) idx k < cR c * uR p)%N by rewrite HR mul1n; apply: Hidx.
have Hp := post_posE HD Hpost Hs1. have Hp' := post_posE HD' Hpost' Hk1.
have EP := Pxm_slice_px okp Hcl HD Hidx Hk.
have [Ec Ex] := jr_small Hk'; have [Ec' Ex'] := jr_small (Hidx _ Hk).
have [_ En] := uslice_nat_views okp Hcl HD Hidx Hk.
split.
- by rewrite (acond_Mm Hk1 Hp') (acond_Mm Hs1 Hp) EP /Mm Ec Ec'.
- by rewrite (acond_bv Hk1 Hp') (acond_bv Hs1 Hp) EP /Mm Ec Ex Ec' Ex' En.
- by rewrite (acond_Sg Hk1 Hp') (acond_Sg Hs1 Hp) EP.
- by rewrite (acond_Lm Hk1) (acond_Lm Hs1) EP.
- by rewrite (acond_hS Hk1) (acond_hS Hs1) EP.
Qed.

(* ---- (3) batched invertibility, slice-wise.  After one conditional transformation the result has
   cR c * uR p conditionals and p(y) has as many components, which is not a supported layout for a second
   transformation; component k of the posterior and component k of p(y) are therefore transformed back as single
   components: this recovers M, b, Sigma of component jrc p k of p(y|x) and mean / covariance of component
   jrx p k of p(x).  No restriction on the layout (cR c, uR p) is needed for the slice-wise statement. ---- *)
Lemma sel1 R k : sel R [:: Posz k] 0 = k.
Proof. by []. Qed.
Lemma idx_ok1 R k : (k < R)%N -> idx_ok R [:: Posz k].
Proof. by move=> Hk [|k0] //= _; rewrite sel1. Qed.

Lemma cond_transform_involutive_batched (c : cond) (p : measure) k :
  pdf_ok p -> cond_ok c -> cDx c = uD p -> ~~ cident (ccl c) -> marg_pos c p -> post_pos c p ->
  (k < cR c * uR p)%N ->
  let ck := cslice [:: Posz k] (affine_conditional c p) in
  let qk := uslice [:: Posz k] (affine_marginal c p) in
  let back := affine_conditional ck qk in
  let pback := affine_marginal ck qk in
  [/\ mxf (cDy c) (cDx c) (cM back 0%N) = mxf (cDy c) (cDx c) (cM c (jrc p k)),
      cvf (cDy c) (cb back 0%N) = cvf (cDy c) (cb c (jrc p k)),
      mxf (cDy c) (cDy c) (cSig back 0%N) = cSg c (jrc p k),
      cvf (uD p) (getmu pback 0%N) = muv p (jrx p k)
    & mxf (uD p) (uD p) (getS pback 0%N) = Sg p (jrx p k)].
Proof.
move=> okp okc HD Hnid Hmarg Hpost Hk.
set c' := affine_conditional c p; set q := affine_marginal c p => ck qk back pback.
have [Hrc Hrx] := jr_bounds Hk.
have [SLx Lxsym Sxpos _ Hnu] := px_facts okp HD Hrx.
have [SLy Lysym Sypos _] := cd_facts okc Hrc.
have Hp := post_posE HD Hpost Hk.
have [okc' _] := affine_conditional_ok okp okc HD Hpost.
have okq := affine_marginal_ok okp okc HD Hmarg.
have F1 := acond_Mm Hk Hp. have F2 := acond_Lm (c:=c) (p:=p) Hk.
have F3 := acond_bv Hk Hp. have F4 := acond_Sg Hk Hp.
rewrite /Pxm /Mm -/c' in F1 F2 F3 F4 Hp.
(* the two slices *)
have Hkc' : (k < cR c')%N := Hk.
have Hkq : (k < uR q)%N := Hk.
have Hidxc := idx_ok1 Hkc'.
have Hidxq := idx_ok1 Hkq.
have H00 : (0 < size [:: Posz k])%N by [].
have okck : cond_ok ck := cslice_ok okc' Hidxc.
have Hclq : is_pdf (ucls q) by [].
have okqk : pdf_ok qk := uslice_pdf_ok okq Hclq (idx_ok_all Hidxq).
have [EMk Ebk ESk] := cslice_views c' H00.
have ELk := cslice_Lm c' H00.
rewrite sel1 -/ck in EMk Ebk ESk ELk.
have HDq : cDx c' = uD q by [].
have HDqk : cDx c' = uD qk by rewrite uslice_D.
have H0qk : (0 < uR qk)%N by rewrite uslice_R.
have [SLq Lqsym Sqpos Sqsym Hnuq] := px_facts (c:=c') okqk HDqk H0qk.
have [Emk ESqk] := uslice_views (c:=c') Hclq HDq H00.
rewrite sel1 -/qk in Emk ESqk.
have ESq : mxf (cDx c') (cDx c') (getS qk 0) = SyM c p k.
  rewrite ESqk; apply/mxfP => i j Hi Hj.
  by have [-> //] := mk_pdf_params (LS:=LS) false (cDy c) (marg_Sigma c p)
     (fun k => cond_mu c (jrc p k) (getmu p (jrx p k))) None None Hk.
rewrite ESq in SLq Sqpos Sqsym.
have ELq : mxf (cDx c') (cDx c') (uLam qk 0) = invmx (SyM c p k).
  by apply: inv_unique; apply: mulmx1C.
have Emuq : cvf (cDx c') (getmu qk 0) = cMm c (jrc p k) *m cvf (cDx c) (getmu p (jrx p k)) + cbv c (jrc p k).
  rewrite Emk -(cond_muE _ okc Hrc); apply/cvfP => i Hi.
  by have [_ -> //] := mk_pdf_params (LS:=LS) false (cDy c) (marg_Sigma c p)
     (fun k => cond_mu c (jrc p k) (getmu p (jrx p k))) None None Hk.
have ET := marg_SigmaE k HD.
have j0cq : jrc qk 0 = 0%N by rewrite /jrc div0n.
have j0xq : jrx qk 0 = 0%N by rewrite /jrx mod0n.
have EP' : Pxm ck qk 0 = cLm c (jrc p k).
  rewrite /Pxm /Mm j0cq j0xq -/(cMm ck 0) EMk ELk F1 F2 ELq ET; exact: back_prec.
have Lypos : 0 < \det (cLm c (jrc p k)).
  by have H := MxLemmas.det_inv SLy; rewrite -(pmulr_rgt0 _ Sypos) H ltr01.
have Hp' : 0 < \det (Pxm ck qk 0) by rewrite EP'.
have H0b : (0 < cR ck * uR qk)%N by rewrite cslice_R uslice_R.
have H0ck : (0 < cR ck)%N by [].
have ESy : invmx (cLm c (jrc p k)) = cSg c (jrc p k) by rewrite -(inv_unique SLy).
have EM : mxf (cDy c) (cDx c) (cM c (jrc p k)) = cMm c (jrc p k) by rewrite /cMm /effM (negbTE Hnid).
have Eb : cvf (cDy c) (cb c (jrc p k)) = cbv c (jrc p k) by rewrite /cbv /effb (negbTE Hnid).
have G1 := acond_Mm H0b Hp'. have G3 := acond_bv H0b Hp'. have G4 := acond_Sg H0b Hp'.
rewrite EP' /Mm j0cq j0xq -/(cMm ck 0) EMk ELk Ebk F1 F2 ESy in G1 G3 G4.
have E1 : cMm back 0 = cMm c (jrc p k) by rewrite G1; exact: back_M.
rewrite -G1 E1 in G3.
split.
- by rewrite EM -[LHS]/(cMm back 0).
- rewrite Eb -[LHS]/(cbv back 0) G3.
  rewrite Hnuq ELq Emuq F3 Hnu ET; exact: back_b.
- by rewrite -[LHS]/(cSg back 0) G4.
- rewrite /muv -HD.
  have -> : cvf (cDx c) (getmu pback 0) = cvf (cDy ck) (cond_mu ck (jrc qk 0) (getmu qk (jrx qk 0))).
    apply/cvfP => i Hi.
    by have [_ -> //] := mk_pdf_params (LS:=LS) false (cDy ck) (marg_Sigma ck qk)
      (fun k => cond_mu ck (jrc qk k) (getmu qk (jrx qk k))) None None H0b.
  rewrite j0cq j0xq (cond_muE _ okck H0ck) EMk Ebk F1 F3 Emuq Hnu; exact: back_mu.
- rewrite /Sg -HD.
  have -> : mxf (cDx c) (cDx c) (getS pback 0) = SyM ck qk 0.
    apply/mxfP => i j Hi Hj.
    by have [-> //] := mk_pdf_params (LS:=LS) false (cDy ck) (marg_Sigma ck qk)
      (fun k => cond_mu ck (jrc qk k) (getmu qk (jrx qk k))) None None H0b.
  have HDck : cDx ck = uD qk := HDqk.
  rewrite (marg_SigmaE 0 HDck) j0cq j0xq -/(cMm ck 0) ESk EMk F4 F1 ESq ET; exact: back_S.
Qed.

(* the two supported batched layouts as corollaries: (1, n) and (n, 1) *)
Lemma cond_transform_involutive_batched_px (c : cond) (p : measure) k :
  pdf_ok p -> cond_ok c -> cDx c = uD p -> cR c = 1%N -> ~~ cident (ccl c) -> marg_pos c p -> post_pos c p ->
  (k < uR p)%N ->
  let ck := cslice [:: Posz k] (affine_conditional c p) in
  let qk := uslice [:: Posz k] (affine_marginal c p) in
  let back := affine_conditional ck qk in
  let pback := affine_marginal ck qk in
  [/\ mxf (cDy c) (cDx c) (cM back 0%N) = mxf (cDy c) (cDx c) (cM c 0%N),
      cvf (cDy c) (cb back 0%N) = cvf (cDy c) (cb c 0%N),
      mxf (cDy c) (cDy c) (cSig back 0%N) = cSg c 0%N,
      cvf (uD p) (getmu pback 0%N) = muv p k
    & mxf (uD p) (uD p) (getS pback 0%N) = Sg p k].
Proof.
move=> okp okc HD HR Hnid Hmarg Hpost Hk.
have Hk1 : (k < cR c * uR p)%N by rewrite HR mul1n.
have [Ec Ex] := jr_small Hk.
by have := cond_transform_involutive_batched okp okc HD Hnid Hmarg Hpost Hk1; rewrite Ec Ex.
Qed.

Lemma cond_transform_involutive_batched_cond (c : cond) (p : measure) k :
  pdf_ok p -> cond_ok c -> cDx c = uD p -> uR p = 1%N -> ~~ cident (ccl c) -> marg_pos c p -> post_pos c p ->
  (k < cR c)%N ->
  let ck := cslice [:: Posz k] (affine_conditional c p) in
  let qk := uslice [:: Posz k] (affine_marginal c p) in
  let back := affine_conditional ck qk in
  let pback := affine_marginal ck qk in
  [/\ mxf (cDy c) (cDx c) (cM back 0%N) = mxf (cDy c) (cDx c) (cM c k),
      cvf (cDy c) (cb back 0%N) = cvf (cDy c) (cb c k),
      mxf (cDy c) (cDy c) (cSig back 0%N) = cSg c k,
      cvf (uD p) (getmu pback 0%N) = muv p 0%N
    & mxf (uD p) (uD p) (getS pback 0%N) = Sg p 0%N].
Proof.
move=> okp okc HD HR Hnid Hmarg Hpost Hk.
have Hk1 : (k < cR c * uR p)%N by rewrite HR muln1.
have [Ec Ex] := jr_px1 k HR.
by have := cond_transform_involutive_batched okp okc HD Hnid Hmarg Hpost Hk1; rewrite Ec Ex.
Qed.

End C12cond.
Print Assumptions slice_conditional_cond.
Print Assumptions slice_conditional_px.
Print Assumptions cond_transform_involutive_batched.
Print Assumptions slice_conditional_cond_views.
Print Assumptions slice_conditional_px_views.
Print Assumptions cond_transform_involutive_batched_px.
Print Assumptions cond_transform_involutive_batched_cond.
