(* C12: batches are independent components; slicing commutes with every operation. *)
From mathcomp Require Import all_ssreflect all_fingroup all_algebra.
From mathcomp Require Import ring.
From GT Require Import Tensor DetExec LogDom MxTac MxLemmas Obj Factor Measure Pdf Cond Moments EvalLemmas Spec C01_proofs PdfLemmas C04_proofs C05_proofs C06_proofs C0809_proofs C1013_proofs.
Set Implicit Arguments.
Unset Strict Implicit.
Unset Printing Implicit Defensive.
Import GRing.Theory Num.Theory.
Local Open Scope ring_scope.

Section C12.
Variable F : realFieldType.
Variable LS : logS F.
Notation mat := (mat F).
Notation vec := (vec F).
Notation measure := (measure LS).
Notation cond := (cond LS).
Notation factor := (factor LS).

(* the component addressed by entry k of an index array (jnp.take: negative entries wrap) *)
Definition sel (R : nat) (idx : seq int) (k : nat) : nat := nidx R (nth 0 idx k).
Definition idx_ok (R : nat) (idx : seq int) : Prop := forall k, (k < size idx)%N -> (sel R idx k < R)%N.

Lemma nidx_nonneg R (n : nat) : nidx R (Posz n) = n.
Proof. by []. Qed.
Lemma nidx_neg R (n : nat) : (n < R)%N -> nidx R (Negz n) = (R - n.+1)%N /\ (nidx R (Negz n) < R)%N.
Proof.
move=> Hn; split=> //=.
by rewrite ltn_subrL /= (leq_ltn_trans _ Hn).
Qed.

Lemma idx_ok_all R idx : idx_ok R idx -> all (fun i => (nidx R i < R)%N) idx.
Proof. by move=> H; apply/(all_nthP 0) => k Hk; apply: H. Qed.

(* the rank-one relation at one component (what mk_onerank establishes): Lambda_s = g_s v_s v_s' *)
Definition fwf1_at (f : factor) (s : nat) : Prop :=
  match fk f with
  | KOneRank v g => forall i j, (i < fD f)%N -> (j < fD f)%N -> fLam f s i j = v s i * (g s * v s j)
  | _ => True
  end.
Lemma fwf1_fwf1_at (f : factor) s : fwf1 f -> (s < fR f)%N -> fwf1_at f s.
Proof. by rewrite /fwf1 /fwf1_at; case: (fk f) => // v g H Hs i j Hi Hj; apply: H. Qed.

Lemma fslice_R idx (f : factor) : fR (fslice idx f) = size idx.
Proof. by rewrite /fslice; case: (fk f). Qed.
Lemma fslice_D idx (f : factor) : fD (fslice idx f) = fD f.
Proof. by rewrite /fslice; case: (fk f). Qed.
Lemma fslice_wf idx (f : factor) : fwf (fslice idx f).
Proof. by rewrite /fslice /fwf; case: (fk f). Qed.

(* slicing selects components: repeated and negative indices included *)
(* ORIGINAL STATEMENT (false for the rank-one kind, see fslice_eval_false below and the report):
Lemma fslice_eval idx (f : factor) k (x : vec) : fwf f -> (k < size idx)%N ->
  feval (fslice idx f) k x = feval f (sel (fR f) idx k) x /\ fR (fslice idx f) = size idx.
   fwf is vacuous for KOneRank, but the slice of a rank-one factor REBUILDS Lambda from the stored (v, g).
   Added hypothesis: the stored Lambda of the addressed component is g v v' (fwf1_at; it follows from
   C04's fwf1 and the index bound, and is trivially True for the three other kinds). *)
Lemma fslice_eval_partial idx (f : factor) k (x : vec) : fwf f -> fwf1_at f (sel (fR f) idx k) -> (k < size idx)%N ->
  feval (fslice idx f) k x = feval f (sel (fR f) idx k) x /\ fR (fslice idx f) = size idx.
Proof.
move=> Hwf H1 Hk; split; last exact: fslice_R.
move: Hwf H1; rewrite /fslice /fwf /fwf1_at /feval /sel.
case: (fk f) => [|v g||] /= Hwf H1; rewrite tablE //; apply: eval_core_ext => [i j Hi Hj|i Hi];
  rewrite ?tabbE ?tabbvE //.
- by rewrite /outer /vscale !tabbvE // tabvE // H1.
- by rewrite Hwf.
- by case: Hwf => ->.
- by case: Hwf => _ ->.
Qed.

Lemma uslice_R idx (u : measure) : uR (uslice idx u) = size idx.
Proof. by rewrite /uslice; case: (is_pdf _). Qed.
Lemma uslice_D idx (u : measure) : uD (uslice idx u) = uD u.
Proof. by rewrite /uslice; case: (is_pdf _). Qed.

Lemma uslice_eval idx (u : measure) k (x : vec) : ~~ is_pdf (ucls u) -> (k < size idx)%N ->
  ueval (uslice idx u) k x = ueval u (sel (uR u) idx k) x /\ uR (uslice idx u) = size idx.
Proof.
move=> /negbTE Hn Hk; split; last exact: uslice_R.
by rewrite /uslice Hn ueval_tab.
Qed.

Lemma uslice_pdf_eval idx (p : measure) k (x : vec) : is_pdf (ucls p) -> pdf_ok p -> idx_ok (uR p) idx ->
  (k < size idx)%N ->
  ueval (uslice idx p) k x = ueval p (sel (uR p) idx k) x /\ uR (uslice idx p) = size idx.
Proof.
move=> Hc Hp Hidx Hk; split; last exact: uslice_R.
rewrite (pdf_ok_eval x Hp (Hidx _ Hk)) /uslice Hc mk_pdf_eval //.
move=> r Hr /=.
have [[sy cS cld cmu cz] [HS _ _ _] _ _] := Hp _ (Hidx _ Hr).
have [SL dS EhS] := cS HS.
split=> //.
- exact: (inv_sym SL sy).
- by move=> L [<-].
- by move=> L h [_] [<-].
Qed.

Lemma cslice_fields idx (c : cond) k : (k < size idx)%N ->
  let s := sel (cR c) idx k in let c' := cslice idx c in
  [/\ cR c' = size idx, cDy c' = cDy c, cDx c' = cDx c,
      (forall i j, (i < cDy c)%N -> (j < cDx c)%N -> effM c' k i j = effM c s i j)
    & (forall i, (i < cDy c)%N -> effb c' k i = effb c s i)]
  /\ [/\ (forall i j, (i < cDy c)%N -> (j < cDy c)%N -> cSig c' k i j = cSig c s i j),
         (forall i j, (i < cDy c)%N -> (j < cDy c)%N -> cLam c' k i j = cLam c s i j) & chS c' k = chS c s].
Proof.
move=> Hk /=; split; split=> //.
- by move=> i j Hi Hj; rewrite /effM /cslice /=; case: (ccl c) => /=; rewrite ?tabbE.
- by move=> i Hi; rewrite /effb /cslice /=; case: (ccl c) => /=; rewrite ?tabbvE.
- by move=> i j Hi Hj; rewrite /cslice /= tabbE.
- by move=> i j Hi Hj; rewrite /cslice /= tabbE.
- by rewrite /cslice /= tablE.
Qed.

(* products: layout i*R2+j; slicing either operand selects the corresponding rows / columns of the grid *)
Lemma slice_multiply_measure upd idx (u : measure) (f : factor) k j (x : vec) :
  fwf f -> uD u = fD f -> ~~ is_pdf (ucls u) -> idx_ok (uR u) idx -> (k < size idx)%N -> (j < fR f)%N ->
  ueval (multiply upd (uslice idx u) f) (k * fR f + j) x
  = ueval (multiply upd u f) (sel (uR u) idx k * fR f + j) x.
Proof.
move=> Hwf HD Hn Hidx Hk Hj.
rewrite !multiply_eval ?uslice_D ?uslice_R //; last exact: Hidx.
by have [-> _] := uslice_eval x Hn Hk.
Qed.

(* ORIGINAL STATEMENT (false for rank-one factors, see slice_multiply_factor_false below; added hypothesis: fwf1 f):
Lemma slice_multiply_factor upd idx (u : measure) (f : factor) i k (x : vec) :
  fwf f -> uD u = fD f -> idx_ok (fR f) idx -> (i < uR u)%N -> (k < size idx)%N ->
  ueval (multiply upd u (fslice idx f)) (i * size idx + k) x
  = ueval (multiply upd u f) (i * fR f + sel (fR f) idx k) x. *)
Lemma slice_multiply_factor_partial upd idx (u : measure) (f : factor) i k (x : vec) :
  fwf f -> fwf1 f -> uD u = fD f -> idx_ok (fR f) idx -> (i < uR u)%N -> (k < size idx)%N ->
  ueval (multiply upd u (fslice idx f)) (i * size idx + k) x
  = ueval (multiply upd u f) (i * fR f + sel (fR f) idx k) x.
Proof.
move=> Hwf H1 HD Hidx Hi Hk.
have Hs := Hidx _ Hk.
rewrite -{1}(fslice_R idx f) !multiply_eval ?fslice_D ?fslice_R //; last exact: fslice_wf.
by have [-> _] := fslice_eval_partial x Hwf (fwf1_fwf1_at H1 Hs) Hk.
Qed.

Lemma bidx_id R k : (k < R)%N -> bidx R k = k.
Proof. by rewrite /bidx; case: eqP => // ->; case: k. Qed.

(* ORIGINAL STATEMENT (false for rank-one factors, see slice_hadamard_false below; added hypothesis: fwf1 f):
Lemma slice_hadamard upd idx (u : measure) (f : factor) k (x : vec) :
  fwf f -> uD u = fD f -> ~~ is_pdf (ucls u) -> uR u = fR f -> idx_ok (uR u) idx -> (k < size idx)%N ->
  ueval (hadamard upd (uslice idx u) (fslice idx f)) k x = ueval (hadamard upd u f) (sel (uR u) idx k) x. *)
Lemma slice_hadamard_partial upd idx (u : measure) (f : factor) k (x : vec) :
  fwf f -> fwf1 f -> uD u = fD f -> ~~ is_pdf (ucls u) -> uR u = fR f -> idx_ok (uR u) idx -> (k < size idx)%N ->
  ueval (hadamard upd (uslice idx u) (fslice idx f)) k x = ueval (hadamard upd u f) (sel (uR u) idx k) x.
Proof.
move=> Hwf H1 HD Hn HR Hidx Hk.
have Hs := Hidx _ Hk.
rewrite !hadamard_eval ?uslice_D ?uslice_R ?fslice_D ?fslice_R -?HR ?maxnn //; last exact: fslice_wf.
rewrite !bidx_id //.
have [-> _] := uslice_eval x Hn Hk.
have [] := @fslice_eval_partial idx f k x Hwf _ Hk; first by apply: fwf1_fwf1_at => //; rewrite -HR.
by rewrite -HR => ->.
Qed.

Lemma cslice_R idx (c : cond) : cR (cslice idx c) = size idx.
Proof. by []. Qed.

Lemma cslice_ok idx (c : cond) : cond_ok c -> idx_ok (cR c) idx -> cond_ok (cslice idx c).
Proof.
move=> Hc Hidx k; rewrite cslice_R => Hk.
have [[_ _ _ HM Hb] [HS HL Hh]] := cslice_fields c Hk.
have [Hinv Hsym Hpos Hhld Hid] := Hc _ (Hidx _ Hk).
have ES : cSg (cslice idx c) k = cSg c (sel (cR c) idx k) by apply/mxfP.
have EL : cLm (cslice idx c) k = cLm c (sel (cR c) idx k) by apply/mxfP.
split; rewrite ?ES ?EL ?Hh //.
by rewrite /cslice /=; move: Hid; case: (ccl c).
Qed.

(* conditioning on N points: layout r*N+n *)
Lemma slice_condition_on_x idx (c : cond) (xs : seq vec) k n (y : vec) :
  cond_ok c -> idx_ok (cR c) idx -> (k < size idx)%N -> (n < size xs)%N ->
  ueval (condition_on_x (cslice idx c) xs) (k * size xs + n) y
  = ueval (condition_on_x c xs) (sel (cR c) idx k * size xs + n) y.
Proof.
move=> Hc Hidx Hk Hn.
have Hc' := cslice_ok Hc Hidx.
rewrite (condition_on_x_eval y Hc' _ Hn) ?cslice_R //.
rewrite (condition_on_x_eval y Hc (Hidx _ Hk) Hn).
have [[_ _ _ HM Hb] [HS HL Hh]] := cslice_fields c Hk.
have -> : cSg (cslice idx c) k = cSg c (sel (cR c) idx k) by apply/mxfP.
have -> : cMm (cslice idx c) k = cMm c (sel (cR c) idx k) by apply/mxfP.
have -> : cbv (cslice idx c) k = cbv c (sel (cR c) idx k) by apply/cvfP.
by [].
Qed.

(* update(idx, d) replaces exactly the addressed components (distinct indices) *)
Lemma pdf_update_spec idx (p d : measure) r (x : vec) :
  uniq [seq nidx (uR p) i | i <- idx] -> uD d = uD p -> (r < uR p)%N ->
  ueval (pdf_update idx p d) r x
  = (if (index r [seq nidx (uR p) i | i <- idx] < size idx)%N
     then ueval d (index r [seq nidx (uR p) i | i <- idx]) x else ueval p r x).
Proof.
move=> _ HD _; rewrite /pdf_update /ueval /upd_at /= HD.
by case: (_ < _)%N.
Qed.

(* the moments are determined by the natural parameters: two consistent components with the same
   (Lambda, nu) have the same mean, covariance and lnZ *)
Lemma moments_unique (v v' : measure) r r' :
  cache_ok_at v r -> cache_ok_at v' r' -> uD v' = uD v ->
  (forall i j, (i < uD v)%N -> (j < uD v)%N -> uLam v' r' i j = uLam v r i j) ->
  (forall i, (i < uD v)%N -> unu v' r' i = unu v r i) ->
  umu v -> ulnZ v -> umu v' -> ulnZ v' ->
  [/\ forall i, (i < uD v)%N -> getmu v' r' i = getmu v r i,
      forall i j, (i < uD v)%N -> (j < uD v)%N -> getS v' r' i j = getS v r i j
    & getlnZ v' r' = getlnZ v r].
Proof.
case: v => R D L n l S hS hL m z c; case: v' => R' D' L' n' l' S' hS' hL' m' z' c' /= Hv Hv' ED.
move: Hv'; rewrite ED => Hv' HL Hn Hm Hz Hm' Hz'.
have [_ cS _ cmu cz] := Hv; have [_ cS' _ cmu' cz'] := Hv'.
have [HS Emu] := cmu Hm; have [HS' Emu'] := cmu' Hm'.
have [_ Ez] := cz Hz; have [_ Ez'] := cz' Hz'.
have [SL _ Eh] := cS HS; have [SL' _ Eh'] := cS' HS'.
have EL : Lm (Measure R' D L' n' l' S' hS' hL' m' z' c') r' = Lm (Measure R D L n l S hS hL m z c) r by apply/mxfP.
have En : nuv (Measure R' D L' n' l' S' hS' hL' m' z' c') r' = nuv (Measure R D L n l S hS hL m z c) r by apply/cvfP.
rewrite EL in SL'.
have ES := inv_same SL' SL.
split.
- by apply/cvfP; move: Emu'; rewrite /muv /= => ->; rewrite ES En -Emu.
- by apply/mxfP.
- by rewrite Ez' Ez Eh' Eh ES En.
Qed.

(* integrals: the moments used by every integrate_* method are those of the selected component, so
   every polynomial integral commutes with slicing (per-component coefficients sliced alike) *)
Lemma slice_moments idx (u : measure) k :
  cache_ok u -> diag_ok u -> posdet u -> ~~ is_pdf (ucls u) -> (uSig u -> uhldL u) -> idx_ok (uR u) idx -> (k < size idx)%N ->
  let s := sel (uR u) idx k in
  [/\ forall i, (i < uD u)%N -> getmu (prepare (uslice idx u)) k i = getmu (prepare u) s i,
      forall i j, (i < uD u)%N -> (j < uD u)%N -> getS (prepare (uslice idx u)) k i j = getS (prepare u) s i j
    & log_mass (uslice idx u) k = log_mass u s].
Proof.
move=> Hc Hd Hp Hn HhL Hidx Hk s.
have Hs : (s < uR u)%N := Hidx _ Hk.
set u' := uslice idx u.
have Hc' : cache_ok u' by apply: uslice_ok_partial => //; apply: idx_ok_all.
have EL r i j : (r < size idx)%N -> (i < uD u)%N -> (j < uD u)%N -> uLam u' r i j = uLam u (sel (uR u) idx r) i j.
  by move=> Hr Hi Hj; rewrite /u' /uslice (negbTE Hn) /= tabbE.
have En r i : (r < size idx)%N -> (i < uD u)%N -> unu u' r i = unu u (sel (uR u) idx r) i.
  by move=> Hr Hi; rewrite /u' /uslice (negbTE Hn) /= tabbvE.
have El r : (r < size idx)%N -> ulb u' r = ulb u (sel (uR u) idx r).
  by move=> Hr; rewrite /u' /uslice (negbTE Hn) /= tablE.
have ED : uD u' = uD u by apply: uslice_D.
have ER : uR u' = size idx by apply: uslice_R.
have Ecls : ucls u' = ucls u by rewrite /u' /uslice (negbTE Hn).
have Hd' : diag_ok u'.
  rewrite /diag_ok Ecls ED ER => dg r i j Hr Hi Hj ij; rewrite EL //.
  by apply: Hd => //; apply: Hidx.
have Hp' : posdet u'.
  rewrite /posdet ER => r Hr.
  have := Hp _ (Hidx _ Hr); rewrite /Lm.
  move: EL; rewrite /u' /uslice (negbTE Hn) /= => EL.
  by rewrite mxf_tabb.
have [ER1 ED1 EL1 En1 El1] := prepare_core u.
have [ER2 ED2 EL2 En2 El2] := prepare_core u'.
have [Hz Hm] := prepare_some u.
have [Hz' Hm'] := prepare_some u'.
have Hv : cache_ok_at (prepare u) s by apply: prepare_ok => //; rewrite ER1.
have Hv' : cache_ok_at (prepare u') k by apply: prepare_ok => //; rewrite ER2 ER.
have [] := @moments_unique (prepare u) (prepare u') s k Hv Hv'; rewrite ?ED1 ?ED2 ?EL1 ?EL2 ?En1 ?En2 //.
- by move=> i j Hi Hj; apply: EL.
- by move=> i Hi; apply: En.
by move=> H1 H2 H3; split=> //; rewrite /log_mass H3 El1 El2 El.
Qed.

End C12.

Section C12_cex.
Variable F : realFieldType.

(* ---- the original fslice_eval / slice_multiply_factor / slice_hadamard are FALSE for rank-one factors:
   fwf says nothing about the rank-one kind, while the slice REBUILDS Lambda from the stored (v, g)
   (factor.py:341-355).  A rank-one factor whose stored Lambda is not g v v' changes under slicing. ---- *)
Definition cex_r1 (LS' : logS F) : Obj.factor LS' :=
  Factor (KOneRank (fun _ => vzero) vzero) 1 1 (fun _ => mid) (fun _ => vzero) (fun _ => 0).
Definition cex_one : vec F := fun _ => 1.

Lemma cex_r1_neq :
  feval (fslice [:: 0] (cex_r1 (logS_exec F))) 0 cex_one != feval (cex_r1 (logS_exec F)) 0 cex_one.
Proof.
rewrite /feval /eval_core /= /quad /dot /mvec /= /outer /vscale /tabv /= /vzero /mid /cex_one /=.
rewrite !(mul0r, mulr0, add0r, addr0, mul1r, mulr1) /lx_emb.
rewrite tabbE // tabbvE // mul0r mulr0.
apply/negP => /eqP [] /eqP.
by rewrite eq_sym oppr_eq0 invr_eq0 pnatr_eq0.
Qed.

Definition cex_m (LS' : logS F) : Obj.measure LS' :=
  Measure 1 1 (fun _ => mzero) (fun _ => vzero) (fun _ => 0) None None None None None CMeas.

Lemma fslice_eval_false :
  ~ (forall (LS' : logS F) idx (f : Obj.factor LS') k (x : vec F), fwf f -> (k < size idx)%N ->
       feval (fslice idx f) k x = feval f (sel (fR f) idx k) x /\ fR (fslice idx f) = size idx).
Proof.
move=> /(_ (logS_exec F) [:: 0] (cex_r1 _) 0%N cex_one I isT) [] /eqP.
by rewrite (negbTE cex_r1_neq).
Qed.

Lemma slice_multiply_factor_false :
  ~ (forall (LS' : logS F) upd idx (u : Obj.measure LS') (f : Obj.factor LS') i k (x : vec F),
       fwf f -> uD u = fD f -> idx_ok (fR f) idx -> (i < uR u)%N -> (k < size idx)%N ->
       ueval (multiply upd u (fslice idx f)) (i * size idx + k) x
       = ueval (multiply upd u f) (i * fR f + sel (fR f) idx k) x).
Proof.
have Hidx : idx_ok 1 [:: 0] by case.
move=> /(_ (logS_exec F) false [:: 0] (cex_m _) (cex_r1 _) 0%N 0%N cex_one I erefl Hidx isT isT) H.
have E1 := @multiply_eval _ _ false (cex_m (logS_exec F)) (fslice [:: 0] (cex_r1 _)) 0 0 cex_one
             (fslice_wf _ _) erefl isT isT.
have E2 := @multiply_eval _ _ false (cex_m (logS_exec F)) (cex_r1 _) 0 0 cex_one I erefl isT isT.
have /addrI /eqP := etrans (esym E1) (etrans H E2).
by rewrite (negbTE cex_r1_neq).
Qed.

Lemma slice_hadamard_false :
  ~ (forall (LS' : logS F) upd idx (u : Obj.measure LS') (f : Obj.factor LS') k (x : vec F),
       fwf f -> uD u = fD f -> ~~ is_pdf (ucls u) -> uR u = fR f -> idx_ok (uR u) idx -> (k < size idx)%N ->
       ueval (hadamard upd (uslice idx u) (fslice idx f)) k x
       = ueval (hadamard upd u f) (sel (uR u) idx k) x).
Proof.
have Hidx : idx_ok 1 [:: 0] by case.
move=> /(_ (logS_exec F) false [:: 0] (cex_m _) (cex_r1 _) 0%N cex_one I erefl isT erefl Hidx isT) H.
have E1 := @hadamard_eval _ _ false (uslice [:: 0] (cex_m (logS_exec F))) (fslice [:: 0] (cex_r1 _)) 0 cex_one
             (fslice_wf _ _) erefl isT.
have E2 := @hadamard_eval _ _ false (cex_m (logS_exec F)) (cex_r1 _) 0 cex_one I erefl isT.
have := etrans (esym E1) (etrans H E2).
have -> : ueval (uslice [:: 0] (cex_m (logS_exec F))) (bidx (uR (uslice [:: 0] (cex_m (logS_exec F)))) 0) cex_one
          = ueval (cex_m (logS_exec F)) (bidx (uR (cex_m (logS_exec F))) 0) cex_one.
  by have [] := @uslice_eval _ (logS_exec F) [:: 0] (cex_m _) 0%N cex_one isT isT.
move=> /addrI /eqP.
by rewrite (negbTE cex_r1_neq).
Qed.
End C12_cex.

Print Assumptions nidx_nonneg.
Print Assumptions nidx_neg.
Print Assumptions fslice_eval_partial.
Print Assumptions uslice_eval.
Print Assumptions uslice_pdf_eval.
Print Assumptions cslice_fields.
Print Assumptions cslice_ok.
Print Assumptions slice_multiply_measure.
Print Assumptions slice_multiply_factor_partial.
Print Assumptions slice_hadamard_partial.
Print Assumptions slice_condition_on_x.
Print Assumptions pdf_update_spec.
Print Assumptions moments_unique.
Print Assumptions slice_moments.
Print Assumptions fslice_eval_false.
Print Assumptions slice_multiply_factor_false.
Print Assumptions slice_hadamard_false.
