(* C13 (inequalities): KL >= 0 with equality only for equal densities, MI >= 0 -- over an ORDERED log structure
   (base/OLog.v; instance at the real numbers with the true logarithm: base/RField.v).  The matrix analysis
   (log-det / trace inequality, determinant monotonicity) is proofs/SPD.v. *)
From mathcomp Require Import all_ssreflect all_algebra ring.
From GT Require Import Tensor DetExec LogDom OLog MxLemmas Obj Factor Measure Pdf Cond EvalLemmas Spec C01_proofs PdfLemmas C04_proofs C0809_proofs C1013_proofs C07_proofs SPD.
Set Implicit Arguments.
Unset Strict Implicit.
Unset Printing Implicit Defensive.
Import GRing.Theory Num.Theory Order.Theory.
Local Open Scope ring_scope.

Section Ineq.
Variables (F : realFieldType) (O : ologS F).
Notation LS := (logS_of O).

Lemma kl_both (p0 p1 : measure LS) k : pdf_ok p0 -> pdf_ok p1 -> uD p0 = uD p1 ->
  let r0 := bidx (uR p0) k in let r1 := bidx (uR p1) k in
  (r0 < uR p0)%N -> (r1 < uR p1)%N ->
  spd (Sg p0 r0) -> spd (mxf (uD p0) (uD p0) (getS p1 r1)) ->
  (0 : F) <= kl_divergence p0 p1 k
  /\ (kl_divergence p0 p1 k = 0 ->
      Sg p0 r0 = mxf (uD p0) (uD p0) (getS p1 r1) /\ muv p0 r0 = cvf (uD p0) (getmu p1 r1)).
Proof.
move=> H0 H1 HD r0 r1 Hr0 Hr1 S0 S1.
have [Hc0 [HS0 _ _ _] _ _] := H0 r0 Hr0.
have [Hinv0 Hpos0 HhS0] := co_S Hc0 HS0.
have [Hc1 [HS1 _ _ _] _ _] := H1 r1 Hr1.
have [Hinv1 Hpos1 HhS1] := co_S Hc1 HS1.
move: Hinv1 HhS1 Hpos1; rewrite /Sg /Lm -HD => Hinv1 HhS1 Hpos1.
have Li1 := mulmx1C Hinv1.
rewrite /kl_divergence -/r0 -/r1 traceE mxf_mul dotE cvf_vmat cvf_sub HhS0 HhS1.
rewrite -/(Sg p0 r0) /muv.
set L1 := mxf _ _ (uLam p1 r1); set m1 := cvf _ (getmu p1 r1); set m0 := cvf _ (getmu p0 r0).
set S1m := mxf _ _ (getS p1 r1) in Hinv1 HhS1 S1 Hpos1 Li1 *.
have EL : L1 = invmx S1m by apply: inv_unique.
have sL : spd L1 by rewrite EL; apply: spd_inv.
have := logdet_tr O sL S0.
have := @logdet_tr_eq _ O _ _ _ sL S0.
have -> : oln O (\det L1) = - oln O (\det S1m).
  by rewrite EL matrix.det_inv olnV.
have := @spd_qf_eq0 _ _ _ (m1 - m0) sL.
have /(_ (m1 - m0)) := (spd_psd sL).2.
rewrite /qf /= /half.
set t := \tr _; set qq := (_ *m _) 0 0; set d := (uD p0)%:R; set a := oln O _; set b := oln O _.
move=> q0 qeq0 Heq Hle.
have -> : 2%:R^-1 * (t + qq - d) + a - b = qq / 2%:R + ((t - d) / 2%:R - (- a + b)).
  by ring.
have h0 : 0 <= qq / 2%:R by rewrite divr_ge0 // ler0n.
have s0 : 0 <= (t - d) / 2%:R - (- a + b) by rewrite subr_ge0.
split; first exact: addr_ge0.
move/eqP; rewrite paddr_eq0 // => /andP [/eqP hq /eqP hs].
have qq0 : qq = 0.
  by move/eqP: hq; rewrite mulf_eq0 invr_eq0 pnatr_eq0 orbF => /eqP.
have LS1 : L1 *m Sg p0 r0 = 1%:M by apply: Heq; apply/esym/eqP; rewrite -subr_eq0 hs.
split.
- have S1u : S1m \in unitmx by apply: spd_unit.
  by rewrite -[LHS]mul1mx -(mulmxV S1u) -mulmxA -EL LS1 mulmx1.
- by apply/esym/eqP; rewrite -subr_eq0; apply/eqP; apply: qeq0.
Qed.

Lemma kl_nonneg (p0 p1 : measure LS) k : pdf_ok p0 -> pdf_ok p1 -> uD p0 = uD p1 ->
  let r0 := bidx (uR p0) k in let r1 := bidx (uR p1) k in
  (r0 < uR p0)%N -> (r1 < uR p1)%N ->
  spd (Sg p0 r0) -> spd (mxf (uD p0) (uD p0) (getS p1 r1)) ->
  (0 : F) <= kl_divergence p0 p1 k.
Proof. by move=> H0 H1 HD r0 r1 Hr0 Hr1 S0 S1; case: (kl_both H0 H1 HD Hr0 Hr1 S0 S1). Qed.

Lemma kl_eq0 (p0 p1 : measure LS) k : pdf_ok p0 -> pdf_ok p1 -> uD p0 = uD p1 ->
  let r0 := bidx (uR p0) k in let r1 := bidx (uR p1) k in
  (r0 < uR p0)%N -> (r1 < uR p1)%N ->
  spd (Sg p0 r0) -> spd (mxf (uD p0) (uD p0) (getS p1 r1)) ->
  kl_divergence p0 p1 k = 0 ->
  Sg p0 r0 = mxf (uD p0) (uD p0) (getS p1 r1) /\ muv p0 r0 = cvf (uD p0) (getmu p1 r1).
Proof. by move=> H0 H1 HD r0 r1 Hr0 Hr1 S0 S1; case: (kl_both H0 H1 HD Hr0 Hr1 S0 S1). Qed.

Lemma mi_as_ratio (LS' : logS F) (c : cond LS') (p : measure LS') k :
  pdf_ok p -> cond_ok c -> cDx c = uD p -> (k < cR c * uR p)%N -> (cR c == 1%N) || (uR p == 1%N) ->
  mutual_information false c p k
  = hln LS' (\det (mxf (cDy c) (cDy c) (marg_Sigma c p k))) - hln LS' (\det (cSg c (jrc p k))).
Proof.
move=> Hp Hc HD Hk Hb.
have [Ei Hrx Hrc] := jr_idx Hk Hb.
have [SLx Lxsym Sxpos hSx] := pdf_facts HD Hp Hrx.
have [SLy Lysym Sypos hSy _] := Hc _ Hrc.
rewrite mutual_information_spec /entropy Ei.
rewrite {1}/affine_marginal mk_pdf_gethS_None // {3}/affine_joint mk_pdf_gethS_Some //.
rewrite joint_hld_eq // hSx.
have -> : uD (affine_marginal c p) = cDy c by [].
have -> : uD (affine_joint c p) = (cDx c + cDy c)%N by [].
set sx := hln LS' (\det (mxf (cDx c) _ _)); set sy := hln LS' (\det (mxf (cDy c) _ _)).
set sc := hln LS' (\det (cSg _ _)); clearbody sx sy sc.
rewrite -HD natrD mulrDr [emb LS' (_ + _)]raddfD /= mulrnDr.
rewrite (@zmod_mi _ _ _ _ _ sx sy (sx + sc)).
by rewrite opprD addrA [sx + sy]addrC addrK.
Qed.

Lemma mi_nonneg (c : cond LS) (p : measure LS) k :
  pdf_ok p -> cond_ok c -> cDx c = uD p -> (k < cR c * uR p)%N -> (cR c == 1%N) || (uR p == 1%N) ->
  spd (cSg c (jrc p k)) -> spd (mxf (cDx c) (cDx c) (getS p (jrx p k))) ->
  (0 : F) <= mutual_information false c p k.
Proof.
move=> Hp Hc HD Hk Hb sS sX.
rewrite (mi_as_ratio Hp Hc HD Hk Hb) /= subr_ge0.
have -> : mxf (cDy c) (cDy c) (marg_Sigma c p k)
          = cSg c (jrc p k) + ((cMm c (jrc p k))^T)^T *m mxf (cDx c) (cDx c) (getS p (jrx p k)) *m (cMm c (jrc p k))^T.
  by rewrite /marg_Sigma mxf_add !mxf_mul (mxf_tr _ _ (effM c (jrc p k))) trmxK.
by apply: logdet_add_psd_mono => //; apply: psd_gram.
Qed.

(* strict part of determinant monotonicity, from the equality case of the log-det / trace inequality *)
Lemma logdet_add_psd_eq n (A P : 'M[F]_n) : spd A -> psd P ->
  oln O (\det (A + P)) = oln O (\det A) -> P = 0.
Proof.
move=> sA pP E.
have sAP : spd (A + P) by apply: spd_add_psd.
have APu : A + P \in unitmx by apply: spd_unit.
have sL : spd (invmx (A + P)) by apply: spd_inv.
have tr0 : 0 <= \tr (invmx (A + P) *m P) by apply: tr_spd_psd_ge0.
have Etr : \tr (invmx (A + P) *m A) - n%:R = - \tr (invmx (A + P) *m P).
  have -> : invmx (A + P) *m A = 1%:M - invmx (A + P) *m P.
    by rewrite -[X in X - _](mulVmx APu) -mulmxBr addrK.
  by rewrite linearB /= mxtrace1 addrAC subrr sub0r.
have Eln : oln O (\det (invmx (A + P))) + oln O (\det A) = 0.
  by rewrite matrix.det_inv olnV ?spd_det_gt0 // E addNr.
have Hle := logdet_tr O sL sA.
have Heq := @logdet_tr_eq _ O _ _ _ sL sA.
move: Hle Heq; rewrite Eln Etr => Hle Heq.
have t0 : \tr (invmx (A + P) *m P) = 0.
  apply/eqP; rewrite eq_le tr0 andbT.
  by move: Hle; rewrite mulNr oppr_ge0 pmulr_lle0 // invr_gt0 ltr0n.
have /Heq LA : 0 = - \tr (invmx (A + P) *m P) / 2%:R by rewrite t0 oppr0 mul0r.
have : A + P = A by rewrite -[RHS]mul1mx -(mulmxV APu) -mulmxA LA mulmx1.
by move/eqP; rewrite -subr_eq0 addrC addKr => /eqP.
Qed.

Lemma gram_eq0 m n (A : 'M[F]_n) (N : 'M[F]_(n, m)) : spd A -> N^T *m A *m N = 0 -> N = 0.
Proof.
move=> sA E; apply/matrixP => i j; rewrite [RHS]mxE.
have : qf A (col j N) = 0.
  have -> : qf A (col j N) = (N^T *m A *m N) j j.
    by rewrite colE -qf_congr qf_delta.
  by rewrite E mxE.
by move/(spd_qf_eq0 sA) => /colP /(_ i); rewrite !mxE.
Qed.

Lemma mi_eq0 (c : cond LS) (p : measure LS) k :
  pdf_ok p -> cond_ok c -> cDx c = uD p -> (k < cR c * uR p)%N -> (cR c == 1%N) || (uR p == 1%N) ->
  spd (cSg c (jrc p k)) -> spd (mxf (cDx c) (cDx c) (getS p (jrx p k))) ->
  mutual_information false c p k = 0 -> cMm c (jrc p k) = 0.
Proof.
move=> Hp Hc HD Hk Hb sS sX.
rewrite (mi_as_ratio Hp Hc HD Hk Hb) /= => /eqP; rewrite subr_eq0 => /eqP.
have -> : mxf (cDy c) (cDy c) (marg_Sigma c p k)
          = cSg c (jrc p k) + ((cMm c (jrc p k))^T)^T *m mxf (cDx c) (cDx c) (getS p (jrx p k)) *m (cMm c (jrc p k))^T.
  by rewrite /marg_Sigma mxf_add !mxf_mul (mxf_tr _ _ (effM c (jrc p k))) trmxK.
move/(logdet_add_psd_eq sS (psd_gram _ sX)) => /(gram_eq0 sX) /(congr1 trmx).
by rewrite trmxK trmx0.
Qed.

End Ineq.
