(* C13 (extra): mutual information is symmetric under the conditional transformation, and the chain
   rule of entropies H(Y|X) + H(X) = H(X|Y) + H(Y) holds for the swapped pair (single components). *)
From mathcomp Require Import all_ssreflect all_fingroup all_algebra.
From mathcomp Require Import ring.
From GT Require Import Tensor DetExec LogDom MxTac MxLemmas Obj Factor Measure Pdf Cond EvalLemmas Spec C01_proofs PdfLemmas.
From GT Require Import C07_proofs C0809_proofs C1013_proofs.
Set Implicit Arguments.
Unset Strict Implicit.
Unset Printing Implicit Defensive.
Import GRing.Theory Num.Theory.
Local Open Scope ring_scope.

Lemma zm_swap (V : zmodType) (a c t s : V) : c + t = s + a -> a - c = t - s.
Proof.
by move=> H; apply/eqP; rewrite subr_eq addrAC eq_sym subr_eq [t + c]addrC H addrC.
Qed.

Section C13swap.
Variables (F : realFieldType) (LS : logS F).
Notation mat := (mat F).
Notation vec := (vec F).
Notation measure := (measure LS).
Notation cond := (cond LS).

(* the determinant of the joint covariance factorises: det Sxy = det Sx * det Sigma_{y|x} *)
Lemma joint_Sigma_det (c : cond) (p : measure) k :
  pdf_ok p -> cond_ok c -> cDx c = uD p -> (k < cR c * uR p)%N ->
  \det (mxf (cDx c + cDy c) (cDx c + cDy c) (joint_Sigma c p k))
  = \det (mxf (cDx c) (cDx c) (getS p (jrx p k))) * \det (cSg c (jrc p k)).
Proof.
move=> Hp Hc HD Hk.
have [Hrc Hrx] := C0809_proofs.jr_bounds Hk.
have [_ _ _ Sxsym _] := px_facts Hp HD Hrx.
by rewrite joint_Sigma_mx // joint_det.
Qed.

(* MI = 1/2 ln (det Sigma_y / det Sigma_{y|x}), every class and batch layout *)
Lemma mutual_information_ratio (c : cond) (p : measure) k :
  pdf_ok p -> cond_ok c -> cDx c = uD p -> (k < cR c * uR p)%N -> (cR c == 1%N) || (uR p == 1%N) ->
  marg_pos c p ->
  mutual_information false c p k
  = hln LS (\det (SyM c p k)) - hln LS (\det (cSg c (jrc p k))).
Proof.
move=> Hp Hc HD Hk Hb Hmarg.
have [Hrc Hrx] := C0809_proofs.jr_bounds Hk.
have [_ _ Sxpos _ _] := px_facts Hp HD Hrx.
have [_ _ Sypos _] := cd_facts Hc Hrc.
rewrite (mutual_information_det (@joint_args_ok F LS) Hp Hc HD Hk Hb (Hmarg k Hk)).
rewrite joint_Sigma_det // hlnM // -/(SyM c p k).
have -> : hln LS (\det (Sg p (jrx p k))) = hln LS (\det (mxf (cDx c) (cDx c) (getS p (jrx p k)))).
  by rewrite /Sg HD.
set a := hln LS _; set t := hln LS _; set s := hln LS _; clearbody a t s.
by rewrite opprD addrA [a + t]addrC addrK.
Qed.

(* the facts shared by both swap lemmas *)
Lemma swap_facts (c : cond) (p : measure) :
  pdf_ok p -> cond_ok c -> cDx c = uD p -> cR c = 1%N -> uR p = 1%N ->
  marg_pos c p -> post_pos c p ->
  let c' := affine_conditional c p in let q := affine_marginal c p in
  let Sx := mxf (cDx c) (cDx c) (getS p 0%N) in
  [/\ pdf_ok q, cond_ok c', marg_pos c' q,
      [/\ SyM c' q 0%N = Sx, mxf (cDx c') (cDx c') (getS q 0%N) = SyM c p 0%N
        & \det (cSg c' 0%N) * \det (SyM c p 0%N) = \det (cSg c 0%N) * \det Sx]
    & [/\ 0 < \det Sx, 0 < \det (cSg c 0%N), 0 < \det (SyM c p 0%N) & 0 < \det (cSg c' 0%N)]].
Proof.
move=> okp okc HD HRc HRp Hmarg Hpost c' q Sx.
have H0 : (0 < cR c * uR p)%N by rewrite HRc HRp.
have j0c : jrc p 0 = 0%N by rewrite /jrc div0n.
have j0x : jrx p 0 = 0%N by rewrite /jrx mod0n.
have Hrc : (0 < cR c)%N by rewrite HRc.
have Hrx : (0 < uR p)%N by rewrite HRp.
have [SLx Lxsym Sxpos _ Hnu] := px_facts okp HD Hrx.
have [SLy Lysym Sypos _] := cd_facts okc Hrc.
have Hp := post_posE HD Hpost H0.
have [okc' _] := affine_conditional_ok okp okc HD Hpost.
have okq := affine_marginal_ok okp okc HD Hmarg.
have F1 := acond_Mm H0 Hp. have F4 := acond_Sg H0 Hp.
rewrite /Pxm /Mm j0c j0x -/c' in F1 F4 Hp.
have HDq : cDx c' = uD q by [].
have j0cq : jrc q 0 = 0%N by rewrite /jrc div0n.
have j0xq : jrx q 0 = 0%N by rewrite /jrx mod0n.
have ESq : mxf (cDx c') (cDx c') (getS q 0) = SyM c p 0.
  apply/mxfP => i j Hi Hj.
  by have [-> //] := mk_pdf_params (LS:=LS) false (cDy c) (marg_Sigma c p)
     (fun k => cond_mu c (jrc p k) (getmu p (jrx p k))) None None H0.
have ET := marg_SigmaE 0 HD; rewrite j0c j0x in ET.
have Tpos : 0 < \det (SyM c p 0) := Hmarg 0%N H0.
have ESx : SyM c' q 0 = Sx.
  rewrite (marg_SigmaE 0 HDq) j0cq j0xq -/(cMm c' 0) F4 F1 ESq ET; exact: back_S.
have Cpos : 0 < \det (cSg c' 0) by rewrite F4 matrix.det_inv invr_gt0.
have Hdet : \det (cSg c' 0) * \det (SyM c p 0) = \det (cSg c 0) * \det Sx.
  rewrite F4 ET; exact: bayes_det.
split=> //.
move=> k; rewrite -[cR c']/(cR c * uR p)%N -[uR q]/(cR c * uR p)%N HRc HRp.
by case: k => // _; rewrite ESx.
Qed.

(* mutual information is symmetric: I(X;Y) computed from (p(y|x), p(x)) and from (p(x|y), p(y)) agree;
   no restriction on the class of the conditional *)
Lemma mi_swap_all_classes (c : cond) (p : measure) :
  pdf_ok p -> cond_ok c -> cDx c = uD p -> cR c = 1%N -> uR p = 1%N ->
  marg_pos c p -> post_pos c p ->
  mutual_information false (affine_conditional c p) (affine_marginal c p) 0%N
  = mutual_information false c p 0%N.
Proof.
move=> okp okc HD HRc HRp Hmarg Hpost.
have [okq okc' Hmarg' [ESx ESq Hdet] [Sxpos Sypos Tpos Cpos]] :=
  swap_facts okp okc HD HRc HRp Hmarg Hpost.
set c' := affine_conditional c p in okc' Hmarg' ESx ESq Hdet Cpos *.
set q := affine_marginal c p in okq Hmarg' ESx ESq *.
have H0 : (0 < cR c * uR p)%N by rewrite HRc HRp.
have Hb : (cR c == 1%N) || (uR p == 1%N) by rewrite HRc.
have HDq : cDx c' = uD q by [].
have H0q : (0 < cR c' * uR q)%N.
  by rewrite -[cR c']/(cR c * uR p)%N -[uR q]/(cR c * uR p)%N HRc HRp.
have Hbq : (cR c' == 1%N) || (uR q == 1%N).
  by rewrite -[cR c']/(cR c * uR p)%N HRc HRp.
have j0c : jrc p 0 = 0%N by rewrite /jrc div0n.
have j0cq : jrc q 0 = 0%N by rewrite /jrc div0n.
rewrite (mutual_information_ratio okq okc' HDq H0q Hbq Hmarg').
rewrite (mutual_information_ratio okp okc HD H0 Hb Hmarg).
rewrite j0c j0cq ESx.
apply: zm_swap; rewrite -!hlnM //.
by rewrite Hdet.
Qed.

Lemma mi_swap (c : cond) (p : measure) :
  pdf_ok p -> cond_ok c -> cDx c = uD p -> cR c = 1%N -> uR p = 1%N -> ~~ cident (ccl c) ->
  marg_pos c p -> post_pos c p ->
  mutual_information false (affine_conditional c p) (affine_marginal c p) 0%N
  = mutual_information false c p 0%N.
Proof. by move=> okp okc HD HRc HRp _; exact: mi_swap_all_classes. Qed.

(* entropy of the joint transformation with the true determinants: H(X,Y) = H(X) + H(Y|X) form *)
Lemma entropy_joint_det (c : cond) (p : measure) k :
  pdf_ok p -> cond_ok c -> cDx c = uD p -> (k < cR c * uR p)%N ->
  entropy (affine_joint c p) k
  = emb LS (half F * (cDx c + cDy c)%:R) + hl2p LS *+ (cDx c + cDy c)
    + (hln LS (\det (mxf (cDx c) (cDx c) (getS p (jrx p k)))) + hln LS (\det (cSg c (jrc p k)))).
Proof.
move=> Hp Hc HD Hk.
have [Hrc Hrx] := C0809_proofs.jr_bounds Hk.
have [_ _ Sxpos _ _] := px_facts Hp HD Hrx.
have [_ _ Sypos _] := cd_facts Hc Hrc.
have [_ _ _ _ Hj] := joint_args_ok Hp Hc HD Hk.
rewrite /entropy {3}/affine_joint mk_pdf_gethS_Some //.
rewrite (Hj _ _ (erefl _) (erefl _)) joint_Sigma_det // hlnM //.
Qed.

Lemma bidx0 R : bidx R 0 = 0%N.
Proof. by rewrite /bidx; case: ifP. Qed.

(* chain rule both ways: H(Y|X) + H(X) = H(X|Y) + H(Y) (both are the joint entropy), every class *)
Lemma chain_swap_all_classes (c : cond) (p : measure) :
  pdf_ok p -> cond_ok c -> cDx c = uD p -> cR c = 1%N -> uR p = 1%N ->
  marg_pos c p -> post_pos c p ->
  conditional_entropy c p 0%N + entropy p 0%N
  = conditional_entropy (affine_conditional c p) (affine_marginal c p) 0%N
    + entropy (affine_marginal c p) 0%N.
Proof.
move=> okp okc HD HRc HRp Hmarg Hpost.
have [okq okc' Hmarg' [ESx ESq Hdet] [Sxpos Sypos Tpos Cpos]] :=
  swap_facts okp okc HD HRc HRp Hmarg Hpost.
set c' := affine_conditional c p in okc' Hmarg' ESx ESq Hdet Cpos *.
set q := affine_marginal c p in okq Hmarg' ESx ESq *.
have H0 : (0 < cR c * uR p)%N by rewrite HRc HRp.
have HDq : cDx c' = uD q by [].
have H0q : (0 < cR c' * uR q)%N.
  by rewrite -[cR c']/(cR c * uR p)%N -[uR q]/(cR c * uR p)%N HRc HRp.
have j0c : jrc p 0 = 0%N by rewrite /jrc div0n.
have j0x : jrx p 0 = 0%N by rewrite /jrx mod0n.
have j0cq : jrc q 0 = 0%N by rewrite /jrc div0n.
have j0xq : jrx q 0 = 0%N by rewrite /jrx mod0n.
rewrite !conditional_entropy_spec !bidx0 !subrK.
rewrite (entropy_joint_det okp okc HD H0) (entropy_joint_det okq okc' HDq H0q).
rewrite j0c j0x j0cq j0xq ESq.
have E : hln LS (\det (mxf (cDx c) (cDx c) (getS p 0))) + hln LS (\det (cSg c 0))
         = hln LS (\det (SyM c p 0)) + hln LS (\det (cSg c' 0)).
  by rewrite [RHS]addrC -!hlnM // Hdet mulrC.
rewrite E.
set t := hln LS _; set s := hln LS _; clearbody t s.
have -> : (cDx c' + cDy c' = cDx c + cDy c)%N by rewrite addnC.
by [].
Qed.

Lemma chain_swap (c : cond) (p : measure) :
  pdf_ok p -> cond_ok c -> cDx c = uD p -> cR c = 1%N -> uR p = 1%N -> ~~ cident (ccl c) ->
  marg_pos c p -> post_pos c p ->
  conditional_entropy c p 0%N + entropy p 0%N
  = conditional_entropy (affine_conditional c p) (affine_marginal c p) 0%N
    + entropy (affine_marginal c p) 0%N.
Proof. by move=> okp okc HD HRc HRp _; exact: chain_swap_all_classes. Qed.

End C13swap.
Print Assumptions mutual_information_ratio.
Print Assumptions mi_swap_all_classes.
Print Assumptions chain_swap_all_classes.
Print Assumptions chain_swap.
Print Assumptions mi_swap.
