(* C14 (feature models): the expected log-conditional integrals of the RBF / squared-exponential feature models
   p(y|x) = N(y; M phi(x) + b, Sigma), phi(x) = (x, k_1(x), ..., k_Dk(x)), are exact GIVEN the kernel moments
   Ek_j = E[k_j], Ek_j * mk_j = E[k_j x], Ekk_ij = E[k_i k_j]  (model/FeatLog.v). *)
From mathcomp Require Import all_ssreflect all_fingroup all_algebra.
From mathcomp Require Import ring.
From GT Require Import Tensor DetExec LogDom MxTac MxLemmas Obj Factor Measure Pdf Cond Moments ExpLog Approx FeatLog EvalLemmas Spec PdfLemmas C14_proofs.
Set Implicit Arguments.
Unset Strict Implicit.
Unset Printing Implicit Defensive.
Import GRing.Theory Num.Theory.
Local Open Scope ring_scope.

(* ------------------------------------------------------------------------------------------------ *)
(* Matrix level                                                                                       *)
(* ------------------------------------------------------------------------------------------------ *)
Section FeatMx.
Variable F : realFieldType.

(* E[(y - M phi - b)' L (y - M phi - b)] for ANY random vector phi with E[phi] = Ef, E[phi phi'] = Eff
   (linearity of expectation, L symmetric); see EquadPhi_finite_support below *)
Definition EquadPhi (dy dp : nat) (y : 'cV[F]_dy) (M : 'M[F]_(dy, dp)) (b : 'cV[F]_dy) (L : 'M[F]_dy)
    (Ef : 'cV[F]_dp) (Eff : 'M[F]_dp) : F :=
  sc (y^T *m L *m y) - 2%:R * sc (y^T *m L *m (M *m Ef + b)) + \tr (M^T *m L *m M *m Eff)
  + 2%:R * sc ((M *m Ef)^T *m L *m b) + sc (b^T *m L *m b).

Lemma trD p q (X Y : 'M[F]_(p, q)) : (X + Y)^T = X^T + Y^T. Proof. by rewrite linearD. Qed.
Lemma trN p q (X : 'M[F]_(p, q)) : (- X)^T = - X^T. Proof. by rewrite linearN. Qed.
Lemma trB p q (X Y : 'M[F]_(p, q)) : (X - Y)^T = X^T - Y^T. Proof. by rewrite linearB. Qed.
Lemma sc_trace (X : 'M[F]_1) : \tr X = sc X.
Proof. by rewrite /mxtrace big_ord1. Qed.
Lemma scZ (c : F) (X : 'M[F]_1) : sc (c *: X) = c * sc X. Proof. by rewrite /sc mxE. Qed.
Lemma sc_sum (I : finType) (f : I -> 'M[F]_1) : sc (\sum_i f i) = \sum_i sc (f i).
Proof. by rewrite /sc summxE. Qed.

Lemma sc_symL n (L : 'M[F]_n) (u v : 'cV[F]_n) : L^T = L -> sc (u^T *m L *m v) = sc (v^T *m L *m u).
Proof. by move=> Lsym; rewrite -sc_tr !trmx_mul trmxK Lsym mulmxA. Qed.

(* justification of EquadPhi: for every finitely supported distribution (weights w_s, total mass 1, atoms phi_s)
   with first moment Ef and second moment Eff, EquadPhi is the expectation of the residual quadratic form *)
Lemma EquadPhi_finite_support (dy dp : nat) (I : finType) (w : I -> F) (phi : I -> 'cV[F]_dp)
    (y : 'cV[F]_dy) (M : 'M[F]_(dy, dp)) (b : 'cV[F]_dy) (L : 'M[F]_dy) :
  L^T = L -> \sum_s w s = 1 ->
  EquadPhi y M b L (\sum_s w s *: phi s) (\sum_s w s *: (phi s *m (phi s)^T))
  = \sum_s w s * sc ((y - M *m phi s - b)^T *m L *m (y - M *m phi s - b)).
Proof.
move=> Lsym w1.
have E s : sc ((y - M *m phi s - b)^T *m L *m (y - M *m phi s - b))
  = sc (y^T *m L *m y) - 2%:R * sc (y^T *m L *m (M *m phi s + b))
    + \tr (M^T *m L *m M *m (phi s *m (phi s)^T))
    + 2%:R * sc ((M *m phi s)^T *m L *m b) + sc (b^T *m L *m b).
  have -> : \tr (M^T *m L *m M *m (phi s *m (phi s)^T)) = sc ((M *m phi s)^T *m L *m (M *m phi s)).
    by rewrite mulmxA mxtrace_mulC sc_trace trmx_mul !mulmxA.
  set u := M *m phi s.
  clearbody u.
  have S1 : sc (u^T *m L *m y) = sc (y^T *m L *m u) by exact: sc_symL.
  have S2 : sc (b^T *m L *m y) = sc (y^T *m L *m b) by exact: sc_symL.
  have S3 : sc (b^T *m L *m u) = sc (u^T *m L *m b) by exact: sc_symL.
  rewrite !(trB, trD) !(mulmxBl, mulmxBr, mulmxDr) !(scB, scD, scN) S1 S2 S3.
  set s1 := sc _; set s2 := sc _; set s3 := sc _; set s4 := sc _; set s5 := sc _; set s6 := sc _.
  clearbody s1 s2 s3 s4 s5 s6; ring.
rewrite /EquadPhi.
have -> : M *m (\sum_s w s *: phi s) = \sum_s w s *: (M *m phi s).
  by rewrite mulmx_sumr; apply: eq_bigr => s _; rewrite scalemxAr.
have -> : \tr (M^T *m L *m M *m (\sum_s w s *: (phi s *m (phi s)^T)))
          = \sum_s w s * \tr (M^T *m L *m M *m (phi s *m (phi s)^T)).
  rewrite mulmx_sumr raddf_sum; apply: eq_bigr => s _; by rewrite -scalemxAr /= mxtraceZ.
have -> : sc (y^T *m L *m (\sum_s w s *: (M *m phi s) + b))
          = \sum_s w s * sc (y^T *m L *m (M *m phi s + b)).
  rewrite mulmxDr scD mulmx_sumr sc_sum.
  transitivity (\sum_s (w s * sc (y^T *m L *m (M *m phi s)) + w s * sc (y^T *m L *m b))).
    rewrite big_split /= -mulr_suml w1 mul1r; congr (_ + _).
    by apply: eq_bigr => s _; rewrite -scalemxAr scZ.
  by apply: eq_bigr => s _; rewrite mulmxDr scD mulrDr.
have -> : sc ((\sum_s w s *: (M *m phi s))^T *m L *m b) = \sum_s w s * sc ((M *m phi s)^T *m L *m b).
  rewrite raddf_sum /= !mulmx_suml sc_sum; apply: eq_bigr => s _.
  by rewrite linearZ /= -!scalemxAl scZ.
transitivity (\sum_s (w s * sc (y^T *m L *m y) - 2%:R * (w s * sc (y^T *m L *m (M *m phi s + b)))
    + w s * \tr (M^T *m L *m M *m (phi s *m (phi s)^T))
    + 2%:R * (w s * sc ((M *m phi s)^T *m L *m b)) + w s * sc (b^T *m L *m b))); last first.
  by apply: eq_bigr => s _; rewrite E; ring.
by rewrite !big_split /= sumrN -!mulr_sumr -!mulr_suml w1 !mul1r.
Qed.


(* the feature vector phi = (x, k): M = [Ml | Mk], E[phi] = (mx, Ek),
   E[phi phi'] = [[Sx + mx mx', Ekx'], [Ekx, Ekk]]: EquadPhi in expanded form *)
Definition EquadFeat (dy dx dk : nat) (y b : 'cV[F]_dy) (L : 'M[F]_dy) (Ml : 'M[F]_(dy, dx)) (Mk : 'M[F]_(dy, dk))
    (mx : 'cV[F]_dx) (Sx : 'M[F]_dx) (Ek : 'cV[F]_dk) (Ekx : 'M[F]_(dk, dx)) (Ekk : 'M[F]_dk) : F :=
  sc (y^T *m L *m y) - 2%:R * sc (y^T *m L *m (Ml *m mx + Mk *m Ek + b))
    + (\tr (Ml^T *m L *m Ml *m (Sx + mx *m mx^T)) + 2%:R * \tr (Mk^T *m L *m Ml *m Ekx^T)
       + \tr (Mk^T *m L *m Mk *m Ekk))
    + 2%:R * sc ((Ml *m mx + Mk *m Ek)^T *m L *m b) + sc (b^T *m L *m b).

Lemma EquadPhi_block (dy dx dk : nat) (y b : 'cV[F]_dy) (L : 'M[F]_dy) (Ml : 'M[F]_(dy, dx)) (Mk : 'M[F]_(dy, dk))
    (mx : 'cV[F]_dx) (Sx : 'M[F]_dx) (Ek : 'cV[F]_dk) (Ekx : 'M[F]_(dk, dx)) (Ekk : 'M[F]_dk) :
  L^T = L ->
  EquadPhi y (row_mx Ml Mk) b L (col_mx mx Ek) (block_mx (Sx + mx *m mx^T) Ekx^T Ekx Ekk)
  = EquadFeat y b L Ml Mk mx Sx Ek Ekx Ekk.
Proof.
move=> Lsym; rewrite /EquadPhi /EquadFeat mul_row_col.
congr (_ - _ + _ + _ + _).
rewrite tr_row_mx mul_col_mx mul_col_row mulmx_block mxtrace_block !mxtraceD.
have -> : \tr (Ml^T *m L *m Mk *m Ekx) = \tr (Mk^T *m L *m Ml *m Ekx^T).
  by rewrite -mxtrace_tr !trmx_mul trmxK Lsym mxtrace_mulC !mulmxA.
set t1 := \tr _; set t2 := \tr _; set t3 := \tr _; clearbody t1 t2 t3; ring.
Qed.

(* the cross moment E[k x'] = Ekx with Ekx j i = Ek j * mk j i *)
Lemma cross_trace (dy dx dk : nat) (X : 'M[F]_(dy, dx)) (Mk : 'M[F]_(dy, dk))
    (Ek : 'cV[F]_dk) (mk : 'I_dk -> 'cV[F]_dx) (c : 'cV[F]_dy) :
  \sum_j Ek j 0 * sc ((col j Mk)^T *m (X *m mk j + c))
  = \tr (Mk^T *m X *m (\matrix_(j, i) (Ek j 0 * mk j i 0))^T) + sc ((Mk *m Ek)^T *m c).
Proof.
have -> : sc ((Mk *m Ek)^T *m c) = \sum_j Ek j 0 * sc ((col j Mk)^T *m c).
  rewrite trmx_mul -mulmxA (mulmx_sum_row Ek^T) sc_sum; apply: eq_bigr => j _.
  by rewrite scZ mxE row_mul tr_col.
rewrite /mxtrace -big_split /=; apply: eq_bigr => j _.
rewrite mulmxDr scD mulrDr; congr (_ + _).
rewrite tr_col mulmxA -row_mul /sc !mxE big_distrr; apply: eq_bigr => k _.
by rewrite !mxE mulrCA.
Qed.

(* the algebra behind feat_log_cond_y: what the code assembles = -1/2 EquadPhi in expanded form *)
Lemma feat_y_algebra (dy dx dk : nat) (yv bv : 'cV[F]_dy) (L : 'M[F]_dy) (Ml : 'M[F]_(dy, dx)) (MK : 'M[F]_(dy, dk))
    (m : 'cV[F]_dx) (S : 'M[F]_dx) (ek : 'cV[F]_dk) (Ekx : 'M[F]_(dk, dx)) (KK : 'M[F]_dk) :
  L^T = L ->
  - half F * sc (yv^T *m (L *m yv)) +
  sc (yv^T *m (L *m Ml *m m + L *m bv + L *m (MK *m ek))) -
  half F *
  (\tr (Ml^T *m (L *m Ml) *m S) +
   sc ((Ml *m m + bv)^T *m (L *m Ml *m m + L *m bv)) +
   (\tr (MK^T *m (L *m Ml) *m Ekx^T) + sc ((MK *m ek)^T *m (L *m bv))) +
   (\tr (MK^T *m (L *m Ml) *m Ekx^T) + sc ((MK *m ek)^T *m (L *m bv))) +
   \tr (MK^T *m L *m MK *m KK)) =
  - half F * EquadFeat yv bv L Ml MK m S ek Ekx KK.
Proof.
move=> Lsym; rewrite /EquadFeat.
have -> : \tr (Ml^T *m L *m Ml *m (S + m *m m^T))
          = \tr (Ml^T *m L *m Ml *m S) + sc ((Ml *m m)^T *m L *m (Ml *m m)).
  rewrite mulmxDr mxtraceD; congr (_ + _).
  by rewrite mulmxA mxtrace_mulC sc_trace trmx_mul !mulmxA.
rewrite -[L *m Ml *m m]mulmxA.
set u := Ml *m m; set v := MK *m ek; clearbody u v.
have S3 : sc (bv^T *m L *m u) = sc (u^T *m L *m bv) by exact: sc_symL.
rewrite !trD !(mulmxDl, mulmxDr) !mulmxA !scD S3.
set t1 := \tr _; set t2 := \tr _; set t3 := \tr _.
set s1 := sc _; set s2 := sc _; set s3 := sc _; set s4 := sc _; set s5 := sc _; set s6 := sc _; set s7 := sc _; set s8 := sc _.
clearbody t1 t2 t3 s1 s2 s3 s4 s5 s6 s7 s8.
by rewrite /half; field.
Qed.

(* Gaussian features phi = x: EquadPhi is the Gaussian second moment Equad of C14 *)
Lemma EquadPhi_gauss (dy dx : nat) (y c : 'cV[F]_dy) (L : 'M[F]_dy) (Ml : 'M[F]_(dy, dx))
    (m : 'cV[F]_dx) (S : 'M[F]_dx) :
  L^T = L -> EquadPhi y Ml c L m (S + m *m m^T) = Equad m S (- Ml) (y - c) L.
Proof.
move=> Lsym; rewrite /EquadPhi /Equad.
have -> : \tr (Ml^T *m L *m Ml *m (S + m *m m^T))
          = \tr (Ml^T *m L *m Ml *m S) + sc ((Ml *m m)^T *m L *m (Ml *m m)).
  rewrite mulmxDr mxtraceD; congr (_ + _).
  by rewrite mulmxA mxtrace_mulC sc_trace trmx_mul !mulmxA.
have -> : (- Ml)^T *m L *m - Ml = Ml^T *m L *m Ml by rewrite trN !mulNmx mulmxN opprK.
rewrite mulNmx.
set u := Ml *m m; clearbody u.
have S1 : sc (u^T *m L *m y) = sc (y^T *m L *m u) by exact: sc_symL.
have S2 : sc (c^T *m L *m y) = sc (y^T *m L *m c) by exact: sc_symL.
have S3 : sc (c^T *m L *m u) = sc (u^T *m L *m c) by exact: sc_symL.
rewrite !(trD, trN) !(mulmxDl, mulmxDr, mulmxN, mulNmx) !(scD, scN) S1 S2 S3.
set t1 := \tr _.
set s1 := sc _; set s2 := sc _; set s3 := sc _; set s4 := sc _; set s5 := sc _; set s6 := sc _.
clearbody t1 s1 s2 s3 s4 s5 s6; ring.
Qed.

(* no kernels *)
Lemma EquadFeat_nokernel (dy dx : nat) (y b : 'cV[F]_dy) (L : 'M[F]_dy) (Ml : 'M[F]_(dy, dx)) (Mk : 'M[F]_(dy, 0))
    (m : 'cV[F]_dx) (S : 'M[F]_dx) (Ek : 'cV[F]_0) (Ekx : 'M[F]_(0, dx)) (Ekk : 'M[F]_0) :
  EquadFeat y b L Ml Mk m S Ek Ekx Ekk = EquadPhi y Ml b L m (S + m *m m^T).
Proof.
by rewrite /EquadFeat /EquadPhi (thinmx0 Mk) (flatmx0 Ekx) !(trmx0, mul0mx, mulmx0, mxtrace0, addr0, mulr0).
Qed.

(* constant kernels k_j = 1: Ek = 1, E[k x'] = 1 mx', E[k k'] = 1 1': the offset b becomes b + Mk 1 *)
Lemma EquadFeat_const (dy dx dk : nat) (y b : 'cV[F]_dy) (L : 'M[F]_dy) (Ml : 'M[F]_(dy, dx)) (Mk : 'M[F]_(dy, dk))
    (m : 'cV[F]_dx) (S : 'M[F]_dx) :
  L^T = L -> let e : 'cV[F]_dk := const_mx 1 in
  EquadFeat y b L Ml Mk m S e (e *m m^T) (e *m e^T) = EquadPhi y Ml (b + Mk *m e) L m (S + m *m m^T).
Proof.
move=> Lsym e; rewrite /EquadFeat /EquadPhi.
have -> : \tr (Mk^T *m L *m Ml *m (e *m m^T)^T) = sc ((Mk *m e)^T *m L *m (Ml *m m)).
  by rewrite trmx_mul trmxK [in LHS]mulmxA mxtrace_mulC sc_trace trmx_mul !mulmxA.
have -> : \tr (Mk^T *m L *m Mk *m (e *m e^T)) = sc ((Mk *m e)^T *m L *m (Mk *m e)).
  by rewrite mulmxA mxtrace_mulC sc_trace trmx_mul !mulmxA.
set u := Ml *m m; set v := Mk *m e; clearbody u v.
have S1 : sc (u^T *m L *m v) = sc (v^T *m L *m u) by exact: sc_symL.
have S2 : sc (b^T *m L *m v) = sc (v^T *m L *m b) by exact: sc_symL.
rewrite !trD !(mulmxDl, mulmxDr) !scD S1 S2.
set t1 := \tr _.
set s1 := sc _; set s2 := sc _; set s3 := sc _; set s4 := sc _; set s5 := sc _; set s6 := sc _.
set s7 := sc _; set s8 := sc _; set s9 := sc _.
clearbody t1 s1 s2 s3 s4 s5 s6 s7 s8 s9; ring.
Qed.

(* the algebra behind feat_log_cond: residual r = A z - Mk k - b = 0 - [-A | Mk] (z, k) - b *)
Lemma feat_z_algebra (dy dz dk : nat) (bv : 'cV[F]_dy) (L : 'M[F]_dy) (A : 'M[F]_(dy, dz)) (MK : 'M[F]_(dy, dk))
    (mq : 'cV[F]_dz) (Sq : 'M[F]_dz) (ek : 'cV[F]_dk) (mk : 'I_dk -> 'cV[F]_dz) (KK : 'M[F]_dk) :
  L^T = L ->
  let Ekz : 'M[F]_(dk, dz) := \matrix_(j, i) (ek j 0 * mk j i 0) in
  Equad mq Sq A (- bv) L
  - 2%:R * (\sum_j ek j 0 * sc ((col j MK)^T *m L *m (A *m mk j - bv)))
  + \tr (MK^T *m L *m MK *m KK)
  = EquadPhi 0 (row_mx (- A) MK) bv L (col_mx mq ek) (block_mx (Sq + mq *m mq^T) Ekz^T Ekz KK).
Proof.
move=> Lsym Ekz; rewrite EquadPhi_block // /EquadFeat /Equad.
have -> : \sum_j ek j 0 * sc ((col j MK)^T *m L *m (A *m mk j - bv))
          = \sum_j ek j 0 * sc ((col j MK)^T *m (L *m A *m mk j + - (L *m bv))).
  by apply: eq_bigr => j _; rewrite !(mulmxBr, mulmxDr, mulmxN) !mulmxA.
rewrite cross_trace -/Ekz.
have -> : \tr ((- A)^T *m L *m - A *m (Sq + mq *m mq^T))
          = \tr (A^T *m L *m A *m Sq) + sc ((A *m mq)^T *m L *m (A *m mq)).
  rewrite trN !(mulNmx, mulmxN) opprK mulmxDr mxtraceD; congr (_ + _).
  by rewrite mulmxA mxtrace_mulC sc_trace trmx_mul !mulmxA.
have -> : \tr (MK^T *m L *m - A *m Ekz^T) = - \tr (MK^T *m (L *m A) *m Ekz^T).
  by rewrite mulmxN mulNmx raddfN /= !mulmxA.
rewrite mulNmx.
set u := A *m mq; set v := MK *m ek; clearbody u v.
have S3 : sc (bv^T *m L *m u) = sc (u^T *m L *m bv) by exact: sc_symL.
rewrite !(trD, trN, trmx0) !(mulmxDl, mulmxDr, mulmxN, mulNmx, mul0mx) !mulmxA !(scD, scN) S3.
have -> : sc (0 : 'M[F]_1) = 0 by rewrite /sc mxE.
set t1 := \tr _; set t2 := \tr _; set t3 := \tr _.
set s1 := sc _; set s2 := sc _; set s3 := sc _; set s4 := sc _.
clearbody t1 t2 t3 s1 s2 s3 s4; ring.
Qed.

End FeatMx.

(* ------------------------------------------------------------------------------------------------ *)
(* Model level                                                                                        *)
(* ------------------------------------------------------------------------------------------------ *)
Section FeatSpec.
Variable F : realFieldType.
Variable LS : logS F.
Notation mat := (mat F).
Notation vec := (vec F).


Lemma mxf_M_split Dy Dx Dk (M : mat) :
  mxf Dy (Dx + Dk) M = row_mx (mxf Dy Dx (Mlin M)) (mxf Dy Dk (Mk Dx M)).
Proof.
apply/matrixP => i j; rewrite [LHS]mxE.
by case: (split_ordP j) => j' ->; rewrite ?row_mxEl ?row_mxEr !mxE.
Qed.

Lemma sym_mxf n (L : mat) : (forall i j, (i < n)%N -> (j < n)%N -> L i j = L j i) -> (mxf n n L)^T = mxf n n L.
Proof. by move=> H; apply/matrixP => i j; rewrite !mxE; apply: H. Qed.

Lemma kk_termE Dx Dk Dy (M Lam Ekk : mat) :
  kk_term Dx Dk Dy M Lam Ekk
  = \tr ((mxf Dy Dk (Mk Dx M))^T *m mxf Dy Dy Lam *m mxf Dy Dk (Mk Dx M) *m mxf Dk Dk Ekk).
Proof.
rewrite /kk_term traceE (mxf_mul Dy Dy Dy) (mxf_mul Dy Dk Dy) (mxf_mul Dk Dk Dy) (mxf_tr Dk Dy).
by rewrite !mulmxA mxtrace_mulC !mulmxA.
Qed.

(* the kernel-linear cross term of both integrals *)
Lemma lin_term D Dk Dy (MK At : mat) (bt Ek : vec) (mk : nat -> vec) :
  sumn Dy (fun i => sumn Dk (fun j => MK i j * (Ek j * (mvec D At (mk j) i + bt i))))
  = \sum_(j < Dk) (cvf Dk Ek) j 0 * sc ((col j (mxf Dy Dk MK))^T *m (mxf Dy D At *m cvf D (mk j) + cvf Dy bt)).
Proof.
rewrite sumnE (eq_bigr _ (fun i _ => sumnE _ _)) exchange_big /=; apply: eq_bigr => j _.
rewrite /sc !mxE big_distrr /=; apply: eq_bigr => i _.
by rewrite !mxE /mvec sumnE mulrCA; congr (_ * (_ * (_ + _))); apply: eq_bigr => k _; rewrite !mxE.
Qed.

(* what the code assembles, in expanded form (Ml = first Dx columns of M, MK = last Dk columns) *)
Lemma feat_log_cond_y_expanded Dx Dk Dy (M : mat) (b : vec) (Lam : mat) (hS : LS)
    (mx : vec) (Sx : mat) (Ek : vec) (mk : nat -> vec) (Ekk : mat) (y : vec) :
  (forall i j, (i < Dy)%N -> (j < Dy)%N -> Lam i j = Lam j i) ->
  let Ekx : 'M[F]_(Dk, Dx) := \matrix_(j, i) (Ek j * mk j i) in
  feat_log_cond_y Dx Dk Dy M b Lam hS mx Sx Ek mk Ekk y
  = emb LS (- half F * EquadFeat (cvf Dy y) (cvf Dy b) (mxf Dy Dy Lam) (mxf Dy Dx (Mlin M)) (mxf Dy Dk (Mk Dx M))
                                 (cvf Dx mx) (mxf Dx Dx Sx) (cvf Dk Ek) Ekx (mxf Dk Dk Ekk))
    - hS - hl2p LS *+ Dy.
Proof.
move=> /sym_mxf Lsym Ekx.
rewrite /feat_log_cond_y E_quadratic_inner_mx /E_linear /aff lin_term kk_termE.
rewrite !dotE !cvf_add !cvf_mvec !mxf_tab (mxf_mul Dy Dy Dx).
rewrite -/(sc _) -/(sc _).
rewrite (cross_trace (mxf Dy Dy Lam *m mxf Dy Dx (Mlin M)) (mxf Dy Dk (Mk Dx M)) (cvf Dk Ek) (fun j => cvf Dx (mk j))).
have -> : \matrix_(j, i) (cvf Dk Ek j 0 * cvf Dx (mk j) i 0) = Ekx.
  by apply/matrixP => j i; rewrite !mxE.
congr (emb _ _ - _ - _).
set L := mxf Dy Dy Lam in Lsym *; set Ml := mxf Dy Dx _; set MK := mxf Dy Dk _.
set ek := cvf Dk Ek; set bv := cvf Dy b; set yv := cvf Dy y; set S := mxf Dx Dx Sx; set KK := mxf Dk Dk Ekk.
set m := cvf Dx mx.
clearbody L Ml MK ek bv yv S KK m Ekx.
exact: feat_y_algebra.
Qed.

(* 1. integrate_log_conditional_y(p_x, y) of the feature models = E_{p(x)}[ln N(y; M phi(x) + b, Sigma)]:
   EquadPhi with the first and second moments of phi(x) = (x, k(x)) under p(x) = N(mx, Sx) *)
Theorem feat_log_cond_y_spec Dx Dk Dy (M : mat) (b : vec) (Lam : mat) (hS : LS)
    (mx : vec) (Sx : mat) (Ek : vec) (mk : nat -> vec) (Ekk : mat) (y : vec) :
  (forall i j, (i < Dy)%N -> (j < Dy)%N -> Lam i j = Lam j i) ->
  let m := cvf Dx mx in
  let Ekx : 'M[F]_(Dk, Dx) := \matrix_(j, i) (Ek j * mk j i) in
  let EfV : 'cV[F]_(Dx + Dk) := col_mx m (cvf Dk Ek) in
  let EffM : 'M[F]_(Dx + Dk) := block_mx (mxf Dx Dx Sx + m *m m^T) Ekx^T Ekx (mxf Dk Dk Ekk) in
  feat_log_cond_y Dx Dk Dy M b Lam hS mx Sx Ek mk Ekk y
  = emb LS (- half F * EquadPhi (cvf Dy y) (mxf Dy (Dx + Dk) M) (cvf Dy b) (mxf Dy Dy Lam) EfV EffM)
    - hS - hl2p LS *+ Dy.
Proof.
move=> Hsym m Ekx EfV EffM.
rewrite feat_log_cond_y_expanded // mxf_M_split /EfV /EffM EquadPhi_block //.
exact: sym_mxf.
Qed.

(* 3. no kernels (Dk = 0): the feature model is the linear conditional; the value is the right-hand side of
   C14_expected_log_conditional_y for a conditional with the same M, b, Lambda, hS *)
Theorem feat_no_kernels Dx Dy (M : mat) (b : vec) (Lam : mat) (hS : LS)
    (mx : vec) (Sx : mat) (Ek : vec) (mk : nat -> vec) (Ekk : mat) (y : vec) :
  (forall i j, (i < Dy)%N -> (j < Dy)%N -> Lam i j = Lam j i) ->
  feat_log_cond_y Dx 0 Dy M b Lam hS mx Sx Ek mk Ekk y
  = emb LS (- half F * Equad (cvf Dx mx) (mxf Dx Dx Sx) (- mxf Dy Dx (Mlin M)) (cvf Dy y - cvf Dy b) (mxf Dy Dy Lam))
    - hl2p LS *+ Dy - hS.
Proof.
move=> Hsym; rewrite feat_log_cond_y_expanded // EquadFeat_nokernel EquadPhi_gauss; last exact: sym_mxf.
by rewrite addrAC.
Qed.

(* 4. constant kernels k_j = 1 (Ek j = 1, mk j = mx, Ekk i j = 1): the linear conditional with offset b + Mk 1 *)
Theorem feat_constant_kernels Dx Dk Dy (M : mat) (b : vec) (Lam : mat) (hS : LS)
    (mx : vec) (Sx : mat) (Ek : vec) (mk : nat -> vec) (Ekk : mat) (y : vec) :
  (forall i j, (i < Dy)%N -> (j < Dy)%N -> Lam i j = Lam j i) ->
  (forall j, (j < Dk)%N -> Ek j = 1) ->
  (forall j i, (j < Dk)%N -> (i < Dx)%N -> mk j i = mx i) ->
  (forall i j, (i < Dk)%N -> (j < Dk)%N -> Ekk i j = 1) ->
  let b1 : vec := vadd b (mvec Dk (Mk Dx M) (fun _ => 1)) in
  feat_log_cond_y Dx Dk Dy M b Lam hS mx Sx Ek mk Ekk y
  = emb LS (- half F * Equad (cvf Dx mx) (mxf Dx Dx Sx) (- mxf Dy Dx (Mlin M)) (cvf Dy y - cvf Dy b1) (mxf Dy Dy Lam))
    - hl2p LS *+ Dy - hS.
Proof.
move=> Hsym HE Hm HK b1; rewrite feat_log_cond_y_expanded //.
have Lsym := sym_mxf Hsym.
have -> : cvf Dk Ek = const_mx 1 by apply/matrixP => j i; rewrite !mxE HE.
have -> : \matrix_(j < Dk, i < Dx) (Ek j * mk j i) = (const_mx 1 : 'cV[F]_Dk) *m (cvf Dx mx)^T.
  apply/matrixP => j i; rewrite !mxE big_ord1 !mxE HE // Hm //; ring.
have -> : mxf Dk Dk Ekk = (const_mx 1 : 'cV[F]_Dk) *m (const_mx 1 : 'cV[F]_Dk)^T.
  by apply/matrixP => j i; rewrite !mxE big_ord1 !mxE HK // mulr1.
rewrite EquadFeat_const // EquadPhi_gauss // addrAC.
have -> // : cvf Dy b1 = cvf Dy b + mxf Dy Dk (Mk Dx M) *m const_mx 1.
rewrite /b1 cvf_add cvf_mvec; congr (_ + _ *m _).
by apply/matrixP => j i; rewrite !mxE.
Qed.

(* 4'. the same at model level: constant kernels = no kernels with the offset b + Mk 1 *)
Corollary feat_constant_kernels_model Dx Dk Dy (M : mat) (b : vec) (Lam : mat) (hS : LS)
    (mx : vec) (Sx : mat) (Ek : vec) (mk : nat -> vec) (Ekk : mat) (y : vec) (Ek0 : vec) (mk0 : nat -> vec) (Ekk0 : mat) :
  (forall i j, (i < Dy)%N -> (j < Dy)%N -> Lam i j = Lam j i) ->
  (forall j, (j < Dk)%N -> Ek j = 1) ->
  (forall j i, (j < Dk)%N -> (i < Dx)%N -> mk j i = mx i) ->
  (forall i j, (i < Dk)%N -> (j < Dk)%N -> Ekk i j = 1) ->
  feat_log_cond_y Dx Dk Dy M b Lam hS mx Sx Ek mk Ekk y
  = feat_log_cond_y Dx 0 Dy M (vadd b (mvec Dk (Mk Dx M) (fun _ => 1))) Lam hS mx Sx Ek0 mk0 Ekk0 y.
Proof. by move=> Hsym HE Hm HK; rewrite feat_constant_kernels // feat_no_kernels. Qed.

Lemma mxf_flc_A Dx Dy (M : mat) :
  mxf Dy (Dy + Dx) (flc_A Dy M) = row_mx 1%:M (- mxf Dy Dx (Mlin M)).
Proof.
apply/matrixP => i j; rewrite [LHS]mxE /flc_A.
case: (split_ordP j) => j' ->; rewrite ?row_mxEl ?row_mxEr !mxE /=.
- by rewrite -val_eqE /=; case: (_ == _).
- by rewrite addKn.
Qed.

(* 2. integrate_log_conditional(q), q = N(mq, Sq) over z = (y, x): E_q of the normal log-density of the residual
   r(z) = A z - Mk k(x) - b, A = [I, -Mlin]; Ek j * mk j = E_q[k_j z] *)
Theorem feat_log_cond_spec Dx Dk Dy (M : mat) (b : vec) (Lam : mat) (hS : LS)
    (mq : vec) (Sq : mat) (Ek : vec) (mk : nat -> vec) (Ekk : mat) :
  let Dz := (Dy + Dx)%N in
  let A : 'M[F]_(Dy, Dy + Dx) := row_mx 1%:M (- mxf Dy Dx (Mlin M)) in
  let L := mxf Dy Dy Lam in let MK := mxf Dy Dk (Mk Dx M) in let bv := cvf Dy b in
  feat_log_cond Dx Dk Dy M b Lam hS mq Sq Ek mk Ekk
  = emb LS (- half F * (Equad (cvf Dz mq) (mxf Dz Dz Sq) A (- bv) L
                        - 2%:R * (\sum_(j < Dk) Ek j * sc ((col j MK)^T *m L *m (A *m cvf Dz (mk j) - bv)))
                        + \tr (MK^T *m L *m MK *m mxf Dk Dk Ekk)))
    - hS - hl2p LS *+ Dy.
Proof.
move=> Dz A L MK bv.
rewrite /feat_log_cond E_quadratic_inner_mx lin_term kk_termE -/Dz.
rewrite !cvf_mvec !mxf_tab (mxf_mul Dy Dy Dz) mxf_tab mxf_flc_A cvf_opp -/A -/L -/MK -/bv.
congr (emb _ _ - _ - _); congr (_ * _).
rewrite /Equad -[L *m A *m _]mulmxA -mulmxDr !mulmxA.
have -> : \sum_(j < Dk) cvf Dk Ek j 0 * sc ((col j MK)^T *m (L *m A *m cvf Dz (mk j) + L *m - bv))
          = \sum_(j < Dk) Ek j * sc ((col j MK)^T *m L *m (A *m cvf Dz (mk j) - bv)).
  by apply: eq_bigr => j _; rewrite mxE -[L *m A *m _]mulmxA -mulmxDr !mulmxA.
set t1 := \tr _; set t2 := \tr _; set s1 := sc _; set s2 := \sum_(j < Dk) _.
clearbody t1 t2 s1 s2; ring.
Qed.

(* 2'. the same through the joint features (z, k(x)) of the residual r = 0 - [-A | Mk] (z, k) - b:
   E_q[r' L r] from E[(z,k)] = (mq, Ek) and E[(z,k)(z,k)'] = [[Sq + mq mq', Ekz'], [Ekz, Ekk]], Ekz j i = Ek j * mk j i *)
Theorem feat_log_cond_spec_phi Dx Dk Dy (M : mat) (b : vec) (Lam : mat) (hS : LS)
    (mq : vec) (Sq : mat) (Ek : vec) (mk : nat -> vec) (Ekk : mat) :
  (forall i j, (i < Dy)%N -> (j < Dy)%N -> Lam i j = Lam j i) ->
  let Dz := (Dy + Dx)%N in
  let A : 'M[F]_(Dy, Dy + Dx) := row_mx 1%:M (- mxf Dy Dx (Mlin M)) in
  let m := cvf Dz mq in
  let Ekz : 'M[F]_(Dk, Dz) := \matrix_(j, i) (Ek j * mk j i) in
  feat_log_cond Dx Dk Dy M b Lam hS mq Sq Ek mk Ekk
  = emb LS (- half F * EquadPhi 0 (row_mx (- A) (mxf Dy Dk (Mk Dx M))) (cvf Dy b) (mxf Dy Dy Lam)
                                (col_mx m (cvf Dk Ek)) (block_mx (mxf Dz Dz Sq + m *m m^T) Ekz^T Ekz (mxf Dk Dk Ekk)))
    - hS - hl2p LS *+ Dy.
Proof.
move=> /sym_mxf Lsym Dz A m Ekz; rewrite feat_log_cond_spec -/Dz -/A -/m.
have -> : Ekz = \matrix_(j, i) (cvf Dk Ek j 0 * cvf Dz (mk j) i 0).
  by apply/matrixP => j i; rewrite !mxE.
rewrite -(feat_z_algebra (cvf Dy b) A (mxf Dy Dk (Mk Dx M)) m (mxf Dz Dz Sq) (cvf Dk Ek)
             (fun j => cvf Dz (mk j)) (mxf Dk Dk Ekk) Lsym).
congr (emb _ (_ * (_ - _ * _ + _)) - _ - _).
by apply: eq_bigr => j _; rewrite mxE.
Qed.

(* 3'. no kernels, at model level and WITHOUT any hypothesis: with Dk = 0 the feature integral is literally
   integrate_log_conditional_y of the linear conditional with the same M, b, Lambda, hS *)
Theorem feat_no_kernels_model (c : cond LS) (p : measure LS) (ys : seq vec) k (Ek : vec) (mk : nat -> vec) (Ekk : mat) :
  let p1 := prepare p in let rp := bidx (uR p) k in
  feat_log_cond_y (cDx c) 0 (cDy c) (effM c 0%N) (effb c 0%N) (cLam c 0%N) (chS c 0%N)
                  (getmu p1 rp) (getS p1 rp) Ek mk Ekk (nth vzero ys (bidx (size ys) k))
  = int_log_cond_y c p ys k.
Proof.
move=> p1 rp; rewrite /feat_log_cond_y /int_log_cond_y -/p1 -/rp /kk_term /=.
set Dy := cDy c; set Dx := cDx c; set y := nth _ _ _; set L := cLam c 0%N.
have -> : trace Dy (mmul Dy L (mmul 0 (Mk Dx (effM c 0%N)) (mmul 0 Ekk (mtr (Mk Dx (effM c 0%N)))))) = 0.
  rewrite /trace /mmul /= -[RHS](sumn0 F Dy); apply: eq_sumn => i _.
  by rewrite -[RHS](sumn0 F Dy); apply: eq_sumn => j _; rewrite mulr0.
have -> : sumn Dy (fun _ => 0) = 0 :> F by rewrite sumn0.
rewrite !addr0.
suff -> : dot Dy y (vadd (E_linear Dx (getmu p1 rp) (tabm Dy Dx (mmul Dy L (Mlin (effM c 0%N)))) (mvec Dy L (effb c 0%N)))
                         (mvec Dy L (mvec 0 (Mk Dx (effM c 0%N)) Ek)))
          = dot Dy y (E_linear Dx (getmu p1 rp) (tabm Dy Dx (mmul Dy L (effM c 0%N))) (mvec Dy L (effb c 0%N))) by [].
apply: eq_sumn => i _; rewrite /vadd /mvec /=.
have -> : sumn Dy (fun k0 => L i k0 * 0) = 0.
  by rewrite -[RHS](sumn0 F Dy); apply: eq_sumn => j _; rewrite mulr0.
by rewrite addr0.
Qed.

End FeatSpec.
Print Assumptions EquadPhi_finite_support.
Print Assumptions feat_log_cond_y_spec.
Print Assumptions feat_log_cond_y_expanded.
Print Assumptions feat_log_cond_spec.
Print Assumptions feat_log_cond_spec_phi.
Print Assumptions feat_no_kernels.
Print Assumptions feat_no_kernels_model.
Print Assumptions feat_constant_kernels.
Print Assumptions feat_constant_kernels_model.
