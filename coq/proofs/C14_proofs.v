(* C14: expected log-factor and expected log-conditional integrals are exact (linear classes). *)
From mathcomp Require Import all_ssreflect all_fingroup all_algebra.
From mathcomp Require Import ring.
From GT Require Import Tensor DetExec LogDom MxTac MxLemmas Obj Factor Measure Pdf Cond Moments ExpLog EvalLemmas Spec Wick C01_proofs PdfLemmas C04_proofs C1013_proofs.
Set Implicit Arguments.
Unset Strict Implicit.
Unset Printing Implicit Defensive.
Import GRing.Theory Num.Theory.
Local Open Scope ring_scope.

Section C14.
Variable F : realFieldType.
Variable LS : logS F.
Notation mat := (mat F).
Notation vec := (vec F).
Notation measure := (measure LS).
Notation cond := (cond LS).
Notation factor := (factor LS).

(* Gaussian second moments (specification): for z ~ N(m, S),
   E[(A z + a)' L (A z + a)] = tr(A' L A S) + (A m + a)' L (A m + a) *)
Definition Equad (n k : nat) (m : 'cV[F]_n) (S : 'M[F]_n) (A : 'M[F]_(k, n)) (a : 'cV[F]_k) (L : 'M[F]_k) : F :=
  \tr (A^T *m L *m A *m S) + sc ((A *m m + a)^T *m L *m (A *m m + a)).

(* the quadratic-inner moment formula of the library in matrix form *)
Lemma E_quadratic_inner_mx D K (mu : vec) (S A : mat) (a : vec) (B : mat) (b : vec) :
  E_quadratic_inner D mu S K A a B b
  = \tr ((mxf K D A)^T *m mxf K D B *m mxf D D S)
    + sc ((mxf K D A *m cvf D mu + cvf K a)^T *m (mxf K D B *m cvf D mu + cvf K b)).
Proof.
rewrite /E_quadratic_inner /aff traceE !dotE.
rewrite (mxf_mul D D D) (mxf_mul D K D) (mxf_tr D K A).
rewrite cvf_vmat (mxf_mul D K D) (mxf_tr D K A) cvf_add !cvf_mvec.
set MA := mxf K D A; set MB := mxf K D B; set m := cvf D mu; set va := cvf K a; set vb := cvf K b.
rewrite -addrA -addrA; congr (_ + _).
have trD p q (X Y : 'M[F]_(p, q)) : (X + Y)^T = X^T + Y^T by rewrite linearD.
rewrite trD mulmxDl mulmxDr trmx_mul !mulmxA !scD /sc.
by rewrite addrA.
Qed.


Lemma core_moments (u v : measure) r : same_core u v -> cache_ok v -> umu v -> (r < uR u)%N ->
  mxf (uD u) (uD u) (getS v r) = invmx (Lm u r)
  /\ cvf (uD u) (getmu v r) = invmx (Lm u r) *m nuv u r.
Proof.
case: u => R D L n l S hS hL m z c; case: v => R' D' L' n' l' S' hS' hL' m' z' c'.
rewrite /same_core /core /= => [[ER ED EL En El Ec]] Hc Hm Hr; subst.
have [sy cS cld cmu cz] := Hc r Hr.
have [HS Emu] := cmu Hm; have [SL _ _] := cS HS.
by rewrite -(inv_unique SL); split.
Qed.

Lemma prepare_moments (u : measure) r : cache_ok u -> diag_ok u -> posdet u -> (r < uR u)%N ->
  mxf (uD u) (uD u) (getS (prepare u) r) = invmx (Lm u r)
  /\ cvf (uD u) (getmu (prepare u) r) = invmx (Lm u r) *m nuv u r.
Proof.
move=> Hc Hd Hp Hr; apply: core_moments => //.
- exact: prepare_same_core.
- exact: prepare_ok.
- by have [] := prepare_some u.
Qed.

(* E_u[ln f(x)] for every conjugate factor f: -1/2 E[x' Lambda_f x] + nu_f' E[x] + ln beta_f,
   with the TRUE mean and covariance of the measure's density; factor batch 1 or R *)
Lemma int_log_factor_spec (u : measure) (f : factor) r :
  cache_ok u -> diag_ok u -> posdet u -> uD u = fD f -> (r < uR u)%N -> (bidx (fR f) r < fR f)%N ->
  let D := uD u in let rf := bidx (fR f) r in
  let S := invmx (Lm u r) in let m := S *m nuv u r in
  int_log_factor u f r
  = emb LS (- half F * (\tr (mxf D D (fLam f rf) *m S) + sc (m^T *m mxf D D (fLam f rf) *m m))
            + sc ((cvf D (fnu f rf))^T *m m))
    + flb f rf.
Proof.
move=> Hc Hd Hp _ Hr _ D rf S m.
have [ES Em] := prepare_moments Hc Hd Hp Hr.
rewrite /int_log_factor -/D -/rf E_quadratic_inner_mx dotE mxf_id cvf_zero -/D ES Em -/S -/m.
by rewrite trmx1 !mul1mx !addr0 mulmxA.
Qed.


Lemma prepare_pdf (q : measure) r : pdf_ok q -> (r < uR q)%N -> prepare q = q.
Proof.
move=> Hq Hr; have [_ [_ _ Hm Hz] _ _] := Hq r Hr.
by rewrite /prepare; case: (ulnZ q) Hz => // z _; case: (umu q) Hm.
Qed.

Lemma mxf_ilc_A (c : cond) r :
  mxf (cDy c) (cDy c + cDx c) (ilc_A c r) = row_mx 1%:M (- cMm c r).
Proof.
apply/matrixP => i j; rewrite [LHS]mxE /ilc_A.
case: (split_ordP j) => j' ->; rewrite ?row_mxEl ?row_mxEr !mxE /=.
- by rewrite -val_eqE /=; case: (_ == _).
- by rewrite addKn.
Qed.

(* E_q[ln p(y|x)] for q over (y, x), y first: the expectation of the normal log-density of the residual
   y - M x - b = A z + a with A = [I, -M], a = -b *)
Lemma int_log_cond_spec (c : cond) (q : measure) k :
  cond_ok c -> pdf_ok q -> uD q = (cDy c + cDx c)%N ->
  (bidx (cR c) k < cR c)%N -> (bidx (uR q) k < uR q)%N ->
  let r := bidx (cR c) k in let rq := bidx (uR q) k in
  let A : 'M[F]_(cDy c, cDy c + cDx c) := row_mx 1%:M (- cMm c r) in
  int_log_cond c q k
  = emb LS (- half F * Equad (cvf (cDy c + cDx c) (getmu q rq)) (mxf (cDy c + cDx c) (cDy c + cDx c) (getS q rq))
                            A (- cbv c r) (invmx (cSg c r)))
    - hl2p LS *+ (cDy c) - hln LS (\det (cSg c r)).
Proof.
move=> Hc Hq _ Hr Hrq r rq A.
have [SL _ _ Hh _] := Hc r Hr.
have EL : cLm c r = invmx (cSg c r) by apply: inv_unique; apply: mulmx1C.
rewrite /int_log_cond -/r -/rq (prepare_pdf Hq Hrq) E_quadratic_inner_mx.
set Dy := cDy c; set Dz := (cDy c + cDx c)%N.
rewrite !mxf_tab (mxf_mul Dy Dy Dz) mxf_tab mxf_ilc_A -/A cvf_mvec cvf_opp -/(cLm c r) -/(cbv c r) EL Hh.
rewrite /Equad -[invmx _ *m A *m _]mulmxA -mulmxDr !mulmxA.
by rewrite addrAC.
Qed.


(* y -> E_{p(x)}[ln p(y|x)], evaluated at given y (the callable form is this function of y) *)
Lemma int_log_cond_y_spec (c : cond) (p : measure) (ys : seq vec) k :
  cond_ok c -> pdf_ok p -> cDx c = uD p -> cR c = 1%N ->
  (bidx (uR p) k < uR p)%N -> (bidx (size ys) k < size ys)%N ->
  let rp := bidx (uR p) k in let y := cvf (cDy c) (nth vzero ys (bidx (size ys) k)) in
  int_log_cond_y c p ys k
  = emb LS (- half F * Equad (cvf (cDx c) (getmu p rp)) (mxf (cDx c) (cDx c) (getS p rp))
                            (- cMm c 0%N) (y - cbv c 0%N) (invmx (cSg c 0%N)))
    - hl2p LS *+ (cDy c) - hln LS (\det (cSg c 0%N)).
Proof.
move=> Hc Hp _ HR Hrp _ rp y.
have H0 : (0 < cR c)%N by rewrite HR.
have [SL Lsym _ Hh _] := Hc 0%N H0.
have EL : cLm c 0 = invmx (cSg c 0) by apply: inv_unique; apply: mulmx1C.
rewrite /int_log_cond_y -/rp (prepare_pdf Hp Hrp) E_quadratic_inner_mx /E_linear /aff.
set Dy := cDy c; set Dx := cDx c.
rewrite !dotE cvf_add !cvf_mvec !mxf_tab (mxf_mul Dy Dy Dx) -/y.
rewrite -/(cLm c 0) -/(cbv c 0) -/(cMm c 0) Hh.
move: Lsym; rewrite EL; set L := invmx _ => Lsym.
set M := cMm c 0; set b := cbv c 0; set mu := cvf Dx _; set S := mxf Dx Dx _.
rewrite [in RHS]addrAC; congr (_ - _ - _); congr (emb _ _).
rewrite /Equad -/(sc _) -/(sc _).
have -> : L *m M *m mu + L *m b = L *m (M *m mu + b) by rewrite mulmxDr mulmxA.
have -> : - M *m mu + (y - b) = y - (M *m mu + b) by rewrite mulNmx opprD addrCA.
set w := M *m mu + b.
have -> : (- M)^T *m L *m - M = M^T *m (L *m M).
  by rewrite [(- _)^T]linearN /= mulNmx mulmxN mulNmx opprK mulmxA.
have E2 : (y - w)^T *m L *m (y - w)
        = y^T *m L *m y - y^T *m L *m w - w^T *m L *m y + w^T *m L *m w.
  rewrite [(y - w)^T]linearB /= !mulmxBl !mulmxBr; mx_abel.
have E3 : sc (w^T *m L *m y) = sc (y^T *m L *m w).
  by rewrite -sc_tr !trmx_mul trmxK Lsym mulmxA.
rewrite E2 !(scD, scN) E3 !mulmxA.
set t := \tr _; set s1 := sc _; set s2 := sc _; set s3 := sc _; clearbody t s1 s2 s3.
by rewrite /half; field.
Qed.
End C14.
Print Assumptions E_quadratic_inner_mx.
Print Assumptions int_log_factor_spec.
Print Assumptions int_log_cond_spec.
Print Assumptions int_log_cond_y_spec.
