(* C15 (NN-controlled conditional): set_control_variable(u) IS a general linear conditional -- class CFull, with
   M(u), b(u) read off the control function's output and the single covariance tiled over the batch of controls;
   every later operation (condition_on_x, set_y, the affine transformations, entropies) is therefore literally the
   general class's operation on that object, and the object satisfies the conditional invariant. *)
From mathcomp Require Import all_ssreflect all_algebra.
From GT Require Import Tensor DetExec LogDom Obj Factor Measure Pdf Cond EvalLemmas Spec.
Set Implicit Arguments.
Unset Strict Implicit.
Unset Printing Implicit Defensive.
Import GRing.Theory Num.Theory.
Local Open Scope ring_scope.

Section NN.
Variables (F : realFieldType) (LS : logS F).

Lemma nn_control_fields (base : cond LS) Ru (M : nat -> mat F) (b : nat -> vec F) r : (r < Ru)%N ->
  let c := nn_set_control base Ru M b in
  [/\ ccl c = CFull, cR c = Ru, cDy c = cDy base /\ cDx c = cDx base,
      cMm c r = mxf (cDy base) (cDx base) (M r) /\ cbv c r = cvf (cDy base) (b r)
    & [/\ cSg c r = cSg base 0%N, cLm c r = cLm base 0%N & chS c r = chS base 0%N]].
Proof.
move=> Hr c; split => //; split.
- by rewrite /cMm /effM /= mxf_tabb.
- by rewrite /cbv /effb /= cvf_tabbv.
Qed.

Lemma nn_control_ok (base : cond LS) Ru (M : nat -> mat F) (b : nat -> vec F) :
  cond_ok base -> (0 < cR base)%N -> cond_ok (nn_set_control base Ru M b).
Proof.
move=> Hb R0 r Hr; have [Hi Hs Hp Hh _] := Hb 0%N R0.
by split.
Qed.
End NN.
Print Assumptions nn_control_fields.
Print Assumptions nn_control_ok.
