(* C15: specialised representations agree with the general one. *)
From mathcomp Require Import all_ssreflect all_fingroup all_algebra.
From mathcomp Require Import ring.
From GT Require Import Tensor DetExec LogDom MxTac MxLemmas Obj Factor Measure Pdf Cond Moments EvalLemmas Spec C01_proofs PdfLemmas C04_proofs C05_proofs C06_proofs C0809_proofs C1013_proofs.
Set Implicit Arguments.
Unset Strict Implicit.
Unset Printing Implicit Defensive.
Import GRing.Theory Num.Theory.
Local Open Scope ring_scope.

Section C15.
Variable F : realFieldType.
Variable LS : logS F.
Notation mat := (mat F).
Notation vec := (vec F).
Notation lvec := (nat -> LS).
Notation measure := (measure LS).
Notation cond := (cond LS).
Notation factor := (factor LS).

(* ---- factors: the general ConjugateFactor with the same Lambda, nu, ln_beta ---- *)
Definition as_general (f : factor) : factor := Factor KGeneral (fR f) (fD f) (fLam f) (fnu f) (flb f).

(* two measures agree: same shape, same natural parameters on the index range, and equal caches wherever
   both have them (what "changes cost only, never values" means) *)
Definition magree (u v : measure) : Prop :=
  [/\ uR u = uR v, uD u = uD v,
      forall r i j, (r < uR u)%N -> (i < uD u)%N -> (j < uD u)%N -> uLam u r i j = uLam v r i j,
      forall r i, (r < uR u)%N -> (i < uD u)%N -> unu u r i = unu v r i
    & forall r, (r < uR u)%N -> ulb u r = ulb v r]
  /\ (uSig u -> uSig v -> forall r i j, (r < uR u)%N -> (i < uD u)%N -> (j < uD u)%N ->
        getS u r i j = getS v r i j /\ gethS u r = gethS v r).

(* same shape and same natural parameters on the index range *)
Definition pagree (u v : measure) : Prop :=
  [/\ uR u = uR v, uD u = uD v,
      forall r i j, (r < uR u)%N -> (i < uD u)%N -> (j < uD u)%N -> uLam u r i j = uLam v r i j,
      forall r i, (r < uR u)%N -> (i < uD u)%N -> unu u r i = unu v r i
    & forall r, (r < uR u)%N -> ulb u r = ulb v r].

Lemma pagree_posdet (u v : measure) : pagree u v -> posdet u -> posdet v.
Proof.
case: u => R D L n l S hS hL m z c; case: v => R' D' L' n' l' S' hS' hL' m' z' c'.
move=> [/= ER ED HL _ _]; subst R' D' => Hp r Hr.
have := Hp r Hr; rewrite /Lm /=.
by have -> : mxf D D (L r) = mxf D D (L' r) by apply/mxfP => a b Ha Hb; apply: HL.
Qed.

(* two consistent objects with the same natural parameters agree, caches included *)
Lemma magree_of (u v : measure) : cache_ok u -> cache_ok v -> pagree u v -> magree u v.
Proof.
case: u => R D L n l S hS hL m z c; case: v => R' D' L' n' l' S' hS' hL' m' z' c'.
move=> H1 H2 [/= ER ED HL Hn Hl]; subst R' D'.
split=> //= HS HS' r i j Hr Hi Hj.
have [_ /(_ HS) [SL1 _ E1] _ _ _] := H1 r Hr.
have [_ /(_ HS') [SL2 _ E2] _ _ _] := H2 r Hr.
have EL : mxf D D (L r) = mxf D D (L' r) by apply/mxfP => a b Ha Hb; apply: HL.
move: SL1 SL2 E1 E2; rewrite /Sg /Lm /= -EL => SL1 SL2 E1 E2.
have ES := inv_same SL1 SL2.
split; first by move/mxfP: ES; apply.
by rewrite E1 E2 ES.
Qed.

(* natural parameters of the specialised paths = those of the general path, entrywise *)
Lemma gprod_pagree R i j upd (u : measure) (f : factor) : fwf f ->
  pagree (gprod R i j upd u f) (gprod R i j upd u (as_general f)).
Proof.
case: u => R1 D1 uL un ul uS uhS uhL um uz uc; case: f => k R2 D fL fn fl.
rewrite /fwf /gprod /as_general /=.
case: k => [|v g||] Hwf; case: upd => /=; try (case: uS => [S0|] /=);
  split=> //=;
  try (by move=> r a b Hr Ha Hb; rewrite !tabbE // /madd; first [rewrite Hwf | rewrite (proj1 Hwf)]; rewrite /mzero addr0);
  by move=> r a Hr Ha; rewrite !tabbvE // /vadd (proj2 Hwf) /vzero addr0.
Qed.

Lemma gprod_special_general R i j upd (u : measure) (f : factor) :
  (forall k, (k < R)%N -> (i k < uR u)%N) -> (forall k, (k < R)%N -> (j k < fR f)%N) ->
  cache_ok u -> fwf f -> fwf1 f -> fsym f -> uD u = fD f -> posdet (gprod R i j upd u f) ->
  magree (gprod R i j upd u f) (gprod R i j upd u (as_general f)).
Proof.
move=> Hi Hj Hu Hwf Hwf1 Hsym HD Hp.
have Hpa := gprod_pagree R i j upd u Hwf.
apply: magree_of => //; first exact: gprod_ok.
apply: gprod_ok => //; exact: (pagree_posdet Hpa).
Qed.


(* the product with a rank-one / linear / constant factor (Sherman-Morrison, covariance reuse) agrees
   with the product with the general factor (full inversion), on every code path *)
Lemma multiply_special_general upd (u : measure) (f : factor) :
  cache_ok u -> fwf f -> fwf1 f -> fsym f -> uD u = fD f -> posdet (multiply upd u f) ->
  magree (multiply upd u f) (multiply upd u (as_general f)).
Proof.
rewrite !multiply_gprod; apply: gprod_special_general => k Hk.
- by rewrite ltn_divLR //; case: (fR f) Hk => //; rewrite muln0.
- by rewrite ltn_mod; case: (fR f) Hk => //; rewrite muln0.
Qed.
Lemma hadamard_special_general upd (u : measure) (f : factor) :
  uR u = fR f \/ (uR u = 1%N /\ (0 < fR f)%N) \/ (fR f = 1%N /\ (0 < uR u)%N) ->
  cache_ok u -> fwf f -> fwf1 f -> fsym f -> uD u = fD f -> posdet (hadamard upd u f) ->
  magree (hadamard upd u f) (hadamard upd u (as_general f)).
Proof.
move=> Hs; rewrite !hadamard_gprod.
have Hb k : (k < maxn (uR u) (fR f))%N -> (bidx (uR u) k < uR u)%N /\ (bidx (fR f) k < fR f)%N.
  case: Hs => [->|[[-> H0]|[-> H0]]].
  - by rewrite maxnn => Hk; split; apply: bidx_lt.
  - by rewrite (maxn_idPr H0) => Hk; split=> //; apply: bidx_lt.
  - by rewrite (maxn_idPl H0) => Hk; split=> //; apply: bidx_lt.
by apply: gprod_special_general => k /Hb [].
Qed.
Lemma special_general_eval (f : factor) r (x : vec) : feval (as_general f) r x = feval f r x.
Proof. by []. Qed.

(* ---- diagonal classes: invert_diagonal is the inverse on diagonal matrices ---- *)
Lemma inv_ld_diag D (A : mat) :
  (forall i j, (i < D)%N -> (j < D)%N -> i != j -> A i j = 0) -> 0 < \det (mxf D D A) ->
  mxf D D (inv_ld LS true D A).1 = mxf D D (inv_ld LS false D A).1
  /\ (inv_ld LS true D A).2 = (inv_ld LS false D A).2.
Proof.
move=> Hd dA.
have dn0 : \det (mxf D D A) != 0 by apply: lt0r_neq0.
have [H1 H2] := diag_inv Hd dn0.
have dn : detn D A != 0 by rewrite detnE.
rewrite /inv_ld /=; split; last by rewrite H2 detnE.
by rewrite mxf_tab mxf_inv //; apply: inv_unique; apply: mulmx1C.
Qed.
(* GaussianDiagPDF and GaussianPDF built from the same diagonal covariance are the same density *)
Lemma diag_pdf_is_pdf R D (Sig : nat -> mat) (mu : nat -> vec) Lam hS r (x : vec) :
  pdf_args_ok (LS:=LS) true R D Sig Lam hS -> pdf_args_ok (LS:=LS) false R D Sig Lam hS -> (r < R)%N ->
  ueval (mk_pdf (LS:=LS) true R D Sig mu Lam hS) r x = ueval (mk_pdf (LS:=LS) false R D Sig mu Lam hS) r x.
Proof. by move=> Ht Hf Hr; rewrite !mk_pdf_eval. Qed.
(* a diagonal measure's integral equals the full measure's *)
Lemma diag_measure_log_integral (u : measure) r :
  cache_ok u -> diag_ok u -> posdet u -> (r < uR u)%N -> is_diag (ucls u) ->
  let v := Measure (uR u) (uD u) (uLam u) (unu u) (ulb u) (uSig u) (uhldS u) (uhldL u) (umu u) (ulnZ u) CMeas in
  (log_integral u).2 r = (log_integral v).2 r.
Proof.
move=> Hc Hd Hp Hr _ v.
have Hcv : cache_ok v by move=> k Hk; case: (Hc k Hk) => h1 h2 h3 h4 h5; split.
have Hdv : diag_ok v by [].
have Hpv : posdet v by [].
have [-> _ _ _] := log_integral_spec Hc Hd Hp Hr.
have Hrv : (r < uR v)%N by [].
by have [-> _ _ _] := log_integral_spec Hcv Hdv Hpv Hrv.
Qed.

(* materialised arrays only depend on the entries in range: Leibniz equality of the tables *)
Lemma tabv_ext n (v v' : vec) : (forall i, (i < n)%N -> v i = v' i) -> tabv n v = tabv n v'.
Proof.
move=> H; rewrite /tabv /mkseq.
have -> // : [seq v i | i <- iota 0 n] = [seq v' i | i <- iota 0 n].
by apply/eq_in_map => i; rewrite mem_iota add0n => /andP [_ Hi]; apply: H.
Qed.
Lemma tabl_ext n (v v' : lvec) : (forall i, (i < n)%N -> v i = v' i) -> tabl n v = tabl n v'.
Proof.
move=> H; rewrite /tabl /mkseq.
have -> // : [seq v i | i <- iota 0 n] = [seq v' i | i <- iota 0 n].
by apply/eq_in_map => i; rewrite mem_iota add0n => /andP [_ Hi]; apply: H.
Qed.
Lemma tabm_ext m n (A A' : mat) :
  (forall i j, (i < m)%N -> (j < n)%N -> A i j = A' i j) -> tabm m n A = tabm m n A'.
Proof.
move=> H; rewrite /tabm /mkseq.
have -> // : [seq [seq A i j | j <- iota 0 n] | i <- iota 0 m] = [seq [seq A' i j | j <- iota 0 n] | i <- iota 0 m].
apply/eq_in_map => i; rewrite mem_iota add0n => /andP [_ Hi].
by apply/eq_in_map => j; rewrite mem_iota add0n => /andP [_ Hj]; apply: H.
Qed.
Lemma tabb_ext R m n (A A' : nat -> mat) :
  (forall r i j, (r < R)%N -> (i < m)%N -> (j < n)%N -> A r i j = A' r i j) -> tabb R m n A = tabb R m n A'.
Proof.
move=> H; rewrite /tabb /mkseq.
have -> // : [seq tabm m n (A r) | r <- iota 0 R] = [seq tabm m n (A' r) | r <- iota 0 R].
apply/eq_in_map => r; rewrite mem_iota add0n => /andP [_ Hr].
by apply: tabm_ext => i j Hi Hj; apply: H.
Qed.
Lemma tabbv_ext R n (A A' : nat -> vec) :
  (forall r i, (r < R)%N -> (i < n)%N -> A r i = A' r i) -> tabbv R n A = tabbv R n A'.
Proof.
move=> H; rewrite /tabbv /mkseq.
have -> // : [seq tabv n (A r) | r <- iota 0 R] = [seq tabv n (A' r) | r <- iota 0 R].
apply/eq_in_map => r; rewrite mem_iota add0n => /andP [_ Hr].
by apply: tabv_ext => i Hi; apply: H.
Qed.

(* the GaussianPDF constructor reads its arguments only on the index range *)
Definition oagree3 R D (L L' : option (nat -> mat)) : Prop :=
  match L, L' with
  | Some A, Some A' => forall r i j, (r < R)%N -> (i < D)%N -> (j < D)%N -> A r i j = A' r i j
  | None, None => True
  | _, _ => False
  end.
Definition oagree1 R (h h' : option lvec) : Prop :=
  match h, h' with
  | Some a, Some a' => forall r, (r < R)%N -> a r = a' r
  | None, None => True
  | _, _ => False
  end.
Lemma mk_pdf_ext diag R D (Sig Sig' : nat -> mat) (mu mu' : nat -> vec) Lam Lam' hS hS' :
  (forall r i j, (r < R)%N -> (i < D)%N -> (j < D)%N -> Sig r i j = Sig' r i j) ->
  (forall r i, (r < R)%N -> (i < D)%N -> mu r i = mu' r i) ->
  oagree3 R D Lam Lam' -> oagree1 R hS hS' ->
  mk_pdf (LS:=LS) diag R D Sig mu Lam hS = mk_pdf (LS:=LS) diag R D Sig' mu' Lam' hS'.
Proof.
move=> HS Hm HL Hh; rewrite /mk_pdf (tabb_ext HS) (tabbv_ext Hm).
case: Lam Lam' HL => [L|] [L'|] //= HL.
rewrite (tabb_ext HL).
by case: hS hS' Hh => [h|] [h'|] //= Hh; rewrite (tabl_ext Hh).
Qed.

(* identity applied to a vector, on the index range *)
Lemma mvec_mid n (x : vec) i : (i < n)%N -> mvec n mid x i = x i.
Proof.
move=> Hi; have := mid_mulcv x (leqnn n) => /matrixP /(_ (Ordinal Hi) ord0).
by rewrite -cvf_mvec !mxE.
Qed.

(* ---- identity-mean conditionals: the general conditional with M = I, b = 0 ---- *)
Definition as_full (c : cond) : cond :=
  Cond (cR c) (cDy c) (cDx c) (fun _ => mid) (fun _ => vzero) (cSig c) (cLam c) (chS c) CFull.
(* an identity-mean conditional and its general form have the same effective parameters *)
Lemma effM_full (c : cond) r : cident (ccl c) -> effM (as_full c) r = effM c r.
Proof. by rewrite /effM /= => ->. Qed.
Lemma effb_full (c : cond) r : cident (ccl c) -> effb (as_full c) r = effb c r.
Proof. by rewrite /effb /= => ->. Qed.
Lemma cond_mu_full (c : cond) r (x : vec) i : cident (ccl c) -> (i < cDx c)%N ->
  cond_mu (as_full c) r x i = cond_mu c r x i.
Proof. by rewrite /cond_mu /= => -> Hi; rewrite /vadd /vzero addr0 mvec_mid. Qed.
Lemma cond_ok_full (c : cond) : cond_ok c -> cond_ok (as_full c).
Proof. by move=> Hc r Hr; case: (Hc r Hr) => h1 h2 h3 h4 h5; split. Qed.
Lemma ident_condition_on_x (c : cond) (xs : seq vec) k (y : vec) :
  cident (ccl c) -> cond_ok c -> (k < cR c * size xs)%N ->
  ueval (condition_on_x c xs) k y = ueval (condition_on_x (as_full c) xs) k y.
Proof.
move=> Hid Hc Hk.
have HN : (0 < size xs)%N by case: (size xs) Hk => //; rewrite muln0.
have Hr : (k %/ size xs < cR c)%N by rewrite ltn_divLR.
have [_ _ _ _ /(_ Hid) HD] := Hc _ Hr.
suff -> : condition_on_x (as_full c) xs = condition_on_x c xs by [].
rewrite /condition_on_x; apply: mk_pdf_ext => //= r i _ Hi.
by rewrite cond_mu_full // -HD.
Qed.
Lemma ident_set_y dxn (c : cond) (ys : seq vec) n (x : vec) :
  cident (ccl c) -> cond_ok c -> (cR c == 1%N) || (size ys == cR c) -> (n < size ys)%N ->
  feval (set_y dxn c ys) n x = feval (set_y dxn (as_full c) ys) n x.
Proof.
move=> Hid _ _ _.
suff -> : set_y dxn (as_full c) ys = set_y dxn c ys by [].
by case: c Hid => R Dy Dx M b S L h [].
Qed.
Lemma joint_Sigma_full (c : cond) (p : measure) : cident (ccl c) -> joint_Sigma (as_full c) p = joint_Sigma c p.
Proof. by case: c => R Dy Dx M b S L h []. Qed.
Lemma joint_Lambda_full (c : cond) (p : measure) : cident (ccl c) -> joint_Lambda (as_full c) p = joint_Lambda c p.
Proof. by case: c => R Dy Dx M b S L h []. Qed.
Lemma joint_hld_full (c : cond) (p : measure) : cident (ccl c) -> joint_hld (as_full c) p = joint_hld c p.
Proof. by case: c => R Dy Dx M b S L h []. Qed.
Lemma marg_Sigma_full (c : cond) (p : measure) : cident (ccl c) -> marg_Sigma (as_full c) p = marg_Sigma c p.
Proof. by case: c => R Dy Dx M b S L h []. Qed.
Lemma affine_conditional_full (c : cond) (p : measure) : cident (ccl c) ->
  affine_conditional (as_full c) p = affine_conditional c p.
Proof. by case: c => R Dy Dx M b S L h []. Qed.
Lemma ident_affine_joint (c : cond) (p : measure) k (z : vec) :
  cident (ccl c) -> cond_ok c -> pdf_ok p -> cDx c = uD p -> (k < cR c * uR p)%N ->
  ueval (affine_joint c p) k z = ueval (affine_joint (as_full c) p) k z.
Proof.
move=> Hid Hc _ _ Hk.
have [Hr _] := jr_bounds Hk.
have [_ _ _ _ /(_ Hid) HD] := Hc _ Hr.
suff -> : affine_joint (as_full c) p = affine_joint c p by [].
rewrite /affine_joint (joint_Sigma_full p Hid) (joint_Lambda_full p Hid) (joint_hld_full p Hid).
apply: mk_pdf_ext => //= r i _ Hi.
rewrite /vcat; case: ifP => // Hlt.
rewrite cond_mu_full // ltn_subLR; last by rewrite leqNgt Hlt.
by move: Hi; rewrite HD.
Qed.
Lemma ident_affine_marginal (c : cond) (p : measure) k (y : vec) :
  cident (ccl c) -> cond_ok c -> pdf_ok p -> cDx c = uD p -> (k < cR c * uR p)%N ->
  ueval (affine_marginal c p) k y = ueval (affine_marginal (as_full c) p) k y.
Proof.
move=> Hid Hc _ _ Hk.
have [Hr _] := jr_bounds Hk.
have [_ _ _ _ /(_ Hid) HD] := Hc _ Hr.
suff -> : affine_marginal (as_full c) p = affine_marginal c p by [].
rewrite /affine_marginal (marg_Sigma_full p Hid).
apply: mk_pdf_ext => //= r i _ Hi.
by rewrite cond_mu_full // -HD.
Qed.
Lemma ident_affine_conditional (c : cond) (p : measure) k :
  cident (ccl c) -> cond_ok c -> pdf_ok p -> cDx c = uD p -> (k < cR c * uR p)%N ->
  let a := affine_conditional c p in let b := affine_conditional (as_full c) p in
  [/\ forall i j, (i < cDx c)%N -> (j < cDy c)%N -> cM a k i j = cM b k i j,
      forall i, (i < cDx c)%N -> cb a k i = cb b k i,
      forall i j, (i < cDx c)%N -> (j < cDx c)%N -> cSig a k i j = cSig b k i j /\ cLam a k i j = cLam b k i j
    & chS a k = chS b k].
Proof.
by move=> Hid _ _ _ _ a b; rewrite /b affine_conditional_full.
Qed.

(* ---- diagonal conditionals: same fields as the full class on diagonal covariances ---- *)
Lemma diag_cond_is_full R Dy Dx (M : nat -> mat) (b : nat -> vec) (Sig : nat -> mat) r :
  (forall r i j, (r < R)%N -> (i < Dy)%N -> (j < Dy)%N -> i != j -> Sig r i j = 0) ->
  (forall r, (r < R)%N -> 0 < \det (mxf Dy Dy (Sig r))) -> (r < R)%N ->
  let a := mk_cond (LS:=LS) CDiag R Dy Dx M b (Some Sig) None None in
  let f := mk_cond (LS:=LS) CFull R Dy Dx M b (Some Sig) None None in
  mxf Dy Dy (cLam a r) = mxf Dy Dy (cLam f r) /\ chS a r = chS f r /\ mxf Dy Dy (cSig a r) = mxf Dy Dy (cSig f r).
Proof.
move=> Hd Hp Hr a f.
have Hd' i j : (i < Dy)%N -> (j < Dy)%N -> i != j -> tabb R Dy Dy Sig r i j = 0.
  by move=> Hi Hj ij; rewrite tabbE //; apply: Hd.
have Hp' : 0 < \det (mxf Dy Dy (tabb R Dy Dy Sig r)) by rewrite mxf_tabb //; apply: Hp.
have [E1 E2] := inv_ld_diag Hd' Hp'.
rewrite /a /f /mk_cond /=; split; last split=> //.
- by rewrite !mxf_tabb.
- by rewrite !tablE.
Qed.

End C15.
Print Assumptions multiply_special_general.
Print Assumptions hadamard_special_general.
Print Assumptions special_general_eval.
Print Assumptions inv_ld_diag.
Print Assumptions diag_pdf_is_pdf.
Print Assumptions diag_measure_log_integral.
Print Assumptions ident_condition_on_x.
Print Assumptions ident_set_y.
Print Assumptions ident_affine_joint.
Print Assumptions ident_affine_marginal.
Print Assumptions ident_affine_conditional.
Print Assumptions diag_cond_is_full.
Print Assumptions mk_pdf_ext.
