(* C16 / C17, remaining pieces of the heteroscedastic models:
   A. cosh-1 link, expected noise (approximate_conditional.py:1182-1205): the two exponential integrals
      ln E[exp(+-(w'x + w0)) / 2] that make up D_int = E[cosh h] - 1;
   B. the law of the pre-activation h = w'x + w0 as get_density_of_linear_sum(w[None, None], w0[None, None]) builds it;
   C. rectified-linear bound (1411-1461): the linear factor on the density of h, k_func and the polynomial integrals
      (model/HetRelu.v);
   D. the regression of g on h read off the joint covariance equals what condition_on_explicit([1], [0]) returns. *)
From mathcomp Require Import all_ssreflect all_fingroup all_algebra.
From mathcomp Require Import ring.
From GT Require Import Tensor DetExec LogDom MxTac MxLemmas Obj Factor Measure Pdf Cond Moments Approx HetBound HetRelu
  EvalLemmas Spec C01_proofs PdfLemmas C04_proofs C05_proofs C06_proofs C14_proofs C17_bound.
Set Implicit Arguments.
Unset Strict Implicit.
Unset Printing Implicit Defensive.
Import GRing.Theory Num.Theory.
Local Open Scope ring_scope.

Section C1617_extra.
Variable F : realFieldType.
Variable LS : logS F.
Notation mat := (mat F).
Notation vec := (vec F).
Notation measure := (measure LS).
Notation factor := (factor LS).

(* ------------------------------------------------------------------ A: expected noise of a log-linear link *)
(* ln of the integral of p(x) exp(w_k'x + lb_k) = w_k'mu + 1/2 w_k'Sigma w_k + lb_k, for ANY log-constant lb
   (expected_exp_noise of C1617_proofs.v is the case lb = emb w0) *)
Lemma expected_linear_noise (p : measure) Dk (w : nat -> vec) (lb : nat -> LS) k :
  pdf_ok p -> uR p = 1%N -> (k < Dk)%N ->
  (log_integral (multiply true p (mk_linear Dk (uD p) w lb))).2 k
  = emb LS (dot (uD p) (w k) (getmu p 0%N) + half F * quad (uD p) (getS p 0%N) (w k)) + lb k.
Proof.
move=> Hp HR Hk.
have H0 : (0 < uR p)%N by rewrite HR.
have [[Hsym HS _ Hmu HZ] [aS ahS amu aZ] Hnu Hlb] := Hp 0%N H0.
have [SL _ EhS] := HS aS.
have [_ Emu] := Hmu amu.
have [_ EZ] := HZ aZ.
move: Hsym SL EhS Emu EZ Hnu Hlb; rewrite /Sg /Lm /nuv /muv /gethS /getS /getmu /getlnZ.
case: p HR H0 aS ahS amu aZ {Hp HS Hmu HZ} => R D L n l [S|] // [hS|] // hL [mu|] // [lnZ|] // c /= HR _ _ _ _ _.
subst R => Hsym SL EhS Emu EZ Hnu Hlb.
have Hk1 : (k < 1 * Dk)%N by rewrite mul1n.
have Hd : (k %/ Dk = 0)%N by rewrite divn_small.
have Hm : (k %% Dk = k)%N by rewrite modn_small.
rewrite /getlnZ /prepare /multiply /with_cache /= /ensure_Sigma /gethS /getS /= !tablE ?Hm // Hd.
rewrite !dotE quadE cvf_mvec (@cvf_tabbv _ (1 * Dk)) // (@mxf_tabb _ (1 * Dk)) // Hd Hm cvf_add cvf_tabbv //.
rewrite Hlb EZ Emu.
set nu := cvf D (n 0%N); set Sm := mxf D D (S 0%N); set wv := cvf D (w k).
have Ssym : Sm^T = Sm by apply: (inv_sym SL Hsym).
rewrite -[_ 0 0]/(sc _) -[(wv^T *m _) 0 0]/(sc _) -[(wv^T *m _ *m _) 0 0]/(sc _).
have trD p q (X Y : 'M[F]_(p, q)) : (X + Y)^T = X^T + Y^T by rewrite linearD.
have E3 : sc (nu^T *m Sm *m wv) = sc (wv^T *m Sm *m nu).
  by rewrite -sc_tr !trmx_mul trmxK Ssym mulmxA.
rewrite trD mulmxA !mulmxDl !mulmxDr !scD E3.
rewrite [wv^T *m (_ *m _)]mulmxA.
set a := sc _; set b := sc _; set d := sc _.
have G (x y z t u : LS) : x + y + z + (- (u + y + z) + t) = x - u + t.
  by rewrite addrA -[x + y + z]addrA -[u + y + z]addrA opprD addrACA subrr addr0.
rewrite G -raddfB /=; congr (emb _ _ + _).
by clearbody a b d; rewrite /half; field.
Qed.

Lemma dot_oppl n (u v : vec) : dot n (vopp u) v = - dot n u v.
Proof. by rewrite dotC dot_oppr dotC. Qed.
Lemma quad_opp n (A : mat) (x : vec) : quad n A (vopp x) = quad n A x.
Proof.
rewrite /quad dot_oppl -dot_oppr; apply: dot_ext => // i _.
by rewrite /vopp /mvec -sumnN; apply: eq_sumn => j _; rewrite mulrN opprK.
Qed.

Theorem expected_cosh_noise (p : measure) Dk (w : nat -> vec) (w0 : vec) k :
  pdf_ok p -> uR p = 1%N -> (k < Dk)%N ->
  (log_integral (multiply true p (mk_linear Dk (uD p) w (fun j => emb LS (w0 j) - ln2 LS)))).2 k
    = emb LS (w0 k + dot (uD p) (w k) (getmu p 0%N) + half F * quad (uD p) (getS p 0%N) (w k)) - ln2 LS
  /\
  (log_integral (multiply true p (mk_linear Dk (uD p) (fun j => vopp (w j)) (fun j => emb LS (- w0 j) - ln2 LS)))).2 k
    = emb LS (- w0 k - dot (uD p) (w k) (getmu p 0%N) + half F * quad (uD p) (getS p 0%N) (w k)) - ln2 LS.
Proof.
move=> Hp HR Hk; split.
  rewrite (expected_linear_noise w (fun j => emb LS (w0 j) - ln2 LS) Hp HR Hk) addrA -raddfD /=.
  by congr (emb _ _ - _); rewrite addrC addrA.
rewrite (expected_linear_noise (fun j => vopp (w j)) (fun j => emb LS (- w0 j) - ln2 LS) Hp HR Hk) addrA -raddfD /=.
by congr (emb _ _ - _); rewrite dot_oppl quad_opp addrC addrA.
Qed.

(* ------------------------------------------------------------------ B: the law of the pre-activation *)
Lemma row1_quad D (S : mat) (w : vec) :
  mmul D (row1 w) (mmul D S (mtr (row1 w))) 0%N 0%N = quad D S w.
Proof. by []. Qed.

Lemma row1_cov_mx D (S : mat) (w : vec) :
  mxf 1 D (row1 w) *m mxf D D S *m (mxf 1 D (row1 w))^T = (quad D S w)%:M.
Proof.
rewrite [LHS]scalar11; congr (_%:M).
by rewrite mxf_row1 trmxK quadE.
Qed.

Theorem preactivation_law (p : measure) (w : vec) (w0 : F) :
  pdf_ok p -> uR p = 1%N -> 0 < quad (uD p) (getS p 0%N) w ->
  let q := density_of_linear_sum 1 (fun _ => row1 w) (Some (fun _ => vec1 w0)) p in
  [/\ pdf_ok q, uR q = 1%N, uD q = 1%N,
      getmu q 0%N 0%N = dot (uD p) w (getmu p 0%N) + w0
    & getS q 0%N 0%N 0%N = quad (uD p) (getS p 0%N) w].
Proof.
move=> Hp HR Hpos q.
have Hdet : forall r, (r < uR p)%N ->
    0 < \det (mxf 1 (uD p) (row1 w) *m Sg p r *m (mxf 1 (uD p) (row1 w))^T).
  by move=> r; rewrite HR ltnS leqn0 => /eqP ->; rewrite /Sg row1_cov_mx det_scalar1.
have H0 : (0 < uR p)%N by rewrite HR.
rewrite /q /density_of_linear_sum.
match goal with |- context [mk_pdf ?d ?R ?D ?S ?m ?L ?h] =>
  have [HS Hmu] := @mk_pdf_params _ LS d R D S m L h 0%N H0;
  have [HR' HD'] := @mk_pdf_shape _ LS d R D S m L h end.
split.
- by apply: mk_pdf_ok; apply: linear_sum_args.
- by rewrite HR'.
- by [].
- by rewrite Hmu.
- by rewrite HS.
Qed.

(* the density itself: N(h; w'mu + w0, w'Sigma w) *)
Theorem preactivation_density (p : measure) (w : vec) (w0 : F) (h : vec) :
  pdf_ok p -> uR p = 1%N -> 0 < quad (uD p) (getS p 0%N) w ->
  ueval (density_of_linear_sum 1 (fun _ => row1 w) (Some (fun _ => vec1 w0)) p) 0%N h
  = lnN LS ((dot (uD p) w (getmu p 0%N) + w0)%:M) ((quad (uD p) (getS p 0%N) w)%:M) (cvf 1 h).
Proof.
move=> Hp HR Hpos.
have Hdet : forall r, (r < uR p)%N ->
    0 < \det (mxf 1 (uD p) (row1 w) *m Sg p r *m (mxf 1 (uD p) (row1 w))^T).
  by move=> r; rewrite HR ltnS leqn0 => /eqP ->; rewrite /Sg row1_cov_mx det_scalar1.
have H0 : (0 < uR p)%N by rewrite HR.
rewrite (linear_sum_eval _ _ Hp Hdet H0) /Sg row1_cov_mx /muv cvf_vec1.
suff -> : mxf 1 (uD p) (row1 w) *m cvf (uD p) (getmu p 0%N) + w0%:M
          = (dot (uD p) w (getmu p 0%N) + w0)%:M by [].
by rewrite mxf_row1 [_ *m _]scalar11 -dotE -raddfD.
Qed.

(* ------------------------------------------------------------------ C: rectified-linear bound *)
Lemma hb_relu_factor_eval N (om l1p : vec) n (x : vec) : (n < N)%N -> 1 + om n != 0 ->
  feval (hb_relu_factor LS N om l1p) n x = emb LS (- x 0%N / (1 + om n) - l1p n + om n / (1 + om n)).
Proof.
move=> Hn Ho; rewrite /hb_relu_factor linear_eval // -raddfD /=; congr (emb _ _).
rewrite /dot /vec1 /= add0r.
set a := x 0%N; set o := om n; set l := l1p n; rewrite -/o in Ho; clearbody a o l.
by field.
Qed.

Lemma hb_relu_kq_spec (om l1p Zh Eh : vec) r : 1 + om r != 0 ->
  hb_relu_kq om l1p Zh Eh r = Zh r * (l1p r - om r / (1 + om r)) + Eh r / (1 + om r).
Proof.
move=> Ho; rewrite /hb_relu_kq.
set z := Zh r; set e := Eh r; set o := om r; set l := l1p r; rewrite -/o in Ho; clearbody z e o l.
by field.
Qed.

Lemma hb_poly2_spec (c0 c1 v E0 E1 E2 : F) :
  hb_poly2 c0 c1 v E0 E1 E2 = (c0 ^+ 2 + v) * E0 + 2%:R * c0 * c1 * E1 + c1 ^+ 2 * E2.
Proof. by rewrite /hb_poly2; ring. Qed.

(* (c0 + c1 h)^2 + v expanded: the polynomial whose integral hb_poly2 is *)
Lemma hb_poly2_integrand (c0 c1 v h : F) :
  (c0 + c1 * h) ^+ 2 + v = (c0 ^+ 2 + v) * 1 + 2%:R * c0 * c1 * h + c1 ^+ 2 * h ^+ 2.
Proof. by ring. Qed.

Lemma regression_2x2 (s00 s01 s11 l00 l01 l11 : F) :
  s00 * l00 + s01 * l01 = 1 -> s00 * l01 + s01 * l11 = 0 ->
  s01 * l00 + s11 * l01 = 0 -> s01 * l01 + s11 * l11 = 1 ->
  l00 != 0 -> s11 != 0 ->
  - l01 / l00 = s01 / s11 /\ l00^-1 = s00 - s01 / s11 * s01.
Proof.
move=> H1 H2 H3 H4 Hl Hs.
have E1 : - l01 / l00 = s01 / s11.
  have -> : s01 = - (s11 * l01) / l00 by rewrite -[LHS](mulfK Hl); congr (_ / _); apply/eqP; rewrite -addr_eq0 H3.
  by field; rewrite Hs Hl.
split=> //; rewrite -E1.
have -> : s00 = (1 - s01 * l01) / l00 by rewrite -H1 addrK mulfK.
by field.
Qed.

(* ------------------------------------------------------------------ D: regression from covariances = conditioning *)
Lemma minv1 (A : mat) : minv 1 A 0%N 0%N = (A 0%N 0%N)^-1.
Proof. by rewrite /minv tabmE // /cofn /= expr0 !mulr1 add0r. Qed.

Lemma detn2 (A : mat) : detn 2 A = A 0%N 0%N * A 1%N 1%N - A 0%N 1%N * A 1%N 0%N.
Proof.
rewrite /= /minor /= !add0r expr0 expr1 !mulr1 !mul1r.
by rewrite /bump /= mulN1r mulrN.
Qed.

(* function-matrix level: S L = 1 with L symmetric, on nat-indexed 2x2 tables *)
Lemma regression_fun2 (S L : mat) :
  mxf 2 2 S *m mxf 2 2 L = 1%:M -> (mxf 2 2 L)^T = mxf 2 2 L -> 0 < \det (mxf 2 2 S) ->
  [/\ S 1%N 1%N != 0, L 0%N 0%N != 0,
      - L 0%N 1%N / L 0%N 0%N = S 0%N 1%N / S 1%N 1%N
    & (L 0%N 0%N)^-1 = S 0%N 0%N - S 0%N 1%N / S 1%N 1%N * S 0%N 1%N].
Proof.
move=> SL Lsym dpos.
have Ssym := inv_sym SL Lsym.
have ES := mxf_symP Ssym; have EL := mxf_symP Lsym.
move: SL; rewrite -mxf_mul -mxf_id => /mxfP H.
have H1 := H 0%N 0%N isT isT; have H2 := H 0%N 1%N isT isT.
have H3 := H 1%N 0%N isT isT; have H4 := H 1%N 1%N isT isT.
move: H1 H2 H3 H4 dpos; rewrite /mmul /mid /= !add0r -detnE detn2.
rewrite (ES 1%N 0%N) // (EL 1%N 0%N) //.
set s00 := S 0%N 0%N; set s01 := S 0%N 1%N; set s11 := S 1%N 1%N.
set l00 := L 0%N 0%N; set l01 := L 0%N 1%N; set l11 := L 1%N 1%N.
move=> H1 H2 H3 H4 dpos.
have Hs : s11 != 0.
  apply/eqP => E; move: dpos; rewrite E mulr0 sub0r oppr_gt0 -expr2 Order.TotalTheory.ltNge sqr_ge0 //.
have Hl : l00 != 0.
  apply/eqP => E; move: H3 H1; rewrite E mulr0 add0r mulr0 add0r => /eqP.
  by rewrite mulf_eq0 (negbTE Hs) /= => /eqP ->; rewrite mulr0 => /eqP; rewrite eq_sym oner_eq0.
have [E1 E2] := regression_2x2 H1 H2 H3 H4 Hl Hs.
by split.
Qed.

(* the same on MathComp matrices: S L = 1, L symmetric, det S > 0 (all three hold for every component of a density) *)
Lemma regression_mx2 (S L : 'M[F]_2) :
  S *m L = 1%:M -> L^T = L -> 0 < \det S ->
  [/\ S 1 1 != 0, L 0 0 != 0, - L 0 1 / L 0 0 = S 0 1 / S 1 1
    & (L 0 0)^-1 = S 0 0 - S 0 1 / S 1 1 * S 0 1].
Proof.
move=> SL Lsym dpos.
pose f (A : 'M[F]_2) : mat := fun i j => A (inord i) (inord j).
have Ef A : mxf 2 2 (f A) = A by apply/matrixP => i j; rewrite mxE /f !inord_val.
have := @regression_fun2 (f S) (f L); rewrite !Ef /f => /(_ SL Lsym dpos).
have -> : inord 0 = 0 :> 'I_2 by apply: val_inj; rewrite /= inordK.
have -> : inord 1 = 1 :> 'I_2 by apply: val_inj; rewrite /= inordK.
by [].
Qed.

(* shape of the conditional the code reads slope, intercept and residual variance from *)
Lemma reg_cond_shape (p : measure) :
  let c := condition_on_explicit [:: 1%N] [:: 0%N] p in
  [/\ cR c = uR p, cDy c = 1%N & cDx c = 1%N].
Proof. by []. Qed.

(* condition_on_explicit(dy = [1], dx = [0]) is p(x_0 | x_1) = p(g | h): M[:,0,0], b[:,0], Sigma[:,0,0] of the result are
   the slope, the intercept and the residual variance of the regression of g on h.  No hypothesis beyond the density
   invariant is needed: det Sigma > 0 and symmetry give Sigma_hh != 0 and Lambda_gg != 0. *)
Theorem reg_matches_condition_on_explicit (p : measure) r :
  pdf_ok p -> uD p = 2%N -> (r < uR p)%N ->
  let c := condition_on_explicit [:: 1%N] [:: 0%N] p in
  [/\ cM c r 0%N 0%N = reg_c1 (getS p r),
      cb c r 0%N = reg_c0 (getmu p r) (getS p r)
    & cSig c r 0%N 0%N = reg_v (getS p r)].
Proof.
move=> Hp HD Hr c.
have [[Hsym HS _ _ _] [aS _ _ _] _ _] := Hp r Hr.
have [SL dpos _] := HS aS.
move: Hsym SL dpos; rewrite /Sg /Lm.
rewrite /c /condition_on_explicit /reg_c0 /reg_v /reg_c1; set S := getS p r.
rewrite HD; set L := uLam p r => Lsym SL dpos.
have [Hs Hl E1 E2] := regression_fun2 SL Lsym dpos.
rewrite /mk_cond /= !tabbE // !tabbvE // /mopp /mmul /vsub /vsel /mvec /msub2 /= !add0r !tabbE // minv1 tabbE //= -/L.
have E1' : - ((L 0%N 0%N)^-1 * L 0%N 1%N) = S 0%N 1%N / S 1%N 1%N by rewrite -E1 mulrC mulNr.
by split=> //; rewrite add0r E1'.
Qed.
End C1617_extra.
Print Assumptions expected_linear_noise.
Print Assumptions expected_cosh_noise.
Print Assumptions preactivation_law.
Print Assumptions preactivation_density.
Print Assumptions hb_relu_factor_eval.
Print Assumptions hb_relu_kq_spec.
Print Assumptions hb_poly2_spec.
Print Assumptions hb_poly2_integrand.
Print Assumptions regression_2x2.
Print Assumptions regression_fun2.
Print Assumptions regression_mx2.
Print Assumptions reg_cond_shape.
Print Assumptions reg_matches_condition_on_explicit.
