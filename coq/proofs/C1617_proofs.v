(* C16 / C17: kernels of unit height, moment assembly of the approximate conditionals, expected exp noise,
   the x-dependent covariance of the heteroscedastic conditionals and its precision. *)
From Coq Require Import QArith Qcanon ZArith.
From mathcomp Require Import all_ssreflect all_fingroup all_algebra.
From mathcomp Require Import ring.
From GT Require Import QcField QcOrder Tensor DetExec LogDom MxTac MxLemmas Obj Factor Measure Pdf Cond Moments Approx EvalLemmas Spec
  C01_proofs PdfLemmas C04_proofs C14_proofs.
Set Implicit Arguments.
Unset Strict Implicit.
Unset Printing Implicit Defensive.
Local Close Scope Q_scope.
Local Close Scope Qc_scope.
Local Close Scope Z_scope.
Import GRing.Theory Num.Theory.
Local Open Scope ring_scope.

(* ---- helpers: sums over index ranges ---- *)
Section Helpers.
Variable F : realFieldType.
Notation mat := (mat F).
Notation vec := (vec F).

Lemma sumn_pick n i (f : nat -> F) : (i < n)%N -> sumn n (fun k => if i == k then f k else 0) = f i.
Proof.
move=> Hi; rewrite sumnE -big_mkcond /= (big_pred1 (Ordinal Hi)) // => k.
by rewrite /= -val_eqE /= eq_sym.
Qed.
Lemma sumn_pick' n i (f : nat -> F) : (i < n)%N -> sumn n (fun k => if k == i then f k else 0) = f i.
Proof. by move=> Hi; rewrite -(sumn_pick f Hi); apply: eq_sumn => k _; rewrite eq_sym. Qed.

Lemma sumn_exch m n (f : nat -> nat -> F) :
  sumn m (fun a => sumn n (fun c => f a c)) = sumn n (fun c => sumn m (fun a => f a c)).
Proof.
rewrite sumnE (eq_bigr (fun a : 'I_m => \sum_(c < n) f a c)); last by move=> a _; rewrite sumnE.
rewrite exchange_big /= sumnE; apply: eq_bigr => c _; by rewrite sumnE.
Qed.

Lemma mvec_diagv n (d x : vec) i : (i < n)%N -> mvec n (mdiagv d) x i = d i * x i.
Proof.
move=> Hi; rewrite /mvec /mdiagv -(sumn_pick (fun k => d i * x k) Hi).
by apply: eq_sumn => k _; case: (i == k); rewrite ?mul0r.
Qed.

(* M (E - u u') M' entrywise *)
Lemma bilin_cov n (M E : mat) (u : vec) i j :
  sumn n (fun a => sumn n (fun c => M i a * (E a c - u a * u c) * M j c))
  = mmul n M (mmul n E (mtr M)) i j - mvec n M u i * mvec n M u j.
Proof.
rewrite /mmul /mvec /mtr -sumnMr -sumnB; apply: eq_sumn => a _.
rewrite -!sumnMl -sumnB; apply: eq_sumn => c _.
by set x := M i a; set y := E a c; set z := M j c; set s := u a; set t := u c; clearbody x y z s t; ring.
Qed.
Lemma bilin_sym n (M S : mat) i j : (forall a c, (a < n)%N -> (c < n)%N -> S a c = S c a) ->
  mmul n M (mmul n S (mtr M)) j i = mmul n M (mmul n S (mtr M)) i j.
Proof.
move=> Hs; rewrite /mmul /mtr.
rewrite (eq_sumn (g := fun a => sumn n (fun c => M j a * (S a c * M i c)))); last by move=> a _; rewrite sumnMl.
rewrite sumn_exch; apply: eq_sumn => a Ha; rewrite -sumnMl; apply: eq_sumn => c Hc.
rewrite (Hs c a) //; set x := M j c; set y := S a c; set z := M i a; clearbody x y z; ring.
Qed.
End Helpers.

(* ---- helpers: Sylvester's determinant identity, Woodbury with a diagonal middle factor ---- *)
Section Woodbury.
Variable F : fieldType.
Variables n k : nat.

(* Sylvester's determinant identity *)
Lemma sylvester_det (U : 'M[F]_(n, k)) (V : 'M[F]_(k, n)) : \det (1%:M + U *m V) = \det (1%:M + V *m U).
Proof.
pose A : 'M[F]_(n + k) := block_mx 1%:M 0 V 1%:M.
pose B : 'M[F]_(n + k) := block_mx (1%:M + U *m V) U 0 1%:M.
pose C : 'M[F]_(n + k) := block_mx 1%:M 0 (- V) 1%:M.
pose E : 'M[F]_(n + k) := block_mx 1%:M U 0 (1%:M + V *m U).
have HE : A *m B *m C = E.
  rewrite /A /B /C /E !mulmx_block.
  rewrite !mul1mx !mul0mx !mulmx0 !mulmx1 !addr0 !add0r.
  congr block_mx.
  - by rewrite mulmxN -addrA subrr addr0.
  - rewrite mulmxDr mulmx1 mulmxN mulmxDl mul1mx opprD addrA mulmxA.
    by rewrite addrAC [V + _]addrC addrK subrr.
  - by rewrite addrC.
have := congr1 determinant HE.
by rewrite !det_mulmx /A /B /C /E !det_lblock !det_ublock !det1 !mul1r !mulr1.
Qed.

Variables (S0 L0 : 'M[F]_n) (U : 'M[F]_(n, k)) (d g : 'rV[F]_k).
Hypothesis SL : S0 *m L0 = 1%:M.
Hypothesis ULU : U^T *m L0 *m U = 1%:M.

Lemma woodbury_diag : L0^T = L0 -> (forall i, d 0 i = g 0 i + d 0 i * g 0 i) ->
  (S0 + U *m (diag_mx d *m U^T)) *m (L0 - (L0 *m U) *m (diag_mx g *m (L0 *m U)^T)) = 1%:M.
Proof.
move=> Lsym Hdg.
have Ed : diag_mx d = diag_mx g + diag_mx d *m diag_mx g.
  rewrite mulmx_diag -linearD /=; congr diag_mx; apply/matrixP => i j.
  by rewrite (ord1 i) !mxE; exact: Hdg.
rewrite trmx_mul Lsym mulmxDl !mulmxBr SL !mulmxA.
rewrite SL mul1mx.
have -> : U *m diag_mx d *m U^T *m L0 *m U = U *m diag_mx d.
  by rewrite -[_ *m U^T *m L0 *m U]mulmxA -[_ *m U^T *m (L0 *m U)]mulmxA [U^T *m (_ *m _)]mulmxA ULU mulmx1.
rewrite {1}Ed mulmxDr !mulmxDl !mulmxA.
mx_abel.
Qed.

Lemma woodbury_det : \det (S0 + U *m (diag_mx d *m U^T)) = \det S0 * \prod_i (1 + d 0 i).
Proof.
have LS0 : L0 *m S0 = 1%:M by apply: mulmx1C.
have -> : S0 + U *m (diag_mx d *m U^T) = S0 *m (1%:M + (L0 *m U *m diag_mx d) *m U^T).
  by rewrite mulmxDr mulmx1 !mulmxA SL mul1mx.
rewrite det_mulmx sylvester_det !mulmxA ULU mul1mx; congr (_ * _).
have -> : 1%:M + diag_mx d = diag_mx (const_mx 1 + d).
  by rewrite linearD /= diag_const_mx.
by rewrite mathcomp.algebra.matrix.det_diag; apply: eq_bigr => i _; rewrite !mxE.
Qed.
End Woodbury.

Section C16.
Variable F : realFieldType.
Variable LS : logS F.
Notation mat := (mat F).
Notation vec := (vec F).
Notation measure := (measure LS).
Notation factor := (factor LS).

(* ---- the kernels are Gaussian bumps of unit height ---- *)
Lemma lrbf_kernel_value Dk Dx (c l : nat -> vec) j (x : vec) : (j < Dk)%N ->
  (forall i, (i < Dx)%N -> l j i != 0) ->
  ueval (lrbf_kfunc LS Dk Dx c l) j x
  = emb LS (- half F * sumn Dx (fun i => ((x i - c j i) / l j i) * ((x i - c j i) / l j i))).
Proof.
move=> Hj Hl; rewrite /lrbf_kfunc /mk_measure ueval_tab // /eval_core -raddfD /=; congr (emb _ _).
rewrite /quad /dot -!sumnMl -!sumnD; apply: eq_sumn => i Hi.
rewrite mvec_diagv //.
have := Hl i Hi; set a := x i; set b := c j i; set d := l j i; clearbody a b d => d0.
by rewrite /half; field.
Qed.
Lemma lrbf_unit_height Dk Dx (c l : nat -> vec) j : (j < Dk)%N -> (forall i, (i < Dx)%N -> l j i != 0) ->
  ueval (lrbf_kfunc LS Dk Dx c l) j (c j) = 0.
Proof.
move=> Hj Hl; rewrite lrbf_kernel_value // sumn_eq0 ?mulr0 ?raddf0 // => i _.
by rewrite subrr !mul0r.
Qed.
Lemma lsem_kernel_value Dk Dx (w : nat -> vec) (w0 : vec) j (x : vec) : (j < Dk)%N ->
  feval (lsem_kfunc LS Dk Dx w w0) j x = emb LS (- half F * ((dot Dx (w j) x - w0 j) * (dot Dx (w j) x - w0 j))).
Proof.
move=> Hj; rewrite /lsem_kfunc /mk_onerank /feval /= tablE //.
rewrite (@eval_core_ext _ LS Dx _ (outer (w j) (vscale 1 (w j))) _ (vscale (w0 j) (w j))); first last.
- by move=> i Hi; rewrite tabbvE.
- by move=> i k Hi Hk; rewrite tabbE // /outer /vscale tabvE // !tabbvE.
rewrite /eval_core -raddfD /=; congr (emb _ _).
have E1 : quad Dx (outer (w j) (vscale 1 (w j))) x = dot Dx (w j) x * dot Dx (w j) x.
  rewrite /quad {1}/dot.
  rewrite (eq_sumn (g := fun k => (w j k * x k) * dot Dx (w j) x)); first by rewrite sumnMr.
  move=> k _; rewrite /mvec /outer /vscale.
  rewrite (eq_sumn (g := fun i => w j k * (w j i * x i))); first by rewrite sumnMl -/(dot Dx (w j) x) mulrCA mulrA.
  by move=> i _; rewrite mul1r mulrA.
have E2 : dot Dx x (vscale (w0 j) (w j)) = w0 j * dot Dx (w j) x.
  by rewrite /dot -sumnMl; apply: eq_sumn => i _; rewrite /vscale mulrCA [x i * _]mulrC.
rewrite E1 E2; set d := dot _ _ _; set a := w0 j; clearbody d a.
by rewrite /half; field.
Qed.
Lemma lsem_unit_height Dk Dx (w : nat -> vec) (w0 : vec) j (x : vec) : (j < Dk)%N ->
  dot Dx (w j) x = w0 j -> feval (lsem_kfunc LS Dk Dx w w0) j x = 0.
Proof. by move=> Hj E; rewrite lsem_kernel_value // E subrr mulr0 mulr0 raddf0. Qed.

(* ---- moment assembly of the feature models: with Ef = E[phi], Eff = E[phi phi'], phi = (x, k(x)) ----
   the returned covariance is the (symmetrised) noise covariance plus M Cov(phi) M' *)
Lemma fm_mu_spec Dx Dk (M : mat) (b Ex Ek : vec) i :
  fm_mu Dx Dk M b Ex Ek i = sumn (Dx + Dk) (fun a => M i a * Ef Dx Ex Ek a) + b i.
Proof. by []. Qed.
Lemma fm_Sigma_spec Dx Dk Dy (M : mat) (b : vec) (Sig : mat) (Ex : vec) (Exx : mat) (Ek : vec) (Ekx Ekk : mat) i j :
  (i < Dy)%N -> (j < Dy)%N ->
  let phi := (Dx + Dk)%N in
  let Cov := fun a c => Eff Dx Exx Ekx Ekk a c - Ef Dx Ex Ek a * Ef Dx Ex Ek c in
  let Q := fun i j => sumn phi (fun a => sumn phi (fun c => M i a * Cov a c * M j c)) in
  fm_Sigma Dx Dk Dy M b Sig Ex Exx Ek Ekx Ekk i j = half F * ((Sig i j + Q i j) + (Sig j i + Q j i)).
Proof.
move=> Hi Hj phi Cov Q.
have EQ a c : Q a c = mmul phi M (mmul phi (Eff Dx Exx Ekx Ekk) (mtr M)) a c
                      - mvec phi M (Ef Dx Ex Ek) a * mvec phi M (Ef Dx Ex Ek) c.
  by rewrite /Q /Cov bilin_cov.
rewrite !EQ /fm_Sigma /fm_mu /Dphi -/phi !tabvE // /vadd.
set m := mvec _ _ _; set P := mmul _ _ _.
set pij := P i j; set pji := P j i; set mi := m i; set mj := m j; set bi := b i; set bj := b j.
set sij := Sig i j; set sji := Sig j i; clearbody pij pji mi mj bi bj sij sji.
by ring.
Qed.
(* cross-covariance of y and x: M Cov(phi, x), when Ex is the mean of x *)
Lemma fm_cov_yx_spec Dx Dk (M : mat) (b : vec) (Ex : vec) (Exx : mat) (Ek : vec) (Ekx : mat) i j :
  let phi := (Dx + Dk)%N in
  let Efx := fun a c => if (a < Dx)%N then Exx a c else Ekx (a - Dx)%N c in
  fm_cov_yx Dx Dk M b Ex Exx Ek Ekx Ex i j
  = sumn phi (fun a => M i a * (Efx a j - Ef Dx Ex Ek a * Ex j)).
Proof.
move=> phi Efx; rewrite /fm_cov_yx /fm_Eyx /fm_mu /Dphi -/phi /madd /outer /vadd /mmul /mvec -/Efx.
rewrite mulrDl -sumnMr opprD addrACA subrr addr0 -sumnB; apply: eq_sumn => a _.
by rewrite mulrBr mulrA.
Qed.

(* ---- heteroscedastic noise, exp link: ln E[exp(w'x + w0)] = w0 + w'mu + 1/2 w' Sigma w ---- *)
Lemma expected_exp_noise (p : measure) Dk (w : nat -> vec) (w0 : vec) k :
  pdf_ok p -> uR p = 1%N -> (k < Dk)%N ->
  (log_integral (multiply true p (mk_linear Dk (uD p) w (fun j => emb LS (w0 j))))).2 k
  = emb LS (w0 k + dot (uD p) (w k) (getmu p 0%N) + half F * quad (uD p) (getS p 0%N) (w k)).
Proof.
move=> Hp HR Hk.
have H0 : (0 < uR p)%N by rewrite HR.
have [[Hsym HS _ Hmu HZ] [aS ahS amu aZ] Hnu Hlb] := Hp 0%N H0.
have [SL _ EhS] := HS aS.
have [_ Emu] := Hmu amu.
have [_ EZ] := HZ aZ.
move: Hsym SL EhS Emu EZ Hnu Hlb; rewrite /Sg /Lm /nuv /muv /gethS /getS /getmu /getlnZ.
case: p HR H0 aS ahS amu aZ {Hp HS Hmu HZ} => R D L n l [S|] // [hS|] // hL [mu|] // [lnZ|] // c /= HR _ _ _ _ _.
subst R => Hsym SL EhS Emu EZ Hnu Hlb.
have Hk1 : (k < 1 * Dk)%N by rewrite mul1n.
have Hd : (k %/ Dk = 0)%N by rewrite divn_small.
have Hm : (k %% Dk = k)%N by rewrite modn_small.
rewrite /getlnZ /prepare /multiply /with_cache /= /ensure_Sigma /gethS /getS /= !tablE ?Hm // Hd.
rewrite !dotE quadE cvf_mvec (@cvf_tabbv _ (1 * Dk)) // (@mxf_tabb _ (1 * Dk)) // Hd Hm cvf_add cvf_tabbv //.
rewrite Hlb EZ Emu.
set nu := cvf D (n 0%N); set Sm := mxf D D (S 0%N); set wv := cvf D (w k).
have Ssym : Sm^T = Sm by apply: (inv_sym SL Hsym).
rewrite -[_ 0 0]/(sc _) -[(wv^T *m _) 0 0]/(sc _) -[(wv^T *m _ *m _) 0 0]/(sc _).
have trD p q (X Y : 'M[F]_(p, q)) : (X + Y)^T = X^T + Y^T by rewrite linearD.
have E3 : sc (nu^T *m Sm *m wv) = sc (wv^T *m Sm *m nu).
  by rewrite -sc_tr !trmx_mul trmxK Ssym mulmxA.
rewrite trD mulmxA !mulmxDl !mulmxDr !scD E3.
rewrite [wv^T *m (_ *m _)]mulmxA.
set a := sc _; set b := sc _; set d := sc _.
have G (x y z t u : LS) : x + y + z + (- (u + y + z) + t) = x - u + t.
  by rewrite addrA -[x + y + z]addrA -[u + y + z]addrA opprD addrACA subrr addr0.
rewrite G -raddfB -raddfD /=; congr (emb _ _).
by clearbody a b d; rewrite /half; field.
Qed.

(* ---- heteroscedastic moment matching: Sigma_y = sym(A A' + A_k diag(E link) A_k') + M Sigma_x M' ---- *)
Lemma het_Sigma_y_spec Dy Da Dk Dx (A M : mat) (b mux : vec) (Sx : mat) (Dint : vec) i j :
  (i < Dy)%N -> (j < Dy)%N -> (forall a c, (a < Dx)%N -> (c < Dx)%N -> Sx a c = Sx c a) ->
  let N := fun i j => het_Sigma Dy Da Dk A Dint i j in
  let Q := fun i j => sumn Dx (fun a => sumn Dx (fun c => M i a * Sx a c * M j c)) in
  het_Sigma_y Dy Da Dk Dx A M b mux Sx Dint i j = half F * (N i j + N j i) + Q i j.
Proof.
move=> Hi Hj Hs N Q.
pose Q' := mmul Dx M (mmul Dx Sx (mtr M)).
have EQ : Q i j = Q' i j.
  rewrite /Q /Q' /mmul /mtr; apply: eq_sumn => a _; rewrite -sumnMl; apply: eq_sumn => c _.
  by rewrite mulrA.
have Esym : Q' j i = Q' i j by apply: bilin_sym.
have EO a c : E_quadratic_outer Dx mux Sx M b M b a c
     = Q' a c + mvec Dx M mux a * mvec Dx M mux c + mvec Dx M mux a * b c + b a * (mvec Dx M mux c + b c).
  rewrite /E_quadratic_outer /madd /outer /aff /vadd /E_xxT; congr (_ + _ + _).
  rewrite /Q' /mmul /mvec /mtr /madd /outer -sumnMr -sumnD; apply: eq_sumn => k _.
  rewrite -mulrA -mulrDr; congr (_ * _).
  rewrite -sumnMl -sumnD; apply: eq_sumn => l _.
  by rewrite mulrDl -mulrA [mux l * _]mulrC.
rewrite EQ /het_Sigma_y /het_mu /madd /vadd !EO Esym /het_Sigma_int !tabmE // -/(N i j) -/(N j i).
set m := mvec _ _ _.
set q := Q' i j; set mi := m i; set mj := m j; set bi := b i; set bj := b j; set nij := N i j; set nji := N j i.
clearbody q mi mj bi bj nij nji.
by rewrite /half; field.
Qed.
Lemma het_cov_yx_spec Dx (M : mat) (b mux : vec) (Sx : mat) i j : (j < Dx)%N ->
  het_cov_yx Dx M b mux Sx i j = sumn Dx (fun a => M i a * Sx a j).
Proof.
move=> Hj; rewrite /het_cov_yx /het_Eyx /het_mu /E_quadratic_outer /madd /outer /aff /vadd /vzero /E_xxT.
have E1 (v : vec) : sumn Dx (fun k => v k * mtr (@mid F) k j) = v j.
  rewrite -[RHS](sumn_pick v Hj); apply: eq_sumn => k _.
  by rewrite /mtr /mid; case: (j == k); rewrite ?mulr1 ?mulr0.
have E2 : mvec Dx (@mid F) mux j = mux j.
  rewrite /mvec -[RHS](sumn_pick mux Hj); apply: eq_sumn => k _.
  by rewrite /mid; case: (j == k); rewrite ?mul1r ?mul0r.
rewrite E2 mulr0 !addr0 {1}/mmul.
rewrite (eq_sumn (g := fun k => M i k * (Sx k j + mux k * mux j))); last first.
  by move=> k _; rewrite /mmul (E1 (fun l => madd Sx (outer mux mux) k l)).
rewrite mulrDl /mvec -sumnMr opprD addrACA subrr addr0 -sumnB; apply: eq_sumn => k _.
by rewrite mulrDr mulrA addrK.
Qed.
End C16.

Section C17.
Variable F : realFieldType.
Variable LS : logS F.
Notation mat := (mat F).
Notation vec := (vec F).
Notation measure := (measure LS).

Lemma het_SigmaE Dy Da Dk (A : mat) (Dv : vec) i j : (i < Dy)%N -> (j < Dy)%N ->
  het_Sigma Dy Da Dk A Dv i j = mmul Da A (mtr A) i j + sumn Dk (fun k => A i k * Dv k * A j k).
Proof.
move=> Hi Hj; rewrite /het_Sigma /madd /het_Sigma0 tabmE //; congr (_ + _).
rewrite {1}/mmul; apply: eq_sumn => k Hk; rewrite /Ak -mulrA; congr (_ * _).
by rewrite -[LHS]/(mvec Dk (mdiagv Dv) (A j) k) mvec_diagv.
Qed.

(* conditioning on x: mean M x + b, covariance A A' + A_k diag(link) A_k' *)
Lemma het_condition_on_x_params Dy Da Dk Dx (A M : mat) (b : vec) fl (xs Dvs : seq vec) n : (n < size xs)%N ->
  let o := het_condition_on_x LS Dy Da Dk Dx A M b fl xs Dvs in
  [/\ uR o = size xs, uD o = Dy,
      forall i, (i < Dy)%N -> getmu o n i = mvec Dx M (nth vzero xs n) i + b i
    & forall i j, (i < Dy)%N -> (j < Dy)%N ->
        getS o n i j = mmul Da A (mtr A) i j + sumn Dk (fun k => A i k * nth vzero Dvs n k * A j k)].
Proof.
move=> Hn o; rewrite /o /het_condition_on_x.
match goal with |- context [mk_pdf ?d ?R ?D ?S ?m ?L ?h] =>
  have [HS Hmu] := @mk_pdf_params _ LS d R D S m L h n Hn;
  have [HR HD] := @mk_pdf_shape _ LS d R D S m L h end.
split; [exact: HR | exact: HD | by move=> i Hi; rewrite Hmu | ].
by move=> i j Hi Hj; rewrite HS // het_SigmaE.
Qed.

Lemma hln_prodn k (f : nat -> F) : (forall i, (i < k)%N -> 0 < f i) ->
  0 < prodn k f /\ hln LS (prodn k f) = suml k (fun j => hln LS (f j)).
Proof.
elim: k => [|k IH] Hf /=; first by rewrite hln1 ltr01.
have [|p0 E] := IH; first by move=> i Hi; apply: Hf; apply: ltnW.
have fk0 : 0 < f k by apply: Hf.
by split; [apply: mulr_gt0 | rewrite hlnM // E].
Qed.

(* the first Dk columns of A are A E, E the first Dk columns of the identity; E'E = 1 *)
Lemma first_cols Dy Dk (A : mat) : (Dk <= Dy)%N ->
  mxf Dy Dk (Ak A) = mxf Dy Dy A *m mxf Dy Dk mid.
Proof.
move=> le; rewrite -mxf_mul; apply/mxfP => i j Hi Hj.
have Hj' : (j < Dy)%N := leq_trans Hj le.
rewrite /Ak /mmul -[LHS](sumn_pick' (fun k => A i k) Hj'); apply: eq_sumn => k _.
by rewrite /mid; case: (k == j); rewrite ?mulr1 ?mulr0.
Qed.
Lemma idcols_orth Dy Dk : (Dk <= Dy)%N -> (mxf Dy Dk (@mid F))^T *m mxf Dy Dk mid = 1%:M.
Proof.
move=> le; rewrite -(mxf_tr Dk Dy mid) -mxf_mul -mxf_id; apply/mxfP => i j Hi Hj.
have Hi' : (i < Dy)%N := leq_trans Hi le.
rewrite /mmul /mtr -[RHS](sumn_pick' (fun k => mid k j) Hi'); apply: eq_sumn => k _.
by rewrite {1}/mid; case: (k == i); rewrite ?mul1r ?mul0r.
Qed.

(* the code's precision and log-determinant are right when A is square (Da = Dy): then A_k' Lambda A_k = I
   and the shortcut is the Woodbury identity / matrix determinant lemma *)
Lemma het_precision_partial Dy Dk (A : mat) (Dv : vec) :
  (Dk <= Dy)%N -> \det (mxf Dy Dy A) != 0 -> (forall k, (k < Dk)%N -> 0 < 1 + Dv k) ->
  mxf Dy Dy (het_Sigma Dy Dy Dk A Dv) *m mxf Dy Dy (het_Lambda Dy Dy Dk A Dv) = 1%:M
  /\ het_hS LS Dy Dy Dk A Dv = hln LS (\det (mxf Dy Dy (het_Sigma Dy Dy Dk A Dv))).
Proof.
move=> le dA Hpos.
set MA := mxf Dy Dy A in dA.
set S0 := mxf Dy Dy (het_Sigma0 Dy Dy A).
have ES0 : S0 = MA *m MA^T by rewrite /S0 /het_Sigma0 mxf_tab mxf_mul (mxf_tr Dy Dy A).
have dS0 : \det S0 = \det MA * \det MA by rewrite ES0 det_mulmx det_tr.
have S0pos : 0 < \det S0 by rewrite dS0 -expr2 lt0r sqrf_eq0 dA sqr_ge0.
have dn0 : detn Dy (het_Sigma0 Dy Dy A) != 0 by rewrite detnE -/S0 lt0r_neq0.
set L0 := mxf Dy Dy (het_Lambda0 Dy Dy A).
have EL0 : L0 = invmx S0 by rewrite /L0 /het_Lambda0 mxf_inv.
have S0u : S0 \in unitmx by rewrite unitmxE unitfE lt0r_neq0.
have SL : S0 *m L0 = 1%:M by rewrite EL0 mulmxV.
have S0sym : S0^T = S0 by rewrite ES0 trmx_mul trmxK.
have L0sym : L0^T = L0 by apply: (inv_sym (mulmx1C SL) S0sym).
set U := mxf Dy Dk (Ak A).
have MAu : MA \in unitmx by rewrite unitmxE unitfE.
have ULU : U^T *m L0 *m U = 1%:M.
  have -> : L0 = (invmx MA)^T *m invmx MA.
    rewrite EL0; apply/esym/inv_unique.
    by rewrite ES0 -mulmxA [invmx MA *m _]mulmxA mulVmx // mul1mx -trmx_mul mulmxV // trmx1.
  rewrite /U first_cols // -/MA trmx_mul !mulmxA -[_ *m MA^T *m _]mulmxA -trmx_mul mulVmx // trmx1 mulmx1.
  by rewrite -[_ *m invmx MA *m MA]mulmxA mulVmx // mulmx1 idcols_orth.
set d : 'rV[F]_Dk := (cvf Dk Dv)^T.
set g : 'rV[F]_Dk := (cvf Dk (fun j => Dv j / (1 + Dv j)))^T.
have ESig : mxf Dy Dy (het_Sigma Dy Dy Dk A Dv) = S0 + U *m (diag_mx d *m U^T).
  by rewrite /het_Sigma mxf_add !mxf_mul mxf_diagv (mxf_tr Dk Dy (Ak A)).
have ELam : mxf Dy Dy (het_Lambda Dy Dy Dk A Dv) = L0 - (L0 *m U) *m (diag_mx g *m (L0 *m U)^T).
  rewrite /het_Lambda mxf_sub !mxf_mul mxf_diagv.
  by rewrite (mxf_tr Dk Dy (tabm Dy Dk (mmul Dy (het_Lambda0 Dy Dy A) (Ak A)))) mxf_tab mxf_mul.
rewrite ESig ELam; split.
  apply: woodbury_diag => // i; rewrite !mxE.
  have := Hpos i (ltn_ord i); set x := Dv i => x0.
  have xn : 1 + x != 0 by apply: lt0r_neq0.
  by clearbody x; field.
rewrite (woodbury_det d SL ULU) /het_hS /het_hS0 detnE -/S0.
have [p0 E] := hln_prodn Hpos.
have -> : \prod_i (1 + d 0 i) = prodn Dk (fun j => 1 + Dv j).
  by rewrite prodnE; apply: eq_bigr => i _; rewrite !mxE.
by rewrite hlnM // E.
Qed.

(* the repaired variant is right for every shape *)
Lemma het_precision_repaired Dy Da Dk (A : mat) (Dv : vec) :
  \det (mxf Dy Dy (het_Sigma Dy Da Dk A Dv)) != 0 ->
  mxf Dy Dy (het_Sigma Dy Da Dk A Dv) *m mxf Dy Dy (het_Lambda_true Dy Da Dk A Dv) = 1%:M
  /\ het_hS_true LS Dy Da Dk A Dv = hln LS (\det (mxf Dy Dy (het_Sigma Dy Da Dk A Dv))).
Proof.
move=> dn0; rewrite /het_Lambda_true /het_hS_true detnE mxf_tab; split=> //.
by rewrite mxf_inv ?detnE mxf_tab // mulmxV // unitmxE unitfE.
Qed.

End C17.

(* REFUTATION for Da > Dy (the known finding): Dy = 1, Da = 2, Dk = 1, A = [1 1], link value 1:
   Sigma = 3 but the code's Lambda = 3/8 *)
Definition cexA : mat Qc_realFieldType := fun i j => 1.
Definition cexD : vec Qc_realFieldType := fun _ => 1.
Lemma het_precision_refuted :
  het_Sigma 1 2 1 cexA cexD 0%N 0%N * het_Lambda 1 2 1 cexA cexD 0%N 0%N != 1.
Proof. by vm_compute. Qed.
Print Assumptions lrbf_kernel_value.
Print Assumptions lrbf_unit_height.
Print Assumptions lsem_kernel_value.
Print Assumptions lsem_unit_height.
Print Assumptions fm_mu_spec.
Print Assumptions fm_Sigma_spec.
Print Assumptions fm_cov_yx_spec.
Print Assumptions expected_exp_noise.
Print Assumptions het_Sigma_y_spec.
Print Assumptions het_cov_yx_spec.
Print Assumptions het_condition_on_x_params.
Print Assumptions het_precision_partial.
Print Assumptions het_precision_repaired.
Print Assumptions het_precision_refuted.
