(* C17: the executable model of the heteroscedastic lower bound (model/HetBound.v).
   The factors the code builds evaluate to exactly the exponents of the variational bounds at h = w'x + b0
   (pure algebra, for all values of the inputs om, lc, th), k_func is the Gaussian expectation of the
   corresponding quadratic polynomial in h, and the homoscedastic term is E[(y - Mx - b)' Lambda (y - Mx - b)]. *)
From mathcomp Require Import all_ssreflect all_fingroup all_algebra.
From mathcomp Require Import ring.
From GT Require Import Tensor DetExec LogDom MxTac MxLemmas Obj Factor Measure Pdf Cond Moments Approx HetBound
  EvalLemmas Spec C01_proofs PdfLemmas C04_proofs C14_proofs.
Set Implicit Arguments.
Unset Strict Implicit.
Unset Printing Implicit Defensive.
Import GRing.Theory Num.Theory.
Local Open Scope ring_scope.

Section C17.
Variable F : realFieldType.
Variable LS : logS F.
Notation mat := (mat F).
Notation vec := (vec F).
Notation measure := (measure LS).
Notation factor := (factor LS).

(* ------------------------------------------------------------------ generic evaluation lemmas *)
Lemma dotC n (u v : vec) : dot n u v = dot n v u.
Proof. by apply: eq_sumn => i _; rewrite mulrC. Qed.
Lemma dot_scaler n c (u v : vec) : dot n u (vscale c v) = c * dot n u v.
Proof. by rewrite /dot -sumnMl; apply: eq_sumn => i _; rewrite /vscale mulrCA. Qed.
Lemma dot_oppr n (u v : vec) : dot n u (vopp v) = - dot n u v.
Proof. by rewrite /dot -sumnN; apply: eq_sumn => i _; rewrite /vopp mulrN. Qed.

Lemma quad_outer D (v : vec) (g : F) (x : vec) :
  quad D (outer v (vscale g v)) x = g * (dot D v x * dot D v x).
Proof.
rewrite /quad {1}/dot.
rewrite (eq_sumn (g := fun k => (v k * x k) * (g * dot D v x))).
  by rewrite sumnMr /dot; set d := sumn _ _; clearbody d; ring.
move=> k _; rewrite /mvec /outer /vscale.
rewrite (eq_sumn (g := fun i => (v k * g) * (v i * x i))).
  by rewrite sumnMl /dot; set d := sumn _ _; set a := v k; set b := x k; clearbody d a b; ring.
by move=> i _; rewrite !mulrA.
Qed.

(* a rank-one factor: exp(-1/2 g (v'x)^2 + nu'x + ln beta) *)
Lemma onerank_eval R D (v : nat -> vec) (g : vec) (nu : nat -> vec) (lb : nat -> LS) n (x : vec) : (n < R)%N ->
  feval (mk_onerank R D v g nu lb) n x
  = emb LS (- half F * (g n * (dot D (v n) x * dot D (v n) x)) + dot D x (nu n)) + lb n.
Proof.
move=> Hn; rewrite /mk_onerank /feval /= tablE //.
rewrite (@eval_core_ext _ LS D _ (outer (v n) (vscale (g n) (v n))) _ (nu n)); first last.
- by move=> i Hi; rewrite tabbvE.
- by move=> i k Hi Hk; rewrite tabbE // /outer /vscale tabvE // !tabbvE.
by rewrite /eval_core quad_outer.
Qed.

Lemma linear_eval R D (nu : nat -> vec) (lb : nat -> LS) n (x : vec) : (n < R)%N ->
  feval (mk_linear R D nu lb) n x = emb LS (dot D (nu n) x) + lb n.
Proof.
move=> Hn; rewrite /mk_linear /feval /= tablE //.
rewrite (@eval_core_ext _ LS D _ mzero _ (nu n)) //; last by move=> i Hi; rewrite tabbvE.
by rewrite eval_core_lin dotC.
Qed.

(* ------------------------------------------------------------------ 1-3: the factors *)
Lemma hb_exp_factor_eval N Dx (w : vec) (b0 : F) (om lc th : vec) n (x : vec) : (n < N)%N ->
  let h := dot Dx w x + b0 in
  feval (hb_exp_factor LS N Dx w b0 om lc th) n x
  = emb LS (half F * h - lc n - half F * hb_exp_g1 om th n * (h * h - om n * om n)) - ln2 LS.
Proof.
move=> Hn h; rewrite /hb_exp_factor onerank_eval // dot_scaler [dot Dx x w]dotC addrA -raddfD /=.
congr (emb _ _ - _); rewrite /h.
set d := dot _ _ _; set g := hb_exp_g1 _ _ _; set l := lc n; set o := om n; clearbody d g l o.
by rewrite /half; field.
Qed.

Lemma hb_cosh_factor_eval N Dx (w : vec) (b0 : F) (om lc th : vec) n (x : vec) : (n < N)%N ->
  let h := dot Dx w x + b0 in
  feval (hb_cosh_factor LS N Dx w b0 om lc th) n x
  = emb LS (- lc n - half F * hb_cosh_g1 om th n * (h * h - om n * om n)).
Proof.
move=> Hn h; rewrite /hb_cosh_factor onerank_eval // dot_scaler [dot Dx x w]dotC -raddfD /=.
congr (emb _ _); rewrite /h.
set d := dot _ _ _; set g := hb_cosh_g1 _ _ _; set l := lc n; set o := om n; clearbody d g l o.
by rewrite /half; field.
Qed.

Lemma hb_h_plus_eval Dx (w : vec) (b0 : F) (x : vec) :
  feval (hb_h_plus LS Dx w b0) 0 x = emb LS (dot Dx w x + b0) - ln2 LS.
Proof. by rewrite /hb_h_plus linear_eval // addrA -raddfD. Qed.

Lemma hb_h_minus_eval Dx (w : vec) (b0 : F) (x : vec) :
  feval (hb_h_minus LS Dx w b0) 0 x = emb LS (- (dot Dx w x + b0)) - ln2 LS.
Proof. by rewrite /hb_h_minus linear_eval // dotC dot_oppr dotC addrA -raddfD -opprD. Qed.

(* ------------------------------------------------------------------ 4: the products with the measure *)
Lemma bidx_id R k : (k < R)%N -> bidx R k = k.
Proof. by rewrite /bidx; case: eqP => // ->; rewrite ltnS leqn0 => /eqP. Qed.

Lemma hadamard_D upd (u : measure) (f : factor) : uD (hadamard upd u f) = fD f.
Proof.
rewrite /hadamard; case: (fk f) => [|v g||]; case: upd => /=; try (case: (uSig u) => [Sg|] /=);
  by rewrite /with_inverse /without_cache /with_cache /inv_all /=.
Qed.

Lemma hb_exp_measure_eval (p : measure) N Dx (w : vec) (b0 : F) (om lc th : vec) k (x : vec) :
  uD p = Dx -> (k < maxn (uR p) N)%N -> (bidx N k < N)%N ->
  let h := dot Dx w x + b0 in let n := bidx N k in
  ueval (hadamard true p (hb_exp_factor LS N Dx w b0 om lc th)) k x
  = ueval p (bidx (uR p) k) x
    + (emb LS (half F * h - lc n - half F * hb_exp_g1 om th n * (h * h - om n * om n)) - ln2 LS).
Proof.
move=> HD Hk Hn h n.
have Hw : fwf (hb_exp_factor LS N Dx w b0 om lc th) by exact: fwf_onerank.
by rewrite (hadamard_eval _ _ Hw) // [fR _]/= hb_exp_factor_eval.
Qed.

Lemma hb_cosh_measure_eval (p : measure) N Dx (w : vec) (b0 : F) (om lc th : vec) k (x : vec) :
  uD p = Dx -> (k < maxn (uR p) N)%N -> (bidx N k < N)%N ->
  let h := dot Dx w x + b0 in let n := bidx N k in
  ueval (hadamard true p (hb_cosh_factor LS N Dx w b0 om lc th)) k x
  = ueval p (bidx (uR p) k) x
    + emb LS (- lc n - half F * hb_cosh_g1 om th n * (h * h - om n * om n)).
Proof.
move=> HD Hk Hn h n.
have Hw : fwf (hb_cosh_factor LS N Dx w b0 om lc th) by exact: fwf_onerank.
by rewrite (hadamard_eval _ _ Hw) // [fR _]/= hb_cosh_factor_eval.
Qed.

Lemma hb_cosh_plus_eval (p : measure) N Dx (w : vec) (b0 : F) (om lc th : vec) k (x : vec) :
  uD p = Dx -> (k < maxn (uR p) N)%N -> (bidx N k < N)%N ->
  let h := dot Dx w x + b0 in let n := bidx N k in
  ueval (hadamard true (hadamard true p (hb_cosh_factor LS N Dx w b0 om lc th)) (hb_h_plus LS Dx w b0)) k x
  = ueval p (bidx (uR p) k) x
    + (emb LS (- lc n - half F * hb_cosh_g1 om th n * (h * h - om n * om n) + h) - ln2 LS).
Proof.
move=> HD Hk Hn h n.
have HR : uR (hadamard true p (hb_cosh_factor LS N Dx w b0 om lc th)) = maxn (uR p) N by rewrite hadamard_R.
have Hw : fwf (hb_h_plus LS Dx w b0) by exact: fwf_linear.
rewrite (hadamard_eval _ _ Hw) ?hadamard_D //; last by rewrite HR leq_max Hk.
rewrite bidx_id ?HR // hb_cosh_measure_eval // [bidx (fR _) k]/= hb_h_plus_eval -/h -/n.
by rewrite -addrA; congr (_ + _); rewrite addrA -raddfD.
Qed.

Lemma hb_cosh_minus_eval (p : measure) N Dx (w : vec) (b0 : F) (om lc th : vec) k (x : vec) :
  uD p = Dx -> (k < maxn (uR p) N)%N -> (bidx N k < N)%N ->
  let h := dot Dx w x + b0 in let n := bidx N k in
  ueval (hadamard true (hadamard true p (hb_cosh_factor LS N Dx w b0 om lc th)) (hb_h_minus LS Dx w b0)) k x
  = ueval p (bidx (uR p) k) x
    + (emb LS (- lc n - half F * hb_cosh_g1 om th n * (h * h - om n * om n) - h) - ln2 LS).
Proof.
move=> HD Hk Hn h n.
have HR : uR (hadamard true p (hb_cosh_factor LS N Dx w b0 om lc th)) = maxn (uR p) N by rewrite hadamard_R.
have Hw : fwf (hb_h_minus LS Dx w b0) by exact: fwf_linear.
rewrite (hadamard_eval _ _ Hw) ?hadamard_D //; last by rewrite HR leq_max Hk.
rewrite bidx_id ?HR // hb_cosh_measure_eval // [bidx (fR _) k]/= hb_h_minus_eval -/h -/n.
by rewrite -addrA; congr (_ + _); rewrite addrA -raddfD.
Qed.

(* ------------------------------------------------------------------ 5: E[h], E[h^2] under a density *)
Lemma sc_tr1 (X : 'M[F]_1) : \tr X = sc X.
Proof. by rewrite /mxtrace big_ord1. Qed.
Lemma mxf_row1 D (w : vec) : mxf 1 D (row1 w) = (cvf D w)^T.
Proof. by apply/matrixP => i j; rewrite !mxE. Qed.
Lemma cvf_vec1 (c : F) : cvf 1 (vec1 c) = c%:M.
Proof. by apply/matrixP => i j; rewrite !ord1 !mxE eqxx mulr1n. Qed.

Lemma E_linear_row D (mu w : vec) (b0 : F) :
  E_linear D mu (row1 w) (vec1 b0) 0%N = dot D w mu + b0.
Proof. by rewrite /E_linear /aff /vadd /mvec /row1 /vec1 /dot. Qed.

Lemma E_quadratic_inner_row D (mu : vec) (S : mat) (w : vec) (b0 : F) :
  E_quadratic_inner D mu S 1 (row1 w) (vec1 b0) (row1 w) (vec1 b0) = quad D S w + (dot D w mu + b0) ^+ 2.
Proof.
rewrite E_quadratic_inner_mx mxf_row1 cvf_vec1 trmxK quadE dotE.
set W := cvf D w; set m := cvf D mu; set SS := mxf D D S.
congr (_ + _).
  by rewrite -mulmxA mxtrace_mulC sc_tr1.
by rewrite /sc [LHS]mxE big_ord1 [_^T 0 0]mxE expr2 ![(W^T *m m + _) 0 0]mxE ![b0%:M 0 0]mxE eqxx mulr1n.
Qed.

Lemma hb_Eh_spec (p : measure) Dx (w : vec) (b0 : F) r : pdf_ok p -> (r < uR p)%N -> uD p = Dx ->
  hb_Eh p w b0 r = dot Dx w (getmu p r) + b0.
Proof.
move=> Hp Hr HD; subst Dx.
by rewrite /hb_Eh /int_linear (prepare_pdf Hp Hr) -E_linear_row.
Qed.

Lemma hb_Eh2_spec (p : measure) Dx (w : vec) (b0 : F) r : pdf_ok p -> (r < uR p)%N -> uD p = Dx ->
  hb_Eh2 p w b0 r = quad Dx (getS p r) w + (dot Dx w (getmu p r) + b0) ^+ 2.
Proof.
move=> Hp Hr HD; subst Dx.
by rewrite /hb_Eh2 /int_quadratic_inner (prepare_pdf Hp Hr) -E_quadratic_inner_row.
Qed.

(* ------------------------------------------------------------------ 6: k_func is the expectation of the quadratic bound *)
Theorem hb_exp_kq_spec (p : measure) Dx (w : vec) (b0 : F) (om lc th : vec) r :
  pdf_ok p -> (r < uR p)%N -> uD p = Dx ->
  let m := dot Dx w (getmu p r) + b0 in let s2 := quad Dx (getS p r) w in
  hb_exp_kq p w b0 om lc th r
  = half F * m + lc r + half F * hb_exp_g1 om th r * (s2 + m * m - om r * om r).
Proof.
move=> Hp Hr HD m s2.
by rewrite /hb_exp_kq (hb_Eh_spec w b0 Hp Hr HD) (hb_Eh2_spec w b0 Hp Hr HD) -/m -/s2 expr2.
Qed.

Theorem hb_cosh_kq_spec (p : measure) Dx (w : vec) (b0 : F) (om lc th : vec) r :
  pdf_ok p -> (r < uR p)%N -> uD p = Dx ->
  let m := dot Dx w (getmu p r) + b0 in let s2 := quad Dx (getS p r) w in
  hb_cosh_kq p w b0 om lc th r = lc r + half F * hb_cosh_g1 om th r * (s2 + m * m - om r * om r).
Proof.
move=> Hp Hr HD m s2.
by rewrite /hb_cosh_kq (hb_Eh2_spec w b0 Hp Hr HD) -/m -/s2 expr2.
Qed.

(* tightness at the code's choice omega_dagger^2 = E[h^2] *)
Theorem hb_exp_kq_at_dagger (p : measure) Dx (w : vec) (b0 : F) (om lc th : vec) r :
  pdf_ok p -> (r < uR p)%N -> uD p = Dx ->
  let m := dot Dx w (getmu p r) + b0 in let s2 := quad Dx (getS p r) w in
  om r * om r = s2 + m * m ->
  hb_exp_kq p w b0 om lc th r = half F * m + lc r.
Proof. by move=> Hp Hr HD m s2 E; rewrite (hb_exp_kq_spec w b0 om lc th Hp Hr HD) -/m -/s2 E subrr mulr0 addr0. Qed.

Theorem hb_cosh_kq_at_dagger (p : measure) Dx (w : vec) (b0 : F) (om lc th : vec) r :
  pdf_ok p -> (r < uR p)%N -> uD p = Dx ->
  let m := dot Dx w (getmu p r) + b0 in let s2 := quad Dx (getS p r) w in
  om r * om r = s2 + m * m ->
  hb_cosh_kq p w b0 om lc th r = lc r.
Proof. by move=> Hp Hr HD m s2 E; rewrite (hb_cosh_kq_spec w b0 om lc th Hp Hr HD) -/m -/s2 E subrr mulr0 addr0. Qed.

(* ------------------------------------------------------------------ 7: assembly *)
(* Lambda = (A A')^-1 as the code computes it (cofactor inverse) is symmetric, whatever A is *)
Lemma hb_Lam_sym Dy Da (A : mat) : (mxf Dy Dy (hb_Lam Dy Da A))^T = mxf Dy Dy (hb_Lam Dy Da A).
Proof.
rewrite /hb_Lam /het_Lambda0; set S0 := het_Sigma0 Dy Da A.
have S0sym : (mxf Dy Dy S0)^T = mxf Dy Dy S0.
  by rewrite /S0 /het_Sigma0 mxf_tab (mxf_mul Dy Da Dy) (mxf_tr Da Dy A) trmx_mul trmxK.
case: (eqVneq (detn Dy S0) 0) => [E|H].
  by apply/matrixP => i j; rewrite !mxE /minv !tabmE // E invr0 !mul0r.
rewrite mxf_inv //; apply: (inv_sym (L := mxf Dy Dy S0)) => //.
by rewrite mulVmx // unitmxE unitfE -detnE.
Qed.

Lemma hb_Lam_sym_entries Dy Da (A : mat) i j : (i < Dy)%N -> (j < Dy)%N ->
  hb_Lam Dy Da A i j = hb_Lam Dy Da A j i.
Proof.
move=> Hi Hj; have /matrixP/(_ (Ordinal Hj) (Ordinal Hi)) := hb_Lam_sym Dy Da A.
by rewrite !mxE.
Qed.

(* the homoscedastic term is E[(y_n - M x - b)' Lambda (y_n - M x - b)] under component rp of p(x) *)
Lemma hb_homo_spec Dy Da Dx (A M : mat) (b : vec) (p : measure) (ys : seq vec) n :
  pdf_ok p -> uD p = Dx -> (bidx (uR p) n < uR p)%N ->
  let rp := bidx (uR p) n in
  hb_homo Dy Da Dx A M b p ys n
  = Equad (cvf Dx (getmu p rp)) (mxf Dx Dx (getS p rp)) (- mxf Dy Dx M)
          (cvf Dy (nth vzero ys n) - cvf Dy b) (mxf Dy Dy (hb_Lam Dy Da A)).
Proof.
move=> Hp HD Hr rp; subst Dx.
rewrite /hb_homo (prepare_pdf Hp Hr) E_quadratic_inner_mx -/rp.
rewrite !mxf_opp mxf_tab (mxf_mul Dy Dy (uD p)) cvf_mvec cvf_sub.
have Lsym := hb_Lam_sym Dy Da A.
set L := mxf Dy Dy _ in Lsym *; set Mm := mxf Dy (uD p) M; set m := cvf (uD p) _; set S := mxf (uD p) (uD p) _.
set yb := _ - _.
rewrite /Equad.
have -> : - (L *m Mm) *m m + L *m yb = L *m (- Mm *m m + yb) by rewrite mulmxDr mulmxA mulmxN.
have -> : - (L *m Mm) = L *m - Mm by rewrite mulmxN.
by rewrite !trmx_mul Lsym.
Qed.

Theorem hb_final_spec Dy Da Dk Dx (A M : mat) (b : vec) (p : measure) (ys : seq vec)
    (het kq : nat -> vec) (nln2 : nat) n :
  pdf_ok p -> uD p = Dx -> (bidx (uR p) n < uR p)%N ->
  let rp := bidx (uR p) n in
  hb_final Dy Da Dk Dx A M b p ys het kq nln2 n
  = emb LS (- half F * (Equad (cvf Dx (getmu p rp)) (mxf Dx Dx (getS p rp)) (- mxf Dy Dx M)
                              (cvf Dy (nth vzero ys n) - cvf Dy b) (mxf Dy Dy (hb_Lam Dy Da A))
                        - sumn Dk (fun i => het i n) + sumn Dk (fun i => kq i rp)))
    - het_hS0 LS Dy Da A - hln LS 2%:R *+ nln2 - hl2p LS *+ Dy.
Proof. by move=> Hp HD Hr rp; rewrite /hb_final (@hb_homo_spec Dy Da Dx A M b p ys n). Qed.

End C17.
Print Assumptions hb_exp_factor_eval.
Print Assumptions hb_cosh_factor_eval.
Print Assumptions hb_h_plus_eval.
Print Assumptions hb_h_minus_eval.
Print Assumptions hb_exp_measure_eval.
Print Assumptions hb_cosh_measure_eval.
Print Assumptions hb_cosh_plus_eval.
Print Assumptions hb_cosh_minus_eval.
Print Assumptions hb_Eh_spec.
Print Assumptions hb_Eh2_spec.
Print Assumptions hb_exp_kq_spec.
Print Assumptions hb_cosh_kq_spec.
Print Assumptions hb_exp_kq_at_dagger.
Print Assumptions hb_cosh_kq_at_dagger.
Print Assumptions hb_Lam_sym.
Print Assumptions hb_homo_spec.
Print Assumptions hb_final_spec.
