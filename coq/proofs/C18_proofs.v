(* C18: constructor round trips on the model.  tree_unflatten(tree_flatten(o)), passing o through jit / scan
   and from_dict(to_dict(o)) all re-run the class constructor on the stored (init) fields; these lemmas say
   that re-running the model constructor on the fields of an object gives an object that evaluates to the
   same function (and is again consistent). *)
From mathcomp Require Import all_ssreflect all_algebra.
From GT Require Import Tensor DetExec LogDom MxTac MxLemmas Obj Factor Measure Pdf Cond EvalLemmas Spec
  C01_proofs PdfLemmas C04_proofs C05_proofs.
Set Implicit Arguments.
Unset Strict Implicit.
Unset Printing Implicit Defensive.
Import GRing.Theory Num.Theory.
Local Open Scope ring_scope.

Section C18.
Variable F : realFieldType.
Variable LS : logS F.
Notation mat := (mat F).
Notation vec := (vec F).
Notation measure := (measure LS).
Notation cond := (cond LS).
Notation factor := (factor LS).

(* GaussianMeasure / GaussianDiagMeasure: fields Lambda, nu, ln_beta, Sigma, ln_det_Lambda, ln_det_Sigma *)
Definition rt_measure (u : measure) : measure :=
  mk_measure (ucls u) (uR u) (uD u) (uLam u) (unu u) (ulb u) (uSig u) (uhldS u) (uhldL u).
Lemma rt_measure_eval (u : measure) r (x : vec) : (r < uR u)%N -> ueval (rt_measure u) r x = ueval u r x.
Proof. by move=> Hr; rewrite /rt_measure /mk_measure ueval_tab. Qed.
Lemma rt_measure_shape (u : measure) : uR (rt_measure u) = uR u /\ uD (rt_measure u) = uD u /\ ucls (rt_measure u) = ucls u.
Proof. by []. Qed.

(* GaussianPDF / GaussianDiagPDF: init fields Sigma, mu, Lambda, ln_det_Sigma *)
Definition rt_pdf (p : measure) : measure :=
  mk_pdf (is_diag (ucls p)) (uR p) (uD p) (getS p) (getmu p) (Some (uLam p)) (Some (gethS p)).
Lemma rt_pdf_args (p : measure) : pdf_ok p ->
  pdf_args_ok (LS:=LS) (is_diag (ucls p)) (uR p) (uD p) (getS p) (Some (uLam p)) (Some (gethS p)).
Proof.
move=> Hp r Hr /=; have [[sy cS cld cmu cz] pall pnu plb] := Hp r Hr.
have Hs : uSig p by case: pall.
have [SL dS hS] := cS Hs.
split => //.
- exact: (inv_sym SL sy).
- by move=> L [<-]; exact: SL.
- by move=> L h [_] [<-]; exact: hS.
Qed.
Lemma rt_pdf_eval (p : measure) r (x : vec) : pdf_ok p -> (r < uR p)%N -> ueval (rt_pdf p) r x = ueval p r x.
Proof.
move=> Hp Hr; rewrite /rt_pdf (mk_pdf_eval _ _ (rt_pdf_args Hp) Hr).
by rewrite (pdf_ok_eval _ Hp Hr).
Qed.
Lemma rt_pdf_ok (p : measure) : pdf_ok p -> pdf_ok (rt_pdf p).
Proof. by move=> Hp; apply: mk_pdf_ok; exact: rt_pdf_args. Qed.

(* conditionals: fields M, b, Sigma, Lambda, ln_det_Sigma (identity classes: Sigma, Lambda, ln_det_Sigma) *)
Definition rt_cond (c : cond) : cond :=
  mk_cond (ccl c) (cR c) (cDy c) (cDx c) (cM c) (cb c) (Some (cSig c)) (Some (cLam c)) (Some (chS c)).
Lemma rt_cond_fields (c : cond) r : (r < cR c)%N ->
  [/\ cR (rt_cond c) = cR c, cDy (rt_cond c) = cDy c, cDx (rt_cond c) = cDx c & ccl (rt_cond c) = ccl c]
  /\ [/\ forall i j, (i < cDy c)%N -> (j < cDx c)%N -> effM (rt_cond c) r i j = effM c r i j,
         forall i, (i < cDy c)%N -> effb (rt_cond c) r i = effb c r i,
         forall i j, (i < cDy c)%N -> (j < cDy c)%N -> cSig (rt_cond c) r i j = cSig c r i j,
         forall i j, (i < cDy c)%N -> (j < cDy c)%N -> cLam (rt_cond c) r i j = cLam c r i j
       & chS (rt_cond c) r = chS c r].
Proof.
move=> Hr; split=> //; rewrite /rt_cond /mk_cond /effM /effb /=.
split=> [i j Hi Hj|i Hi|i j Hi Hj|i j Hi Hj|].
- by case: (cident (ccl c)) => //=; rewrite tabbE.
- by case: (cident (ccl c)) => //=; rewrite tabbvE.
- by rewrite tabbE.
- by rewrite tabbE.
- by rewrite tablE.
Qed.

(* factors: general (Lambda, nu, ln_beta), linear (nu, ln_beta), constant (ln_beta, num_dim), rank one (v, g, nu, ln_beta) *)
Definition rt_factor (f : factor) : factor :=
  match fk f with
  | KGeneral => mk_general (fR f) (fD f) (fLam f) (fnu f) (flb f)
  | KOneRank v g => mk_onerank (fR f) (fD f) v g (fnu f) (flb f)
  | KLinear => mk_linear (fR f) (fD f) (fnu f) (flb f)
  | KConstant => mk_constant (fR f) (fD f) (flb f)
  end.
Lemma rt_factor_eval (f : factor) r (x : vec) : fwf f -> fwf1 f -> (r < fR f)%N ->
  feval (rt_factor f) r x = feval f r x.
Proof.
rewrite /rt_factor /fwf /fwf1 /feval; case: (fk f) => [|v g||] Hw H1 Hr /=; rewrite tablE //.
- by apply: eval_core_ext => [i j Hi Hj|i Hi]; rewrite ?tabbE ?tabbvE.
- apply: eval_core_ext => [i j Hi Hj|i Hi]; rewrite ?tabbE ?tabbvE //.
  by rewrite /outer /vscale !tabbvE // tabvE // H1.
- by rewrite Hw; apply: eval_core_ext => [i j Hi Hj|i Hi] //; rewrite tabbvE.
- by case: Hw => HL Hn; rewrite HL Hn.
Qed.
End C18.
