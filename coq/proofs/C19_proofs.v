(* C19: draws are an affine image of the standard normal stream with L L' = Sigma; hence mean mu and
   covariance Sigma (second moments by the Wick specification with identity covariance of z), and
   distinct components read disjoint coordinates of the stream. *)
From mathcomp Require Import all_ssreflect all_algebra.
From mathcomp Require Import ring.
From GT Require Import Tensor DetExec LogDom Obj Factor EvalLemmas Wick Sample.
Set Implicit Arguments.
Unset Strict Implicit.
Unset Printing Implicit Defensive.
Import GRing.Theory Num.Theory.
Local Open Scope ring_scope.

Section C19.
Variable F : realFieldType.
Notation mat := (mat F).
Notation vec := (vec F).
Variable D : nat.

(* coordinate i of a draw is the affine form (row i of L, mu_i) of the stream vector z[d,a,:] *)
Lemma sample_affine (mu : nat -> vec) (L : nat -> mat) (z : nat -> nat -> vec) d a i :
  sample D mu L z d a i = dot D (fun c => L a i c) (z d a) + mu a i.
Proof. by rewrite /sample /vadd /mvec /dot addrC. Qed.

(* a draw of component a depends on the stream only through z[d,a,:] *)
Lemma sample_component_local (mu : nat -> vec) (L : nat -> mat) (z z' : nat -> nat -> vec) d a i :
  (forall c, (c < D)%N -> z d a c = z' d a c) -> sample D mu L z d a i = sample D mu L z' d a i.
Proof.
move=> H; rewrite !sample_affine; congr (_ + _).
by apply: eq_sumn => c Hc; rewrite H.
Qed.

Lemma mvec_id (v : vec) i : (i < D)%N -> mvec D mid v i = v i.
Proof.
move=> Hi; rewrite /mvec sumnE (bigD1 (Ordinal Hi)) //= /mid eqxx mul1r big1 ?addr0 // => j Hj.
have -> : (i == j) = false.
  by apply/negbTE; apply: contraNneq Hj => E; apply/eqP/val_inj; rewrite /= E.
by rewrite mul0r.
Qed.

(* under z ~ N(0, I): E[x_i] = mu_i and Cov(x_i, x_j) = (L L')_ij, which is Sigma_ij for a Cholesky factor *)
Theorem sample_moments (mu : vec) (L S : mat) i j :
  (forall i j, (i < D)%N -> (j < D)%N -> mmul D L (mtr L) i j = S i j) -> (i < D)%N -> (j < D)%N ->
  gE D vzero mid [:: rowf L mu i] = mu i
  /\ gE D vzero mid [:: rowf L mu i; rowf L mu j] - gE D vzero mid [:: rowf L mu i] * gE D vzero mid [:: rowf L mu j] = S i j.
Proof.
move=> HS Hi Hj.
have Hm k : fmean D vzero (rowf L mu k) = mu k.
  rewrite /fmean /rowf /= /dot sumn_eq0 ?add0r // => c _.
  by rewrite /vzero mulr0.
split; first by rewrite /gE E1 Hm.
rewrite /gE E2 !E1 !Hm addrC addKr /fcov /rowf /= -HS // /mmul /mtr /dot.
by apply: eq_sumn => c Hc; rewrite mvec_id.
Qed.

(* the executable Cholesky check implies the matrix identity used above *)
Lemma is_cholP (L S : mat) : is_chol D L S ->
  forall i j, (i < D)%N -> (j < D)%N -> mmul D L (mtr L) i j = S i j.
Proof.
move=> /allP H i j Hi Hj.
have Hi' : i \in iota 0 D by rewrite mem_iota add0n.
have Hj' : j \in iota 0 D by rewrite mem_iota add0n.
have /allP Hr := H i Hi'.
by have /and3P [_ _ /eqP] := Hr j Hj'.
Qed.
End C19.
