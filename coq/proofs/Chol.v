(* utils/linalg.py invert_matrix: `ln_det = 2 * sum(log(diag(cholesky(A))))`, pdf.py sample(): `cholesky(Sigma)`.
   Executable square-root-free factorisation A = L D L' (L unit lower triangular, D diagonal) on
   function-matrices, correct for every dimension on symmetric positive definite input; the diagonal
   gives the determinant and the half log-determinant that the model computes with `detn`; every
   Cholesky factor C (C C' = A, lower triangular, positive diagonal) is L sqrt(D): C_ij = L_ij C_jj
   and C_jj^2 = D_j, hence 2 sum_j ln C_jj = ln det A. *)
From Coq Require Import QArith Qcanon ZArith.
From mathcomp Require Import all_ssreflect all_fingroup all_algebra.
From mathcomp Require Import ring.
From GT Require Import QcField QcOrder Tensor DetExec LogDom MxTac MxLemmas Obj Factor Sample SPD.
Set Implicit Arguments.
Unset Strict Implicit.
Unset Printing Implicit Defensive.
Local Close Scope Q_scope.
Local Close Scope Qc_scope.
Local Close Scope Z_scope.
Import GRing.Theory Num.Theory Order.Theory.
Local Open Scope ring_scope.

Section Chol.
Variable F : realFieldType.
Variable LS : logS F.
Notation mat := (mat F).
Notation vec := (vec F).

(* right-looking LDL': eliminate the first variable, recurse on the Schur complement *)
Fixpoint ldl (n : nat) (A : mat) : mat * vec :=
  match n with
  | 0%N => (mid, vzero)
  | S m =>
      let d0 := A 0%N 0%N in
      let l := tabv m (fun i => A i.+1 0%N / d0) in
      let A' := tabm m m (fun i j => A i.+1 j.+1 - d0 * l i * l j) in
      let: (L', d') := ldl m A' in
      (fun i j => match i, j with
                  | 0%N, 0%N => 1 | 0%N, _.+1 => 0 | i'.+1, 0%N => l i' | i'.+1, j'.+1 => L' i' j' end,
       fun i => match i with 0%N => d0 | i'.+1 => d' i' end)
  end.

(* 1/2 ln det A *)
Definition ldl_logdet_half (n : nat) (A : mat) : LS := suml n (fun j => hln LS ((ldl n A).2 j)).

(* names for the pieces of one step *)
Definition ldl_col (m : nat) (A : mat) : vec := tabv m (fun i => A i.+1 0%N / A 0%N 0%N).
Definition ldl_schur (m : nat) (A : mat) : mat :=
  tabm m m (fun i j => A i.+1 j.+1 - A 0%N 0%N * ldl_col m A i * ldl_col m A j).

Lemma ldl_L_S m A i j :
  (ldl m.+1 A).1 i j = match i, j with
                       | 0%N, 0%N => 1 | 0%N, _.+1 => 0 | i'.+1, 0%N => ldl_col m A i'
                       | i'.+1, j'.+1 => (ldl m (ldl_schur m A)).1 i' j' end.
Proof. by rewrite /ldl_schur /ldl_col /=; case: (ldl m _). Qed.

Lemma ldl_d_S m A i :
  (ldl m.+1 A).2 i = match i with 0%N => A 0%N 0%N | i'.+1 => (ldl m (ldl_schur m A)).2 i' end.
Proof. by rewrite /ldl_schur /ldl_col /=; case: (ldl m _). Qed.

(* L is unit lower triangular, for every input *)
Lemma ldl_upper n A i j : (i < j)%N -> (ldl n A).1 i j = 0.
Proof.
elim: n A i j => [|m IH] A i j.
  by rewrite /= /mid; case: eqP => // ->; rewrite ltnn.
by rewrite ldl_L_S; case: i j => [|i] [|j] //; rewrite ltnS; apply: IH.
Qed.

Lemma ldl_diag1 n A i : (ldl n A).1 i i = 1.
Proof.
elim: n A i => [|m IH] A i; first by rewrite /= /mid eqxx.
by rewrite ldl_L_S; case: i => [|i] //; apply: IH.
Qed.

(* ---------- 1 + m blocks ---------- *)
Lemma mxf_block1 m (A : mat) :
  mxf m.+1 m.+1 A =
  block_mx (A 0%N 0%N)%:M (\row_j A 0%N j.+1) (\col_i A i.+1 0%N) (mxf m m (fun i j => A i.+1 j.+1))
     :> 'M_(1 + m).
Proof.
apply/(@matrixP _ (1 + m) (1 + m)) => i j; rewrite [LHS]mxE.
case: (split_ordP i) => i' ->; case: (split_ordP j) => j' ->;
  rewrite ?block_mxEul ?block_mxEur ?block_mxEdl ?block_mxEdr !mxE ?ord1 //=.
Qed.

Lemma diag_block1 m (d : vec) :
  diag_mx (\row_(j < m.+1) d j) =
  block_mx (d 0%N)%:M 0 0 (diag_mx (\row_(j < m) d j.+1)) :> 'M_(1 + m).
Proof.
apply/(@matrixP _ (1 + m) (1 + m)) => i j; rewrite [LHS]mxE.
case: (split_ordP i) => i' ->; case: (split_ordP j) => j' ->;
  rewrite ?block_mxEul ?block_mxEur ?block_mxEdl ?block_mxEdr !mxE ?ord1 //=.
Qed.

(* Schur complement of the FIRST variable *)
Lemma spd_schur1 m (a : 'M[F]_1) (b : 'cV[F]_m) (C : 'M[F]_m) :
  spd (block_mx a b^T b C : 'M_(1 + m)) -> 0 < a 0 0 /\ spd (C - (a 0 0)^-1 *: (b *m b^T)).
Proof.
move=> sA; have a0 : 0 < a 0 0 by exact: (spd_diag_gt0 (spd_ul sA)).
split=> //.
pose T : 'M[F]_(1 + m, m) := col_mx (- ((a 0 0)^-1 *: b^T)) 1%:M.
have -> : C - (a 0 0)^-1 *: (b *m b^T) = T^T *m block_mx a b^T b C *m T.
  rewrite /T tr_col_mx mul_row_block mul_row_col trmx1 !mul1mx mulmx1.
  rewrite [(- _)^T]linearN /= [(_ *: _)^T]linearZ /= trmxK.
  have -> : - ((a 0 0)^-1 *: b) *m a + b = 0.
    rewrite {2}[a]scalar11 mul_mx_scalar scalerN scalerA mulfV ?lt0r_neq0 // scale1r.
    by rewrite addNr.
  by rewrite mul0mx add0r mulNmx -scalemxAl addrC.
apply: spd_congr_inj => // x x0.
by rewrite /T mul_col_mx mul1mx col_mx_neq0r.
Qed.

Lemma ldl_step m (a0 : F) (l : 'cV[F]_m) (L' D' : 'M[F]_m) :
  (block_mx 1%:M 0 l L' : 'M_(1 + m)) *m block_mx a0%:M 0 0 D' *m (block_mx 1%:M 0 l L' : 'M_(1 + m))^T
  = block_mx a0%:M (a0 *: l^T) (a0 *: l) (a0 *: (l *m l^T) + L' *m D' *m L'^T).
Proof.
rewrite tr_block_mx trmx1 trmx0 !mulmx_block.
rewrite !mul1mx !mulmx1 !mul0mx !mulmx0 !addr0 !add0r.
by rewrite mul_scalar_mx mul_mx_scalar -scalemxAl mul0mx addr0.
Qed.

(* bridges for one step *)
Lemma mxf_ldl_L_S m A :
  mxf m.+1 m.+1 (ldl m.+1 A).1 =
  block_mx 1%:M 0 (cvf m (ldl_col m A)) (mxf m m (ldl m (ldl_schur m A)).1) :> 'M_(1 + m).
Proof.
rewrite mxf_block1; congr (block_mx _ _ _ _).
- by rewrite ldl_L_S.
- by apply/matrixP => i j; rewrite !mxE ldl_L_S.
- by apply/matrixP => i j; rewrite !mxE ldl_L_S.
- by apply/matrixP => i j; rewrite !mxE ldl_L_S.
Qed.

Lemma diag_ldl_d_S m A :
  diag_mx (\row_(j < m.+1) (ldl m.+1 A).2 j) =
  block_mx (A 0%N 0%N)%:M 0 0 (diag_mx (\row_(j < m) (ldl m (ldl_schur m A)).2 j)) :> 'M_(1 + m).
Proof.
rewrite diag_block1 ldl_d_S; congr (block_mx _ _ _ (diag_mx _)).
by apply/matrixP => i j; rewrite !mxE ldl_d_S.
Qed.

Lemma cvf_ldl_col m A : cvf m (ldl_col m A) = (A 0%N 0%N)^-1 *: (\col_i A i.+1 0%N).
Proof. by apply/matrixP => i j; rewrite !mxE /ldl_col tabvE // mulrC. Qed.

Lemma mxf_ldl_schur m A : A 0%N 0%N != 0 ->
  mxf m m (ldl_schur m A) =
  mxf m m (fun i j => A i.+1 j.+1) - (A 0%N 0%N)^-1 *: ((\col_i A i.+1 0%N) *m (\col_i A i.+1 0%N)^T).
Proof.
move=> a0; rewrite /ldl_schur mxf_tab; apply/matrixP => i j.
rewrite !mxE big_ord1 !mxE /ldl_col !tabvE //.
by set x := A _ _; set y := A _ _; set z := A _ _; set w := A _ _; field.
Qed.

(* ---------- correctness ---------- *)
Lemma ldl_correct_fun n A : spd (mxf n n A) ->
  mxf n n (ldl n A).1 *m diag_mx (\row_(j < n) (ldl n A).2 j) *m (mxf n n (ldl n A).1)^T = mxf n n A
  /\ (forall j, (j < n)%N -> 0 < (ldl n A).2 j).
Proof.
elim: n A => [|m IH] A sA.
  by split=> //; apply/matrixP; case.
have As := proj1 sA; move: sA (As); rewrite mxf_block1.
set a00 := A 0%N 0%N; set r := \row_j _; set c := \col_i _; set A22 := mxf m m _ => sA.
move=> As'; have [_ cE _] := @sym_block F 1 m _ _ _ _ As'.
have rE : r = c^T by rewrite cE trmxK.
move: sA; rewrite rE => sA.
have [a0 sS] := @spd_schur1 m _ _ _ sA; rewrite mxE mulr1n in a0.
have an0 : a00 != 0 by rewrite lt0r_neq0.
move: sS; rewrite mxE mulr1n -(mxf_ldl_schur _ an0) => sS.
have [IH1 IH2] := IH _ sS.
split; last first.
  by case=> [|j] Hj; rewrite ldl_d_S //; apply: IH2.
rewrite mxf_ldl_L_S diag_ldl_d_S ldl_step IH1 cvf_ldl_col -/c -/a00.
rewrite (mxf_ldl_schur _ an0) -/c -/a00 -/A22.
have -> : a00 *: (a00^-1 *: c) = c by rewrite scalerA mulfV // scale1r.
have -> : a00 *: (a00^-1 *: c)^T = c^T by rewrite linearZ /= scalerA mulfV // scale1r.
have -> : a00 *: (a00^-1 *: c *m (a00^-1 *: c)^T) + (A22 - a00^-1 *: (c *m c^T)) = A22.
  rewrite -scalemxAl [(_ *: c)^T]linearZ /=. rewrite -scalemxAr !scalerA mulfV // mul1r.
  by rewrite addrC subrK.
by [].
Qed.

Theorem ldl_correct n A : spd (mxf n n A) ->
  let Lm := mxf n n (ldl n A).1 in let dm := diag_mx (\row_(j < n) (ldl n A).2 j) in
  [/\ Lm *m dm *m Lm^T = mxf n n A,
      (forall i j : 'I_n, (i < j)%N -> Lm i j = 0),
      (forall i : 'I_n, Lm i i = 1)
    & (forall j, (j < n)%N -> 0 < (ldl n A).2 j)].
Proof.
move=> sA; have [H1 H2] := ldl_correct_fun sA; split=> //.
- by move=> i j ij; rewrite mxE ldl_upper.
- by move=> i; rewrite mxE ldl_diag1.
Qed.

(* ---------- determinant and log-determinant from the diagonal ---------- *)
Theorem ldl_det n A : spd (mxf n n A) -> \det (mxf n n A) = \prod_(j < n) (ldl n A).2 j.
Proof.
move=> sA; have [H _] := ldl_correct_fun sA.
have Lt : is_trig_mx (mxf n n (ldl n A).1).
  by apply/is_trig_mxP => i j ij; rewrite mxE ldl_upper.
rewrite -H !det_mulmx det_tr (det_trig Lt) mathcomp.algebra.matrix.det_diag.
rewrite big1 ?mul1r ?mulr1; last by move=> i _; rewrite mxE ldl_diag1.
by apply: eq_bigr => j _; rewrite mxE.
Qed.

Lemma hln_prod n (f : nat -> F) : (forall j, (j < n)%N -> 0 < f j) ->
  0 < \prod_(j < n) f j /\ hln LS (\prod_(j < n) f j) = suml n (fun j => hln LS (f j)).
Proof.
elim: n => [|n IH] Hf; first by rewrite big_ord0 hln1 ltr01.
have [|p0 E] := IH; first by move=> j Hj; apply: Hf; apply: ltnW.
have fk0 : 0 < f n by apply: Hf.
by rewrite big_ord_recr /=; split; [apply: mulr_gt0 | rewrite hlnM // E].
Qed.

Lemma eq_suml' n (v v' : nat -> LS) : (forall r, (r < n)%N -> v r = v' r) -> suml n v = suml n v'.
Proof.
elim: n => [|n IH] //= H; rewrite IH ?H // => r Hr; apply: H.
exact: (ltn_trans Hr).
Qed.

Theorem ldl_logdet n A : spd (mxf n n A) -> ldl_logdet_half n A = hln LS (\det (mxf n n A)).
Proof.
move=> sA; have [_ Hp] := ldl_correct_fun sA.
by rewrite /ldl_logdet_half ldl_det //; have [_ ->] := hln_prod Hp.
Qed.

(* the model's `hln LS (detn D Lam)` (Factor.inv_all) is the Cholesky-style log-determinant *)
Corollary ldl_logdet_detn n A : spd (mxf n n A) -> ldl_logdet_half n A = hln LS (detn n A).
Proof. by move=> sA; rewrite detnE ldl_logdet. Qed.

Corollary ldl_det_detn n A : spd (mxf n n A) -> detn n A = \prod_(j < n) (ldl n A).2 j.
Proof. by move=> sA; rewrite detnE ldl_det. Qed.

(* ---------- every Cholesky factor is L sqrt(D) ---------- *)
Lemma sum_recl m (f : nat -> F) : \sum_(k < m.+1) f k = f 0%N + \sum_(k < m) f k.+1.
Proof. by rewrite big_ord_recl. Qed.

(* positive definiteness is not needed here: a positive diagonal of C is enough *)
Lemma chol_unique_fun n (A C : mat) :
  (forall i j, (i < j)%N -> (j < n)%N -> C i j = 0) ->
  (forall i, (i < n)%N -> 0 < C i i) ->
  (forall i j, (i < n)%N -> (j < n)%N -> \sum_(k < n) C i k * C j k = A i j) ->
  forall i j, (i < n)%N -> (j < n)%N ->
    C i j = (ldl n A).1 i j * C j j /\ C j j * C j j = (ldl n A).2 j.
Proof.
elim: n A C => [|m IH] A C Ht Hp Hm i j //.
have c0 : 0 < C 0%N 0%N by apply: Hp.
have cn0 : C 0%N 0%N != 0 by rewrite lt0r_neq0.
have C0k k : (k < m)%N -> C 0%N k.+1 = 0 by move=> Hk; apply: Ht.
have E00 : C 0%N 0%N * C 0%N 0%N = A 0%N 0%N.
  rewrite -(Hm 0%N 0%N) // (sum_recl m (fun k => C 0%N k * C 0%N k)) big1 ?addr0 // => k _.
  by rewrite C0k ?mul0r.
have Ei0 i' : (i' < m)%N -> C i'.+1 0%N * C 0%N 0%N = A i'.+1 0%N.
  move=> Hi; rewrite -(Hm i'.+1 0%N) // (sum_recl m (fun k => C i'.+1 k * C 0%N k)) big1 ?addr0 // => k _.
  by rewrite C0k ?mulr0.
have Eij i' j' : (i' < m)%N -> (j' < m)%N ->
    \sum_(k < m) C i'.+1 k.+1 * C j'.+1 k.+1 = ldl_schur m A i' j'.
  move=> Hi Hj; rewrite /ldl_schur tabmE // /ldl_col !tabvE // -(Hm i'.+1 j'.+1) // (sum_recl m (fun k => C i'.+1 k * C j'.+1 k)).
  rewrite -!Ei0 // -E00.
  set S := \sum_(k < m) _; set x := C i'.+1 0%N; set y := C j'.+1 0%N; set z := C 0%N 0%N.
  by move: cn0; rewrite -/z => cn0; clearbody S x y z; field.
have Ht' i' j' : (i' < j')%N -> (j' < m)%N -> C i'.+1 j'.+1 = 0.
  by move=> Hij Hj; apply: Ht.
have Hp' i' : (i' < m)%N -> 0 < C i'.+1 i'.+1 by move=> Hi; apply: Hp.
have IH' := IH (ldl_schur m A) (fun i j => C i.+1 j.+1) Ht' Hp' Eij.
case: i j => [|i] [|j] Hi Hj; rewrite ldl_L_S ldl_d_S.
- by rewrite mul1r.
- split; first by rewrite mul0r; apply: Ht.
  by case: (IH' j j Hj Hj).
- split=> //; rewrite /ldl_col tabvE // -Ei0 // -E00.
  set x := C i.+1 0%N; set z := C 0%N 0%N.
  by move: cn0; rewrite -/z => cn0; clearbody x z; field.
- exact: IH'.
Qed.

Theorem chol_unique n A (C : mat) : spd (mxf n n A) ->
  (forall i j, (i < j)%N -> (j < n)%N -> C i j = 0) ->
  (forall i, (i < n)%N -> 0 < C i i) ->
  mxf n n C *m (mxf n n C)^T = mxf n n A ->
  forall i j, (i < n)%N -> (j < n)%N ->
    C i j = (ldl n A).1 i j * C j j /\ C j j * C j j = (ldl n A).2 j.
Proof.
move=> _ Ht Hp HM; apply: chol_unique_fun => // i j Hi Hj.
move/matrixP/(_ (Ordinal Hi) (Ordinal Hj)): HM; rewrite !mxE => <-.
by apply: eq_bigr => k _; rewrite !mxE.
Qed.

(* the executable Cholesky check gives the three hypotheses *)
Lemma is_chol_facts n (C A : mat) : is_chol n C A ->
  [/\ (forall i j, (i < j)%N -> (j < n)%N -> C i j = 0),
      (forall i, (i < n)%N -> 0 < C i i)
    & (forall i j, (i < n)%N -> (j < n)%N -> \sum_(k < n) C i k * C j k = A i j)].
Proof.
move=> /allP H.
have Hc i j : (i < n)%N -> (j < n)%N ->
    [&& (if (i < j)%N then C i j == 0 else true), (if i == j then 0 < C i i else true)
      & mmul n C (mtr C) i j == A i j].
  move=> Hi Hj.
  have Hi' : i \in iota 0 n by rewrite mem_iota add0n.
  have Hj' : j \in iota 0 n by rewrite mem_iota add0n.
  by have /allP Hr := H i Hi'; apply: Hr.
split.
- move=> i j Hij Hj; have Hi : (i < n)%N := ltn_trans Hij Hj.
  by have /and3P [] := Hc i j Hi Hj; rewrite Hij => /eqP.
- by move=> i Hi; have /and3P [_] := Hc i i Hi Hi; rewrite eqxx.
- by move=> i j Hi Hj; have /and3P [_ _ /eqP <-] := Hc i j Hi Hj; rewrite /mmul sumnE.
Qed.

(* 2 * sum(log(diag(C))) = ln det A, in half-log units: hln (c^2) = ln c *)
Theorem chol_logdet n A C : spd (mxf n n A) -> is_chol n C A ->
  suml n (fun j => hln LS (C j j * C j j)) = hln LS (\det (mxf n n A)).
Proof.
move=> sA /is_chol_facts [Ht Hp Hm]; rewrite -ldl_logdet // /ldl_logdet_half.
by apply: eq_suml' => j Hj; have [_ ->] := chol_unique_fun Ht Hp Hm Hj Hj.
Qed.

Corollary chol_logdet_detn n A C : spd (mxf n n A) -> is_chol n C A ->
  suml n (fun j => hln LS (C j j * C j j)) = hln LS (detn n A).
Proof. by move=> sA cC; rewrite detnE; apply: chol_logdet. Qed.

End Chol.

(* ---------- executable sanity at the rationals ---------- *)
From GT Require Import Driver.

Definition exA : mat QF :=
  lm [:: [:: q 4 1; q 2 1; q 2 1]; [:: q 2 1; q 5 1; q 3 1]; [:: q 2 1; q 3 1; q 6 1]].
Definition exL : mat QF :=
  lm [:: [:: q 1 1; q 0 1; q 0 1]; [:: q 1 2; q 1 1; q 0 1]; [:: q 1 2; q 1 2; q 1 1]].
Definition exC : mat QF :=
  lm [:: [:: q 2 1; q 0 1; q 0 1]; [:: q 1 1; q 2 1; q 0 1]; [:: q 1 1; q 1 1; q 2 1]].

Example ldl_ex_d : [seq (ldl 3 exA).2 j | j <- iota 0 3] == [:: q 4 1; q 4 1; q 4 1].
Proof. by vm_compute. Qed.
Example ldl_ex_L :
  [seq [seq (ldl 3 exA).1 i j | j <- iota 0 3] | i <- iota 0 3]
  == [seq [seq exL i j | j <- iota 0 3] | i <- iota 0 3].
Proof. by vm_compute. Qed.
Example ldl_ex_det : (detn 3 exA == q 64 1) && (prodn 3 (ldl 3 exA).2 == q 64 1).
Proof. by vm_compute. Qed.
Example ldl_ex_logdet : ldl_logdet_half LQ 3 exA == hln LQ (detn 3 exA).
Proof. by vm_compute. Qed.
Example ldl_ex_chol :
  is_chol 3 exC exA && (suml 3 (fun j => hln LQ (exC j j * exC j j)) == ldl_logdet_half LQ 3 exA).
Proof. by vm_compute. Qed.

Print Assumptions ldl_correct.
Print Assumptions ldl_det.
Print Assumptions ldl_logdet.
Print Assumptions ldl_logdet_detn.
Print Assumptions chol_unique.
Print Assumptions chol_unique_fun.
Print Assumptions chol_logdet.
Print Assumptions chol_logdet_detn.
Print Assumptions ldl_ex_logdet.
