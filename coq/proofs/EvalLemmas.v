(* Algebra of eval_core: the log-value of exp(-x'Lx/2 + nu'x + ln beta) is additive in (L, nu, ln beta). *)
From mathcomp Require Import all_ssreflect all_algebra.
From GT Require Import Tensor DetExec LogDom Obj Factor.
Set Implicit Arguments.
Unset Strict Implicit.
Unset Printing Implicit Defensive.
Import GRing.Theory Num.Theory.
Local Open Scope ring_scope.

Section EvalLemmas.
Variable F : realFieldType.
Variable LS : logS F.
Notation mat := (mat F).
Notation vec := (vec F).

Lemma dot_ext n (u u' v v' : vec) :
  (forall i, (i < n)%N -> u i = u' i) -> (forall i, (i < n)%N -> v i = v' i) -> dot n u v = dot n u' v'.
Proof. by move=> Hu Hv; apply: eq_sumn => i Hi; rewrite Hu ?Hv. Qed.

Lemma mvec_ext n (A A' : mat) (v v' : vec) i :
  (forall j, (j < n)%N -> A i j = A' i j) -> (forall j, (j < n)%N -> v j = v' j) ->
  mvec n A v i = mvec n A' v' i.
Proof. by move=> HA Hv; apply: eq_sumn => j Hj; rewrite HA ?Hv. Qed.

Lemma quad_ext n (A A' : mat) (x : vec) :
  (forall i j, (i < n)%N -> (j < n)%N -> A i j = A' i j) -> quad n A x = quad n A' x.
Proof.
move=> HA; apply: eq_sumn => i Hi; congr (_ * _).
by apply: mvec_ext => // j Hj; apply: HA.
Qed.

Lemma eval_core_ext D (A A' : mat) (n n' : vec) (l : LS) x :
  (forall i j, (i < D)%N -> (j < D)%N -> A i j = A' i j) -> (forall i, (i < D)%N -> n i = n' i) ->
  eval_core D A n l x = eval_core D A' n' l x.
Proof. by move=> HA Hn; rewrite /eval_core (quad_ext x HA) (dot_ext (u':=x) _ Hn). Qed.

Lemma sumn_eq0 n (f : nat -> F) : (forall i, (i < n)%N -> f i = 0) -> sumn n f = 0.
Proof. by move=> H; rewrite (eq_sumn H) sumn0. Qed.

Lemma quadD n (A B : mat) x : quad n (madd A B) x = quad n A x + quad n B x.
Proof.
rewrite /quad /dot -sumnD; apply: eq_sumn => i _.
by rewrite /mvec /madd -mulrDr -sumnD; congr (_ * _); apply: eq_sumn => j _; rewrite mulrDl.
Qed.
Lemma quad0 n x : quad n (@mzero F) x = 0.
Proof.
apply: sumn_eq0 => i _; rewrite /mvec sumn_eq0 ?mulr0 // => j _.
by rewrite /mzero mul0r.
Qed.
Lemma dotDr n x (a b : vec) : dot n x (vadd a b) = dot n x a + dot n x b.
Proof. by rewrite /dot -sumnD; apply: eq_sumn => i _; rewrite /vadd mulrDr. Qed.
Lemma dot0r n x : dot n x (@vzero F) = 0.
Proof. by apply: sumn_eq0 => i _; rewrite /vzero mulr0. Qed.

Lemma eval_coreD D (A B : mat) (a b : vec) (la lb : LS) x :
  eval_core D (madd A B) (vadd a b) (la + lb) x = eval_core D A a la x + eval_core D B b lb x.
Proof.
rewrite /eval_core quadD dotDr mulrDr [X in emb _ X]addrACA raddfD /=.
by rewrite addrACA.
Qed.

Lemma eval_core_lin D (b : vec) (lb : LS) x :
  eval_core D mzero b lb x = emb LS (dot D x b) + lb.
Proof. by rewrite /eval_core quad0 mulr0 add0r. Qed.
Lemma eval_core_const D (lb : LS) x : eval_core D mzero vzero lb x = lb.
Proof. by rewrite eval_core_lin dot0r raddf0 add0r. Qed.

(* sums over components *)
Lemma quad_summ n R (A : nat -> mat) x : quad n (summ R A) x = sumn R (fun r => quad n (A r) x).
Proof.
elim: R => [|R IH].
  rewrite /=; apply: sumn_eq0 => i _; rewrite /mvec sumn_eq0 ?mulr0 // => j _.
  by rewrite /summ /= mul0r.
by rewrite [RHS]/= -IH -quadD; apply: quad_ext => i j _ _.
Qed.
Lemma dot_sumv n R x (a : nat -> vec) : dot n x (sumv R a) = sumn R (fun r => dot n x (a r)).
Proof.
elim: R => [|R IH].
  by rewrite /=; apply: sumn_eq0 => i _; rewrite /sumv /= mulr0.
by rewrite [RHS]/= -IH -dotDr; apply: dot_ext => // i _.
Qed.
Lemma eval_core_sum D R (A : nat -> mat) (a : nat -> vec) (l : nat -> LS) x :
  eval_core D (summ R A) (sumv R a) (suml R l) x = suml R (fun r => eval_core D (A r) (a r) (l r) x).
Proof.
elim: R => [|R IH].
  by rewrite /eval_core quad_summ dot_sumv /= mulr0 !addr0 raddf0.
by rewrite [RHS]/= -IH -eval_coreD.
Qed.

End EvalLemmas.
