(* C12 (slicing through the affine transformations), C08 (the marginal transformation as the integral over x),
   C16 (the conditional transformation of the approximate conditionals is the Gaussian conditional of the joint). *)
From mathcomp Require Import all_ssreflect all_fingroup all_algebra.
From mathcomp Require Import ring.
From GT Require Import Tensor DetExec LogDom MxTac MxLemmas Obj Factor Measure Pdf Cond Moments Approx EvalLemmas Spec
  C01_proofs PdfLemmas C04_proofs C05_proofs C06_proofs C0809_proofs C1013_proofs C12_proofs C15_proofs C07_proofs.
Set Implicit Arguments.
Unset Strict Implicit.
Unset Printing Implicit Defensive.
Import GRing.Theory Num.Theory.
Local Open Scope ring_scope.

Section Extra.
Variable F : realFieldType.
Variable LS : logS F.
Notation mat := (mat F).
Notation vec := (vec F).
Notation measure := (measure LS).
Notation cond := (cond LS).

(* ---- helpers: the two affine transformations as lnN of MathComp matrices built from the selected components ---- *)
Lemma joint_lnN (c : cond) (p : measure) k (z : vec) :
  pdf_ok p -> cond_ok c -> cDx c = uD p -> (k < cR c * uR p)%N ->
  ueval (affine_joint c p) k z
  = lnN LS (col_mx (cvf (cDx c) (getmu p (jrx p k)))
                   (cMm c (jrc p k) *m cvf (cDx c) (getmu p (jrx p k)) + cbv c (jrc p k)))
        (Sxy (mxf (cDx c) (cDx c) (getS p (jrx p k))) (cSg c (jrc p k)) (cMm c (jrc p k)))
        (cvf (cDx c + cDy c) z).
Proof.
move=> Hp Hc HD Hk; have [Hrc Hrx] := C0809_proofs.jr_bounds Hk.
have [_ _ _ Ssym _] := px_facts Hp HD Hrx.
by rewrite affine_joint_eval // cvf_cat cond_muE // joint_Sigma_mx.
Qed.

Lemma SyM_mx (c : cond) (p : measure) k :
  SyM c p k = cSg c (jrc p k) + cMm c (jrc p k) *m mxf (cDx c) (cDx c) (getS p (jrx p k)) *m (cMm c (jrc p k))^T.
Proof. by rewrite /SyM /marg_Sigma /cMm /cSg mxf_add !mxf_mul (mxf_tr _ _ (effM c (jrc p k))). Qed.

Lemma marg_lnN (c : cond) (p : measure) k (y : vec) :
  pdf_ok p -> cond_ok c -> cDx c = uD p -> marg_pos c p -> (k < cR c * uR p)%N ->
  ueval (affine_marginal c p) k y
  = lnN LS (cMm c (jrc p k) *m cvf (cDx c) (getmu p (jrx p k)) + cbv c (jrc p k))
        (cSg c (jrc p k) + cMm c (jrc p k) *m mxf (cDx c) (cDx c) (getS p (jrx p k)) *m (cMm c (jrc p k))^T)
        (cvf (cDy c) y).
Proof.
move=> Hp Hc HD Hpos Hk; have [Hrc Hrx] := C0809_proofs.jr_bounds Hk.
by rewrite affine_marginal_eval // cond_muE // SyM_mx.
Qed.

(* layout indices when one of the two batches is a singleton *)
Lemma jr_px1 (p : measure) k : uR p = 1%N -> jrc p k = k /\ jrx p k = 0%N.
Proof. by move=> HR; rewrite /jrc /jrx HR divn1 modn1. Qed.
Lemma jr_small (p : measure) k : (k < uR p)%N -> jrc p k = 0%N /\ jrx p k = k.
Proof. by move=> Hk; rewrite /jrc /jrx divn_small // modn_small. Qed.

(* the views of a sliced conditional are the views of the selected component *)
Lemma cslice_views idx (c : cond) k : (k < size idx)%N ->
  [/\ cMm (cslice idx c) k = cMm c (sel (cR c) idx k), cbv (cslice idx c) k = cbv c (sel (cR c) idx k)
    & cSg (cslice idx c) k = cSg c (sel (cR c) idx k)].
Proof.
move=> Hk; have [[_ _ _ HM Hb] [HS HL Hh]] := cslice_fields c Hk.
by split; [apply/mxfP | apply/cvfP | apply/mxfP].
Qed.

Lemma cslice_marg_pos idx (c : cond) (p : measure) :
  uR p = 1%N -> marg_pos c p -> idx_ok (cR c) idx -> marg_pos (cslice idx c) p.
Proof.
move=> HR Hpos Hidx k; rewrite cslice_R HR muln1 => Hk.
have Hs : (sel (cR c) idx k < cR c * uR p)%N by rewrite HR muln1; apply: Hidx.
have := Hpos _ Hs; rewrite !SyM_mx.
have [Ec Ex] := jr_px1 k HR; have [Ec' Ex'] := jr_px1 (sel (cR c) idx k) HR.
have [EM Eb ES] := cslice_views c Hk.
by rewrite Ec Ex Ec' Ex' EM ES.
Qed.

(* ---- C12: slicing commutes with the three affine transformations ---- *)
(* batch on the conditional (p_x has one component): component k of the sliced conditional's result is component
   sel k of the full result *)
Lemma slice_joint_cond idx (c : cond) (p : measure) k (z : vec) :
  pdf_ok p -> cond_ok c -> cDx c = uD p -> uR p = 1%N -> idx_ok (cR c) idx -> (k < size idx)%N ->
  ueval (affine_joint (cslice idx c) p) k z = ueval (affine_joint c p) (sel (cR c) idx k) z.
Proof.
move=> Hp Hc HD HR Hidx Hk.
have Hc' := cslice_ok Hc Hidx.
have Hk1 : (k < cR (cslice idx c) * uR p)%N by rewrite cslice_R HR muln1.
have Hs1 : (sel (cR c) idx k < cR c * uR p)%N by rewrite HR muln1; apply: Hidx.
have HD' : cDx (cslice idx c) = uD p := HD.
rewrite (joint_lnN z Hp Hc' HD' Hk1) (joint_lnN z Hp Hc HD Hs1).
have [Ec Ex] := jr_px1 k HR; have [Ec' Ex'] := jr_px1 (sel (cR c) idx k) HR.
have [EM Eb ES] := cslice_views c Hk.
by rewrite Ec Ex Ec' Ex' EM ES Eb.
Qed.

Lemma slice_marginal_cond idx (c : cond) (p : measure) k (y : vec) :
  pdf_ok p -> cond_ok c -> cDx c = uD p -> uR p = 1%N -> marg_pos c p -> idx_ok (cR c) idx -> (k < size idx)%N ->
  ueval (affine_marginal (cslice idx c) p) k y = ueval (affine_marginal c p) (sel (cR c) idx k) y.
Proof.
move=> Hp Hc HD HR Hpos Hidx Hk.
have Hc' := cslice_ok Hc Hidx.
have Hpos' := cslice_marg_pos HR Hpos Hidx.
have Hk1 : (k < cR (cslice idx c) * uR p)%N by rewrite cslice_R HR muln1.
have Hs1 : (sel (cR c) idx k < cR c * uR p)%N by rewrite HR muln1; apply: Hidx.
have HD' : cDx (cslice idx c) = uD p := HD.
rewrite (marg_lnN y Hp Hc' HD' Hpos' Hk1) (marg_lnN y Hp Hc HD Hpos Hs1).
have [Ec Ex] := jr_px1 k HR; have [Ec' Ex'] := jr_px1 (sel (cR c) idx k) HR.
have [EM Eb ES] := cslice_views c Hk.
by rewrite Ec Ex Ec' Ex' EM ES Eb.
Qed.

(* the moments of a sliced density are those of the selected component *)
Lemma uslice_views idx (c : cond) (p : measure) k :
  is_pdf (ucls p) -> cDx c = uD p -> (k < size idx)%N ->
  cvf (cDx c) (getmu (uslice idx p) k) = cvf (cDx c) (getmu p (sel (uR p) idx k))
  /\ mxf (cDx c) (cDx c) (getS (uslice idx p) k) = mxf (cDx c) (cDx c) (getS p (sel (uR p) idx k)).
Proof.
move=> Hcl HD Hk; rewrite /uslice Hcl HD.
have [HS Hm] := mk_pdf_params (LS:=LS) (is_diag (ucls p)) (uD p) (fun k => getS p (nidx (uR p) (nth 0 idx k)))
  (fun k => getmu p (nidx (uR p) (nth 0 idx k))) (Some (fun k => uLam p (nidx (uR p) (nth 0 idx k))))
  (Some (fun k => gethS p (nidx (uR p) (nth 0 idx k)))) Hk.
by split; [apply/cvfP => i Hi; rewrite Hm | apply/mxfP => i j Hi Hj; rewrite HS].
Qed.

Lemma uslice_marg_pos idx (c : cond) (p : measure) :
  is_pdf (ucls p) -> cDx c = uD p -> cR c = 1%N -> marg_pos c p -> idx_ok (uR p) idx -> marg_pos c (uslice idx p).
Proof.
move=> Hcl HD HR Hpos Hidx k; rewrite uslice_R HR mul1n => Hk.
have Hs : (sel (uR p) idx k < cR c * uR p)%N by rewrite HR mul1n; apply: Hidx.
have := Hpos _ Hs; rewrite !SyM_mx.
have Hk' : (k < uR (uslice idx p))%N by rewrite uslice_R.
have [Ec Ex] := jr_small Hk'; have [Ec' Ex'] := jr_small (Hidx _ Hk).
have [Em ES] := uslice_views Hcl HD Hk.
by rewrite Ec Ex Ec' Ex' ES.
Qed.

(* batch on p_x (the conditional has one component) *)
Lemma slice_joint_px idx (c : cond) (p : measure) k (z : vec) :
  pdf_ok p -> is_pdf (ucls p) -> cond_ok c -> cDx c = uD p -> cR c = 1%N -> idx_ok (uR p) idx -> (k < size idx)%N ->
  ueval (affine_joint c (uslice idx p)) k z = ueval (affine_joint c p) (sel (uR p) idx k) z.
Proof.
move=> Hp Hcl Hc HD HR Hidx Hk.
have Hp' := uslice_pdf_ok Hp Hcl (idx_ok_all Hidx).
have HD' : cDx c = uD (uslice idx p) by rewrite uslice_D.
have Hk' : (k < uR (uslice idx p))%N by rewrite uslice_R.
have Hk1 : (k < cR c * uR (uslice idx p))%N by rewrite HR mul1n.
have Hs1 : (sel (uR p) idx k < cR c * uR p)%N by rewrite HR mul1n; apply: Hidx.
rewrite (joint_lnN z Hp' Hc HD' Hk1) (joint_lnN z Hp Hc HD Hs1).
have [Ec Ex] := jr_small Hk'; have [Ec' Ex'] := jr_small (Hidx _ Hk).
have [Em ES] := uslice_views Hcl HD Hk.
by rewrite Ec Ex Ec' Ex' ES Em.
Qed.

Lemma slice_marginal_px idx (c : cond) (p : measure) k (y : vec) :
  pdf_ok p -> is_pdf (ucls p) -> cond_ok c -> cDx c = uD p -> cR c = 1%N -> marg_pos c p -> idx_ok (uR p) idx -> (k < size idx)%N ->
  ueval (affine_marginal c (uslice idx p)) k y = ueval (affine_marginal c p) (sel (uR p) idx k) y.
Proof.
move=> Hp Hcl Hc HD HR Hpos Hidx Hk.
have Hp' := uslice_pdf_ok Hp Hcl (idx_ok_all Hidx).
have Hpos' := uslice_marg_pos Hcl HD HR Hpos Hidx.
have HD' : cDx c = uD (uslice idx p) by rewrite uslice_D.
have Hk' : (k < uR (uslice idx p))%N by rewrite uslice_R.
have Hk1 : (k < cR c * uR (uslice idx p))%N by rewrite HR mul1n.
have Hs1 : (sel (uR p) idx k < cR c * uR p)%N by rewrite HR mul1n; apply: Hidx.
rewrite (marg_lnN y Hp' Hc HD' Hpos' Hk1) (marg_lnN y Hp Hc HD Hpos Hs1).
have [Ec Ex] := jr_small Hk'; have [Ec' Ex'] := jr_small (Hidx _ Hk).
have [Em ES] := uslice_views Hcl HD Hk.
by rewrite Ec Ex Ec' Ex' ES Em.
Qed.

(* ---- C08: p(y) is the Gaussian integral (GI) over x of the joint density p(x, y), x first ----
   the split "LAST db coordinates kept" of the marginal-integral identity (C05 has the split "first kept") *)
Lemma grp7l (G : zmodType) (E1 Ha Hb hS Q1 Q2 hL : G) :
  - E1 - Ha - Hb - hS + Q1 + Q2 + Ha - hL = - E1 + Q1 + Q2 - Hb - hS - hL.
Proof.
rewrite (addrAC _ Q2 Ha) (addrAC _ Q1 Ha) (addrAC _ (- hS) Ha) (addrAC _ (- Hb) Ha) subrK.
by rewrite [in RHS](addrAC _ Q2 (- Hb)) [in RHS](addrAC _ Q1 (- Hb))
           [in RHS](addrAC _ Q2 (- hS)) [in RHS](addrAC _ Q1 (- hS)).
Qed.

Lemma marg_core_last D da db (L S : mat) (nu mu xb : vec) :
  D = (da + db)%N ->
  (mxf D D L)^T = mxf D D L ->
  mxf D D S *m mxf D D L = 1%:M -> 0 < \det (mxf D D S) ->
  cvf D nu = mxf D D L *m cvf D mu ->
  0 < \det (mxf da da (msub2 (iota 0 da) (iota 0 da) L)) ->
  0 < \det (mxf db db (msub2 (iota da db) (iota da db) S)) ->
  let Laa := mxf da da (msub2 (iota 0 da) (iota 0 da) L) in
  let Lab := mxf da db (msub2 (iota 0 da) (iota da db) L) in
  let Lbb := mxf db db (msub2 (iota da db) (iota da db) L) in
  let nua := cvf da (vsel (iota 0 da) nu) in
  let nub := cvf db (vsel (iota da db) nu) in
  let b := cvf db xb in
  lngint Laa (nua - Lab *m b)
    (- (emb LS (half F * sc ((cvf D nu)^T *m mxf D D S *m cvf D nu)) + hl2p LS *+ D + hln LS (\det (mxf D D S)))
     + emb LS (- half F * sc (b^T *m Lbb *m b) + sc (b^T *m nub)))
  = lnN LS (cvf db (vsel (iota da db) mu)) (mxf db db (msub2 (iota da db) (iota da db) S)) b.
Proof.
move=> HD; subst D => Lsym SL Spos Hnu Laapos Sbbpos Laa Lab Lbb nua nub b.
have -> : (cvf (da + db) nu)^T *m mxf (da + db) (da + db) S *m cvf (da + db) nu
          = (cvf (da + db) nu)^T *m cvf (da + db) mu.
  by rewrite -mulmxA {2}Hnu (mulmxA (mxf _ _ S)) SL mul1mx.
pose Lba := mxf db da (msub2 (iota da db) (iota 0 da) L).
pose Saa := mxf da da (msub2 (iota 0 da) (iota 0 da) S).
pose Sab := mxf da db (msub2 (iota 0 da) (iota da db) S).
pose Sba := mxf db da (msub2 (iota da db) (iota 0 da) S).
pose Sbb := mxf db db (msub2 (iota da db) (iota da db) S).
pose mua := cvf da (vsel (iota 0 da) mu).
pose mub := cvf db (vsel (iota da db) mu).
have EL : mxf (da + db) (da + db) L = block_mx Laa Lab Lba Lbb by exact: mxf_split.
have ES : mxf (da + db) (da + db) S = block_mx Saa Sab Sba Sbb by exact: mxf_split.
have Enu : cvf (da + db) nu = col_mx nua nub by exact: cvf_split.
have Emu : cvf (da + db) mu = col_mx mua mub by exact: cvf_split.
rewrite -/Sbb -/mub in Sbbpos *.
rewrite -/Laa in Laapos.
rewrite EL ES Enu Emu in Lsym SL Spos Hnu *.
clear EL ES Enu Emu.
clearbody Laa Lab Lba Lbb Saa Sab Sba Sbb nua nub mua mub b.
move: Lsym; rewrite tr_block_mx => /eq_block_mx [Laas HLba HLab Lbbs].
have Lab_tr : Lab = Lba^T by [].
have Lba_tr : Lba = Lab^T by [].
move: Hnu; rewrite mul_block_col => /eq_col_mx [Hnua Hnub].
rewrite tr_col_mx mul_row_col /lngint /lnN.
set Caa := invmx Laa.
have Laau : Laa \in unitmx by rewrite unitmxE unitfE lt0r_neq0.
have CL : Caa *m Laa = 1%:M by rewrite mulVmx.
have HP := marginal_precision SL CL.
have EP : Lbb - Lba *m Caa *m Lab = invmx Sbb by apply: inv_unique; apply: mulmx1C.
rewrite -EP -(det_marginal SL) hlnM // mulrnDr.
have /= EF := marg_quad_mx CL Lbbs Laas Lab_tr b mub mua.
rewrite [Lbb *m mub + _]addrC [Lab *m mub + _]addrC -Hnua -Hnub in EF.
set e1 := half F * sc (nua^T *m mua + nub^T *m mub).
set q1 := - half F * sc (b^T *m Lbb *m b) + sc (b^T *m nub).
set q2 := half F * sc ((nua - Lab *m b)^T *m Caa *m (nua - Lab *m b)).
set q3 := - half F * sc ((b - mub)^T *m (Lbb - Lba *m Caa *m Lab) *m (b - mub)).
have EFs : - e1 + q1 + q2 = q3.
  rewrite /e1 /q1 /q2 /q3 -EF !(C05_proofs.scD, C05_proofs.scN).
  repeat match goal with |- context [sc ?X] => let e := fresh "e" in set e := sc X; clearbody e end.
  by rewrite /half; field.
clearbody e1 q1 q2 q3; rewrite -EFs !raddfD raddfN /= ?opprD !addrA.
exact: grp7l.
Qed.

Lemma marginal_is_integral_last da db (p : measure) r (xb : vec) :
  pdf_ok p -> uD p = (da + db)%N -> (r < uR p)%N ->
  0 < \det (mxf da da (msub2 (iota 0 da) (iota 0 da) (uLam p r))) ->
  0 < \det (mxf db db (msub2 (iota da db) (iota da db) (getS p r))) ->
  let Laa := mxf da da (msub2 (iota 0 da) (iota 0 da) (uLam p r)) in
  let Lab := mxf da db (msub2 (iota 0 da) (iota da db) (uLam p r)) in
  let Lbb := mxf db db (msub2 (iota da db) (iota da db) (uLam p r)) in
  let nua := cvf da (vsel (iota 0 da) (unu p r)) in
  let nub := cvf db (vsel (iota da db) (unu p r)) in
  let b := cvf db xb in
  lngint Laa (nua - Lab *m b) (ulb p r + emb LS (- half F * sc (b^T *m Lbb *m b) + sc (b^T *m nub)))
  = lnN LS (cvf db (vsel (iota da db) (getmu p r))) (mxf db db (msub2 (iota da db) (iota da db) (getS p r))) b.
Proof.
move=> Hp HD Hr HLpos HSpos.
have [Hc [HS _ Hmu HZ] Hnu Hlb] := Hp r Hr.
have [HSL Sgpos HhS] := co_S Hc HS.
have [_ HlnZ] := co_lnZ Hc HZ.
rewrite Hlb HlnZ HhS.
exact: (marg_core_last xb HD (co_sym Hc) HSL Sgpos Hnu HLpos HSpos).
Qed.

(* ---- C16: the conditional transformation of the feature models is the Gaussian conditional of the matched
   joint: gain Cov(x,y) Cov(y)^-1, offset mu_x - gain mu_y, covariance Sigma_x - gain Cov(y,x) (symmetrised) ---- *)
Lemma fm_conditional_spec Dx Dk Dy (M : mat) (b : vec) (Sig : mat) (Ex : vec) (Exx : mat) (Ek : vec) (Ekx Ekk : mat) (mux : vec) (Sx : mat) :
  \det (mxf Dy Dy (fm_Sigma Dx Dk Dy M b Sig Ex Exx Ek Ekx Ekk)) != 0 ->
  let Sy := mxf Dy Dy (fm_Sigma Dx Dk Dy M b Sig Ex Exx Ek Ekx Ekk) in
  let Cyx := mxf Dy Dx (fm_cov_yx Dx Dk M b Ex Exx Ek Ekx mux) in
  let G := mxf Dx Dy (fm_cond_M Dx Dk Dy M b Sig Ex Exx Ek Ekx Ekk mux) in
  [/\ G *m Sy = Cyx^T,
      cvf Dx (fm_cond_b Dx Dk Dy M b Sig Ex Exx Ek Ekx Ekk mux) = cvf Dx mux - G *m cvf Dy (fm_mu Dx Dk M b Ex Ek)
    & mxf Dx Dx (fm_cond_Sigma Dx Dk Dy M b Sig Ex Exx Ek Ekx Ekk mux Sx)
      = half F *: ((mxf Dx Dx Sx - G *m Cyx) + (mxf Dx Dx Sx - G *m Cyx)^T)].
Proof.
move=> dn0 Sy Cyx G.
set Sf := fm_Sigma Dx Dk Dy M b Sig Ex Exx Ek Ekx Ekk in dn0 Sy *.
set Cf := fm_cov_yx Dx Dk M b Ex Exx Ek Ekx mux in Cyx *.
have dn0' : detn Dy (tabm Dy Dy Sf) != 0 by rewrite detnE mxf_tab.
have EG : G = Cyx^T *m invmx Sy.
  by rewrite /G /fm_cond_M -/Sf -/Cf mxf_mul (mxf_tr _ _ Cf) mxf_inv // mxf_tab.
have Su : Sy \in unitmx by rewrite unitmxE unitfE.
split.
- by rewrite EG -mulmxA mulVmx // mulmx1.
- by rewrite /fm_cond_b cvf_sub cvf_mvec.
- rewrite /fm_cond_Sigma -/Cf.
  set GM := fm_cond_M Dx Dk Dy M b Sig Ex Exx Ek Ekx Ekk mux in G EG *.
  have E0 : mxf Dx Dx (tabm Dx Dx (msub Sx (mmul Dy (tabm Dx Dy GM) Cf))) = mxf Dx Dx Sx - G *m Cyx.
    by rewrite mxf_tab mxf_sub mxf_mul mxf_tab.
  rewrite -E0; set S0 := tabm Dx Dx _.
  by apply/matrixP => i j; rewrite !mxE.
Qed.

End Extra.
Print Assumptions slice_joint_cond.
Print Assumptions slice_marginal_cond.
Print Assumptions slice_joint_px.
Print Assumptions slice_marginal_px.
Print Assumptions marginal_is_integral_last.
Print Assumptions fm_conditional_spec.
