(* The one-variable-at-a-time elimination recursion for the Gaussian integral
   int exp(-x'Ax/2 + nu'x + lb) dx over R^n computes the closed form `lngint` (Spec.v), for every
   dimension and every real field: pure algebra (block determinant, block inverse, Schur complement). *)
From Coq Require Import QArith Qcanon ZArith.
From mathcomp Require Import all_ssreflect all_fingroup all_algebra.
From mathcomp Require Import ring.
From GT Require Import QcField QcOrder Tensor DetExec LogDom MxTac MxLemmas Obj Factor Sample SPD Chol Spec.
Set Implicit Arguments.
Unset Strict Implicit.
Unset Printing Implicit Defensive.
Local Close Scope Q_scope.
Local Close Scope Qc_scope.
Local Close Scope Z_scope.
Import GRing.Theory Num.Theory Order.Theory.
Local Open Scope ring_scope.

(* ---------- one elimination step on 1 + m blocks, any field ---------- *)
Section Step.
Variable F : fieldType.
Variable m : nat.
Variables (a : F) (c : 'cV[F]_m) (C : 'M[F]_m).
Hypothesis a0 : a != 0.

Definition gsS : 'M[F]_m := C - a^-1 *: (c *m c^T).
Definition gsM : 'M[F]_(1 + m) := block_mx a%:M c^T c C.
Definition gsLo : 'M[F]_(1 + m) := block_mx 1%:M 0 (a^-1 *: c) 1%:M.
Definition gsLi : 'M[F]_(1 + m) := block_mx 1%:M 0 (- (a^-1 *: c)) 1%:M.
Definition gsD : 'M[F]_(1 + m) := block_mx a%:M 0 0 gsS.
Definition gsDi : 'M[F]_(1 + m) := block_mx a^-1%:M 0 0 (invmx gsS).

Lemma gs_fact : gsM = gsLo *m gsD *m gsLo^T.
Proof.
rewrite /gsM /gsLo /gsD tr_block_mx !trmx1 trmx0 !mulmx_block.
rewrite !mul1mx !mulmx1 !mul0mx !mulmx0 !addr0 !add0r.
rewrite mul_scalar_mx mul_mx_scalar -scalemxAl.
have -> : a *: (a^-1 *: c) = c by rewrite scalerA mulfV // scale1r.
have -> : a *: (a^-1 *: c)^T = c^T by rewrite linearZ /= scalerA mulfV // scale1r.
have -> : a *: (a^-1 *: c *m (a^-1 *: c)^T) + gsS = C.
  rewrite /gsS -scalemxAl [(_ *: c)^T]linearZ /= -scalemxAr !scalerA mulfV // mul1r.
  by rewrite addrC subrK.
by [].
Qed.

Lemma gs_det : \det gsM = a * \det gsS.
Proof.
rewrite gs_fact !det_mulmx det_tr /gsLo /gsD det_lblock det_ublock !det1 det_scalar1.
by rewrite !mul1r mulr1.
Qed.

Lemma gs_LiLo : gsLi *m gsLo = 1%:M.
Proof.
rewrite /gsLi /gsLo mulmx_block !mul1mx !mulmx1 !mul0mx !mulmx0 !addr0 add0r.
by rewrite addNr -scalar_mx_block.
Qed.

Lemma gs_LoLi : gsLo *m gsLi = 1%:M.
Proof. exact: (mulmx1C gs_LiLo). Qed.

Hypothesis Su : gsS \in unitmx.

Lemma gs_DiD : gsDi *m gsD = 1%:M.
Proof.
rewrite /gsDi /gsD mulmx_block !mul0mx !mulmx0 !addr0 add0r (mulVmx Su).
by rewrite -scalar_mxM mulVf // -scalar_mx_block.
Qed.

Lemma gs_inv : invmx gsM = gsLi^T *m gsDi *m gsLi.
Proof.
apply/esym/inv_unique; rewrite gs_fact !mulmxA.
rewrite -[_ *m gsLi *m gsLo]mulmxA gs_LiLo mulmx1.
rewrite -[_ *m gsDi *m gsD]mulmxA gs_DiD mulmx1.
by rewrite -trmx_mul gs_LoLi trmx1.
Qed.

Lemma gs_quad (nu0 : F) (nu1 : 'cV[F]_m) :
  let nu' := nu1 - (nu0 / a) *: c in
  ((col_mx nu0%:M nu1)^T *m invmx gsM *m col_mx nu0%:M nu1) 0 0
  = nu0 * nu0 / a + (nu'^T *m invmx gsS *m nu') 0 0.
Proof.
move=> nu'; rewrite gs_inv.
have E : gsLi *m col_mx nu0%:M nu1 = col_mx nu0%:M nu'.
  rewrite /gsLi mul_block_col !mul1mx mul0mx addr0; congr col_mx.
  rewrite mulNmx -scalemxAl mul_mx_scalar scalerA /nu' addrC.
  by congr (_ - _ *: _); rewrite mulrC.
rewrite !mulmxA -trmx_mul E -[_ *m gsLi *m _]mulmxA E.
rewrite /gsDi tr_col_mx mul_row_block mul_row_col !mulmx0 addr0 add0r.
rewrite mxE; congr (_ + _).
by rewrite tr_scalar_mx -!scalar_mxM mxE eqxx mulr1n mulrAC.
Qed.

End Step.

Section GIalg.
Variable F : realFieldType.
Variable LS : logS F.
Notation mat := (mat F).
Notation vec := (vec F).

Definition gschur (A : mat) : mat := fun i j => A i.+1 j.+1 - A i.+1 0%N * A j.+1 0%N / A 0%N 0%N.
Definition gnu (A : mat) (nu : vec) : vec := fun i => nu i.+1 - nu 0%N * A i.+1 0%N / A 0%N 0%N.
Fixpoint gval (n : nat) (A : mat) (nu : vec) : LS :=
  match n with
  | 0%N => 0
  | m.+1 => hl2p LS - hln LS (A 0%N 0%N) + emb LS (half F * (nu 0%N * nu 0%N / A 0%N 0%N))
            + gval m (gschur A) (gnu A nu)
  end.
Fixpoint gpiv (n : nat) (A : mat) : Prop :=
  match n with 0%N => True | m.+1 => 0 < A 0%N 0%N /\ gpiv m (gschur A) end.

(* ---------- bridges for one step ---------- *)
Lemma cvf_block1 m (v : vec) :
  cvf m.+1 v = col_mx (v 0%N)%:M (cvf m (fun i => v i.+1)) :> 'cV_(1 + m).
Proof.
apply/(@matrixP _ (1 + m) 1) => i j; rewrite [LHS]mxE.
by case: (split_ordP i) => i' ->; rewrite ?col_mxEu ?col_mxEd !mxE ?ord1.
Qed.

Lemma mxf_gschur m A :
  mxf m m (gschur A) = gsS (A 0%N 0%N) (\col_i A i.+1 0%N) (mxf m m (fun i j => A i.+1 j.+1)).
Proof.
apply/matrixP => i j; rewrite /gsS /gschur !mxE big_ord1 !mxE.
by congr (_ - _); rewrite mulrC.
Qed.

Lemma cvf_gnu m A nu :
  cvf m (gnu A nu) = cvf m (fun i => nu i.+1) - (nu 0%N / A 0%N 0%N) *: (\col_i A i.+1 0%N).
Proof.
apply/matrixP => i j; rewrite /gnu !mxE.
by congr (_ - _); rewrite mulrAC.
Qed.

Lemma spd_step m A : spd (mxf m.+1 m.+1 A) ->
  [/\ 0 < A 0%N 0%N,
      mxf m.+1 m.+1 A
      = gsM (A 0%N 0%N) (\col_i A i.+1 0%N) (mxf m m (fun i j => A i.+1 j.+1)) :> 'M_(1 + m)
    & spd (mxf m m (gschur A))].
Proof.
move=> sA; have As := proj1 sA; move: sA (As); rewrite mxf_block1.
set a00 := A 0%N 0%N; set r := \row_j _; set c := \col_i _; set A22 := mxf m m _ => sA.
move=> As'; have [_ cE _] := @sym_block F 1 m _ _ _ _ As'.
have rE : r = c^T by rewrite cE trmxK.
move: sA; rewrite rE => sA.
have [a0 sS] := @spd_schur1 F m _ _ _ sA; rewrite mxE mulr1n in a0.
split=> //.
by move: sS; rewrite mxE mulr1n mxf_gschur.
Qed.

Theorem gschur_spd m A : spd (mxf m.+1 m.+1 A) -> spd (mxf m m (gschur A)).
Proof. by case/spd_step. Qed.

Theorem spd_gpiv n A : spd (mxf n n A) -> gpiv n A.
Proof.
elim: n A => [|m IH] A sA //=.
by have [a0 _ sS] := spd_step sA; split=> //; apply: IH.
Qed.

Lemma zmod_shuffle (V : zmodType) (lb p h e1 e2 pm d : V) :
  lb + (p - h + e1 + (e2 + pm - d)) = lb + (e1 + e2) + (p + pm) - (h + d).
Proof.
rewrite opprD !addrA; congr (_ - d).
rewrite -!addrA; congr (lb + _).
rewrite [e2 + (p + _)]addrCA [RHS]addrCA; congr (p + _).
rewrite addrCA; congr (e1 + _).
by rewrite addrCA; congr (e2 + _); rewrite addrC.
Qed.

Lemma gval_closed n A nu : spd (mxf n n A) ->
  gval n A nu = emb LS (half F * sc ((cvf n nu)^T *m invmx (mxf n n A) *m cvf n nu))
                + hl2p LS *+ n - hln LS (\det (mxf n n A)).
Proof.
elim: n A nu => [|m IH] A nu sA.
  rewrite /= det_mx00 hln1 subr0 mulr0n addr0.
  have -> : sc ((cvf 0 nu)^T *m invmx (mxf 0 0 A) *m cvf 0 nu) = 0 by rewrite /sc mxE big_ord0.
  by rewrite mulr0 raddf0.
have [a0 EM sS] := spd_step sA.
have an0 : A 0%N 0%N != 0 by rewrite gt_eqF.
have Su := spd_unit sS; rewrite mxf_gschur in Su.
have dS := spd_det_gt0 sS.
rewrite /= (IH _ _ sS) EM cvf_block1 /sc gs_quad // gs_det // -mxf_gschur -cvf_gnu.
rewrite hlnM // mulrDr raddfD /= mulrS.
by apply: (addrI (0 : LS)); rewrite zmod_shuffle !addrA.
Qed.

Theorem gval_lngint n A nu lb : spd (mxf n n A) ->
  lb + gval n A nu = lngint (mxf n n A) (cvf n nu) lb.
Proof. by move=> sA; rewrite gval_closed // /lngint !addrA. Qed.

(* the determinant / log-determinant half alone *)
Theorem gval_logdet n A : spd (mxf n n A) ->
  gval n A (fun _ => 0) = hl2p LS *+ n - hln LS (\det (mxf n n A)).
Proof.
move=> sA; rewrite gval_closed //.
have -> : cvf n (fun _ => 0) = 0 :> 'cV[F]_n by apply/matrixP => i j; rewrite !mxE.
by rewrite mulmx0 /sc mxE mulr0 raddf0 add0r.
Qed.

End GIalg.

(* ---------- executable sanity at the rationals (Chol.v's 3x3 example, det = 64) ---------- *)
Example gval_ex_logdet : gval LQ 3 exA (fun _ => 0) == hl2p LQ *+ 3 - hln LQ (detn 3 exA).
Proof. by vm_compute. Qed.
(* nu = (2, 1, 1): nu' A^-1 nu = 1 (A^-1 nu = (1/2, 0, 0)) *)
Example gval_ex_quad :
  gval LQ 3 exA (fun i => if i == 0%N then q 2 1 else q 1 1)
  == emb LQ (half _ * q 1 1) + hl2p LQ *+ 3 - hln LQ (q 64 1).
Proof. by vm_compute. Qed.

Check gval_lngint.
Print Assumptions spd_gpiv.
Print Assumptions gschur_spd.
Print Assumptions gval_lngint.
Print Assumptions gval_logdet.
