(* GLUE, Kalman filtering: at Coq's real numbers the filter recursion of proofs/C11_kalman.v (predict = marginal
   transformation, update = conditional transformation + conditioning) computes the iterated improper Riemann integral
   (trunc/GaussND.v) of the full joint density of the trajectory over the earlier states x_0, ..., x_{T-1}:
     int ... int p(x_0) prod_t p(x_t|x_{t-1}) p(y_t|x_t) dx_0 ... dx_{T-1} = p(y_1..T) p(x_T | y_1..T),
   and integrating the last state as well gives the total evidence p(y_1..T). *)
From Coq Require Import Reals Lra Lia.
From GT Require Import GaussND.

(* ---- pure stdlib-Reals facts (proved before MathComp's ring/field tactics shadow the stdlib ones) ---- *)
Lemma kal_integrandR (a t o J : R) : exp (a + (t + o + J))%R = (exp (o + J) * exp (t + a))%R.
Proof. rewrite <- exp_plus. f_equal. ring. Qed.
Lemma kal_valueR (q e o m J : R) : (q + e = o + m)%R -> (exp (o + J) * exp m)%R = exp (e + (q + J))%R.
Proof. intros H. rewrite <- exp_plus. f_equal. lra. Qed.
Lemma exp_constR (c a : R) : exp (c + a)%R = (exp c * exp a)%R.
Proof. apply exp_plus. Qed.
Lemma exp_const_valR (c e a : R) : (exp c * exp (e + a))%R = exp (c + e + a)%R.
Proof. rewrite <- exp_plus. f_equal. ring. Qed.
Lemma exp_nil_R (c a : R) : exp (c + (a + 0))%R = exp (c + 0 + a)%R.
Proof. f_equal. ring. Qed.
Lemma exp_assoc_R (c e E a : R) : exp (c + e + E + a)%R = exp (c + (e + E) + a)%R.
Proof. f_equal. ring. Qed.
Lemma exp_0l_R (a : R) : exp (0 + a)%R = exp a.
Proof. f_equal. ring. Qed.
Lemma exp_0l2_R (a b : R) : exp (0 + a + b)%R = exp (a + b).
Proof. f_equal. ring. Qed.
Lemma exp_mass_R (E : R) : (exp E * 1)%R = exp E.
Proof. ring. Qed.

From mathcomp Require Import all_ssreflect all_fingroup all_algebra.
From mathcomp Require Import ring.
From GT Require Import Tensor DetExec LogDom OLog RField MxTac MxLemmas Obj Factor Measure Pdf Cond EvalLemmas SPD Spec
  C01_proofs PdfLemmas C04_proofs C05_proofs C06_proofs C0809_proofs C1013_proofs C12_proofs C07_proofs Extra_proofs
  C11_proofs C11_kalman NonVacuity GIalg GIreal GIreal2.
Set Implicit Arguments.
Unset Strict Implicit.
Unset Printing Implicit Defensive.
Local Close Scope R_scope.
Import GRing.Theory Num.Theory Order.Theory.
Local Open Scope ring_scope.

(* ------------------------------------------------------------------ *)
(* 0. positive definiteness of the INPUT covariances propagates        *)
(* ------------------------------------------------------------------ *)
(* the only positivity hypotheses: the covariance of the prior and, for every step, the covariances of the transition
   and of the observation model are symmetric positive definite *)
Fixpoint ksteps_spd (ss : seq (kstep LR)) : Prop :=
  match ss with
  | [::] => True
  | s :: ss' => [/\ spd (cSg (ktrans s) 0), spd (cSg (kobs s) 0) & ksteps_spd ss']
  end.
(* all states have the same dimension Dz (the dimension of x_0 is uD p, that of x_t is cDy (ktrans s_t)) *)
Fixpoint kdim (Dz : nat) (ss : seq (kstep LR)) : Prop :=
  match ss with [::] => True | s :: ss' => cDy (ktrans s) = Dz /\ kdim Dz ss' end.

Lemma single_pdf_spd (p : measure LR) : uR p = 1%N -> spd (Sg p 0) -> pdf_spd p.
Proof. by move=> HR sS [|r]; rewrite HR. Qed.
Lemma single_cond_spd (c : cond LR) : cR c = 1%N -> spd (cSg c 0) -> cond_spd c.
Proof. by move=> HR sS [|r]; rewrite HR. Qed.

(* one filter step: the predicted and the updated covariance are positive definite *)
Lemma kstep_spd (s : kstep LR) (p : measure LR) :
  single (ktrans s) p -> single (kobs s) (kpred s p) -> post_pos (kobs s) (kpred s p) ->
  spd (Sg p 0) -> spd (cSg (ktrans s) 0) -> spd (cSg (kobs s) 0) ->
  spd (Sg (kpred s p) 0) /\ spd (Sg (kpost s p) 0).
Proof.
move=> Hs1 Hs2 Hp2 sS st so.
have [_ _ HD HRt HR] := Hs1.
have [_ _ _ HRo HRpred] := Hs2.
have sp := single_pdf_spd HR sS.
have sct := single_cond_spd HRt st.
have sco := single_cond_spd HRo so.
have spred : pdf_spd (kpred s p) := affine_marginal_spd HD sct sp.
have spost : pdf_spd (kpost s p) := bayes_step_spd (y:=ky s) Hs2 sco spred.
have [_ Rq] := kpost_ok Hs2 Hp2.
split; first by apply: spred; rewrite HRpred.
by apply: spost; rewrite Rq.
Qed.

(* ------------------------------------------------------------------ *)
(* 1. integrating out the earliest state                               *)
(* ------------------------------------------------------------------ *)
Theorem kalman_integrate_first_state (s : kstep LR) (ss : seq (kstep LR)) (p : measure LR)
    (x1 : vecRF) (xs : seq vecRF) :
  pdf_ok p -> uR p = 1%N -> kok (s :: ss) p -> size xs = size ss ->
  spd (Sg p 0) -> spd (cSg (ktrans s) 0) -> spd (cSg (kobs s) 0) ->
  is_gint (uD p) (fun x0 => exp (kjoint (s :: ss) p x0 (x1 :: xs)))
          (exp (ueval (affine_marginal (kobs s) (kpred s p)) 0%N (ky s) + kjoint ss (kpost s p) x1 xs)).
Proof.
move=> okp HR; rewrite kok_cons => -[Hs1 Hm1 Hp1 [Hs2 Hm2 Hp2 Hok]] _ sS st so.
have [_ okt HD HRt _] := Hs1.
have sp := single_pdf_spd HR sS.
have sct := single_cond_spd HRt st.
have H := bayes_step_evidence_is_the_integral x1 Hs1 sp sct.
rewrite HD in H.
have B2 := bayes_rule_single x1 (ky s) Hs2 Hm2 Hp2.
apply: is_gint_val (kal_valueR _ _ _ _ (kjoint_tail ss x1 xs) B2) _.
apply: is_gint_ext (is_gint_scal _ _ _ (exp (cdens (kobs s) x1 (ky s) + kjoint_tail ss x1 xs)) H) => x.
exact: esym (kal_integrandR (ueval p 0%N x) (cdens (ktrans s) x x1) (cdens (kobs s) x1 (ky s)) (kjoint_tail ss x1 xs)).
Qed.
Print Assumptions kalman_integrate_first_state.

(* the same with a constant factor exp c carried along (the evidence accumulated by the earlier integrations) *)
Lemma kalman_integrate_first_state_const (c : R) (s : kstep LR) (ss : seq (kstep LR)) (p : measure LR)
    (x1 : vecRF) (xs : seq vecRF) :
  pdf_ok p -> uR p = 1%N -> kok (s :: ss) p -> size xs = size ss ->
  spd (Sg p 0) -> spd (cSg (ktrans s) 0) -> spd (cSg (kobs s) 0) ->
  is_gint (uD p) (fun x0 => exp (c + kjoint (s :: ss) p x0 (x1 :: xs)))
          (exp (c + ueval (affine_marginal (kobs s) (kpred s p)) 0%N (ky s) + kjoint ss (kpost s p) x1 xs)).
Proof.
move=> okp HR Hok Hsz sS st so.
have H := kalman_integrate_first_state x1 okp HR Hok Hsz sS st so.
apply: is_gint_val (exp_const_valR c _ _) _.
apply: is_gint_ext (is_gint_scal _ _ _ (exp c) H) => x0.
exact: esym (exp_constR _ _).
Qed.

(* ------------------------------------------------------------------ *)
(* 2. the whole trajectory: iterated integration over x_0, x_1, ...    *)
(* ------------------------------------------------------------------ *)
(* f is a function of a trajectory given as a list of states (each in R^Dz); integrate out the first n states, one
   after the other, x_0 first (innermost): traj_int Dz n m f h says that for every list xs of m remaining states
     h xs = int ... int f (x_0 :: ... :: x_{n-1} :: xs) dx_0 ... dx_{n-1},
   every integral an is_gint over R^Dz.  (The base case is stated extensionally on lists of the right length, so that
   no appeal to functional extensionality is needed to use it.) *)
Inductive traj_int (Dz : nat) : nat -> nat -> (seq vecRF -> R) -> (seq vecRF -> R) -> Prop :=
| ti_O m f h : (forall xs : seq vecRF, size xs = m -> f xs = h xs) -> traj_int Dz 0 m f h
| ti_S n m f g h :
    (forall xs : seq vecRF, size xs = (n + m)%N -> is_gint Dz (fun x0 => f (x0 :: xs)) (g xs)) ->
    traj_int Dz n m g h -> traj_int Dz n.+1 m f h.

Lemma traj_int_extR Dz n m f h h' :
  traj_int Dz n m f h -> (forall xs, size xs = m -> h xs = h' xs) -> traj_int Dz n m f h'.
Proof.
elim=> [m0 f0 h0 E|n0 m0 f0 g0 h0 Hint _ IH] Eh.
- by apply: ti_O => xs Hsz; rewrite E // Eh.
- by apply: ti_S Hint _; exact: IH.
Qed.

Lemma traj_int_extL Dz n m f f' h :
  (forall xs, size xs = (n + m)%N -> f xs = f' xs) -> traj_int Dz n m f h -> traj_int Dz n m f' h.
Proof.
move=> Ef Hf; case: Hf Ef => [m0 f0 h0 E|n0 m0 f0 g0 h0 Hint Hrest] Ef.
- by apply: ti_O => xs Hsz; rewrite -Ef // E.
- apply: ti_S Hrest => xs Hsz.
  apply: is_gint_ext (Hint xs Hsz) => x0.
  by apply: Ef; rewrite /= Hsz addSn.
Qed.

Lemma traj_int_inv Dz n m f h : traj_int Dz n m f h ->
  match n with
  | 0%N => forall xs, size xs = m -> f xs = h xs
  | n'.+1 => exists2 g, (forall xs : seq vecRF, size xs = (n' + m)%N -> is_gint Dz (fun x0 => f (x0 :: xs)) (g xs))
                        & traj_int Dz n' m g h
  end.
Proof. by case=> [m0 f0 h0 E|n0 m0 f0 g0 h0 Hint Hrest] //; exists g0. Qed.

(* one more integration at the end *)
Lemma traj_int_snoc_gen Dz n m1 f h :
  traj_int Dz n m1 f h -> forall m k, m1 = m.+1 ->
  (forall xs : seq vecRF, size xs = m -> is_gint Dz (fun x => h (x :: xs)) (k xs)) ->
  traj_int Dz n.+1 m f k.
Proof.
elim=> [m0 f0 h0 E|n0 m0 f0 g0 h0 Hint _ IH] m k Em Hk; subst m0.
- apply: (@ti_S Dz 0 m f0 k k); last by apply: ti_O.
  move=> xs; rewrite add0n => Hsz.
  apply: is_gint_ext (Hk xs Hsz) => x.
  by rewrite E //= Hsz.
- apply: (@ti_S Dz n0.+1 m f0 g0 k); last exact: IH.
  by move=> xs Hsz; apply: Hint; rewrite addnS -addSn.
Qed.
Lemma traj_int_snoc Dz n m f h k :
  traj_int Dz n m.+1 f h ->
  (forall xs : seq vecRF, size xs = m -> is_gint Dz (fun x => h (x :: xs)) (k xs)) ->
  traj_int Dz n.+1 m f k.
Proof. by move=> H; exact: traj_int_snoc_gen H _ _ (erefl _). Qed.

(* the result of the iterated integration is determined (on the lists of the remaining length) *)
Lemma traj_int_unique Dz n m f h h' :
  traj_int Dz n m f h -> traj_int Dz n m f h' -> forall xs, size xs = m -> h xs = h' xs.
Proof.
move=> H; elim: H h' => [m0 f0 h0 E|n0 m0 f0 g0 h0 Hint _ IH] h' H'.
- by move=> xs Hsz; rewrite -E // (traj_int_inv H').
- have [g1 Hint1 Hrest1] := traj_int_inv H'.
  apply: IH; apply: traj_int_extL Hrest1 => xs Hsz.
  exact: (is_gint_unique _ _ _ _ (Hint1 xs Hsz) (Hint xs Hsz)).
Qed.

Lemma kalman_traj_const Dz (ss : seq (kstep LR)) (p : measure LR) (c : R) :
  pdf_ok p -> uR p = 1%N -> kok ss p -> uD p = Dz -> kdim Dz ss -> spd (Sg p 0) -> ksteps_spd ss ->
  traj_int Dz (size ss) 1
    (fun l => exp (c + kjoint ss p (head vzero l) (behead l)))
    (fun l => exp (c + kevidence ss p + ueval (kfilter ss p) 0%N (head vzero l))).
Proof.
elim: ss p c => [|s ss IH] p c okp HR Hok HDz Hdim sS Hspd.
- by apply: ti_O => l _; exact: exp_nil_R.
- have [Hs1 Hm1 Hp1 [Hs2 Hm2 Hp2 Hok']] := Hok.
  have [okq Rq] := kpost_ok Hs2 Hp2.
  have [Hd1 Hdim'] := Hdim.
  have [st so Hspd'] := Hspd.
  have [spred spost] := kstep_spd Hs1 Hs2 Hp2 sS st so.
  have Dq : uD (kpost s p) = Dz.
    by have [_ _ Dq _ _] := bayes_step_natural (ky s) Hs2 Hp2; rewrite Dq -Hd1.
  pose e := ueval (affine_marginal (kobs s) (kpred s p)) 0%N (ky s).
  apply: (@ti_S Dz (size ss) 1 _ (fun l => exp (c + e + kjoint ss (kpost s p) (head vzero l) (behead l)))).
  + move=> l; rewrite addn1; case: l => [|x1 xs] // [Hsz].
    have := kalman_integrate_first_state_const c x1 okp HR Hok Hsz sS st so.
    by rewrite HDz.
  + apply: traj_int_extR (IH (kpost s p) (c + e) okq Rq Hok' Dq Hdim' spost Hspd') _ => l _.
    exact: exp_assoc_R.
Qed.

(* the Kalman filter computes the integral of the joint density over the earlier states: integrating
   exp(kjoint) = p(x_0) prod_t p(x_t|x_{t-1}) p(y_t|x_t) over x_0 (first), x_1, ..., x_{T-1} leaves, as a function of
   the last state x_T, evidence x filtered density = p(y_1..T) p(x_T | y_1..T) *)
Theorem kalman_filter_is_the_integral_over_earlier_states (ss : seq (kstep LR)) (p : measure LR) :
  pdf_ok p -> uR p = 1%N -> kok ss p -> kdim (uD p) ss -> spd (Sg p 0) -> ksteps_spd ss ->
  traj_int (uD p) (size ss) 1
    (fun l => exp (kjoint ss p (head vzero l) (behead l)))
    (fun l => exp (kevidence ss p + ueval (kfilter ss p) 0%N (head vzero l))).
Proof.
move=> okp HR Hok Hdim sS Hspd.
have H := kalman_traj_const 0 okp HR Hok (erefl (uD p)) Hdim sS Hspd.
apply: traj_int_extR (traj_int_extL _ H) _ => l _; first exact: exp_0l_R.
exact: exp_0l2_R.
Qed.
Print Assumptions kalman_filter_is_the_integral_over_earlier_states.

(* ------------------------------------------------------------------ *)
(* 3. the last state: the total evidence                               *)
(* ------------------------------------------------------------------ *)
(* the filtered density after any number of steps is a single density on R^Dz with positive definite covariance *)
Lemma kfilter_spd Dz (ss : seq (kstep LR)) (p : measure LR) :
  pdf_ok p -> uR p = 1%N -> kok ss p -> uD p = Dz -> kdim Dz ss -> spd (Sg p 0) -> ksteps_spd ss ->
  [/\ pdf_ok (kfilter ss p), uR (kfilter ss p) = 1%N, uD (kfilter ss p) = Dz & spd (Sg (kfilter ss p) 0)].
Proof.
elim: ss p => [|s ss IH] p okp HR Hok HDz Hdim sS Hspd; first by split.
have [Hs1 Hm1 Hp1 [Hs2 Hm2 Hp2 Hok']] := Hok.
have [okq Rq] := kpost_ok Hs2 Hp2.
have [Hd1 Hdim'] := Hdim.
have [st so Hspd'] := Hspd.
have [spred spost] := kstep_spd Hs1 Hs2 Hp2 sS st so.
have Dq : uD (kpost s p) = Dz.
  by have [_ _ Dq _ _] := bayes_step_natural (ky s) Hs2 Hp2; rewrite Dq -Hd1.
rewrite kfilter_cons; exact: IH.
Qed.

(* integrating the last state as well: evidence x filtered density integrates to the evidence *)
Theorem kalman_last_state_integrates_to_evidence (ss : seq (kstep LR)) (p : measure LR) :
  pdf_ok p -> uR p = 1%N -> kok ss p -> kdim (uD p) ss -> spd (Sg p 0) -> ksteps_spd ss ->
  is_gint (uD p) (fun xT => exp (kevidence ss p + ueval (kfilter ss p) 0%N xT)) (exp (kevidence ss p)).
Proof.
move=> okp HR Hok Hdim sS Hspd.
have [okf Rf Df sf] := kfilter_spd okp HR Hok (erefl (uD p)) Hdim sS Hspd.
have Hr : (0 < uR (kfilter ss p))%N by rewrite Rf.
have H := density_integrates_to_one_Sigma okf sf Hr.
rewrite Df in H.
apply: is_gint_val (exp_mass_R (kevidence ss p)) _.
apply: is_gint_ext (is_gint_scal _ _ _ (exp (kevidence ss p)) H) => x.
exact: esym (exp_constR _ _).
Qed.
Print Assumptions kalman_last_state_integrates_to_evidence.

(* the total evidence: integrating the joint density of the trajectory over ALL states x_0, ..., x_T (x_0 first)
   gives exp(kevidence) = p(y_1, ..., y_T), the product of the predictive densities the filter computes *)
Theorem kalman_evidence_is_the_integral_over_all_states (ss : seq (kstep LR)) (p : measure LR) :
  pdf_ok p -> uR p = 1%N -> kok ss p -> kdim (uD p) ss -> spd (Sg p 0) -> ksteps_spd ss ->
  traj_int (uD p) (size ss).+1 0
    (fun l => exp (kjoint ss p (head vzero l) (behead l)))
    (fun _ => exp (kevidence ss p)).
Proof.
move=> okp HR Hok Hdim sS Hspd.
apply: traj_int_snoc (kalman_filter_is_the_integral_over_earlier_states okp HR Hok Hdim sS Hspd) _ => xs _.
exact: (kalman_last_state_integrates_to_evidence okp HR Hok Hdim sS Hspd).
Qed.
Print Assumptions kalman_evidence_is_the_integral_over_all_states.

(* ------------------------------------------------------------------ *)
(* 4. hypotheses on the INPUTS only                                    *)
(* ------------------------------------------------------------------ *)
(* NonVacuity.kspd D ss: every transition / observation model is a well-formed single conditional with positive
   definite covariance and fitting shapes; it implies kok (NonVacuity.kok_of_spd) and ksteps_spd *)
Lemma kspd_ksteps_spd D (ss : seq (kstep LR)) : kspd D ss -> ksteps_spd ss.
Proof.
elim: ss D => [|s ss IH] D //= [[_ st Rt _] [[_ so Ro _] Hss]].
split; [by apply: st; rewrite Rt | by apply: so; rewrite Ro | exact: IH Hss].
Qed.

Theorem kalman_filter_is_the_integral_over_earlier_states_spd (ss : seq (kstep LR)) (p : measure LR) :
  pdf_ok p -> uR p = 1%N -> spd (Sg p 0) -> kspd (uD p) ss -> kdim (uD p) ss ->
  traj_int (uD p) (size ss) 1
    (fun l => exp (kjoint ss p (head vzero l) (behead l)))
    (fun l => exp (kevidence ss p + ueval (kfilter ss p) 0%N (head vzero l))).
Proof.
move=> okp HR sS Hk Hdim.
have Hok := kok_of_spd okp HR (single_pdf_spd HR sS) Hk.
exact: (kalman_filter_is_the_integral_over_earlier_states okp HR Hok Hdim sS (kspd_ksteps_spd Hk)).
Qed.

Theorem kalman_evidence_is_the_integral_over_all_states_spd (ss : seq (kstep LR)) (p : measure LR) :
  pdf_ok p -> uR p = 1%N -> spd (Sg p 0) -> kspd (uD p) ss -> kdim (uD p) ss ->
  traj_int (uD p) (size ss).+1 0
    (fun l => exp (kjoint ss p (head vzero l) (behead l)))
    (fun _ => exp (kevidence ss p)).
Proof.
move=> okp HR sS Hk Hdim.
have Hok := kok_of_spd okp HR (single_pdf_spd HR sS) Hk.
exact: (kalman_evidence_is_the_integral_over_all_states okp HR Hok Hdim sS (kspd_ksteps_spd Hk)).
Qed.
Print Assumptions kalman_filter_is_the_integral_over_earlier_states_spd.
Print Assumptions kalman_evidence_is_the_integral_over_all_states_spd.

(* ------------------------------------------------------------------ *)
(* 5. sanity (non-vacuity): the concrete model of proofs/NonVacuity.v, *)
(*    any number of steps (prior N((1,-1), [[2,1],[1,2]]) on R^2)      *)
(* ------------------------------------------------------------------ *)
Definition nv_steps (n : nat) : seq (kstep LR) := nseq n (KStep (nv_trans LR) (nv_cond LR) (nvy _)).
Lemma nv_steps_kspd n : kspd 2 (nv_steps n).
Proof.
have [H1 H2] := nv_kspd1 LR.
by elim: n => [|n IH] //; split=> //; split.
Qed.
Lemma nv_steps_kdim n : kdim 2 (nv_steps n).
Proof. by elim: n => [|n IH] //; split. Qed.

Theorem nv_kalman_filter_is_the_integral n :
  traj_int 2 n 1
    (fun l => exp (kjoint (nv_steps n) (nv_prior LR) (head vzero l) (behead l)))
    (fun l => exp (kevidence (nv_steps n) (nv_prior LR) + ueval (kfilter (nv_steps n) (nv_prior LR)) 0%N (head vzero l))).
Proof.
have Hr : (0 < uR (nv_prior LR))%N by [].
have := kalman_filter_is_the_integral_over_earlier_states_spd (@nv_prior_ok _ LR) (erefl _) (nv_prior_spd Hr)
          (nv_steps_kspd n) (nv_steps_kdim n).
by rewrite size_nseq.
Qed.
Theorem nv_kalman_evidence_is_the_integral n :
  traj_int 2 n.+1 0
    (fun l => exp (kjoint (nv_steps n) (nv_prior LR) (head vzero l) (behead l)))
    (fun _ => exp (kevidence (nv_steps n) (nv_prior LR))).
Proof.
have Hr : (0 < uR (nv_prior LR))%N by [].
have := kalman_evidence_is_the_integral_over_all_states_spd (@nv_prior_ok _ LR) (erefl _) (nv_prior_spd Hr)
          (nv_steps_kspd n) (nv_steps_kdim n).
by rewrite size_nseq.
Qed.
Print Assumptions nv_kalman_evidence_is_the_integral.
