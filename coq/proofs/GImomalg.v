(* The mean / covariance accumulated by the one-variable-at-a-time elimination of an affine prefactor
   (trunc/GaussMom.v: gmeanR, gcovR) are the closed forms  l0 + l' A^-1 nu  and  l' A^-1 k,
   for every dimension and every real field: pure algebra (block inverse of GIalg.v, bilinear version). *)
From Coq Require Import QArith Qcanon ZArith.
From mathcomp Require Import all_ssreflect all_fingroup all_algebra.
From mathcomp Require Import ring.
From GT Require Import QcField QcOrder Tensor DetExec LogDom MxTac MxLemmas Obj Factor Sample SPD Chol Spec GIalg.
Set Implicit Arguments.
Unset Strict Implicit.
Unset Printing Implicit Defensive.
Local Close Scope Q_scope.
Local Close Scope Qc_scope.
Local Close Scope Z_scope.
Import GRing.Theory Num.Theory Order.Theory.
Local Open Scope ring_scope.

(* ---------- one elimination step: the BILINEAR form l' M^-1 k ---------- *)
Section StepBil.
Variable F : fieldType.
Variable m : nat.
Variables (a : F) (c : 'cV[F]_m) (C : 'M[F]_m).
Hypothesis a0 : a != 0.
Hypothesis Su : gsS a c C \in unitmx.

Lemma gs_bil (l0 k0 : F) (l1 k1 : 'cV[F]_m) :
  let l' := l1 - (l0 / a) *: c in
  let k' := k1 - (k0 / a) *: c in
  ((col_mx l0%:M l1)^T *m invmx (gsM a c C) *m col_mx k0%:M k1) 0 0
  = l0 * k0 / a + (l'^T *m invmx (gsS a c C) *m k') 0 0.
Proof.
move=> l' k'; rewrite gs_inv //.
have E (n0 : F) (n1 : 'cV[F]_m) :
    gsLi a c *m col_mx n0%:M n1 = col_mx n0%:M (n1 - (n0 / a) *: c).
  rewrite /gsLi mul_block_col !mul1mx mul0mx addr0; congr col_mx.
  rewrite mulNmx -scalemxAl mul_mx_scalar scalerA addrC.
  by congr (_ - _ *: _); rewrite mulrC.
rewrite !mulmxA -trmx_mul E -[_ *m gsLi a c *m _]mulmxA E -/l' -/k'.
rewrite /gsDi tr_col_mx mul_row_block mul_row_col !mulmx0 addr0 add0r.
rewrite mxE; congr (_ + _).
by rewrite tr_scalar_mx -!scalar_mxM mxE eqxx mulr1n mulrAC.
Qed.

End StepBil.

Section GImomalg.
Variable F : realFieldType.
Notation mat := (mat F).
Notation vec := (vec F).

Definition glin (A : mat) (l : vec) : vec := fun i => l i.+1 - l 0%N * A i.+1 0%N / A 0%N 0%N.
Definition glin0 (A : mat) (nu l : vec) (l0 : F) : F := l0 + l 0%N * nu 0%N / A 0%N 0%N.
Fixpoint gmean (n : nat) (A : mat) (nu l : vec) (l0 : F) : F :=
  match n with 0%N => l0 | m.+1 => gmean m (gschur A) (gnu A nu) (glin A l) (glin0 A nu l l0) end.
Fixpoint gcov (n : nat) (A : mat) (l k : vec) : F :=
  match n with 0%N => 0 | m.+1 => l 0%N * k 0%N / A 0%N 0%N + gcov m (gschur A) (glin A l) (glin A k) end.

Lemma cvf_glin m A l :
  cvf m (glin A l) = cvf m (fun i => l i.+1) - (l 0%N / A 0%N 0%N) *: (\col_i A i.+1 0%N).
Proof. exact: cvf_gnu. Qed.

(* the bilinear form after one elimination step *)
Lemma bil_step m A (l k : vec) : spd (mxf m.+1 m.+1 A) ->
  sc ((cvf m.+1 l)^T *m invmx (mxf m.+1 m.+1 A) *m cvf m.+1 k)
  = l 0%N * k 0%N / A 0%N 0%N
    + sc ((cvf m (glin A l))^T *m invmx (mxf m m (gschur A)) *m cvf m (gnu A k)).
Proof.
move=> sA; have [a0 EM sS] := spd_step sA.
have an0 : A 0%N 0%N != 0 by rewrite gt_eqF.
have Su := spd_unit sS; rewrite mxf_gschur in Su.
by rewrite EM !cvf_block1 /sc gs_bil // -mxf_gschur -cvf_gnu -cvf_glin.
Qed.

Theorem gmean_closed n A nu l l0 : spd (mxf n n A) ->
  gmean n A nu l l0 = l0 + sc ((cvf n l)^T *m invmx (mxf n n A) *m cvf n nu).
Proof.
elim: n A nu l l0 => [|m IH] A nu l l0 sA.
  by rewrite /= /sc mxE big_ord0 addr0.
have [_ _ sS] := spd_step sA.
by rewrite /= (IH _ _ _ _ sS) bil_step // /glin0 addrA.
Qed.

Theorem gcov_closed n A l k : spd (mxf n n A) ->
  gcov n A l k = sc ((cvf n l)^T *m invmx (mxf n n A) *m cvf n k).
Proof.
elim: n A l k => [|m IH] A l k sA.
  by rewrite /= /sc mxE big_ord0.
have [_ _ sS] := spd_step sA.
by rewrite /= (IH _ _ _ sS) bil_step.
Qed.

End GImomalg.

(* ---------- executable sanity at the rationals (Chol.v's 3x3 example) ---------- *)
(* nu = (2, 1, 1): A^-1 nu = (1/2, 0, 0); hence mean of x_0 is 1/2 and mean of x_1 + 3 is 3 *)
Example gmean_ex0 :
  gmean 3 exA (fun i => if i == 0%N then q 2 1 else q 1 1) (fun i => if i == 0%N then q 1 1 else 0) 0 == q 1 2.
Proof. by vm_compute. Qed.
Example gmean_ex1 :
  gmean 3 exA (fun i => if i == 0%N then q 2 1 else q 1 1) (fun i => if i == 1%N then q 1 1 else 0) (q 3 1) == q 3 1.
Proof. by vm_compute. Qed.
(* covariance of nu.x with x_0 is (A^-1 nu)_0 = 1/2 *)
Example gcov_ex :
  gcov 3 exA (fun i => if i == 0%N then q 2 1 else q 1 1) (fun i => if i == 0%N then q 1 1 else 0) == q 1 2.
Proof. by vm_compute. Qed.

Check gmean_closed.
Check gcov_closed.
Print Assumptions gs_bil.
Print Assumptions gmean_closed.
Print Assumptions gcov_closed.
