(* GLUE: the model's Gaussian-integral specification `lngint` (proofs/Spec.v), instantiated at Coq's real numbers
   (base/RField.v), IS the logarithm of the iterated improper Riemann integral over R^D (trunc/GaussND.v). *)
From Coq Require Import Reals Lra Lia.
From GT Require Import GaussND.

(* ---- pure stdlib-Reals facts (proved before MathComp's ring/field tactics shadow the stdlib ones) ---- *)
Lemma gval_stepR (a n g : R) : (0 < a)%R ->
  (ln (2 * PI / a) / 2 + n * n / (2 * a) + g)%R
  = (ln (2 * PI) / 2 - ln a / 2 + / 2 * (n * n / a) + g)%R.
Proof.
intros a0. assert (Hpi : (0 < 2 * PI)%R) by (generalize PI_RGT_0; lra).
unfold Rdiv. rewrite ln_mult; [ | exact Hpi | apply Rinv_0_lt_compat; exact a0 ].
rewrite ln_Rinv by exact a0. field. lra.
Qed.

From mathcomp Require Import all_ssreflect all_fingroup all_algebra.
From mathcomp Require Import ring.
From GT Require Import Tensor DetExec LogDom OLog RField MxTac MxLemmas Obj Factor Measure Pdf Cond EvalLemmas SPD Spec C01_proofs PdfLemmas C04_proofs C05_proofs GIalg.
Set Implicit Arguments.
Unset Strict Implicit.
Unset Printing Implicit Defensive.
Local Close Scope R_scope.
Delimit Scope R_scope with coqR.
Import GRing.Theory Num.Theory Order.Theory.
Local Open Scope ring_scope.

Notation RF := R_realFieldType.
Notation matRF := (mat R_fieldType).
Notation vecRF := (vec R_fieldType).

(* ------------------------------------------------------------------ *)
(* 1. bridges  GaussND (stdlib Reals)  <->  GIalg at F := R, LS := LR  *)
(* ------------------------------------------------------------------ *)
Lemma gschurR_gschur (A : matRF) : gschurR A = gschur A.
Proof. by []. Qed.
Lemma gnuR_gnu (A : matRF) (nu : vecRF) : gnuR A nu = gnu A nu.
Proof. by []. Qed.

Lemma gpivR_gpiv D (A : matRF) : gpivR D A <-> gpiv D A.
Proof.
elim: D A => [|m IH] A //=; split=> [[a0 H]|[a0 H]]; split; try exact/RltP; try exact/IH.
Qed.

Lemma gvalR_gval D (A : matRF) (nu : vecRF) : gpivR D A -> gvalR D A nu = gval LR D A nu.
Proof.
elim: D A nu => [|m IH] A nu //= [a0 piv].
rewrite (IH _ _ piv) gval_stepR // /Roln /Rol2p /half two_E.
Qed.

Lemma lt_ssr (i D : nat) : (i < D)%coq_nat -> (i < D)%N.
Proof. by move/ssrnat.ltP. Qed.

Lemma spd_symR D (A : matRF) : spd (mxf D D A) -> symR D A.
Proof.
move=> [/symP sA _] i j /ssrnat.ltP Hi /ssrnat.ltP Hj; exact: sA.
Qed.

Lemma spd_gpivR D (A : matRF) : spd (mxf D D A) -> gpivR D A.
Proof. by move=> sA; apply/gpivR_gpiv; exact: spd_gpiv. Qed.

(* ------------------------------------------------------------------ *)
(* 2. the Gaussian-integral specification is a theorem                 *)
(* ------------------------------------------------------------------ *)
Theorem GI_is_integral D (A : matRF) (nu : vecRF) (lb : R) : spd (mxf D D A) ->
  is_gint D (fun x => exp (quadR D A nu x + lb)%coqR) (exp (lngint (LS:=LR) (mxf D D A) (cvf D nu) lb)).
Proof.
move=> sA.
have := gauss_nd D A nu lb (spd_symR sA) (spd_gpivR sA).
rewrite (gvalR_gval _ (spd_gpivR sA)) -(@gval_lngint _ LR D A nu lb sA).
by rewrite -[(_ + lb)%coqR]/(gval LR D A nu + lb) addrC.
Qed.
Print Assumptions GI_is_integral.

(* sums *)
Lemma sumR_big n (f : nat -> R) : sumR n f = \sum_(i < n) f i.
Proof.
elim: n f => [|n IH] f /=; first by rewrite big_ord0.
by rewrite big_ord_recl /= IH.
Qed.
Lemma sumR_sumn n (f : nat -> R) : sumR n f = sumn (F:=R_fieldType) n f.
Proof. by rewrite sumR_big sumnE. Qed.

(* the integrand's exponent, in the executable tensor vocabulary and in matrix form *)
Lemma quadR_tensor D (A : matRF) (nu x : vecRF) :
  quadR D A nu x = - half RF * quad D A x + dot D x nu.
Proof.
rewrite /quadR /quad /dot /mvec /half two_E.
have -> : sumR D (fun i => sumR D (fun j => A i j * x i * x j)%coqR)
          = sumn D (fun k => x k * sumn D (fun j => A k j * x j)).
  rewrite sumR_sumn; apply: eq_sumn => i _; rewrite sumR_sumn -sumnMl; apply: eq_sumn => j _.
  by rewrite -[LHS]/(A i j * x i * x j) mulrCA mulrA.
have -> : sumR D (fun i => nu i * x i)%coqR = sumn D (fun k => x k * nu k).
  by rewrite sumR_sumn; apply: eq_sumn => i _; rewrite -[LHS]/(nu i * x i) mulrC.
set S1 := sumn D _; set S2 := sumn D _.
by rewrite -[LHS]/(- S1 * (IZR 2)^-1 + S2) mulNr [S1 * _]mulrC -mulNr.
Qed.

Theorem quadR_matrix D (A : matRF) (nu x : vecRF) :
  quadR D A nu x = - (1 / 2%:R) * sc ((cvf D x)^T *m mxf D D A *m cvf D x) + sc ((cvf D nu)^T *m cvf D x).
Proof.
rewrite quadR_tensor quadE dotE /sc /half mul1r; congr (_ + _).
by rewrite !mxE; apply: eq_bigr => k _; rewrite !mxE mulrC.
Qed.

(* the same theorem with the integrand written with MathComp matrices *)
Theorem GI_is_integral_matrix D (A : matRF) (nu : vecRF) (lb : R) : spd (mxf D D A) ->
  is_gint D (fun x => exp (- (1 / 2%:R) * sc ((cvf D x)^T *m mxf D D A *m cvf D x) + sc ((cvf D nu)^T *m cvf D x) + lb))
            (exp (lngint (LS:=LR) (mxf D D A) (cvf D nu) lb)).
Proof.
move=> sA; apply: is_gint_ext (GI_is_integral nu lb sA) => x.
by rewrite quadR_matrix.
Qed.

(* ------------------------------------------------------------------ *)
(* 3. the model's objects at the reals                                 *)
(* ------------------------------------------------------------------ *)
(* what an object evaluates to (log domain) is the exponent integrated by gauss_nd *)
Lemma ueval_quadR (u : measure LR) r (x : vecRF) :
  ueval u r x = (quadR (uD u) (uLam u r) (unu u r) x + ulb u r)%coqR.
Proof. by rewrite /ueval /eval_core quadR_tensor. Qed.

(* every component: the exponential of the GI specification is the integral of exp(evaluate_ln) *)
Theorem measure_lngint_is_integral (u : measure LR) r : spd (Lm u r) ->
  is_gint (uD u) (fun x => exp (ueval u r x)) (exp (lngint (Lm u r) (nuv u r) (ulb u r))).
Proof.
move=> sL; apply: is_gint_ext (GI_is_integral (unu u r) (ulb u r) sL) => x.
by rewrite ueval_quadR.
Qed.

(* the value log_integral returns is the log of the genuine integral of exp(evaluate_ln).
   `posdet u` (all components have det Lambda > 0) is the standing hypothesis of C02_log_integral: the lazily
   filled caches are computed for all components at once. *)
Theorem log_integral_is_integral_posdet (u : measure LR) r :
  cache_ok u -> diag_ok u -> posdet u -> spd (Lm u r) -> (r < uR u)%N ->
  is_gint (uD u) (fun x => exp (ueval u r x)) (exp ((log_integral u).2 r))
  /\ is_gint (uD u) (fun x => exp (ueval u r x)) (exp ((log_integral_light u).2 r)).
Proof.
move=> Hc Hd Hp sL Hr; have [-> -> _ _] := log_integral_spec Hc Hd Hp Hr.
by split; exact: measure_lngint_is_integral.
Qed.

Lemma spd_posdet (u : measure LR) : (forall r, (r < uR u)%N -> spd (Lm u r)) -> posdet u.
Proof. by move=> H r Hr; apply: spd_det_gt0; exact: H. Qed.

Theorem log_integral_is_integral_all (u : measure LR) r :
  cache_ok u -> diag_ok u -> (forall k, (k < uR u)%N -> spd (Lm u k)) -> (r < uR u)%N ->
  is_gint (uD u) (fun x => exp (ueval u r x)) (exp ((log_integral u).2 r)).
Proof.
move=> Hc Hd Hs Hr.
by have [] := log_integral_is_integral_posdet Hc Hd (spd_posdet Hs) (Hs r Hr) Hr.
Qed.

(* a density has total mass one: lngint of its own parameters is 0 *)
Lemma pdf_lngint0 (F : realFieldType) (LS : logS F) (p : measure LS) r : pdf_ok p -> (r < uR p)%N ->
  lngint (Lm p r) (nuv p r) (ulb p r) = 0.
Proof.
move=> Hp Hr; have [[Hsym HS _ _ HZ] [aS ahS amu aZ] Hnu Hlb] := Hp r Hr.
have [SL dpos EhS] := HS aS.
have [_ EZ] := HZ aZ.
have [E dL] := inv_pos' SL dpos.
rewrite /lngint Hlb EZ EhS -(inv_unique SL) E hlnV // opprK.
by rewrite -!addrA addNr.
Qed.

Theorem density_integrates_to_one (p : measure LR) r : pdf_ok p -> spd (Lm p r) -> (r < uR p)%N ->
  is_gint (uD p) (fun x => exp (ueval p r x)) 1.
Proof.
move=> Hp sL Hr; have := measure_lngint_is_integral sL.
by rewrite pdf_lngint0 // exp_0.
Qed.

Lemma pdf_spd_Sg_Lm (F : realFieldType) (LS : logS F) (p : measure LS) r :
  pdf_ok p -> (r < uR p)%N -> spd (Sg p r) -> spd (Lm p r).
Proof.
move=> Hp Hr sS; have [[_ HS _ _ _] [aS _ _ _] _ _] := Hp r Hr.
have [SL _ _] := HS aS.
by rewrite (inv_unique (mulmx1C SL)); exact: spd_inv.
Qed.

Theorem density_integrates_to_one_Sigma (p : measure LR) r : pdf_ok p -> spd (Sg p r) -> (r < uR p)%N ->
  is_gint (uD p) (fun x => exp (ueval p r x)) 1.
Proof. by move=> Hp sS Hr; apply: density_integrates_to_one => //; exact: pdf_spd_Sg_Lm. Qed.

(* and it is the normal density of its own mean and covariance that is being integrated *)
Theorem normal_density_integrates_to_one (p : measure LR) r : pdf_ok p -> spd (Sg p r) -> (r < uR p)%N ->
  is_gint (uD p) (fun x => exp (lnN LR (muv p r) (Sg p r) (cvf (uD p) x))) 1.
Proof.
move=> Hp sS Hr; apply: is_gint_ext (density_integrates_to_one_Sigma Hp sS Hr) => x.
by rewrite (pdf_ok_eval x Hp Hr).
Qed.
Print Assumptions log_integral_is_integral_posdet.
Print Assumptions density_integrates_to_one.

(* ------------------------------------------------------------------ *)
(* 3'. removing `posdet u`: the value at component r only depends on   *)
(*     component r (single-component restriction `pick r u`)           *)
(* ------------------------------------------------------------------ *)
Section Pick.
Variable F : realFieldType.
Variable LS : logS F.
Notation measure := (measure LS).

Definition pick (r : nat) (u : measure) : measure :=
  Measure 1 (uD u) (fun _ => uLam u r) (fun _ => unu u r) (fun _ => ulb u r)
          (omap (fun S _ => S r) (uSig u)) (omap (fun h _ => h r) (uhldS u)) (omap (fun h _ => h r) (uhldL u))
          (omap (fun m _ => m r) (umu u)) (omap (fun z _ => z r) (ulnZ u)) (ucls u).

Lemma pick_cache_ok r (u : measure) : cache_ok_at u r -> cache_ok (pick r u).
Proof.
move=> [sy cS cld cmu cz] k _.
rewrite /pick; case: u sy cS cld cmu cz => R D L n l S hS hL m z c /=.
rewrite /Lm /Sg /nuv /muv /getS /gethS /getmu /getlnZ /=.
case: S => [S|]; case: hS => [hS|]; case: hL => [hL|]; case: m => [m|]; case: z => [z|] /= sy cS cld cmu cz;
  split; rewrite /Lm /Sg /nuv /muv /getS /gethS /getmu /getlnZ //=;
  try (by move=> _; first [exact: cS | exact: cmu | exact: cz]);
  by move=> _; have [H1 H2] := cld isT; split=> // h [<-]; exact: H2.
Qed.

Lemma pick_diag_ok r (u : measure) : (r < uR u)%N -> diag_ok u -> diag_ok (pick r u).
Proof. by move=> Hr Hd dg k i j _ Hi Hj ij; apply: (Hd dg). Qed.

Lemma pick_posdet r (u : measure) : 0 < \det (Lm u r) -> posdet (pick r u).
Proof. by move=> dL k _. Qed.

Lemma pick_light r (u : measure) : (r < uR u)%N ->
  (log_integral_light (pick r u)).2 0%N = (log_integral_light u).2 r.
Proof.
move=> Hr; rewrite /log_integral_light /pick /=.
case: u Hr => R D L n l S hS hL m z c /= Hr.
case: z => [z|] //=.
rewrite /compute_lnZ /ensure_Sigma /getlnZ /=.
case: S => [S|] /=; rewrite !tablE //.
  by rewrite /gethS /getS /=; case: hS.
rewrite /gethS /getS /= !tablE //; congr (emb _ (_ * _) + _ + _ + _).
apply: eq_sumn => i Hi; congr (_ * _); apply: eq_sumn => j Hj.
by rewrite !tabbE.
Qed.

Lemma log_integral_light_eq (u : measure) k : (log_integral u).2 k = (log_integral_light u).2 k.
Proof.
rewrite /log_integral /log_integral_light /prepare /=.
set u1 := (if ulnZ u is Some _ then u else compute_lnZ u).
case: (umu u1) => [m|] //.
by rewrite /compute_mu /ensure_Sigma /getlnZ /=; case: (uSig u1).
Qed.

Lemma pick_log_integral r (u : measure) : (r < uR u)%N ->
  (log_integral (pick r u)).2 0%N = (log_integral u).2 r.
Proof. by move=> Hr; rewrite !log_integral_light_eq pick_light. Qed.

(* C02_log_integral, value part, with positivity required at the queried component only *)
Lemma log_integral_spec_at (u : measure) r : cache_ok_at u r -> diag_ok u -> 0 < \det (Lm u r) -> (r < uR u)%N ->
  (log_integral u).2 r = lngint (Lm u r) (nuv u r) (ulb u r)
  /\ (log_integral_light u).2 r = lngint (Lm u r) (nuv u r) (ulb u r).
Proof.
move=> Hc Hd dL Hr.
have [E1 E2 _ _] := @log_integral_spec _ _ (pick r u) 0%N (pick_cache_ok Hc) (pick_diag_ok Hr Hd) (pick_posdet dL) isT.
by rewrite -pick_log_integral // -pick_light.
Qed.

End Pick.

(* the statement as specified: positivity only at the queried component *)
Theorem log_integral_is_integral (u : measure LR) r : cache_ok u -> diag_ok u -> spd (Lm u r) -> (r < uR u)%N ->
  is_gint (uD u) (fun x => exp (ueval u r x)) (exp ((log_integral u).2 r)).
Proof.
move=> Hc Hd sL Hr; have [-> _] := log_integral_spec_at (Hc r Hr) Hd (spd_det_gt0 sL) Hr.
exact: measure_lngint_is_integral.
Qed.
Theorem log_integral_light_is_integral (u : measure LR) r : cache_ok u -> diag_ok u -> spd (Lm u r) -> (r < uR u)%N ->
  is_gint (uD u) (fun x => exp (ueval u r x)) (exp ((log_integral_light u).2 r)).
Proof.
move=> Hc Hd sL Hr; have [_ ->] := log_integral_spec_at (Hc r Hr) Hd (spd_det_gt0 sL) Hr.
exact: measure_lngint_is_integral.
Qed.
Print Assumptions log_integral_is_integral.

(* ------------------------------------------------------------------ *)
(* 4. the marginal density is the integral of the joint density over   *)
(*    the remaining coordinates                                        *)
(* ------------------------------------------------------------------ *)
Section BlockAlg.
Variable F : realFieldType.

Lemma spd_dr n1 n2 (A11 : 'M[F]_n1) (a : 'M[F]_(n1, n2)) a' (c : 'M[F]_n2) :
  spd (block_mx A11 a a' c) -> spd c.
Proof.
move=> sA; pose T : 'M[F]_(n1 + n2, n2) := col_mx 0 1%:M.
have -> : c = T^T *m block_mx A11 a a' c *m T.
  rewrite /T tr_col_mx mul_row_block mul_row_col trmx1 trmx0 !mul1mx !mul0mx !mulmx0 !add0r.
  by rewrite mulmx1.
apply: spd_congr_inj => // x x0.
by rewrite /T mul_col_mx mul1mx mul0mx col_mx_neq0r.
Qed.

(* block decomposition of the exponent -x'Lx/2 + x'nu at x = (a, b), as a function of b *)
Lemma quad_block da db (Laa : 'M[F]_da) (Lab : 'M[F]_(da, db)) (Lba : 'M[F]_(db, da)) (Lbb : 'M[F]_db)
    (a nua : 'cV[F]_da) (b nub : 'cV[F]_db) : Lba = Lab^T ->
  - half F * sc ((col_mx a b)^T *m block_mx Laa Lab Lba Lbb *m col_mx a b) + sc ((col_mx a b)^T *m col_mx nua nub)
  = (- half F * sc (b^T *m Lbb *m b) + sc (b^T *m (nub - Lba *m a)))
    + (- half F * sc (a^T *m Laa *m a) + sc (a^T *m nua)).
Proof.
move=> Etr.
have E : sc (a^T *m Lab *m b) = sc (b^T *m Lba *m a).
  by rewrite -PdfLemmas.sc_tr !trmx_mul trmxK Etr mulmxA.
rewrite tr_col_mx mul_row_block !mul_row_col !mulmxDl !mulmxBr !(PdfLemmas.scD, PdfLemmas.scN) E !mulmxA.
set q1 := sc (a^T *m Laa *m a); set q2 := sc (b^T *m Lba *m a); set q3 := sc (b^T *m Lbb *m b).
set l1 := sc (a^T *m nua); set l2 := sc (b^T *m nub); clearbody q1 q2 q3 l1 l2.
by rewrite /half; field.
Qed.

End BlockAlg.

Section Split.
Variable F : realFieldType.
Variable LS : logS F.

(* parameters of the function  xb |-> joint(xa, xb)  *)
Definition rest_Lam da db (p : measure LS) r : mat F := msub2 (iota da db) (iota da db) (uLam p r).
Definition rest_nu da db (p : measure LS) r (xa : vec F) : vec F :=
  vsub (vsel (iota da db) (unu p r)) (mvec da (msub2 (iota da db) (iota 0 da) (uLam p r)) xa).
Definition rest_lb da (p : measure LS) r (xa : vec F) : LS :=
  ulb p r + emb LS (- half F * sc ((cvf da xa)^T *m mxf da da (msub2 (iota 0 da) (iota 0 da) (uLam p r)) *m cvf da xa)
                    + sc ((cvf da xa)^T *m cvf da (vsel (iota 0 da) (unu p r)))).

Lemma ueval_split da db (p : measure LS) r (xa xb : vec F) : uD p = (da + db)%N -> (Lm p r)^T = Lm p r ->
  ueval p r (vcat da xa xb) = eval_core db (rest_Lam da db p r) (rest_nu da db p r xa) (rest_lb da p r xa) xb.
Proof.
case: p => R D L n l S hS hL m z c; rewrite /Lm /ueval /rest_Lam /rest_nu /rest_lb /= => HD; subst D.
rewrite /eval_core !quadE !dotE cvf_cat mxf_split (cvf_split da db (n r)) cvf_sub cvf_mvec.
rewrite tr_block_mx => /eq_block_mx [_ HLba _ _].
rewrite -!/(sc _) quad_block; last by rewrite -HLba trmxK.
rewrite raddfD /= -addrA; congr (_ + _).
by rewrite addrC.
Qed.

End Split.

Lemma spd_split (F : realFieldType) da db D (A : mat F) : D = (da + db)%N -> spd (mxf D D A) ->
  spd (mxf da da (msub2 (iota 0 da) (iota 0 da) A)) /\ spd (mxf db db (msub2 (iota da db) (iota da db) A)).
Proof. by move=> ->; rewrite mxf_split => sA; split; [exact: spd_ul sA | exact: spd_dr sA]. Qed.

Lemma eval_core_quadR D (A : matRF) (nu : vecRF) (lb : R) (x : vecRF) :
  eval_core (LS:=LR) D A nu lb x = (quadR D A nu x + lb)%coqR.
Proof. by rewrite /eval_core quadR_tensor. Qed.

(* for every xa in R^da: integrating the joint density exp(ueval p r (xa, xb)) over xb in R^db (iterated improper
   Riemann integral) gives the normal density N(xa; mu_a, Sigma_aa) -- the density of get_marginal (C05_marginal_law) *)
Theorem marginal_is_genuine_integral da db (p : measure LR) r (xa : vecRF) :
  pdf_ok p -> uD p = (da + db)%N -> (r < uR p)%N -> spd (Lm p r) ->
  is_gint db (fun xb => exp (ueval p r (vcat da xa xb)))
    (exp (lnN LR (cvf da (vsel (iota 0 da) (getmu p r))) (mxf da da (msub2 (iota 0 da) (iota 0 da) (getS p r)))
              (cvf da xa))).
Proof.
move=> Hp HD Hr sL.
have [_ sBB] := spd_split HD sL.
have sS : spd (Sg p r).
  have [[_ HS _ _ _] [aS _ _ _] _ _] := Hp r Hr; have [SL _ _] := HS aS.
  by rewrite (inv_unique SL); exact: spd_inv.
have [sSaa _] := spd_split HD sS.
have E := marginal_is_integral xa Hp HD Hr (spd_det_gt0 sBB) (spd_det_gt0 sSaa).
rewrite -E.
have := GI_is_integral (rest_nu da db p r xa) (rest_lb da p r xa) sBB.
rewrite /rest_nu cvf_sub cvf_mvec; apply: is_gint_ext => xb.
by rewrite (ueval_split xa xb HD (proj1 sL)) eval_core_quadR.
Qed.
Print Assumptions marginal_is_genuine_integral.

(* ... and that normal density is what get_marginal returns: the object computed by get_marginal(0..da-1) evaluates,
   at every xa, to the integral of the joint density over the other coordinates *)
Theorem get_marginal_is_genuine_integral da db (p : measure LR) r (xa : vecRF) :
  pdf_ok p -> diag_cov_ok p -> uD p = (da + db)%N -> (forall k, (k < uR p)%N -> spd (Lm p k)) -> (r < uR p)%N ->
  is_gint db (fun xb => exp (ueval p r (vcat da xa xb))) (exp (ueval (get_marginal (iota 0 da) p) r xa)).
Proof.
move=> Hp Hd HD Hs Hr.
have Hpos k : (k < uR p)%N ->
    0 < \det (mxf (size (iota 0 da)) (size (iota 0 da)) (msub2 (iota 0 da) (iota 0 da) (getS p k))).
  move=> Hk; rewrite size_iota.
  have sS : spd (Sg p k).
    have [[_ HS _ _ _] [aS _ _ _] _ _] := Hp k Hk; have [SL _ _] := HS aS.
    by rewrite (inv_unique SL); apply: spd_inv; exact: Hs.
  by have [sSaa _] := spd_split HD sS; exact: spd_det_gt0.
have Hall : all (fun i => (i < uD p)%N) (iota 0 da).
  by apply/allP => i; rewrite mem_iota add0n HD => /andP [_ Hi]; exact: ltn_addr.
rewrite (get_marginal_eval xa Hp Hd (iota_uniq 0 da) Hall Hpos Hr).
move: (size_iota 0 da); move: (size _) => n En; subst n.
exact: marginal_is_genuine_integral (Hs r Hr).
Qed.
Print Assumptions get_marginal_is_genuine_integral.

(* ------------------------------------------------------------------ *)
(* 5. sanity (non-vacuity): the standard normal weight in dimension D  *)
(* ------------------------------------------------------------------ *)
Lemma GI_identity D :
  is_gint D (fun x => exp (quadR D mid vzero x + 0)%coqR) (exp (hl2p LR *+ D)).
Proof.
have sI : spd (mxf D D (mid : matRF)) by rewrite mxf_id; exact: spd_1.
have := GI_is_integral vzero 0 sI.
rewrite /lngint mxf_id cvf_zero mulmx0 /sc mxE mulr0 raddf0 det1 hln1 subr0 !add0r.
by [].
Qed.
