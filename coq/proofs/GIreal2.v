(* GLUE, part 2: C08 / C09 / C11 as statements about genuine integrals.  At Coq's real numbers (base/RField.v) the
   marginal of the LAST coordinates is the iterated improper Riemann integral (trunc/GaussND.v) of the joint density
   over the FIRST coordinates; the density returned by the marginal transformation is the integral over x of
   p(y|x) p(x); the posterior density returned by the conditional transformation integrates to one. *)
From Coq Require Import Reals Lra Lia.
From GT Require Import GaussND.

(* ---- pure stdlib-Reals facts (proved before MathComp's ring/field tactics shadow the stdlib ones) ---- *)
Lemma exp_sub_scalR (a m : R) : exp (a + - m)%R = (exp (- m) * exp a)%R.
Proof. rewrite Rplus_comm. apply exp_plus. Qed.
Lemma exp_neg_mulR (m : R) : (exp (- m) * exp m)%R = 1%R.
Proof. rewrite <- exp_plus, Rplus_opp_l. apply exp_0. Qed.
Lemma exp_bayesR (a b m q : R) : (q + m = a + b)%R -> exp (a + b + - m)%R = exp q.
Proof. intros <-. f_equal. ring. Qed.

From mathcomp Require Import all_ssreflect all_fingroup all_algebra.
From mathcomp Require Import ring.
From GT Require Import Tensor DetExec LogDom OLog RField MxTac MxLemmas Obj Factor Measure Pdf Cond EvalLemmas SPD Spec
  C01_proofs PdfLemmas C04_proofs C05_proofs C06_proofs C0809_proofs C1013_proofs C12_proofs C07_proofs Extra_proofs
  C11_proofs NonVacuity GIalg GIreal.
Set Implicit Arguments.
Unset Strict Implicit.
Unset Printing Implicit Defensive.
Local Close Scope R_scope.
Import GRing.Theory Num.Theory Order.Theory.
Local Open Scope ring_scope.

(* ------------------------------------------------------------------ *)
(* 1. integrating out the FIRST da coordinates                         *)
(* ------------------------------------------------------------------ *)
Section BlockAlg2.
Variable F : realFieldType.

(* block decomposition of the exponent -x'Lx/2 + x'nu at x = (a, b), as a function of a *)
Lemma quad_block_first da db (Laa : 'M[F]_da) (Lab : 'M[F]_(da, db)) (Lba : 'M[F]_(db, da)) (Lbb : 'M[F]_db)
    (a nua : 'cV[F]_da) (b nub : 'cV[F]_db) : Lba = Lab^T ->
  - half F * sc ((col_mx a b)^T *m block_mx Laa Lab Lba Lbb *m col_mx a b) + sc ((col_mx a b)^T *m col_mx nua nub)
  = (- half F * sc (a^T *m Laa *m a) + sc (a^T *m (nua - Lab *m b)))
    + (- half F * sc (b^T *m Lbb *m b) + sc (b^T *m nub)).
Proof.
move=> Etr.
have E : sc (b^T *m Lba *m a) = sc (a^T *m Lab *m b).
  by rewrite -PdfLemmas.sc_tr !trmx_mul trmxK Etr trmxK mulmxA.
rewrite tr_col_mx mul_row_block !mul_row_col !mulmxDl !mulmxBr !(PdfLemmas.scD, PdfLemmas.scN) E !mulmxA.
set q1 := sc (a^T *m Laa *m a); set q2 := sc (a^T *m Lab *m b); set q3 := sc (b^T *m Lbb *m b).
set l1 := sc (a^T *m nua); set l2 := sc (b^T *m nub); clearbody q1 q2 q3 l1 l2.
by rewrite /half; field.
Qed.

End BlockAlg2.

Section Split2.
Variable F : realFieldType.
Variable LS : logS F.

(* parameters of the function  xa |-> joint(xa, xb)  *)
Definition first_Lam da (p : measure LS) r : mat F := msub2 (iota 0 da) (iota 0 da) (uLam p r).
Definition first_nu da db (p : measure LS) r (xb : vec F) : vec F :=
  vsub (vsel (iota 0 da) (unu p r)) (mvec db (msub2 (iota 0 da) (iota da db) (uLam p r)) xb).
Definition first_lb da db (p : measure LS) r (xb : vec F) : LS :=
  ulb p r + emb LS (- half F * sc ((cvf db xb)^T *m mxf db db (msub2 (iota da db) (iota da db) (uLam p r)) *m cvf db xb)
                    + sc ((cvf db xb)^T *m cvf db (vsel (iota da db) (unu p r)))).

Lemma ueval_split_first da db (p : measure LS) r (xa xb : vec F) : uD p = (da + db)%N -> (Lm p r)^T = Lm p r ->
  ueval p r (vcat da xa xb) = eval_core da (first_Lam da p r) (first_nu da db p r xb) (first_lb da db p r xb) xa.
Proof.
case: p => R D L n l S hS hL m z c; rewrite /Lm /ueval /first_Lam /first_nu /first_lb /= => HD; subst D.
rewrite /eval_core !quadE !dotE cvf_cat mxf_split (cvf_split da db (n r)) cvf_sub cvf_mvec.
rewrite tr_block_mx => /eq_block_mx [_ HLba _ _].
rewrite -!/(sc _) quad_block_first; last by rewrite -HLba trmxK.
by rewrite raddfD /= -addrA; congr (_ + _); rewrite addrC.
Qed.

End Split2.

(* for every xb in R^db: integrating the joint density exp(ueval p r (xa, xb)) over xa in R^da (iterated improper
   Riemann integral) gives the normal density N(xb; mu_b, Sigma_bb) *)
Theorem marginal_last_is_genuine_integral da db (p : measure LR) r (xb : vecRF) :
  pdf_ok p -> uD p = (da + db)%N -> (r < uR p)%N -> spd (Lm p r) ->
  is_gint da (fun xa => exp (ueval p r (vcat da xa xb)))
    (exp (lnN LR (cvf db (vsel (iota da db) (getmu p r))) (mxf db db (msub2 (iota da db) (iota da db) (getS p r)))
              (cvf db xb))).
Proof.
move=> Hp HD Hr sL.
have [sAA _] := spd_split HD sL.
have sS : spd (Sg p r).
  have [[_ HS _ _ _] [aS _ _ _] _ _] := Hp r Hr; have [SL _ _] := HS aS.
  by rewrite (inv_unique SL); exact: spd_inv.
have [_ sSbb] := spd_split HD sS.
have E := marginal_is_integral_last xb Hp HD Hr (spd_det_gt0 sAA) (spd_det_gt0 sSbb).
rewrite -E.
have := GI_is_integral (first_nu da db p r xb) (first_lb da db p r xb) sAA.
rewrite /first_nu cvf_sub cvf_mvec; apply: is_gint_ext => xa.
by rewrite (ueval_split_first xa xb HD (proj1 sL)) eval_core_quadR.
Qed.
Print Assumptions marginal_last_is_genuine_integral.

(* ------------------------------------------------------------------ *)
(* 2. C08: the marginal transformation returns the integral over x of  *)
(*    p(y|x) p(x)                                                      *)
(* ------------------------------------------------------------------ *)
Section JointSPD.
Variable F : realFieldType.

Lemma spd_bdiag dx dy (Sx : 'M[F]_dx) (Sy : 'M[F]_dy) : spd Sx -> spd Sy -> spd (block_mx Sx 0 0 Sy).
Proof.
move=> sSx sSy; have [xs xp] := sSx; have [ys yp] := sSy.
have [_ xq] := spd_psd sSx; have [_ yq] := spd_psd sSy.
split; first by rewrite /sym tr_block_mx !trmx0 xs ys.
move=> z; rewrite -[z]vsubmxK; set u := usubmx z; set w := dsubmx z => z0.
have E : qf (block_mx Sx 0 0 Sy) (col_mx u w) = qf Sx u + qf Sy w.
  by rewrite /qf tr_col_mx mul_row_block mul_row_col !mulmx0 addr0 add0r mxE.
rewrite E; case: (eqVneq u 0) => [u0|un0].
  have wn0 : w != 0 by apply: contraNN z0 => /eqP ->; rewrite u0 col_mx0.
  by rewrite ltr_paddl // yp.
by rewrite ltr_paddr // xp.
Qed.

(* the covariance of the joint transformation is positive definite *)
Lemma spd_Sxy dx dy (Sx : 'M[F]_dx) (Sy : 'M[F]_dy) (M : 'M[F]_(dy, dx)) : spd Sx -> spd Sy -> spd (Sxy Sx Sy M).
Proof.
move=> sSx sSy; pose T : 'M[F]_(dx + dy) := block_mx 1%:M M^T 0 1%:M.
have -> : Sxy Sx Sy M = T^T *m block_mx Sx 0 0 Sy *m T.
  rewrite /T tr_block_mx trmx0 !trmx1 trmxK /Sxy !mulmx_block !mul1mx !mulmx1 !mul0mx !mulmx0 !addr0 !add0r.
  by congr block_mx; rewrite // addrC.
apply: spd_congr; first exact: spd_bdiag.
by rewrite unitmxE /T det_ublock !det1 mulr1 unitr1.
Qed.

End JointSPD.

Section JointPos.
Variable F : realFieldType.
Variable LS : logS F.

Lemma joint_Sg (c : cond LS) (p : measure LS) k : (k < cR c * uR p)%N ->
  mxf (cDx c + cDy c) (cDx c + cDy c) (getS (affine_joint c p) k)
  = mxf (cDx c + cDy c) (cDx c + cDy c) (joint_Sigma c p k).
Proof.
move=> Hk; apply/mxfP => i j Hi Hj; rewrite /affine_joint.
by have [-> //] := mk_pdf_params false (cDx c + cDy c) (joint_Sigma c p)
   (fun k => vcat (cDx c) (getmu p (jrx p k)) (cond_mu c (jrc p k) (getmu p (jrx p k))))
   (Some (joint_Lambda c p)) (Some (joint_hld c p)) Hk.
Qed.

(* positivity of the joint precision of component k follows from positivity of the covariance of p(x), component
   jrx p k, and of the conditional covariance, component jrc p k *)
Lemma joint_spd (c : cond LS) (p : measure LS) k :
  pdf_ok p -> cond_ok c -> cDx c = uD p -> (k < cR c * uR p)%N ->
  spd (Sg p (jrx p k)) -> spd (cSg c (jrc p k)) ->
  spd (Sg (affine_joint c p) k) /\ spd (Lm (affine_joint c p) k).
Proof.
move=> Hp Hc HD Hk sSx sSy.
have sSx' : spd (mxf (cDx c) (cDx c) (getS p (jrx p k))) by rewrite HD.
have sS : spd (Sg (affine_joint c p) k).
  rewrite /Sg -[uD (affine_joint c p)]/(cDx c + cDy c)%N joint_Sg // joint_Sigma_mx; last exact: (proj1 sSx').
  exact: spd_Sxy.
split; first exact: sS.
exact: (pdf_spd_Sg_Lm (affine_joint_ok Hp Hc HD) Hk sS).
Qed.

End JointPos.

(* C08 as an integral: for every y, the density of the marginal transformation at y is the iterated improper Riemann
   integral over x in R^Dx of p(y|x) p(x) (component k = rc * R_x + rx of the result, components rc of the
   conditional and rx of p(x)).  The only positivity hypotheses are on the covariances of the two inputs. *)
Theorem affine_marginal_is_the_integral (c : cond LR) (p : measure LR) k (y : vecRF) :
  pdf_ok p -> cond_ok c -> cDx c = uD p -> marg_pos c p -> (k < cR c * uR p)%N ->
  spd (Sg p (jrx p k)) -> spd (cSg c (jrc p k)) ->
  is_gint (cDx c) (fun x => exp (ueval (condition_on_x c [:: x]) (jrc p k * 1 + 0) y + ueval p (jrx p k) x))
          (exp (ueval (affine_marginal c p) k y)).
Proof.
move=> Hp Hc HD Hpos Hk sSx sSy.
have [_ sL] := joint_spd Hp Hc HD Hk sSx sSy.
have Hj := affine_joint_ok Hp Hc HD.
have HDj : uD (affine_joint c p) = (cDx c + cDy c)%N by [].
have Hkj : (k < uR (affine_joint c p))%N by [].
have := marginal_last_is_genuine_integral y Hj HDj Hkj sL.
rewrite (affine_marginal_eval y Hp Hc HD Hpos Hk).
have -> : mxf (cDy c) (cDy c) (msub2 (iota (cDx c) (cDy c)) (iota (cDx c) (cDy c)) (getS (affine_joint c p) k))
          = SyM c p k.
  by apply/mxfP => i j Hi Hj'; rewrite joint_yblock.
have -> : cvf (cDy c) (vsel (iota (cDx c) (cDy c)) (getmu (affine_joint c p) k))
          = cvf (cDy c) (cond_mu c (jrc p k) (getmu p (jrx p k))).
  by apply/cvfP => i Hi; rewrite joint_ytail.
apply: is_gint_ext => x.
by rewrite joint_chain_rule.
Qed.
Print Assumptions affine_marginal_is_the_integral.

(* ------------------------------------------------------------------ *)
(* 3. C09 / C11: Bayes' rule as an integral identity                   *)
(* ------------------------------------------------------------------ *)
Section PostPos.
Variable F : realFieldType.
Variable LS : logS F.

(* the posterior precision Lambda_x + M' Lambda_y M of component k is positive definite *)
Lemma post_spd (c : cond LS) (p : measure LS) k :
  pdf_ok p -> cond_ok c -> cDx c = uD p -> (k < cR c * uR p)%N ->
  spd (Sg p (jrx p k)) -> spd (cSg c (jrc p k)) -> spd (Pxm c p k).
Proof.
move=> Hp Hc HD Hk sSx sSy; have [Hrc Hrx] := C0809_proofs.jr_bounds Hk.
have sLx : spd (mxf (cDx c) (cDx c) (uLam p (jrx p k))).
  by rewrite HD; exact: (pdf_spd_Sg_Lm Hp Hrx sSx).
have sLy : spd (cLm c (jrc p k)).
  have [SL _ _ _ _] := Hc _ Hrc.
  by rewrite (inv_unique (mulmx1C SL)); exact: spd_inv.
by rewrite /Pxm; apply: spd_add_psd => //; exact: psd_gram.
Qed.

(* the density p(x | y) obtained by evaluating the posterior conditional at y has that (inverse) covariance *)
Lemma post_Sg (c : cond LS) (p : measure LS) k (y : vec F) : (k < cR c * uR p)%N -> 0 < \det (Pxm c p k) ->
  mxf (cDx c) (cDx c) (getS (condition_on_x (affine_conditional c p) [:: y]) k) = invmx (Pxm c p k).
Proof.
move=> Hk Hpos; rewrite -(acond_Sg Hk Hpos) /cSg -[cDy (affine_conditional c p)]/(cDx c).
apply/mxfP => i j Hi Hj; rewrite /condition_on_x.
have Hk' : (k < cR (affine_conditional c p) * size [:: y])%N by rewrite muln1.
have [-> //] := mk_pdf_params (LS:=LS) false (cDy (affine_conditional c p))
  (fun k => cSig (affine_conditional c p) (k %/ size [:: y])%N)
  (fun k => cond_mu (affine_conditional c p) (k %/ size [:: y])%N (nth vzero [:: y] (k %% size [:: y])%N))
  (Some (fun k => cLam (affine_conditional c p) (k %/ size [:: y])%N))
  (Some (fun k => chS (affine_conditional c p) (k %/ size [:: y])%N)) Hk'.
by rewrite divn1.
Qed.

End PostPos.

(* the posterior density x |-> p(x | y) returned by the conditional transformation (C09), evaluated at the
   observation y, is a genuine probability density: it integrates to one over R^Dx *)
Theorem posterior_integrates_to_one (c : cond LR) (p : measure LR) k (y : vecRF) :
  pdf_ok p -> cond_ok c -> cDx c = uD p -> post_pos c p -> (k < cR c * uR p)%N ->
  spd (Sg p (jrx p k)) -> spd (cSg c (jrc p k)) ->
  is_gint (cDx c) (fun x => exp (ueval (condition_on_x (affine_conditional c p) [:: y]) (k * 1 + 0) x)) 1.
Proof.
move=> Hp Hc HD Hpost Hk sSx sSy.
have -> : (k * 1 + 0 = k)%N by rewrite muln1 addn0.
have [Hc' _] := affine_conditional_ok Hp Hc HD Hpost.
have Hq := condition_on_x_ok (xs:=[:: y]) Hc'.
have sP := post_spd Hp Hc HD Hk sSx sSy.
have ES := post_Sg y Hk (spd_det_gt0 sP).
have sS : spd (Sg (condition_on_x (affine_conditional c p) [:: y]) k).
  by rewrite /Sg -[uD (condition_on_x (affine_conditional c p) [:: y])]/(cDx c) ES; exact: spd_inv.
have Hk' : (k < uR (condition_on_x (affine_conditional c p) [:: y]))%N.
  by rewrite condition_on_x_R muln1.
exact: (density_integrates_to_one_Sigma Hq sS Hk').
Qed.
Print Assumptions posterior_integrates_to_one.

(* Bayes' rule under the integral sign.  For fixed y the function x |-> p(y|x) p(x) integrates to the evidence p(y)
   (affine_marginal_is_the_integral), hence the normalised product p(y|x) p(x) / p(y) integrates to one ... *)
Theorem bayes_ratio_integrates_to_one (c : cond LR) (p : measure LR) k (y : vecRF) :
  pdf_ok p -> cond_ok c -> cDx c = uD p -> marg_pos c p -> (k < cR c * uR p)%N ->
  spd (Sg p (jrx p k)) -> spd (cSg c (jrc p k)) ->
  is_gint (cDx c) (fun x => exp (ueval (condition_on_x c [:: x]) (jrc p k * 1 + 0) y + ueval p (jrx p k) x
                                 - ueval (affine_marginal c p) k y)) 1.
Proof.
move=> Hp Hc HD Hpos Hk sSx sSy.
have H := affine_marginal_is_the_integral y Hp Hc HD Hpos Hk sSx sSy.
set m := ueval (affine_marginal c p) k y in H *.
apply: is_gint_val (exp_neg_mulR m) _.
apply: is_gint_ext (is_gint_scal _ _ _ (exp (- m)) H) => x.
by rewrite -exp_sub_scalR.
Qed.

(* ... and that normalised product IS the density the conditional transformation returns (C09_bayes_rule), so
   integrating p(x|y) p(y) over x gives back the evidence p(y): the evidence computed by the marginal transformation,
   the posterior computed by the conditional transformation and the integral agree *)
Theorem bayes_evidence_is_the_integral (c : cond LR) (p : measure LR) k (y : vecRF) :
  pdf_ok p -> cond_ok c -> cDx c = uD p -> marg_pos c p -> post_pos c p -> (k < cR c * uR p)%N ->
  spd (Sg p (jrx p k)) -> spd (cSg c (jrc p k)) ->
  is_gint (cDx c) (fun x => exp (ueval (condition_on_x (affine_conditional c p) [:: y]) (k * 1 + 0) x
                                 + ueval (affine_marginal c p) k y))
          (exp (ueval (affine_marginal c p) k y)).
Proof.
move=> Hp Hc HD Hpos Hpost Hk sSx sSy.
apply: is_gint_ext (affine_marginal_is_the_integral y Hp Hc HD Hpos Hk sSx sSy) => x.
by apply: (f_equal exp); exact: esym (bayes_rule x y Hp Hc HD Hpos Hpost Hk).
Qed.

(* the second route to posterior_integrates_to_one: Bayes' rule + the C08 integral + linearity of the integral *)
Theorem posterior_integrates_to_one_bayes (c : cond LR) (p : measure LR) k (y : vecRF) :
  pdf_ok p -> cond_ok c -> cDx c = uD p -> marg_pos c p -> post_pos c p -> (k < cR c * uR p)%N ->
  spd (Sg p (jrx p k)) -> spd (cSg c (jrc p k)) ->
  is_gint (cDx c) (fun x => exp (ueval (condition_on_x (affine_conditional c p) [:: y]) (k * 1 + 0) x)) 1.
Proof.
move=> Hp Hc HD Hpos Hpost Hk sSx sSy.
apply: is_gint_ext (bayes_ratio_integrates_to_one y Hp Hc HD Hpos Hk sSx sSy) => x.
by apply: exp_bayesR; exact: (bayes_rule x y Hp Hc HD Hpos Hpost Hk).
Qed.
Print Assumptions bayes_ratio_integrates_to_one.
Print Assumptions bayes_evidence_is_the_integral.

(* ------------------------------------------------------------------ *)
(* 4. the same statements with positive definiteness of the INPUT      *)
(*    covariances as the only positivity hypothesis, and the C11 forms *)
(* ------------------------------------------------------------------ *)
(* marg_pos / post_pos are consequences of positive definite inputs (NonVacuity.spd_marg_pos, spd_post_pos) *)
Theorem affine_marginal_is_the_integral_spd (c : cond LR) (p : measure LR) k (y : vecRF) :
  pdf_ok p -> cond_ok c -> cDx c = uD p -> pdf_spd p -> cond_spd c -> (k < cR c * uR p)%N ->
  is_gint (cDx c) (fun x => exp (ueval (condition_on_x c [:: x]) (jrc p k * 1 + 0) y + ueval p (jrx p k) x))
          (exp (ueval (affine_marginal c p) k y)).
Proof.
move=> Hp Hc HD sp sc Hk; have [Hrc Hrx] := C0809_proofs.jr_bounds Hk.
exact: (affine_marginal_is_the_integral y Hp Hc HD (spd_marg_pos HD sc sp) Hk (sp _ Hrx) (sc _ Hrc)).
Qed.

Theorem posterior_integrates_to_one_spd (c : cond LR) (p : measure LR) k (y : vecRF) :
  pdf_ok p -> cond_ok c -> cDx c = uD p -> pdf_spd p -> cond_spd c -> (k < cR c * uR p)%N ->
  is_gint (cDx c) (fun x => exp (ueval (condition_on_x (affine_conditional c p) [:: y]) (k * 1 + 0) x)) 1.
Proof.
move=> Hp Hc HD sp sc Hk; have [Hrc Hrx] := C0809_proofs.jr_bounds Hk.
exact: (posterior_integrates_to_one y Hp Hc HD (spd_post_pos Hp Hc HD sc sp) Hk (sp _ Hrx) (sc _ Hrc)).
Qed.

(* C11, one Bayesian update (single components): the posterior bayes_step c y p integrates to one, and the evidence
   ueval (affine_marginal c p) 0 y is the log of the integral of likelihood x prior *)
Theorem bayes_step_integrates_to_one (c : cond LR) (y : vecRF) (p : measure LR) :
  single c p -> pdf_spd p -> cond_spd c ->
  is_gint (cDx c) (fun x => exp (ueval (bayes_step c y p) 0%N x)) 1.
Proof.
move=> [Hp Hc HD HRc HRp] sp sc.
have Hk : (0 < cR c * uR p)%N by rewrite HRc HRp.
exact: (posterior_integrates_to_one_spd y Hp Hc HD sp sc Hk).
Qed.

Theorem bayes_step_evidence_is_the_integral (c : cond LR) (y : vecRF) (p : measure LR) :
  single c p -> pdf_spd p -> cond_spd c ->
  is_gint (cDx c) (fun x => exp (ueval (condition_on_x c [:: x]) 0%N y + ueval p 0%N x))
          (exp (ueval (affine_marginal c p) 0%N y)).
Proof.
move=> [Hp Hc HD HRc HRp] sp sc.
have Hk : (0 < cR c * uR p)%N by rewrite HRc HRp.
have := affine_marginal_is_the_integral_spd y Hp Hc HD sp sc Hk.
by rewrite /jrc /jrx div0n mod0n.
Qed.

(* C11_evidence_one_observation at the reals: the number log_integral returns for prior x likelihood factor (set_y)
   is the log of the genuine integral of that product, and it is the predictive log-density of y up to the known
   normaliser offset of set_y (zero for dxn = false) *)
Theorem evidence_one_step_is_genuine_integral dxn (c : cond LR) (y : vecRF) (p : measure LR) :
  single c p -> pdf_spd p -> cond_spd c -> ~~ is_diag (ucls p) ->
  is_gint (cDx c) (fun x => exp (ueval (multiply false p (set_y dxn c [:: y])) 0%N x))
          (exp (ueval (affine_marginal c p) 0%N y + hl2p LR *+ (cDy c) - hl2p LR *+ (if dxn then cDx c else cDy c))).
Proof.
move=> Hs sp sc Hnd; have [Hp Hc HD HRc HRp] := Hs.
have Hpost := spd_post_pos Hp Hc HD sc sp.
have Hmarg := spd_marg_pos HD sc sp.
apply: (is_gint_val _ _ _ _ (f_equal exp (evidence_one_step dxn y Hs Hpost Hmarg Hnd))).
have Hk : (0 < cR c * uR p)%N by rewrite HRc HRp.
have [Hrc Hrx] := C0809_proofs.jr_bounds Hk.
have sP := post_spd Hp Hc HD Hk (sp _ Hrx) (sc _ Hrc).
have Hcp : cache_ok p by move=> r Hr; exact: (po_cache (Hp r Hr)).
have [Hcw Hdw] := sety_mult_cache dxn y Hcp Hc HD HRc HRp.
have [Rw Dw cw Lw nw] := sety_mult dxn y HRc HRp.
have sL : spd (Lm (multiply false p (set_y dxn c [:: y])) 0).
  have -> : Lm (multiply false p (set_y dxn c [:: y])) 0
            = mxf (cDx c) (cDx c) (madd (uLam p 0%N) (mmul (cDy c) (mtr (effM c 0%N)) (mmul (cDy c) (cLam c 0%N) (effM c 0%N)))).
    by apply/mxfP => i j Hi Hj; rewrite Lw.
  rewrite mxf_add !mxf_mul (mxf_tr (cDx c) (cDy c) (effM c 0%N)) mulmxA.
  by move: sP; rewrite /Pxm /Mm /jrc /jrx div0n mod0n.
have Hr : (0 < uR (multiply false p (set_y dxn c [:: y])))%N by rewrite Rw.
exact: (log_integral_is_integral Hcw Hdw sL Hr).
Qed.
Print Assumptions affine_marginal_is_the_integral_spd.
Print Assumptions posterior_integrates_to_one_spd.
Print Assumptions evidence_one_step_is_genuine_integral.

(* ------------------------------------------------------------------ *)
(* 5. sanity (non-vacuity): the concrete model of proofs/NonVacuity.v  *)
(*    (prior N((1,-1), [[2,1],[1,2]]) on R^2, y = [1 2] x + 1/2 + N(0,3)) *)
(* ------------------------------------------------------------------ *)
Theorem nv_evidence_is_the_integral (y : vecRF) :
  is_gint 2 (fun x => exp (ueval (condition_on_x (nv_cond LR) [:: x]) 0%N y + ueval (nv_prior LR) 0%N x))
          (exp (ueval (affine_marginal (nv_cond LR) (nv_prior LR)) 0%N y)).
Proof.
exact: (bayes_step_evidence_is_the_integral y (nv_single LR) (@nv_prior_spd _ LR) (@nv_cond_spd _ LR)).
Qed.
Theorem nv_posterior_integrates_to_one (y : vecRF) :
  is_gint 2 (fun x => exp (ueval (bayes_step (nv_cond LR) y (nv_prior LR)) 0%N x)) 1.
Proof.
exact: (bayes_step_integrates_to_one y (nv_single LR) (@nv_prior_spd _ LR) (@nv_cond_spd _ LR)).
Qed.
Print Assumptions nv_evidence_is_the_integral.
Print Assumptions nv_posterior_integrates_to_one.
