(* GLUE: the Isserlis / Wick moments of order one and two (proofs/Wick.v: gE, so far a DEFINITION of "the Gaussian
   moment") ARE iterated improper Riemann integrals of (product of affine forms) x (normal density) over R^D
   (trunc/GaussMom.v), and so are the model's E_linear, E_xxT, E_quadratic_outer, E_quadratic_inner (props/C03.v). *)
From Coq Require Import Reals Lra Lia.
From GT Require Import GaussND GaussMom.

From mathcomp Require Import all_ssreflect all_fingroup all_algebra.
From mathcomp Require Import ring.
From GT Require Import Tensor DetExec LogDom OLog RField MxTac MxLemmas Obj Factor Measure Pdf Cond Moments EvalLemmas SPD Spec
  Wick C01_proofs PdfLemmas C04_proofs C05_proofs C03a_proofs GIalg GImomalg GIreal.
Set Implicit Arguments.
Unset Strict Implicit.
Unset Printing Implicit Defensive.
Local Close Scope R_scope.
Import GRing.Theory Num.Theory Order.Theory.
Local Open Scope ring_scope.

(* ------------------------------------------------------------------ *)
(* 1. bridges  GaussMom (stdlib Reals)  <->  GImomalg at F := R        *)
(* ------------------------------------------------------------------ *)
Lemma glinR_glin (A : matRF) (l : vecRF) : glinR A l = glin A l.
Proof. by []. Qed.
Lemma glin0R_glin0 (A : matRF) (nu l : vecRF) (l0 : R) : glin0R A nu l l0 = glin0 A nu l l0.
Proof. by []. Qed.

Lemma gmeanR_gmean D (A : matRF) (nu l : vecRF) (l0 : R) : gmeanR D A nu l l0 = gmean D A nu l l0.
Proof. by elim: D A nu l l0 => [|m IH] A nu l l0 //=; rewrite IH. Qed.

Lemma gcovR_gcov D (A : matRF) (l k : vecRF) : gcovR D A l k = gcov D A l k.
Proof. by elim: D A l k => [|m IH] A l k //=; rewrite IH. Qed.

Lemma linR_dot D (l : vecRF) (l0 : R) (x : vecRF) : linR D l l0 x = dot D l x + l0.
Proof. by rewrite /linR sumR_sumn. Qed.

(* ------------------------------------------------------------------ *)
(* 2. Wick moments of order one and two are integrals                  *)
(* ------------------------------------------------------------------ *)
Section WickInt.
Variable D : nat.
Variables (mu : vecRF) (S : matRF).
Hypothesis sS : spd (mxf D D S).

(* precision matrix and potential vector of N(mu, S), as executable tensors *)
Let L : matRF := minv D S.
Let nu : vecRF := mvec D L mu.
Let c0 : RF := - half RF * sc ((cvf D nu)^T *m mxf D D S *m cvf D nu) - hl2p LR *+ D - hln LR (\det (mxf D D S)).

Let wk_L : mxf D D L = invmx (mxf D D S).
Proof. by apply: mxf_inv; rewrite detnE gt_eqF //; exact: spd_det_gt0. Qed.
Let wk_sL : spd (mxf D D L).
Proof. by rewrite wk_L; exact: spd_inv. Qed.
Let wk_SL : mxf D D S *m mxf D D L = 1%:M.
Proof. by rewrite wk_L mulmxV //; exact: spd_unit. Qed.
Let wk_nu : cvf D nu = mxf D D L *m cvf D mu.
Proof. by rewrite /nu cvf_mvec. Qed.

(* the log of the normal density is the exponent integrated by gauss_nd *)
Lemma wk_lnN (x : vecRF) :
  lnN LR (cvf D mu) (mxf D D S) (cvf D x) = (quadR D L nu x + c0)%coqR.
Proof.
rewrite quadR_tensor quadE dotE /lnN -wk_L /c0 wk_nu.
rewrite -RplusE !addrA; congr (_ - _ - _).
by rewrite LR_embE -(normal_quad _ _ wk_SL (proj1 wk_sL)) !mulNr.
Qed.

(* total mass one *)
Lemma wk_mass : exp (gvalR D L nu + c0)%coqR = 1.
Proof.
rewrite (gvalR_gval _ (spd_gpivR wk_sL)) -RplusE addrC.
rewrite (@gval_lngint _ LR D L nu c0 wk_sL) /lngint /c0 wk_L invmxK matrix.det_inv hlnV; last exact: spd_det_gt0.
rewrite opprK LR_embE.
set q := half RF * _; set h := hl2p LR *+ D; set d := hln LR _.
rewrite mulNr -/q.
have -> : - q - h - d + q + h + d = 0.
  by rewrite -!opprD -!addrA addNr.
exact: exp_0.
Qed.

Lemma wk_mean (l : vecRF) (l0 : R) : gmeanR D L nu l l0 = dot D l mu + l0.
Proof.
rewrite gmeanR_gmean (gmean_closed _ _ _ wk_sL) wk_L invmxK wk_nu addrC; congr (_ + _).
by rewrite /sc dotE -[_ *m _ *m (_ *m _)]mulmxA [mxf D D S *m _]mulmxA wk_SL mul1mx.
Qed.

Lemma wk_cov (l k : vecRF) : gcovR D L l k = dot D l (mvec D S k).
Proof. by rewrite gcovR_gcov (gcov_closed _ _ wk_sL) wk_L invmxK /sc dotE cvf_mvec mulmxA. Qed.

Theorem wick1_is_integral (f : aform R_fieldType) :
  is_gint D (fun x => (dot D f.1 x + f.2) * exp (lnN LR (cvf D mu) (mxf D D S) (cvf D x))) (gE D mu S [:: f]).
Proof.
have := gauss_nd_lin D L nu c0 f.1 f.2 (spd_symR wk_sL) (spd_gpivR wk_sL).
rewrite wk_mass wk_mean /gE E1 /fmean.
rewrite -RmultE mulr1.
by apply: is_gint_ext => x; rewrite wk_lnN linR_dot.
Qed.

Theorem wick2_is_integral (f g : aform R_fieldType) :
  is_gint D (fun x => (dot D f.1 x + f.2) * (dot D g.1 x + g.2) * exp (lnN LR (cvf D mu) (mxf D D S) (cvf D x)))
            (gE D mu S [:: f; g]).
Proof.
have := gauss_nd_lin2 D L nu c0 f.1 f.2 g.1 g.2 (spd_symR wk_sL) (spd_gpivR wk_sL).
rewrite wk_mass !wk_mean wk_cov /gE E2 /fmean /fcov.
rewrite -!RmultE mulr1 -!RplusE addrC.
by apply: is_gint_ext => x; rewrite wk_lnN !linR_dot.
Qed.

End WickInt.
Print Assumptions wick1_is_integral.
Print Assumptions wick2_is_integral.
Check wick1_is_integral.
Check wick2_is_integral.

(* ------------------------------------------------------------------ *)
(* 3. finite sums of integrals                                         *)
(* ------------------------------------------------------------------ *)
Lemma is_gint_zero D : is_gint D (fun _ => 0) 0.
Proof.
have := is_gint_scal _ _ _ 0 (GI_identity D).
by rewrite -!RmultE mul0r; apply: is_gint_ext => x; rewrite -RmultE mul0r.
Qed.

Lemma is_gint_sumn D K (f : nat -> vecRF -> R) (v : nat -> R) :
  (forall k, (k < K)%N -> is_gint D (f k) (v k)) ->
  is_gint D (fun x => sumn (F:=R_fieldType) K (fun k => f k x)) (sumn (F:=R_fieldType) K v).
Proof.
elim: K => [|K IH] H /=; first exact: is_gint_zero.
apply: is_gint_plus; last exact: H.
by apply: IH => k Hk; apply: H; exact: ltnW.
Qed.

(* ------------------------------------------------------------------ *)
(* 4. the model's linear and quadratic expectations (C03) are          *)
(*    integrals against the density object                             *)
(* ------------------------------------------------------------------ *)
Section Model.
Variable p : measure LR.
Variable r : nat.
Hypothesis Hp : pdf_ok p.
Hypothesis sS : spd (Sg p r).
Hypothesis Hr : (r < uR p)%N.
Notation D := (uD p).
Notation mu := (getmu p r).
Notation S := (getS p r).

Let S_sym : forall i j, (i < D)%N -> (j < D)%N -> S i j = S j i.
Proof. exact/symP/(proj1 sS). Qed.

Lemma ueval_lnN (x : vecRF) : ueval p r x = lnN LR (cvf D mu) (mxf D D S) (cvf D x).
Proof. exact: pdf_ok_eval. Qed.

(* E[(A x + a)_k] *)
Theorem E_linear_is_integral (A : matRF) (a : vecRF) k :
  is_gint D (fun x => (sumn D (fun i => A k i * x i) + a k) * exp (ueval p r x)) (E_linear D mu A a k).
Proof.
rewrite (@E_linear_wick _ D mu S A a k); apply: is_gint_ext (wick1_is_integral mu sS (rowf A a k)) => x.
by rewrite ueval_lnN.
Qed.

(* E[x_i x_j] *)
Theorem E_xxT_is_integral i j : (i < D)%N -> (j < D)%N ->
  is_gint D (fun x => x i * x j * exp (ueval p r x)) (E_xxT mu S i j).
Proof.
move=> Hi Hj; rewrite (E_xxT_wick mu S Hi Hj).
apply: is_gint_ext (wick2_is_integral mu sS (coordf _ i) (coordf _ j)) => x.
by rewrite ueval_lnN /= !dot_delta_l // !addr0.
Qed.

(* E[(A x + a)_k (B x + b)_l] *)
Theorem E_quadratic_outer_is_integral (A : matRF) (a : vecRF) (B : matRF) (b : vecRF) k l :
  is_gint D (fun x => (mvec D A x k + a k) * (mvec D B x l + b l) * exp (ueval p r x))
            (E_quadratic_outer D mu S A a B b k l).
Proof.
rewrite E_quadratic_outer_wick.
apply: is_gint_ext (wick2_is_integral mu sS (rowf A a k) (rowf B b l)) => x.
by rewrite ueval_lnN.
Qed.

(* E[(A x + a) . (B x + b)],  A, B : K x D *)
Theorem E_quadratic_inner_is_integral K (A : matRF) (a : vecRF) (B : matRF) (b : vecRF) :
  is_gint D (fun x => sumn K (fun k => (mvec D A x k + a k) * (mvec D B x k + b k)) * exp (ueval p r x))
            (E_quadratic_inner D mu S K A a B b).
Proof.
rewrite (E_quadratic_inner_wick mu S_sym).
have := @is_gint_sumn D K
  (fun k x => (mvec D A x k + a k) * (mvec D B x k + b k) * exp (ueval p r x))
  (fun k => gE D mu S [:: rowf A a k; rowf B b k]).
move=> H; apply: is_gint_ext (H _) => [x|k _]; first by rewrite sumnMr.
apply: is_gint_ext (wick2_is_integral mu sS (rowf A a k) (rowf B b k)) => x.
by rewrite ueval_lnN.
Qed.

End Model.
Check E_linear_is_integral.
Check E_xxT_is_integral.
Check E_quadratic_outer_is_integral.
Check E_quadratic_inner_is_integral.
Print Assumptions E_linear_is_integral.
Print Assumptions E_xxT_is_integral.
Print Assumptions E_quadratic_outer_is_integral.
Print Assumptions E_quadratic_inner_is_integral.

(* ------------------------------------------------------------------ *)
(* 5. sanity (non-vacuity): second moments of the standard normal      *)
(* ------------------------------------------------------------------ *)
Lemma std_normal_second_moment D i j : (i < D)%N -> (j < D)%N ->
  is_gint D (fun x => x i * x j * exp (lnN LR (0 : 'cV_D) (1%:M : 'M_D) (cvf D x))) (if i == j then 1 else 0).
Proof.
move=> Hi Hj.
have sI : spd (mxf D D (mid : matRF)) by rewrite mxf_id; exact: spd_1.
have := wick2_is_integral vzero sI (coordf _ i) (coordf _ j).
rewrite /gE E2 !fmean_coord // fcov_coord // /vzero mul0r add0r mxf_id cvf_zero /mid.
by apply: is_gint_ext => x; rewrite /= !dot_delta_l // !addr0.
Qed.
Print Assumptions std_normal_second_moment.
