(* GLUE, part 4: the expectation of a quadratic polynomial, the expected log-density ElnN (proofs/C1013_proofs.v, so far a
   DEFINITION of "E_{N(mu0,S0)}[ln N(x; mu, S)]"), entropy and KL divergence (props/C13.v), the expectation of the
   exponential of an affine form (C16) and the expected log-factor / log-conditional values (props/C14.v) ARE iterated
   improper Riemann integrals over R^D (trunc/GaussND.v) against the normal density, at Coq's real numbers. *)
From Coq Require Import Reals Lra Lia.
From GT Require Import GaussND GaussMom.

(* ---- pure stdlib-Reals facts (proved before MathComp's ring/field tactics shadow the stdlib ones) ---- *)
Lemma exp_addR (a b : R) : (exp a * exp b)%R = exp (a + b)%R.
Proof. symmetry. apply exp_plus. Qed.

From mathcomp Require Import all_ssreflect all_fingroup all_algebra.
From mathcomp Require Import ring.
From GT Require Import Tensor DetExec LogDom OLog RField MxTac MxLemmas Obj Factor Measure Pdf Cond Moments ExpLog EvalLemmas SPD Spec
  Wick C01_proofs PdfLemmas C04_proofs C05_proofs C1013_proofs C14_proofs C03a_proofs GIalg GImomalg GIreal GIreal3.
Set Implicit Arguments.
Unset Strict Implicit.
Unset Printing Implicit Defensive.
Local Close Scope R_scope.
Import GRing.Theory Num.Theory Order.Theory.
Local Open Scope ring_scope.

Lemma is_gint_ext_val D (f g : vecRF -> R) (v w : R) :
  (forall x, f x = g x) -> v = w -> is_gint D f v -> is_gint D g w.
Proof. by move=> Hf Hv H; apply: is_gint_val Hv _; apply: is_gint_ext Hf H. Qed.

Lemma is_gint_opp D (f : vecRF -> R) (v : R) : is_gint D f v -> is_gint D (fun x => - f x) (- v).
Proof.
move=> H; apply: is_gint_ext_val (is_gint_scal _ _ _ (-1) H) => [x|].
  by rewrite -RmultE mulN1r.
by rewrite -RmultE mulN1r.
Qed.

Lemma is_gint_sub D (f g : vecRF -> R) (v w : R) :
  is_gint D f v -> is_gint D g w -> is_gint D (fun x => f x - g x) (v - w).
Proof. by move=> Hf Hg; exact: (is_gint_plus _ _ _ _ _ Hf (is_gint_opp Hg)). Qed.

(* ------------------------------------------------------------------ *)
(* 1. a quadratic polynomial against a normal density                  *)
(* ------------------------------------------------------------------ *)
Section QuadPoly.
Variable D : nat.
Variables (mu0 : vecRF) (S0 : matRF) (Q : matRF) (q : vecRF) (q0 : R).
Hypothesis sS : spd (mxf D D S0).

Let S_sym : forall i j, (i < D)%N -> (j < D)%N -> S0 i j = S0 j i.
Proof. exact/symP/(proj1 sS). Qed.

Notation N0 := (fun x : vecRF => exp (lnN LR (cvf D mu0) (mxf D D S0) (cvf D x))).

(* the pure quadratic part: sum_i (Q x)_i x_i *)
Lemma quad_part_is_integral :
  is_gint D (fun x => sumn D (fun i => sumn D (fun j => Q i j * x i * x j)) * N0 x)
            (\tr (mxf D D Q *m mxf D D S0) + sc ((cvf D mu0)^T *m mxf D D Q *m cvf D mu0)).
Proof.
have H := @is_gint_sumn D D
  (fun i x => (dot D (rowf Q vzero i).1 x + (rowf Q vzero i).2) * (dot D (coordf _ i).1 x + (coordf _ i).2) * N0 x)
  (fun i => gE D mu0 S0 [:: rowf Q vzero i; coordf _ i]).
have {H} := H (fun i _ => wick2_is_integral mu0 sS (rowf Q vzero i) (coordf _ i)).
apply: is_gint_ext_val => [x|].
  rewrite sumnMr; congr (_ * _); apply: eq_sumn => i Hi.
  rewrite /= dot_delta_l // !addr0 /dot -sumnMr; apply: eq_sumn => j _.
  by rewrite mulrAC.
rewrite (eq_sumn (g := fun i => mmul D Q S0 i i + mvec D Q mu0 i * mu0 i)); last first.
  move=> i Hi; rewrite /gE E2 fmean_row fmean_coord // fcov_coordr // /aff /vadd /vzero addr0 addrC.
  by [].
rewrite sumnD -/(trace D (mmul D Q S0)) traceE mxf_mul; congr (_ + _).
by rewrite -/(dot D (mvec D Q mu0) mu0) dotC -/(quad D Q mu0) quadE.
Qed.

Theorem quad_poly_is_integral :
  is_gint D (fun x => (sumn D (fun i => sumn D (fun j => Q i j * x i * x j)) + sumn D (fun i => q i * x i) + q0)
                      * exp (lnN LR (cvf D mu0) (mxf D D S0) (cvf D x)))
            (\tr (mxf D D Q *m mxf D D S0) + sc ((cvf D mu0)^T *m mxf D D Q *m cvf D mu0)
             + sc ((cvf D q)^T *m cvf D mu0) + q0).
Proof.
have H1 := quad_part_is_integral.
have H2 := wick1_is_integral mu0 sS (q, q0).
have := is_gint_plus _ _ _ _ _ H1 H2.
apply: is_gint_ext_val => [x|].
  by rewrite -RplusE /= -mulrDl addrA.
by rewrite -!RplusE /gE E1 /fmean /= dotE !addrA.
Qed.

End QuadPoly.
Check quad_poly_is_integral.
Print Assumptions quad_poly_is_integral.

(* ------------------------------------------------------------------ *)
(* 2. ElnN mu0 S0 mu S is the integral of ln N(x; mu, S) against       *)
(*    N(x; mu0, S0)                                                    *)
(* ------------------------------------------------------------------ *)
Section ElnNInt.
Variable D : nat.
Variables (mu0 : vecRF) (S0 : matRF) (mu : vecRF) (S : matRF).
Hypothesis sS0 : spd (mxf D D S0).
Hypothesis sS : spd (mxf D D S).

Let L : matRF := minv D S.
Let nu : vecRF := mvec D L mu.
Let c0 : RF := - half RF * sc ((cvf D nu)^T *m mxf D D S *m cvf D nu) - hl2p LR *+ D - hln LR (\det (mxf D D S)).
Let Q : matRF := mscale (- half RF) L.

Let el_L : mxf D D L = invmx (mxf D D S).
Proof. by apply: mxf_inv; rewrite detnE gt_eqF //; exact: spd_det_gt0. Qed.
Let el_sL : spd (mxf D D L).
Proof. by rewrite el_L; exact: spd_inv. Qed.
Let el_SL : mxf D D S *m mxf D D L = 1%:M.
Proof. by rewrite el_L mulmxV //; exact: spd_unit. Qed.

(* the log-density is a quadratic polynomial in x *)
Lemma lnN_poly (x : vecRF) :
  lnN LR (cvf D mu) (mxf D D S) (cvf D x)
  = sumn D (fun i => sumn D (fun j => Q i j * x i * x j)) + sumn D (fun i => nu i * x i) + c0.
Proof.
rewrite (wk_lnN mu sS x) quadR_tensor -RplusE -/L -/nu -/c0; congr (_ + _ + _).
  rewrite /quad /dot /mvec -sumnMl; apply: eq_sumn => i _.
  rewrite mulrCA -sumnMl -sumnMl; apply: eq_sumn => j _.
  by rewrite /Q /mscale; ring.
by apply: eq_sumn => i _; rewrite mulrC.
Qed.

Theorem ElnN_is_integral :
  is_gint D (fun x => lnN LR (cvf D mu) (mxf D D S) (cvf D x) * exp (lnN LR (cvf D mu0) (mxf D D S0) (cvf D x)))
            (ElnN LR (cvf D mu0) (mxf D D S0) (cvf D mu) (mxf D D S)).
Proof.
have := quad_poly_is_integral mu0 Q nu c0 sS0.
apply: is_gint_ext_val => [x|]; first by rewrite lnN_poly.
rewrite /ElnN -el_L LR_embE /c0 /Q mxf_scale /nu cvf_mvec.
rewrite [in RHS]mulrDr -(normal_quad (cvf D mu) (cvf D mu0) el_SL (proj1 el_sL)).
rewrite -!RplusE -scalemxAl mxtraceZ -scalemxAr -scalemxAl /sc [X in _ + X + _ + _ = _]mxE.
set t := \tr _; set a := (_ *m _) 0 0; set b := (_ *m _) 0 0; set c := (_ *m _) 0 0.
set h := hl2p _ *+ _; set d := hln _ _.
have -> : b = ((cvf D mu0)^T *m (mxf D D L *m cvf D mu)) 0 0.
  by rewrite /b -[LHS]/(sc _) -PdfLemmas.sc_tr trmx_mul trmxK.
set b' := (_ *m _) 0 0.
clearbody t a b' c h d; ring.
Qed.

End ElnNInt.
Check ElnN_is_integral.
Print Assumptions ElnN_is_integral.

(* ------------------------------------------------------------------ *)
(* 3. C13 at the reals: entropy and KL divergence of density objects   *)
(* ------------------------------------------------------------------ *)
(* H(p) = - int p ln p *)
Theorem entropy_is_integral (p : measure LR) r : pdf_ok p -> spd (Sg p r) -> (r < uR p)%N ->
  is_gint (uD p) (fun x => - (ueval p r x * exp (ueval p r x))) (entropy p r).
Proof.
move=> Hp sS Hr; rewrite (entropy_spec Hp Hr).
apply: is_gint_ext (is_gint_opp (ElnN_is_integral (getmu p r) (getmu p r) sS sS)) => x.
by rewrite (ueval_lnN Hp Hr).
Qed.

(* KL(p0 || p1) = int p0 (ln p0 - ln p1); the two addressed components exist *)
Theorem kl_is_integral_gen (p0 p1 : measure LR) k : pdf_ok p0 -> pdf_ok p1 -> uD p0 = uD p1 ->
  let r0 := bidx (uR p0) k in let r1 := bidx (uR p1) k in
  (r0 < uR p0)%N -> (r1 < uR p1)%N -> spd (Sg p0 r0) -> spd (Sg p1 r1) ->
  is_gint (uD p0) (fun x => (ueval p0 r0 x - ueval p1 r1 x) * exp (ueval p0 r0 x)) (kl_divergence p0 p1 k).
Proof.
move=> H0 H1 HD r0 r1 Hr0 Hr1 sS0 sS1.
rewrite (kl_gen H0 H1 HD Hr0 Hr1) -/r0 -/r1.
have sS1' : spd (mxf (uD p0) (uD p0) (getS p1 r1)) by move: sS1; rewrite /Sg -HD.
have E1 x : ueval p1 r1 x = lnN LR (cvf (uD p0) (getmu p1 r1)) (mxf (uD p0) (uD p0) (getS p1 r1)) (cvf (uD p0) x).
  by have := ueval_lnN H1 Hr1 x; rewrite /muv /Sg -HD.
have I0 := ElnN_is_integral (getmu p0 r0) (getmu p0 r0) sS0 sS0.
have I1 := ElnN_is_integral (getmu p0 r0) (getmu p1 r1) sS0 sS1'.
apply: is_gint_ext (is_gint_sub I0 I1) => x.
by rewrite E1 (ueval_lnN H0 Hr0) -mulrBl.
Qed.

(* under the hypotheses of C13_kl (a single-component operand is broadcast) *)
Theorem kl_is_integral (p0 p1 : measure LR) k : pdf_ok p0 -> pdf_ok p1 -> uD p0 = uD p1 ->
  (0 < uR p0)%N -> (0 < uR p1)%N -> (k < maxn (uR p0) (uR p1))%N ->
  (uR p0 == uR p1) || (uR p0 == 1%N) || (uR p1 == 1%N) ->
  let r0 := bidx (uR p0) k in let r1 := bidx (uR p1) k in
  spd (Sg p0 r0) -> spd (Sg p1 r1) ->
  is_gint (uD p0) (fun x => (ueval p0 r0 x - ueval p1 r1 x) * exp (ueval p0 r0 x)) (kl_divergence p0 p1 k).
Proof.
move=> H0 H1 HD R0 R1 Hk Hb r0 r1 sS0 sS1.
have [Hr0 Hr1] := bidx_lt2 R0 R1 Hk Hb.
exact: kl_is_integral_gen.
Qed.
Check entropy_is_integral.
Check kl_is_integral_gen.
Check kl_is_integral.
Print Assumptions entropy_is_integral.
Print Assumptions kl_is_integral.

(* ------------------------------------------------------------------ *)
(* 4. C16 ingredient: the expectation of the exponential of an affine  *)
(*    form (moment generating function) is a Gaussian integral         *)
(* ------------------------------------------------------------------ *)
Lemma half_RF : half RF = (/ 2)%coqR.
Proof. by rewrite /half two_E RinvE. Qed.

Lemma dot_vaddr D (x u v : vecRF) : dot D x (vadd u v) = dot D x u + dot D x v.
Proof. by rewrite /dot /vadd -sumnD; apply: eq_sumn => i _; rewrite mulrDr. Qed.

Section ExpAffine.
Variable D : nat.
Variables (mu : vecRF) (S : matRF) (w : vecRF) (w0 : R).
Hypothesis sS : spd (mxf D D S).

Let L : matRF := minv D S.
Let nu : vecRF := mvec D L mu.
Let c0 : RF := - half RF * sc ((cvf D nu)^T *m mxf D D S *m cvf D nu) - hl2p LR *+ D - hln LR (\det (mxf D D S)).

Let ea_L : mxf D D L = invmx (mxf D D S).
Proof. by apply: mxf_inv; rewrite detnE gt_eqF //; exact: spd_det_gt0. Qed.
Let ea_sL : spd (mxf D D L).
Proof. by rewrite ea_L; exact: spd_inv. Qed.
Let ea_SL : mxf D D S *m mxf D D L = 1%:M.
Proof. by rewrite ea_L mulmxV //; exact: spd_unit. Qed.

Theorem exp_affine_is_integral :
  is_gint D (fun x => exp (dot D w x + w0) * exp (lnN LR (cvf D mu) (mxf D D S) (cvf D x)))
            (exp (dot D w mu + w0 + / 2 * sc ((cvf D w)^T *m mxf D D S *m cvf D w))).
Proof.
have := GI_is_integral (vadd nu w) (c0 + w0) ea_sL.
apply: is_gint_ext_val => [x|].
  rewrite [RHS]RmultE exp_addR; apply: (f_equal exp).
  rewrite (wk_lnN mu sS x) !quadR_tensor -!RplusE -/L -/nu -/c0 dot_vaddr (@dotC _ D w x).
  set a := _ * quad _ _ _; set b := dot _ _ _; set c := dot _ _ _; clearbody a b c c0; ring.
apply: (f_equal exp).
rewrite /lngint ea_L invmxK matrix.det_inv hlnV; last exact: spd_det_gt0.
rewrite LR_embE cvf_add /c0 -half_RF.
have Snu : mxf D D S *m cvf D nu = cvf D mu by rewrite /nu cvf_mvec mulmxA ea_SL mul1mx.
have E1 : sc ((cvf D nu)^T *m mxf D D S *m cvf D w) = sc ((cvf D w)^T *m cvf D mu).
  by rewrite -PdfLemmas.sc_tr !trmx_mul trmxK (proj1 sS) Snu.
rewrite [(_ + _)^T]linearD /= !mulmxDl !mulmxDr !PdfLemmas.scD E1 -![_ *m _ *m cvf D nu]mulmxA !Snu dotE -/(sc _) -!RplusE -!RmultE.
set A := sc _; set B := sc _; set E := sc _; set h := Rol2p *+ _; set d := Roln _.
clearbody A B E h d; by rewrite /half; field.
Qed.

End ExpAffine.
Check exp_affine_is_integral.
Print Assumptions exp_affine_is_integral.

(* ------------------------------------------------------------------ *)
(* 5. C14 at the reals                                                 *)
(* ------------------------------------------------------------------ *)
Section QuadInner.
Variable D : nat.
Variables (mu : vecRF) (S : matRF).
Hypothesis sS : spd (mxf D D S).

Let S_sym : forall i j, (i < D)%N -> (j < D)%N -> S i j = S j i.
Proof. exact/symP/(proj1 sS). Qed.

Notation N0 := (fun x : vecRF => exp (lnN LR (cvf D mu) (mxf D D S) (cvf D x))).

(* a normal density has total mass one *)
Theorem lnN_integrates_to_one : is_gint D N0 1.
Proof.
have := wick1_is_integral mu sS (vzero, 1).
apply: is_gint_ext_val => [x|].
  by rewrite /= /dot /vzero (eq_sumn (g := fun _ => 0)) ?sumn0 ?add0r ?mul1r // => i _; rewrite mul0r.
by rewrite /gE E1 /fmean /= /dot /vzero (eq_sumn (g := fun _ => 0)) ?sumn0 ?add0r // => i _; rewrite mul0r.
Qed.

(* E[(A x + a) . (B x + b)],  A, B : K x D  (E_quadratic_inner_is_integral without a density object) *)
Theorem quad_inner_is_integral K (A : matRF) (a : vecRF) (B : matRF) (b : vecRF) :
  is_gint D (fun x => sumn K (fun k => (mvec D A x k + a k) * (mvec D B x k + b k)) * N0 x)
            (E_quadratic_inner D mu S K A a B b).
Proof.
rewrite (E_quadratic_inner_wick mu S_sym).
have := @is_gint_sumn D K
  (fun k x => (mvec D A x k + a k) * (mvec D B x k + b k) * N0 x)
  (fun k => gE D mu S [:: rowf A a k; rowf B b k]).
move=> H; apply: is_gint_ext (H _) => [x|k _]; first by rewrite sumnMr.
exact: (wick2_is_integral mu sS (rowf A a k) (rowf B b k)).
Qed.

(* Equad m S A a L = E_{N(m,S)}[(A x + a)' L (A x + a)] *)
Theorem Equad_is_integral K (A : matRF) (a : vecRF) (Lm : matRF) :
  is_gint D (fun x => sc ((mxf K D A *m cvf D x + cvf K a)^T *m mxf K K Lm *m (mxf K D A *m cvf D x + cvf K a)) * N0 x)
            (Equad (cvf D mu) (mxf D D S) (mxf K D A) (cvf K a) (mxf K K Lm)).
Proof.
have := quad_inner_is_integral K A a (mmul K Lm A) (mvec K Lm a).
apply: is_gint_ext_val => [x|].
  congr (_ * _).
  rewrite -/(dot K (vadd (mvec D A x) a) (vadd (mvec D (mmul K Lm A) x) (mvec K Lm a))).
  by rewrite dotE !cvf_add !cvf_mvec mxf_mul -mulmxA -mulmxDr mulmxA.
rewrite E_quadratic_inner_mx cvf_mvec mxf_mul /Equad; congr (_ + _).
  by rewrite !mulmxA.
by rewrite -[_ *m _ *m cvf D mu]mulmxA -mulmxDr mulmxA.
Qed.

End QuadInner.
Check lnN_integrates_to_one.
Check quad_inner_is_integral.
Check Equad_is_integral.
Print Assumptions Equad_is_integral.

Lemma mvec_mid D (x : vecRF) k : (k < D)%N -> mvec D mid x k = x k.
Proof.
move=> Hk; rewrite /mvec -[RHS](sumn_delta_l x Hk); apply: eq_sumn => j _.
by rewrite /mid; case: (k == j).
Qed.

(* C14_expected_log_factor for a DENSITY u: int_log_factor u f r = E_{u_r}[ln f(x)] *)
Theorem int_log_factor_is_integral (u : measure LR) (f : factor LR) r :
  pdf_ok u -> uD u = fD f -> (r < uR u)%N -> spd (Sg u r) ->
  is_gint (uD u) (fun x => feval f (bidx (fR f) r) x * exp (ueval u r x)) (int_log_factor u f r).
Proof.
move=> Hu HD Hr sS; set rf := bidx (fR f) r.
rewrite /int_log_factor (prepare_pdf Hu Hr) -/rf.
have I1 := quad_inner_is_integral (getmu u r) sS (uD u) mid vzero (fLam f rf) vzero.
have I2 := wick1_is_integral (getmu u r) sS (fnu f rf, flb f rf).
have := is_gint_plus _ _ _ _ _ (is_gint_scal _ _ _ (- half RF) I1) I2.
apply: is_gint_ext_val => [x|].
  rewrite (ueval_lnN Hu Hr) /feval /eval_core -HD LR_embE /= -!RplusE -!RmultE mulrA -mulrDl; congr (_ * _).
  rewrite addrA; congr (_ * _ + _ + _); last exact: dotC.
  rewrite /quad /dot; apply: eq_sumn => k Hk.
  by rewrite mvec_mid // /vzero !addr0.
by rewrite LR_embE /gE E1 /fmean /= -!RplusE ?addrA.
Qed.
Check int_log_factor_is_integral.
Print Assumptions int_log_factor_is_integral.

(* C14_expected_log_conditional_y at the reals: int_log_cond_y c p ys k = E_{p(x)}[ln p(y|x)] *)
Theorem int_log_cond_y_is_integral (c : cond LR) (p : measure LR) (ys : seq vecRF) k :
  cond_ok c -> pdf_ok p -> cDx c = uD p -> cR c = 1%N ->
  (bidx (uR p) k < uR p)%N -> (bidx (size ys) k < size ys)%N ->
  let rp := bidx (uR p) k in let y := nth vzero ys (bidx (size ys) k) in
  spd (Sg p rp) ->
  is_gint (cDx c) (fun x => ueval (condition_on_x c [:: x]) 0%N y * exp (ueval p rp x)) (int_log_cond_y c p ys k).
Proof.
move=> Hc Hp HD HR Hrp Hys rp y sS.
rewrite (int_log_cond_y_spec Hc Hp HD HR Hrp Hys) -/rp -/y.
have H0 : (0 < cR c)%N by rewrite HR.
have [SL Lsym _ Hh _] := Hc 0%N H0.
have EL : cLm c 0 = invmx (cSg c 0) by apply: inv_unique; apply: mulmx1C.
have sS' : spd (mxf (cDx c) (cDx c) (getS p rp)) by move: sS; rewrite /Sg -HD.
have EN x : ueval p rp x = lnN LR (cvf (cDx c) (getmu p rp)) (mxf (cDx c) (cDx c) (getS p rp)) (cvf (cDx c) x).
  by have := ueval_lnN Hp Hrp x; rewrite /muv /Sg -HD.
set cst : R := - (hl2p LR *+ cDy c) - hln LR (\det (cSg c 0)).
have I1 := Equad_is_integral (getmu p rp) sS' (cDy c) (mopp (effM c 0%N)) (vsub y (effb c 0%N)) (cLam c 0%N).
have I2 := lnN_integrates_to_one (getmu p rp) sS'.
have := is_gint_plus _ _ _ _ _ (is_gint_scal _ _ _ (- half RF) I1) (is_gint_scal _ _ _ cst I2).
apply: is_gint_ext_val => [x|].
  rewrite EN -!RplusE -!RmultE mulrA -mulrDl; congr (_ * _).
  have -> : ueval (condition_on_x c [:: x]) 0 y = lnN LR (cMm c 0 *m cvf (cDx c) x + cbv c 0) (cSg c 0) (cvf (cDy c) y).
    exact: (condition_on_x_eval (xs:=[:: x]) (n:=0) y Hc H0 isT).
  have E : - cMm c 0 *m cvf (cDx c) x + (cvf (cDy c) y - cbv c 0) = cvf (cDy c) y - (cMm c 0 *m cvf (cDx c) x + cbv c 0).
    by rewrite mulNmx opprD addrCA.
  rewrite /lnN LR_embE -EL /cLm /cst mxf_opp cvf_sub -/(cbv c 0) -/(cMm c 0) E.
  by rewrite !addrA.
rewrite LR_embE -EL /cLm /cst mxf_opp cvf_sub -/(cbv c 0) -/(cMm c 0) -!RplusE -!RmultE mulr1.
by rewrite !addrA.
Qed.
Check int_log_cond_y_is_integral.
Print Assumptions int_log_cond_y_is_integral.

(* C14_expected_log_conditional at the reals: for a density q over z = (y, x) (y first),
   int_log_cond c q k = E_{q(y,x)}[ln p(y|x)] *)
Lemma cvf_split_tail dy dx (z : vecRF) :
  cvf (dy + dx) z = col_mx (cvf dy z) (cvf dx (fun i => z (dy + i)%N)).
Proof.
rewrite -cvf_cat; apply/cvfP => i Hi; rewrite /vcat.
by case: ltnP => // Hle; rewrite subnKC.
Qed.

Theorem int_log_cond_is_integral (c : cond LR) (q : measure LR) k :
  cond_ok c -> pdf_ok q -> uD q = (cDy c + cDx c)%N ->
  (bidx (cR c) k < cR c)%N -> (bidx (uR q) k < uR q)%N ->
  let r := bidx (cR c) k in let rq := bidx (uR q) k in
  spd (Sg q rq) ->
  is_gint (cDy c + cDx c)
          (fun z => ueval (condition_on_x c [:: (fun i => z (cDy c + i)%N)]) (r * 1 + 0) z * exp (ueval q rq z))
          (int_log_cond c q k).
Proof.
move=> Hc Hq HD Hr Hrq r rq sS.
rewrite (int_log_cond_spec Hc Hq HD Hr Hrq) -/r -/rq.
have [SL Lsym _ Hh _] := Hc r Hr.
have EL : cLm c r = invmx (cSg c r) by apply: inv_unique; apply: mulmx1C.
set Dz := (cDy c + cDx c)%N in HD *.
have sS' : spd (mxf Dz Dz (getS q rq)) by move: sS; rewrite /Sg HD.
have EN z : ueval q rq z = lnN LR (cvf Dz (getmu q rq)) (mxf Dz Dz (getS q rq)) (cvf Dz z).
  by have := ueval_lnN Hq Hrq z; rewrite /muv /Sg HD.
set cst : R := - (hl2p LR *+ cDy c) - hln LR (\det (cSg c r)).
have I1 := Equad_is_integral (getmu q rq) sS' (cDy c) (ilc_A c r) (vopp (effb c r)) (cLam c r).
have I2 := lnN_integrates_to_one (getmu q rq) sS'.
have := is_gint_plus _ _ _ _ _ (is_gint_scal _ _ _ (- half RF) I1) (is_gint_scal _ _ _ cst I2).
apply: is_gint_ext_val => [z|].
  rewrite EN -!RplusE -!RmultE mulrA -mulrDl; congr (_ * _).
  set xz : vecRF := fun i => z (cDy c + i)%N.
  have -> : ueval (condition_on_x c [:: xz]) (r * 1 + 0) z
            = lnN LR (cMm c r *m cvf (cDx c) xz + cbv c r) (cSg c r) (cvf (cDy c) z).
    exact: (condition_on_x_eval (xs:=[:: xz]) (n:=0) z Hc Hr isT).
  have E : row_mx 1%:M (- cMm c r) *m cvf Dz z + - cbv c r = cvf (cDy c) z - (cMm c r *m cvf (cDx c) xz + cbv c r).
    by rewrite /Dz cvf_split_tail mul_row_col mul1mx mulNmx -/xz opprD addrA.
  rewrite /lnN LR_embE -EL /cLm /cst mxf_ilc_A cvf_opp -/(cbv c r) E.
  by rewrite !addrA.
rewrite LR_embE -EL /cLm /cst mxf_ilc_A cvf_opp -/(cbv c r) -!RplusE -!RmultE mulr1.
by rewrite !addrA.
Qed.
Check int_log_cond_is_integral.
Print Assumptions int_log_cond_is_integral.

(* ------------------------------------------------------------------ *)
(* 6. density-object form of 4, and sanity (non-vacuity)               *)
(* ------------------------------------------------------------------ *)
Theorem exp_affine_density_is_integral (p : measure LR) r (w : vecRF) (w0 : R) :
  pdf_ok p -> spd (Sg p r) -> (r < uR p)%N ->
  is_gint (uD p) (fun x => exp (dot (uD p) w x + w0) * exp (ueval p r x))
          (exp (dot (uD p) w (getmu p r) + w0 + / 2 * sc ((cvf (uD p) w)^T *m Sg p r *m cvf (uD p) w))).
Proof.
move=> Hp sS Hr; apply: is_gint_ext (exp_affine_is_integral (getmu p r) w w0 sS) => x.
by rewrite (ueval_lnN Hp Hr).
Qed.

(* the differential entropy of the standard normal in dimension D is D/2 + D * (1/2) ln 2 pi *)
Lemma std_normal_entropy D :
  is_gint D (fun x => - (lnN LR (0 : 'cV_D) (1%:M : 'M_D) (cvf D x) * exp (lnN LR (0 : 'cV_D) (1%:M : 'M_D) (cvf D x))))
            (half RF * D%:R + hl2p LR *+ D).
Proof.
have sI : spd (mxf D D (mid : matRF)) by rewrite mxf_id; exact: spd_1.
have := is_gint_opp (ElnN_is_integral vzero vzero sI sI).
rewrite mxf_id cvf_zero; apply: is_gint_val.
rewrite /ElnN invmx1 mul1mx mxtrace1 subrr trmx0 !mul0mx /sc mxE addr0 det1 hln1 subr0 LR_embE.
by rewrite -RoppE -RplusE mulNr -opprD opprK.
Qed.
Check exp_affine_density_is_integral.
Print Assumptions exp_affine_density_is_integral.
Print Assumptions std_normal_entropy.
