(* GLUE, part 5: the Isserlis / Wick moments of order three and four (proofs/Wick.v: gE) ARE iterated improper Riemann
   integrals of (product of three / four affine forms) x (normal density) over R^D (trunc/GaussMom4.v), and so are the
   model's E_xbxx, E_cubic_outer, E_cubic_inner, E_cubic_outer_general, E_quartic_outer, E_quartic_inner (props/C03.v). *)
From Coq Require Import Reals Lra Lia.
From GT Require Import GaussND GaussMom GaussMom4.

From mathcomp Require Import all_ssreflect all_fingroup all_algebra.
From mathcomp Require Import ring.
From GT Require Import Tensor DetExec LogDom OLog RField MxTac MxLemmas Obj Factor Measure Pdf Cond Moments EvalLemmas SPD Spec
  Wick C01_proofs PdfLemmas C04_proofs C05_proofs C03a_proofs C03b_proofs GIalg GImomalg GIreal GIreal3.
Set Implicit Arguments.
Unset Strict Implicit.
Unset Printing Implicit Defensive.
Local Close Scope R_scope.
Import GRing.Theory Num.Theory Order.Theory.
Local Open Scope ring_scope.

(* ------------------------------------------------------------------ *)
(* 1. Wick moments of order three and four are integrals               *)
(* ------------------------------------------------------------------ *)
Section WickInt4.
Variable D : nat.
Variables (mu : vecRF) (S : matRF).
Hypothesis sS : spd (mxf D D S).

Let L : matRF := minv D S.
Let nu : vecRF := mvec D L mu.
Let c0 : RF := - half RF * sc ((cvf D nu)^T *m mxf D D S *m cvf D nu) - hl2p LR *+ D - hln LR (\det (mxf D D S)).

Let wk_L : mxf D D L = invmx (mxf D D S).
Proof. by apply: mxf_inv; rewrite detnE gt_eqF //; exact: spd_det_gt0. Qed.
Let wk_sL : spd (mxf D D L).
Proof. by rewrite wk_L; exact: spd_inv. Qed.

Theorem wick3_is_integral (f g h : aform R_fieldType) :
  is_gint D (fun x => (dot D f.1 x + f.2) * (dot D g.1 x + g.2) * (dot D h.1 x + h.2)
                      * exp (lnN LR (cvf D mu) (mxf D D S) (cvf D x)))
            (gE D mu S [:: f; g; h]).
Proof.
have := gauss_nd_lin3 D L nu c0 f.1 f.2 g.1 g.2 h.1 h.2 (spd_symR wk_sL) (spd_gpivR wk_sL).
rewrite (wk_mass mu sS) !(wk_mean mu sS) !(wk_cov sS) /gE E3 /fmean /fcov.
rewrite -!RmultE mulr1 -!RplusE.
by apply: is_gint_ext => x; rewrite (wk_lnN mu sS) !linR_dot.
Qed.

Theorem wick4_is_integral (f g h k : aform R_fieldType) :
  is_gint D (fun x => (dot D f.1 x + f.2) * (dot D g.1 x + g.2) * (dot D h.1 x + h.2) * (dot D k.1 x + k.2)
                      * exp (lnN LR (cvf D mu) (mxf D D S) (cvf D x)))
            (gE D mu S [:: f; g; h; k]).
Proof.
have := gauss_nd_lin4 D L nu c0 f.1 f.2 g.1 g.2 h.1 h.2 k.1 k.2 (spd_symR wk_sL) (spd_gpivR wk_sL).
rewrite (wk_mass mu sS) !(wk_mean mu sS) !(wk_cov sS) /gE E4 /fmean /fcov.
rewrite -!RmultE mulr1 -!RplusE.
by apply: is_gint_ext => x; rewrite (wk_lnN mu sS) !linR_dot.
Qed.

End WickInt4.
Print Assumptions wick3_is_integral.
Print Assumptions wick4_is_integral.
Check wick3_is_integral.
Check wick4_is_integral.

(* ------------------------------------------------------------------ *)
(* 2. products of finite sums, pointwise                               *)
(* ------------------------------------------------------------------ *)
Lemma sumn2_prod K L (f g : nat -> R) (e : R) :
  sumn (F:=R_fieldType) K (fun k => sumn (F:=R_fieldType) L (fun l => f k * g l * e))
  = sumn (F:=R_fieldType) K f * sumn (F:=R_fieldType) L g * e.
Proof.
rewrite (eq_sumn (g := fun k => f k * (sumn (F:=R_fieldType) L g * e))); first by rewrite sumnMr mulrA.
by move=> k _; rewrite sumnMr sumnMl mulrA.
Qed.

(* ------------------------------------------------------------------ *)
(* 3. the model's cubic and quartic expectations (C03) are integrals   *)
(*    against the density object                                       *)
(* ------------------------------------------------------------------ *)
Section Model4.
Variable p : measure LR.
Variable r : nat.
Hypothesis Hp : pdf_ok p.
Hypothesis sS : spd (Sg p r).
Hypothesis Hr : (r < uR p)%N.
Notation D := (uD p).
Notation mu := (getmu p r).
Notation S := (getS p r).

Let S_sym : forall i j, (i < D)%N -> (j < D)%N -> S i j = S j i.
Proof. exact/symP/(proj1 sS). Qed.

Let ueval_lnN' (x : vecRF) : ueval p r x = lnN LR (cvf D mu) (mxf D D S) (cvf D x).
Proof. exact: pdf_ok_eval. Qed.

(* E[x_i (b.x) x_j] *)
Theorem E_xbxx_is_integral (b : vecRF) i j : (i < D)%N -> (j < D)%N ->
  is_gint D (fun x => x i * dot D b x * x j * exp (ueval p r x)) (E_xbxx D mu S b i j).
Proof.
move=> Hi Hj; rewrite (E_xbxx_wick mu S b Hi Hj).
apply: is_gint_ext (wick3_is_integral mu sS (coordf _ i) (b, 0) (coordf _ j)) => x.
by rewrite ueval_lnN' /= !dot_delta_l // !addr0.
Qed.

(* E[x_i (A.x + a) x_j] *)
Theorem E_cubic_outer_is_integral (A : vecRF) (a : R) i j : (i < D)%N -> (j < D)%N ->
  is_gint D (fun x => x i * (dot D A x + a) * x j * exp (ueval p r x)) (E_cubic_outer D mu S A a i j).
Proof.
move=> Hi Hj; rewrite (E_cubic_outer_wick mu S A a Hi Hj).
apply: is_gint_ext (wick3_is_integral mu sS (coordf _ i) (A, a) (coordf _ j)) => x.
by rewrite ueval_lnN' /= !dot_delta_l // !addr0.
Qed.

(* E[(A x + a)_k ((B x + b) . (C x + c))],  B, C : L x D *)
Theorem E_cubic_inner_is_integral L (A : matRF) (a : vecRF) (B : matRF) (b : vecRF) (C : matRF) (c : vecRF) k :
  is_gint D (fun x => (mvec D A x k + a k) * sumn L (fun l => (mvec D B x l + b l) * (mvec D C x l + c l))
                      * exp (ueval p r x))
            (E_cubic_inner D mu S L A a B b C c k).
Proof.
rewrite E_cubic_inner_wick.
have := @is_gint_sumn D L
  (fun l x => (mvec D A x k + a k) * (mvec D B x l + b l) * (mvec D C x l + c l) * exp (ueval p r x))
  (fun l => gE D mu S [:: rowf A a k; rowf B b l; rowf C c l]).
move=> H; apply: is_gint_ext (H _) => [x|l _].
  rewrite sumnMr; congr (_ * _); rewrite -sumnMl; apply: eq_sumn => l _; by rewrite mulrA.
apply: is_gint_ext (wick3_is_integral mu sS (rowf A a k) (rowf B b l) (rowf C c l)) => x.
by rewrite ueval_lnN'.
Qed.

(* E[((A x + a) . (B x + b)) (C x + c)_l],  A, B : K x D *)
Theorem E_cubic_outer_general_is_integral K (A : matRF) (a : vecRF) (B : matRF) (b : vecRF) (C : matRF) (c : vecRF) l :
  is_gint D (fun x => sumn K (fun k => (mvec D A x k + a k) * (mvec D B x k + b k)) * (mvec D C x l + c l)
                      * exp (ueval p r x))
            (E_cubic_outer_general D mu S K A a B b C c l).
Proof.
rewrite E_cubic_outer_general_wick.
have := @is_gint_sumn D K
  (fun k x => (mvec D A x k + a k) * (mvec D B x k + b k) * (mvec D C x l + c l) * exp (ueval p r x))
  (fun k => gE D mu S [:: rowf A a k; rowf B b k; rowf C c l]).
move=> H; apply: is_gint_ext (H _) => [x|k _].
  by rewrite sumnMr; congr (_ * _); rewrite sumnMr.
apply: is_gint_ext (wick3_is_integral mu sS (rowf A a k) (rowf B b k) (rowf C c l)) => x.
by rewrite ueval_lnN'.
Qed.

(* E[(A x + a)_k ((B x + b) . (C x + c)) (Dm x + d)_m],  B, C : L x D *)
Theorem E_quartic_outer_is_integral L (A : matRF) (a : vecRF) (B : matRF) (b : vecRF) (C : matRF) (c : vecRF)
    (Dm : matRF) (d : vecRF) k m :
  is_gint D (fun x => (mvec D A x k + a k) * sumn L (fun l => (mvec D B x l + b l) * (mvec D C x l + c l))
                      * (mvec D Dm x m + d m) * exp (ueval p r x))
            (E_quartic_outer D mu S L A a B b C c Dm d k m).
Proof.
rewrite E_quartic_outer_wick.
have := @is_gint_sumn D L
  (fun l x => (mvec D A x k + a k) * (mvec D B x l + b l) * (mvec D C x l + c l) * (mvec D Dm x m + d m)
              * exp (ueval p r x))
  (fun l => gE D mu S [:: rowf A a k; rowf B b l; rowf C c l; rowf Dm d m]).
move=> H; apply: is_gint_ext (H _) => [x|l _].
  rewrite sumnMr; congr (_ * _); rewrite sumnMr; congr (_ * _).
  by rewrite -sumnMl; apply: eq_sumn => l _; rewrite mulrA.
apply: is_gint_ext (wick4_is_integral mu sS (rowf A a k) (rowf B b l) (rowf C c l) (rowf Dm d m)) => x.
by rewrite ueval_lnN'.
Qed.

(* E[((A x + a) . (B x + b)) ((C x + c) . (Dm x + d))],  A, B : K x D, C, Dm : L x D *)
Theorem E_quartic_inner_is_integral K L (A : matRF) (a : vecRF) (B : matRF) (b : vecRF) (C : matRF) (c : vecRF)
    (Dm : matRF) (d : vecRF) :
  is_gint D (fun x => sumn K (fun k => (mvec D A x k + a k) * (mvec D B x k + b k))
                      * sumn L (fun l => (mvec D C x l + c l) * (mvec D Dm x l + d l)) * exp (ueval p r x))
            (E_quartic_inner D mu S K L A a B b C c Dm d).
Proof.
rewrite (E_quartic_inner_wick mu S_sym).
have HL k : (k < K)%N ->
  is_gint D (fun x => sumn L (fun l => (mvec D A x k + a k) * (mvec D B x k + b k) * (mvec D C x l + c l)
                                       * (mvec D Dm x l + d l) * exp (ueval p r x)))
            (sumn L (fun l => gE D mu S [:: rowf A a k; rowf B b k; rowf C c l; rowf Dm d l])).
  move=> _.
  apply: (@is_gint_sumn D L
    (fun l x => (mvec D A x k + a k) * (mvec D B x k + b k) * (mvec D C x l + c l) * (mvec D Dm x l + d l)
                * exp (ueval p r x))
    (fun l => gE D mu S [:: rowf A a k; rowf B b k; rowf C c l; rowf Dm d l])) => l _.
  apply: is_gint_ext (wick4_is_integral mu sS (rowf A a k) (rowf B b k) (rowf C c l) (rowf Dm d l)) => x.
  by rewrite ueval_lnN'.
have := @is_gint_sumn D K
  (fun k x => sumn L (fun l => (mvec D A x k + a k) * (mvec D B x k + b k) * (mvec D C x l + c l)
                               * (mvec D Dm x l + d l) * exp (ueval p r x)))
  (fun k => sumn L (fun l => gE D mu S [:: rowf A a k; rowf B b k; rowf C c l; rowf Dm d l])) HL.
apply: is_gint_ext => x.
rewrite -sumn2_prod; apply: eq_sumn => k _; apply: eq_sumn => l _.
by rewrite -!mulrA.
Qed.

End Model4.
Check E_xbxx_is_integral.
Check E_cubic_outer_is_integral.
Check E_cubic_inner_is_integral.
Check E_cubic_outer_general_is_integral.
Check E_quartic_outer_is_integral.
Check E_quartic_inner_is_integral.
Print Assumptions E_xbxx_is_integral.
Print Assumptions E_cubic_outer_is_integral.
Print Assumptions E_cubic_inner_is_integral.
Print Assumptions E_cubic_outer_general_is_integral.
Print Assumptions E_quartic_outer_is_integral.
Print Assumptions E_quartic_inner_is_integral.

(* ------------------------------------------------------------------ *)
(* 4. sanity (non-vacuity): third and fourth moments of the standard   *)
(*    normal: E[x_i x_j x_k] = 0, E[x_i x_j x_k x_l] = Isserlis         *)
(* ------------------------------------------------------------------ *)
Lemma std_normal_third_moment D i j k : (i < D)%N -> (j < D)%N -> (k < D)%N ->
  is_gint D (fun x => x i * x j * x k * exp (lnN LR (0 : 'cV_D) (1%:M : 'M_D) (cvf D x))) 0.
Proof.
move=> Hi Hj Hk.
have sI : spd (mxf D D (mid : matRF)) by rewrite mxf_id; exact: spd_1.
have := wick3_is_integral vzero sI (coordf _ i) (coordf _ j) (coordf _ k).
rewrite /gE E3 !fmean_coord // /vzero !(mul0r, mulr0, add0r) mxf_id cvf_zero.
by apply: is_gint_ext => x; rewrite /= !dot_delta_l // !addr0.
Qed.

Lemma std_normal_fourth_moment D i j k l : (i < D)%N -> (j < D)%N -> (k < D)%N -> (l < D)%N ->
  is_gint D (fun x => x i * x j * x k * x l * exp (lnN LR (0 : 'cV_D) (1%:M : 'M_D) (cvf D x)))
            ((if i == j then 1 else 0) * (if k == l then 1 else 0) + (if i == k then 1 else 0) * (if j == l then 1 else 0)
             + (if i == l then 1 else 0) * (if j == k then 1 else 0)).
Proof.
move=> Hi Hj Hk Hl.
have sI : spd (mxf D D (mid : matRF)) by rewrite mxf_id; exact: spd_1.
have := wick4_is_integral vzero sI (coordf _ i) (coordf _ j) (coordf _ k) (coordf _ l).
rewrite /gE E4 !fmean_coord // !fcov_coord // /vzero !(mul0r, mulr0, add0r) mxf_id cvf_zero /mid.
by apply: is_gint_ext => x; rewrite /= !dot_delta_l // !addr0.
Qed.
Print Assumptions std_normal_fourth_moment.
