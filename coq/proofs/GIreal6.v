(* GLUE, part 6: the pivot hypothesis of the C17 exp-link lower bound (trunc/HetBoundInt.v) is DISCHARGED from positive
   definiteness.  There, every noise unit carries the hypothesis gpivR D (hetL L ws hl): the pivots of the completed precision
   L' = L + g1_exp ws * hl hl' are positive.  Here: a rank-one update A + g v v' (0 <= g) of a positive definite matrix is positive
   definite (every real field), hence L' is positive definite as soon as L is and 0 < ws (g1_exp_pos), hence its pivots are
   positive (spd_gpivR, proofs/GIreal.v).  The two theorems of trunc/HetBoundInt.v are restated with `spd (mxf D D L)` and the
   positivity of the variational parameters as the ONLY hypotheses on the weight and on the units. *)
From Coq Require Import Reals Lra Lia List.
From GT Require Import GaussND GaussMom HetBoundR HetGapR C17R MonoND HetBoundInt HetBoundIntC.

From mathcomp Require Import all_ssreflect all_fingroup all_algebra.
From mathcomp Require Import ring.
From GT Require Import Tensor DetExec LogDom OLog RField MxTac MxLemmas EvalLemmas SPD Spec GIalg GIreal.
Set Implicit Arguments.
Unset Strict Implicit.
Unset Printing Implicit Defensive.
Local Close Scope R_scope.
Import GRing.Theory Num.Theory Order.Theory.
Local Open Scope ring_scope.

(* ------------------------------------------------------------------ *)
(* 1. rank-one updates, every real field                               *)
(* ------------------------------------------------------------------ *)
Section Rank1.
Variable F : realFieldType.

Lemma qf_rank1 n (v x : 'cV[F]_n) (g : F) :
  qf (g *: (v *m v^T)) x = g * ((v^T *m x) 0 0 * (v^T *m x) 0 0).
Proof.
rewrite /qf -scalemxAr -scalemxAl mxE; congr (_ * _).
rewrite [x^T *m _]mulmxA -mulmxA.
have -> : x^T *m v = (v^T *m x)^T by rewrite trmx_mul trmxK.
by rewrite mxE big_ord1 mxE.
Qed.

Lemma psd_rank1 n (v : 'cV[F]_n) (g : F) : 0 <= g -> psd (g *: (v *m v^T)).
Proof.
move=> g0; split; first by rewrite /sym linearZ /= trmx_mul trmxK.
by move=> x; rewrite qf_rank1 mulr_ge0 // -expr2 sqr_ge0.
Qed.

Lemma spd_rank1_update n (A : 'M[F]_n) (v : 'cV[F]_n) (g : F) :
  spd A -> 0 <= g -> spd (A + g *: (v *m v^T)).
Proof. by move=> sA g0; apply: spd_add_psd => //; exact: psd_rank1. Qed.

End Rank1.
Print Assumptions spd_rank1_update.

(* ------------------------------------------------------------------ *)
(* 2. the completed precision of one unit, at the reals                *)
(* ------------------------------------------------------------------ *)
Lemma mxf_hetL D (L : matRF) ws (hl : vecRF) :
  mxf D D (hetL L ws hl) = mxf D D L + g1_exp ws *: (cvf D hl *m (cvf D hl)^T).
Proof.
apply/matrixP => i j; rewrite !mxE big_ord1 !mxE /hetL.
by rewrite -[LHS]/(L i j + g1_exp ws * hl i * hl j) mulrA.
Qed.

Lemma g1_exp_ge0 ws : (0 < ws)%coqR -> 0 <= (g1_exp ws : RF).
Proof. by move=> /g1_exp_pos /RltP /ltW. Qed.

Lemma spd_hetL D (L : matRF) ws (hl : vecRF) :
  spd (mxf D D L) -> (0 < ws)%coqR -> spd (mxf D D (hetL L ws hl)).
Proof. by move=> sL w0; rewrite mxf_hetL; apply: spd_rank1_update => //; exact: g1_exp_ge0. Qed.

Lemma gpivR_hetL D (L : matRF) ws (hl : vecRF) :
  spd (mxf D D L) -> (0 < ws)%coqR -> gpivR D (hetL L ws hl).
Proof. by move=> sL w0; apply: spd_gpivR; exact: spd_hetL. Qed.

Lemma unit_ok_of_spd D (L : matRF) (u : unitaff) :
  spd (mxf D D L) -> (0 < aws u)%coqR -> (0 < awd u)%coqR -> unit_ok D L u.
Proof. by move=> sL ws0 wd0; split=> //; split=> //; exact: gpivR_hetL. Qed.

Lemma units_ok_of_spd D (L : matRF) (us : list unitaff) :
  spd (mxf D D L) -> List.Forall (fun u => (0 < aws u)%coqR /\ (0 < awd u)%coqR) us ->
  List.Forall (unit_ok D L) us.
Proof.
move=> sL; apply: List.Forall_impl => u [ws0 wd0]; exact: unit_ok_of_spd.
Qed.

(* ------------------------------------------------------------------ *)
(* 3. the C17 exp-link theorems with positive definiteness only        *)
(* ------------------------------------------------------------------ *)
(* the expectation of the bound integrand exists, in closed form *)
Theorem C17_exp_bound_expectation_exists_spd D (L : matRF) (nu : vecRF) (c : R) (ts : list qterm) (ld0 c0 : R)
    (us : list unitaff) :
  spd (mxf D D L) -> List.Forall (fun u => (0 < aws u)%coqR /\ (0 < awd u)%coqR) us ->
  is_gint D (fun x => (logp_lb sLB_exp ldUB_exp (q0_at D ts x) ld0 c0 (List.map (at_x D x) us)
                       * exp (quadR D L nu x + c))%coqR)
            (lb_value D L nu c ts ld0 c0 us).
Proof.
move=> sL Hus; apply: exp_bound_expectation_exists; [exact: spd_symR | exact: spd_gpivR | exact: units_ok_of_spd].
Qed.
Print Assumptions C17_exp_bound_expectation_exists_spd.

(* ... and it is a lower bound of the expectation of the true log-density, as soon as the latter exists *)
Theorem C17_exp_lower_bound_spd D (L : matRF) (nu : vecRF) (c : R) (ts : list qterm) (ld0 c0 : R) (us : list unitaff) :
  spd (mxf D D L) -> List.Forall (fun u => (0 < aws u)%coqR /\ (0 < awd u)%coqR) us ->
  forall vg : R,
  is_gint D (fun x => (logp link_exp (q0_at D ts x) ld0 c0 (List.map (at_x D x) us) * exp (quadR D L nu x + c))%coqR) vg ->
  (lb_value D L nu c ts ld0 c0 us <= vg)%coqR.
Proof.
move=> sL Hus vg; apply: C17_exp_lower_bound_nd; [exact: spd_symR | exact: spd_gpivR | exact: units_ok_of_spd].
Qed.
Print Assumptions C17_exp_lower_bound_spd.

(* ---- the same for the cosh-1 link (trunc/HetBoundIntC.v) ---- *)
Lemma mxf_hetLc D (L : matRF) ws (hl : vecRF) :
  mxf D D (hetLc L ws hl) = mxf D D L + g1_cosh ws *: (cvf D hl *m (cvf D hl)^T).
Proof.
apply/matrixP => i j; rewrite !mxE big_ord1 !mxE /hetLc.
by rewrite -[LHS]/(L i j + g1_cosh ws * hl i * hl j) mulrA.
Qed.

Lemma g1_cosh_ge0 ws : (0 < ws)%coqR -> 0 <= (g1_cosh ws : RF).
Proof. by move=> /g1_cosh_pos /RltP /ltW. Qed.

Lemma spd_hetLc D (L : matRF) ws (hl : vecRF) :
  spd (mxf D D L) -> (0 < ws)%coqR -> spd (mxf D D (hetLc L ws hl)).
Proof. by move=> sL w0; rewrite mxf_hetLc; apply: spd_rank1_update => //; exact: g1_cosh_ge0. Qed.

Lemma gpivR_hetLc D (L : matRF) ws (hl : vecRF) :
  spd (mxf D D L) -> (0 < ws)%coqR -> gpivR D (hetLc L ws hl).
Proof. by move=> sL w0; apply: spd_gpivR; exact: spd_hetLc. Qed.

Lemma unit_ok_cosh_of_spd D (L : matRF) (u : unitaff) :
  spd (mxf D D L) -> (0 < aws u)%coqR -> (0 < awd u)%coqR -> unit_ok_cosh D L u.
Proof. by move=> sL ws0 wd0; split=> //; split=> //; exact: gpivR_hetLc. Qed.

Lemma units_ok_cosh_of_spd D (L : matRF) (us : list unitaff) :
  spd (mxf D D L) -> List.Forall (fun u => (0 < aws u)%coqR /\ (0 < awd u)%coqR) us ->
  List.Forall (unit_ok_cosh D L) us.
Proof.
move=> sL; apply: List.Forall_impl => u [ws0 wd0]; exact: unit_ok_cosh_of_spd.
Qed.

(* ------------------------------------------------------------------ *)
(* 3. the C17 exp-link theorems with positive definiteness only        *)
(* ------------------------------------------------------------------ *)
(* the expectation of the bound integrand exists, in closed form *)
Theorem C17_coshm1_bound_expectation_exists_spd D (L : matRF) (nu : vecRF) (c : R) (ts : list qterm) (ld0 c0 : R)
    (us : list unitaff) :
  spd (mxf D D L) -> List.Forall (fun u => (0 < aws u)%coqR /\ (0 < awd u)%coqR) us ->
  is_gint D (fun x => (logp_lb sLB_cosh ldUB_cosh (q0_at D ts x) ld0 c0 (List.map (at_x D x) us)
                       * exp (quadR D L nu x + c))%coqR)
            (lb_value_cosh D L nu c ts ld0 c0 us).
Proof.
move=> sL Hus; apply: coshm1_bound_expectation_exists_ok; [exact: spd_symR | exact: spd_gpivR | exact: units_ok_cosh_of_spd].
Qed.

(* ... and it is a lower bound of the expectation of the true log-density, as soon as the latter exists *)
Theorem C17_coshm1_lower_bound_spd D (L : matRF) (nu : vecRF) (c : R) (ts : list qterm) (ld0 c0 : R) (us : list unitaff) :
  spd (mxf D D L) -> List.Forall (fun u => (0 < aws u)%coqR /\ (0 < awd u)%coqR) us ->
  forall vg : R,
  is_gint D (fun x => (logp link_coshm1 (q0_at D ts x) ld0 c0 (List.map (at_x D x) us) * exp (quadR D L nu x + c))%coqR) vg ->
  (lb_value_cosh D L nu c ts ld0 c0 us <= vg)%coqR.
Proof.
move=> sL Hus vg; apply: C17_coshm1_lower_bound_nd; [exact: spd_symR | exact: spd_gpivR | exact: units_ok_cosh_of_spd].
Qed.

Print Assumptions C17_coshm1_lower_bound_spd.
