(* GLUE, part 7: products of a measure with a factor and the C16 seams, as genuine integrals (iterated improper Riemann integrals
   over R^D, trunc/GaussND.v) at Coq's real numbers.
   1. C01 + C02: the value log_integral reports for component (i, j) of multiply(u, f) is the log of the integral of u_i(x) f_j(x)
      (product_mass_is_integral_at / _corrected / _noupd / product_mass_is_integral); the statement without C04's rank-one contract
      fwf1 is REFUTED (product_mass_is_integral_false).  New C04 material: cache consistency of ONE component of a product
      (gprod_ok_at, multiply_ok_at: positivity is only needed at the addressed component), multiply_diag_ok, multiply_D.
   2. C16: the expected noise of the exp and cosh-1 links, E[exp(w'x + w0)] and E[cosh(w'x + w0) - 1], closed forms and the values
      the model computes (log-integrals of p(x) times a linear factor).
   3. C16: kernel moments E[k_j(x)] of the feature models (RBF: diagonal precision; squared-exponential: rank one) are the masses
      of the products p(x) k_j(x); positive definiteness of the product precision is PROVED (multiply_spd), not assumed.
   4. C16: the moment-matched covariance of the heteroscedastic conditionals (any link with an integrable expectation; exp and
      cosh-1 instances): het_Sigma_y + mu_y mu_y' is the integral of Sigma(x) + (M x + b)(M x + b)' against p(x). *)
From Coq Require Import Reals Lra Lia.
From GT Require Import GaussND GaussMom.

(* ---- pure stdlib-Reals facts (proved before MathComp's ring/field tactics shadow the stdlib ones) ---- *)
Lemma coshm1_pointR (a b h N : R) : a = h -> b = (- h)%R ->
  (/ 2 * (exp a * N + exp b * N) - N = (cosh h - 1) * N)%R.
Proof. intros -> ->. unfold cosh. field. Qed.

Lemma coshm1_valR (A B A' B' : R) : A = A' -> B = B' ->
  (/ 2 * (exp A + exp B) - 1 = (exp A' + exp B') / 2 - 1)%R.
Proof. intros -> ->. field. Qed.

Lemma coshm1_modelR (A B l : R) : l = ln 2 ->
  ((exp A + exp B) / 2 - 1 = exp (A - l) + exp (B - l) - 1)%R.
Proof.
intros ->.
replace (exp (A - ln 2)) with (exp A / 2)%R.
replace (exp (B - ln 2)) with (exp B / 2)%R.
field.
all: unfold Rminus; rewrite exp_plus, exp_Ropp, exp_ln by lra; reflexivity.
Qed.

Lemma ln2_posR : (0 < ln 2)%R.
Proof. rewrite <- ln_1. apply ln_increasing; lra. Qed.

From mathcomp Require Import all_ssreflect all_fingroup all_algebra.
From mathcomp Require Import ring.
From GT Require Import Tensor DetExec LogDom OLog RField MxTac MxLemmas Obj Factor Measure Pdf Cond Moments ExpLog Approx EvalLemmas SPD Spec
  Wick C01_proofs PdfLemmas C04_proofs C05_proofs C1013_proofs C14_proofs C03a_proofs C1617_proofs HetBound C1617_extra GIalg GImomalg GIreal GIreal3 GIreal4.
Set Implicit Arguments.
Unset Strict Implicit.
Unset Printing Implicit Defensive.
Local Close Scope R_scope.
Import GRing.Theory Num.Theory Order.Theory.
Local Open Scope ring_scope.

(* ------------------------------------------------------------------ *)
(* 0. cache consistency of ONE component of a product (C04, local)    *)
(* ------------------------------------------------------------------ *)
Section ProdAt.
Variable F : realFieldType.
Variable LS : logS F.
Notation mat := (mat F).
Notation vec := (vec F).
Notation lvec := (nat -> LS).
Notation measure := (measure LS).
Notation factor := (factor LS).

Lemma without_cache_ok_at R D (Lam : nat -> mat) nu (lb : lvec) k :
  (mxf D D (Lam k))^T = mxf D D (Lam k) -> cache_ok_at (without_cache R D Lam nu lb) k.
Proof. by move=> H; split. Qed.

Lemma with_inverse_ok_at R D (Lam : nat -> mat) nu (lb : lvec) k : (k < R)%N ->
  (mxf D D (Lam k))^T = mxf D D (Lam k) -> 0 < \det (mxf D D (Lam k)) ->
  cache_ok_at (with_inverse R D Lam nu lb) k.
Proof.
move=> Hk Hs Hp.
have [] := @inv_ld_ok _ LS false D (Lam k) _ Hp => //=.
move=> SL dS hS.
split=> //.
- by move=> _; rewrite /Sg /gethS /= mxf_tabb // !tablE.
- by move=> _; split=> // hL [<-]; rewrite /gethS /= !tablE // opprK.
Qed.

Lemma with_cache_ok_at R D (Lam : nat -> mat) nu (lb : lvec) (Sig : nat -> mat) (hS : lvec) k : (k < R)%N ->
  (mxf D D (Lam k))^T = mxf D D (Lam k) ->
  [/\ mxf D D (Sig k) *m mxf D D (Lam k) = 1%:M, 0 < \det (mxf D D (Sig k)) & hS k = hln LS (\det (mxf D D (Sig k)))] ->
  cache_ok_at (with_cache R D Lam nu lb Sig hS) k.
Proof.
move=> Hk Hs [SL dS E].
split=> //.
by move=> _; split=> // hL [<-]; rewrite /gethS /= !tablE.
Qed.

(* gprod_ok (proofs/C04_proofs.v) one component at a time: only the addressed component of the product needs a symmetric
   precision of positive determinant, only the addressed components of the operands need to be consistent *)
Lemma gprod_ok_at R i j (upd : bool) (u : measure) (f : factor) k :
  (k < R)%N -> (j k < fR f)%N -> cache_ok_at u (i k) -> (upd -> uSig u -> fwf1 f) -> uD u = fD f ->
  (Lm (gprod R i j upd u f) k)^T = Lm (gprod R i j upd u f) k ->
  0 < \det (Lm (gprod R i j upd u f) k) -> cache_ok_at (gprod R i j upd u f) k.
Proof.
case: u => R1 D1 uL un ul uS uhS uhL um uz uc; case: f => kd R2 D fL fn fl.
rewrite /= => Hk Hj Hu Hwf1 HD; subst D1.
have usym : (mxf D D (uL (i k)))^T = mxf D D (uL (i k)) by have [] := Hu.
have E1 : mxf D D (tabb R D D (fun k => madd (uL (i k)) (fL (j k))) k) = mxf D D (uL (i k)) + mxf D D (fL (j k)).
  by rewrite mxf_tabb // mxf_add.
have E2 : mxf D D (tabb R D D (fun k => uL (i k)) k) = mxf D D (uL (i k)) by rewrite mxf_tabb.
have reuse S0 : uS = Some S0 ->
    [/\ mxf D D (tabb R D D (fun k => S0 (i k)) k) *m mxf D D (tabb R D D (fun k => uL (i k)) k) = 1%:M,
        0 < \det (mxf D D (tabb R D D (fun k => S0 (i k)) k))
      & tabl R (fun k => odflt (fun _ => 0) uhS (i k)) k
        = hln LS (\det (mxf D D (tabb R D D (fun k => S0 (i k)) k)))].
  move=> ES; have [_ cS _ _ _] := Hu.
  move: cS; rewrite /Sg /Lm /gethS /getS /= ES => /(_ isT) [SL dS hS].
  by rewrite !mxf_tabb // tablE.
move: Hwf1; rewrite /gprod /fwf1 /=; case: kd => [|v g||]; case: upd => /=;
  try (case ES : uS => [S0|] /=); move=> Hwf1 Hs Hp;
  try (by apply: without_cache_ok_at); try (by apply: with_inverse_ok_at);
  try (by apply: with_cache_ok_at => //; apply: reuse).
(* rank one, cached covariance: Sherman-Morrison *)
apply: with_cache_ok_at => //.
have {Hwf1} Hwf1 := Hwf1 isT isT.
have [_ cS _ _ _] := Hu.
move: cS; rewrite /Sg /Lm /gethS /getS /= ES => /(_ isT) [SL dS hS].
have Ef : mxf D D (fL (j k)) = g (j k) *: (cvf D (v (j k)) *m (cvf D (v (j k)))^T).
  apply/matrixP => a b; rewrite mxE Hwf1 //.
  by rewrite !mxE big_ord_recl big_ord0 addr0 !mxE mulrCA.
have := Hp; rewrite /Lm /= E1 // Ef => dN.
have [] := @sm_ok _ LS _ _ _ _ _ SL usym dS dN.
by rewrite /= !mxf_tabb // tablE // hS.
Qed.

Lemma multiply_idx (R2 i j : nat) : (j < R2)%N ->
  ((i * R2 + j) %/ R2 = i)%N /\ ((i * R2 + j) %% R2 = j)%N.
Proof.
move=> Hj; split; last by rewrite modnMDl modn_small.
by rewrite divnMDl ?(leq_ltn_trans _ Hj) // divn_small // addn0.
Qed.

Lemma multiply_idx_lt (R1 R2 i j : nat) : (i < R1)%N -> (j < R2)%N -> (i * R2 + j < R1 * R2)%N.
Proof.
move=> Hi Hj; apply: (@leq_trans (i.+1 * R2)); last by rewrite leq_mul2r Hi orbT.
by rewrite mulSn addnC ltn_add2r.
Qed.

Lemma multiply_ok_at (upd : bool) (u : measure) (f : factor) i j :
  cache_ok_at u i -> (upd -> uSig u -> fwf1 f) -> uD u = fD f -> (i < uR u)%N -> (j < fR f)%N ->
  (Lm (multiply upd u f) (i * fR f + j))^T = Lm (multiply upd u f) (i * fR f + j) ->
  0 < \det (Lm (multiply upd u f) (i * fR f + j)) -> cache_ok_at (multiply upd u f) (i * fR f + j).
Proof.
move=> Hu H1 HD Hi Hj; have [Ed Em] := multiply_idx i Hj.
rewrite multiply_gprod; apply: gprod_ok_at => //; rewrite ?Ed ?Em //.
exact: multiply_idx_lt.
Qed.

(* a product is never of a diagonal class *)
Lemma multiply_diag_ok upd (u : measure) (f : factor) : diag_ok (multiply upd u f).
Proof.
rewrite /diag_ok /multiply; case: (fk f) => [|v g||]; case: upd => //=; case: (uSig u) => //=.
Qed.

Lemma multiply_D upd (u : measure) (f : factor) : uD (multiply upd u f) = fD f.
Proof.
by rewrite /multiply; case: (fk f) => [|v g||]; case: upd => //=; case: (uSig u).
Qed.

End ProdAt.

(* ------------------------------------------------------------------ *)
(* 1. the mass of a product is the integral of the product            *)
(* ------------------------------------------------------------------ *)
(* minimal hypotheses: only the addressed component of u has to have consistent caches *)
Theorem product_mass_is_integral_at (upd : bool) (u : measure LR) (f : factor LR) i j :
  cache_ok_at u i -> fwf f -> (upd -> uSig u -> fwf1 f) -> uD u = fD f -> (i < uR u)%N -> (j < fR f)%N ->
  spd (Lm (multiply upd u f) (i * fR f + j)) ->
  is_gint (uD u) (fun x => exp (ueval u i x) * exp (feval f j x))
          (exp ((log_integral (multiply upd u f)).2 (i * fR f + j)%N)).
Proof.
move=> Hc Hwf Hwf1 HD Hi Hj sL.
set k := (i * fR f + j)%N in sL *.
have Hk : (k < uR (multiply upd u f))%N by rewrite multiply_R; exact: multiply_idx_lt.
have Hat : cache_ok_at (multiply upd u f) k.
  exact: (multiply_ok_at Hc Hwf1 HD Hi Hj (proj1 sL) (spd_det_gt0 sL)).
have [E _] := log_integral_spec_at Hat (@multiply_diag_ok _ _ upd u f) (spd_det_gt0 sL) Hk.
rewrite E.
have := measure_lngint_is_integral sL.
rewrite [X in is_gint X]multiply_D -HD; apply: is_gint_ext => x.
by rewrite /k multiply_eval //; exact: exp_plus.
Qed.
Check product_mass_is_integral_at.
Print Assumptions product_mass_is_integral_at.

(* ORIGINAL STATEMENT (false for rank-one factors whose stored Lambda is not g v v', when update_full is on and the measure
   carries a cached covariance: the Sherman-Morrison shortcut then caches a wrong covariance, which log_integral uses; see
   product_mass_is_integral_false below):
Theorem product_mass_is_integral upd (u : measure LR) (f : factor LR) i j :
  cache_ok u -> diag_ok u -> fwf f -> uD u = fD f -> (i < uR u)%N -> (j < fR f)%N ->
  spd (Lm (multiply upd u f) (i * fR f + j)) ->
  is_gint (uD u) (fun x => exp (ueval u i x) * exp (feval f j x)) (exp ((log_integral (multiply upd u f)).2 (i * fR f + j))).
   Added hypothesis: fwf1 f (C04's contract on rank-one factors: Lambda = g v v', what mk_onerank builds; True for the other kinds).
   `diag_ok u` is not needed (kept for uniformity with log_integral_is_integral). *)
Theorem product_mass_is_integral_corrected upd (u : measure LR) (f : factor LR) i j :
  cache_ok u -> diag_ok u -> fwf f -> fwf1 f -> uD u = fD f -> (i < uR u)%N -> (j < fR f)%N ->
  spd (Lm (multiply upd u f) (i * fR f + j)) ->
  is_gint (uD u) (fun x => exp (ueval u i x) * exp (feval f j x))
          (exp ((log_integral (multiply upd u f)).2 (i * fR f + j)%N)).
Proof. by move=> Hc _ Hwf H1 HD Hi Hj sL; apply: product_mass_is_integral_at => //; exact: Hc. Qed.

(* the statement exactly as specified holds without update_full ... *)
Theorem product_mass_is_integral_noupd (u : measure LR) (f : factor LR) i j :
  cache_ok u -> diag_ok u -> fwf f -> uD u = fD f -> (i < uR u)%N -> (j < fR f)%N ->
  spd (Lm (multiply false u f) (i * fR f + j)) ->
  is_gint (uD u) (fun x => exp (ueval u i x) * exp (feval f j x))
          (exp ((log_integral (multiply false u f)).2 (i * fR f + j)%N)).
Proof. by move=> Hc _ Hwf HD Hi Hj sL; apply: product_mass_is_integral_at => //; exact: Hc. Qed.

(* ... and for every factor that is not of the rank-one kind *)
Definition not_onerank (F : realFieldType) (LS : logS F) (f : factor LS) : bool :=
  match fk f with KOneRank _ _ => false | _ => true end.

Lemma not_onerank_fwf1 (F : realFieldType) (LS : logS F) (f : factor LS) : not_onerank f -> fwf1 f.
Proof. by rewrite /not_onerank /fwf1; case: (fk f). Qed.

Theorem product_mass_is_integral upd (u : measure LR) (f : factor LR) i j :
  cache_ok u -> diag_ok u -> fwf f -> not_onerank f || ~~ upd || ~~ uSig u -> uD u = fD f -> (i < uR u)%N -> (j < fR f)%N ->
  spd (Lm (multiply upd u f) (i * fR f + j)) ->
  is_gint (uD u) (fun x => exp (ueval u i x) * exp (feval f j x))
          (exp ((log_integral (multiply upd u f)).2 (i * fR f + j)%N)).
Proof.
move=> Hc _ Hwf Hk HD Hi Hj sL; apply: product_mass_is_integral_at => //; first exact: Hc.
move=> Hu HS; move: Hk; rewrite Hu HS !orbF; exact: not_onerank_fwf1.
Qed.

(* the constructor of rank-one factors establishes fwf1 *)
Lemma fwf1_onerank (F : realFieldType) (LS : logS F) R D v g n l : fwf1 (mk_onerank (LS:=LS) R D v g n l).
Proof.
rewrite /fwf1 /mk_onerank /= => r a b Hr Ha Hb.
by rewrite tabbE.
Qed.
Check product_mass_is_integral_corrected.
Check product_mass_is_integral_noupd.
Check product_mass_is_integral.
Print Assumptions product_mass_is_integral_corrected.
Print Assumptions product_mass_is_integral.

(* ---- REFUTATION of the statement as specified (no fwf1): D = 1, u = exp(-x^2/2) with cached Sigma = 1, and the ill-formed
   rank-one factor (v = 1, g = 1, stored Lambda = 0, i.e. the constant 1).  The product is exp(-x^2/2), of mass sqrt(2 pi),
   but multiply(update_full) caches the Sherman-Morrison covariance 1/2 and log_integral reports sqrt(2 pi) / sqrt 2. ---- *)
Definition cex7_u : measure LR :=
  Measure 1 1 (fun _ => mid) (fun _ => vzero) (fun _ => 0) (Some (fun _ => mid)) (Some (fun _ => 0)) None None None CMeas.
Definition cex7_f : factor LR :=
  Factor (KOneRank (fun _ _ => 1) (fun _ => 1)) 1 1 (fun _ => mzero) (fun _ => vzero) (fun _ => 0).

Lemma cex7_cache_ok : cache_ok cex7_u.
Proof.
move=> r Hr; split=> //.
- by rewrite /Lm /= mxf_id trmx1.
- move=> _; rewrite /Sg /Lm /gethS /getS /= mxf_id mulmx1 det1; split=> //; first exact: ltr01.
  exact: (esym (hln1 LR)).
Qed.

Lemma cex7_spd : spd (Lm (multiply true cex7_u cex7_f) 0).
Proof.
rewrite /Lm /= mxf_tabb // mxf_add mxf_id mxf_zero addr0; exact: spd_1.
Qed.

Lemma cex7_LI : (log_integral (multiply true cex7_u cex7_f)).2 0%N = hl2p LR - hln LR 2%:R.
Proof.
rewrite /log_integral /prepare /multiply /with_cache /= /compute_mu /compute_lnZ /ensure_Sigma /getlnZ /gethS /getS /= !tablE //.
rewrite /dot /= tabbvE // /vadd /vzero !addr0 mul0r addr0 mulr0 add0r mulr1n.
rewrite /sm_denom /sm_Sigma_v /dot /mvec /mid /= !add0r !mulr1.
by [].
Qed.

Lemma cex7_lngint : lngint (Lm (multiply true cex7_u cex7_f) 0) (nuv (multiply true cex7_u cex7_f) 0) (ulb (multiply true cex7_u cex7_f) 0)
  = hl2p LR.
Proof.
rewrite /lngint /Lm /nuv /= mxf_tabb // mxf_add mxf_id mxf_zero addr0 cvf_tabbv // cvf_add cvf_zero addr0.
rewrite mulmx0 /sc mxE mulr0 !addr0 det1 tablE // add0r mulr1n.
have -> : Roln 1 = 0 := hln1 LR.
by rewrite subr0.
Qed.

Lemma product_mass_is_integral_false :
  ~ (forall upd (u : measure LR) (f : factor LR) i j,
       cache_ok u -> diag_ok u -> fwf f -> uD u = fD f -> (i < uR u)%N -> (j < fR f)%N ->
       spd (Lm (multiply upd u f) (i * fR f + j)) ->
       is_gint (uD u) (fun x => exp (ueval u i x) * exp (feval f j x))
               (exp ((log_integral (multiply upd u f)).2 (i * fR f + j)%N))).
Proof.
move=> /(_ true cex7_u cex7_f 0%N 0%N cex7_cache_ok) H.
have {H} H := H (fun dg => False_ind _ (notF dg)) I erefl isT isT cex7_spd.
have T := measure_lngint_is_integral cex7_spd.
have T' : is_gint 1 (fun x => exp (ueval cex7_u 0 x) * exp (feval cex7_f 0 x)) (exp (hl2p LR)).
  rewrite -cex7_lngint; apply: is_gint_ext T => x.
  have -> := @multiply_eval _ LR true cex7_u cex7_f 0%N 0%N x I erefl isT isT.
  exact: exp_plus.
have E := exp_inv _ _ (is_gint_unique _ _ _ _ H T').
move: E; rewrite [X in X = _]cex7_LI => E.
have Hb : hln LR 2%:R = hl2p LR - (hl2p LR - hln LR 2%:R) by rewrite opprB addrCA subrr addr0.
rewrite E subrr in Hb.
have := LR_hln_two_halves (x:=2%:R) (ltr0n _ 2); rewrite Hb addr0 two_E => Hln.
by have := ln2_posR; rewrite -Hln => /Rlt_irrefl.
Qed.
Print Assumptions product_mass_is_integral_false.


(* ------------------------------------------------------------------ *)
(* 2. the expected noise of the exp and cosh-1 links (C16)            *)
(* ------------------------------------------------------------------ *)
Lemma dot_voppl D (w x : vecRF) : dot D (vopp w) x = - dot D w x.
Proof. by rewrite /dot /vopp -sumnN; apply: eq_sumn => i _; rewrite mulNr. Qed.

Lemma quad_vopp D (S : matRF) (w : vecRF) : quad D S (vopp w) = quad D S w.
Proof. by rewrite !quadE cvf_opp [(- _)^T]linearN /= !mulNmx mulmxN opprK. Qed.

(* E_{p}[exp(w'x + w0)] = exp(w0 + w'mu + w'Sigma w / 2): the right-hand side of C16_expected_exp_noise *)
Theorem expected_exp_noise_is_integral (p : measure LR) (w : vecRF) (w0 : R) : pdf_ok p -> uR p = 1%N -> spd (Sg p 0) ->
  is_gint (uD p) (fun x => exp (dot (uD p) w x + w0) * exp (ueval p 0 x))
          (exp (w0 + dot (uD p) w (getmu p 0) + half RF * quad (uD p) (getS p 0) w)).
Proof.
move=> Hp HR sS; have H0 : (0 < uR p)%N by rewrite HR.
apply: is_gint_val (exp_affine_density_is_integral w w0 Hp sS H0).
apply: (f_equal exp); rewrite quadE -half_RF /Sg /sc -!RplusE [_ + w0]addrC.
by [].
Qed.
Check expected_exp_noise_is_integral.
Print Assumptions expected_exp_noise_is_integral.

(* E_{p}[cosh(w'x + w0) - 1] = (exp(w0 + w'mu + w'Sigma w / 2) + exp(- w0 - w'mu + w'Sigma w / 2)) / 2 - 1:
   the two terms of C16_expected_cosh_noise, assembled outside the log domain *)
Theorem expected_coshm1_noise_is_integral (p : measure LR) (w : vecRF) (w0 : R) : pdf_ok p -> uR p = 1%N -> spd (Sg p 0) ->
  is_gint (uD p) (fun x => ((cosh (dot (uD p) w x + w0) - 1) * exp (ueval p 0 x))%coqR)
          ((exp (w0 + dot (uD p) w (getmu p 0) + half RF * quad (uD p) (getS p 0) w)
            + exp (- w0 - dot (uD p) w (getmu p 0) + half RF * quad (uD p) (getS p 0) w)) / 2 - 1)%coqR.
Proof.
move=> Hp HR sS; have H0 : (0 < uR p)%N by rewrite HR.
have I1 := expected_exp_noise_is_integral w w0 Hp HR sS.
have I2 := expected_exp_noise_is_integral (vopp w) (- w0)%coqR Hp HR sS.
have I3 := density_integrates_to_one_Sigma Hp sS H0.
have := is_gint_sub (is_gint_scal _ _ _ (/ 2)%coqR (is_gint_plus _ _ _ _ _ I1 I2)) I3.
apply: is_gint_ext_val => [x|].
  apply: coshm1_pointR => //.
  by rewrite dot_voppl -!RoppE -!RplusE opprD.
apply: coshm1_valR => //.
by rewrite dot_voppl quad_vopp.
Qed.
Check expected_coshm1_noise_is_integral.
Print Assumptions expected_coshm1_noise_is_integral.

(* ---- the values the MODEL computes (C16_expected_exp_noise, C16_expected_cosh_noise: log-integrals of p(x) times a linear
   factor) are these integrals ---- *)
Theorem expected_exp_noise_model_is_integral (p : measure LR) Dk (ws : nat -> vecRF) (w0s : vecRF) k :
  pdf_ok p -> uR p = 1%N -> (k < Dk)%N -> spd (Sg p 0) ->
  is_gint (uD p) (fun x => exp (dot (uD p) (ws k) x + w0s k) * exp (ueval p 0 x))
          (exp ((log_integral (multiply true p (mk_linear Dk (uD p) ws (fun j => emb LR (w0s j))))).2 k)).
Proof.
move=> Hp HR Hk sS; rewrite (expected_exp_noise ws w0s Hp HR Hk).
exact: expected_exp_noise_is_integral.
Qed.

Lemma ln2_LR : ln2 LR = ln 2.
Proof. by rewrite /ln2 LR_hln_two_halves ?ltr0n // two_E. Qed.

Theorem expected_coshm1_noise_model_is_integral (p : measure LR) Dk (ws : nat -> vecRF) (w0s : vecRF) k :
  pdf_ok p -> uR p = 1%N -> (k < Dk)%N -> spd (Sg p 0) ->
  is_gint (uD p) (fun x => ((cosh (dot (uD p) (ws k) x + w0s k) - 1) * exp (ueval p 0 x))%coqR)
    (exp ((log_integral (multiply true p (mk_linear Dk (uD p) ws (fun j => (emb LR (w0s j) - ln2 LR)%R)))).2 k)
     + exp ((log_integral (multiply true p (mk_linear Dk (uD p) (fun j => vopp (ws j))
                                              (fun j => (emb LR (- w0s j) - ln2 LR)%R)))).2 k) - 1)%coqR.
Proof.
move=> Hp HR Hk sS; have [-> ->] := expected_cosh_noise ws w0s Hp HR Hk.
apply: is_gint_val (expected_coshm1_noise_is_integral (ws k) (w0s k) Hp HR sS).
have Hl : (ln2 LR : R) = ln 2 := ln2_LR.
set A : R := (w0s k + _ + _)%coqR; set B : R := (- w0s k - _ + _)%coqR.
by have := @coshm1_modelR A B (ln2 LR) Hl.
Qed.
Check expected_exp_noise_model_is_integral.
Check expected_coshm1_noise_model_is_integral.
Print Assumptions expected_coshm1_noise_model_is_integral.

(* ------------------------------------------------------------------ *)
(* 3. kernel moments of the feature models (C16)                      *)
(* ------------------------------------------------------------------ *)
Section ProdSpd.
Variable F : realFieldType.
Variable LS : logS F.

(* the precision of a product component is positive definite as soon as the measure's is and the factor's is positive
   semi-definite (nothing is asked of linear / constant factors: their precision is not added) *)
Lemma multiply_spd upd (u : measure LS) (f : factor LS) i j :
  uD u = fD f -> (i < uR u)%N -> (j < fR f)%N -> spd (Lm u i) ->
  psd (mxf (uD u) (uD u) (fLam f j)) -> spd (Lm (multiply upd u f) (i * fR f + j)).
Proof.
move=> HD Hi Hj; have [Ed Em] := multiply_idx i Hj; have Hk := multiply_idx_lt Hi Hj.
case: u HD Hi Hk => R1 D1 uL un ul uS uhS uhL um uz uc; case: f Hj Ed Em => kd R2 D fL fn fl /= Hj Ed Em HD Hi Hk.
subst D1; rewrite /Lm /= => sL pF.
by rewrite /multiply /=; case: kd => [|v g||]; case: upd => /=; try (case: uS => [S0|] /=);
  rewrite /Lm /= mxf_tabb // ?mxf_add Ed ?Em //; apply: spd_add_psd.
Qed.

Lemma psd_diag_mx n (d : 'rV[F]_n) : (forall i, 0 <= d 0 i) -> psd (diag_mx d).
Proof.
move=> Hd; split; first by rewrite /sym tr_diag_mx.
move=> x; rewrite /qf mxE; apply: sumr_ge0 => k _.
by rewrite mul_mx_diag !mxE mulrAC -expr2 mulr_ge0 ?sqr_ge0.
Qed.

End ProdSpd.

(* E_p[k_j] for any kernel written as a conjugate factor with a positive semi-definite precision *)
Theorem kernel_moment_is_integral upd (p : measure LR) (kf : factor LR) j :
  pdf_ok p -> uR p = 1%N -> spd (Sg p 0) -> fwf kf -> fwf1 kf -> uD p = fD kf -> (j < fR kf)%N ->
  psd (mxf (uD p) (uD p) (fLam kf j)) ->
  is_gint (uD p) (fun x => exp (feval kf j x) * exp (ueval p 0 x)) (exp ((log_integral (multiply upd p kf)).2 j)).
Proof.
move=> Hp HR sS Hwf Hwf1 HD Hj pK; have H0 : (0 < uR p)%N by rewrite HR.
have sL : spd (Lm p 0) := pdf_spd_Sg_Lm Hp H0 sS.
have sP := multiply_spd upd HD H0 Hj sL pK.
have := product_mass_is_integral_at (po_cache (Hp 0%N H0)) Hwf (fun _ _ => Hwf1) HD H0 Hj sP.
rewrite mul0n add0n; apply: is_gint_ext => x.
by rewrite mulrC.
Qed.
Check kernel_moment_is_integral.
Print Assumptions kernel_moment_is_integral.

(* RBF kernels (lrbf_kfunc: a diagonal measure with precision diag(1 / l^2), used as a factor): the product precision is
   the precision of p plus a non-negative diagonal, positive definite whatever the length scales *)
Theorem rbf_kernel_moment_is_integral upd (p : measure LR) Dk (c l : nat -> vecRF) j :
  pdf_ok p -> uR p = 1%N -> spd (Sg p 0) -> (j < Dk)%N ->
  is_gint (uD p) (fun x => exp (ueval (lrbf_kfunc LR Dk (uD p) c l) j x) * exp (ueval p 0 x))
          (exp ((log_integral (multiply upd p (factor_of_measure (lrbf_kfunc LR Dk (uD p) c l)))).2 j)).
Proof.
move=> Hp HR sS Hj.
apply: (@kernel_moment_is_integral upd p (factor_of_measure (lrbf_kfunc LR Dk (uD p) c l)) j) => //.
rewrite /= mxf_tabb // mxf_diagv; apply: psd_diag_mx => i.
by rewrite !mxE invr_ge0 -expr2 sqr_ge0.
Qed.

(* ... with the integrand written as the Gaussian bump of unit height it is (C16_rbf_kernel) *)
Theorem rbf_kernel_moment_is_integral_bump upd (p : measure LR) Dk (c l : nat -> vecRF) j :
  pdf_ok p -> uR p = 1%N -> spd (Sg p 0) -> (j < Dk)%N -> (forall i, (i < uD p)%N -> l j i != 0) ->
  is_gint (uD p)
    (fun x => exp (- half RF * sumn (uD p) (fun i => ((x i - c j i) / l j i) * ((x i - c j i) / l j i))) * exp (ueval p 0 x))
    (exp ((log_integral (multiply upd p (factor_of_measure (lrbf_kfunc LR Dk (uD p) c l)))).2 j)).
Proof.
move=> Hp HR sS Hj Hl.
apply: is_gint_ext (rbf_kernel_moment_is_integral upd c l Hp HR sS Hj) => x.
congr (_ * _); apply: (f_equal exp).
exact: (lrbf_kernel_value LR c x Hj Hl).
Qed.

(* squared-exponential kernels (lsem_kfunc: rank-one factors v = w, g = 1): precision of p plus w w' *)
Theorem sem_kernel_moment_is_integral upd (p : measure LR) Dk (w : nat -> vecRF) (w0 : vecRF) j :
  pdf_ok p -> uR p = 1%N -> spd (Sg p 0) -> (j < Dk)%N ->
  is_gint (uD p) (fun x => exp (feval (lsem_kfunc LR Dk (uD p) w w0) j x) * exp (ueval p 0 x))
          (exp ((log_integral (multiply upd p (lsem_kfunc LR Dk (uD p) w w0))).2 j)).
Proof.
move=> Hp HR sS Hj.
apply: (@kernel_moment_is_integral upd p (lsem_kfunc LR Dk (uD p) w w0) j) => //.
  exact: fwf1_onerank.
rewrite /= mxf_tabb // mxf_outer cvf_scale tabvE // scale1r.
exact: psd_rank1.
Qed.

Theorem sem_kernel_moment_is_integral_bump upd (p : measure LR) Dk (w : nat -> vecRF) (w0 : vecRF) j :
  pdf_ok p -> uR p = 1%N -> spd (Sg p 0) -> (j < Dk)%N ->
  is_gint (uD p)
    (fun x => exp (- half RF * ((dot (uD p) (w j) x - w0 j) * (dot (uD p) (w j) x - w0 j))) * exp (ueval p 0 x))
    (exp ((log_integral (multiply upd p (lsem_kfunc LR Dk (uD p) w w0))).2 j)).
Proof.
move=> Hp HR sS Hj.
apply: is_gint_ext (sem_kernel_moment_is_integral upd w w0 Hp HR sS Hj) => x.
congr (_ * _); apply: (f_equal exp).
by rewrite (@lsem_kernel_value _ LR Dk (uD p) w w0 j x Hj).
Qed.
Check rbf_kernel_moment_is_integral.
Check rbf_kernel_moment_is_integral_bump.
Check sem_kernel_moment_is_integral.
Check sem_kernel_moment_is_integral_bump.
Print Assumptions rbf_kernel_moment_is_integral_bump.
Print Assumptions sem_kernel_moment_is_integral_bump.

(* ------------------------------------------------------------------ *)
(* 4. heteroscedastic conditional, exp link: the moment-matched       *)
(*    covariance of y is an integral over x                           *)
(* ------------------------------------------------------------------ *)
Section HetAlg.
Variable F : realFieldType.
Notation mat := (mat F).
Notation vec := (vec F).

Lemma het_Sigma_sym Dy Da Dk (A : mat) (Dv : vec) i j : (i < Dy)%N -> (j < Dy)%N ->
  het_Sigma Dy Da Dk A Dv j i = het_Sigma Dy Da Dk A Dv i j.
Proof.
move=> Hi Hj; rewrite !het_SigmaE //; congr (_ + _).
  by rewrite /mmul /mtr; apply: eq_sumn => a _; rewrite mulrC.
by apply: eq_sumn => k _; ring.
Qed.

Lemma E_quadratic_outer_sym D (mu : vec) (S : mat) (M : mat) (b : vec) i j :
  (forall a c, (a < D)%N -> (c < D)%N -> S a c = S c a) ->
  E_quadratic_outer D mu S M b M b j i = E_quadratic_outer D mu S M b M b i j.
Proof.
move=> Hs; rewrite !E_quadratic_outer_wick /gE !E2 !fcov_row /XSY (bilin_sym M j i Hs).
by rewrite mulrC.
Qed.

(* E[y y'] of the moment-matched joint: Sigma_y + mu_y mu_y' = (A A' + A_k diag(E link) A_k') + E[(M x + b)(M x + b)'] *)
Lemma het_Sigma_y_second_moment Dy Da Dk Dx (A M : mat) (b mux : vec) (Sx : mat) (Dint : vec) i j :
  (i < Dy)%N -> (j < Dy)%N -> (forall a c, (a < Dx)%N -> (c < Dx)%N -> Sx a c = Sx c a) ->
  het_Sigma_y Dy Da Dk Dx A M b mux Sx Dint i j + het_mu Dx M b mux i * het_mu Dx M b mux j
  = het_Sigma Dy Da Dk A Dint i j + E_quadratic_outer Dx mux Sx M b M b i j.
Proof.
move=> Hi Hj Hs.
rewrite /het_Sigma_y /madd /het_Sigma_int !tabmE // (E_quadratic_outer_sym mux M b j i Hs) (@het_Sigma_sym Dy Da Dk A Dint i j Hi Hj).
set n := het_Sigma _ _ _ _ _ _ _; set q := E_quadratic_outer _ _ _ _ _ _ _ _ _; set mi := het_mu _ _ _ _ i; set mj := het_mu _ _ _ _ j.
by clearbody n q mi mj; rewrite /half; field.
Qed.

End HetAlg.

(* E_{p(x)}[ Sigma(x) + (M x + b)(M x + b)' ]_{ij}, Sigma(x) = A A' + A_k diag(link(h_k(x))) A_k' (het_Sigma at the link values
   of x), is the second moment het_Sigma_y + mu_y mu_y' of the moment-matched Gaussian, when the code is given the genuine
   expected link values Dint_k = E[link(h_k)] -- for ANY link whose expectation exists *)
Theorem het_covariance_is_integral_gen (p : measure LR) Dy Da Dk (A M : matRF) (b : vecRF)
    (link : vecRF -> nat -> R) (Dint : nat -> R) i j :
  pdf_ok p -> uR p = 1%N -> spd (Sg p 0) -> (i < Dy)%N -> (j < Dy)%N ->
  (forall k, (k < Dk)%N -> is_gint (uD p) (fun x => link x k * exp (ueval p 0 x)) (Dint k)) ->
  let Dx := uD p in
  is_gint Dx (fun x => (het_Sigma Dy Da Dk A (link x) i j + (mvec Dx M x i + b i) * (mvec Dx M x j + b j)) * exp (ueval p 0 x))
          (het_Sigma_y Dy Da Dk Dx A M b (getmu p 0) (getS p 0) Dint i j
           + het_mu Dx M b (getmu p 0) i * het_mu Dx M b (getmu p 0) j).
Proof.
move=> Hp HR sS Hi Hj Hlink Dx; have H0 : (0 < uR p)%N by rewrite HR.
have S_sym : forall a c, (a < Dx)%N -> (c < Dx)%N -> getS p 0 a c = getS p 0 c a by exact/symP/(proj1 sS).
have E := het_Sigma_y_second_moment Da Dk A M b (getmu p 0) Dint Hi Hj S_sym.
apply: is_gint_val (esym E) _.
have I1 := is_gint_scal _ _ _ (mmul Da A (mtr A) i j) (density_integrates_to_one_Sigma Hp sS H0).
have I2 := @is_gint_sumn Dx Dk
  (fun k x => (A i k * A j k) * (link x k * exp (ueval p 0 x))) (fun k => (A i k * A j k) * Dint k)
  (fun k Hk => is_gint_scal _ _ _ (A i k * A j k) (Hlink k Hk)).
have I3 := E_quadratic_outer_is_integral Hp sS H0 M b M b i j.
have := is_gint_plus _ _ _ _ _ (is_gint_plus _ _ _ _ _ I1 I2) I3.
apply: is_gint_ext_val => [x|].
  rewrite -!RplusE -!RmultE het_SigmaE // !mulrDl -sumnMr; congr (_ + _ + _).
  by apply: eq_sumn => k _; ring.
rewrite -!RplusE -!RmultE het_SigmaE // mulr1; congr (_ + _ + _).
by apply: eq_sumn => k _; ring.
Qed.

(* exp link: Dint_k = exp(w0_k + w_k'mu + w_k'Sigma w_k / 2) (expected_exp_noise_is_integral) *)
Theorem het_exp_covariance_is_integral (p : measure LR) Dy Da Dk (A M : matRF) (b : vecRF) (ws : nat -> vecRF) (w0s : vecRF) i j :
  pdf_ok p -> uR p = 1%N -> spd (Sg p 0) -> (i < Dy)%N -> (j < Dy)%N ->
  let Dx := uD p in
  let link := fun (x : vecRF) (k : nat) => exp (dot Dx (ws k) x + w0s k) in
  let Dint := fun k : nat => exp (w0s k + dot Dx (ws k) (getmu p 0) + half RF * quad Dx (getS p 0) (ws k)) in
  is_gint Dx (fun x => (het_Sigma Dy Da Dk A (link x) i j + (mvec Dx M x i + b i) * (mvec Dx M x j + b j)) * exp (ueval p 0 x))
          (het_Sigma_y Dy Da Dk Dx A M b (getmu p 0) (getS p 0) Dint i j
           + het_mu Dx M b (getmu p 0) i * het_mu Dx M b (getmu p 0) j).
Proof.
move=> Hp HR sS Hi Hj Dx link Dint.
apply: (@het_covariance_is_integral_gen p Dy Da Dk A M b link Dint i j) => // k _.
exact: expected_exp_noise_is_integral.
Qed.

(* cosh-1 link: Dint_k = (exp(w0_k + w_k'mu + q_k / 2) + exp(- w0_k - w_k'mu + q_k / 2)) / 2 - 1 *)
Theorem het_coshm1_covariance_is_integral (p : measure LR) Dy Da Dk (A M : matRF) (b : vecRF) (ws : nat -> vecRF) (w0s : vecRF) i j :
  pdf_ok p -> uR p = 1%N -> spd (Sg p 0) -> (i < Dy)%N -> (j < Dy)%N ->
  let Dx := uD p in
  let link := fun (x : vecRF) (k : nat) => (cosh (dot Dx (ws k) x + w0s k) - 1)%coqR in
  let Dint := fun k : nat =>
    ((exp (w0s k + dot Dx (ws k) (getmu p 0) + half RF * quad Dx (getS p 0) (ws k))
      + exp (- w0s k - dot Dx (ws k) (getmu p 0) + half RF * quad Dx (getS p 0) (ws k))) / 2 - 1)%coqR in
  is_gint Dx (fun x => (het_Sigma Dy Da Dk A (link x) i j + (mvec Dx M x i + b i) * (mvec Dx M x j + b j)) * exp (ueval p 0 x))
          (het_Sigma_y Dy Da Dk Dx A M b (getmu p 0) (getS p 0) Dint i j
           + het_mu Dx M b (getmu p 0) i * het_mu Dx M b (getmu p 0) j).
Proof.
move=> Hp HR sS Hi Hj Dx link Dint.
apply: (@het_covariance_is_integral_gen p Dy Da Dk A M b link Dint i j) => // k _.
exact: expected_coshm1_noise_is_integral.
Qed.
Check het_covariance_is_integral_gen.
Check het_exp_covariance_is_integral.
Check het_coshm1_covariance_is_integral.
Print Assumptions het_exp_covariance_is_integral.
Print Assumptions het_coshm1_covariance_is_integral.
