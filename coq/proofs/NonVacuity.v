(* NON-VACUITY.  The property theorems are implications (pdf_ok p -> cond_ok c -> marg_pos c p -> ...).
   This file shows, for EVERY real field F and EVERY lawful log structure LS, that their hypotheses are met
   (a) by every model whose covariances are symmetric positive definite (general lemmas, first section), and
   (b) by concrete small objects with non-diagonal covariances and non-trivial linear maps (second section). *)
From mathcomp Require Import all_ssreflect all_fingroup all_algebra.
From mathcomp Require Import ring.
From GT Require Import Tensor DetExec LogDom MxTac MxLemmas Obj Factor Measure Pdf Cond EvalLemmas Spec
  C01_proofs PdfLemmas C04_proofs C05_proofs C06_proofs C0809_proofs C1013_proofs C11_proofs C11_list C11_kalman SPD.
Set Implicit Arguments.
Unset Strict Implicit.
Unset Printing Implicit Defensive.
Import GRing.Theory Num.Theory.
Local Open Scope ring_scope.

(* ------------------------------------------------------------------------------------------------ *)
(* (a) positive-definite covariances satisfy every side condition                                     *)
(* ------------------------------------------------------------------------------------------------ *)
Section NVgen.
Variable F : realFieldType.
Variable LS : logS F.
Notation mat := (mat F).
Notation vec := (vec F).
Notation measure := (measure LS).
Notation cond := (cond LS).

Definition pdf_spd (p : measure) : Prop := forall r, (r < uR p)%N -> spd (Sg p r).
Definition cond_spd (c : cond) : Prop := forall r, (r < cR c)%N -> spd (cSg c r).

Lemma mk_pdf_Sg diag R D Sig mu Lam hS r : (r < R)%N ->
  Sg (mk_pdf (LS:=LS) diag R D Sig mu Lam hS) r = mxf D D (Sig r).
Proof.
move=> Hr.
have -> : Sg (mk_pdf (LS:=LS) diag R D Sig mu Lam hS) r = mxf D D (tabb R D D Sig r) by [].
by rewrite mxf_tabb.
Qed.

(* the density constructor, given positive-definite covariances only *)
Lemma mk_pdf_ok_spd R D (Sig : nat -> mat) (mu : nat -> vec) :
  (forall r, (r < R)%N -> spd (mxf D D (Sig r))) ->
  pdf_ok (mk_pdf (LS:=LS) false R D Sig mu None None)
  /\ pdf_spd (mk_pdf (LS:=LS) false R D Sig mu None None).
Proof.
move=> Hs; split.
- apply: mk_pdf_ok => r Hr /=; have [Hsym _] := Hs r Hr; split=> //.
  exact: spd_det_gt0 (Hs r Hr).
- move=> r Hr; have Hr' : (r < R)%N := Hr.
  by rewrite mk_pdf_Sg //; exact: Hs.
Qed.

(* the conditional constructor (Sigma given, Lambda and ln det recomputed), non-diagonal classes *)
Lemma mk_cond_ok_spd cl R Dy Dx (M : nat -> mat) (b : nat -> vec) (Sig : nat -> mat) :
  ~~ cdiag cl -> (cident cl -> Dy = Dx) ->
  (forall r, (r < R)%N -> spd (mxf Dy Dy (Sig r))) ->
  cond_ok (mk_cond (LS:=LS) cl R Dy Dx M b (Some Sig) None None)
  /\ cond_spd (mk_cond (LS:=LS) cl R Dy Dx M b (Some Sig) None None).
Proof.
move=> /negbTE Hd Hid Hs; set c := mk_cond _ _ _ _ _ _ _ _ _.
have ES r : (r < R)%N -> cSg c r = mxf Dy Dy (Sig r).
  by move=> Hr; rewrite /cSg /c /mk_cond /= mxf_tabb.
split; last first.
  by move=> r Hr; have Hr' : (r < R)%N := Hr; rewrite ES //; exact: Hs.
move=> r Hr; have Hr' : (r < R)%N := Hr.
have [Hsym _] := Hs r Hr'.
have dpos := spd_det_gt0 (Hs r Hr').
have dn0 : detn Dy (tabb R Dy Dy Sig r) != 0 by rewrite detnE mxf_tabb // lt0r_neq0.
have EL : cLm c r = invmx (mxf Dy Dy (Sig r)).
  by rewrite /cLm /c /mk_cond /= mxf_tabb // /inv_ld Hd /= mxf_inv // mxf_tabb.
have Eh : chS c r = hln LS (\det (mxf Dy Dy (Sig r))).
  by rewrite /c /mk_cond /= tablE // /inv_ld Hd /= detnE mxf_tabb.
split.
- by rewrite ES // EL mulmxV // unitmxE unitfE lt0r_neq0.
- by rewrite EL; exact: sym_inv.
- by rewrite ES.
- by rewrite ES.
- exact: Hid.
Qed.

(* predicted covariance Sigma_y + M Sigma_x M' *)
Lemma SyM_spd (c : cond) (p : measure) k : cDx c = uD p -> cond_spd c -> pdf_spd p ->
  (k < cR c * uR p)%N -> spd (SyM c p k).
Proof.
move=> HD Hc Hp Hk; have [Hrc Hrx] := jr_bounds Hk.
rewrite marg_SigmaE //.
have sSx : spd (mxf (cDx c) (cDx c) (getS p (jrx p k))) by rewrite HD; exact: Hp.
apply: spd_add_psd; first exact: Hc.
set M := mxf _ _ (effM _ _).
have -> : M *m mxf (cDx c) (cDx c) (getS p (jrx p k)) *m M^T
          = (M^T)^T *m mxf (cDx c) (cDx c) (getS p (jrx p k)) *m M^T by rewrite trmxK.
exact: psd_gram.
Qed.

Lemma spd_marg_pos (c : cond) (p : measure) : cDx c = uD p -> cond_spd c -> pdf_spd p -> marg_pos c p.
Proof. by move=> HD Hc Hp k Hk; apply: spd_det_gt0; exact: SyM_spd. Qed.

(* posterior precision Lambda_x + M' Lambda_y M *)
Lemma Pxm_spd (c : cond) (p : measure) k : pdf_ok p -> cond_ok c -> cDx c = uD p ->
  cond_spd c -> pdf_spd p -> (k < cR c * uR p)%N -> spd (Pxm c p k).
Proof.
move=> okp okc HD Hc Hp Hk; have [Hrc Hrx] := jr_bounds Hk.
have [SLx _ _ _ _] := px_facts okp HD Hrx.
have [SLy _ _ _] := cd_facts okc Hrc.
have sSx : spd (mxf (cDx c) (cDx c) (getS p (jrx p k))) by rewrite HD; exact: Hp.
rewrite /Pxm; apply: spd_add_psd.
- by rewrite (inv_unique (mulmx1C SLx)); exact: spd_inv.
- apply: psd_gram; rewrite (inv_unique (mulmx1C SLy)); apply: spd_inv; exact: Hc.
Qed.

Lemma spd_post_pos (c : cond) (p : measure) : pdf_ok p -> cond_ok c -> cDx c = uD p ->
  cond_spd c -> pdf_spd p -> post_pos c p.
Proof.
move=> okp okc HD Hc Hp k Hk.
have := spd_det_gt0 (Pxm_spd okp okc HD Hc Hp Hk).
by rewrite /Pxm /Mm /cLm /Lm -HD.
Qed.

(* the predicted density and the updated density are again positive definite *)
Lemma affine_marginal_spd (c : cond) (p : measure) : cDx c = uD p -> cond_spd c -> pdf_spd p ->
  pdf_spd (affine_marginal c p).
Proof.
move=> HD Hc Hp k Hk; have Hk' : (k < cR c * uR p)%N := Hk.
rewrite /affine_marginal mk_pdf_Sg // -/(SyM c p k); exact: SyM_spd.
Qed.

Lemma bayes_step_spd (c : cond) (y : vec) (p : measure) : single c p -> cond_spd c -> pdf_spd p ->
  pdf_spd (bayes_step c y p).
Proof.
move=> [okp okc HD HRc HRp] Hc Hp r Hr.
have Hpost := spd_post_pos okp okc HD Hc Hp.
have [_ [Rb _]] := affine_conditional_ok okp okc HD Hpost.
have H0 : (0 < cR c * uR p)%N by rewrite HRc HRp.
have Hq0 : (0 < cR (affine_conditional c p) * size [:: y])%N by rewrite Rb HRc HRp.
have Er : r = 0%N.
  have : (r < cR (affine_conditional c p) * size [:: y])%N := Hr.
  by rewrite Rb HRc HRp; case: r {Hr}.
rewrite Er /bayes_step /condition_on_x mk_pdf_Sg // div0n -/(cSg (affine_conditional c p) 0).
have sP := Pxm_spd okp okc HD Hc Hp H0.
rewrite acond_Sg //; [exact: spd_inv | exact: spd_det_gt0].
Qed.

(* ---- any observation list over positive-definite models satisfies obs_ok ---- *)
Fixpoint ospd (D : nat) (os : seq (obs LS)) : Prop :=
  match os with
  | [::] => True
  | o :: os' => [/\ cond_ok o.1, cond_spd o.1, cR o.1 = 1%N & cDx o.1 = D] /\ ospd D os'
  end.

Theorem obs_ok_of_spd (os : seq (obs LS)) (p : measure) :
  pdf_ok p -> uR p = 1%N -> pdf_spd p -> ospd (uD p) os -> obs_ok os p.
Proof.
elim: os p => [|[c y] os IH] p okp HR Hp //.
rewrite [ospd _ _]/= [obs_ok _ _]/= => -[[okc sc Rc Dc] Hos].
have S1 : single c p by split.
have P1 := spd_post_pos okp okc Dc sc Hp.
have M1 := spd_marg_pos Dc sc Hp.
split=> //.
have [okq Rq Dq _ _] := bayes_step_natural y S1 P1.
apply: IH => //; first exact: bayes_step_spd.
by rewrite Dq.
Qed.

(* ---- any Kalman step list over positive-definite models satisfies kok ---- *)
Fixpoint kspd (D : nat) (ss : seq (kstep LS)) : Prop :=
  match ss with
  | [::] => True
  | s :: ss' =>
      [/\ cond_ok (ktrans s), cond_spd (ktrans s), cR (ktrans s) = 1%N & cDx (ktrans s) = D]
      /\ [/\ cond_ok (kobs s), cond_spd (kobs s), cR (kobs s) = 1%N & cDx (kobs s) = cDy (ktrans s)]
      /\ kspd (cDy (ktrans s)) ss'
  end.

Theorem kok_of_spd (ss : seq (kstep LS)) (p : measure) :
  pdf_ok p -> uR p = 1%N -> pdf_spd p -> kspd (uD p) ss -> kok ss p.
Proof.
elim: ss p => [|s ss IH] p okp HR Hp //.
rewrite [kspd _ _]/= kok_cons => -[[okt st Rt Dt] [[oko so Ro Do] Hss]].
have S1 : single (ktrans s) p by split.
have M1 := spd_marg_pos Dt st Hp.
have P1 := spd_post_pos okp okt Dt st Hp.
have okpred : pdf_ok (kpred s p) := affine_marginal_ok okp okt Dt M1.
have Rpred : uR (kpred s p) = 1%N.
  by have -> : uR (kpred s p) = (cR (ktrans s) * uR p)%N by []; rewrite Rt HR.
have spred : pdf_spd (kpred s p) := affine_marginal_spd Dt st Hp.
have Dpred : uD (kpred s p) = cDy (ktrans s) by [].
have Do' : cDx (kobs s) = uD (kpred s p) by rewrite Dpred.
have S2 : single (kobs s) (kpred s p) by split.
have M2 := spd_marg_pos Do' so spred.
have P2 := spd_post_pos okpred oko Do' so spred.
split=> //; split=> //.
have [okq Rq Dq _ _] := bayes_step_natural (ky s) S2 P2.
apply: IH => //; first exact: bayes_step_spd.
have -> : uD (kpost s p) = cDy (ktrans s) by rewrite -Dpred.
exact: Hss.
Qed.

End NVgen.

(* ------------------------------------------------------------------------------------------------ *)
(* (b) concrete objects                                                                               *)
(* ------------------------------------------------------------------------------------------------ *)
Section NVconcrete.
Variable F : realFieldType.
Variable LS : logS F.
Notation mat := (mat F).
Notation vec := (vec F).
Notation measure := (measure LS).
Notation cond := (cond LS).

(* literal 2x2 matrices [[a, b], [c, d]], 1x2 rows [a b] and 2-vectors (a, b) *)
Definition m22 (a b c d : F) : mat :=
  fun i j => if i == 0%N then (if j == 0%N then a else b) else (if j == 0%N then c else d).
Definition r2 (a b : F) : mat := fun _ j => if j == 0%N then a else b.
Definition v2 (a b : F) : vec := fun i => if i == 0%N then a else b.

Lemma I2_cases (P : 'I_2 -> Prop) : P ord0 -> P (lift ord0 ord0) -> forall i, P i.
Proof.
move=> P0 P1 i; case: (unliftP ord0 i) => [j ->|->] //.
by rewrite (ord1 j).
Qed.

(* Sylvester's criterion in dimension 2 *)
Lemma spd_m22 (a b d : F) : 0 < a -> 0 < a * d - b * b -> spd (mxf 2 2 (m22 a b b d)).
Proof.
move=> a0 dt0; split.
  by apply/matrixP; elim/I2_cases; elim/I2_cases; rewrite !mxE.
move=> x xn0.
set x0 : F := x ord0 0; set x1 : F := x (lift ord0 ord0) 0.
have E : qf (mxf 2 2 (m22 a b b d)) x = a * x0 ^+ 2 + 2%:R * b * x0 * x1 + d * x1 ^+ 2.
  rewrite /qf mxE !big_ord_recl big_ord0 !mxE !big_ord_recl !big_ord0 !mxE /m22 /= -/x0 -/x1.
  clearbody x0 x1; by ring.
have E2 : a * qf (mxf 2 2 (m22 a b b d)) x = (a * x0 + b * x1) ^+ 2 + (a * d - b * b) * x1 ^+ 2.
  by rewrite E; ring.
rewrite -(pmulr_rgt0 _ a0) E2.
case: (eqVneq x1 0) => [z1|n1].
- have n0 : x0 != 0.
    apply: contra xn0 => /eqP z0; apply/eqP/matrixP => i j; rewrite (ord1 j) [RHS]mxE.
    by elim/I2_cases: i.
  rewrite z1 expr0n /= mulr0 addr0 mulr0 addr0 exprMn.
  by apply: mulr_gt0; rewrite exprn_even_gt0 // ?lt0r_neq0.
- apply: ltr_paddl; first exact: sqr_ge0.
  by apply: mulr_gt0 => //; rewrite exprn_even_gt0.
Qed.

Lemma spd_11 (a : F) : 0 < a -> spd (mxf 1 1 (fun _ _ => a)).
Proof.
move=> a0; split; first exact: SPD.tr11.
move=> x xn0; rewrite /qf mxE big_ord1 !mxE big_ord1 !mxE.
have n0 : x 0 0 != 0.
  by apply: contra xn0 => /eqP z0; apply/eqP/matrixP => i j; rewrite !ord1 [RHS]mxE.
rewrite mulrAC -expr2; apply: mulr_gt0 => //.
by rewrite exprn_even_gt0.
Qed.

(* ---- the objects ---- *)
(* prior: 2-D density, covariance [[2,1],[1,2]], mean (1,-1) *)
Definition nvS : mat := m22 2%:R 1 1 2%:R.
Definition nvmu : vec := v2 1 (-1).
Definition nv_prior : measure := mk_pdf (LS:=LS) false 1 2 (fun _ => nvS) (fun _ => nvmu) None None.
(* emission: y = [1 2] x + 1/2 + noise, noise variance 3 *)
Definition nvM : mat := r2 1 2%:R.
Definition nvb : vec := fun _ => 2%:R^-1.
Definition nvR : mat := fun _ _ => 3%:R.
Definition nv_cond : cond := mk_cond (LS:=LS) CFull 1 1 2 (fun _ => nvM) (fun _ => nvb) (Some (fun _ => nvR)) None None.
(* transition: x' = [[1,2],[3,1]] x + (1,2) + noise, noise covariance [[3,1],[1,2]] *)
Definition nvA : mat := m22 1 2%:R 3%:R 1.
Definition nvc : vec := v2 1 2%:R.
Definition nvQ : mat := m22 3%:R 1 1 2%:R.
Definition nv_trans : cond := mk_cond (LS:=LS) CFull 1 2 2 (fun _ => nvA) (fun _ => nvc) (Some (fun _ => nvQ)) None None.
(* observed values *)
Definition nvy : vec := fun _ => 2%:R.
Definition nvy' : vec := fun _ => - 5%:R.
(* an un-normalised measure with precision [[3,1],[1,2]] and no cache populated *)
Definition nvL : mat := m22 3%:R 1 1 2%:R.
Definition nvnu : vec := v2 1 2%:R.
Definition nv_measure : measure :=
  mk_measure (LS:=LS) CMeas 1 2 (fun _ => nvL) (fun _ => nvnu) (fun _ => 0) None None None.

(* the objects are what they claim to be: entries of the matrices *)
Lemma nvS_entries : [/\ nvS 0%N 0%N = 2%:R, nvS 0%N 1%N = 1, nvS 1%N 0%N = 1 & nvS 1%N 1%N = 2%:R].
Proof. by []. Qed.
Lemma nvA_entries : [/\ nvA 0%N 0%N = 1, nvA 0%N 1%N = 2%:R, nvA 1%N 0%N = 3%:R & nvA 1%N 1%N = 1].
Proof. by []. Qed.

(* 6. positive definiteness of the concrete covariances *)
Lemma nv_spd : spd (mxf 2 2 nvS).
Proof.
apply: spd_m22; first by rewrite ltr0n.
have -> : 2%:R * 2%:R - 1 * 1 = 3%:R :> F by ring.
by rewrite ltr0n.
Qed.
Lemma nvQ_spd : spd (mxf 2 2 nvQ).
Proof.
apply: spd_m22; first by rewrite ltr0n.
have -> : 3%:R * 2%:R - 1 * 1 = 5%:R :> F by ring.
by rewrite ltr0n.
Qed.
Lemma nvR_spd : spd (mxf 1 1 nvR).
Proof. by apply: spd_11; rewrite ltr0n. Qed.
Lemma nv_det : \det (mxf 2 2 nvS) = 3%:R.
Proof.
rewrite -detnE /= /sumn /= /minor /nvS /m22 /=.
by ring.
Qed.

(* 1. the prior *)
Lemma nv_prior_ok : pdf_ok nv_prior.
Proof. by have [] := mk_pdf_ok_spd LS (fun _ => nvmu) (fun r (_ : (r < 1)%N) => nv_spd). Qed.
Lemma nv_prior_spd : pdf_spd nv_prior.
Proof. by have [] := mk_pdf_ok_spd LS (fun _ => nvmu) (fun r (_ : (r < 1)%N) => nv_spd). Qed.
Lemma nv_prior_shape : uR nv_prior = 1%N /\ uD nv_prior = 2%N.
Proof. by []. Qed.

(* 2. the conditionals *)
Lemma nv_cond_both : cond_ok nv_cond /\ cond_spd nv_cond.
Proof. by apply: mk_cond_ok_spd => // r _; exact: nvR_spd. Qed.
Lemma nv_cond_ok : cond_ok nv_cond.
Proof. by have [] := nv_cond_both. Qed.
Lemma nv_cond_spd : cond_spd nv_cond.
Proof. by have [] := nv_cond_both. Qed.
Lemma nv_trans_both : cond_ok nv_trans /\ cond_spd nv_trans.
Proof. by apply: mk_cond_ok_spd => // r _; exact: nvQ_spd. Qed.
Lemma nv_trans_ok : cond_ok nv_trans.
Proof. by have [] := nv_trans_both. Qed.
Lemma nv_trans_spd : cond_spd nv_trans.
Proof. by have [] := nv_trans_both. Qed.

(* 3. hypotheses of C08 / C09 / C11 *)
Lemma nv_single : single nv_cond nv_prior.
Proof. by split=> //; [exact: nv_prior_ok | exact: nv_cond_ok]. Qed.
Lemma nv_marg_pos : marg_pos nv_cond nv_prior.
Proof. by apply: spd_marg_pos => //; [exact: nv_cond_spd | exact: nv_prior_spd]. Qed.
Lemma nv_post_pos : post_pos nv_cond nv_prior.
Proof.
by apply: spd_post_pos => //; [exact: nv_prior_ok | exact: nv_cond_ok | exact: nv_cond_spd | exact: nv_prior_spd].
Qed.
Lemma nv_single_trans : single nv_trans nv_prior.
Proof. by split=> //; [exact: nv_prior_ok | exact: nv_trans_ok]. Qed.
Lemma nv_marg_pos_trans : marg_pos nv_trans nv_prior.
Proof. by apply: spd_marg_pos => //; [exact: nv_trans_spd | exact: nv_prior_spd]. Qed.
Lemma nv_post_pos_trans : post_pos nv_trans nv_prior.
Proof.
by apply: spd_post_pos => //; [exact: nv_prior_ok | exact: nv_trans_ok | exact: nv_trans_spd | exact: nv_prior_spd].
Qed.

(* 4. observation lists (one, and two observations of which the second goes through the transition model) *)
Lemma nv_obs_ok : obs_ok [:: (nv_cond, nvy)] nv_prior.
Proof.
apply: obs_ok_of_spd => //; [exact: nv_prior_ok | exact: nv_prior_spd |].
by split=> //; split=> //; [exact: nv_cond_ok | exact: nv_cond_spd].
Qed.
Lemma nv_obs_ok3 : obs_ok [:: (nv_cond, nvy); (nv_trans, v2 1 3%:R); (nv_cond, nvy')] nv_prior.
Proof.
apply: obs_ok_of_spd => //; [exact: nv_prior_ok | exact: nv_prior_spd |].
have Hc : [/\ cond_ok nv_cond, cond_spd nv_cond, cR nv_cond = 1%N & cDx nv_cond = 2%N].
  by split=> //; [exact: nv_cond_ok | exact: nv_cond_spd].
have Ht : [/\ cond_ok nv_trans, cond_spd nv_trans, cR nv_trans = 1%N & cDx nv_trans = 2%N].
  by split=> //; [exact: nv_trans_ok | exact: nv_trans_spd].
by do !split=> //.
Qed.

(* 5. Kalman step lists *)
Lemma nv_kspd1 : [/\ cond_ok nv_trans, cond_spd nv_trans, cR nv_trans = 1%N & cDx nv_trans = 2%N]
  /\ [/\ cond_ok nv_cond, cond_spd nv_cond, cR nv_cond = 1%N & cDx nv_cond = cDy nv_trans].
Proof.
split; split=> //; [exact: nv_trans_ok | exact: nv_trans_spd | exact: nv_cond_ok | exact: nv_cond_spd].
Qed.
Lemma nv_kok : kok [:: KStep nv_trans nv_cond nvy] nv_prior.
Proof.
apply: kok_of_spd => //; [exact: nv_prior_ok | exact: nv_prior_spd |].
by have [H1 H2] := nv_kspd1; split.
Qed.
Lemma nv_kok2 : kok [:: KStep nv_trans nv_cond nvy; KStep nv_trans nv_cond nvy'] nv_prior.
Proof.
apply: kok_of_spd => //; [exact: nv_prior_ok | exact: nv_prior_spd |].
by have [H1 H2] := nv_kspd1; do !split=> //.
Qed.
(* ... and any number of steps *)
Lemma nv_kokn n : kok (nseq n (KStep nv_trans nv_cond nvy)) nv_prior.
Proof.
apply: kok_of_spd => //; [exact: nv_prior_ok | exact: nv_prior_spd |].
have [H1 H2] := nv_kspd1.
by elim: n => [|n IH] //; split=> //; split.
Qed.

(* 7. an un-normalised measure: hypotheses of C02 / C04 / C14 *)
Lemma nvL_spd : spd (mxf 2 2 nvL).
Proof. exact: nvQ_spd. Qed.
Lemma nv_cache_ok : cache_ok nv_measure /\ diag_ok nv_measure /\ posdet nv_measure.
Proof.
have EL r : (r < 1)%N -> Lm nv_measure r = mxf 2 2 nvL.
  by move=> Hr; rewrite /Lm /nv_measure /mk_measure /= mxf_tabb.
split; [|split].
- move=> r Hr; have Hr' : (r < 1)%N := Hr.
  by split=> //; rewrite EL //; have [] := nvL_spd.
- by [].
- move=> r Hr; have Hr' : (r < 1)%N := Hr.
  by rewrite EL //; exact: spd_det_gt0 nvL_spd.
Qed.

End NVconcrete.

(* the concrete predictive variance of y under nv_cond and nv_prior: 3 + [1 2] [[2,1],[1,2]] [1 2]' = 17 *)
Lemma nv_marg_value (F : realFieldType) (LS : logS F) : \det (SyM (nv_cond LS) (nv_prior LS) 0) = 17%:R.
Proof.
rewrite /SyM -detnE /= /sumn /= /minor /marg_Sigma /madd /mmul /mtr /effM /jrc /jrx /= /sumn /=.
have [HS _] := mk_pdf_params (LS:=LS) false 2 (fun _ => nvS F) (fun _ => nvmu F) None None (ltn0Sn 0).
rewrite !tabbE //= modn1 /nv_prior !HS // /nvR /nvM /nvS /r2 /m22 /=.
by ring.
Qed.

Print Assumptions mk_pdf_ok_spd.
Print Assumptions mk_cond_ok_spd.
Print Assumptions spd_marg_pos.
Print Assumptions spd_post_pos.
Print Assumptions obs_ok_of_spd.
Print Assumptions kok_of_spd.
Print Assumptions spd_m22.
Print Assumptions nv_prior_ok.
Print Assumptions nv_prior_shape.
Print Assumptions nv_cond_ok.
Print Assumptions nv_trans_ok.
Print Assumptions nv_single.
Print Assumptions nv_marg_pos.
Print Assumptions nv_post_pos.
Print Assumptions nv_obs_ok.
Print Assumptions nv_obs_ok3.
Print Assumptions nv_kok.
Print Assumptions nv_kok2.
Print Assumptions nv_kokn.
Print Assumptions nv_spd.
Print Assumptions nv_det.
Print Assumptions nv_cache_ok.
Print Assumptions nv_marg_value.
