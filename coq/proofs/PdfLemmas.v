(* Shared lemmas about densities and conditionals: what the GaussianPDF constructor establishes,
   and what an object satisfying the density invariant evaluates to. *)
From mathcomp Require Import all_ssreflect all_algebra.
From mathcomp Require Import ring.
From GT Require Import Tensor DetExec LogDom MxTac MxLemmas Obj Factor Measure Pdf Cond EvalLemmas Spec.
Set Implicit Arguments.
Unset Strict Implicit.
Unset Printing Implicit Defensive.
Import GRing.Theory Num.Theory.
Local Open Scope ring_scope.

Section PdfLemmas.
Variable F : realFieldType.
Variable LS : logS F.
Notation mat := (mat F).
Notation vec := (vec F).
Notation lvec := (nat -> LS).
Notation measure := (measure LS).
Notation cond := (cond LS).

(* scalars (1x1 matrices) *)
Lemma sc_tr (A : 'M[F]_1) : sc A^T = sc A.
Proof. by rewrite /sc mxE. Qed.
Lemma scD (A B : 'M[F]_1) : sc (A + B) = sc A + sc B.
Proof. by rewrite /sc mxE. Qed.
Lemma scN (A : 'M[F]_1) : sc (- A) = - sc A.
Proof. by rewrite /sc mxE. Qed.
Lemma scB (A B : 'M[F]_1) : sc (A - B) = sc A - sc B.
Proof. by rewrite scD scN. Qed.

(* completing the square with nu = L mu *)
Lemma normal_quad n (L S : 'M[F]_n) (mu x : 'cV[F]_n) : S *m L = 1%:M -> L^T = L ->
  - half F * sc (x^T *m L *m x) + sc (x^T *m (L *m mu)) - half F * sc ((L *m mu)^T *m S *m (L *m mu))
  = - half F * sc ((x - mu)^T *m L *m (x - mu)).
Proof.
move=> SL Lsym.
have E1 : (L *m mu)^T *m S *m (L *m mu) = mu^T *m L *m mu.
  by rewrite trmx_mul Lsym -!mulmxA [S *m (L *m mu)]mulmxA SL mul1mx.
have E2 : (x - mu)^T *m L *m (x - mu)
        = x^T *m L *m x - x^T *m L *m mu - mu^T *m L *m x + mu^T *m L *m mu.
  rewrite [(x - mu)^T]linearB /= !mulmxBl !mulmxBr; mx_abel.
have E3 : sc (mu^T *m L *m x) = sc (x^T *m L *m mu).
  by rewrite -sc_tr !trmx_mul trmxK Lsym mulmxA.
rewrite E1 E2 !(scD, scN) E3 mulmxA.
set a := sc _; set b := sc _; set d := sc _; clearbody a b d.
by rewrite /half; field.
Qed.


(* an object satisfying the density invariant evaluates to the normal density of its mean and covariance *)
Lemma pdf_ok_eval (p : measure) r (x : vec) : pdf_ok p -> (r < uR p)%N ->
  ueval p r x = lnN LS (muv p r) (Sg p r) (cvf (uD p) x).
Proof.
move=> Hp Hr; have [[Hsym HS _ _ HZ] [aS ahS amu aZ] Hnu Hlb] := Hp r Hr.
have [SL dpos EhS] := HS aS.
have [_ EZ] := HZ aZ.
have LSg : Lm p r *m Sg p r = 1%:M by apply: mulmx1C.
rewrite /ueval /eval_core Hlb EZ EhS quadE dotE -/(Lm p r) -/(nuv p r) /lnN -(inv_unique LSg).
rewrite Hnu -[_ 0 0]/(sc _) -[(_ *m (Lm p r *m _)) 0 0]/(sc _).
rewrite !opprD !addrA; congr (_ - _ - _).
by rewrite -raddfB /= -(normal_quad _ _ SL Hsym).
Qed.

(* contract of the GaussianPDF / GaussianDiagPDF constructor (pdf.py:44-51, 275-282): Sigma symmetric
   with positive determinant; a supplied Lambda is its inverse; a supplied ln_det_Sigma is its
   log-determinant; the diagonal class is given a diagonal Sigma *)
Definition pdf_args_ok (diag : bool) (R D : nat) (Sig : nat -> mat) (Lam : option (nat -> mat))
    (hS : option lvec) : Prop := forall r, (r < R)%N ->
  let S := mxf D D (Sig r) in
  [/\ S^T = S, 0 < \det S,
      diag -> Lam = None -> forall i j, (i < D)%N -> (j < D)%N -> i != j -> Sig r i j = 0,
      forall L, Lam = Some L -> S *m mxf D D (L r) = 1%:M
    & forall L h, Lam = Some L -> hS = Some h -> h r = hln LS (\det S)].

(* the fields the constructor computes *)
Definition pdf_Lam (diag : bool) (R D : nat) (Sig : nat -> mat) (Lam : option (nat -> mat)) : nat -> mat :=
  match Lam with
  | None => tabb R D D (fun k => (inv_ld LS diag D (tabb R D D Sig k)).1)
  | Some L => tabb R D D L
  end.
Definition pdf_hS (diag : bool) (R D : nat) (Sig : nat -> mat) (Lam : option (nat -> mat))
    (hS : option lvec) : lvec :=
  match Lam with
  | None => tabl R (fun k => (inv_ld LS diag D (tabb R D D Sig k)).2)
  | Some _ => match hS with
              | Some h => tabl R h
              | None => tabl R (fun k => hln LS (detn D (tabb R D D Sig k)))
              end
  end.
Definition pdf_nu diag R D Sig (mu : nat -> vec) Lam : nat -> vec :=
  tabbv R D (fun k => vmat D (tabbv R D mu k) (pdf_Lam diag R D Sig Lam k)).
Definition pdf_lnZ diag R D Sig mu Lam hS : lvec :=
  tabl R (fun k => emb LS (half F * dot D (pdf_nu diag R D Sig mu Lam k)
                                        (mvec D (tabb R D D Sig k) (pdf_nu diag R D Sig mu Lam k)))
                   + hl2p LS *+ D + pdf_hS diag R D Sig Lam hS k).

Lemma mk_pdfE diag R D Sig mu Lam hS :
  mk_pdf (LS:=LS) diag R D Sig mu Lam hS
  = Measure R D (pdf_Lam diag R D Sig Lam) (pdf_nu diag R D Sig mu Lam)
            (tabl R (fun k => - pdf_lnZ diag R D Sig mu Lam hS k))
            (Some (tabb R D D Sig)) (Some (pdf_hS diag R D Sig Lam hS)) None
            (Some (tabbv R D mu)) (Some (pdf_lnZ diag R D Sig mu Lam hS))
            (if diag then CDiagPdf else CPdf).
Proof. by []. Qed.

Lemma mk_pdf_shape diag R D Sig mu Lam hS :
  uR (mk_pdf (LS:=LS) diag R D Sig mu Lam hS) = R /\ uD (mk_pdf (LS:=LS) diag R D Sig mu Lam hS) = D.
Proof. by []. Qed.

Lemma mk_pdf_params diag R D Sig mu Lam hS r : (r < R)%N ->
  (forall i j, (i < D)%N -> (j < D)%N -> getS (mk_pdf (LS:=LS) diag R D Sig mu Lam hS) r i j = Sig r i j)
  /\ (forall i, (i < D)%N -> getmu (mk_pdf (LS:=LS) diag R D Sig mu Lam hS) r i = mu r i).
Proof.
move=> Hr; rewrite mk_pdfE /getS /getmu /=; split=> [i j Hi Hj|i Hi].
- by rewrite tabbE.
- by rewrite tabbvE.
Qed.


(* a diagonal matrix with non-zero determinant: entrywise inverse, product of the diagonal *)
Lemma diag_inv D (A : mat) :
  (forall i j, (i < D)%N -> (j < D)%N -> i != j -> A i j = 0) -> \det (mxf D D A) != 0 ->
  mxf D D A *m mxf D D (minv_diag A) = 1%:M /\ prodn D (fun i => A i i) = \det (mxf D D A).
Proof.
move=> Hd dn0.
have EA : mxf D D A = diag_mx (\row_i A i i).
  apply/matrixP => i j; rewrite !mxE; case: (altP (i =P j)) => [->|ne]; rewrite ?mulr1n // mulr0n.
  by apply: Hd.
have EI : mxf D D (minv_diag A) = diag_mx (\row_i (A i i)^-1).
  apply/matrixP => i j; rewrite !mxE /minv_diag -val_eqE.
  by case: (_ == _); rewrite ?mulr1n ?mulr0n.
have Edet : \det (mxf D D A) = \prod_(i < D) A i i.
  by rewrite EA mathcomp.algebra.matrix.det_diag; apply: eq_bigr => i _; rewrite mxE.
split; last by rewrite prodnE Edet.
have nz (i : 'I_D) : A i i != 0 by move: dn0; rewrite Edet => /prodf_neq0 /(_ i isT).
rewrite EA EI mulmx_diag; apply/matrixP => i j; rewrite !mxE mulfV //.
Qed.

Lemma pdf_fields diag R D Sig Lam hS r : pdf_args_ok diag R D Sig Lam hS -> (r < R)%N ->
  mxf D D (Sig r) *m mxf D D (pdf_Lam diag R D Sig Lam r) = 1%:M
  /\ pdf_hS diag R D Sig Lam hS r = hln LS (\det (mxf D D (Sig r))).
Proof.
move=> Ha Hr; have /= [Ssym dpos Hdiag HL Hh] := Ha r Hr; move=> {Ha}.
have dn0 : \det (mxf D D (Sig r)) != 0 by rewrite lt0r_neq0.
rewrite /pdf_Lam /pdf_hS; case: Lam HL Hh Hdiag => [L|] HL Hh Hdiag.
  rewrite mxf_tabb // (HL L erefl); split=> //.
  case: hS Hh => [h|] Hh; rewrite tablE //; first exact: Hh.
  by rewrite detnE mxf_tabb.
rewrite mxf_tabb // tablE // /inv_ld; case: diag Hdiag => Hdiag /=.
  have Hd0 i j : (i < D)%N -> (j < D)%N -> i != j -> tabb R D D Sig r i j = 0.
    by move=> Hi Hj ne; rewrite tabbE //; apply: Hdiag.
  have Hn0 : \det (mxf D D (tabb R D D Sig r)) != 0 by rewrite mxf_tabb.
  have [H1 H2] := diag_inv Hd0 Hn0.
  by rewrite mxf_tab H2 -(@mxf_tabb _ R D D Sig r Hr).
have dn0' : detn D (tabb R D D Sig r) != 0 by rewrite detnE mxf_tabb.
rewrite mxf_inv // detnE mxf_tabb //; split=> //.
by rewrite mulmxV // unitmxE unitfE.
Qed.


Lemma mk_pdf_ok diag R D Sig mu Lam hS :
  pdf_args_ok diag R D Sig Lam hS -> pdf_ok (mk_pdf (LS:=LS) diag R D Sig mu Lam hS).
Proof.
move=> Ha r; rewrite mk_pdfE => Hr; rewrite /= in Hr.
have [SL EhS] := pdf_fields Ha Hr.
have /= [Ssym dpos _ _ _] := Ha r Hr.
set p := Measure _ _ _ _ _ _ _ _ _ _ _.
set S := mxf D D (Sig r) in SL EhS Ssym dpos.
set L := mxf D D (pdf_Lam diag R D Sig Lam r) in SL.
have ESg : Sg p r = S by rewrite /Sg /p /= mxf_tabb.
have ELm : Lm p r = L by [].
have Emu : muv p r = cvf D (mu r) by rewrite /muv /= cvf_tabbv.
have Lsym : L^T = L by apply: (inv_sym (mulmx1C SL) Ssym).
have Enu : nuv p r = L *m cvf D (mu r).
  rewrite /nuv /= /pdf_nu cvf_tabbv //; apply: trmx_inj.
  by rewrite cvf_vmat trmx_mul Lsym cvf_tabbv.
have EhSg : gethS p r = hln LS (\det S) by rewrite /gethS /= EhS.
have ElnZ : getlnZ p r = emb LS (half F * sc ((nuv p r)^T *m S *m nuv p r)) + hl2p LS *+ D + hln LS (\det S).
  by rewrite /getlnZ /= /pdf_lnZ tablE // dotE cvf_mvec mxf_tabb // EhS mulmxA.
split; [split|by []| |].
- by rewrite ELm.
- by move=> _; rewrite ESg ELm EhSg; split.
- by move=> _; split.
- by move=> _; split=> //; rewrite Emu ESg Enu mulmxA SL mul1mx.
- by move=> _; split=> //; rewrite ElnZ ESg EhSg.
- by rewrite Enu ELm Emu.
- by rewrite /= tablE.
Qed.

(* every object built by the constructor under its contract IS the normal density N(mu, Sigma) *)
Lemma mk_pdf_eval diag R D Sig mu Lam hS r (x : vec) :
  pdf_args_ok diag R D Sig Lam hS -> (r < R)%N ->
  ueval (mk_pdf (LS:=LS) diag R D Sig mu Lam hS) r x
  = lnN LS (cvf D (mu r)) (mxf D D (Sig r)) (cvf D x).
Proof.
move=> Ha Hr; rewrite (@pdf_ok_eval _ r x (mk_pdf_ok (mu:=mu) Ha)) //.
by rewrite /muv /Sg mk_pdfE /= cvf_tabbv // mxf_tabb.
Qed.


(* conditioning a conditional on points: component r*N+n is N(M_r x_n + b_r, Sigma_r) *)
Lemma condition_on_x_R (c : cond) (xs : seq vec) : uR (condition_on_x c xs) = (cR c * size xs)%N.
Proof. by []. Qed.

Lemma cond_args_ok (c : cond) (xs : seq vec) : cond_ok c ->
  pdf_args_ok false (cR c * size xs) (cDy c) (fun k => cSig c (k %/ size xs)%N)
              (Some (fun k => cLam c (k %/ size xs)%N)) (Some (fun k => chS c (k %/ size xs)%N)).
Proof.
move=> Hc k Hk.
have HN : (0 < size xs)%N by case: (size xs) Hk => //; rewrite muln0.
have Hr : (k %/ size xs < cR c)%N by rewrite ltn_divLR.
have [Hinv Hsym Hpos Hhld _] := Hc _ Hr.
split=> //.
- exact: (inv_sym Hinv Hsym).
- by move=> L [<-].
- by move=> L h _ [<-].
Qed.

(* the rectangular "identity" applied to a vector keeps its first m coordinates *)
Lemma mid_mulcv m n (x : vec) : (m <= n)%N -> mxf m n mid *m cvf n x = cvf m x.
Proof.
move=> le; apply/matrixP => i j; rewrite !mxE.
have Hi : (i < n)%N := leq_trans (ltn_ord i) le.
rewrite (bigD1 (Ordinal Hi)) //= !mxE /mid eqxx mul1r big1 ?addr0 // => k ne.
rewrite !mxE; case: eqP => [E|]; last by rewrite mul0r.
by case/eqP: ne; apply: val_inj.
Qed.

Lemma condition_on_x_eval (c : cond) (xs : seq vec) r n (y : vec) :
  cond_ok c -> (r < cR c)%N -> (n < size xs)%N ->
  ueval (condition_on_x c xs) (r * size xs + n) y
  = lnN LS (cMm c r *m cvf (cDx c) (nth vzero xs n) + cbv c r) (cSg c r) (cvf (cDy c) y).
Proof.
move=> Hc Hr Hn.
have Hk : (r * size xs + n < cR c * size xs)%N.
  apply: (@leq_trans (r.+1 * size xs)); last by rewrite leq_mul2r Hr orbT.
  by rewrite mulSn addnC ltn_add2r.
have Hd : ((r * size xs + n) %/ size xs = r)%N by rewrite divnMDl ?(leq_ltn_trans _ Hn) // divn_small // addn0.
have Hm : ((r * size xs + n) %% size xs = n)%N by rewrite modnMDl modn_small.
rewrite /condition_on_x (mk_pdf_eval _ _ (cond_args_ok (xs:=xs) Hc)) // Hd Hm -/(cSg c r).
suff -> : cvf (cDy c) (cond_mu c r (nth vzero xs n))
          = cMm c r *m cvf (cDx c) (nth vzero xs n) + cbv c r by [].
have [_ _ _ _ Hid] := Hc _ Hr.
rewrite /cMm /cbv /effM /effb /cond_mu; case: (cident _) Hid => Hid.
  by rewrite cvf_zero addr0 mid_mulcv // Hid.
by rewrite cvf_add cvf_mvec.
Qed.

Lemma condition_on_x_ok (c : cond) (xs : seq vec) : cond_ok c -> pdf_ok (condition_on_x c xs).
Proof. by move=> Hc; apply: mk_pdf_ok; apply: cond_args_ok. Qed.

End PdfLemmas.
Print Assumptions normal_quad.
Print Assumptions pdf_ok_eval.
Print Assumptions mk_pdf_shape.
Print Assumptions mk_pdf_params.
Print Assumptions mk_pdf_ok.
Print Assumptions mk_pdf_eval.
Print Assumptions condition_on_x_R.
Print Assumptions condition_on_x_eval.
Print Assumptions condition_on_x_ok.
