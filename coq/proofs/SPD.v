(* Positive-definite matrices over an arbitrary real field: congruence, Schur complements,
   determinant positivity, Fischer one-step, tr(AB) >= 0, and the log-det / trace inequality
   oln det L + oln det S <= (tr (L S) - n) / 2 with its equality case, all by induction on the
   dimension (no eigenvalues, no square roots). *)
From mathcomp Require Import all_ssreflect all_fingroup all_algebra.
From mathcomp Require Import ring.
From GT Require Import MxTac MxLemmas OLog.
Set Implicit Arguments.
Unset Strict Implicit.
Unset Printing Implicit Defensive.
Import GRing.Theory Num.Theory Order.Theory.
Local Open Scope ring_scope.

Section SPD.
Variable F : realFieldType.

Definition sym n (A : 'M[F]_n) := A^T = A.
Definition qf n (A : 'M[F]_n) (x : 'cV[F]_n) : F := (x^T *m A *m x) 0 0.
Definition spd n (A : 'M[F]_n) := sym A /\ forall x, x != 0 -> 0 < qf A x.
Definition psd n (A : 'M[F]_n) := sym A /\ forall x, 0 <= qf A x.

Lemma tr11 (A : 'M[F]_1) : A^T = A.
Proof. by apply/matrixP => i j; rewrite !ord1 !mxE. Qed.

Lemma qf0 n (A : 'M[F]_n) : qf A 0 = 0.
Proof. by rewrite /qf mulmx0 mxE. Qed.

Lemma qfD n (A B : 'M[F]_n) x : qf (A + B) x = qf A x + qf B x.
Proof. by rewrite /qf mulmxDr mulmxDl mxE. Qed.

Lemma qf_congr m n (A : 'M[F]_n) (T : 'M[F]_(n, m)) x : qf (T^T *m A *m T) x = qf A (T *m x).
Proof. by rewrite /qf trmx_mul !mulmxA. Qed.

Lemma sym_congr m n (A : 'M[F]_n) (T : 'M[F]_(n, m)) : sym A -> sym (T^T *m A *m T).
Proof. by rewrite /sym => As; rewrite !trmx_mul trmxK As mulmxA. Qed.

Lemma spd_psd n (A : 'M[F]_n) : spd A -> psd A.
Proof.
case=> As Ap; split=> // x; case: (eqVneq x 0) => [->|/Ap/ltW //].
by rewrite qf0.
Qed.

Lemma psd_congr m n (A : 'M[F]_n) (T : 'M[F]_(n, m)) : psd A -> psd (T^T *m A *m T).
Proof. by case=> As Ap; split; [exact: sym_congr | move=> x; rewrite qf_congr]. Qed.

(* congruence by an injective (possibly rectangular) T *)
Lemma spd_congr_inj m n (A : 'M[F]_n) (T : 'M[F]_(n, m)) :
  spd A -> (forall x : 'cV_m, x != 0 -> T *m x != 0) -> spd (T^T *m A *m T).
Proof.
case=> As Ap Ti; split; first exact: sym_congr.
by move=> x x0; rewrite qf_congr; apply/Ap/Ti.
Qed.

Lemma spd_congr n (A T : 'M[F]_n) : spd A -> T \in unitmx -> spd (T^T *m A *m T).
Proof.
move=> sA Tu; apply: spd_congr_inj => // x; apply: contraNN => /eqP Tx.
by rewrite -[x]mul1mx -(mulVmx Tu) -mulmxA Tx mulmx0.
Qed.

Lemma spd_add_psd n (A P : 'M[F]_n) : spd A -> psd P -> spd (A + P).
Proof.
case=> As Ap [Ps Pp]; split; first by rewrite /sym linearD /= As Ps.
by move=> x x0; rewrite qfD ltr_paddr ?Pp ?Ap.
Qed.

Lemma psd_add n (A P : 'M[F]_n) : psd A -> psd P -> psd (A + P).
Proof.
case=> As Ap [Ps Pp]; split; first by rewrite /sym linearD /= As Ps.
by move=> x; rewrite qfD addr_ge0.
Qed.

Lemma psd_gram m n (A : 'M[F]_n) (N : 'M[F]_(n, m)) : spd A -> psd (N^T *m A *m N).
Proof. by move=> /spd_psd; apply: psd_congr. Qed.

Lemma qf_delta n (A : 'M[F]_n) i : qf A (delta_mx i 0) = A i i.
Proof. by rewrite /qf trmx_delta -rowE -colE !mxE. Qed.

Lemma delta_neq0 n (i : 'I_n) : (delta_mx i 0 : 'cV[F]_n) != 0.
Proof.
apply/eqP => /matrixP /(_ i 0); rewrite !mxE !eqxx => /eqP.
by rewrite oner_eq0.
Qed.

Lemma spd_diag_gt0 n (A : 'M[F]_n) : spd A -> forall i, 0 < A i i.
Proof. by case=> _ Ap i; rewrite -qf_delta; apply/Ap/delta_neq0. Qed.

Lemma psd_diag_ge0 n (A : 'M[F]_n) : psd A -> forall i, 0 <= A i i.
Proof. by case=> _ Ap i; rewrite -qf_delta. Qed.

(* ---------- invertibility, inverse ---------- *)
Lemma trmx_neq0 m n (A : 'M[F]_(m, n)) : A != 0 -> A^T != 0.
Proof. by apply: contraNN => /eqP At; rewrite -[A]trmxK At trmx0. Qed.

Lemma spd_unit n (A : 'M[F]_n) : spd A -> A \in unitmx.
Proof.
case=> As Ap; rewrite -row_free_unit -kermx_eq0; apply/negPn/negP => /rowV0Pn [v vK v0].
have vA : v *m A = 0 by apply/sub_kermxP.
have := Ap _ (trmx_neq0 v0).
by rewrite /qf trmxK vA mul0mx mxE ltxx.
Qed.

Lemma sym_inv n (A : 'M[F]_n) : sym A -> sym (invmx A).
Proof. by rewrite /sym => As; rewrite trmx_inv As. Qed.

Lemma spd_inv n (A : 'M[F]_n) : spd A -> spd (invmx A).
Proof.
move=> sA; have Au := spd_unit sA.
have -> : invmx A = (invmx A)^T *m A *m invmx A.
  by rewrite (sym_inv (proj1 sA)) (mulVmx Au) mul1mx.
by apply: spd_congr => //; rewrite unitmx_inv.
Qed.

(* ---------- blocks ---------- *)
Lemma sym_blockE n1 n2 (A : 'M[F]_(n1 + n2)) : sym A ->
  A = block_mx (ulsubmx A) (ursubmx A) (ursubmx A)^T (drsubmx A).
Proof. by move=> As; rewrite trmx_ursub As submxK. Qed.

Lemma sym_block n1 n2 (A11 : 'M[F]_n1) (a : 'M[F]_(n1, n2)) a' (c : 'M[F]_n2) :
  sym (block_mx A11 a a' c) -> [/\ sym A11, a' = a^T & sym c].
Proof. by rewrite /sym tr_block_mx => /eq_block_mx [? _ <- ?]. Qed.

Lemma col_mx_neq0l n1 n2 (x : 'cV[F]_n1) : x != 0 -> col_mx x (0 : 'cV[F]_n2) != 0.
Proof. by apply: contraNN => /eqP; rewrite -(col_mx0 F n1 n2 1) => /eq_col_mx [-> _]. Qed.

Lemma col_mx_neq0r n1 n2 (y : 'cV[F]_n1) (x : 'cV[F]_n2) : x != 0 -> col_mx y x != 0.
Proof. by apply: contraNN => /eqP; rewrite -(col_mx0 F n1 n2 1) => /eq_col_mx [_ ->]. Qed.

Lemma spd_ul n1 n2 (A11 : 'M[F]_n1) (a : 'M[F]_(n1, n2)) a' (c : 'M[F]_n2) :
  spd (block_mx A11 a a' c) -> spd A11.
Proof.
move=> sA; pose T : 'M[F]_(n1 + n2, n1) := col_mx 1%:M 0.
have -> : A11 = T^T *m block_mx A11 a a' c *m T.
  rewrite /T tr_col_mx mul_row_block mul_row_col trmx1 trmx0 !mul1mx !mul0mx !mulmx0 !addr0.
  by rewrite mulmx1.
apply: spd_congr_inj => // x x0.
by rewrite /T mul_col_mx mul1mx mul0mx col_mx_neq0l.
Qed.

Lemma psd_ul n1 n2 (A11 : 'M[F]_n1) (a : 'M[F]_(n1, n2)) a' (c : 'M[F]_n2) :
  psd (block_mx A11 a a' c) -> psd A11.
Proof.
move=> sA; pose T : 'M[F]_(n1 + n2, n1) := col_mx 1%:M 0.
have -> : A11 = T^T *m block_mx A11 a a' c *m T.
  rewrite /T tr_col_mx mul_row_block mul_row_col trmx1 trmx0 !mul1mx !mul0mx !mulmx0 !addr0.
  by rewrite mulmx1.
exact: psd_congr.
Qed.

Lemma psd_dr n1 n2 (A11 : 'M[F]_n1) (a : 'M[F]_(n1, n2)) a' (c : 'M[F]_n2) :
  psd (block_mx A11 a a' c) -> psd c.
Proof.
move=> sA; pose T : 'M[F]_(n1 + n2, n2) := col_mx 0 1%:M.
have -> : c = T^T *m block_mx A11 a a' c *m T.
  rewrite /T tr_col_mx mul_row_block mul_row_col trmx1 trmx0 !mul1mx !mul0mx !mulmx0 !add0r.
  by rewrite mulmx1.
exact: psd_congr.
Qed.

Definition schur n (A11 : 'M[F]_n) (a : 'cV[F]_n) (c : 'M[F]_1) : F :=
  (c - a^T *m invmx A11 *m a) 0 0.

Lemma one11_neq0 : (1%:M : 'M[F]_1) != 0.
Proof. by apply/eqP => /matrixP /(_ 0 0); rewrite !mxE eqxx => /eqP; rewrite oner_eq0. Qed.

(* completing the square in the last coordinate *)
Lemma schur_qf n (A11 : 'M[F]_n) (a : 'cV[F]_n) (c : 'M[F]_1) (y : 'cV[F]_n) :
  sym A11 -> A11 \in unitmx ->
  qf (block_mx A11 a a^T c) (col_mx y 1%:M) = qf A11 (y + invmx A11 *m a) + schur A11 a c.
Proof.
move=> As Au; rewrite /qf /schur.
rewrite (@complete_square _ _ _ A11 a a^T c (invmx A11) (mulVmx Au) As (erefl _) y 1%:M).
by rewrite trmx1 !mulmx1 mul1mx [X in X = _]mxE.
Qed.

Lemma spd_schur_gt0 n (A11 : 'M[F]_n) (a : 'cV[F]_n) (c : 'M[F]_1) :
  spd (block_mx A11 a a^T c) -> 0 < schur A11 a c.
Proof.
move=> sA; have s11 := spd_ul sA; have Au := spd_unit s11.
have := proj2 sA (col_mx (- (invmx A11 *m a)) 1%:M) (col_mx_neq0r _ one11_neq0).
by rewrite schur_qf // ?addNr ?qf0 ?add0r //; case: s11.
Qed.

Lemma schur_min n (A11 : 'M[F]_n) (a : 'cV[F]_n) (c : 'M[F]_1) y :
  spd A11 -> schur A11 a c <= qf (block_mx A11 a a^T c) (col_mx y 1%:M).
Proof.
move=> s11; rewrite schur_qf ?ler_addr; [|by case: s11|exact: spd_unit].
by case: (spd_psd s11).
Qed.

Lemma schur_attained n (A11 : 'M[F]_n) (a : 'cV[F]_n) (c : 'M[F]_1) :
  sym A11 -> A11 \in unitmx ->
  schur A11 a c = qf (block_mx A11 a a^T c) (col_mx (- (invmx A11 *m a)) 1%:M).
Proof. by move=> As Au; rewrite schur_qf // addNr qf0 add0r. Qed.

Lemma det_schur n (A11 : 'M[F]_n) (a : 'cV[F]_n) (a' : 'rV[F]_n) (c : 'M[F]_1) :
  A11 \in unitmx ->
  \det (block_mx A11 a a' c) = \det A11 * (c - a' *m invmx A11 *m a) 0 0.
Proof.
move=> Au.
have -> : block_mx A11 a a' c =
   (block_mx 1%:M 0 (a' *m invmx A11) 1%:M : 'M_(n + 1))
   *m block_mx A11 a 0 (c - a' *m invmx A11 *m a).
  rewrite mulmx_block !mul1mx !mul0mx !addr0 -mulmxA (mulVmx Au) mulmx1; congr block_mx.
  by rewrite addrC subrK.
by rewrite det_mulmx det_lblock det_ublock !det1 !mul1r det_mx11.
Qed.

Lemma spd_block_det n (A11 : 'M[F]_n) (a : 'cV[F]_n) (c : 'M[F]_1) :
  spd (block_mx A11 a a^T c) -> \det (block_mx A11 a a^T c) = \det A11 * schur A11 a c.
Proof. by move=> sA; rewrite det_schur //; apply/spd_unit/(spd_ul sA). Qed.

(* ---------- induction on the dimension through 'M_(n + 1) ---------- *)
Lemma nat_ind1 (P : nat -> Prop) : P 0%N -> (forall n, P n -> P (n + 1)%N) -> forall n, P n.
Proof. by move=> P0 PS; elim=> // n /PS; rewrite addn1. Qed.

Lemma spd_det_gt0 n (A : 'M[F]_n) : spd A -> 0 < \det A.
Proof.
elim/nat_ind1: n A => [A _|n IH A sA]; first by rewrite det_mx00 ltr01.
have As := proj1 sA; move: sA; rewrite (sym_blockE As) => sA.
by rewrite spd_block_det // mulr_gt0 ?spd_schur_gt0 //; apply/IH/(spd_ul sA).
Qed.

(* ---------- elimination of the last row/column by a unit triangular congruence ---------- *)
Section Elim.
Variables (n : nat) (S11 : 'M[F]_n) (s : 'cV[F]_n) (sg : 'M[F]_1).

Definition elimE : 'M[F]_(n + 1) := block_mx 1%:M (- (invmx S11 *m s)) 0 1%:M.
Definition elimEi : 'M[F]_(n + 1) := block_mx 1%:M (invmx S11 *m s) 0 1%:M.

Lemma elimEK : elimEi *m elimE = 1%:M.
Proof.
rewrite /elimEi /elimE mulmx_block !mul1mx !mulmx1 !mul0mx !mulmx0 !addr0 add0r.
by rewrite addrC subrr -scalar_mx_block.
Qed.

Lemma elimE_unit : elimE \in unitmx.
Proof. by case/mulmx1_unit: elimEK. Qed.

Lemma det_elimE : \det elimE = 1.
Proof. by rewrite /elimE det_ublock !det1 mulr1. Qed.

Lemma elimE_inv : invmx elimE = elimEi.
Proof. by rewrite -(inv_unique elimEK). Qed.

Lemma elim_diag : sym S11 -> S11 \in unitmx ->
  elimE^T *m block_mx S11 s s^T sg *m elimE = block_mx S11 0 0 (schur S11 s sg)%:M.
Proof.
move=> Ss Su; rewrite /elimE tr_block_mx !trmx1 trmx0 [(- _)^T]linearN /= trmx_mul.
rewrite (sym_inv Ss) !mulmx_block !mul1mx !mulmx1 !mul0mx !mulmx0 !addr0 ?add0r.
have H1 : s^T *m invmx S11 *m S11 = s^T by rewrite -mulmxA (mulVmx Su) mulmx1.
have H2 : S11 *m (invmx S11 *m s) = s by rewrite mulmxA (mulmxV Su) mul1mx.
rewrite !(mulNmx, mulmxN) H1 H2 !addNr mul0mx oppr0 add0r; congr block_mx.
by rewrite [in RHS]/schur -scalar11 addrC.
Qed.
End Elim.

Lemma bdiag_det n (S11 : 'M[F]_n) (g : F) :
  \det (block_mx S11 0 0 g%:M : 'M_(n + 1)) = \det S11 * g.
Proof. by rewrite det_ublock det_scalar1. Qed.

Lemma spd_reduce n (S : 'M[F]_(n + 1)) : spd S ->
  exists E : 'M[F]_(n + 1), exists S11 : 'M[F]_n, exists g : F,
  [/\ E \in unitmx, \det E = 1, E^T *m S *m E = block_mx S11 0 0 g%:M, spd S11 & 0 < g].
Proof.
move=> sS; have Ss := proj1 sS; move: sS; rewrite (sym_blockE Ss).
set S11 := ulsubmx S; set s := ursubmx S; set sg := drsubmx S => sS.
have s11 := spd_ul sS.
exists (elimE S11 s), S11, (schur S11 s sg); split=> //.
- exact: elimE_unit.
- exact: det_elimE.
- by rewrite elim_diag //; [case: s11 | apply: spd_unit].
- exact: spd_schur_gt0.
Qed.

Lemma spd_reduce_det n (S E : 'M[F]_(n + 1)) (S11 : 'M[F]_n) g :
  \det E = 1 -> E^T *m S *m E = block_mx S11 0 0 g%:M -> \det S = \det S11 * g.
Proof. by move=> dE /(congr1 determinant); rewrite !det_mulmx det_tr dE mul1r mulr1 bdiag_det. Qed.

(* ---------- congruence and trace ---------- *)
Lemma congr_mul n (L S E : 'M[F]_n) : E \in unitmx ->
  (invmx E *m L *m (invmx E)^T) *m (E^T *m S *m E) = invmx E *m (L *m S) *m E.
Proof.
move=> Eu; rewrite !mulmxA -[_ *m (invmx E)^T *m E^T]mulmxA -trmx_mul (mulmxV Eu) trmx1 mulmx1.
by [].
Qed.

Lemma tr_congr n (L S E : 'M[F]_n) : E \in unitmx ->
  \tr ((invmx E *m L *m (invmx E)^T) *m (E^T *m S *m E)) = \tr (L *m S).
Proof. by move=> Eu; rewrite congr_mul // mxtrace_mulC mulmxA (mulmxV Eu) mul1mx. Qed.

Lemma spd_congr_inv n (L E : 'M[F]_n) : E \in unitmx -> spd L -> spd (invmx E *m L *m (invmx E)^T).
Proof.
move=> Eu sL; rewrite -{1}[invmx E]trmxK; apply: spd_congr => //.
by rewrite unitmx_tr unitmx_inv.
Qed.

Lemma psd_congr_inv n (L E : 'M[F]_n) : psd L -> psd (invmx E *m L *m (invmx E)^T).
Proof. by move=> sL; rewrite -{1}[invmx E]trmxK; apply: psd_congr. Qed.

Lemma det_congr_inv n (L E : 'M[F]_n) : \det E = 1 -> \det (invmx E *m L *m (invmx E)^T) = \det L.
Proof. by move=> dE; rewrite !det_mulmx det_tr matrix.det_inv dE invr1 mul1r mulr1. Qed.

Lemma tr_mul_bdiag n (L11 : 'M[F]_n) l l' (l22 : 'M[F]_1) (S11 : 'M[F]_n) (g : F) :
  \tr (block_mx L11 l l' l22 *m (block_mx S11 0 0 g%:M : 'M_(n + 1))) = \tr (L11 *m S11) + l22 0 0 * g.
Proof.
by rewrite mulmx_block mxtrace_block !mulmx0 addr0 add0r trace_mx11 mul_mx_scalar mxE mulrC.
Qed.

Lemma tr_spd_psd_ge0 n (A B : 'M[F]_n) : spd A -> psd B -> 0 <= \tr (A *m B).
Proof.
elim/nat_ind1: n A B => [A B _ _|n IH A B sA pB].
  by rewrite /mxtrace big_ord0.
have [E [A11 [g [Eu dE EA s11 g0]]]] := spd_reduce sA.
rewrite mxtrace_mulC -(tr_congr B A Eu) EA.
have := psd_congr_inv E pB; rewrite -[invmx E *m B *m _]submxK => pB'.
rewrite tr_mul_bdiag addr_ge0 //.
  by rewrite mxtrace_mulC; apply: IH => //; apply: psd_ul pB'.
by rewrite mulr_ge0 ?(ltW g0) //; apply: (psd_diag_ge0 (psd_dr pB')).
Qed.

(* ---------- Fischer, one step ---------- *)
Lemma schurE n (L11 : 'M[F]_n) (l : 'cV[F]_n) (c : 'M[F]_1) :
  schur L11 l c = c 0 0 - qf (invmx L11) l.
Proof. by rewrite /schur /qf mxE [X in _ + X]mxE. Qed.

Lemma spd_qf_eq0 n (A : 'M[F]_n) x : spd A -> qf A x = 0 -> x = 0.
Proof.
by case=> _ Ap q0; apply/eqP/negPn/negP => /Ap; rewrite q0 ltxx.
Qed.

Lemma fischer_step n (L11 : 'M[F]_n) (l : 'cV[F]_n) (c : 'M[F]_1) :
  spd (block_mx L11 l l^T c) ->
  [/\ spd L11, 0 < c 0 0, \det (block_mx L11 l l^T c) <= \det L11 * c 0 0
    & \det (block_mx L11 l l^T c) = \det L11 * c 0 0 -> l = 0].
Proof.
move=> sL; have s11 := spd_ul sL; have si := spd_inv s11.
have d0 := spd_det_gt0 s11.
have c0 : 0 < c 0 0.
  by have := spd_diag_gt0 sL (rshift n 0); rewrite block_mxEdr.
rewrite spd_block_det // schurE; split=> //.
  by rewrite ler_pmul2l // ler_subl_addr ler_addl; case: (spd_psd si) => _; apply.
move/(mulfI (lt0r_neq0 d0)) => /eqP; rewrite -subr_eq0 addrAC subrr add0r oppr_eq0 => /eqP.
exact: spd_qf_eq0.
Qed.

Lemma le3_eq (a1 a2 a3 b1 b2 b3 : F) : a1 <= b1 -> a2 <= b2 -> a3 <= b3 ->
  a1 + a2 + a3 = b1 + b2 + b3 -> [/\ a1 = b1, a2 = b2 & a3 = b3].
Proof.
move=> h1 h2 h3 H.
have E : (b1 - a1) + ((b2 - a2) + (b3 - a3)) = 0.
  have -> : (b1 - a1) + ((b2 - a2) + (b3 - a3)) = (b1 + b2 + b3) - (a1 + a2 + a3) by ring.
  by rewrite H subrr.
move/eqP: E; rewrite paddr_eq0 ?subr_ge0 //; last by rewrite addr_ge0 ?subr_ge0.
rewrite (@paddr_eq0 _ (b2 - a2)) ?subr_ge0 // !subr_eq0.
by case/and3P => /eqP-> /eqP-> /eqP->.
Qed.

(* ---------- the log-det / trace inequality ---------- *)
Section LogDet.
Variable O : ologS F.

Lemma oln_lt_mono x y : 0 < x -> x < y -> oln O x < oln O y.
Proof.
move=> x0 xy; have y0 : 0 < y by exact: lt_trans xy.
have -> : y = x * (y / x) by rewrite mulrCA divff ?mulr1 // gt_eqF.
have q0 : 0 < y / x by rewrite divr_gt0.
have q1 : x / y != 1.
  by rewrite lt_eqF // ltr_pdivr_mulr // mul1r.
rewrite olnM // ltr_addl -oppr_lt0 -olnV // invf_div.
apply: lt_le_trans (oln_lt _ _ q1) _; first by rewrite divr_gt0.
by rewrite mulr_le0_ge0 ?invr_ge0 ?ler0n // subr_le0 ler_pdivr_mulr // mul1r ltW.
Qed.

Lemma oln_inj_le x y : 0 < x -> x <= y -> oln O x = oln O y -> x = y.
Proof.
move=> x0; rewrite le_eqVlt => /orP [/eqP //|xy] H.
by have := oln_lt_mono x0 xy; rewrite H ltxx.
Qed.

Lemma oln_eq1 x : 0 < x -> oln O x = (x - 1) / 2%:R -> x = 1.
Proof.
move=> x0 H; apply/eqP/negPn/negP => x1.
by have := oln_lt O x0 x1; rewrite -H ltxx.
Qed.

Lemma logdet_tr_both n (L S : 'M[F]_n) : spd L -> spd S ->
  oln O (\det L) + oln O (\det S) <= (\tr (L *m S) - n%:R) / 2%:R /\
  (oln O (\det L) + oln O (\det S) = (\tr (L *m S) - n%:R) / 2%:R -> L *m S = 1%:M).
Proof.
elim/nat_ind1: n L S => [L S _ _|n IH L S sL sS].
  rewrite !det_mx00 oln1 /mxtrace big_ord0 subrr mul0r addr0; split=> // _.
  by rewrite [_ *m _]flatmx0 [1%:M]flatmx0.
have [E [S11 [g [Eu dE ES s11 g0]]]] := spd_reduce sS.
have dS := spd_reduce_det dE ES.
have := spd_congr_inv Eu sL; have := det_congr_inv L dE.
have := tr_congr L S Eu; have := congr_mul L S Eu; rewrite ES.
set L' := invmx E *m L *m (invmx E)^T => mE tE dL' sL'; clearbody L'.
have L's := proj1 sL'; move: mE tE dL' sL'; rewrite (sym_blockE L's).
set L11 := ulsubmx L'; set l := ursubmx L'; set c := drsubmx L' => mE tE dL' sL'.
have [sL11 c0 dle deq] := fischer_step sL'.
have [IHle IHeq] := IH L11 S11 sL11 s11.
have d0 := spd_det_gt0 sL'; have d11 := spd_det_gt0 sL11; have dS11 := spd_det_gt0 s11.
have A1 := oln_mono O d0 dle.
have cg0 : 0 < c 0 0 * g by rewrite mulr_gt0.
have A3 := oln_le O cg0.
rewrite -dL' dS -tE tr_mul_bdiag.
move: A1 A3 IHle IHeq; rewrite !olnM // natrD.
set x1 := oln O (\det (block_mx _ _ _ _)); set y1 := oln O (\det L11).
set y2 := oln O (c 0 0); set y3 := oln O (\det S11); set y4 := oln O g.
set t := \tr (L11 *m S11); set cg := c 0 0 * g => A1 A3 IHle IHeq.
have HL : x1 + (y3 + y4) = x1 + (y1 + y3) + (y2 + y4) - (y1 + y2) by ring.
have HR : (t + cg - (n%:R + 1)) / 2%:R = (y1 + y2) + (t - n%:R) / 2%:R + (cg - 1) / 2%:R - (y1 + y2).
  by field.
rewrite HL HR; split.
  by rewrite ler_add2r !ler_add.
move/(addIr _) => H; have [H1 H2 H3] := le3_eq A1 IHle A3 H.
have l0 : l = 0.
  apply: deq; apply: (oln_inj_le d0 dle).
  by rewrite olnM.
have LS11 := IHeq H2.
have cg1 : c 0 0 * g = 1 by apply: oln_eq1 => //; rewrite olnM.
move: mE; rewrite l0 trmx0 mulmx_block !mulmx0 !mul0mx !addr0 !add0r LS11 mul_mx_scalar.
have -> : g *: c = 1%:M.
  by rewrite [c]scalar11 -scalemx1 scalerA mulrC cg1 scalemx1.
rewrite -scalar_mx_block => /(congr1 (fun X => E *m X *m invmx E)).
by rewrite mulmx1 (mulmxV Eu) !mulmxA (mulmxV Eu) mul1mx -mulmxA (mulmxV Eu) mulmx1 => <-.
Qed.

Lemma logdet_tr n (L S : 'M[F]_n) : spd L -> spd S ->
  oln O (\det L) + oln O (\det S) <= (\tr (L *m S) - n%:R) / 2%:R.
Proof. by move=> sL sS; case: (logdet_tr_both sL sS). Qed.

Lemma logdet_tr_eq n (L S : 'M[F]_n) : spd L -> spd S ->
  oln O (\det L) + oln O (\det S) = (\tr (L *m S) - n%:R) / 2%:R -> L *m S = 1%:M.
Proof. by move=> sL sS; case: (logdet_tr_both sL sS). Qed.

End LogDet.

(* ---------- explicit forms of the block facts (schur unfolded) ---------- *)
Lemma spd_block_principal n (A11 : 'M[F]_n) (a : 'cV[F]_n) (c : 'M[F]_1) :
  spd (block_mx A11 a a^T c) -> spd A11.
Proof. exact: spd_ul. Qed.

Lemma spd_block_schur_gt0 n (A11 : 'M[F]_n) (a : 'cV[F]_n) (c : 'M[F]_1) :
  spd (block_mx A11 a a^T c) -> 0 < (c - a^T *m invmx A11 *m a) 0 0.
Proof. exact: spd_schur_gt0. Qed.

Lemma spd_block_detE n (A11 : 'M[F]_n) (a : 'cV[F]_n) (c : 'M[F]_1) :
  spd (block_mx A11 a a^T c) ->
  \det (block_mx A11 a a^T c) = \det A11 * (c - a^T *m invmx A11 *m a) 0 0.
Proof. exact: spd_block_det. Qed.

(* ---------- det A <= det (A + P), without logarithms ---------- *)
Lemma det_add_psd_ge n (A P : 'M[F]_n) : spd A -> psd P -> \det A <= \det (A + P).
Proof.
elim/nat_ind1: n A P => [A P _ _|n IH A P sA pP]; first by rewrite !det_mx00.
have As := proj1 sA; have Ps := proj1 pP; move: sA pP.
rewrite (sym_blockE As) (sym_blockE Ps).
set A11 := ulsubmx A; set a := ursubmx A; set c := drsubmx A.
set P11 := ulsubmx P; set p := ursubmx P; set q := drsubmx P => sA pP.
have E : block_mx A11 a a^T c + block_mx P11 p p^T q
         = block_mx (A11 + P11) (a + p) (a + p)^T (c + q).
  by rewrite add_block_mx [(a + p)^T]linearD.
have := spd_add_psd sA pP; rewrite E => sAP.
rewrite (spd_block_det sA) (spd_block_det sAP).
have s11 := spd_ul sA; have p11 := psd_ul pP; have sAP11 := spd_ul sAP.
apply: ler_pmul; [exact/ltW/spd_det_gt0 | exact/ltW/spd_schur_gt0 | exact: IH |].
rewrite (schur_attained (a + p) (c + q) (proj1 sAP11) (spd_unit sAP11)) -E qfD.
by rewrite ler_paddr ?schur_min //; case: pP => _; apply.
Qed.

Section LogDet2.
Variable O : ologS F.
Lemma logdet_add_psd_mono n (A P : 'M[F]_n) : spd A -> psd P ->
  oln O (\det A) <= oln O (\det (A + P)).
Proof. by move=> sA pP; rewrite oln_mono ?spd_det_gt0 ?det_add_psd_ge. Qed.
End LogDet2.

(* ---------- non-vacuity ---------- *)
Lemma spd_1 n : spd (1%:M : 'M[F]_n).
Proof.
split; first exact: trmx1.
move=> x x0; rewrite /qf mulmx1 mxE.
have ge i : true -> 0 <= x^T 0 i * x i 0 by rewrite mxE -expr2 sqr_ge0.
rewrite lt_def sumr_ge0 // andbT psumr_eq0 //.
apply: contra x0 => /allP H; apply/eqP/matrixP => i j; rewrite ord1 [RHS]mxE.
by have := H i (mem_index_enum _); rewrite mxE mulf_eq0 orbb => /eqP.
Qed.

Lemma psd_rank1 n (u : 'cV[F]_n) : psd (u *m u^T).
Proof.
have -> : u *m u^T = (u^T)^T *m 1%:M *m u^T by rewrite trmxK mulmx1.
exact/psd_congr/spd_psd/spd_1.
Qed.

Definition ex21 : 'M[F]_2 := \matrix_(i, j) (if i == j then 2%:R else 1).

Example spd_example : spd ex21.
Proof.
have -> : ex21 = 1%:M + (const_mx 1 : 'cV[F]_2) *m (const_mx 1)^T.
  apply/matrixP => i j; rewrite !mxE big_ord1 !mxE mulr1.
  by case: (i == j); rewrite // add0r.
exact: spd_add_psd (spd_1 _) (psd_rank1 _).
Qed.

Section LogDet3.
Variable O : ologS F.

(* converse of the equality case, and the strict form *)
Lemma logdet_tr_inv_eq n (L S : 'M[F]_n) : spd L -> spd S -> L *m S = 1%:M ->
  oln O (\det L) + oln O (\det S) = (\tr (L *m S) - n%:R) / 2%:R.
Proof.
move=> sL sS LS; rewrite -olnM ?spd_det_gt0 // -det_mulmx LS det1 oln1.
by rewrite mxtrace1 subrr mul0r.
Qed.

Lemma logdet_tr_lt n (L S : 'M[F]_n) : spd L -> spd S -> L *m S != 1%:M ->
  oln O (\det L) + oln O (\det S) < (\tr (L *m S) - n%:R) / 2%:R.
Proof.
move=> sL sS LS; rewrite lt_def logdet_tr // andbT.
by apply: contraNN LS => /eqP /esym /(logdet_tr_eq sL sS) ->.
Qed.
End LogDet3.

End SPD.

Print Assumptions spd_congr.
Print Assumptions psd_congr.
Print Assumptions spd_add_psd.
Print Assumptions psd_gram.
Print Assumptions spd_unit.
Print Assumptions spd_det_gt0.
Print Assumptions spd_inv.
Print Assumptions spd_block_principal.
Print Assumptions spd_block_schur_gt0.
Print Assumptions spd_block_detE.
Print Assumptions fischer_step.
Print Assumptions tr_spd_psd_ge0.
Print Assumptions logdet_tr.
Print Assumptions logdet_tr_eq.
Print Assumptions det_add_psd_ge.
Print Assumptions logdet_add_psd_mono.
Print Assumptions spd_example.
Print Assumptions logdet_tr_inv_eq.
Print Assumptions logdet_tr_lt.
