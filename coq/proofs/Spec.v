(* SPECIFICATION LAYER.  What the properties talk about, stated with MathComp's true inverse
   (invmx) and determinant (\det) of the matrices an object denotes -- never with cached fields.
   Everything is for an arbitrary real field F and an arbitrary lawful log structure LS
   (hln x = 1/2 ln x, hl2p = 1/2 ln 2pi). *)
From mathcomp Require Import all_ssreflect all_algebra.
From GT Require Import Tensor DetExec LogDom Obj Factor Measure Pdf Cond.
Set Implicit Arguments.
Unset Strict Implicit.
Unset Printing Implicit Defensive.
Import GRing.Theory Num.Theory.
Local Open Scope ring_scope.

Section Spec.
Variable F : realFieldType.
Variable LS : logS F.
Notation mat := (mat F).
Notation vec := (vec F).
Notation measure := (measure LS).
Notation cond := (cond LS).
Notation factor := (factor LS).

Definition sc (A : 'M[F]_1) : F := A 0 0.

(* log of the normal density N(x; mu, S), with the TRUE inverse and determinant of S *)
Definition lnN (D : nat) (mu : 'cV[F]_D) (S : 'M[F]_D) (x : 'cV[F]_D) : LS :=
  emb LS (- (half F) * sc ((x - mu)^T *m invmx S *m (x - mu))) - hl2p LS *+ D - hln LS (\det S).

(* log of the integral over R^D of exp(-x'Lx/2 + nu'x + lb)  (Gaussian-integral specification GI) *)
Definition lngint (D : nat) (L : 'M[F]_D) (nu : 'cV[F]_D) (lb : LS) : LS :=
  lb + emb LS (half F * sc (nu^T *m invmx L *m nu)) + hl2p LS *+ D - hln LS (\det L).

(* views of a component of a measure / density *)
Definition Lm (u : measure) (r : nat) : 'M[F]_(uD u) := mxf (uD u) (uD u) (uLam u r).
Definition Sg (u : measure) (r : nat) : 'M[F]_(uD u) := mxf (uD u) (uD u) (getS u r).
Definition nuv (u : measure) (r : nat) : 'cV[F]_(uD u) := cvf (uD u) (unu u r).
Definition muv (u : measure) (r : nat) : 'cV[F]_(uD u) := cvf (uD u) (getmu u r).

(* C04 invariant: every populated cache is the true quantity *)
Record cache_ok_at (u : measure) (r : nat) : Prop := CacheOk {
  co_sym : (Lm u r)^T = Lm u r;
  co_S : uSig u -> [/\ Sg u r *m Lm u r = 1%:M, 0 < \det (Sg u r) & gethS u r = hln LS (\det (Sg u r))];
  (* ln_det_Sigma is always stored next to Sigma; ln_det_Lambda only by some constructors (never by
     GaussianPDF), and when present it is the negative *)
  co_ld : uSig u -> isSome (uhldS u) /\ (forall hL, uhldL u = Some hL -> hL r = - gethS u r);
  co_mu : umu u -> uSig u /\ muv u r = Sg u r *m nuv u r;
  co_lnZ : ulnZ u -> uSig u /\
           getlnZ u r = emb LS (half F * sc ((nuv u r)^T *m Sg u r *m nuv u r)) + hl2p LS *+ (uD u) + gethS u r }.
Definition cache_ok (u : measure) : Prop := forall r, (r < uR u)%N -> cache_ok_at u r.

(* the density invariant: all caches populated and true, nu = Lambda mu, ln_beta = -lnZ *)
Record pdf_ok_at (p : measure) (r : nat) : Prop := PdfOk {
  po_cache : cache_ok_at p r;
  po_all : [/\ isSome (uSig p), isSome (uhldS p), isSome (umu p) & isSome (ulnZ p)];
  po_nu : nuv p r = Lm p r *m muv p r;
  po_lb : ulb p r = - getlnZ p r }.
Definition pdf_ok (p : measure) : Prop := forall r, (r < uR p)%N -> pdf_ok_at p r.

(* conditionals: Sigma, Lambda, ln_det_Sigma are mutually consistent *)
Definition cSg (c : cond) (r : nat) : 'M[F]_(cDy c) := mxf (cDy c) (cDy c) (cSig c r).
Definition cLm (c : cond) (r : nat) : 'M[F]_(cDy c) := mxf (cDy c) (cDy c) (cLam c r).
Definition cMm (c : cond) (r : nat) : 'M[F]_(cDy c, cDx c) := mxf (cDy c) (cDx c) (effM c r).
Definition cbv (c : cond) (r : nat) : 'cV[F]_(cDy c) := cvf (cDy c) (effb c r).
Record cond_ok_at (c : cond) (r : nat) : Prop := CondOk {
  cd_inv : cSg c r *m cLm c r = 1%:M;
  cd_sym : (cLm c r)^T = cLm c r;
  cd_pos : 0 < \det (cSg c r);
  cd_hld : chS c r = hln LS (\det (cSg c r));
  cd_id : cident (ccl c) -> cDy c = cDx c }.      (* identity-mean classes are square (Dx = Dy by construction) *)
Definition cond_ok (c : cond) : Prop := forall r, (r < cR c)%N -> cond_ok_at c r.

End Spec.
