(* SPECIFICATION of Gaussian moments: the Isserlis / Wick recursion (equivalently Stein's identity)
   E[l * prod r] = m(l) * E[prod r] + sum_j c(l, r_j) * E[prod (r without j)]
   for affine forms l, r_j of x ~ N(mu, S), where m(l) = a.mu + alpha and c(l, l') = a S a'^T. *)
From mathcomp Require Import all_ssreflect all_algebra.
From mathcomp Require Import ring.
From GT Require Import Tensor.
Set Implicit Arguments.
Unset Strict Implicit.
Unset Printing Implicit Defensive.
Import GRing.Theory.
Local Open Scope ring_scope.

Section Wick.
Variable F : comRingType.
Variable T : Type.               (* affine forms, abstractly *)
Variable m : T -> F.             (* mean of a form *)
Variable c : T -> T -> F.        (* covariance of two forms *)

Fixpoint rem_nth (j : nat) (l : seq T) : seq T :=
  match l, j with
  | [::], _ => [::]
  | _ :: r, 0%N => r
  | x :: r, S j' => x :: rem_nth j' r
  end.

Fixpoint wick (fuel : nat) (l : seq T) : F :=
  match fuel, l with
  | S k, x :: r => m x * wick k r
                   + \sum_(j < size r) c x (nth x r j) * wick k (rem_nth j r)
  | _, _ => 1
  end.
Definition E (l : seq T) : F := wick (size l) l.

Lemma E0 : E [::] = 1. Proof. by []. Qed.
Lemma E1 a : E [:: a] = m a.
Proof. by rewrite /E /= big_ord0 addr0 mulr1. Qed.
Lemma E2 a b : E [:: a; b] = m a * m b + c a b.
Proof. rewrite /E /=; do 4![rewrite ?big_ord_recl ?big_ord0 /=]. ring. Qed.
Lemma E3 a b d : E [:: a; b; d] = m a * m b * m d + c a b * m d + c a d * m b + c b d * m a.
Proof. rewrite /E /=; do 4![rewrite ?big_ord_recl ?big_ord0 /=]. ring. Qed.
Lemma E4 a b d e : E [:: a; b; d; e] =
  m a * m b * m d * m e
  + c a b * m d * m e + c a d * m b * m e + c a e * m b * m d
  + c b d * m a * m e + c b e * m a * m d + c d e * m a * m b
  + c a b * c d e + c a d * c b e + c a e * c b d.
Proof. rewrite /E /=; do 4![rewrite ?big_ord_recl ?big_ord0 /=]. ring. Qed.
End Wick.

(* affine forms of x in F^D, their mean and covariance under N(mu, S) *)
Section Forms.
Variable F : fieldType.
Variable D : nat.
Variables (mu : vec F) (S : mat F).
Definition aform : Type := (vec F * F)%type.
Definition fmean (f : aform) : F := dot D f.1 mu + f.2.
Definition fcov (f g : aform) : F := dot D f.1 (mvec D S g.1).
(* Gaussian expectation of a product of affine forms *)
Definition gE (l : seq aform) : F := E fmean fcov l.
(* row k of the affine map x -> A x + a, and the coordinate form x_i *)
Definition rowf (A : mat F) (a : vec F) (k : nat) : aform := (fun i => A k i, a k).
Definition coordf (i : nat) : aform := (fun j => (i == j)%:R, 0).
End Forms.
