(* C01 -- multiplying a measure by a conjugate factor is pointwise multiplication.
   Property theorems only: each is closed by a lemma of proofs/C01_proofs.v. *)
From mathcomp Require Import all_ssreflect all_algebra.
From GT Require Import Tensor DetExec LogDom Obj Factor Measure EvalLemmas C01_proofs.
Import GRing.Theory.
Local Open Scope ring_scope.

(* product component i*R2+j evaluates to u_i(x) * f_j(x) (log domain: sum), for every factor
   kind, update_full flag and cache state of the measure *)
Theorem C01_multiply_pointwise (F : realFieldType) (LS : logS F) upd (u : measure LS) (f : factor LS) i j x :
  fwf f -> uD u = fD f -> (i < uR u)%N -> (j < fR f)%N ->
  ueval (multiply upd u f) (i * fR f + j) x = ueval u i x + feval f j x.
Proof. exact: multiply_eval. Qed.
Print Assumptions C01_multiply_pointwise.

Theorem C01_multiply_components (F : realFieldType) (LS : logS F) upd (u : measure LS) (f : factor LS) :
  uR (multiply upd u f) = (uR u * fR f)%N.
Proof. exact: multiply_R. Qed.
Print Assumptions C01_multiply_components.

Theorem C01_hadamard_pointwise (F : realFieldType) (LS : logS F) upd (u : measure LS) (f : factor LS) k x :
  fwf f -> uD u = fD f -> (k < maxn (uR u) (fR f))%N ->
  ueval (hadamard upd u f) k x = ueval u (bidx (uR u) k) x + feval f (bidx (fR f) k) x.
Proof. exact: hadamard_eval. Qed.
Print Assumptions C01_hadamard_pointwise.

Theorem C01_hadamard_components (F : realFieldType) (LS : logS F) upd (u : measure LS) (f : factor LS) :
  uR (hadamard upd u f) = maxn (uR u) (fR f).
Proof. exact: hadamard_R. Qed.
Print Assumptions C01_hadamard_components.

Theorem C01_factor_product (F : realFieldType) (LS : logS F) (f : factor LS) x :
  feval (fproduct f) 0 x = suml (fR f) (fun r => feval f r x).
Proof. exact: fproduct_eval. Qed.
Print Assumptions C01_factor_product.

Theorem C01_measure_product (F : realFieldType) (LS : logS F) (u : measure LS) x :
  ueval (uproduct u) 0 x = suml (uR u) (fun r => ueval u r x) /\ uR (uproduct u) = 1%N.
Proof. split; [exact: uproduct_eval | exact: uproduct_R]. Qed.
Print Assumptions C01_measure_product.

(* every constructor of the library establishes the kind-consistency hypothesis fwf *)
Theorem C01_fwf_constructors (F : realFieldType) (LS : logS F) R D L n l v g (u : measure LS) :
  [/\ fwf (mk_general (LS:=LS) R D L n l), fwf (mk_onerank (LS:=LS) R D v g n l),
      fwf (mk_linear (LS:=LS) R D n l), fwf (mk_constant (LS:=LS) R D l) & fwf (factor_of_measure u)].
Proof. by split. Qed.
Print Assumptions C01_fwf_constructors.
