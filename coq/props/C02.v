(* C02 -- reported total mass equals the true integral; densities integrate to one.
   lngint / lnN (proofs/Spec.v) are the Gaussian-integral specification and the normal log-density with
   MathComp's true inverse and determinant.  "Integrates to one" = the object evaluates to lnN (mean,
   covariance), whose integral is one by the Gaussian integral (specification GI, not proved). *)
From mathcomp Require Import all_ssreflect all_algebra.
From GT Require Import Tensor DetExec LogDom Obj Factor Measure Pdf Cond EvalLemmas Spec C01_proofs PdfLemmas C04_proofs C05_proofs C06_proofs C0809_proofs C1013_proofs Moments Approx C02_approx.
Import GRing.Theory Num.Theory.
Local Open Scope ring_scope.

Section C02.
Variables (F : realFieldType) (LS : logS F).

(* integral / log_integral / log_integral_light of a measure, whatever its cache state *)
Theorem C02_log_integral (u : measure LS) r : cache_ok u -> diag_ok u -> posdet u -> (r < uR u)%N ->
  [/\ (log_integral u).2 r = lngint (Lm u r) (nuv u r) (ulb u r),
      (log_integral_light u).2 r = lngint (Lm u r) (nuv u r) (ulb u r),
      cache_ok (log_integral u).1 & cache_ok (log_integral_light u).1].
Proof. exact: log_integral_spec. Qed.

(* normalising a measure yields u(x) divided by its integral; get_density likewise, and it is a density *)
Theorem C02_normalize (u : measure LS) r x : cache_ok u -> diag_ok u -> posdet u -> (r < uR u)%N ->
  ueval (normalize u) r x = ueval u r x - (log_integral u).2 r.
Proof. exact: normalize_spec. Qed.
Theorem C02_get_density (u : measure LS) : cache_ok u -> diag_ok u -> posdet u ->
  pdf_ok (get_density u).2 /\
  forall r x, (r < uR u)%N -> ueval (get_density u).2 r x = ueval u r x - (log_integral u).2 r.
Proof. exact: get_density_spec. Qed.

(* every constructor argument combination (Sigma; Sigma+Lambda; Sigma+Lambda+ln_det; diagonal class)
   under its contract yields THE normal density N(mu, Sigma) and a consistent object *)
Theorem C02_constructor diag R D Sig mu Lam hS r (x : vec F) :
  pdf_args_ok (LS:=LS) diag R D Sig Lam hS -> (r < R)%N ->
  ueval (mk_pdf (LS:=LS) diag R D Sig mu Lam hS) r x = lnN LS (cvf D (mu r)) (mxf D D (Sig r)) (cvf D x)
  /\ pdf_ok (mk_pdf (LS:=LS) diag R D Sig mu Lam hS).
Proof. by move=> H Hr; split; [exact: mk_pdf_eval | exact: mk_pdf_ok]. Qed.

(* any object satisfying the density invariant evaluates to the normal density of its own mean / covariance *)
Theorem C02_density_eval (p : measure LS) r (x : vec F) : pdf_ok p -> (r < uR p)%N ->
  ueval p r x = lnN LS (muv p r) (Sg p r) (cvf (uD p) x).
Proof. exact: pdf_ok_eval. Qed.

(* the density-returning APIs preserve the invariant: slicing, conditioning a conditional on x,
   marginals, marginal transformation (joint transformation: props/C07.v) *)
Theorem C02_closure_slice idx (p : measure LS) :
  pdf_ok p -> is_pdf (ucls p) -> all (fun i => (nidx (uR p) i < uR p)%N) idx -> pdf_ok (uslice idx p).
Proof. exact: uslice_pdf_ok. Qed.
Theorem C02_closure_condition_on_x (c : cond LS) (xs : seq (vec F)) : cond_ok c -> pdf_ok (condition_on_x c xs).
Proof. exact: condition_on_x_ok. Qed.
Theorem C02_closure_marginal (idx : seq nat) (p : measure LS) :
  pdf_ok p -> diag_cov_ok p -> uniq idx -> all (fun i => (i < uD p)%N) idx ->
  (forall r, (r < uR p)%N -> 0 < \det (mxf (size idx) (size idx) (msub2 idx idx (getS p r)))) ->
  pdf_ok (get_marginal idx p) /\ uR (get_marginal idx p) = uR p /\ uD (get_marginal idx p) = size idx.
Proof. exact: get_marginal_ok. Qed.
Theorem C02_closure_marginal_transformation (c : cond LS) (p : measure LS) :
  pdf_ok p -> cond_ok c -> cDx c = uD p -> marg_pos c p -> pdf_ok (affine_marginal c p).
Proof. exact: affine_marginal_ok. Qed.

(* approximate affine transformations (moment matching): the returned marginals / joints are densities as soon as the matched
   covariance -- symmetric by construction, the code symmetrises it -- has positive determinant *)
Theorem C02_approximate_feature_marginal Dx Dk Dy (M : mat F) (b : vec F) (Sig : mat F) (Ex : vec F) (Exx : mat F) (Ek : vec F) (Ekx Ekk : mat F) :
  0 < \det (mxf Dy Dy (fm_Sigma Dx Dk Dy M b Sig Ex Exx Ek Ekx Ekk)) ->
  pdf_ok (mk_pdf (LS:=LS) false 1 Dy (fun _ => fm_Sigma Dx Dk Dy M b Sig Ex Exx Ek Ekx Ekk) (fun _ => fm_mu Dx Dk M b Ex Ek) None None).
Proof. exact: approx_feature_marginal_density. Qed.
Theorem C02_approximate_feature_joint Dx Dk Dy (M : mat F) (b : vec F) (Sig : mat F) (Ex : vec F) (Exx : mat F) (Ek : vec F) (Ekx Ekk : mat F)
    (mux : vec F) (Sx : mat F) :
  (forall i j, Sx i j = Sx j i) ->
  0 < \det (mxf (Dx + Dy) (Dx + Dy) (fm_joint_Sigma Dx Dk Dy M b Sig Ex Exx Ek Ekx Ekk mux Sx)) ->
  pdf_ok (mk_pdf (LS:=LS) false 1 (Dx + Dy) (fun _ => fm_joint_Sigma Dx Dk Dy M b Sig Ex Exx Ek Ekx Ekk mux Sx)
                 (fun _ => fm_joint_mu Dx Dk M b Ex Ek mux) None None).
Proof. exact: approx_feature_joint_density. Qed.
Theorem C02_approximate_hetero_marginal Dy Da Dk Dx (A M : mat F) (b mux : vec F) (Sx : mat F) (Dint : vec F) :
  0 < \det (mxf Dy Dy (het_Sigma_y Dy Da Dk Dx A M b mux Sx Dint)) ->
  pdf_ok (mk_pdf (LS:=LS) false 1 Dy (fun _ => het_Sigma_y Dy Da Dk Dx A M b mux Sx Dint) (fun _ => het_mu Dx M b mux) None None).
Proof. exact: approx_hetero_marginal_density. Qed.
End C02.
Print Assumptions C02_approximate_feature_marginal.
Print Assumptions C02_approximate_feature_joint.
Print Assumptions C02_approximate_hetero_marginal.
Print Assumptions C02_log_integral.
Print Assumptions C02_normalize.
Print Assumptions C02_get_density.
Print Assumptions C02_constructor.
Print Assumptions C02_density_eval.
Print Assumptions C02_closure_slice.
Print Assumptions C02_closure_condition_on_x.
Print Assumptions C02_closure_marginal.
Print Assumptions C02_closure_marginal_transformation.
