(* C03 -- polynomial integrals equal the exact Gaussian moments.
   gE D mu S l (proofs/Wick.v) is the expectation of a product of affine forms under N(mu, S) by the
   Isserlis / Wick recursion (SPECIFICATION of Gaussian moments); rowf A a k is row k of x -> A x + a,
   coordf i the coordinate x_i.  Every integrate_* method returns (total mass) * (expectation); the
   expectation formulas of the library are proved equal to the Wick moments, entry by entry, for all
   D, K, L, M; the mass is the Gaussian integral (C03_total_mass).  S_sym: symmetric covariance. *)
From mathcomp Require Import all_ssreflect all_algebra.
From GT Require Import Tensor DetExec LogDom Obj Factor Measure Moments Spec Wick C04_proofs C03a_proofs C03b_proofs C03_lift.
Import GRing.Theory Num.Theory.
Local Open Scope ring_scope.

Section C03.
Variable F : realFieldType.
Variable D : nat.
Variables (mu : vec F) (S : mat F).
Hypothesis S_sym : forall i j, (i < D)%N -> (j < D)%N -> S i j = S j i.
Notation gE := (gE D mu S).
Notation rowf := (@rowf F).
Notation coordf := (@coordf F).

Theorem C03_x i : (i < D)%N -> E_x mu i = gE [:: coordf i].
Proof. exact: E_x_wick. Qed.
Theorem C03_linear (A : mat F) (a : vec F) k : E_linear D mu A a k = gE [:: rowf A a k].
Proof. exact: E_linear_wick. Qed.
Theorem C03_xxT i j : (i < D)%N -> (j < D)%N -> E_xxT mu S i j = gE [:: coordf i; coordf j].
Proof. exact: E_xxT_wick. Qed.
Theorem C03_quadratic_inner K (A : mat F) (a : vec F) (B : mat F) (b : vec F) :
  E_quadratic_inner D mu S K A a B b = sumn K (fun k => gE [:: rowf A a k; rowf B b k]).
Proof. exact: E_quadratic_inner_wick. Qed.
Theorem C03_quadratic_outer (A : mat F) (a : vec F) (B : mat F) (b : vec F) k l :
  E_quadratic_outer D mu S A a B b k l = gE [:: rowf A a k; rowf B b l].
Proof. exact: E_quadratic_outer_wick. Qed.
Theorem C03_xbxx (b : vec F) i j : (i < D)%N -> (j < D)%N ->
  E_xbxx D mu S b i j = gE [:: coordf i; (b, 0); coordf j].
Proof. exact: E_xbxx_wick. Qed.
Theorem C03_cubic_outer (A : vec F) (a : F) i j : (i < D)%N -> (j < D)%N ->
  E_cubic_outer D mu S A a i j = gE [:: coordf i; (A, a); coordf j].
Proof. exact: E_cubic_outer_wick. Qed.
Theorem C03_cubic_inner L (A : mat F) (a : vec F) (B : mat F) (b : vec F) (C : mat F) (c : vec F) k :
  E_cubic_inner D mu S L A a B b C c k = sumn L (fun l => gE [:: rowf A a k; rowf B b l; rowf C c l]).
Proof. exact: E_cubic_inner_wick. Qed.
Theorem C03_cubic_outer_general K (A : mat F) (a : vec F) (B : mat F) (b : vec F) (C : mat F) (c : vec F) l :
  E_cubic_outer_general D mu S K A a B b C c l = sumn K (fun k => gE [:: rowf A a k; rowf B b k; rowf C c l]).
Proof. exact: E_cubic_outer_general_wick. Qed.
Theorem C03_quartic_outer L (A : mat F) (a : vec F) (B : mat F) (b : vec F) (C : mat F) (c : vec F) (Dm : mat F) (d : vec F) k m :
  E_quartic_outer D mu S L A a B b C c Dm d k m
  = sumn L (fun l => gE [:: rowf A a k; rowf B b l; rowf C c l; rowf Dm d m]).
Proof. exact: E_quartic_outer_wick. Qed.
Theorem C03_quartic_inner K L (A : mat F) (a : vec F) (B : mat F) (b : vec F) (C : mat F) (c : vec F) (Dm : mat F) (d : vec F) :
  E_quartic_inner D mu S K L A a B b C c Dm d
  = sumn K (fun k => sumn L (fun l => gE [:: rowf A a k; rowf B b k; rowf C c l; rowf Dm d l])).
Proof. exact: E_quartic_inner_wick. Qed.
End C03.

(* coefficient defaults and broadcasting (_get_default): omitted matrix = identity (K = D), omitted vector =
   zero; 2-D / 1-D coefficients are shared by all components, 3-D / 2-D ones are per component *)
Theorem C03_defaults (F : realFieldType) D R K (A2 : mat F) (a1 : vec F) (A3 : nat -> mat F) (a2 : nat -> vec F) r : (1 < R)%N ->
  [/\ fK (get_default D (@MNone F) (@VNone F)) = D /\ formA (get_default D (@MNone F) (@VNone F)) r = mid
        /\ forma (get_default D (@MNone F) (@VNone F)) r = vzero,
      formA (get_default D (M2 K A2) (V1 a1)) r = A2 /\ forma (get_default D (M2 K A2) (V1 a1)) r = a1,
      formA (get_default D (M3 R K A3) (V2 R a2)) r = A3 r /\ forma (get_default D (M3 R K A3) (V2 R a2)) r = a2 r
    & formA (get_default D (M2 K A2) (V2 R a2)) r = A2 /\ forma (get_default D (M2 K A2) (V2 R a2)) r = a2 r
      /\ formA (get_default D (M3 R K A3) (V1 a1)) r = A3 r /\ forma (get_default D (M3 R K A3) (V1 a1)) r = a1].
Proof.
move=> HR; split.
- exact: get_default_none.
- by have [_ [H1 H2]] := get_default_shared D K A2 a1 r.
- by have [_ [H1 H2]] := get_default_per D K A3 a2 r HR.
- by have [H1 H2 H3 H4] := get_default_mixed D K A2 a2 A3 a1 r HR.
Qed.

(* lifting to a measure in any cache state: the moments read by integrate_* are the true, symmetric ones, the
   mass is the Gaussian integral, and e.g. the quartic inner integral is mass x sum of Wick moments of the rows *)
Theorem C03_total_mass (F : realFieldType) (LS : logS F) (u : measure LS) r :
  cache_ok u -> diag_ok u -> posdet u -> (r < uR u)%N ->
  log_mass u r = lngint (Lm u r) (nuv u r) (ulb u r)
  /\ forall i j, (i < uD u)%N -> (j < uD u)%N -> getS (prepare u) r i j = getS (prepare u) r j i.
Proof. by move=> H1 H2 H3 Hr; split; [exact: log_mass_spec | exact: prepared_S_sym]. Qed.
Theorem C03_integrate_quartic_inner (F : realFieldType) (LS : logS F) (u : measure LS) A a B b C c Dm d r :
  cache_ok u -> diag_ok u -> posdet u -> (r < uR u)%N ->
  let D := uD u in let u1 := prepare u in
  let f := get_default D A a in let g := get_default D B b in
  let h := get_default D C c in let e := get_default D Dm d in
  int_quartic_inner u A a B b C c Dm d r
  = sumn (fK f) (fun k => sumn (fK h) (fun l =>
      gE D (getmu u1 r) (getS u1 r)
         [:: @rowf F (formA f r) (forma f r) k; @rowf F (formA g r) (forma g r) k;
             @rowf F (formA h r) (forma h r) l; @rowf F (formA e r) (forma e r) l])).
Proof. exact: int_quartic_inner_wick. Qed.

Print Assumptions C03_x.
Print Assumptions C03_linear.
Print Assumptions C03_xxT.
Print Assumptions C03_quadratic_inner.
Print Assumptions C03_quadratic_outer.
Print Assumptions C03_xbxx.
Print Assumptions C03_cubic_outer.
Print Assumptions C03_cubic_inner.
Print Assumptions C03_cubic_outer_general.
Print Assumptions C03_quartic_outer.
Print Assumptions C03_quartic_inner.
Print Assumptions C03_defaults.
Print Assumptions C03_total_mass.
Print Assumptions C03_integrate_quartic_inner.
