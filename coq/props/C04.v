(* C04 -- cached covariance, log-determinants, mean and log-partition always match (cache_ok, Spec.v),
   step by step for the operations that fill or carry caches; natural parameters never depend on
   update_full or on earlier read-only queries; a cached value is THE value. *)
From mathcomp Require Import all_ssreflect all_algebra.
From GT Require Import Tensor DetExec LogDom Obj Factor Measure Pdf Cond EvalLemmas Spec C01_proofs PdfLemmas C04_proofs C05_proofs C06_proofs C0809_proofs C1013_proofs C12_proofs C15_proofs C07_proofs C04_prog Sample SPD Chol.
Import GRing.Theory Num.Theory.
Local Open Scope ring_scope.

Section C04.
Variables (F : realFieldType) (LS : logS F).

(* lazily filled caches (read-only queries) are the true quantities and keep the object consistent *)
Theorem C04_queries (u : measure LS) : cache_ok u -> diag_ok u -> posdet u ->
  [/\ cache_ok (invert_lambda u), cache_ok (compute_lnZ u), cache_ok (compute_mu u), cache_ok (prepare u)
    & cache_ok (normalize u)].
Proof.
move=> H1 H2 H3; split; [exact: invert_lambda_ok | exact: compute_lnZ_ok | exact: compute_mu_ok
  | exact: prepare_ok | exact: normalize_ok].
Qed.
Theorem C04_queries_keep_parameters (u : measure LS) : same_core u (prepare u).
Proof. exact: prepare_same_core. Qed.

(* products: full inversion, Sherman-Morrison + matrix determinant lemma, covariance reuse *)
Theorem C04_multiply upd (u : measure LS) (f : factor LS) :
  cache_ok u -> fwf f -> fwf1 f -> fsym f -> uD u = fD f -> posdet (multiply upd u f) ->
  cache_ok (multiply upd u f).
Proof. exact: multiply_ok. Qed.
Theorem C04_hadamard upd (u : measure LS) (f : factor LS) :
  uR u = fR f \/ (uR u = 1%N /\ (0 < fR f)%N) \/ (fR f = 1%N /\ (0 < uR u)%N) ->
  cache_ok u -> fwf f -> fwf1 f -> fsym f -> uD u = fD f -> posdet (hadamard upd u f) ->
  cache_ok (hadamard upd u f).
Proof. exact: hadamard_ok_bcast. Qed.
Theorem C04_product (u : measure LS) : cache_ok u -> diag_ok u -> posdet (uproduct u) -> cache_ok (uproduct u).
Proof. exact: uproduct_ok. Qed.
(* slicing carries caches (a measure that caches Sigma also caches ln_det_Lambda: every library path does) *)
Theorem C04_slice_partial idx (u : measure LS) :
  (uSig u -> uhldL u) -> cache_ok u -> ~~ is_pdf (ucls u) -> all (fun i => (nidx (uR u) i < uR u)%N) idx ->
  cache_ok (uslice idx u).
Proof. exact: uslice_ok_partial. Qed.

(* no result depends on update_full or on which caches the operand has *)
Theorem C04_parameters_independent_of_caches upd upd' (u u' : measure LS) (f : factor LS) : same_core u u' ->
  core (multiply upd u f) = core (multiply upd' u' f) /\ core (hadamard upd u f) = core (hadamard upd' u' f).
Proof. by move=> H; split; [exact: multiply_core | exact: hadamard_core]. Qed.
(* the fast-update path and the inversion path give EQUAL caches, not merely close ones *)
Theorem C04_caches_unique (u u' : measure LS) r : cache_ok u -> cache_ok u' -> same_core u u' -> (r < uR u)%N ->
  uSig u -> uSig u' ->
  (forall i j, (i < uD u)%N -> (j < uD u)%N -> getS u r i j = getS u' r i j) /\ gethS u r = gethS u' r.
Proof. exact: caches_unique. Qed.

(* conditionals produced by conditioning / the conditional transformation are consistent *)
Theorem C04_condition_on (dy dx : seq nat) (p : measure LS) :
  pdf_ok p -> perm_eq (dx ++ dy) (iota 0 (uD p)) ->
  (forall r, (r < uR p)%N -> 0 < \det (mxf (size dx) (size dx) (msub2 dx dx (uLam p r)))) ->
  cond_ok (condition_on_explicit dy dx p).
Proof. by move=> H1 H2 H3; have [] := condition_on_explicit_ok H1 H2 H3. Qed.
Theorem C04_conditional_transformation (c : cond LS) (p : measure LS) :
  pdf_ok p -> cond_ok c -> cDx c = uD p -> post_pos c p -> cond_ok (affine_conditional c p).
Proof. by move=> H1 H2 H3 H4; have [] := affine_conditional_ok H1 H2 H3 H4. Qed.

(* INDUCTION OVER PROGRAMS (proofs/C04_prog.v): `prog` = finite sequences of multiply / hadamard / slice / product /
   normalize on a measure with read-only queries (integrate, log_integral_light, get_density, evaluate) interleaved
   arbitrarily; `ok p` collects the library's own input requirements along the program (well-formed factors,
   positive determinants, broadcastable batches, indices in range).  Every reachable object is consistent, for
   programs of ANY length, and erasing all queries does not change what the result evaluates to. *)
Theorem C04_every_reachable_object_consistent (p : prog LS) : ok p -> cache_ok (eval p).
Proof. exact: eval_cache_ok. Qed.
Theorem C04_queries_transparent (p : prog LS) : ok p -> ok (erase p) ->
  uR (eval p) = uR (eval (erase p)) /\ uD (eval p) = uD (eval (erase p)) /\
  forall r x, (r < uR (eval p))%N -> ueval (eval p) r x = ueval (eval (erase p)) r x.
Proof. exact: queries_transparent. Qed.
(* the joint transformation returns a consistent density (C07) *)
Theorem C04_joint_transformation (c : cond LS) (p : measure LS) :
  pdf_ok p -> cond_ok c -> cDx c = uD p -> pdf_ok (affine_joint c p).
Proof. exact: affine_joint_ok. Qed.

(* utils/linalg.invert_matrix computes ln det A = 2 sum_j ln C_jj from a Cholesky factor C C' = A.  For EVERY symmetric
   positive definite A and every dimension: the square-root-free factorisation A = L D L' (executable: proofs/Chol.v, ldl)
   exists with unit lower triangular L and positive D; any Cholesky factor is C = L sqrt(D); hence the Cholesky-diagonal
   log-determinant is the true one, and it is the value `hln (detn A)` the model computes. *)
Theorem C04_ldl_factorisation n (A : mat F) : spd (mxf n n A) ->
  let Lm := mxf n n (ldl n A).1 in let dm := diag_mx (\row_(j < n) (ldl n A).2 j) in
  [/\ Lm *m dm *m Lm^T = mxf n n A, (forall i j : 'I_n, (i < j)%N -> Lm i j = 0), (forall i : 'I_n, Lm i i = 1)
    & (forall j, (j < n)%N -> 0 < (ldl n A).2 j)].
Proof. exact: ldl_correct. Qed.
Theorem C04_cholesky_log_determinant n (A C : mat F) : spd (mxf n n A) -> is_chol n C A ->
  suml n (fun j => hln LS (C j j * C j j)) = hln LS (\det (mxf n n A))
  /\ suml n (fun j => hln LS (C j j * C j j)) = hln LS (detn n A)
  /\ ldl_logdet_half LS n A = hln LS (detn n A).
Proof. by move=> sA cC; split; [exact: chol_logdet | split; [exact: chol_logdet_detn | exact: ldl_logdet_detn]]. Qed.
End C04.
Print Assumptions C04_ldl_factorisation.
Print Assumptions C04_cholesky_log_determinant.
Print Assumptions C04_every_reachable_object_consistent.
Print Assumptions C04_queries_transparent.
Print Assumptions C04_joint_transformation.
Print Assumptions C04_queries.
Print Assumptions C04_multiply.
Print Assumptions C04_hadamard.
Print Assumptions C04_product.
Print Assumptions C04_slice_partial.
Print Assumptions C04_parameters_independent_of_caches.
Print Assumptions C04_caches_unique.
Print Assumptions C04_condition_on.
Print Assumptions C04_conditional_transformation.
Print Assumptions C04_queries_keep_parameters.
