(* C05 -- marginals and linear images have the law of the sub-vector / of Wx+b. *)
From mathcomp Require Import all_ssreflect all_algebra.
From GT Require Import Tensor DetExec LogDom Obj Factor Measure Pdf Cond EvalLemmas Spec C01_proofs PdfLemmas C04_proofs C05_proofs C06_proofs C0809_proofs C1013_proofs.
Import GRing.Theory Num.Theory.
Local Open Scope ring_scope.

Section C05.
Variables (F : realFieldType) (LS : logS F).

(* get_marginal(idx) IS N(mu[idx], Sigma[idx,idx]) for any duplicate-free index list in any order,
   full and diagonal classes *)
Theorem C05_marginal_law (idx : seq nat) (p : measure LS) r (x : vec F) :
  pdf_ok p -> diag_cov_ok p -> uniq idx -> all (fun i => (i < uD p)%N) idx ->
  (forall r, (r < uR p)%N -> 0 < \det (mxf (size idx) (size idx) (msub2 idx idx (getS p r)))) ->
  (r < uR p)%N ->
  ueval (get_marginal idx p) r x
  = lnN LS (cvf (size idx) (vsel idx (getmu p r))) (mxf (size idx) (size idx) (msub2 idx idx (getS p r)))
        (cvf (size idx) x).
Proof. exact: get_marginal_eval. Qed.

(* its density equals the Gaussian integral (specification GI) of the joint density over the remaining
   coordinates; stated for the split "first da coordinates kept" *)
Theorem C05_marginal_is_integral da db (p : measure LS) r (xa : vec F) :
  pdf_ok p -> uD p = (da + db)%N -> (r < uR p)%N ->
  0 < \det (mxf db db (msub2 (iota da db) (iota da db) (uLam p r))) ->
  0 < \det (mxf da da (msub2 (iota 0 da) (iota 0 da) (getS p r))) ->
  let Lbb := mxf db db (msub2 (iota da db) (iota da db) (uLam p r)) in
  let Lba := mxf db da (msub2 (iota da db) (iota 0 da) (uLam p r)) in
  let Laa := mxf da da (msub2 (iota 0 da) (iota 0 da) (uLam p r)) in
  let nua := cvf da (vsel (iota 0 da) (unu p r)) in
  let nub := cvf db (vsel (iota da db) (unu p r)) in
  let a := cvf da xa in
  lngint Lbb (nub - Lba *m a) (ulb p r + emb LS (- half F * sc (a^T *m Laa *m a) + sc (a^T *m nua)))
  = lnN LS (cvf da (vsel (iota 0 da) (getmu p r))) (mxf da da (msub2 (iota 0 da) (iota 0 da) (getS p r))) a.
Proof. exact: marginal_is_integral. Qed.

(* get_density_of_linear_sum(W, b) IS N(W mu + b, W Sigma W'), b optional *)
Theorem C05_linear_image_law ds (W : nat -> mat F) (b : option (nat -> vec F)) (p : measure LS) r (x : vec F) :
  pdf_ok p ->
  (forall r, (r < uR p)%N -> 0 < \det (mxf ds (uD p) (W r) *m Sg p r *m (mxf ds (uD p) (W r))^T)) ->
  (r < uR p)%N ->
  ueval (density_of_linear_sum ds W b p) r x
  = lnN LS (mxf ds (uD p) (W r) *m muv p r + (if b is Some b' then cvf ds (b' r) else 0))
        (mxf ds (uD p) (W r) *m Sg p r *m (mxf ds (uD p) (W r))^T) (cvf ds x).
Proof. exact: linear_sum_eval. Qed.
End C05.
Print Assumptions C05_marginal_law.
Print Assumptions C05_marginal_is_integral.
Print Assumptions C05_linear_image_law.
