(* C06 -- conditioning on coordinates satisfies p(x_a | x_b) p(x_b) = p(x). *)
From mathcomp Require Import all_ssreflect all_algebra.
From GT Require Import Tensor DetExec LogDom Obj Factor Measure Pdf Cond EvalLemmas Spec C01_proofs PdfLemmas C04_proofs C05_proofs C06_proofs C0809_proofs C1013_proofs.
Import GRing.Theory Num.Theory.
Local Open Scope ring_scope.

Section C06.
Variables (F : realFieldType) (LS : logS F).

(* for EVERY partition (dx, dy) of the coordinates, in any order, all batch sizes, all points *)
Theorem C06_product_rule (dy dx : seq nat) (p : measure LS) r (x : vec F) :
  pdf_ok p -> perm_eq (dx ++ dy) (iota 0 (uD p)) -> (r < uR p)%N ->
  (forall r, (r < uR p)%N -> 0 < \det (mxf (size dx) (size dx) (msub2 dx dx (uLam p r)))) ->
  (forall r, (r < uR p)%N -> 0 < \det (mxf (size dy) (size dy) (msub2 dy dy (getS p r)))) ->
  ~~ is_diag (ucls p) ->
  ueval (condition_on_x (condition_on_explicit dy dx p) [:: vsel dy x]) (r * 1 + 0) (vsel dx x)
  + ueval (get_marginal dy p) r (vsel dy x)
  = ueval p r x.
Proof. exact: condition_product_rule. Qed.

(* condition_on(dy) is condition_on_explicit with the ascending complement, and (complement, dy) is such a partition *)
Theorem C06_condition_on_is_explicit (dy : seq nat) (p : measure LS) :
  condition_on dy p = condition_on_explicit dy (complement (uD p) dy) p.
Proof. exact: condition_on_explicit_complement. Qed.
Theorem C06_complement_partition D (dy : seq nat) : uniq dy -> all (fun i => (i < D)%N) dy ->
  perm_eq (complement D dy ++ dy) (iota 0 D) /\ sorted ltn (complement D dy).
Proof. exact: complement_partition. Qed.

(* the returned conditional is well formed, rows ordered as the requested list *)
Theorem C06_conditional_wellformed (dy dx : seq nat) (p : measure LS) :
  pdf_ok p -> perm_eq (dx ++ dy) (iota 0 (uD p)) ->
  (forall r, (r < uR p)%N -> 0 < \det (mxf (size dx) (size dx) (msub2 dx dx (uLam p r)))) ->
  cond_ok (condition_on_explicit dy dx p)
  /\ cR (condition_on_explicit dy dx p) = uR p /\ cDy (condition_on_explicit dy dx p) = size dx
  /\ cDx (condition_on_explicit dy dx p) = size dy.
Proof. exact: condition_on_explicit_ok. Qed.
End C06.
Print Assumptions C06_product_rule.
Print Assumptions C06_condition_on_is_explicit.
Print Assumptions C06_complement_partition.
Print Assumptions C06_conditional_wellformed.
