(* C07 -- the joint transformation is the chain rule p(x,y) = p(y|x) p(x), x first; all five conditional classes
   (through effM / effb / cond_mu), both branches of the Dx > Dy log-determinant computation, batch layouts
   (1,1), (1,n), (n,1) with component k = rc * R_x + rx. *)
From mathcomp Require Import all_ssreflect all_algebra.
From GT Require Import Tensor DetExec LogDom Obj Factor Measure Pdf Cond EvalLemmas Spec C01_proofs PdfLemmas C04_proofs C0809_proofs C1013_proofs C07_proofs.
Import GRing.Theory Num.Theory.
Local Open Scope ring_scope.

Section C07.
Variables (F : realFieldType) (LS : logS F).

Theorem C07_chain_rule (c : cond LS) (p : measure LS) k (x y : vec F) :
  pdf_ok p -> cond_ok c -> cDx c = uD p -> (k < cR c * uR p)%N ->
  ueval (affine_joint c p) k (vcat (cDx c) x y)
  = ueval (condition_on_x c [:: x]) (jrc p k * 1 + 0) y + ueval p (jrx p k) x.
Proof. exact: joint_chain_rule. Qed.

(* the joint is N((mu, M mu + b), [[S, S M'], [M S, Sy + M S M']]) and a consistent density: Sigma_xy Lambda_xy = I,
   and the log-determinant through the Schur complement is the true one in BOTH dimension regimes *)
Theorem C07_joint_law (c : cond LS) (p : measure LS) k (z : vec F) :
  pdf_ok p -> cond_ok c -> cDx c = uD p -> (k < cR c * uR p)%N ->
  ueval (affine_joint c p) k z
  = lnN LS (cvf (cDx c + cDy c) (vcat (cDx c) (getmu p (jrx p k)) (cond_mu c (jrc p k) (getmu p (jrx p k)))))
        (mxf (cDx c + cDy c) (cDx c + cDy c) (joint_Sigma c p k)) (cvf (cDx c + cDy c) z).
Proof. exact: affine_joint_eval. Qed.
Theorem C07_joint_consistent (c : cond LS) (p : measure LS) :
  pdf_ok p -> cond_ok c -> cDx c = uD p ->
  pdf_ok (affine_joint c p)
  /\ pdf_args_ok (LS:=LS) false (cR c * uR p) (cDx c + cDy c) (joint_Sigma c p) (Some (joint_Lambda c p)) (Some (joint_hld c p)).
Proof. by move=> H1 H2 H3; split; [exact: affine_joint_ok | exact: joint_args_ok]. Qed.
End C07.
Print Assumptions C07_chain_rule.
Print Assumptions C07_joint_law.
Print Assumptions C07_joint_consistent.
