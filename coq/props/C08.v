(* C08 -- the marginal transformation returns p(y) = integral of p(y|x) p(x) dx. *)
From mathcomp Require Import all_ssreflect all_algebra.
From GT Require Import Tensor DetExec LogDom Obj Factor Measure Pdf Cond EvalLemmas Spec C01_proofs PdfLemmas C04_proofs C05_proofs C06_proofs C0809_proofs C1013_proofs.
Import GRing.Theory Num.Theory.
Local Open Scope ring_scope.

Section C08.
Variables (F : realFieldType) (LS : logS F).

(* it IS N(M mu + b, Sigma_y + M Sigma_x M') for every conditional class and batch layout *)
Theorem C08_marginal_transformation_law (c : cond LS) (p : measure LS) k (y : vec F) :
  pdf_ok p -> cond_ok c -> cDx c = uD p -> marg_pos c p -> (k < cR c * uR p)%N ->
  ueval (affine_marginal c p) k y
  = lnN LS (cvf (cDy c) (cond_mu c (jrc p k) (getmu p (jrx p k)))) (SyM c p k) (cvf (cDy c) y).
Proof. exact: affine_marginal_eval. Qed.
Theorem C08_covariance (c : cond LS) (p : measure LS) k : cDx c = uD p ->
  SyM c p k = cSg c (jrc p k) + mxf (cDy c) (cDx c) (effM c (jrc p k))
                *m mxf (cDx c) (cDx c) (getS p (jrx p k)) *m (mxf (cDy c) (cDx c) (effM c (jrc p k)))^T.
Proof. exact: marg_SigmaE. Qed.

(* it equals the y-marginal of the joint transformation (whose x-integral it therefore is, by C05) *)
Theorem C08_is_marginal_of_joint (c : cond LS) (p : measure LS) k (y : vec F) :
  pdf_ok p -> cond_ok c -> cDx c = uD p -> marg_pos c p -> (k < cR c * uR p)%N ->
  ueval (get_marginal (iota (cDx c) (cDy c)) (affine_joint c p)) k y = ueval (affine_marginal c p) k y.
Proof. exact: marginal_of_joint. Qed.
End C08.
Print Assumptions C08_marginal_transformation_law.
Print Assumptions C08_covariance.
Print Assumptions C08_is_marginal_of_joint.
