(* C08 -- the marginal transformation returns p(y) = integral of p(y|x) p(x) dx. *)
From mathcomp Require Import all_ssreflect all_algebra.
From GT Require Import Tensor DetExec LogDom Obj Factor Measure Pdf Cond EvalLemmas Spec C01_proofs PdfLemmas C04_proofs C05_proofs C06_proofs C0809_proofs C1013_proofs C12_proofs C07_proofs Extra_proofs.
Import GRing.Theory Num.Theory.
Local Open Scope ring_scope.

Section C08.
Variables (F : realFieldType) (LS : logS F).

(* it IS N(M mu + b, Sigma_y + M Sigma_x M') for every conditional class and batch layout *)
Theorem C08_marginal_transformation_law (c : cond LS) (p : measure LS) k (y : vec F) :
  pdf_ok p -> cond_ok c -> cDx c = uD p -> marg_pos c p -> (k < cR c * uR p)%N ->
  ueval (affine_marginal c p) k y
  = lnN LS (cvf (cDy c) (cond_mu c (jrc p k) (getmu p (jrx p k)))) (SyM c p k) (cvf (cDy c) y).
Proof. exact: affine_marginal_eval. Qed.
Theorem C08_covariance (c : cond LS) (p : measure LS) k : cDx c = uD p ->
  SyM c p k = cSg c (jrc p k) + mxf (cDy c) (cDx c) (effM c (jrc p k))
                *m mxf (cDx c) (cDx c) (getS p (jrx p k)) *m (mxf (cDy c) (cDx c) (effM c (jrc p k)))^T.
Proof. exact: marg_SigmaE. Qed.

(* it equals the y-marginal of the joint transformation (whose x-integral it therefore is, by C05) *)
Theorem C08_is_marginal_of_joint (c : cond LS) (p : measure LS) k (y : vec F) :
  pdf_ok p -> cond_ok c -> cDx c = uD p -> marg_pos c p -> (k < cR c * uR p)%N ->
  ueval (get_marginal (iota (cDx c) (cDy c)) (affine_joint c p)) k y = ueval (affine_marginal c p) k y.
Proof. exact: marginal_of_joint. Qed.

(* p(y) is the Gaussian integral (specification GI) over x of a joint density over (x, y), x first: the marginal of
   the LAST db coordinates of any density equals lngint over the first da coordinates.  With C08_is_marginal_of_joint
   and the chain rule C07 this is "p(y) = integral of p(y|x) p(x) dx". *)
Theorem C08_marginal_is_integral_over_x da db (p : measure LS) r (xb : vec F) :
  pdf_ok p -> uD p = (da + db)%N -> (r < uR p)%N ->
  0 < \det (mxf da da (msub2 (iota 0 da) (iota 0 da) (uLam p r))) ->
  0 < \det (mxf db db (msub2 (iota da db) (iota da db) (getS p r))) ->
  let Laa := mxf da da (msub2 (iota 0 da) (iota 0 da) (uLam p r)) in
  let Lab := mxf da db (msub2 (iota 0 da) (iota da db) (uLam p r)) in
  let Lbb := mxf db db (msub2 (iota da db) (iota da db) (uLam p r)) in
  let nua := cvf da (vsel (iota 0 da) (unu p r)) in
  let nub := cvf db (vsel (iota da db) (unu p r)) in
  let b := cvf db xb in
  lngint Laa (nua - Lab *m b) (ulb p r + emb LS (- half F * sc (b^T *m Lbb *m b) + sc (b^T *m nub)))
  = lnN LS (cvf db (vsel (iota da db) (getmu p r))) (mxf db db (msub2 (iota da db) (iota da db) (getS p r))) b.
Proof. exact: marginal_is_integral_last. Qed.
End C08.
Print Assumptions C08_marginal_is_integral_over_x.
Print Assumptions C08_marginal_transformation_law.
Print Assumptions C08_covariance.
Print Assumptions C08_is_marginal_of_joint.
