(* C09 -- the conditional transformation is Bayes' rule and is invertible. *)
From mathcomp Require Import all_ssreflect all_algebra.
From GT Require Import Tensor DetExec LogDom Obj Factor Measure Pdf Cond EvalLemmas Spec C01_proofs PdfLemmas C04_proofs C05_proofs C06_proofs C0809_proofs C1013_proofs C07_proofs Extra_proofs C12_cond.
Import GRing.Theory Num.Theory.
Local Open Scope ring_scope.

Section C09.
Variables (F : realFieldType) (LS : logS F).

(* p(x|y) p(y) = p(y|x) p(x) at all points, every class, layouts (1,1), (1,n), (n,1) *)
Theorem C09_bayes_rule (c : cond LS) (p : measure LS) k (x y : vec F) :
  pdf_ok p -> cond_ok c -> cDx c = uD p -> marg_pos c p -> post_pos c p -> (k < cR c * uR p)%N ->
  ueval (condition_on_x (affine_conditional c p) [:: y]) (k * 1 + 0) x + ueval (affine_marginal c p) k y
  = ueval (condition_on_x c [:: x]) (jrc p k * 1 + 0) y + ueval p (jrx p k) x.
Proof. exact: bayes_rule. Qed.

Theorem C09_posterior_wellformed (c : cond LS) (p : measure LS) :
  pdf_ok p -> cond_ok c -> cDx c = uD p -> post_pos c p ->
  cond_ok (affine_conditional c p)
  /\ cR (affine_conditional c p) = (cR c * uR p)%N /\ cDy (affine_conditional c p) = cDx c
  /\ cDx (affine_conditional c p) = cDy c.
Proof. exact: affine_conditional_ok. Qed.

(* applying the conditional transformation to the result with p(y) recovers the original conditional,
   and its marginal transformation with p(y) recovers p(x) (component by component) *)
Theorem C09_invertible (c : cond LS) (p : measure LS) :
  pdf_ok p -> cond_ok c -> cDx c = uD p -> cR c = 1%N -> uR p = 1%N -> ~~ cident (ccl c) ->
  marg_pos c p -> post_pos c p ->
  let back := affine_conditional (affine_conditional c p) (affine_marginal c p) in
  let pback := affine_marginal (affine_conditional c p) (affine_marginal c p) in
  [/\ mxf (cDy c) (cDx c) (cM back 0%N) = mxf (cDy c) (cDx c) (cM c 0%N),
      cvf (cDy c) (cb back 0%N) = cvf (cDy c) (cb c 0%N),
      mxf (cDy c) (cDy c) (cSig back 0%N) = cSg c 0%N,
      cvf (uD p) (getmu pback 0%N) = muv p 0%N
    & mxf (uD p) (uD p) (getS pback 0%N) = Sg p 0%N].
Proof. exact: cond_transform_involutive. Qed.
(* batched round trip, slice-wise (no restriction on the batch layout): component k of the posterior conditional
   and of p(y), transformed back, recover the conditional's component jrc p k and p(x)'s component jrx p k *)
Theorem C09_invertible_batched (c : cond LS) (p : measure LS) k :
  pdf_ok p -> cond_ok c -> cDx c = uD p -> ~~ cident (ccl c) -> marg_pos c p -> post_pos c p ->
  (k < cR c * uR p)%N ->
  let ck := cslice [:: Posz k] (affine_conditional c p) in
  let qk := uslice [:: Posz k] (affine_marginal c p) in
  let back := affine_conditional ck qk in
  let pback := affine_marginal ck qk in
  [/\ mxf (cDy c) (cDx c) (cM back 0%N) = mxf (cDy c) (cDx c) (cM c (jrc p k)),
      cvf (cDy c) (cb back 0%N) = cvf (cDy c) (cb c (jrc p k)),
      mxf (cDy c) (cDy c) (cSig back 0%N) = cSg c (jrc p k),
      cvf (uD p) (getmu pback 0%N) = muv p (jrx p k)
    & mxf (uD p) (uD p) (getS pback 0%N) = Sg p (jrx p k)].
Proof. exact: cond_transform_involutive_batched. Qed.
End C09.
Print Assumptions C09_bayes_rule.
Print Assumptions C09_posterior_wellformed.
Print Assumptions C09_invertible.
Print Assumptions C09_invertible_batched.
