(* C10 -- set_y returns the likelihood x -> p(y|x) including its normaliser.
   PARTIAL + REFUTED for the code as it is: ConditionalGaussianPDF.set_y writes Dx where the normaliser
   needs Dy (known finding).  set_y true = the code as it is, set_y false = the repaired variant. *)
From mathcomp Require Import all_ssreflect all_algebra.
From GT Require Import Tensor DetExec LogDom QcField QcOrder Obj Factor Measure Pdf Cond EvalLemmas Spec C01_proofs PdfLemmas C04_proofs C05_proofs C06_proofs C0809_proofs C1013_proofs.
Import GRing.Theory Num.Theory.
Local Open Scope ring_scope.

Section C10.
Variables (F : realFieldType) (LS : logS F).

(* exact value of the returned factor, all Dx, Dy, both pairing conventions (R = 1 with N observations, R = N) *)
Theorem C10_set_y_value dxn (c : cond LS) (ys : seq (vec F)) n (x : vec F) :
  cond_ok c -> (cR c == 1%N) || (size ys == cR c) -> (n < size ys)%N ->
  feval (set_y dxn c ys) n x
  = lnN LS (cMm c (bidx (cR c) n) *m cvf (cDx c) x + cbv c (bidx (cR c) n)) (cSg c (bidx (cR c) n))
        (cvf (cDy c) (nth vzero ys n))
    + hl2p LS *+ (cDy c) - hl2p LS *+ (if dxn then cDx c else cDy c).
Proof. exact: set_y_eval. Qed.

(* FULL statement, holds for the repaired variant: cond.set_y(y)(x) = cond(x)(y) *)
Theorem C10_set_y_is_likelihood_repaired (c : cond LS) (ys : seq (vec F)) n (x : vec F) :
  cond_ok c -> (cR c == 1%N) || (size ys == cR c) -> (n < size ys)%N ->
  feval (set_y false c ys) n x
  = ueval (condition_on_x c [:: x]) (bidx (cR c) n * 1 + 0) (nth vzero ys n).
Proof. exact: set_y_likelihood_repaired. Qed.

(* the code as it is: only when Dx = Dy ... *)
Theorem C10_set_y_is_likelihood_partial (c : cond LS) (ys : seq (vec F)) n (x : vec F) :
  cond_ok c -> (cR c == 1%N) || (size ys == cR c) -> (n < size ys)%N -> cDx c = cDy c ->
  feval (set_y true c ys) n x
  = ueval (condition_on_x c [:: x]) (bidx (cR c) n * 1 + 0) (nth vzero ys n).
Proof. exact: set_y_likelihood_partial. Qed.
(* ... otherwise it is off by exactly (Dy - Dx) * 1/2 ln 2pi (this IS the matcher of the known finding) *)
Theorem C10_set_y_offset (c : cond LS) (ys : seq (vec F)) n (x : vec F) :
  cond_ok c -> (cR c == 1%N) || (size ys == cR c) -> (n < size ys)%N ->
  feval (set_y true c ys) n x
  = ueval (condition_on_x c [:: x]) (bidx (cR c) n * 1 + 0) (nth vzero ys n)
    + hl2p LS *+ (cDy c) - hl2p LS *+ (cDx c).
Proof. exact: set_y_offset. Qed.

(* the returned factor is a well-formed batch: one component per observation *)
Theorem C10_one_component_per_observation dxn (c : cond LS) (ys : seq (vec F)) :
  fR (set_y dxn c ys) = (if cR c == 1%N then size ys else cR c) /\ fD (set_y dxn c ys) = cDx c.
Proof. exact: set_y_R. Qed.
End C10.

(* REFUTATION of the full statement for the code as it is: in the executable log domain the offset of a
   conditional with Dx = 2, Dy = 1 is non-zero *)
Theorem C10_set_y_refuted : hl2p LQ *+ 1 - hl2p LQ *+ 2 != 0.
Proof. by vm_compute. Qed.

Print Assumptions C10_set_y_value.
Print Assumptions C10_set_y_is_likelihood_repaired.
Print Assumptions C10_set_y_is_likelihood_partial.
Print Assumptions C10_set_y_offset.
Print Assumptions C10_one_component_per_observation.
Print Assumptions C10_set_y_refuted.
