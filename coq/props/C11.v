(* C11 -- Bayesian updating is path independent (posterior and evidence).
   bayes_step c y p      : route (a) conditional transformation, then conditioning on the observed value
   bayes_step_joint      : route (b) joint transformation, then coordinate conditioning on the y block
   bayes_step_factor dxn : route (c) prior times the likelihood factor set_y, normalised
   Observation lists of ANY length: C11_any_order, C11_evidence_any_number (induction over the list).
   Kalman filtering, ANY number of steps (induction over the list of time steps, proofs/C11_kalman.v): the filter
   (predict = marginal transformation, update = conditional transformation + conditioning) factorises the FULL joint
   density of all states and observations at every trajectory:
     ln p(x_0..x_T, y_1..y_T) = accumulated evidence + ln filtered(x_T) + sum_t ln p(x_{t-1} | x_t, y_1..t-1),
   where every backward kernel is a well-formed conditional whose log-integral over its value is zero (GI): integrating
   x_0, x_1, ..., x_{T-1} out of the dense joint one after the other leaves evidence x filtered density.  The iterated
   integration itself (Fubini) is not formalised: no multivariate integration library is installed. *)
From Coq Require Import Permutation.
From mathcomp Require Import all_ssreflect all_algebra.
From GT Require Import Tensor DetExec LogDom Obj Factor Measure Pdf Cond EvalLemmas Spec C01_proofs PdfLemmas C04_proofs C0809_proofs C11_proofs C11_list C11_kalman SPD NonVacuity.
Import GRing.Theory Num.Theory.
Local Open Scope ring_scope.

Section C11.
Variables (F : realFieldType) (LS : logS F).

(* the posterior: precision prior + M' Lambda_y M, information vector prior + M' Lambda_y (y - b) *)
Theorem C11_posterior_natural_parameters (c : cond LS) (y : vec F) (p : measure LS) :
  single c p -> post_pos c p ->
  let q := bayes_step c y p in let D := uD p in let Dy := cDy c in
  let M := effM c 0%N in let Ly := cLam c 0%N in
  [/\ pdf_ok q, uR q = 1%N, uD q = D,
      forall i j, (i < D)%N -> (j < D)%N -> uLam q 0%N i j = uLam p 0%N i j + mmul Dy (mtr M) (mmul Dy Ly M) i j
    & forall i, (i < D)%N -> unu q 0%N i = unu p 0%N i + vmat Dy (vsub y (effb c 0%N)) (mmul Dy Ly M) i].
Proof. exact: bayes_step_natural. Qed.

(* the three routes give the same posterior (route (c) with either normaliser: normalisation removes it) *)
Theorem C11_routes_agree dxn (c : cond LS) (y : vec F) (p : measure LS) (x : vec F) :
  single c p -> post_pos c p -> marg_pos c p -> ~~ is_diag (ucls p) ->
  ueval (bayes_step_joint c y p) 0%N x = ueval (bayes_step c y p) 0%N x
  /\ ueval (bayes_step_factor dxn c y p) 0%N x = ueval (bayes_step c y p) 0%N x.
Proof. exact: routes_agree. Qed.

(* any order of updating gives the same posterior *)
Theorem C11_order_independent (c1 c2 : cond LS) (y1 y2 : vec F) (p : measure LS) (x : vec F) :
  single c1 p -> single c2 p -> post_pos c1 p -> post_pos c2 p ->
  post_pos c2 (bayes_step c1 y1 p) -> post_pos c1 (bayes_step c2 y2 p) ->
  ueval (bayes_step c2 y2 (bayes_step c1 y1 p)) 0%N x = ueval (bayes_step c1 y1 (bayes_step c2 y2 p)) 0%N x.
Proof. exact: posterior_order_independent. Qed.

(* evidence: log-integral of prior x likelihood = predictive log-density, up to the set_y normaliser offset
   (zero for the repaired variant, (Dy - Dx) 1/2 ln 2pi for the code as it is: the known finding) *)
Theorem C11_evidence_one_observation dxn (c : cond LS) (y : vec F) (p : measure LS) :
  single c p -> post_pos c p -> marg_pos c p -> ~~ is_diag (ucls p) ->
  (log_integral (multiply false p (set_y dxn c [:: y]))).2 0%N
  = ueval (affine_marginal c p) 0%N y + hl2p LS *+ (cDy c) - hl2p LS *+ (if dxn then cDx c else cDy c).
Proof. exact: evidence_one_step. Qed.
(* the log-evidence of two observations is the sum of the sequential predictive log-densities *)
Theorem C11_evidence_chain (c1 c2 : cond LS) (y1 y2 : vec F) (p : measure LS) :
  single c1 p -> single c2 p -> post_pos c1 p -> marg_pos c1 p -> ~~ is_diag (ucls p) ->
  post_pos c2 (bayes_step c1 y1 p) -> marg_pos c2 (bayes_step c1 y1 p) ->
  posdet (multiply false (multiply false p (set_y false c1 [:: y1])) (set_y false c2 [:: y2])) ->
  (log_integral (multiply false (multiply false p (set_y false c1 [:: y1])) (set_y false c2 [:: y2]))).2 0%N
  = ueval (affine_marginal c1 p) 0%N y1 + ueval (affine_marginal c2 (bayes_step c1 y1 p)) 0%N y2.
Proof. exact: evidence_chain2. Qed.

(* a density integrates to one; densities with equal natural parameters are the same function *)
Theorem C11_density_integrates_to_one (p : measure LS) r : pdf_ok p -> (r < uR p)%N -> (log_integral p).2 r = 0.
Proof. exact: log_integral_density. Qed.
Theorem C11_natural_parameters_determine_density (p p' : measure LS) r (x : vec F) :
  pdf_ok p -> pdf_ok p' -> uD p = uD p' -> (r < uR p)%N -> (r < uR p')%N ->
  (forall i j, (i < uD p)%N -> (j < uD p)%N -> uLam p r i j = uLam p' r i j) ->
  (forall i, (i < uD p)%N -> unu p r i = unu p' r i) ->
  ueval p r x = ueval p' r x.
Proof. exact: natural_params_determine_density. Qed.

(* ANY finite list of observations (each with its own M_i, b_i, Sigma_i): every permutation of the update order
   gives the same posterior, and the log-integral of prior x all likelihood factors is the sum of the sequential
   predictive log-densities.  obs_ok = shapes fit and the matrices that get inverted are invertible, step by step. *)
Theorem C11_any_order (os os' : seq (obs LS)) (p : measure LS) (x : vec F) : pdf_ok p -> uR p = 1%N ->
  Permutation os os' -> obs_ok os p -> obs_ok os' p ->
  ueval (seq_update os p) 0%N x = ueval (seq_update os' p) 0%N x.
Proof. exact: seq_update_perm. Qed.
Theorem C11_evidence_any_number (os : seq (obs LS)) (p : measure LS) : pdf_ok p -> uR p = 1%N -> ~~ is_diag (ucls p) ->
  obs_ok os p -> (log_integral (lik_product os p)).2 0%N = seq_evidence os p.
Proof. exact: evidence_chain_derived. Qed.

(* Kalman filtering against the full joint density, every number of time steps *)
Theorem C11_kalman_factorisation (ss : seq (kstep LS)) (p : measure LS) (x0 : vec F) (xs : seq (vec F)) :
  pdf_ok p -> uR p = 1%N -> kok ss p -> size xs = size ss ->
  kjoint ss p x0 xs = kevidence ss p + ueval (kfilter ss p) 0%N (last x0 xs) + kback_sum (kback ss p) x0 xs.
Proof. exact: kalman_factorisation. Qed.
Theorem C11_kalman_wellformed (ss : seq (kstep LS)) (p : measure LS) : pdf_ok p -> uR p = 1%N -> kok ss p ->
  pdf_ok (kfilter ss p) /\ uR (kfilter ss p) = 1%N /\ all_cond_ok (kback ss p).
Proof. exact: kalman_wellformed. Qed.
Theorem C11_kalman_backward_kernels_normalised (ss : seq (kstep LS)) (p : measure LS) :
  pdf_ok p -> uR p = 1%N -> kok ss p -> all_kernels_normalised (kback ss p).
Proof. exact: kalman_backward_normalised. Qed.
(* the side conditions are the library's own preconditions of one predict and one update step *)
Theorem C11_kalman_one_step_preconditions (s : kstep LS) (p : measure LS) :
  single (ktrans s) p -> marg_pos (ktrans s) p -> post_pos (ktrans s) p ->
  single (kobs s) (kpred s p) -> marg_pos (kobs s) (kpred s p) -> post_pos (kobs s) (kpred s p) -> kok [:: s] p.
Proof. exact: kok_one. Qed.

(* the side conditions (`obs_ok`, `kok`: shapes fit, the matrices that get inverted are invertible, step by step) hold for EVERY model
   whose covariances are symmetric positive definite, for any list of observations / time steps -- and concretely: *)
Theorem C11_side_conditions_from_spd (ss : seq (kstep LS)) (os : seq (obs LS)) (p : measure LS) :
  pdf_ok p -> uR p = 1%N -> pdf_spd p ->
  (kspd (uD p) ss -> kok ss p) /\ (ospd (uD p) os -> obs_ok os p).
Proof. by move=> okp HR Hp; split; [exact: kok_of_spd | exact: obs_ok_of_spd]. Qed.
Theorem C11_kalman_hypotheses_satisfiable n :
  pdf_ok (nv_prior LS) /\ uR (nv_prior LS) = 1%N /\ kok (nseq n (KStep (nv_trans LS) (nv_cond LS) (nvy F))) (nv_prior LS).
Proof. by split; [exact: nv_prior_ok | split; [by [] | exact: nv_kokn]]. Qed.
End C11.
Print Assumptions C11_side_conditions_from_spd.
Print Assumptions C11_kalman_hypotheses_satisfiable.
Print Assumptions C11_kalman_factorisation.
Print Assumptions C11_kalman_wellformed.
Print Assumptions C11_kalman_backward_kernels_normalised.
Print Assumptions C11_kalman_one_step_preconditions.
Print Assumptions C11_any_order.
Print Assumptions C11_evidence_any_number.
Print Assumptions C11_posterior_natural_parameters.
Print Assumptions C11_routes_agree.
Print Assumptions C11_order_independent.
Print Assumptions C11_evidence_one_observation.
Print Assumptions C11_evidence_chain.
Print Assumptions C11_density_integrates_to_one.
Print Assumptions C11_natural_parameters_determine_density.
