(* C12 -- batches are independent components; slicing commutes with every operation.
   sel R idx k = the component addressed by entry k of an index array (jnp.take semantics: negative entries
   wrap, repetitions allowed).  fwf1 = what the rank-one constructor establishes (Lambda = g v v'). *)
From mathcomp Require Import all_ssreflect all_algebra.
From GT Require Import Tensor DetExec LogDom Obj Factor Measure Pdf Cond Moments ExpLog EvalLemmas Spec C01_proofs PdfLemmas C04_proofs C0809_proofs C12_proofs C14_proofs C07_proofs Extra_proofs C12_cond.
Import GRing.Theory Num.Theory.
Local Open Scope ring_scope.

Section C12.
Variables (F : realFieldType) (LS : logS F).

Theorem C12_take_semantics R (n : nat) :
  nidx R (Posz n) = n /\ ((n < R)%N -> nidx R (Negz n) = (R - n.+1)%N /\ (nidx R (Negz n) < R)%N).
Proof. by split; [exact: nidx_nonneg | exact: nidx_neg]. Qed.

(* slicing selects components *)
Theorem C12_slice_factor idx (f : factor LS) k (x : vec F) :
  fwf f -> fwf1_at f (sel (fR f) idx k) -> (k < size idx)%N ->
  feval (fslice idx f) k x = feval f (sel (fR f) idx k) x /\ fR (fslice idx f) = size idx.
Proof. exact: fslice_eval_partial. Qed.
Theorem C12_slice_measure idx (u : measure LS) k (x : vec F) : ~~ is_pdf (ucls u) -> (k < size idx)%N ->
  ueval (uslice idx u) k x = ueval u (sel (uR u) idx k) x /\ uR (uslice idx u) = size idx.
Proof. exact: uslice_eval. Qed.
Theorem C12_slice_density idx (p : measure LS) k (x : vec F) : is_pdf (ucls p) -> pdf_ok p -> idx_ok (uR p) idx ->
  (k < size idx)%N ->
  ueval (uslice idx p) k x = ueval p (sel (uR p) idx k) x /\ uR (uslice idx p) = size idx.
Proof. exact: uslice_pdf_eval. Qed.
Theorem C12_slice_conditional idx (c : cond LS) k : (k < size idx)%N ->
  let s := sel (cR c) idx k in let c' := cslice idx c in
  [/\ cR c' = size idx, cDy c' = cDy c, cDx c' = cDx c,
      (forall i j, (i < cDy c)%N -> (j < cDx c)%N -> effM c' k i j = effM c s i j)
    & (forall i, (i < cDy c)%N -> effb c' k i = effb c s i)]
  /\ [/\ (forall i j, (i < cDy c)%N -> (j < cDy c)%N -> cSig c' k i j = cSig c s i j),
         (forall i j, (i < cDy c)%N -> (j < cDy c)%N -> cLam c' k i j = cLam c s i j) & chS c' k = chS c s].
Proof. exact: cslice_fields. Qed.

(* products (layout i*R2+j): slicing either operand selects rows / columns of the grid *)
Theorem C12_slice_commutes_multiply_measure upd idx (u : measure LS) (f : factor LS) k j (x : vec F) :
  fwf f -> uD u = fD f -> ~~ is_pdf (ucls u) -> idx_ok (uR u) idx -> (k < size idx)%N -> (j < fR f)%N ->
  ueval (multiply upd (uslice idx u) f) (k * fR f + j) x
  = ueval (multiply upd u f) (sel (uR u) idx k * fR f + j) x.
Proof. exact: slice_multiply_measure. Qed.
Theorem C12_slice_commutes_multiply_factor upd idx (u : measure LS) (f : factor LS) i k (x : vec F) :
  fwf f -> fwf1 f -> uD u = fD f -> idx_ok (fR f) idx -> (i < uR u)%N -> (k < size idx)%N ->
  ueval (multiply upd u (fslice idx f)) (i * size idx + k) x
  = ueval (multiply upd u f) (i * fR f + sel (fR f) idx k) x.
Proof. exact: slice_multiply_factor_partial. Qed.
Theorem C12_slice_commutes_hadamard upd idx (u : measure LS) (f : factor LS) k (x : vec F) :
  fwf f -> fwf1 f -> uD u = fD f -> ~~ is_pdf (ucls u) -> uR u = fR f -> idx_ok (uR u) idx -> (k < size idx)%N ->
  ueval (hadamard upd (uslice idx u) (fslice idx f)) k x = ueval (hadamard upd u f) (sel (uR u) idx k) x.
Proof. exact: slice_hadamard_partial. Qed.

(* conditioning on N points: layout r*N+n *)
Theorem C12_slice_commutes_condition_on_x idx (c : cond LS) (xs : seq (vec F)) k n (y : vec F) :
  cond_ok c -> idx_ok (cR c) idx -> (k < size idx)%N -> (n < size xs)%N ->
  ueval (condition_on_x (cslice idx c) xs) (k * size xs + n) y
  = ueval (condition_on_x c xs) (sel (cR c) idx k * size xs + n) y.
Proof. exact: slice_condition_on_x. Qed.

(* update(idx, d) replaces exactly the addressed components *)
Theorem C12_update idx (p d : measure LS) r (x : vec F) :
  uniq [seq nidx (uR p) i | i <- idx] -> uD d = uD p -> (r < uR p)%N ->
  ueval (pdf_update idx p d) r x
  = (if (index r [seq nidx (uR p) i | i <- idx] < size idx)%N
     then ueval d (index r [seq nidx (uR p) i | i <- idx]) x else ueval p r x).
Proof. exact: pdf_update_spec. Qed.

(* all integrals: the total mass, mean and covariance that every integrate_* method reads are those of the
   selected component (the 12 polynomial integrals and the expected-log integrals are functions of them and
   of the per-component coefficients) *)
Theorem C12_slice_commutes_integrals idx (u : measure LS) k :
  cache_ok u -> diag_ok u -> posdet u -> ~~ is_pdf (ucls u) -> (uSig u -> uhldL u) -> idx_ok (uR u) idx -> (k < size idx)%N ->
  let s := sel (uR u) idx k in
  [/\ forall i, (i < uD u)%N -> getmu (prepare (uslice idx u)) k i = getmu (prepare u) s i,
      forall i j, (i < uD u)%N -> (j < uD u)%N -> getS (prepare (uslice idx u)) k i j = getS (prepare u) s i j
    & log_mass (uslice idx u) k = log_mass u s].
Proof. exact: slice_moments. Qed.

(* slicing commutes with the joint and the marginal transformation: batch on the conditional (p_x single) and batch
   on p_x (conditional single) *)
Theorem C12_slice_commutes_joint_conditional idx (c : cond LS) (p : measure LS) k (z : vec F) :
  pdf_ok p -> cond_ok c -> cDx c = uD p -> uR p = 1%N -> idx_ok (cR c) idx -> (k < size idx)%N ->
  ueval (affine_joint (cslice idx c) p) k z = ueval (affine_joint c p) (sel (cR c) idx k) z.
Proof. exact: slice_joint_cond. Qed.
Theorem C12_slice_commutes_marginal_conditional idx (c : cond LS) (p : measure LS) k (y : vec F) :
  pdf_ok p -> cond_ok c -> cDx c = uD p -> uR p = 1%N -> marg_pos c p -> idx_ok (cR c) idx -> (k < size idx)%N ->
  ueval (affine_marginal (cslice idx c) p) k y = ueval (affine_marginal c p) (sel (cR c) idx k) y.
Proof. exact: slice_marginal_cond. Qed.
Theorem C12_slice_commutes_joint_prior idx (c : cond LS) (p : measure LS) k (z : vec F) :
  pdf_ok p -> is_pdf (ucls p) -> cond_ok c -> cDx c = uD p -> cR c = 1%N -> idx_ok (uR p) idx -> (k < size idx)%N ->
  ueval (affine_joint c (uslice idx p)) k z = ueval (affine_joint c p) (sel (uR p) idx k) z.
Proof. exact: slice_joint_px. Qed.
Theorem C12_slice_commutes_marginal_prior idx (c : cond LS) (p : measure LS) k (y : vec F) :
  pdf_ok p -> is_pdf (ucls p) -> cond_ok c -> cDx c = uD p -> cR c = 1%N -> marg_pos c p -> idx_ok (uR p) idx -> (k < size idx)%N ->
  ueval (affine_marginal c (uslice idx p)) k y = ueval (affine_marginal c p) (sel (uR p) idx k) y.
Proof. exact: slice_marginal_px. Qed.
(* ... and with the conditional transformation (Bayes' rule), observed through the posterior densities p(x | y) *)
Theorem C12_slice_commutes_conditional_conditional idx (c : cond LS) (p : measure LS) k (y x : vec F) :
  pdf_ok p -> cond_ok c -> cDx c = uD p -> uR p = 1%N -> post_pos c p -> idx_ok (cR c) idx -> (k < size idx)%N ->
  ueval (condition_on_x (affine_conditional (cslice idx c) p) [:: y]) (k * 1 + 0) x
  = ueval (condition_on_x (affine_conditional c p) [:: y]) (sel (cR c) idx k * 1 + 0) x.
Proof. exact: slice_conditional_cond. Qed.
Theorem C12_slice_commutes_conditional_prior idx (c : cond LS) (p : measure LS) k (y x : vec F) :
  pdf_ok p -> is_pdf (ucls p) -> cond_ok c -> cDx c = uD p -> cR c = 1%N -> post_pos c p -> idx_ok (uR p) idx ->
  (k < size idx)%N ->
  ueval (condition_on_x (affine_conditional c (uslice idx p)) [:: y]) (k * 1 + 0) x
  = ueval (condition_on_x (affine_conditional c p) [:: y]) (sel (uR p) idx k * 1 + 0) x.
Proof. exact: slice_conditional_px. Qed.
End C12.
Print Assumptions C12_slice_commutes_joint_conditional.
Print Assumptions C12_slice_commutes_marginal_conditional.
Print Assumptions C12_slice_commutes_joint_prior.
Print Assumptions C12_slice_commutes_marginal_prior.
Print Assumptions C12_take_semantics.
Print Assumptions C12_slice_factor.
Print Assumptions C12_slice_measure.
Print Assumptions C12_slice_density.
Print Assumptions C12_slice_conditional.
Print Assumptions C12_slice_commutes_multiply_measure.
Print Assumptions C12_slice_commutes_multiply_factor.
Print Assumptions C12_slice_commutes_hadamard.
Print Assumptions C12_slice_commutes_condition_on_x.
Print Assumptions C12_update.
Print Assumptions C12_slice_commutes_integrals.
Print Assumptions C12_slice_commutes_conditional_conditional.
Print Assumptions C12_slice_commutes_conditional_prior.
