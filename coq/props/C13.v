(* C13 -- entropy, KL divergence, conditional entropy and mutual information.
   ElnN mu0 S0 mu S = E_{x ~ N(mu0,S0)}[ln N(x; mu, S)] by the Gaussian second-moment formula (specification GI).
   Proved: the equalities (any log structure), the swap invariance, and -- over an ORDERED log structure (base/OLog.v:
   a logarithm with values in the field and ln x < x - 1 off x = 1; inhabited by the real logarithm, base/RField.v) --
   KL >= 0 with equality only for equal mean and covariance, MI >= 0 with equality only for M = 0, in every
   dimension (proofs/SPD.v: log-det / trace inequality by induction on the dimension, no eigenvalues). *)
From Coq Require Import Reals.
From mathcomp Require Import all_ssreflect all_algebra.
From GT Require Import Tensor DetExec LogDom Obj Factor Measure Pdf Cond EvalLemmas Spec C01_proofs PdfLemmas C04_proofs C0809_proofs C1013_proofs C07_proofs C13_swap OLog RField SPD C13_ineq.
Import GRing.Theory Num.Theory.
Local Close Scope R_scope.
Local Open Scope ring_scope.

Section C13.
Variables (F : realFieldType) (LS : logS F).

Theorem C13_entropy (p : measure LS) r : pdf_ok p -> (r < uR p)%N ->
  entropy p r = - ElnN LS (muv p r) (Sg p r) (muv p r) (Sg p r).
Proof. exact: entropy_spec. Qed.

(* KL(p0 || p1) = E_p0[ln p0 - ln p1], a single-component operand broadcast (both operands non-empty;
   the statement without that hypothesis is refuted in proofs/C1013_proofs.v: kl_spec_counterexample) *)
Theorem C13_kl (p0 p1 : measure LS) k : pdf_ok p0 -> pdf_ok p1 -> uD p0 = uD p1 ->
  (0 < uR p0)%N -> (0 < uR p1)%N -> (k < maxn (uR p0) (uR p1))%N ->
  (uR p0 == uR p1) || (uR p0 == 1%N) || (uR p1 == 1%N) ->
  let r0 := bidx (uR p0) k in let r1 := bidx (uR p1) k in
  kl_divergence p0 p1 k
  = ElnN LS (muv p0 r0) (Sg p0 r0) (muv p0 r0) (Sg p0 r0)
    - ElnN LS (muv p0 r0) (Sg p0 r0) (cvf (uD p0) (getmu p1 r1)) (mxf (uD p0) (uD p0) (getS p1 r1)).
Proof. exact: kl_spec_partial. Qed.
Theorem C13_kl_zero_on_equal (p : measure LS) r : pdf_ok p -> (r < uR p)%N -> kl_divergence p p r = 0.
Proof. exact: kl_self. Qed.

(* conditional entropy = H(X,Y) - H(X); mutual information = H(X) + H(Y) - H(X,Y) (repaired sign: false;
   the pinned code computed the negative: true) *)
Theorem C13_conditional_entropy (c : cond LS) (p : measure LS) k :
  conditional_entropy c p k = entropy (affine_joint c p) k - entropy p (bidx (uR p) k).
Proof. exact: conditional_entropy_spec. Qed.
Theorem C13_mutual_information (c : cond LS) (p : measure LS) k :
  mutual_information false c p k
  = entropy p (bidx (uR p) k) + entropy (affine_marginal c p) k - entropy (affine_joint c p) k
  /\ mutual_information true c p k = - mutual_information false c p k.
Proof. by split; [exact: mutual_information_spec | exact: mutual_information_neg]. Qed.

(* in terms of true determinants: MI = 1/2 ln (det Sx det Sy / det Sxy); zero when y does not depend on x *)
Theorem C13_mutual_information_determinants (c : cond LS) (p : measure LS) k :
  pdf_ok p -> cond_ok c -> cDx c = uD p -> (k < cR c * uR p)%N -> (cR c == 1%N) || (uR p == 1%N) ->
  (0 < \det (mxf (cDy c) (cDy c) (marg_Sigma c p k))) ->
  mutual_information false c p k
  = hln LS (\det (Sg p (jrx p k))) + hln LS (\det (mxf (cDy c) (cDy c) (marg_Sigma c p k)))
    - hln LS (\det (mxf (cDx c + cDy c) (cDx c + cDy c) (joint_Sigma c p k))).
Proof. by apply: mutual_information_det => c' p' H1 H2 H3; exact: joint_args_ok. Qed.
Theorem C13_mutual_information_zero_if_independent (c : cond LS) (p : measure LS) k :
  pdf_ok p -> cond_ok c -> cDx c = uD p -> (k < cR c * uR p)%N -> (cR c == 1%N) || (uR p == 1%N) ->
  (forall i j, effM c (jrc p k) i j = 0) -> mutual_information false c p k = 0.
Proof. by apply: mutual_information_indep => c' p' H1 H2 H3; exact: joint_args_ok. Qed.

(* unchanged when the roles of x and y are swapped through the conditional transformation (every class,
   single components); and the chain rule H(Y|X) + H(X) = H(X|Y) + H(Y) *)
Theorem C13_mutual_information_swap (c : cond LS) (p : measure LS) :
  pdf_ok p -> cond_ok c -> cDx c = uD p -> cR c = 1%N -> uR p = 1%N -> marg_pos c p -> post_pos c p ->
  mutual_information false (affine_conditional c p) (affine_marginal c p) 0%N = mutual_information false c p 0%N.
Proof. exact: mi_swap_all_classes. Qed.
Theorem C13_entropy_chain_swap (c : cond LS) (p : measure LS) :
  pdf_ok p -> cond_ok c -> cDx c = uD p -> cR c = 1%N -> uR p = 1%N -> marg_pos c p -> post_pos c p ->
  conditional_entropy c p 0%N + entropy p 0%N
  = conditional_entropy (affine_conditional c p) (affine_marginal c p) 0%N + entropy (affine_marginal c p) 0%N.
Proof. exact: chain_swap_all_classes. Qed.
End C13.

(* ---- inequalities: ordered log structure O, symmetric positive definite covariances (spd, proofs/SPD.v) ---- *)
Section C13ineq.
Variables (F : realFieldType) (O : ologS F).
Notation LS := (logS_of O).
Theorem C13_kl_nonnegative (p0 p1 : measure LS) k : pdf_ok p0 -> pdf_ok p1 -> uD p0 = uD p1 ->
  let r0 := bidx (uR p0) k in let r1 := bidx (uR p1) k in
  (r0 < uR p0)%N -> (r1 < uR p1)%N ->
  spd (Sg p0 r0) -> spd (mxf (uD p0) (uD p0) (getS p1 r1)) ->
  (0 : F) <= kl_divergence p0 p1 k.
Proof. exact: kl_nonneg. Qed.
Theorem C13_kl_zero_only_if_equal (p0 p1 : measure LS) k : pdf_ok p0 -> pdf_ok p1 -> uD p0 = uD p1 ->
  let r0 := bidx (uR p0) k in let r1 := bidx (uR p1) k in
  (r0 < uR p0)%N -> (r1 < uR p1)%N ->
  spd (Sg p0 r0) -> spd (mxf (uD p0) (uD p0) (getS p1 r1)) ->
  kl_divergence p0 p1 k = 0 ->
  Sg p0 r0 = mxf (uD p0) (uD p0) (getS p1 r1) /\ muv p0 r0 = cvf (uD p0) (getmu p1 r1).
Proof. exact: kl_eq0. Qed.
Theorem C13_mutual_information_nonnegative (c : cond LS) (p : measure LS) k :
  pdf_ok p -> cond_ok c -> cDx c = uD p -> (k < cR c * uR p)%N -> (cR c == 1%N) || (uR p == 1%N) ->
  spd (cSg c (jrc p k)) -> spd (mxf (cDx c) (cDx c) (getS p (jrx p k))) ->
  (0 : F) <= mutual_information false c p k.
Proof. exact: mi_nonneg. Qed.
Theorem C13_mutual_information_zero_only_if_independent (c : cond LS) (p : measure LS) k :
  pdf_ok p -> cond_ok c -> cDx c = uD p -> (k < cR c * uR p)%N -> (cR c == 1%N) || (uR p == 1%N) ->
  spd (cSg c (jrc p k)) -> spd (mxf (cDx c) (cDx c) (getS p (jrx p k))) ->
  mutual_information false c p k = 0 -> cMm c (jrc p k) = 0.
Proof. exact: mi_eq0. Qed.
End C13ineq.
(* the ordered log structure is inhabited by the real logarithm: oln = ln / 2 on Coq's real numbers *)
Theorem C13_real_logarithm_is_an_instance :
  exists O : ologS R_realFieldType, (forall x : R, oln O x = Rdiv (ln x) (IZR 2)) /\
    ol2p O = Rdiv (ln (Rmult (IZR 2) PI)) (IZR 2).
Proof. by exists OR; split; [exact: OR_olnE | exact: OR_ol2pE]. Qed.
(* the positive-definiteness hypothesis is satisfiable in every real field *)
Theorem C13_spd_inhabited (F : realFieldType) : spd (ex21 F).
Proof. exact: spd_example. Qed.
Print Assumptions C13_kl_nonnegative.
Print Assumptions C13_kl_zero_only_if_equal.
Print Assumptions C13_mutual_information_nonnegative.
Print Assumptions C13_mutual_information_zero_only_if_independent.
Print Assumptions C13_real_logarithm_is_an_instance.
Print Assumptions C13_spd_inhabited.
Print Assumptions C13_entropy.
Print Assumptions C13_kl.
Print Assumptions C13_kl_zero_on_equal.
Print Assumptions C13_conditional_entropy.
Print Assumptions C13_mutual_information.
Print Assumptions C13_mutual_information_determinants.
Print Assumptions C13_mutual_information_zero_if_independent.
Print Assumptions C13_mutual_information_swap.
Print Assumptions C13_entropy_chain_swap.
