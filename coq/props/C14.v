(* C14 -- expected log-factor and expected log-conditional integrals are exact.
   Linear classes: full statements.  Feature models (RBF / squared-exponential features, model/FeatLog.v): given the kernel
   moments E[k_j], E[k_j x] = E[k_j] * mean(p k_j), E[k_i k_j] (Gaussian integrals of products: C01 + C02 + C03), the values
   computed are the expectation of the residual quadratic form for ANY feature vector with those first and second moments
   (EquadPhi, justified as linearity of expectation by C14_EquadPhi_is_an_expectation), they reduce to the linear conditional
   without kernels and with constant kernels.
   Equad = Gaussian second moments E[(Az+a)' L (Az+a)] = tr(A'LAS) + (Am+a)' L (Am+a) (specification GI);
   every value is per unit of total mass, in the log domain. *)
From mathcomp Require Import all_ssreflect all_algebra.
From GT Require Import Tensor DetExec LogDom Obj Factor Measure Pdf Cond Moments ExpLog Approx FeatLog EvalLemmas Spec C01_proofs PdfLemmas C04_proofs C12_proofs C14_proofs C14_feat.
Import GRing.Theory Num.Theory.
Local Open Scope ring_scope.

Section C14.
Variables (F : realFieldType) (LS : logS F).

(* integrate('log u(x)', factor=f) / integral() = E[ln f] with the TRUE mean and covariance, all factor kinds *)
Theorem C14_expected_log_factor (u : measure LS) (f : factor LS) r :
  cache_ok u -> diag_ok u -> posdet u -> uD u = fD f -> (r < uR u)%N -> (bidx (fR f) r < fR f)%N ->
  let D := uD u in let rf := bidx (fR f) r in
  let S := invmx (Lm u r) in let m := S *m nuv u r in
  int_log_factor u f r
  = emb LS (- half F * (\tr (mxf D D (fLam f rf) *m S) + sc (m^T *m mxf D D (fLam f rf) *m m))
            + sc ((cvf D (fnu f rf))^T *m m))
    + flb f rf.
Proof. exact: int_log_factor_spec. Qed.

(* integrate_log_conditional(q) = E_q[ln N(y; M x + b, Sigma)] for ANY Gaussian q over (y, x) *)
Theorem C14_expected_log_conditional (c : cond LS) (q : measure LS) k :
  cond_ok c -> pdf_ok q -> uD q = (cDy c + cDx c)%N ->
  (bidx (cR c) k < cR c)%N -> (bidx (uR q) k < uR q)%N ->
  let r := bidx (cR c) k in let rq := bidx (uR q) k in
  let A : 'M[F]_(cDy c, cDy c + cDx c) := row_mx 1%:M (- cMm c r) in
  int_log_cond c q k
  = emb LS (- half F * Equad (cvf (cDy c + cDx c) (getmu q rq)) (mxf (cDy c + cDx c) (cDy c + cDx c) (getS q rq))
                            A (- cbv c r) (invmx (cSg c r)))
    - hl2p LS *+ (cDy c) - hln LS (\det (cSg c r)).
Proof. exact: int_log_cond_spec. Qed.

(* integrate_log_conditional_y(p_x, y): y -> E_{p(x)}[ln p(y|x)] *)
Theorem C14_expected_log_conditional_y (c : cond LS) (p : measure LS) (ys : seq (vec F)) k :
  cond_ok c -> pdf_ok p -> cDx c = uD p -> cR c = 1%N ->
  (bidx (uR p) k < uR p)%N -> (bidx (size ys) k < size ys)%N ->
  let rp := bidx (uR p) k in let y := cvf (cDy c) (nth vzero ys (bidx (size ys) k)) in
  int_log_cond_y c p ys k
  = emb LS (- half F * Equad (cvf (cDx c) (getmu p rp)) (mxf (cDx c) (cDx c) (getS p rp))
                            (- cMm c 0%N) (y - cbv c 0%N) (invmx (cSg c 0%N)))
    - hl2p LS *+ (cDy c) - hln LS (\det (cSg c 0%N)).
Proof. exact: int_log_cond_y_spec. Qed.

(* the quadratic-inner moment the three are built on, in matrix form *)
Theorem C14_quadratic_inner_matrix_form D K (mu : vec F) (S A : mat F) (a : vec F) (B : mat F) (b : vec F) :
  E_quadratic_inner D mu S K A a B b
  = \tr ((mxf K D A)^T *m mxf K D B *m mxf D D S)
    + sc ((mxf K D A *m cvf D mu + cvf K a)^T *m (mxf K D B *m cvf D mu + cvf K b)).
Proof. exact: E_quadratic_inner_mx. Qed.

(* ---- feature models ---- *)
(* EquadPhi y M b L Ef Eff = y'Ly - 2 y'L(M Ef + b) + tr(M'LM Eff) + 2 (M Ef)'Lb + b'Lb is E[(y - M phi - b)' L (y - M phi - b)] for every
   random vector phi with E[phi] = Ef, E[phi phi'] = Eff: shown here for every finitely supported distribution *)
Theorem C14_EquadPhi_is_an_expectation (dy dp : nat) (I : finType) (w : I -> F) (phi : I -> 'cV[F]_dp)
    (y : 'cV[F]_dy) (M : 'M[F]_(dy, dp)) (b : 'cV[F]_dy) (L : 'M[F]_dy) :
  L^T = L -> \sum_s w s = 1 ->
  EquadPhi y M b L (\sum_s w s *: phi s) (\sum_s w s *: (phi s *m (phi s)^T))
  = \sum_s w s * sc ((y - M *m phi s - b)^T *m L *m (y - M *m phi s - b)).
Proof. exact: EquadPhi_finite_support. Qed.
(* integrate_log_conditional_y(p_x, y) of a feature model, one component of p(x) = N(mx, Sx) *)
Theorem C14_feature_log_conditional_y Dx Dk Dy (M : mat F) (b : vec F) (Lam : mat F) (hS : LS)
    (mx : vec F) (Sx : mat F) (Ek : vec F) (mk : nat -> vec F) (Ekk : mat F) (y : vec F) :
  (forall i j, (i < Dy)%N -> (j < Dy)%N -> Lam i j = Lam j i) ->
  let m := cvf Dx mx in
  let Ekx : 'M[F]_(Dk, Dx) := \matrix_(j, i) (Ek j * mk j i) in
  let EfV : 'cV[F]_(Dx + Dk) := col_mx m (cvf Dk Ek) in
  let EffM : 'M[F]_(Dx + Dk) := block_mx (mxf Dx Dx Sx + m *m m^T) Ekx^T Ekx (mxf Dk Dk Ekk) in
  feat_log_cond_y Dx Dk Dy M b Lam hS mx Sx Ek mk Ekk y
  = emb LS (- half F * EquadPhi (cvf Dy y) (mxf Dy (Dx + Dk) M) (cvf Dy b) (mxf Dy Dy Lam) EfV EffM)
    - hS - hl2p LS *+ Dy.
Proof. exact: feat_log_cond_y_spec. Qed.
(* integrate_log_conditional(q), q over z = (y, x): residual A z - Mk k(x) - b with A = [I, -Mlin] *)
Theorem C14_feature_log_conditional Dx Dk Dy (M : mat F) (b : vec F) (Lam : mat F) (hS : LS)
    (mq : vec F) (Sq : mat F) (Ek : vec F) (mk : nat -> vec F) (Ekk : mat F) :
  (forall i j, (i < Dy)%N -> (j < Dy)%N -> Lam i j = Lam j i) ->
  let Dz := (Dy + Dx)%N in
  let A : 'M[F]_(Dy, Dy + Dx) := row_mx 1%:M (- mxf Dy Dx (Mlin M)) in
  let m := cvf Dz mq in
  let Ekz : 'M[F]_(Dk, Dz) := \matrix_(j, i) (Ek j * mk j i) in
  feat_log_cond Dx Dk Dy M b Lam hS mq Sq Ek mk Ekk
  = emb LS (- half F * EquadPhi 0 (row_mx (- A) (mxf Dy Dk (Mk Dx M))) (cvf Dy b) (mxf Dy Dy Lam)
                                (col_mx m (cvf Dk Ek)) (block_mx (mxf Dz Dz Sq + m *m m^T) Ekz^T Ekz (mxf Dk Dk Ekk)))
    - hS - hl2p LS *+ Dy.
Proof. exact: feat_log_cond_spec_phi. Qed.
(* without kernels the feature model IS the linear conditional (model level), and constant kernels only shift the offset *)
Theorem C14_feature_no_kernels (c : cond LS) (p : measure LS) (ys : seq (vec F)) k (Ek : vec F) (mk : nat -> vec F) (Ekk : mat F) :
  let p1 := prepare p in let rp := bidx (uR p) k in
  feat_log_cond_y (cDx c) 0 (cDy c) (effM c 0%N) (effb c 0%N) (cLam c 0%N) (chS c 0%N)
                  (getmu p1 rp) (getS p1 rp) Ek mk Ekk (nth vzero ys (bidx (size ys) k))
  = int_log_cond_y c p ys k.
Proof. exact: feat_no_kernels_model. Qed.
Theorem C14_feature_constant_kernels Dx Dk Dy (M : mat F) (b : vec F) (Lam : mat F) (hS : LS)
    (mx : vec F) (Sx : mat F) (Ek : vec F) (mk : nat -> vec F) (Ekk : mat F) (y : vec F) (Ek0 : vec F) (mk0 : nat -> vec F) (Ekk0 : mat F) :
  (forall i j, (i < Dy)%N -> (j < Dy)%N -> Lam i j = Lam j i) ->
  (forall j, (j < Dk)%N -> Ek j = 1) ->
  (forall j i, (j < Dk)%N -> (i < Dx)%N -> mk j i = mx i) ->
  (forall i j, (i < Dk)%N -> (j < Dk)%N -> Ekk i j = 1) ->
  feat_log_cond_y Dx Dk Dy M b Lam hS mx Sx Ek mk Ekk y
  = feat_log_cond_y Dx 0 Dy M (vadd b (mvec Dk (Mk Dx M) (fun _ => 1))) Lam hS mx Sx Ek0 mk0 Ekk0 y.
Proof. exact: feat_constant_kernels_model. Qed.
End C14.
Print Assumptions C14_EquadPhi_is_an_expectation.
Print Assumptions C14_feature_log_conditional_y.
Print Assumptions C14_feature_log_conditional.
Print Assumptions C14_feature_no_kernels.
Print Assumptions C14_feature_constant_kernels.
Print Assumptions C14_expected_log_factor.
Print Assumptions C14_expected_log_conditional.
Print Assumptions C14_expected_log_conditional_y.
Print Assumptions C14_quadratic_inner_matrix_form.
