(* C14 -- expected log-factor and expected log-conditional integrals are exact (linear classes).
   Equad = Gaussian second moments E[(Az+a)' L (Az+a)] = tr(A'LAS) + (Am+a)' L (Am+a) (specification GI);
   every value is per unit of total mass, in the log domain. *)
From mathcomp Require Import all_ssreflect all_algebra.
From GT Require Import Tensor DetExec LogDom Obj Factor Measure Pdf Cond Moments ExpLog EvalLemmas Spec C01_proofs PdfLemmas C04_proofs C12_proofs C14_proofs.
Import GRing.Theory Num.Theory.
Local Open Scope ring_scope.

Section C14.
Variables (F : realFieldType) (LS : logS F).

(* integrate('log u(x)', factor=f) / integral() = E[ln f] with the TRUE mean and covariance, all factor kinds *)
Theorem C14_expected_log_factor (u : measure LS) (f : factor LS) r :
  cache_ok u -> diag_ok u -> posdet u -> uD u = fD f -> (r < uR u)%N -> (bidx (fR f) r < fR f)%N ->
  let D := uD u in let rf := bidx (fR f) r in
  let S := invmx (Lm u r) in let m := S *m nuv u r in
  int_log_factor u f r
  = emb LS (- half F * (\tr (mxf D D (fLam f rf) *m S) + sc (m^T *m mxf D D (fLam f rf) *m m))
            + sc ((cvf D (fnu f rf))^T *m m))
    + flb f rf.
Proof. exact: int_log_factor_spec. Qed.

(* integrate_log_conditional(q) = E_q[ln N(y; M x + b, Sigma)] for ANY Gaussian q over (y, x) *)
Theorem C14_expected_log_conditional (c : cond LS) (q : measure LS) k :
  cond_ok c -> pdf_ok q -> uD q = (cDy c + cDx c)%N ->
  (bidx (cR c) k < cR c)%N -> (bidx (uR q) k < uR q)%N ->
  let r := bidx (cR c) k in let rq := bidx (uR q) k in
  let A : 'M[F]_(cDy c, cDy c + cDx c) := row_mx 1%:M (- cMm c r) in
  int_log_cond c q k
  = emb LS (- half F * Equad (cvf (cDy c + cDx c) (getmu q rq)) (mxf (cDy c + cDx c) (cDy c + cDx c) (getS q rq))
                            A (- cbv c r) (invmx (cSg c r)))
    - hl2p LS *+ (cDy c) - hln LS (\det (cSg c r)).
Proof. exact: int_log_cond_spec. Qed.

(* integrate_log_conditional_y(p_x, y): y -> E_{p(x)}[ln p(y|x)] *)
Theorem C14_expected_log_conditional_y (c : cond LS) (p : measure LS) (ys : seq (vec F)) k :
  cond_ok c -> pdf_ok p -> cDx c = uD p -> cR c = 1%N ->
  (bidx (uR p) k < uR p)%N -> (bidx (size ys) k < size ys)%N ->
  let rp := bidx (uR p) k in let y := cvf (cDy c) (nth vzero ys (bidx (size ys) k)) in
  int_log_cond_y c p ys k
  = emb LS (- half F * Equad (cvf (cDx c) (getmu p rp)) (mxf (cDx c) (cDx c) (getS p rp))
                            (- cMm c 0%N) (y - cbv c 0%N) (invmx (cSg c 0%N)))
    - hl2p LS *+ (cDy c) - hln LS (\det (cSg c 0%N)).
Proof. exact: int_log_cond_y_spec. Qed.

(* the quadratic-inner moment the three are built on, in matrix form *)
Theorem C14_quadratic_inner_matrix_form D K (mu : vec F) (S A : mat F) (a : vec F) (B : mat F) (b : vec F) :
  E_quadratic_inner D mu S K A a B b
  = \tr ((mxf K D A)^T *m mxf K D B *m mxf D D S)
    + sc ((mxf K D A *m cvf D mu + cvf K a)^T *m (mxf K D B *m cvf D mu + cvf K b)).
Proof. exact: E_quadratic_inner_mx. Qed.
End C14.
Print Assumptions C14_expected_log_factor.
Print Assumptions C14_expected_log_conditional.
Print Assumptions C14_expected_log_conditional_y.
Print Assumptions C14_quadratic_inner_matrix_form.
