(* C15 -- specialised representations agree with the general one: their shortcuts change cost only.
   magree u v = same shape, same natural parameters entrywise, and EQUAL caches wherever both have them. *)
From mathcomp Require Import all_ssreflect all_algebra.
From GT Require Import Tensor DetExec LogDom Obj Factor Measure Pdf Cond EvalLemmas Spec C01_proofs PdfLemmas C04_proofs C15_proofs C15_nn.
Import GRing.Theory Num.Theory.
Local Open Scope ring_scope.

Section C15.
Variables (F : realFieldType) (LS : logS F).

(* rank-one / linear / constant factors: Sherman-Morrison and covariance reuse give exactly what the
   general factor with the same Lambda, nu, ln_beta gives through full inversion, on every code path *)
Theorem C15_factor_same_function (f : factor LS) r (x : vec F) : feval (as_general f) r x = feval f r x.
Proof. exact: special_general_eval. Qed.
Theorem C15_multiply_special_is_general upd (u : measure LS) (f : factor LS) :
  cache_ok u -> fwf f -> fwf1 f -> fsym f -> uD u = fD f -> posdet (multiply upd u f) ->
  magree (multiply upd u f) (multiply upd u (as_general f)).
Proof. exact: multiply_special_general. Qed.
Theorem C15_hadamard_special_is_general upd (u : measure LS) (f : factor LS) :
  uR u = fR f \/ (uR u = 1%N /\ (0 < fR f)%N) \/ (fR f = 1%N /\ (0 < uR u)%N) ->
  cache_ok u -> fwf f -> fwf1 f -> fsym f -> uD u = fD f -> posdet (hadamard upd u f) ->
  magree (hadamard upd u f) (hadamard upd u (as_general f)).
Proof. exact: hadamard_special_general. Qed.

(* diagonal classes: invert_diagonal is the inverse (and log-determinant) on diagonal matrices *)
Theorem C15_diagonal_inverse D (A : mat F) :
  (forall i j, (i < D)%N -> (j < D)%N -> i != j -> A i j = 0) -> 0 < \det (mxf D D A) ->
  mxf D D (inv_ld LS true D A).1 = mxf D D (inv_ld LS false D A).1
  /\ (inv_ld LS true D A).2 = (inv_ld LS false D A).2.
Proof. exact: inv_ld_diag. Qed.
Theorem C15_diag_density_is_density R D (Sig : nat -> mat F) (mu : nat -> vec F) Lam hS r (x : vec F) :
  pdf_args_ok (LS:=LS) true R D Sig Lam hS -> pdf_args_ok (LS:=LS) false R D Sig Lam hS -> (r < R)%N ->
  ueval (mk_pdf (LS:=LS) true R D Sig mu Lam hS) r x = ueval (mk_pdf (LS:=LS) false R D Sig mu Lam hS) r x.
Proof. exact: diag_pdf_is_pdf. Qed.
Theorem C15_diag_measure_integral (u : measure LS) r :
  cache_ok u -> diag_ok u -> posdet u -> (r < uR u)%N -> is_diag (ucls u) ->
  let v := Measure (uR u) (uD u) (uLam u) (unu u) (ulb u) (uSig u) (uhldS u) (uhldL u) (umu u) (ulnZ u) CMeas in
  (log_integral u).2 r = (log_integral v).2 r.
Proof. exact: diag_measure_log_integral. Qed.
Theorem C15_diag_conditional_is_full R Dy Dx (M : nat -> mat F) (b : nat -> vec F) (Sig : nat -> mat F) r :
  (forall r i j, (r < R)%N -> (i < Dy)%N -> (j < Dy)%N -> i != j -> Sig r i j = 0) ->
  (forall r, (r < R)%N -> 0 < \det (mxf Dy Dy (Sig r))) -> (r < R)%N ->
  let a := mk_cond (LS:=LS) CDiag R Dy Dx M b (Some Sig) None None in
  let f := mk_cond (LS:=LS) CFull R Dy Dx M b (Some Sig) None None in
  mxf Dy Dy (cLam a r) = mxf Dy Dy (cLam f r) /\ chS a r = chS f r /\ mxf Dy Dy (cSig a r) = mxf Dy Dy (cSig f r).
Proof. exact: diag_cond_is_full. Qed.

(* identity-mean conditionals (full and diagonal): every operation equals that of the general conditional
   with M = I, b = 0 *)
Theorem C15_identity_condition_on_x (c : cond LS) (xs : seq (vec F)) k (y : vec F) :
  cident (ccl c) -> cond_ok c -> (k < cR c * size xs)%N ->
  ueval (condition_on_x c xs) k y = ueval (condition_on_x (as_full c) xs) k y.
Proof. exact: ident_condition_on_x. Qed.
Theorem C15_identity_set_y dxn (c : cond LS) (ys : seq (vec F)) n (x : vec F) :
  cident (ccl c) -> cond_ok c -> (cR c == 1%N) || (size ys == cR c) -> (n < size ys)%N ->
  feval (set_y dxn c ys) n x = feval (set_y dxn (as_full c) ys) n x.
Proof. exact: ident_set_y. Qed.
Theorem C15_identity_joint (c : cond LS) (p : measure LS) k (z : vec F) :
  cident (ccl c) -> cond_ok c -> pdf_ok p -> cDx c = uD p -> (k < cR c * uR p)%N ->
  ueval (affine_joint c p) k z = ueval (affine_joint (as_full c) p) k z.
Proof. exact: ident_affine_joint. Qed.
Theorem C15_identity_marginal (c : cond LS) (p : measure LS) k (y : vec F) :
  cident (ccl c) -> cond_ok c -> pdf_ok p -> cDx c = uD p -> (k < cR c * uR p)%N ->
  ueval (affine_marginal c p) k y = ueval (affine_marginal (as_full c) p) k y.
Proof. exact: ident_affine_marginal. Qed.
Theorem C15_identity_conditional (c : cond LS) (p : measure LS) k :
  cident (ccl c) -> cond_ok c -> pdf_ok p -> cDx c = uD p -> (k < cR c * uR p)%N ->
  let a := affine_conditional c p in let b := affine_conditional (as_full c) p in
  [/\ forall i j, (i < cDx c)%N -> (j < cDy c)%N -> cM a k i j = cM b k i j,
      forall i, (i < cDx c)%N -> cb a k i = cb b k i,
      forall i j, (i < cDx c)%N -> (j < cDx c)%N -> cSig a k i j = cSig b k i j /\ cLam a k i j = cLam b k i j
    & chS a k = chS b k].
Proof. exact: ident_affine_conditional. Qed.
(* the NN-controlled conditional: set_control_variable(u) is a general (class CFull) conditional with M(u), b(u)
   from the control function and the one covariance tiled; it satisfies the conditional invariant, so every theorem
   about general conditionals applies to it verbatim *)
Theorem C15_nn_control_is_general (base : cond LS) Ru (M : nat -> mat F) (b : nat -> vec F) r : (r < Ru)%N ->
  let c := nn_set_control base Ru M b in
  [/\ ccl c = CFull, cR c = Ru, cDy c = cDy base /\ cDx c = cDx base,
      cMm c r = mxf (cDy base) (cDx base) (M r) /\ cbv c r = cvf (cDy base) (b r)
    & [/\ cSg c r = cSg base 0%N, cLm c r = cLm base 0%N & chS c r = chS base 0%N]].
Proof. exact: nn_control_fields. Qed.
Theorem C15_nn_control_wellformed (base : cond LS) Ru (M : nat -> mat F) (b : nat -> vec F) :
  cond_ok base -> (0 < cR base)%N -> cond_ok (nn_set_control base Ru M b).
Proof. exact: nn_control_ok. Qed.
End C15.
Print Assumptions C15_multiply_special_is_general.
Print Assumptions C15_hadamard_special_is_general.
Print Assumptions C15_diagonal_inverse.
Print Assumptions C15_diag_density_is_density.
Print Assumptions C15_diag_measure_integral.
Print Assumptions C15_diag_conditional_is_full.
Print Assumptions C15_identity_condition_on_x.
Print Assumptions C15_identity_set_y.
Print Assumptions C15_identity_joint.
Print Assumptions C15_identity_marginal.
Print Assumptions C15_identity_conditional.
Print Assumptions C15_nn_control_is_general.
Print Assumptions C15_nn_control_wellformed.
Print Assumptions C15_factor_same_function.
