(* C16 -- moment matching of approximate conditionals is exact.  PARTIAL.
   Proved: the kernels are Gaussian bumps of unit height; the moment assembly of the feature models and of the
   heteroscedastic models turns the expectations E[phi], E[phi phi'], E[link(h)] into exactly mean / covariance /
   cross-covariance of y under p(y|x)p(x) (linearity of expectation written out); the expected exp noise is the
   Gaussian integral of p(x) times a linear factor.  The kernel expectations themselves are Gaussian integrals of
   products (C01 + C02).  NOT proved: the step / rectified-linear expected noise (they go through the truncated
   integrals of C20 on a linear image of p(x): validated by quadrature only) and the cosh-1 assembly (sum of two
   exp terms, outside the log domain). *)
From Coq Require Import QArith Qcanon ZArith.
From mathcomp Require Import all_ssreflect all_algebra.
From GT Require Import QcField QcOrder Tensor DetExec LogDom Obj Factor Measure Pdf Cond Moments Approx EvalLemmas Spec C01_proofs PdfLemmas C04_proofs C0809_proofs C12_proofs C07_proofs C1617_proofs Extra_proofs HetBound HetRelu C1617_extra.
Local Close Scope Q_scope. Local Close Scope Qc_scope. Local Close Scope Z_scope.
Import GRing.Theory Num.Theory.
Local Open Scope ring_scope.

Section C16.
Variables (F : realFieldType) (LS : logS F).

(* unit height: value one at the RBF centre / on the hyperplane where the squared-exponential argument vanishes *)
Theorem C16_rbf_kernel Dk Dx (c l : nat -> vec F) j (x : vec F) : (j < Dk)%N ->
  (forall i, (i < Dx)%N -> l j i != 0) ->
  ueval (lrbf_kfunc LS Dk Dx c l) j x
  = emb LS (- half F * sumn Dx (fun i => ((x i - c j i) / l j i) * ((x i - c j i) / l j i)))
  /\ ueval (lrbf_kfunc LS Dk Dx c l) j (c j) = 0.
Proof. by move=> Hj Hl; split; [exact: lrbf_kernel_value | exact: lrbf_unit_height]. Qed.
Theorem C16_sem_kernel Dk Dx (w : nat -> vec F) (w0 : vec F) j (x : vec F) : (j < Dk)%N ->
  feval (lsem_kfunc LS Dk Dx w w0) j x = emb LS (- half F * ((dot Dx (w j) x - w0 j) * (dot Dx (w j) x - w0 j)))
  /\ (dot Dx (w j) x = w0 j -> feval (lsem_kfunc LS Dk Dx w w0) j x = 0).
Proof. by move=> Hj; split; [exact: lsem_kernel_value | exact: lsem_unit_height]. Qed.

(* feature models: mean M E[phi] + b, covariance sym(Sigma) + M Cov(phi) M', cross-covariance M Cov(phi, x) *)
Theorem C16_feature_mean Dx Dk (M : mat F) (b Ex Ek : vec F) i :
  fm_mu Dx Dk M b Ex Ek i = sumn (Dx + Dk) (fun a => M i a * Ef Dx Ex Ek a) + b i.
Proof. exact: fm_mu_spec. Qed.
Theorem C16_feature_covariance Dx Dk Dy (M : mat F) (b : vec F) (Sig : mat F) (Ex : vec F) (Exx : mat F) (Ek : vec F) (Ekx Ekk : mat F) i j :
  (i < Dy)%N -> (j < Dy)%N ->
  let phi := (Dx + Dk)%N in
  let Cov := fun a c => Eff Dx Exx Ekx Ekk a c - Ef Dx Ex Ek a * Ef Dx Ex Ek c in
  let Q := fun i j => sumn phi (fun a => sumn phi (fun c => M i a * Cov a c * M j c)) in
  fm_Sigma Dx Dk Dy M b Sig Ex Exx Ek Ekx Ekk i j = half F * ((Sig i j + Q i j) + (Sig j i + Q j i)).
Proof. exact: fm_Sigma_spec. Qed.
Theorem C16_feature_cross_covariance Dx Dk (M : mat F) (b : vec F) (Ex : vec F) (Exx : mat F) (Ek : vec F) (Ekx : mat F) i j :
  let phi := (Dx + Dk)%N in
  let Efx := fun a c => if (a < Dx)%N then Exx a c else Ekx (a - Dx)%N c in
  fm_cov_yx Dx Dk M b Ex Exx Ek Ekx Ex i j = sumn phi (fun a => M i a * (Efx a j - Ef Dx Ex Ek a * Ex j)).
Proof. exact: fm_cov_yx_spec. Qed.

(* heteroscedastic models: E[exp(w'x + w0)], covariance sym(AA' + A_k diag(E link) A_k') + M Sigma_x M', cross M Sigma_x *)
Theorem C16_expected_exp_noise (p : measure LS) Dk (w : nat -> vec F) (w0 : vec F) k :
  pdf_ok p -> uR p = 1%N -> (k < Dk)%N ->
  (log_integral (multiply true p (mk_linear Dk (uD p) w (fun j => emb LS (w0 j))))).2 k
  = emb LS (w0 k + dot (uD p) (w k) (getmu p 0%N) + half F * quad (uD p) (getS p 0%N) (w k)).
Proof. exact: expected_exp_noise. Qed.
Theorem C16_hetero_covariance Dy Da Dk Dx (A M : mat F) (b mux : vec F) (Sx : mat F) (Dint : vec F) i j :
  (i < Dy)%N -> (j < Dy)%N -> (forall a c, (a < Dx)%N -> (c < Dx)%N -> Sx a c = Sx c a) ->
  let N := fun i j => het_Sigma Dy Da Dk A Dint i j in
  let Q := fun i j => sumn Dx (fun a => sumn Dx (fun c => M i a * Sx a c * M j c)) in
  het_Sigma_y Dy Da Dk Dx A M b mux Sx Dint i j = half F * (N i j + N j i) + Q i j.
Proof. exact: het_Sigma_y_spec. Qed.
Theorem C16_hetero_cross_covariance Dx (M : mat F) (b mux : vec F) (Sx : mat F) i j : (j < Dx)%N ->
  het_cov_yx Dx M b mux Sx i j = sumn Dx (fun a => M i a * Sx a j).
Proof. exact: het_cov_yx_spec. Qed.

(* the conditional transformation of the feature models is the Gaussian conditional of the matched joint:
   gain G with G Cov(y) = Cov(x,y), offset mu_x - G mu_y, covariance sym(Sigma_x - G Cov(y,x)) *)
Theorem C16_feature_conditional Dx Dk Dy (M : mat F) (b : vec F) (Sig : mat F) (Ex : vec F) (Exx : mat F) (Ek : vec F) (Ekx Ekk : mat F) (mux : vec F) (Sx : mat F) :
  \det (mxf Dy Dy (fm_Sigma Dx Dk Dy M b Sig Ex Exx Ek Ekx Ekk)) != 0 ->
  let Sy := mxf Dy Dy (fm_Sigma Dx Dk Dy M b Sig Ex Exx Ek Ekx Ekk) in
  let Cyx := mxf Dy Dx (fm_cov_yx Dx Dk M b Ex Exx Ek Ekx mux) in
  let G := mxf Dx Dy (fm_cond_M Dx Dk Dy M b Sig Ex Exx Ek Ekx Ekk mux) in
  [/\ G *m Sy = Cyx^T,
      cvf Dx (fm_cond_b Dx Dk Dy M b Sig Ex Exx Ek Ekx Ekk mux) = cvf Dx mux - G *m cvf Dy (fm_mu Dx Dk M b Ex Ek)
    & mxf Dx Dx (fm_cond_Sigma Dx Dk Dy M b Sig Ex Exx Ek Ekx Ekk mux Sx)
      = half F *: ((mxf Dx Dx Sx - G *m Cyx) + (mxf Dx Dx Sx - G *m Cyx)^T)].
Proof. exact: fm_conditional_spec. Qed.

(* cosh-1 link: the two exponential terms of the expected noise, each the Gaussian integral of p(x) times a linear factor *)
Theorem C16_expected_cosh_noise (p : measure LS) Dk (w : nat -> vec F) (w0 : vec F) k :
  pdf_ok p -> uR p = 1%N -> (k < Dk)%N ->
  (log_integral (multiply true p (mk_linear Dk (uD p) w (fun j => emb LS (w0 j) - ln2 LS)))).2 k
    = emb LS (w0 k + dot (uD p) (w k) (getmu p 0%N) + half F * quad (uD p) (getS p 0%N) (w k)) - ln2 LS
  /\
  (log_integral (multiply true p (mk_linear Dk (uD p) (fun j => vopp (w j)) (fun j => emb LS (- w0 j) - ln2 LS)))).2 k
    = emb LS (- w0 k - dot (uD p) (w k) (getmu p 0%N) + half F * quad (uD p) (getS p 0%N) (w k)) - ln2 LS.
Proof. exact: expected_cosh_noise. Qed.
(* step / rectified-linear links: the pre-activation h = w'x + w0 is N(w'mu + w0, w'Sigma w) -- the one-dimensional density whose
   truncated integrals (trunc/C16R.v) are the expected noise *)
Theorem C16_preactivation_law (p : measure LS) (w : vec F) (w0 : F) :
  pdf_ok p -> uR p = 1%N -> 0 < quad (uD p) (getS p 0%N) w ->
  let q := density_of_linear_sum 1 (fun _ => row1 w) (Some (fun _ => vec1 w0)) p in
  [/\ pdf_ok q, uR q = 1%N, uD q = 1%N,
      getmu q 0%N 0%N = dot (uD p) w (getmu p 0%N) + w0
    & getS q 0%N 0%N 0%N = quad (uD p) (getS p 0%N) w].
Proof. exact: preactivation_law. Qed.
End C16.
Print Assumptions C16_expected_cosh_noise.
Print Assumptions C16_preactivation_law.
Print Assumptions C16_feature_conditional.
Print Assumptions C16_rbf_kernel.
Print Assumptions C16_sem_kernel.
Print Assumptions C16_feature_mean.
Print Assumptions C16_feature_covariance.
Print Assumptions C16_feature_cross_covariance.
Print Assumptions C16_expected_exp_noise.
Print Assumptions C16_hetero_covariance.
Print Assumptions C16_hetero_cross_covariance.
