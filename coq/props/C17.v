(* C17 -- heteroscedastic conditionals: coherent p(y|x) and valid lower bounds.  PARTIAL + REFUTED.
   Proved: conditioning on x gives mean Mx+b and covariance AA' + A_k diag(link) A_k'; the code's precision and
   log-determinant (rank-Dk Woodbury shortcut) are the inverse and log-determinant of that covariance when A is
   square (Da = Dy); for Da > Dy they are NOT (refutation witness; known finding); the repaired variant (direct
   inversion) is right for every shape.  NOT decided by proof: that integrate_log_conditional_y is a lower bound of
   E[ln p(y|x)] (equal for the step link) and that the gap vanishes quadratically -- variational inequalities and
   expectations of non-polynomial integrands, outside the exact model; checked against quadrature only. *)
From Coq Require Import QArith Qcanon ZArith.
From mathcomp Require Import all_ssreflect all_algebra.
From GT Require Import QcField QcOrder Tensor DetExec LogDom Obj Factor Measure Pdf Cond Moments Approx EvalLemmas Spec C01_proofs PdfLemmas C04_proofs C1617_proofs.
Local Close Scope Q_scope. Local Close Scope Qc_scope. Local Close Scope Z_scope.
Import GRing.Theory Num.Theory.
Local Open Scope ring_scope.

Section C17.
Variables (F : realFieldType) (LS : logS F).

Theorem C17_conditional_mean_covariance Dy Da Dk Dx (A M : mat F) (b : vec F) fl (xs Dvs : seq (vec F)) n : (n < size xs)%N ->
  let o := het_condition_on_x LS Dy Da Dk Dx A M b fl xs Dvs in
  [/\ uR o = size xs, uD o = Dy,
      forall i, (i < Dy)%N -> getmu o n i = mvec Dx M (nth vzero xs n) i + b i
    & forall i j, (i < Dy)%N -> (j < Dy)%N ->
        getS o n i j = mmul Da A (mtr A) i j + sumn Dk (fun k => A i k * nth vzero Dvs n k * A j k)].
Proof. exact: het_condition_on_x_params. Qed.

Theorem C17_precision_partial Dy Dk (A : mat F) (Dv : vec F) :
  (Dk <= Dy)%N -> \det (mxf Dy Dy A) != 0 -> (forall k, (k < Dk)%N -> 0 < 1 + Dv k) ->
  mxf Dy Dy (het_Sigma Dy Dy Dk A Dv) *m mxf Dy Dy (het_Lambda Dy Dy Dk A Dv) = 1%:M
  /\ het_hS LS Dy Dy Dk A Dv = hln LS (\det (mxf Dy Dy (het_Sigma Dy Dy Dk A Dv))).
Proof. exact: het_precision_partial. Qed.

Theorem C17_precision_repaired Dy Da Dk (A : mat F) (Dv : vec F) :
  \det (mxf Dy Dy (het_Sigma Dy Da Dk A Dv)) != 0 ->
  mxf Dy Dy (het_Sigma Dy Da Dk A Dv) *m mxf Dy Dy (het_Lambda_true Dy Da Dk A Dv) = 1%:M
  /\ het_hS_true LS Dy Da Dk A Dv = hln LS (\det (mxf Dy Dy (het_Sigma Dy Da Dk A Dv))).
Proof. exact: het_precision_repaired. Qed.
End C17.

(* Da > Dy: Dy = 1, Da = 2, Dk = 1, A = [1 1], link value 1: Sigma = 3, the code's Lambda = 3/8 *)
Theorem C17_precision_refuted :
  het_Sigma 1 2 1 cexA cexD 0%N 0%N * het_Lambda 1 2 1 cexA cexD 0%N 0%N != 1.
Proof. exact: het_precision_refuted. Qed.

Print Assumptions C17_conditional_mean_covariance.
Print Assumptions C17_precision_partial.
Print Assumptions C17_precision_repaired.
Print Assumptions C17_precision_refuted.
