(* C17 -- heteroscedastic conditionals: coherent p(y|x) and valid lower bounds.  PARTIAL + REFUTED.
   Proved: conditioning on x gives mean Mx+b and covariance AA' + A_k diag(link) A_k'; the code's precision and
   log-determinant (rank-Dk Woodbury shortcut) are the inverse and log-determinant of that covariance when A is
   square (Da = Dy); for Da > Dy they are NOT (refutation witness; known finding); the repaired variant (direct
   inversion) is right for every shape.  The lower bounds (exp and cosh-1 links; model/HetBound.v, proofs/C17_bound.v): the factors the code builds
   evaluate, at every x and for every value of the variational parameters, to the exponents
     h/2 - (ln cosh(w/2) + ln 2) - 1/2 g1 (h^2 - w^2)   resp.   - ln cosh w - 1/2 g1 (h^2 - w^2),   h = w'x + w0,
   whose exponentials are proved over the reals (trunc/C17R.v) to lie below link/(1+link) resp. 1/cosh for ALL h and
   w > 0; k_func is the Gaussian expectation of the matching upper bound of ln(1 + link(h)) (a quadratic polynomial in
   h), tight at the code's choice w^2 = E[h^2]; the assembled value is -1/2 (E[(y-Mx-b)'Lambda(y-Mx-b)] - sum_i het_i
   + sum_i k_i) - 1/2 ln det Sigma - Dy/2 ln 2pi.  NOT decided by proof: monotonicity of the multivariate Gaussian
   integral (it lifts the pointwise inequalities to the expectations; no multivariate integration library), the
   rectified-linear / step closed forms in D > 1 (they go through C05 and the one-dimensional truncated integrals of
   C20: trunc/C16R.v), and the quadratic rate of the gap. *)
From Coq Require Import QArith Qcanon ZArith.
From mathcomp Require Import all_ssreflect all_algebra.
From GT Require Import QcField QcOrder Tensor DetExec LogDom Obj Factor Measure Pdf Cond Moments Approx EvalLemmas Spec C01_proofs PdfLemmas C04_proofs C1617_proofs HetBound HetRelu C14_proofs C17_bound C1617_extra.
Local Close Scope Q_scope. Local Close Scope Qc_scope. Local Close Scope Z_scope.
Import GRing.Theory Num.Theory.
Local Open Scope ring_scope.

Section C17.
Variables (F : realFieldType) (LS : logS F).

Theorem C17_conditional_mean_covariance Dy Da Dk Dx (A M : mat F) (b : vec F) fl (xs Dvs : seq (vec F)) n : (n < size xs)%N ->
  let o := het_condition_on_x LS Dy Da Dk Dx A M b fl xs Dvs in
  [/\ uR o = size xs, uD o = Dy,
      forall i, (i < Dy)%N -> getmu o n i = mvec Dx M (nth vzero xs n) i + b i
    & forall i j, (i < Dy)%N -> (j < Dy)%N ->
        getS o n i j = mmul Da A (mtr A) i j + sumn Dk (fun k => A i k * nth vzero Dvs n k * A j k)].
Proof. exact: het_condition_on_x_params. Qed.

Theorem C17_precision_partial Dy Dk (A : mat F) (Dv : vec F) :
  (Dk <= Dy)%N -> \det (mxf Dy Dy A) != 0 -> (forall k, (k < Dk)%N -> 0 < 1 + Dv k) ->
  mxf Dy Dy (het_Sigma Dy Dy Dk A Dv) *m mxf Dy Dy (het_Lambda Dy Dy Dk A Dv) = 1%:M
  /\ het_hS LS Dy Dy Dk A Dv = hln LS (\det (mxf Dy Dy (het_Sigma Dy Dy Dk A Dv))).
Proof. exact: het_precision_partial. Qed.

Theorem C17_precision_repaired Dy Da Dk (A : mat F) (Dv : vec F) :
  \det (mxf Dy Dy (het_Sigma Dy Da Dk A Dv)) != 0 ->
  mxf Dy Dy (het_Sigma Dy Da Dk A Dv) *m mxf Dy Dy (het_Lambda_true Dy Da Dk A Dv) = 1%:M
  /\ het_hS_true LS Dy Da Dk A Dv = hln LS (\det (mxf Dy Dy (het_Sigma Dy Da Dk A Dv))).
Proof. exact: het_precision_repaired. Qed.

(* ---- the variational lower bound, exp and cosh-1 links (h = w'x + b0) ---- *)
Theorem C17_exp_bound_factor N Dx (w : vec F) (b0 : F) (om lc th : vec F) n (x : vec F) : (n < N)%N ->
  let h := dot Dx w x + b0 in
  feval (hb_exp_factor LS N Dx w b0 om lc th) n x
  = emb LS (half F * h - lc n - half F * hb_exp_g1 om th n * (h * h - om n * om n)) - ln2 LS.
Proof. exact: hb_exp_factor_eval. Qed.
Theorem C17_coshm1_bound_factor N Dx (w : vec F) (b0 : F) (om lc th : vec F) n (x : vec F) : (n < N)%N ->
  let h := dot Dx w x + b0 in
  feval (hb_cosh_factor LS N Dx w b0 om lc th) n x
  = emb LS (- lc n - half F * hb_cosh_g1 om th n * (h * h - om n * om n)).
Proof. exact: hb_cosh_factor_eval. Qed.
(* the measures whose polynomial integrals the code takes: p(x) times the bound factor (times exp(+-h)/2), pointwise *)
Theorem C17_exp_bound_measure (p : measure LS) N Dx (w : vec F) (b0 : F) (om lc th : vec F) k (x : vec F) :
  uD p = Dx -> (k < maxn (uR p) N)%N -> (bidx N k < N)%N ->
  let h := dot Dx w x + b0 in let n := bidx N k in
  ueval (hadamard true p (hb_exp_factor LS N Dx w b0 om lc th)) k x
  = ueval p (bidx (uR p) k) x
    + (emb LS (half F * h - lc n - half F * hb_exp_g1 om th n * (h * h - om n * om n)) - ln2 LS).
Proof. exact: hb_exp_measure_eval. Qed.
Theorem C17_coshm1_bound_measures (p : measure LS) N Dx (w : vec F) (b0 : F) (om lc th : vec F) k (x : vec F) :
  uD p = Dx -> (k < maxn (uR p) N)%N -> (bidx N k < N)%N ->
  let h := dot Dx w x + b0 in let n := bidx N k in
  let lbm := hadamard true p (hb_cosh_factor LS N Dx w b0 om lc th) in
  let e := - lc n - half F * hb_cosh_g1 om th n * (h * h - om n * om n) in
  [/\ ueval lbm k x = ueval p (bidx (uR p) k) x + emb LS e,
      ueval (hadamard true lbm (hb_h_plus LS Dx w b0)) k x = ueval p (bidx (uR p) k) x + (emb LS (e + h) - ln2 LS)
    & ueval (hadamard true lbm (hb_h_minus LS Dx w b0)) k x = ueval p (bidx (uR p) k) x + (emb LS (e - h) - ln2 LS)].
Proof.
by move=> HD Hk Hn h n lbm e; split; [exact: hb_cosh_measure_eval | exact: hb_cosh_plus_eval | exact: hb_cosh_minus_eval].
Qed.
(* k_func: expectation of the upper bound of ln(1 + link(h)) for h ~ N(m, s2), tight at w^2 = E[h^2] *)
Theorem C17_exp_logdet_term (p : measure LS) Dx (w : vec F) (b0 : F) (om lc th : vec F) r :
  pdf_ok p -> (r < uR p)%N -> uD p = Dx ->
  let m := dot Dx w (getmu p r) + b0 in let s2 := quad Dx (getS p r) w in
  hb_exp_kq p w b0 om lc th r = half F * m + lc r + half F * hb_exp_g1 om th r * (s2 + m * m - om r * om r)
  /\ (om r * om r = s2 + m * m -> hb_exp_kq p w b0 om lc th r = half F * m + lc r).
Proof. by move=> Hp Hr HD m s2; split; [exact: hb_exp_kq_spec | exact: hb_exp_kq_at_dagger]. Qed.
Theorem C17_coshm1_logdet_term (p : measure LS) Dx (w : vec F) (b0 : F) (om lc th : vec F) r :
  pdf_ok p -> (r < uR p)%N -> uD p = Dx ->
  let m := dot Dx w (getmu p r) + b0 in let s2 := quad Dx (getS p r) w in
  hb_cosh_kq p w b0 om lc th r = lc r + half F * hb_cosh_g1 om th r * (s2 + m * m - om r * om r)
  /\ (om r * om r = s2 + m * m -> hb_cosh_kq p w b0 om lc th r = lc r).
Proof. by move=> Hp Hr HD m s2; split; [exact: hb_cosh_kq_spec | exact: hb_cosh_kq_at_dagger]. Qed.
(* the assembled value *)
Theorem C17_bound_assembly Dy Da Dk Dx (A M : mat F) (b : vec F) (p : measure LS) (ys : seq (vec F))
    (het kq : nat -> vec F) (nln2 : nat) n :
  pdf_ok p -> uD p = Dx -> (bidx (uR p) n < uR p)%N ->
  let rp := bidx (uR p) n in
  hb_final Dy Da Dk Dx A M b p ys het kq nln2 n
  = emb LS (- half F * (Equad (cvf Dx (getmu p rp)) (mxf Dx Dx (getS p rp)) (- mxf Dy Dx M)
                              (cvf Dy (nth vzero ys n) - cvf Dy b) (mxf Dy Dy (hb_Lam Dy Da A))
                        - sumn Dk (fun i => het i n) + sumn Dk (fun i => kq i rp)))
    - het_hS0 LS Dy Da A - hln LS 2%:R *+ nln2 - hl2p LS *+ Dy.
Proof. exact: hb_final_spec. Qed.

(* ---- rectified-linear and step links ---- *)
(* the factor on the density of h evaluates to the exponent -h/(1+w) - ln(1+w) + w/(1+w) whose exponential is <= 1/(1+h) (trunc/C17R.v);
   k_func is the integral of ln(1+w) + (h-w)/(1+w) against the truncated measure with mass Zh and first moment Eh *)
Theorem C17_relu_bound_factor N (om l1p : vec F) n (x : vec F) : (n < N)%N -> 1 + om n != 0 ->
  feval (hb_relu_factor LS N om l1p) n x = emb LS (- x 0%N / (1 + om n) - l1p n + om n / (1 + om n)).
Proof. exact: hb_relu_factor_eval. Qed.
Theorem C17_relu_logdet_term (om l1p Zh Eh : vec F) r : 1 + om r != 0 ->
  hb_relu_kq om l1p Zh Eh r = Zh r * (l1p r - om r / (1 + om r)) + Eh r / (1 + om r).
Proof. exact: hb_relu_kq_spec. Qed.
(* the regression of the projected residual g on h that the code takes from the joint covariance (fix fea2e2f) is the Gaussian
   conditional p(g | h) of the joint density whenever that density is regular: slope, intercept and residual variance *)
Theorem C17_regression_is_conditioning (p : measure LS) r :
  pdf_ok p -> uD p = 2%N -> (r < uR p)%N ->
  let c := condition_on_explicit [:: 1%N] [:: 0%N] p in
  [/\ cM c r 0%N 0%N = reg_c1 (getS p r), cb c r 0%N = reg_c0 (getmu p r) (getS p r) & cSig c r 0%N 0%N = reg_v (getS p r)].
Proof. exact: reg_matches_condition_on_explicit. Qed.
(* the polynomial the step / ReLU terms integrate against the truncated moments E0, E1, E2 of h *)
Theorem C17_residual_second_moment (c0 c1 v E0 E1 E2 : F) :
  hb_poly2 c0 c1 v E0 E1 E2 = (c0 ^+ 2 + v) * E0 + 2%:R * c0 * c1 * E1 + c1 ^+ 2 * E2.
Proof. exact: hb_poly2_spec. Qed.
End C17.

(* Da > Dy: Dy = 1, Da = 2, Dk = 1, A = [1 1], link value 1: Sigma = 3, the code's Lambda = 3/8 *)
Theorem C17_precision_refuted :
  het_Sigma 1 2 1 cexA cexD 0%N 0%N * het_Lambda 1 2 1 cexA cexD 0%N 0%N != 1.
Proof. exact: het_precision_refuted. Qed.

Print Assumptions C17_conditional_mean_covariance.
Print Assumptions C17_precision_partial.
Print Assumptions C17_precision_repaired.
Print Assumptions C17_precision_refuted.
Print Assumptions C17_exp_bound_factor.
Print Assumptions C17_coshm1_bound_factor.
Print Assumptions C17_exp_bound_measure.
Print Assumptions C17_coshm1_bound_measures.
Print Assumptions C17_exp_logdet_term.
Print Assumptions C17_coshm1_logdet_term.
Print Assumptions C17_bound_assembly.
Print Assumptions C17_relu_bound_factor.
Print Assumptions C17_relu_logdet_term.
Print Assumptions C17_regression_is_conditioning.
Print Assumptions C17_residual_second_moment.
