(* C18 -- JAX transformations and round trips preserve values.  PARTIAL.
   Proved here: constructor round trips on the model -- tree_unflatten(tree_flatten(o)), crossing a jit / scan
   boundary and from_dict(to_dict(o)) re-run the class constructor on the stored (init) fields; the resulting
   object evaluates to the same function and is again consistent.  The SCHEMA theorems (every exported key is
   a declared field, to_dict keys are init fields, flatten uses no removed API) are re-checked on every run
   over a schema REGENERATED from /repo's source: coq/schema/SchemaThm.v.
   NOT expressible in Gallina: that XLA tracing (jit), batching (vmap) and reverse-mode AD preserve values --
   runtime semantics of JAX; compared by the correspondence, not proved. *)
From mathcomp Require Import all_ssreflect all_algebra.
From GT Require Import Tensor DetExec LogDom Obj Factor Measure Pdf Cond EvalLemmas Spec C01_proofs PdfLemmas C04_proofs C18_proofs.
Import GRing.Theory Num.Theory.
Local Open Scope ring_scope.

Section C18.
Variables (F : realFieldType) (LS : logS F).

Theorem C18_measure_roundtrip (u : measure LS) r (x : vec F) : (r < uR u)%N ->
  ueval (rt_measure u) r x = ueval u r x
  /\ uR (rt_measure u) = uR u /\ uD (rt_measure u) = uD u /\ ucls (rt_measure u) = ucls u.
Proof. by move=> Hr; split; [exact: rt_measure_eval | exact: rt_measure_shape]. Qed.

Theorem C18_density_roundtrip (p : measure LS) r (x : vec F) : pdf_ok p -> (r < uR p)%N ->
  ueval (rt_pdf p) r x = ueval p r x /\ pdf_ok (rt_pdf p).
Proof. by move=> Hp Hr; split; [exact: rt_pdf_eval | exact: rt_pdf_ok]. Qed.

Theorem C18_conditional_roundtrip (c : cond LS) r : (r < cR c)%N ->
  [/\ cR (rt_cond c) = cR c, cDy (rt_cond c) = cDy c, cDx (rt_cond c) = cDx c & ccl (rt_cond c) = ccl c]
  /\ [/\ forall i j, (i < cDy c)%N -> (j < cDx c)%N -> effM (rt_cond c) r i j = effM c r i j,
         forall i, (i < cDy c)%N -> effb (rt_cond c) r i = effb c r i,
         forall i j, (i < cDy c)%N -> (j < cDy c)%N -> cSig (rt_cond c) r i j = cSig c r i j,
         forall i j, (i < cDy c)%N -> (j < cDy c)%N -> cLam (rt_cond c) r i j = cLam c r i j
       & chS (rt_cond c) r = chS c r].
Proof. exact: rt_cond_fields. Qed.

Theorem C18_factor_roundtrip (f : factor LS) r (x : vec F) : fwf f -> fwf1 f -> (r < fR f)%N ->
  feval (rt_factor f) r x = feval f r x.
Proof. exact: rt_factor_eval. Qed.
End C18.
Print Assumptions C18_measure_roundtrip.
Print Assumptions C18_density_roundtrip.
Print Assumptions C18_conditional_roundtrip.
Print Assumptions C18_factor_roundtrip.
