(* C19 -- samples are an affine image mu + L z of the key's standard normal stream with L L' = Sigma.
   PARTIAL: the distributional claim is reduced to (i) the stream z is i.i.d. standard normal and a
   deterministic function of the key (jax.random, trusted, not modelled) and (ii) L is the Cholesky
   factor (checked on every correspondence case by the executable predicate is_chol). *)
From mathcomp Require Import all_ssreflect all_algebra.
From GT Require Import Tensor Wick Sample C19_proofs SPD Chol.
Import GRing.Theory.
Local Open Scope ring_scope.

Theorem C19_sample_affine (F : realFieldType) D (mu : nat -> vec F) (L : nat -> mat F) (z : nat -> nat -> vec F) d a i :
  sample D mu L z d a i = dot D (fun c => L a i c) (z d a) + mu a i.
Proof. exact: sample_affine. Qed.
Print Assumptions C19_sample_affine.

(* components are mutually independent: component a reads only z[d,a,:] *)
Theorem C19_components_disjoint (F : realFieldType) D (mu : nat -> vec F) (L : nat -> mat F) (z z' : nat -> nat -> vec F) d a i :
  (forall c, (c < D)%N -> z d a c = z' d a c) -> sample D mu L z d a i = sample D mu L z' d a i.
Proof. exact: sample_component_local. Qed.
Print Assumptions C19_components_disjoint.

(* mean mu and covariance Sigma (Gaussian moments of the affine forms under z ~ N(0, I)) *)
Theorem C19_sample_moments_partial (F : realFieldType) D (mu : vec F) (L S : mat F) i j :
  is_chol D L S -> (i < D)%N -> (j < D)%N ->
  gE D vzero mid [:: rowf L mu i] = mu i
  /\ gE D vzero mid [:: rowf L mu i; rowf L mu j] - gE D vzero mid [:: rowf L mu i] * gE D vzero mid [:: rowf L mu j] = S i j.
Proof. by move=> /is_cholP HS; exact: sample_moments. Qed.
Print Assumptions C19_sample_moments_partial.

(* the Cholesky factor used by sample() is unique: for a symmetric positive definite Sigma ANY lower triangular C with positive
   diagonal and C C' = Sigma is L sqrt(D) of the (executable, rational) factorisation Sigma = L D L' -- so which LAPACK routine
   produces it cannot matter, and the correspondence can check the implementation's factor exactly through C_jj^2 = d_j *)
Theorem C19_cholesky_factor_unique (F : realFieldType) n (A C : mat F) : spd (mxf n n A) ->
  (forall i j, (i < j)%N -> (j < n)%N -> C i j = 0) -> (forall i, (i < n)%N -> 0 < C i i) ->
  mxf n n C *m (mxf n n C)^T = mxf n n A ->
  forall i j, (i < n)%N -> (j < n)%N -> C i j = (ldl n A).1 i j * C j j /\ C j j * C j j = (ldl n A).2 j.
Proof. exact: chol_unique. Qed.
Print Assumptions C19_cholesky_factor_unique.
