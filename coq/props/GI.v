(* C02 / C05 / C08 over Coq's real numbers: the Gaussian-integral specification GI (`lngint`, proofs/Spec.v) is a THEOREM
   about the integral over R^D defined as an iterated improper Riemann integral (`is_gint`, trunc/GaussND.v; Coquelicot
   `is_RInt_gen` over (-oo, +oo) in every coordinate, coordinate 0 innermost):
     - for every dimension D and every symmetric positive definite L: the integral of exp(-x'Lx/2 + nu'x + lb) is exp(lngint L nu lb);
     - hence what `log_integral` / `log_integral_light` of the model return is the logarithm of the integral of exp(evaluate_ln),
       a density object integrates to one, and the marginal density is the integral of the joint density over the other coordinates.
   Ingredients: the one-dimensional Gaussian integral (trunc/GaussInt.v), elimination of one variable at a time by completing
   the square (trunc/GaussND.v gauss_nd), the elimination recursion equals the closed form over every real field
   (proofs/GIalg.v gval_lngint, axiom-free), the real numbers as a MathComp realFieldType with ln (base/RField.v).
   Proofs: proofs/GIreal.v.  Axioms: the standard library's classical real numbers (see Print Assumptions). *)
From Coq Require Import Reals Lra Lia.
From GT Require Import GaussND.
From mathcomp Require Import all_ssreflect all_fingroup all_algebra.
From GT Require Import Tensor DetExec LogDom OLog RField MxTac MxLemmas Obj Factor Measure Pdf Cond EvalLemmas SPD Spec C01_proofs PdfLemmas C04_proofs C05_proofs GIalg GIreal.
Set Implicit Arguments.
Unset Strict Implicit.
Unset Printing Implicit Defensive.
Local Close Scope R_scope.
Delimit Scope R_scope with coqR.
Import GRing.Theory Num.Theory Order.Theory.
Local Open Scope ring_scope.
Notation matRF := (mat R_fieldType).
Notation vecRF := (vec R_fieldType).


Theorem C02_GI_is_an_iterated_Riemann_integral D (A : matRF) (nu : vecRF) (lb : R) : spd (mxf D D A) ->
  is_gint D (fun x => exp (quadR D A nu x + lb)%coqR) (exp (lngint (LS:=LR) (mxf D D A) (cvf D nu) lb)).
Proof. exact: GI_is_integral. Qed.
Print Assumptions C02_GI_is_an_iterated_Riemann_integral.

Theorem C02_GI_is_an_iterated_Riemann_integral_matrix_form D (A : matRF) (nu : vecRF) (lb : R) : spd (mxf D D A) ->
  is_gint D (fun x => exp (- (1 / 2%:R) * sc ((cvf D x)^T *m mxf D D A *m cvf D x) + sc ((cvf D nu)^T *m cvf D x) + lb))
            (exp (lngint (LS:=LR) (mxf D D A) (cvf D nu) lb)).
Proof. exact: GI_is_integral_matrix. Qed.
Print Assumptions C02_GI_is_an_iterated_Riemann_integral_matrix_form.

Theorem C02_log_integral_is_the_log_of_the_integral (u : measure LR) r : cache_ok u -> diag_ok u -> spd (Lm u r) -> (r < uR u)%N ->
  is_gint (uD u) (fun x => exp (ueval u r x)) (exp ((log_integral u).2 r)).
Proof. exact: log_integral_is_integral. Qed.
Print Assumptions C02_log_integral_is_the_log_of_the_integral.

Theorem C02_log_integral_light_is_the_log_of_the_integral (u : measure LR) r : cache_ok u -> diag_ok u -> spd (Lm u r) -> (r < uR u)%N ->
  is_gint (uD u) (fun x => exp (ueval u r x)) (exp ((log_integral_light u).2 r)).
Proof. exact: log_integral_light_is_integral. Qed.
Print Assumptions C02_log_integral_light_is_the_log_of_the_integral.

Theorem C02_density_integrates_to_one (p : measure LR) r : pdf_ok p -> spd (Sg p r) -> (r < uR p)%N ->
  is_gint (uD p) (fun x => exp (ueval p r x)) 1.
Proof. exact: density_integrates_to_one_Sigma. Qed.
Print Assumptions C02_density_integrates_to_one.

Theorem C02_normal_density_integrates_to_one (p : measure LR) r : pdf_ok p -> spd (Sg p r) -> (r < uR p)%N ->
  is_gint (uD p) (fun x => exp (lnN LR (muv p r) (Sg p r) (cvf (uD p) x))) 1.
Proof. exact: normal_density_integrates_to_one. Qed.
Print Assumptions C02_normal_density_integrates_to_one.

Theorem C05_marginal_density_is_the_integral_of_the_joint da db (p : measure LR) r (xa : vecRF) :
  pdf_ok p -> uD p = (da + db)%N -> (r < uR p)%N -> spd (Lm p r) ->
  is_gint db (fun xb => exp (ueval p r (vcat da xa xb)))
    (exp (lnN LR (cvf da (vsel (iota 0 da) (getmu p r))) (mxf da da (msub2 (iota 0 da) (iota 0 da) (getS p r)))
              (cvf da xa))).
Proof. exact: marginal_is_genuine_integral. Qed.
Print Assumptions C05_marginal_density_is_the_integral_of_the_joint.

Theorem C05_get_marginal_is_the_integral_of_the_joint da db (p : measure LR) r (xa : vecRF) :
  pdf_ok p -> diag_cov_ok p -> uD p = (da + db)%N -> (forall k, (k < uR p)%N -> spd (Lm p k)) -> (r < uR p)%N ->
  is_gint db (fun xb => exp (ueval p r (vcat da xa xb))) (exp (ueval (get_marginal (iota 0 da) p) r xa)).
Proof. exact: get_marginal_is_genuine_integral. Qed.
Print Assumptions C05_get_marginal_is_the_integral_of_the_joint.
