(* C08 / C09 / C11 over Coq's real numbers, as statements about genuine integrals (iterated improper Riemann integrals over R^D,
   `is_gint`, trunc/GaussND.v), for every dimension, every conditional class and batch layout of the model:
     - C08: the density of the marginal transformation at y IS the integral over x of p(y|x) p(x);
     - C09: the posterior density integrates to one, p(y|x)p(x)/p(y) integrates to one, posterior * evidence integrates to the evidence;
     - C11: one Bayesian update step: the posterior integrates to one and the evidence is the integral of prior times likelihood
       (also in the `set_y` factor form, with the normaliser offset of the known C10 finding made explicit).
   The only positivity hypotheses are on the INPUT covariances (spd prior covariance, spd noise covariance): positive definiteness
   of the joint, marginal and posterior is derived.  Proofs: proofs/GIreal2.v (on top of proofs/GIreal.v).  NOT covered: the
   iterated integration over several time steps of a state-space model (the factorisation for every T is props/C11.v).
   Axioms: the standard library's classical real numbers (see Print Assumptions). *)
From Coq Require Import Reals Lra Lia.
From GT Require Import GaussND.
From mathcomp Require Import all_ssreflect all_fingroup all_algebra.
From GT Require Import Tensor DetExec LogDom OLog RField MxTac MxLemmas Obj Factor Measure Pdf Cond EvalLemmas SPD Spec
  C01_proofs PdfLemmas C04_proofs C05_proofs C06_proofs C0809_proofs C1013_proofs C12_proofs C07_proofs Extra_proofs
  C11_proofs NonVacuity GIalg GIreal GIreal2.
Set Implicit Arguments.
Unset Strict Implicit.
Unset Printing Implicit Defensive.
Local Close Scope R_scope.
Delimit Scope R_scope with coqR.
Import GRing.Theory Num.Theory Order.Theory.
Local Open Scope ring_scope.
Notation matRF := (mat R_fieldType).
Notation vecRF := (vec R_fieldType).


Theorem C08_marginal_of_the_last_block_is_the_integral_over_the_first da db (p : measure LR) r (xb : vecRF) :
  pdf_ok p -> uD p = (da + db)%N -> (r < uR p)%N -> spd (Lm p r) ->
  is_gint da (fun xa => exp (ueval p r (vcat da xa xb)))
    (exp (lnN LR (cvf db (vsel (iota da db) (getmu p r))) (mxf db db (msub2 (iota da db) (iota da db) (getS p r)))
              (cvf db xb))).
Proof. exact: marginal_last_is_genuine_integral. Qed.
Print Assumptions C08_marginal_of_the_last_block_is_the_integral_over_the_first.

Theorem C08_marginal_transformation_is_the_integral_of_p_y_given_x_times_p_x (c : cond LR) (p : measure LR) k (y : vecRF) :
  pdf_ok p -> cond_ok c -> cDx c = uD p -> marg_pos c p -> (k < cR c * uR p)%N ->
  spd (Sg p (jrx p k)) -> spd (cSg c (jrc p k)) ->
  is_gint (cDx c) (fun x => exp (ueval (condition_on_x c [:: x]) (jrc p k * 1 + 0) y + ueval p (jrx p k) x))
          (exp (ueval (affine_marginal c p) k y)).
Proof. exact: affine_marginal_is_the_integral. Qed.
Print Assumptions C08_marginal_transformation_is_the_integral_of_p_y_given_x_times_p_x.

Theorem C08_marginal_transformation_is_the_integral_spd (c : cond LR) (p : measure LR) k (y : vecRF) :
  pdf_ok p -> cond_ok c -> cDx c = uD p -> pdf_spd p -> cond_spd c -> (k < cR c * uR p)%N ->
  is_gint (cDx c) (fun x => exp (ueval (condition_on_x c [:: x]) (jrc p k * 1 + 0) y + ueval p (jrx p k) x))
          (exp (ueval (affine_marginal c p) k y)).
Proof. exact: affine_marginal_is_the_integral_spd. Qed.
Print Assumptions C08_marginal_transformation_is_the_integral_spd.

Theorem C09_posterior_integrates_to_one (c : cond LR) (p : measure LR) k (y : vecRF) :
  pdf_ok p -> cond_ok c -> cDx c = uD p -> post_pos c p -> (k < cR c * uR p)%N ->
  spd (Sg p (jrx p k)) -> spd (cSg c (jrc p k)) ->
  is_gint (cDx c) (fun x => exp (ueval (condition_on_x (affine_conditional c p) [:: y]) (k * 1 + 0) x)) 1.
Proof. exact: posterior_integrates_to_one. Qed.
Print Assumptions C09_posterior_integrates_to_one.

Theorem C09_bayes_ratio_integrates_to_one (c : cond LR) (p : measure LR) k (y : vecRF) :
  pdf_ok p -> cond_ok c -> cDx c = uD p -> marg_pos c p -> (k < cR c * uR p)%N ->
  spd (Sg p (jrx p k)) -> spd (cSg c (jrc p k)) ->
  is_gint (cDx c) (fun x => exp (ueval (condition_on_x c [:: x]) (jrc p k * 1 + 0) y + ueval p (jrx p k) x
                                 - ueval (affine_marginal c p) k y)) 1.
Proof. exact: bayes_ratio_integrates_to_one. Qed.
Print Assumptions C09_bayes_ratio_integrates_to_one.

Theorem C09_evidence_is_the_integral_of_posterior_times_evidence (c : cond LR) (p : measure LR) k (y : vecRF) :
  pdf_ok p -> cond_ok c -> cDx c = uD p -> marg_pos c p -> post_pos c p -> (k < cR c * uR p)%N ->
  spd (Sg p (jrx p k)) -> spd (cSg c (jrc p k)) ->
  is_gint (cDx c) (fun x => exp (ueval (condition_on_x (affine_conditional c p) [:: y]) (k * 1 + 0) x
                                 + ueval (affine_marginal c p) k y))
          (exp (ueval (affine_marginal c p) k y)).
Proof. exact: bayes_evidence_is_the_integral. Qed.
Print Assumptions C09_evidence_is_the_integral_of_posterior_times_evidence.

Theorem C11_update_step_posterior_integrates_to_one (c : cond LR) (y : vecRF) (p : measure LR) :
  single c p -> pdf_spd p -> cond_spd c ->
  is_gint (cDx c) (fun x => exp (ueval (bayes_step c y p) 0%N x)) 1.
Proof. exact: bayes_step_integrates_to_one. Qed.
Print Assumptions C11_update_step_posterior_integrates_to_one.

Theorem C11_update_step_evidence_is_the_integral (c : cond LR) (y : vecRF) (p : measure LR) :
  single c p -> pdf_spd p -> cond_spd c ->
  is_gint (cDx c) (fun x => exp (ueval (condition_on_x c [:: x]) 0%N y + ueval p 0%N x))
          (exp (ueval (affine_marginal c p) 0%N y)).
Proof. exact: bayes_step_evidence_is_the_integral. Qed.
Print Assumptions C11_update_step_evidence_is_the_integral.

Theorem C11_evidence_of_one_observation_is_the_integral_of_prior_times_likelihood_factor dxn (c : cond LR) (y : vecRF) (p : measure LR) :
  single c p -> pdf_spd p -> cond_spd c -> ~~ is_diag (ucls p) ->
  is_gint (cDx c) (fun x => exp (ueval (multiply false p (set_y dxn c [:: y])) 0%N x))
          (exp (ueval (affine_marginal c p) 0%N y + hl2p LR *+ (cDy c) - hl2p LR *+ (if dxn then cDx c else cDy c))).
Proof. exact: evidence_one_step_is_genuine_integral. Qed.
Print Assumptions C11_evidence_of_one_observation_is_the_integral_of_prior_times_likelihood_factor.

Theorem C11_evidence_integral_nonvacuous (y : vecRF) :
  is_gint 2 (fun x => exp (ueval (condition_on_x (nv_cond LR) [:: x]) 0%N y + ueval (nv_prior LR) 0%N x))
          (exp (ueval (affine_marginal (nv_cond LR) (nv_prior LR)) 0%N y)).
Proof. exact: nv_evidence_is_the_integral. Qed.
Print Assumptions C11_evidence_integral_nonvacuous.

Theorem C09_posterior_integral_nonvacuous (y : vecRF) :
  is_gint 2 (fun x => exp (ueval (bayes_step (nv_cond LR) y (nv_prior LR)) 0%N x)) 1.
Proof. exact: nv_posterior_integrates_to_one. Qed.
Print Assumptions C09_posterior_integral_nonvacuous.
