(* C03 over Coq's real numbers: the Isserlis-Wick expectations of ONE and of TWO affine forms (the definition `gE` that
   props/C03.v relates the model's formulas to) ARE integrals against the normal density -- iterated improper Riemann
   integrals over R^D (`is_gint`, trunc/GaussND.v), every dimension D, every symmetric positive definite covariance --
   and hence so are the model's expectations for the integrands x, Ax+a, xx', (Ax+a)'(Bx+b), (Ax+a)(Bx+b)' of a density object.
   Ingredients: first and second moments by elimination of one variable at a time (trunc/GaussMom.v gauss_nd_lin, gauss_nd_lin2),
   the elimination recursions equal l'L^-1 nu and l'L^-1 k over every real field (proofs/GImomalg.v, axiom-free), glue
   proofs/GIreal3.v.  Third and fourth order (end of this file): trunc/GaussMom4.v, proofs/GIreal5.v -- with them EVERY integrand of the
   documented table is a genuine integral. *)
From Coq Require Import Reals Lra Lia.
From GT Require Import GaussND GaussMom.
From mathcomp Require Import all_ssreflect all_fingroup all_algebra.
From GT Require Import Tensor DetExec LogDom OLog RField MxTac MxLemmas Obj Factor Measure Pdf Cond Moments EvalLemmas SPD Spec Wick
  C01_proofs PdfLemmas C04_proofs C05_proofs GIalg GImomalg GIreal GIreal3.
Set Implicit Arguments.
Unset Strict Implicit.
Unset Printing Implicit Defensive.
Local Close Scope R_scope.
Delimit Scope R_scope with coqR.
Import GRing.Theory Num.Theory Order.Theory.
Local Open Scope ring_scope.
Notation matRF := (mat R_fieldType).
Notation vecRF := (vec R_fieldType).

Theorem C03_wick_expectation_of_one_form_is_the_integral D (mu : vecRF) (S : matRF) (f : aform R_fieldType) :
  spd (mxf D D S) ->
  is_gint D (fun x => (dot D f.1 x + f.2) * exp (lnN LR (cvf D mu) (mxf D D S) (cvf D x))) (gE D mu S [:: f]).
Proof. by move=> sS; exact: wick1_is_integral. Qed.
Print Assumptions C03_wick_expectation_of_one_form_is_the_integral.

Theorem C03_wick_expectation_of_two_forms_is_the_integral D (mu : vecRF) (S : matRF) (f g : aform R_fieldType) :
  spd (mxf D D S) ->
  is_gint D (fun x => (dot D f.1 x + f.2) * (dot D g.1 x + g.2) * exp (lnN LR (cvf D mu) (mxf D D S) (cvf D x)))
            (gE D mu S [:: f; g]).
Proof. by move=> sS; exact: wick2_is_integral. Qed.
Print Assumptions C03_wick_expectation_of_two_forms_is_the_integral.

Theorem C03_linear_is_the_integral (p : measure LR) r (A : matRF) (a : vecRF) k :
  pdf_ok p -> spd (Sg p r) -> (r < uR p)%N ->
  is_gint (uD p) (fun x => (sumn (uD p) (fun i => A k i * x i) + a k) * exp (ueval p r x))
          (E_linear (uD p) (getmu p r) A a k).
Proof. by move=> H1 H2 H3; exact: E_linear_is_integral. Qed.
Print Assumptions C03_linear_is_the_integral.

Theorem C03_xxT_is_the_integral (p : measure LR) r i j :
  pdf_ok p -> spd (Sg p r) -> (r < uR p)%N -> (i < uD p)%N -> (j < uD p)%N ->
  is_gint (uD p) (fun x => x i * x j * exp (ueval p r x)) (E_xxT (getmu p r) (getS p r) i j).
Proof. by move=> H1 H2 H3 Hi Hj; exact: E_xxT_is_integral. Qed.
Print Assumptions C03_xxT_is_the_integral.

Theorem C03_quadratic_outer_is_the_integral (p : measure LR) r (A : matRF) (a : vecRF) (B : matRF) (b : vecRF) k l :
  pdf_ok p -> spd (Sg p r) -> (r < uR p)%N ->
  is_gint (uD p) (fun x => (mvec (uD p) A x k + a k) * (mvec (uD p) B x l + b l) * exp (ueval p r x))
          (E_quadratic_outer (uD p) (getmu p r) (getS p r) A a B b k l).
Proof. by move=> H1 H2 H3; exact: E_quadratic_outer_is_integral. Qed.
Print Assumptions C03_quadratic_outer_is_the_integral.

Theorem C03_quadratic_inner_is_the_integral (p : measure LR) r K (A : matRF) (a : vecRF) (B : matRF) (b : vecRF) :
  pdf_ok p -> spd (Sg p r) -> (r < uR p)%N ->
  is_gint (uD p) (fun x => sumn K (fun k => (mvec (uD p) A x k + a k) * (mvec (uD p) B x k + b k)) * exp (ueval p r x))
          (E_quadratic_inner (uD p) (getmu p r) (getS p r) K A a B b).
Proof. by move=> H1 H2 H3; exact: E_quadratic_inner_is_integral. Qed.
Print Assumptions C03_quadratic_inner_is_the_integral.

(* ---- third and fourth order: trunc/GaussMom4.v (gauss_nd_lin3, gauss_nd_lin4), proofs/GIreal5.v ---- *)
From GT Require Import GaussMom4 GIreal5.

Theorem C03_wick_expectation_of_three_forms_is_the_integral D (mu : vecRF) (S : matRF) (f g h : aform R_fieldType) :
  spd (mxf D D S) ->
  is_gint D (fun x => (dot D f.1 x + f.2) * (dot D g.1 x + g.2) * (dot D h.1 x + h.2)
                      * exp (lnN LR (cvf D mu) (mxf D D S) (cvf D x)))
            (gE D mu S [:: f; g; h]).
Proof. by move=> sS; exact: wick3_is_integral. Qed.
Print Assumptions C03_wick_expectation_of_three_forms_is_the_integral.

Theorem C03_wick_expectation_of_four_forms_is_the_integral D (mu : vecRF) (S : matRF) (f g h k : aform R_fieldType) :
  spd (mxf D D S) ->
  is_gint D (fun x => (dot D f.1 x + f.2) * (dot D g.1 x + g.2) * (dot D h.1 x + h.2) * (dot D k.1 x + k.2)
                      * exp (lnN LR (cvf D mu) (mxf D D S) (cvf D x)))
            (gE D mu S [:: f; g; h; k]).
Proof. by move=> sS; exact: wick4_is_integral. Qed.
Print Assumptions C03_wick_expectation_of_four_forms_is_the_integral.

Theorem C03_xbxx_is_the_integral (p : measure LR) r (b : vecRF) i j :
  pdf_ok p -> spd (Sg p r) -> (r < uR p)%N -> (i < uD p)%N -> (j < uD p)%N ->
  is_gint (uD p) (fun x => x i * dot (uD p) b x * x j * exp (ueval p r x)) (E_xbxx (uD p) (getmu p r) (getS p r) b i j).
Proof. by move=> H1 H2 H3 Hi Hj; exact: E_xbxx_is_integral. Qed.
Print Assumptions C03_xbxx_is_the_integral.

Theorem C03_cubic_outer_is_the_integral (p : measure LR) r (A : vecRF) (a : R) i j :
  pdf_ok p -> spd (Sg p r) -> (r < uR p)%N -> (i < uD p)%N -> (j < uD p)%N ->
  is_gint (uD p) (fun x => x i * (dot (uD p) A x + a) * x j * exp (ueval p r x))
          (E_cubic_outer (uD p) (getmu p r) (getS p r) A a i j).
Proof. by move=> H1 H2 H3 Hi Hj; exact: E_cubic_outer_is_integral. Qed.
Print Assumptions C03_cubic_outer_is_the_integral.

Theorem C03_cubic_inner_is_the_integral (p : measure LR) r L (A : matRF) (a : vecRF) (B : matRF) (b : vecRF) (C : matRF) (c : vecRF) k :
  pdf_ok p -> spd (Sg p r) -> (r < uR p)%N ->
  is_gint (uD p) (fun x => (mvec (uD p) A x k + a k) * sumn L (fun l => (mvec (uD p) B x l + b l) * (mvec (uD p) C x l + c l))
                           * exp (ueval p r x))
          (E_cubic_inner (uD p) (getmu p r) (getS p r) L A a B b C c k).
Proof. by move=> H1 H2 H3; exact: E_cubic_inner_is_integral. Qed.
Print Assumptions C03_cubic_inner_is_the_integral.

Theorem C03_cubic_outer_general_is_the_integral (p : measure LR) r K (A : matRF) (a : vecRF) (B : matRF) (b : vecRF) (C : matRF) (c : vecRF) l :
  pdf_ok p -> spd (Sg p r) -> (r < uR p)%N ->
  is_gint (uD p) (fun x => sumn K (fun k => (mvec (uD p) A x k + a k) * (mvec (uD p) B x k + b k)) * (mvec (uD p) C x l + c l)
                           * exp (ueval p r x))
          (E_cubic_outer_general (uD p) (getmu p r) (getS p r) K A a B b C c l).
Proof. by move=> H1 H2 H3; exact: E_cubic_outer_general_is_integral. Qed.
Print Assumptions C03_cubic_outer_general_is_the_integral.

Theorem C03_quartic_outer_is_the_integral (p : measure LR) r L (A : matRF) (a : vecRF) (B : matRF) (b : vecRF) (C : matRF) (c : vecRF)
    (Dm : matRF) (d : vecRF) k m :
  pdf_ok p -> spd (Sg p r) -> (r < uR p)%N ->
  is_gint (uD p) (fun x => (mvec (uD p) A x k + a k) * sumn L (fun l => (mvec (uD p) B x l + b l) * (mvec (uD p) C x l + c l))
                           * (mvec (uD p) Dm x m + d m) * exp (ueval p r x))
          (E_quartic_outer (uD p) (getmu p r) (getS p r) L A a B b C c Dm d k m).
Proof. by move=> H1 H2 H3; exact: E_quartic_outer_is_integral. Qed.
Print Assumptions C03_quartic_outer_is_the_integral.

Theorem C03_quartic_inner_is_the_integral (p : measure LR) r K L (A : matRF) (a : vecRF) (B : matRF) (b : vecRF) (C : matRF) (c : vecRF)
    (Dm : matRF) (d : vecRF) :
  pdf_ok p -> spd (Sg p r) -> (r < uR p)%N ->
  is_gint (uD p) (fun x => sumn K (fun k => (mvec (uD p) A x k + a k) * (mvec (uD p) B x k + b k))
                           * sumn L (fun l => (mvec (uD p) C x l + c l) * (mvec (uD p) Dm x l + d l)) * exp (ueval p r x))
          (E_quartic_inner (uD p) (getmu p r) (getS p r) K L A a B b C c Dm d).
Proof. by move=> H1 H2 H3; exact: E_quartic_inner_is_integral. Qed.
Print Assumptions C03_quartic_inner_is_the_integral.
