(* C13 / C14 / C16 over Coq's real numbers, as statements about genuine integrals (iterated improper Riemann integrals over R^D,
   `is_gint`, trunc/GaussND.v): the "Gaussian second moment" definitions ElnN (proofs/C1013_proofs.v) and Equad (proofs/C14_proofs.v),
   relative to which props/C13.v and props/C14.v are stated over an arbitrary real field, ARE integrals at the reals:
     - C13: the entropy of a density object is minus the integral of p ln p; KL(p0 || p1) is the integral of p0 (ln p0 - ln p1);
     - C14: integrate('log u(x)', factor=f) of a density is the integral of ln f(x) p(x); integrate_log_conditional_y is the integral
       over x of ln p(y|x) p(x); integrate_log_conditional(q) is the integral over z = (y, x) of ln p(y|x) q(z);
     - C16: the expectation of exp of an affine form (the expected noise of the exp link, and each of the two halves of the cosh-1 link)
       under a density is the Gaussian integral with the closed form exp(w'mu + w0 + w'Sigma w / 2).
   Proofs: proofs/GIreal4.v (on wick1/wick2 of proofs/GIreal3.v).  NOT covered: conditional entropy / mutual information as
   integrals (they are differences of entropies, props/C13.v), the feature-model variants of C14, the step / rectified-linear links in D > 1.
   Axioms: the standard library's classical real numbers (see Print Assumptions). *)
From Coq Require Import Reals Lra Lia.
From GT Require Import GaussND GaussMom.
From mathcomp Require Import all_ssreflect all_fingroup all_algebra.
From GT Require Import Tensor DetExec LogDom OLog RField MxTac MxLemmas Obj Factor Measure Pdf Cond Moments ExpLog EvalLemmas SPD Spec
  Wick C01_proofs PdfLemmas C04_proofs C05_proofs C1013_proofs C14_proofs C03a_proofs GIalg GImomalg GIreal GIreal3 GIreal4.
Set Implicit Arguments.
Unset Strict Implicit.
Unset Printing Implicit Defensive.
Local Close Scope R_scope.
Delimit Scope R_scope with coqR.
Import GRing.Theory Num.Theory Order.Theory.
Local Open Scope ring_scope.
Notation RF := R_realFieldType.
Notation matRF := (mat R_fieldType).
Notation vecRF := (vec R_fieldType).

Theorem C13_ElnN_is_the_integral D (mu0 : vecRF) (S0 : matRF) (mu : vecRF) (S : matRF) :
  spd (mxf D D S0) -> spd (mxf D D S) ->
  is_gint D (fun x => lnN LR (cvf D mu) (mxf D D S) (cvf D x) * exp (lnN LR (cvf D mu0) (mxf D D S0) (cvf D x)))
            (ElnN LR (cvf D mu0) (mxf D D S0) (cvf D mu) (mxf D D S)).
Proof. by move=> s0 s1; exact: ElnN_is_integral. Qed.
Print Assumptions C13_ElnN_is_the_integral.

Theorem C14_Equad_is_the_integral D (mu : vecRF) (S : matRF) K (A : matRF) (a : vecRF) (Lm : matRF) : spd (mxf D D S) ->
  is_gint D (fun x => sc ((mxf K D A *m cvf D x + cvf K a)^T *m mxf K K Lm *m (mxf K D A *m cvf D x + cvf K a))
                      * exp (lnN LR (cvf D mu) (mxf D D S) (cvf D x)))
            (Equad (cvf D mu) (mxf D D S) (mxf K D A) (cvf K a) (mxf K K Lm)).
Proof. by move=> sS; exact: Equad_is_integral. Qed.
Print Assumptions C14_Equad_is_the_integral.

Theorem C16_expected_exp_of_affine_form_is_the_integral D (mu : vecRF) (S : matRF) (w : vecRF) (w0 : R) : spd (mxf D D S) ->
  is_gint D (fun x => exp (dot D w x + w0) * exp (lnN LR (cvf D mu) (mxf D D S) (cvf D x)))
            (exp (dot D w mu + w0 + / 2 * sc ((cvf D w)^T *m mxf D D S *m cvf D w))).
Proof. by move=> sS; exact: exp_affine_is_integral. Qed.
Print Assumptions C16_expected_exp_of_affine_form_is_the_integral.

Theorem C13_entropy_is_minus_the_integral_of_p_ln_p (p : measure LR) r : pdf_ok p -> spd (Sg p r) -> (r < uR p)%N ->
  is_gint (uD p) (fun x => - (ueval p r x * exp (ueval p r x))) (entropy p r).
Proof. exact: entropy_is_integral. Qed.
Print Assumptions C13_entropy_is_minus_the_integral_of_p_ln_p.

Theorem C13_kl_is_the_integral_of_p0_times_log_ratio (p0 p1 : measure LR) k : pdf_ok p0 -> pdf_ok p1 -> uD p0 = uD p1 ->
  (0 < uR p0)%N -> (0 < uR p1)%N -> (k < maxn (uR p0) (uR p1))%N ->
  (uR p0 == uR p1) || (uR p0 == 1%N) || (uR p1 == 1%N) ->
  let r0 := bidx (uR p0) k in let r1 := bidx (uR p1) k in
  spd (Sg p0 r0) -> spd (Sg p1 r1) ->
  is_gint (uD p0) (fun x => (ueval p0 r0 x - ueval p1 r1 x) * exp (ueval p0 r0 x)) (kl_divergence p0 p1 k).
Proof. exact: kl_is_integral. Qed.
Print Assumptions C13_kl_is_the_integral_of_p0_times_log_ratio.

Theorem C14_expected_log_factor_is_the_integral (u : measure LR) (f : factor LR) r :
  pdf_ok u -> uD u = fD f -> (r < uR u)%N -> spd (Sg u r) ->
  is_gint (uD u) (fun x => feval f (bidx (fR f) r) x * exp (ueval u r x)) (int_log_factor u f r).
Proof. exact: int_log_factor_is_integral. Qed.
Print Assumptions C14_expected_log_factor_is_the_integral.

Theorem C14_expected_log_conditional_y_is_the_integral (c : cond LR) (p : measure LR) (ys : seq vecRF) k :
  cond_ok c -> pdf_ok p -> cDx c = uD p -> cR c = 1%N ->
  (bidx (uR p) k < uR p)%N -> (bidx (size ys) k < size ys)%N ->
  let rp := bidx (uR p) k in let y := nth vzero ys (bidx (size ys) k) in
  spd (Sg p rp) ->
  is_gint (cDx c) (fun x => ueval (condition_on_x c [:: x]) 0%N y * exp (ueval p rp x)) (int_log_cond_y c p ys k).
Proof. exact: int_log_cond_y_is_integral. Qed.
Print Assumptions C14_expected_log_conditional_y_is_the_integral.

Theorem C14_expected_log_conditional_is_the_integral (c : cond LR) (q : measure LR) k :
  cond_ok c -> pdf_ok q -> uD q = (cDy c + cDx c)%N ->
  (bidx (cR c) k < cR c)%N -> (bidx (uR q) k < uR q)%N ->
  let r := bidx (cR c) k in let rq := bidx (uR q) k in
  spd (Sg q rq) ->
  is_gint (cDy c + cDx c)
          (fun z => ueval (condition_on_x c [:: (fun i => z (cDy c + i)%N)]) (r * 1 + 0) z * exp (ueval q rq z))
          (int_log_cond c q k).
Proof. exact: int_log_cond_is_integral. Qed.
Print Assumptions C14_expected_log_conditional_is_the_integral.

Theorem C16_expected_exp_noise_of_a_density_is_the_integral (p : measure LR) r (w : vecRF) (w0 : R) :
  pdf_ok p -> spd (Sg p r) -> (r < uR p)%N ->
  is_gint (uD p) (fun x => exp (dot (uD p) w x + w0) * exp (ueval p r x))
          (exp (dot (uD p) w (getmu p r) + w0 + / 2 * sc ((cvf (uD p) w)^T *m Sg p r *m cvf (uD p) w))).
Proof. exact: exp_affine_density_is_integral. Qed.
Print Assumptions C16_expected_exp_noise_of_a_density_is_the_integral.
