(* C11 over Coq's real numbers: Kalman filtering IS iterated integration over the earlier states, for every number of time steps.
   `traj_int Dz n m f h` (proofs/GIkalman.v): starting from a function f of a trajectory (a list of states in R^Dz), integrate out the
   first state over R^Dz (an iterated improper Riemann integral `is_gint`, trunc/GaussND.v), then the next one, ... n times; what is
   left is the function h of the remaining m states.  Theorems, by induction over the list of time steps:
     - integrating x_0, x_1, ..., x_{T-1} out of the full joint density of (x_0..x_T, y_1..y_T) leaves
       exp(accumulated log-evidence) * filtered density at x_T  -- i.e. the filter the library user writes (predict = marginal
       transformation, update = conditional transformation + condition_on_x) computes the conditional of the dense joint;
     - integrating x_T as well leaves the evidence exp(sum of predictive log-densities).
   The positivity hypotheses are on the inputs only (spd prior covariance, spd transition and observation noise); a version with
   all side conditions derived from spd inputs (`_spd`), and a non-vacuity instance for every number of steps.
   Axioms: the standard library's classical real numbers (see Print Assumptions). *)
From Coq Require Import Reals Lra Lia.
From GT Require Import GaussND.
From mathcomp Require Import all_ssreflect all_fingroup all_algebra.
From GT Require Import Tensor DetExec LogDom OLog RField MxTac MxLemmas Obj Factor Measure Pdf Cond EvalLemmas SPD Spec
  C01_proofs PdfLemmas C04_proofs C05_proofs C06_proofs C0809_proofs C1013_proofs C12_proofs C07_proofs Extra_proofs
  C11_proofs C11_kalman NonVacuity GIalg GIreal GIreal2 GIkalman.
Set Implicit Arguments.
Unset Strict Implicit.
Unset Printing Implicit Defensive.
Local Close Scope R_scope.
Delimit Scope R_scope with coqR.
Import GRing.Theory Num.Theory Order.Theory.
Local Open Scope ring_scope.
Notation matRF := (mat R_fieldType).
Notation vecRF := (vec R_fieldType).


Theorem C11_kalman_integrating_out_the_first_state (s : kstep LR) (ss : seq (kstep LR)) (p : measure LR)
    (x1 : vecRF) (xs : seq vecRF) :
  pdf_ok p -> uR p = 1%N -> kok (s :: ss) p -> size xs = size ss ->
  spd (Sg p 0) -> spd (cSg (ktrans s) 0) -> spd (cSg (kobs s) 0) ->
  is_gint (uD p) (fun x0 => exp (kjoint (s :: ss) p x0 (x1 :: xs)))
          (exp (ueval (affine_marginal (kobs s) (kpred s p)) 0%N (ky s) + kjoint ss (kpost s p) x1 xs)).
Proof. exact: kalman_integrate_first_state. Qed.
Print Assumptions C11_kalman_integrating_out_the_first_state.

Theorem C11_kalman_filter_is_the_integral_over_the_earlier_states (ss : seq (kstep LR)) (p : measure LR) :
  pdf_ok p -> uR p = 1%N -> kok ss p -> kdim (uD p) ss -> spd (Sg p 0) -> ksteps_spd ss ->
  traj_int (uD p) (size ss) 1
    (fun l => exp (kjoint ss p (head vzero l) (behead l)))
    (fun l => exp (kevidence ss p + ueval (kfilter ss p) 0%N (head vzero l))).
Proof. exact: kalman_filter_is_the_integral_over_earlier_states. Qed.
Print Assumptions C11_kalman_filter_is_the_integral_over_the_earlier_states.

Theorem C11_kalman_last_state_integrates_to_the_evidence (ss : seq (kstep LR)) (p : measure LR) :
  pdf_ok p -> uR p = 1%N -> kok ss p -> kdim (uD p) ss -> spd (Sg p 0) -> ksteps_spd ss ->
  is_gint (uD p) (fun xT => exp (kevidence ss p + ueval (kfilter ss p) 0%N xT)) (exp (kevidence ss p)).
Proof. exact: kalman_last_state_integrates_to_evidence. Qed.
Print Assumptions C11_kalman_last_state_integrates_to_the_evidence.

Theorem C11_kalman_evidence_is_the_integral_over_all_states (ss : seq (kstep LR)) (p : measure LR) :
  pdf_ok p -> uR p = 1%N -> kok ss p -> kdim (uD p) ss -> spd (Sg p 0) -> ksteps_spd ss ->
  traj_int (uD p) (size ss).+1 0
    (fun l => exp (kjoint ss p (head vzero l) (behead l)))
    (fun _ => exp (kevidence ss p)).
Proof. exact: kalman_evidence_is_the_integral_over_all_states. Qed.
Print Assumptions C11_kalman_evidence_is_the_integral_over_all_states.

Theorem C11_kalman_filter_is_the_integral_spd_inputs (ss : seq (kstep LR)) (p : measure LR) :
  pdf_ok p -> uR p = 1%N -> spd (Sg p 0) -> kspd (uD p) ss -> kdim (uD p) ss ->
  traj_int (uD p) (size ss) 1
    (fun l => exp (kjoint ss p (head vzero l) (behead l)))
    (fun l => exp (kevidence ss p + ueval (kfilter ss p) 0%N (head vzero l))).
Proof. exact: kalman_filter_is_the_integral_over_earlier_states_spd. Qed.
Print Assumptions C11_kalman_filter_is_the_integral_spd_inputs.

Theorem C11_kalman_evidence_is_the_integral_spd_inputs (ss : seq (kstep LR)) (p : measure LR) :
  pdf_ok p -> uR p = 1%N -> spd (Sg p 0) -> kspd (uD p) ss -> kdim (uD p) ss ->
  traj_int (uD p) (size ss).+1 0
    (fun l => exp (kjoint ss p (head vzero l) (behead l)))
    (fun _ => exp (kevidence ss p)).
Proof. exact: kalman_evidence_is_the_integral_over_all_states_spd. Qed.
Print Assumptions C11_kalman_evidence_is_the_integral_spd_inputs.

Theorem C11_kalman_integral_nonvacuous n :
  traj_int 2 n 1
    (fun l => exp (kjoint (nv_steps n) (nv_prior LR) (head vzero l) (behead l)))
    (fun l => exp (kevidence (nv_steps n) (nv_prior LR) + ueval (kfilter (nv_steps n) (nv_prior LR)) 0%N (head vzero l))).
Proof. exact: nv_kalman_filter_is_the_integral. Qed.
Print Assumptions C11_kalman_integral_nonvacuous.
