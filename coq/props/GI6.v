(* C17 over Coq's real numbers, exp and cosh-1 links, any input dimension, with positive definiteness as the ONLY structural
   hypothesis: for a symmetric positive definite precision L of the Gaussian weight exp (quadR D L nu x + c), affine projected
   residuals and pre-activations, positive variational parameters and any number of noise units,
     - the expectation of the lower-bound integrand EXISTS as an iterated improper Riemann integral, with the closed forms
       `lb_value` / `lb_value_cosh` (trunc/HetBoundInt.v, HetBoundIntC.v: each unit tilts the Gaussian by a rank-one term; the
       cosh-1 link by three such terms), and
     - it is at most the expectation of the true log-density whenever that integral exists.
   The pivot hypotheses of trunc/C17M.v are discharged here: L + g vv' is positive definite for g >= 0 (spd_rank1_update, every
   real field, axiom-free) and positive definite matrices have positive pivots (proofs/GIalg.v).  Proofs: proofs/GIreal6.v.
   NOT proved: existence of the integral of the TRUE log-density; the rectified-linear and step links in D > 1 (half-space integrals). *)
From Coq Require Import Reals Lra Lia List.
From GT Require Import GaussND GaussMom HetBoundR HetGapR C17R MonoND HetBoundInt HetBoundIntC.
From mathcomp Require Import all_ssreflect all_fingroup all_algebra.
From GT Require Import Tensor DetExec LogDom OLog RField MxTac MxLemmas SPD GIalg GIreal GIreal6.
Set Implicit Arguments.
Unset Strict Implicit.
Unset Printing Implicit Defensive.
Local Close Scope R_scope.
Delimit Scope R_scope with coqR.
Import GRing.Theory Num.Theory Order.Theory.
Local Open Scope ring_scope.
Notation matRF := (mat R_fieldType).
Notation vecRF := (vec R_fieldType).

Theorem C17_rank_one_update_keeps_positive_definiteness (F : realFieldType) n (A : 'M[F]_n) (v : 'cV[F]_n) (g : F) :
  spd A -> 0 <= g -> spd (A + g *: (v *m v^T)).
Proof. exact: spd_rank1_update. Qed.
Print Assumptions C17_rank_one_update_keeps_positive_definiteness.

Theorem C17_exp_bound_expectation_exists_for_spd_precision D (L : matRF) (nu : vecRF) (c : R) (ts : list qterm) (ld0 c0 : R)
    (us : list unitaff) :
  spd (mxf D D L) -> List.Forall (fun u => (0 < aws u)%coqR /\ (0 < awd u)%coqR) us ->
  is_gint D (fun x => (logp_lb sLB_exp ldUB_exp (q0_at D ts x) ld0 c0 (List.map (at_x D x) us)
                       * exp (quadR D L nu x + c))%coqR)
            (lb_value D L nu c ts ld0 c0 us).
Proof. exact: C17_exp_bound_expectation_exists_spd. Qed.
Print Assumptions C17_exp_bound_expectation_exists_for_spd_precision.

Theorem C17_exp_lower_bound_for_spd_precision D (L : matRF) (nu : vecRF) (c : R) (ts : list qterm) (ld0 c0 : R) (us : list unitaff) :
  spd (mxf D D L) -> List.Forall (fun u => (0 < aws u)%coqR /\ (0 < awd u)%coqR) us ->
  forall vg : R,
  is_gint D (fun x => (logp link_exp (q0_at D ts x) ld0 c0 (List.map (at_x D x) us) * exp (quadR D L nu x + c))%coqR) vg ->
  (lb_value D L nu c ts ld0 c0 us <= vg)%coqR.
Proof. exact: C17_exp_lower_bound_spd. Qed.
Print Assumptions C17_exp_lower_bound_for_spd_precision.

Theorem C17_coshm1_bound_expectation_exists_for_spd_precision D (L : matRF) (nu : vecRF) (c : R) (ts : list qterm) (ld0 c0 : R)
    (us : list unitaff) :
  spd (mxf D D L) -> List.Forall (fun u => (0 < aws u)%coqR /\ (0 < awd u)%coqR) us ->
  is_gint D (fun x => (logp_lb sLB_cosh ldUB_cosh (q0_at D ts x) ld0 c0 (List.map (at_x D x) us)
                       * exp (quadR D L nu x + c))%coqR)
            (lb_value_cosh D L nu c ts ld0 c0 us).
Proof. exact: C17_coshm1_bound_expectation_exists_spd. Qed.
Print Assumptions C17_coshm1_bound_expectation_exists_for_spd_precision.

Theorem C17_coshm1_lower_bound_for_spd_precision D (L : matRF) (nu : vecRF) (c : R) (ts : list qterm) (ld0 c0 : R) (us : list unitaff) :
  spd (mxf D D L) -> List.Forall (fun u => (0 < aws u)%coqR /\ (0 < awd u)%coqR) us ->
  forall vg : R,
  is_gint D (fun x => (logp link_coshm1 (q0_at D ts x) ld0 c0 (List.map (at_x D x) us) * exp (quadR D L nu x + c))%coqR) vg ->
  (lb_value_cosh D L nu c ts ld0 c0 us <= vg)%coqR.
Proof. exact: C17_coshm1_lower_bound_spd. Qed.
Print Assumptions C17_coshm1_lower_bound_for_spd_precision.
