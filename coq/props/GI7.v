(* C01 / C14 / C16 over Coq's real numbers (proofs/GIreal7.v):
     - C01 + C02: the mass the model reports for the product of a measure with a factor IS the iterated improper Riemann integral of the
       product of the two functions (for rank-one factors whose stored precision is g v v' -- the statement without that side condition
       is REFUTED: `product_mass_needs_consistent_rank_one_factor`);
     - C14 / C16: the kernel moments E[k_j(x)] of the RBF and squared-exponential feature models are such integrals (the product
       precision is positive definite because the kernel precision is positive semi-definite: derived, not assumed);
     - C16: the expected noise of the exp and cosh-1 links, as the model computes it, is the integral of link(h(x)) p(x); the
       moment-matched covariance of y plus the outer product of the means is the integral of Sigma_y(x) + (Mx+b)(Mx+b)' against p(x).
   Axioms: the standard library's classical real numbers (see Print Assumptions). *)
From Coq Require Import Reals Lra Lia.
From GT Require Import GaussND GaussMom.
From mathcomp Require Import all_ssreflect all_fingroup all_algebra.
From GT Require Import Tensor DetExec LogDom OLog RField MxTac MxLemmas Obj Factor Measure Pdf Cond Moments ExpLog Approx EvalLemmas SPD Spec
  Wick C01_proofs PdfLemmas C04_proofs C05_proofs C1013_proofs C14_proofs C03a_proofs C1617_proofs HetBound C1617_extra GIalg GImomalg GIreal GIreal3 GIreal4 GIreal7.
Set Implicit Arguments.
Unset Strict Implicit.
Unset Printing Implicit Defensive.
Local Close Scope R_scope.
Delimit Scope R_scope with coqR.
Import GRing.Theory Num.Theory Order.Theory.
Local Open Scope ring_scope.
Notation RF := R_realFieldType.
Notation matRF := (mat R_fieldType).
Notation vecRF := (vec R_fieldType).


Theorem C01_product_mass_is_the_integral_of_the_product upd (u : measure LR) (f : factor LR) i j :
  cache_ok u -> diag_ok u -> fwf f -> fwf1 f -> uD u = fD f -> (i < uR u)%N -> (j < fR f)%N ->
  spd (Lm (multiply upd u f) (i * fR f + j)) ->
  is_gint (uD u) (fun x => exp (ueval u i x) * exp (feval f j x))
          (exp ((log_integral (multiply upd u f)).2 (i * fR f + j)%N)).
Proof. exact: product_mass_is_integral_corrected. Qed.
Print Assumptions C01_product_mass_is_the_integral_of_the_product.

Theorem C01_product_mass_is_the_integral_without_full_update (u : measure LR) (f : factor LR) i j :
  cache_ok u -> diag_ok u -> fwf f -> uD u = fD f -> (i < uR u)%N -> (j < fR f)%N ->
  spd (Lm (multiply false u f) (i * fR f + j)) ->
  is_gint (uD u) (fun x => exp (ueval u i x) * exp (feval f j x))
          (exp ((log_integral (multiply false u f)).2 (i * fR f + j)%N)).
Proof. exact: product_mass_is_integral_noupd. Qed.
Print Assumptions C01_product_mass_is_the_integral_without_full_update.

Theorem C01_product_mass_needs_consistent_rank_one_factor :
  ~ (forall upd (u : measure LR) (f : factor LR) i j,
       cache_ok u -> diag_ok u -> fwf f -> uD u = fD f -> (i < uR u)%N -> (j < fR f)%N ->
       spd (Lm (multiply upd u f) (i * fR f + j)) ->
       is_gint (uD u) (fun x => exp (ueval u i x) * exp (feval f j x))
               (exp ((log_integral (multiply upd u f)).2 (i * fR f + j)%N))).
Proof. exact: product_mass_is_integral_false. Qed.
Print Assumptions C01_product_mass_needs_consistent_rank_one_factor.

Theorem C16_expected_exp_noise_is_the_integral (p : measure LR) (w : vecRF) (w0 : R) : pdf_ok p -> uR p = 1%N -> spd (Sg p 0) ->
  is_gint (uD p) (fun x => exp (dot (uD p) w x + w0) * exp (ueval p 0 x))
          (exp (w0 + dot (uD p) w (getmu p 0) + half RF * quad (uD p) (getS p 0) w)).
Proof. exact: expected_exp_noise_is_integral. Qed.
Print Assumptions C16_expected_exp_noise_is_the_integral.

Theorem C16_expected_coshm1_noise_is_the_integral (p : measure LR) (w : vecRF) (w0 : R) : pdf_ok p -> uR p = 1%N -> spd (Sg p 0) ->
  is_gint (uD p) (fun x => ((cosh (dot (uD p) w x + w0) - 1) * exp (ueval p 0 x))%coqR)
          ((exp (w0 + dot (uD p) w (getmu p 0) + half RF * quad (uD p) (getS p 0) w)
            + exp (- w0 - dot (uD p) w (getmu p 0) + half RF * quad (uD p) (getS p 0) w)) / 2 - 1)%coqR.
Proof. exact: expected_coshm1_noise_is_integral. Qed.
Print Assumptions C16_expected_coshm1_noise_is_the_integral.

Theorem C16_model_exp_noise_is_the_integral (p : measure LR) Dk (ws : nat -> vecRF) (w0s : vecRF) k :
  pdf_ok p -> uR p = 1%N -> (k < Dk)%N -> spd (Sg p 0) ->
  is_gint (uD p) (fun x => exp (dot (uD p) (ws k) x + w0s k) * exp (ueval p 0 x))
          (exp ((log_integral (multiply true p (mk_linear Dk (uD p) ws (fun j => emb LR (w0s j))))).2 k)).
Proof. exact: expected_exp_noise_model_is_integral. Qed.
Print Assumptions C16_model_exp_noise_is_the_integral.

Theorem C16_model_coshm1_noise_is_the_integral (p : measure LR) Dk (ws : nat -> vecRF) (w0s : vecRF) k :
  pdf_ok p -> uR p = 1%N -> (k < Dk)%N -> spd (Sg p 0) ->
  is_gint (uD p) (fun x => ((cosh (dot (uD p) (ws k) x + w0s k) - 1) * exp (ueval p 0 x))%coqR)
    (exp ((log_integral (multiply true p (mk_linear Dk (uD p) ws (fun j => (emb LR (w0s j) - ln2 LR)%R)))).2 k)
     + exp ((log_integral (multiply true p (mk_linear Dk (uD p) (fun j => vopp (ws j))
                                              (fun j => (emb LR (- w0s j) - ln2 LR)%R)))).2 k) - 1)%coqR.
Proof. exact: expected_coshm1_noise_model_is_integral. Qed.
Print Assumptions C16_model_coshm1_noise_is_the_integral.

Theorem C16_rbf_kernel_moment_is_the_integral upd (p : measure LR) Dk (c l : nat -> vecRF) j :
  pdf_ok p -> uR p = 1%N -> spd (Sg p 0) -> (j < Dk)%N ->
  is_gint (uD p) (fun x => exp (ueval (lrbf_kfunc LR Dk (uD p) c l) j x) * exp (ueval p 0 x))
          (exp ((log_integral (multiply upd p (factor_of_measure (lrbf_kfunc LR Dk (uD p) c l)))).2 j)).
Proof. exact: rbf_kernel_moment_is_integral. Qed.
Print Assumptions C16_rbf_kernel_moment_is_the_integral.

Theorem C16_sem_kernel_moment_is_the_integral upd (p : measure LR) Dk (w : nat -> vecRF) (w0 : vecRF) j :
  pdf_ok p -> uR p = 1%N -> spd (Sg p 0) -> (j < Dk)%N ->
  is_gint (uD p) (fun x => exp (feval (lsem_kfunc LR Dk (uD p) w w0) j x) * exp (ueval p 0 x))
          (exp ((log_integral (multiply upd p (lsem_kfunc LR Dk (uD p) w w0))).2 j)).
Proof. exact: sem_kernel_moment_is_integral. Qed.
Print Assumptions C16_sem_kernel_moment_is_the_integral.

Theorem C16_exp_link_matched_second_moment_is_the_integral (p : measure LR) Dy Da Dk (A M : matRF) (b : vecRF) (ws : nat -> vecRF) (w0s : vecRF) i j :
  pdf_ok p -> uR p = 1%N -> spd (Sg p 0) -> (i < Dy)%N -> (j < Dy)%N ->
  let Dx := uD p in
  let link := fun (x : vecRF) (k : nat) => exp (dot Dx (ws k) x + w0s k) in
  let Dint := fun k : nat => exp (w0s k + dot Dx (ws k) (getmu p 0) + half RF * quad Dx (getS p 0) (ws k)) in
  is_gint Dx (fun x => (het_Sigma Dy Da Dk A (link x) i j + (mvec Dx M x i + b i) * (mvec Dx M x j + b j)) * exp (ueval p 0 x))
          (het_Sigma_y Dy Da Dk Dx A M b (getmu p 0) (getS p 0) Dint i j
           + het_mu Dx M b (getmu p 0) i * het_mu Dx M b (getmu p 0) j).
Proof. exact: het_exp_covariance_is_integral. Qed.
Print Assumptions C16_exp_link_matched_second_moment_is_the_integral.

Theorem C16_coshm1_link_matched_second_moment_is_the_integral (p : measure LR) Dy Da Dk (A M : matRF) (b : vecRF) (ws : nat -> vecRF) (w0s : vecRF) i j :
  pdf_ok p -> uR p = 1%N -> spd (Sg p 0) -> (i < Dy)%N -> (j < Dy)%N ->
  let Dx := uD p in
  let link := fun (x : vecRF) (k : nat) => (cosh (dot Dx (ws k) x + w0s k) - 1)%coqR in
  let Dint := fun k : nat =>
    ((exp (w0s k + dot Dx (ws k) (getmu p 0) + half RF * quad Dx (getS p 0) (ws k))
      + exp (- w0s k - dot Dx (ws k) (getmu p 0) + half RF * quad Dx (getS p 0) (ws k))) / 2 - 1)%coqR in
  is_gint Dx (fun x => (het_Sigma Dy Da Dk A (link x) i j + (mvec Dx M x i + b i) * (mvec Dx M x j + b j)) * exp (ueval p 0 x))
          (het_Sigma_y Dy Da Dk Dx A M b (getmu p 0) (getS p 0) Dint i j
           + het_mu Dx M b (getmu p 0) i * het_mu Dx M b (getmu p 0) j).
Proof. exact: het_coshm1_covariance_is_integral. Qed.
Print Assumptions C16_coshm1_link_matched_second_moment_is_the_integral.
