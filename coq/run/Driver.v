(* Instantiation of the polymorphic model at exact rationals (Qc) and the executable log domain,
   literal readers and printers used by the generated cases_*.v files of the correspondence. *)
From Coq Require Import QArith Qcanon ZArith.
From mathcomp Require Import all_ssreflect all_algebra.
From GT Require Import QcField QcOrder Tensor DetExec LogDom Obj Factor Measure Pdf Cond Moments ExpLog Sample Approx FeatLog.
Set Implicit Arguments.
Unset Strict Implicit.
Unset Printing Implicit Defensive.
Local Close Scope Q_scope.
Local Close Scope Qc_scope.
Local Close Scope Z_scope.
Import GRing.Theory.
Local Open Scope ring_scope.

Notation QF := Qc_realFieldType.
Definition qv : Type := vec QF.
Definition qm : Type := mat QF.

(* literals *)
Definition lv (l : seq Qc) : vec QF := fun i => nth 0 l i.
Definition lm (l : seq (seq Qc)) : mat QF := fun i j => nth 0 (nth [::] l i) j.
Definition lb2 (l : seq (seq Qc)) : nat -> vec QF := fun r => lv (nth [::] l r).
Definition lb3 (l : seq (seq (seq Qc))) : nat -> mat QF := fun r => lm (nth [::] l r).
Definition ll (l : seq Qc) : nat -> LQ := fun r => emb LQ (nth 0 l r).
(* half log of a positive rational, e.g. a supplied log-determinant *)
Definition lh (l : seq Qc) : nat -> LQ := fun r => hln LQ (nth 1 l r).

(* printers: every value is a log-domain triple printed as 5 integers *)
Definition int2Z (c : int) : Z :=
  match c with Posz n => Z.of_nat n | Negz n => Z.opp (Z.of_nat n.+1) end.
Definition dumpL (x : LQ) : seq Z :=
  let: (a, c, r) := (x : Qc * int * nz QF) in
  [:: Qnum (this a); Zpos (Qden (this a)); int2Z c; Qnum (this (nzval r)); Zpos (Qden (this (nzval r)))].
Definition dumpF (x : Qc) : seq Z := [:: Qnum (this x); Zpos (Qden (this x)); Z0; Zpos xH; Zpos xH].
Definition dL (n : nat) (v : nat -> LQ) : seq Z := flatten [seq dumpL (v i) | i <- iota 0 n].
Definition dL2 (n : nat) (v : nat -> LQ) : seq Z := flatten [seq dumpL (v i + v i) | i <- iota 0 n].
Definition dV (n : nat) (v : vec QF) : seq Z := flatten [seq dumpF (v i) | i <- iota 0 n].
Definition dM (m n : nat) (A : mat QF) : seq Z := flatten [seq dV n (A i) | i <- iota 0 m].
Definition dB2 (R n : nat) (A : nat -> vec QF) : seq Z := flatten [seq dV n (A r) | r <- iota 0 R].
Definition dB3 (R m n : nat) (A : nat -> mat QF) : seq Z := flatten [seq dM m n (A r) | r <- iota 0 R].
Definition dnat (n : nat) : seq Z := dumpF (n%:R).
Definition dopt {T} (o : option T) : seq Z := dumpF (if o is Some _ then 1 else 0).

Notation measureQ := (measure LQ).
Notation factorQ := (factor LQ).

(* observations *)
(* evaluate_ln of every component at every point, row-major [R, N] *)
Definition obs_ueval (u : measureQ) (xs : seq (seq Qc)) : seq Z :=
  flatten [seq flatten [seq dumpL (ueval u r (lv x)) | x <- xs] | r <- iota 0 (uR u)].
Definition obs_feval (f : factorQ) (xs : seq (seq Qc)) : seq Z :=
  flatten [seq flatten [seq dumpL (feval f r (lv x)) | x <- xs] | r <- iota 0 (fR f)].
(* R, D, Lambda, nu, ln_beta *)
Definition obs_ucore (u : measureQ) : seq Z :=
  dnat (uR u) ++ dnat (uD u) ++ dB3 (uR u) (uD u) (uD u) (uLam u) ++ dB2 (uR u) (uD u) (unu u) ++ dL (uR u) (ulb u).
Definition obs_fcore (f : factorQ) : seq Z :=
  dnat (fR f) ++ dnat (fD f) ++ dB3 (fR f) (fD f) (fD f) (fLam f) ++ dB2 (fR f) (fD f) (fnu f) ++ dL (fR f) (flb f).
(* which caches are populated, then their contents: Sigma, ln_det_Sigma, ln_det_Lambda, mu, lnZ *)
Definition obs_ucache (u : measureQ) : seq Z :=
  let R := uR u in let D := uD u in
  dopt (uSig u) ++ dopt (uhldS u) ++ dopt (uhldL u) ++ dopt (umu u) ++ dopt (ulnZ u)
  ++ (if uSig u is Some Sg then dB3 R D D Sg else [::])
  ++ (if uhldS u is Some h then dL2 R h else [::])
  ++ (if uhldL u is Some h then dL2 R h else [::])
  ++ (if umu u is Some m then dB2 R D m else [::])
  ++ (if ulnZ u is Some z then dL R z else [::]).

(* conditionals *)
Notation condQ := (cond LQ).
Definition lxs (l : seq (seq Qc)) : seq (vec QF) := [seq lv x | x <- l].
Definition obs_cond (c : condQ) : seq Z :=
  let R := cR c in
  dnat R ++ dnat (cDy c) ++ dnat (cDx c) ++ dB3 R (cDy c) (cDx c) (cM c) ++ dB2 R (cDy c) (cb c)
  ++ dB3 R (cDy c) (cDy c) (cSig c) ++ dB3 R (cDy c) (cDy c) (cLam c) ++ dL2 R (chS c).
(* everything observable of a density / measure: evaluate_ln at points, core, caches *)
Definition obs_all (u : measureQ) (xs : seq (seq Qc)) : seq Z :=
  obs_ueval u xs ++ obs_ucore u ++ obs_ucache u.
Definition obs_fall (f : factorQ) (xs : seq (seq Qc)) : seq Z := obs_feval f xs ++ obs_fcore f.

(* ---- polynomial integrals (C03) ---- *)
Definition cm2 (K : nat) (l : seq (seq Qc)) : cmat QF := M2 K (lm l).
Definition cm3 (RA K : nat) (l : seq (seq (seq Qc))) : cmat QF := M3 RA K (lb3 l).
Definition cv1 (l : seq Qc) : cvec QF := V1 (lv l).
Definition cv2 (Ra : nat) (l : seq (seq Qc)) : cvec QF := V2 Ra (lb2 l).
Definition dF (x : Qc) : seq Z := dumpF x.
Definition perR (R : nat) (f : nat -> seq Z) : seq Z := flatten [seq f r | r <- iota 0 R].
(* log-mass of every component, then the expectation entries *)
Definition obs_mass (u : measureQ) : seq Z := dL (uR u) (log_mass u).

(* ---- slicing (C12) ---- *)
(* take(values, idx): negative indices wrap *)
Definition selR (R : nat) (idx : seq int) (f : nat -> seq Z) : seq Z := flatten [seq f (nidx R i) | i <- idx].
Definition idxR (R : nat) (idx : seq int) : seq nat := [seq nidx R i | i <- idx].

(* ---- sampling (C19) ---- *)
Definition lz (l : seq (seq (seq Qc))) : nat -> nat -> vec QF := fun d a => lv (nth [::] (nth [::] l d) a).
Definition obs_sample (n R D : nat) (mu : nat -> vec QF) (L : nat -> mat QF) (z : nat -> nat -> vec QF) : seq Z :=
  flatten [seq flatten [seq dV D (sample D mu L z d a) | a <- iota 0 R] | d <- iota 0 n].
Definition obs_chol (R D : nat) (L S : nat -> mat QF) : seq Z :=
  flatten [seq dumpF (if is_chol D (L a) (S a) then 1 else 0) | a <- iota 0 R].
