(* C01, "the operands are left unchanged".  `Purity.operand_stores` is REGENERATED from /repo's source on every run by
   harness/purity_extract.py: for every product / evaluation / slice method of factor.py and measure.py, the places where it
   stores into an attribute or item of one of its parameters (or of a local alias of one), calls setattr on it, or calls
   one of the library's in-place methods on it.  jax arrays are immutable, so these are the only ways an operand can change. *)
From Coq Require Import List String Bool.
Require Import Purity.
Import ListNotations.
Open Scope string_scope.

Definition pure (e : string * list string) : bool := match snd e with [] => true | _ => false end.
Theorem operands_never_stored_to : forallb pure operand_stores = true.
Proof. vm_compute. reflexivity. Qed.
(* non-vacuity: the analysis saw the methods of all four factor kinds and of the measure classes *)
Theorem purity_methods_seen : Nat.leb 20 (List.length operand_stores) = true.
Proof. vm_compute. reflexivity. Qed.
(* C12: every `slice` method hands back a freshly constructed object (never `self` or an operand), so that a later in-place
   update of the slice or of its source cannot reach the other *)
Theorem slices_return_fresh_objects : forallb pure slice_not_fresh = true.
Proof. vm_compute. reflexivity. Qed.
Theorem slice_methods_seen : Nat.leb 8 (List.length slice_not_fresh) = true.
Proof. vm_compute. reflexivity. Qed.
Print Assumptions operands_never_stored_to.
Print Assumptions slices_return_fresh_objects.
