(* C18, schema theorems.  `Schema` is REGENERATED from /repo's source on every run by
   harness/schema_extract.py; this file is re-checked against it.  The domains are finite (the
   classes of the library), so each statement is decided by computation (forallb ... = true). *)
From Coq Require Import List String Bool.
Require Import Schema.
Import ListNotations.
Open Scope string_scope.

Definition mem (s : string) (l : list string) : bool := existsb (String.eqb s) l.
Definition fieldnames (c : cls) : list string := map fst (cfields c).
Definition initnames (c : cls) : list string := map fst (filter snd (cfields c)).
(* the keys handed to the constructor by unflatten: what flatten exported *)
Definition exported (c : cls) : list string :=
  let all := app (fieldnames c) (cattrs c) in
  if flatten_fields_only then filter (fun k => mem k (fieldnames c)) all else all.

(* tree_unflatten never raises "unexpected kwargs": every exported key is a declared field
   (utils/dataclass.py new_init rejects anything else) *)
Theorem unflatten_total :
  forallb (fun c => forallb (fun k => mem k (fieldnames c)) (exported c)) classes = true.
Proof. vm_compute. reflexivity. Qed.

(* flatten does not call an API that the pinned jax no longer has *)
Theorem flatten_available : uses_removed_unzip2 = false.
Proof. reflexivity. Qed.

(* from_dict(to_dict()) never raises: every key written by to_dict is a constructor (init) field *)
Theorem dict_keys_are_init_fields :
  forallb (fun c => match cdict c with None => true | Some ks => forallb (fun k => mem k (initnames c)) ks end) classes = true.
Proof. vm_compute. reflexivity. Qed.

(* every class of the library that the property names is present in the schema (the translator did not lose one) *)
Theorem classes_present :
  forallb (fun n => existsb (fun c => String.eqb n (cname c)) classes)
    ["ConjugateFactor"; "OneRankFactor"; "LinearFactor"; "ConstantFactor"; "GaussianMeasure"; "GaussianDiagMeasure";
     "GaussianPDF"; "GaussianDiagPDF"; "ConditionalGaussianPDF"; "ConditionalGaussianDiagPDF";
     "NNControlGaussianConditional"; "ConditionalIdentityGaussianPDF"; "ConditionalIdentityDiagGaussianPDF"] = true.
Proof. vm_compute. reflexivity. Qed.

Print Assumptions unflatten_total.
Print Assumptions flatten_available.
Print Assumptions dict_keys_are_init_fields.
Print Assumptions classes_present.

(* trace safety of control flow: every if / while / conditional expression / assert of the library's numerical code is decided
   by None-ness, shapes, the integer size attributes, boolean keyword flags, isinstance or literals -- never by the value of
   an array (a tracer under jit / vmap / grad).  `tests` is regenerated from the source; an expression the translator
   cannot classify is TOther and makes the theorem fail. *)
Fixpoint is_static (e : texpr) : bool :=
  match e with
  | TNone | TConst | TDim | TFlag _ => true
  | TNot e' => is_static e'
  | TAnd l | TCmp l => forallb is_static l
  | TOther _ => false
  end.
Theorem control_flow_static : forallb (fun t => is_static (snd t)) tests = true.
Proof. vm_compute. reflexivity. Qed.
(* non-vacuity: the analysis saw the library's control flow *)
Theorem control_flow_seen : Nat.leb 100 (List.length tests) = true.
Proof. vm_compute. reflexivity. Qed.
Print Assumptions control_flow_static.
