(* C16 / C17 -- the expected step and rectified-linear noise, and the step-link bound term, as Riemann integrals over
   Coq's real numbers.  For a pre-activation h = w'x + w0 ~ N(m, s^2) under p(x) (C05: m = w'mu + w0, s^2 = w'Sigma w)
   the library takes truncated-measure integrals over [0, oo) (model trunc/TruncGen.v):
     step link        E[1(h >= 0)]  = int_1 (Some 0) None          ReLU link   E[max(h,0)] = int_x (Some 0) None
     step bound term  E[1(h >= 0) ((c0 + c1 h)^2 + v)]  (g | h ~ N(c0 + c1 h, v): the projected residual given h)
   Each is the limit b -> oo of the Riemann integral over [0, b] against the N(m, s^2) density.  Property theorems only;
   proofs in trunc/C16R_proofs.v.  PhiR: any function whose increments are integrals of the standard normal pdf with
   limit 1 at +oo (satisfiable: C20_cdf_like_exists). *)
From Coq Require Import Reals Lra Lia List.
From Coquelicot Require Import Coquelicot.
From GT Require Import TruncGen C20_proofs C20 C16R_proofs.
Open Scope R_scope.

Theorem C16_step_noise PhiR (H : cdf_like PhiR) (Hp : is_lim PhiR p_infty 1) m s : 0 < s ->
  is_lim (fun b => RInt (dens m s) 0 b) p_infty (int_1 R (Rops PhiR) m s (Some 0) None).
Proof. exact (C16R_proofs.C16_step_noise PhiR H Hp m s). Qed.
Theorem C16_relu_noise PhiR (H : cdf_like PhiR) (Hp : is_lim PhiR p_infty 1) m s : 0 < s ->
  is_lim (fun b => RInt (fun h => h * dens m s h) 0 b) p_infty (int_x R (Rops PhiR) m s (Some 0) None).
Proof. exact (C16R_proofs.C16_relu_noise PhiR H Hp m s). Qed.
Theorem C16_second_moment_half_line PhiR (H : cdf_like PhiR) (Hp : is_lim PhiR p_infty 1) m s : 0 < s ->
  is_lim (fun b => RInt (fun h => h ^ 2 * dens m s h) 0 b) p_infty (int_x2 R (Rops PhiR) m s (Some 0) None).
Proof. exact (C16R_proofs.C16_second_moment_half_line_fixed PhiR H Hp m s). Qed.
(* closed forms: 1 - Phi(-m/s)  and  m (1 - Phi(-m/s)) + s phi(-m/s) *)
Theorem C16_step_noise_closed_form PhiR m s : int_1 R (Rops PhiR) m s (Some 0) None = 1 - PhiR ((0 - m) / s).
Proof. exact (C16R_proofs.C16_step_noise_closed_form PhiR m s). Qed.
Theorem C16_relu_noise_closed_form PhiR (H : cdf_like PhiR) (Hp : is_lim PhiR p_infty 1) m s : 0 < s ->
  int_x R (Rops PhiR) m s (Some 0) None = m * (1 - PhiR ((0 - m) / s)) + s * phiR ((0 - m) / s).
Proof. exact (C16R_proofs.C16_relu_noise_closed_form PhiR H Hp m s). Qed.
(* C17, step link: the heteroscedastic term of the bound is an exact expectation *)
Theorem C17_step_bound_term PhiR (H : cdf_like PhiR) (Hp : is_lim PhiR p_infty 1) m s c0 c1 v : 0 < s ->
  is_lim (fun b => RInt (fun h => ((c0 + c1 * h) ^ 2 + v) * dens m s h) 0 b) p_infty
         (int_1 R (Rops PhiR) m s (Some 0) None * c0 ^ 2 + int_x2 R (Rops PhiR) m s (Some 0) None * c1 ^ 2
          + 2 * int_x R (Rops PhiR) m s (Some 0) None * c1 * c0 + int_1 R (Rops PhiR) m s (Some 0) None * v).
Proof. exact (C16R_proofs.C17_step_bound_term PhiR H Hp m s c0 c1 v). Qed.

(* cosh-1 link: the two log-domain terms proved in props/C16.v (C16_expected_cosh_noise: exponents +-(w0 + w'mu) + w'Sigma w/2 - ln 2) sum to
   the closed form of E[cosh h - 1] *)
Theorem C16_cosh_noise_closed_form (m v : R) : exp (m + v / 2) / 2 + exp (- m + v / 2) / 2 - 1 = exp (v / 2) * cosh m - 1.
Proof. exact (cosh_noise_closed_form m v). Qed.

Print Assumptions C16_cosh_noise_closed_form.
Print Assumptions C16_step_noise.
Print Assumptions C16_relu_noise.
Print Assumptions C16_second_moment_half_line.
Print Assumptions C16_step_noise_closed_form.
Print Assumptions C16_relu_noise_closed_form.
Print Assumptions C17_step_bound_term.
