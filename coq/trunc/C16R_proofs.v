(* C16 / C17 (step link, rectified-linear link, step-link bound term) over the real numbers:
   the values the library obtains from TruncatedGaussianMeasure(N(m, s^2), lower = 0, upper = inf)
   (trunc/TruncGen.v at R) are the improper Riemann integrals over [0, inf) of
   1, h, h^2 and ((c0 + c1 h)^2 + v) against the density of N(m, s^2). *)
From Coq Require Import Reals Lra Lia List.
From Coquelicot Require Import Coquelicot.
From GT Require Import TruncGen C20_proofs C20.
Open Scope R_scope.

(* ---------- continuity / integrability of x^k N(x; m, s^2) (any s) ---------- *)

Lemma cont_xk_dens m s k x : continuous (fun x => x ^ k * dens m s x) x.
Proof.
unfold dens, phiR. generalize (sqrt (2 * PI)). intros c.
apply (ex_derive_continuous
         (fun x => x ^ k * (exp (- ((x - m) / s * ((x - m) / s)) / 2) / c / s))).
auto_derive; auto.
Qed.

Lemma exI_xk_dens m s k a b : ex_RInt (fun x => x ^ k * dens m s x) a b.
Proof. apply (@ex_RInt_continuous R_CompleteNormedModule). intros x _. apply cont_xk_dens. Qed.

Lemma exI_dens m s a b : ex_RInt (dens m s) a b.
Proof.
apply (ex_RInt_ext (fun x => x ^ 0 * dens m s x)). { intros; simpl; ring. }
apply exI_xk_dens.
Qed.

Lemma exI_x_dens m s a b : ex_RInt (fun x => x * dens m s x) a b.
Proof.
apply (ex_RInt_ext (fun x => x ^ 1 * dens m s x)). { intros; simpl; ring. }
apply exI_xk_dens.
Qed.

(* a linear combination of three limits, in the shape of the bound term *)
Lemma is_lim_comb (f0 f1 f2 : R -> R) (x : Rbar) (l0 l1 l2 a b c d e : R) :
  is_lim f0 x l0 -> is_lim f1 x l1 -> is_lim f2 x l2 ->
  is_lim (fun y => f0 y * a + f2 y * b + 2 * f1 y * c * d + f0 y * e) x
         (l0 * a + l2 * b + 2 * l1 * c * d + l0 * e).
Proof.
intros H0 H1 H2.
apply (is_lim_ext (fun y => a * f0 y + (b * f2 y + ((2 * c * d) * f1 y + e * f0 y)))).
{ intros y. ring. }
replace (Finite (l0 * a + l2 * b + 2 * l1 * c * d + l0 * e))
  with (Finite (a * l0 + (b * l2 + ((2 * c * d) * l1 + e * l0)))) by (f_equal; ring).
apply is_lim_plus'; [ apply (is_lim_scal_l f0 a x l0); auto | ].
apply is_lim_plus'; [ apply (is_lim_scal_l f2 b x l2); auto | ].
apply is_lim_plus'; [ apply (is_lim_scal_l f1 (2 * c * d) x l1); auto | ].
apply (is_lim_scal_l f0 e x l0); auto.
Qed.

Section HalfLine.
Variable PhiR : R -> R.
Hypothesis H : cdf_like PhiR.
Hypothesis Hp : is_lim PhiR p_infty 1.
Variables m s : R.

Notation al := ((0 - m) / s).

(* ---------- closed forms of the model values with limits (Some 0, None) ---------- *)

Lemma Z_half : Zc R (Rops PhiR) m s (Some 0) None = 1 - PhiR al.
Proof. reflexivity. Qed.

Lemma Z_half_neq : 1 - PhiR al <> 0.
Proof. generalize (PhiR_lt_1 PhiR H Hp al). lra. Qed.

Lemma int_1_half : int_1 R (Rops PhiR) m s (Some 0) None = 1 - PhiR al.
Proof. reflexivity. Qed.

Lemma int_x_half :
  int_x R (Rops PhiR) m s (Some 0) None = m * (1 - PhiR al) + s * phiR al.
Proof.
pose proof Z_half_neq as HZ.
unfold int_x, E_x. rewrite Z_half. rewrite (eqb_false PhiR) by auto.
cbn [phiAt std TruncGen.add TruncGen.opp TruncGen.div TruncGen.sub TruncGen.mul TruncGen.zero
     TruncGen.phi Rops].
set (t := (0 - m) / s) in *. clearbody t. field. auto.
Qed.

Lemma int_x2_half :
  int_x2 R (Rops PhiR) m s (Some 0) None
  = (m * m + s * s) * (1 - PhiR al) + 2 * m * s * phiR al + s * s * (al * phiR al).
Proof.
pose proof Z_half_neq as HZ.
unfold int_x2, Var, E_x. rewrite Z_half. rewrite (eqb_false PhiR) by auto.
rewrite xkphi_some.
cbn [xkphi phiAt std TruncGen.add TruncGen.opp TruncGen.div TruncGen.sub TruncGen.mul TruncGen.zero
     TruncGen.one TruncGen.phi Rops].
rewrite pow_1. set (t := (0 - m) / s) in *. clearbody t. field. auto.
Qed.

Hypothesis Hs : 0 < s.

(* ---------- the three elementary limits ---------- *)

Lemma lim_I0 : is_lim (fun b => RInt phiR al ((b - m) / s)) p_infty (1 - PhiR al).
Proof.
apply (is_lim_std_p (fun be => RInt phiR al be)); auto.
apply (is_lim_ext (fun be => PhiR be - PhiR al)). { intros be. apply H. }
apply is_lim_minus'; auto. apply is_lim_const.
Qed.

Lemma lim_phi : is_lim (fun b => phiR ((b - m) / s)) p_infty 0.
Proof.
apply (is_lim_std_p phiR); auto.
apply (is_lim_ext (fun x => x ^ 0 * phiR x)); [intros; simpl; ring | apply lim_xn_phiR_p].
Qed.

Lemma lim_xphi : is_lim (fun b => (b - m) / s * phiR ((b - m) / s)) p_infty 0.
Proof.
apply (is_lim_std_p (fun t => t * phiR t)); auto.
apply (is_lim_ext (fun x => x ^ 1 * phiR x)); [intros; simpl; ring | apply lim_xn_phiR_p].
Qed.

(* ---------- limits of the three integrals ---------- *)

Lemma lim_int_dens :
  is_lim (fun b => RInt (dens m s) 0 b) p_infty (int_1 R (Rops PhiR) m s (Some 0) None).
Proof.
rewrite int_1_half.
apply (is_lim_ext (fun b => RInt phiR al ((b - m) / s))).
{ intros b. rewrite RInt_dens; auto. }
apply lim_I0.
Qed.

Lemma lim_int_x_dens :
  is_lim (fun b => RInt (fun h => h * dens m s h) 0 b) p_infty (int_x R (Rops PhiR) m s (Some 0) None).
Proof.
rewrite int_x_half.
apply (is_lim_ext (fun b => m * RInt phiR al ((b - m) / s) + s * (phiR al - phiR ((b - m) / s)))).
{ intros b. rewrite RInt_x_dens; auto. }
replace (Finite (m * (1 - PhiR al) + s * phiR al))
  with (Finite (m * (1 - PhiR al) + s * (phiR al - 0))) by (f_equal; ring).
apply is_lim_plus'.
- apply (is_lim_scal_l (fun b => RInt phiR al ((b - m) / s)) m p_infty (1 - PhiR al)). apply lim_I0.
- apply (is_lim_scal_l (fun b => phiR al - phiR ((b - m) / s)) s p_infty (phiR al - 0)).
  apply is_lim_minus'; [apply is_lim_const | apply lim_phi].
Qed.

Lemma lim_int_x2_dens :
  is_lim (fun b => RInt (fun h => h ^ 2 * dens m s h) 0 b) p_infty (int_x2 R (Rops PhiR) m s (Some 0) None).
Proof.
rewrite int_x2_half.
apply (is_lim_ext (fun b => (m * m + s * s) * RInt phiR al ((b - m) / s)
                            + ((2 * m * s) * (phiR al - phiR ((b - m) / s))
                               + (- (s * s)) * ((b - m) / s * phiR ((b - m) / s) - al * phiR al)))).
{ intros b. rewrite RInt_x2_dens; auto. ring. }
replace (Finite ((m * m + s * s) * (1 - PhiR al) + 2 * m * s * phiR al + s * s * (al * phiR al)))
  with (Finite ((m * m + s * s) * (1 - PhiR al)
                + ((2 * m * s) * (phiR al - 0) + (- (s * s)) * (0 - al * phiR al)))) by (f_equal; ring).
apply is_lim_plus'.
- apply (is_lim_scal_l (fun b => RInt phiR al ((b - m) / s)) (m * m + s * s) p_infty (1 - PhiR al)).
  apply lim_I0.
- apply is_lim_plus'.
  + apply (is_lim_scal_l (fun b => phiR al - phiR ((b - m) / s)) (2 * m * s) p_infty (phiR al - 0)).
    apply is_lim_minus'; [apply is_lim_const | apply lim_phi].
  + apply (is_lim_scal_l (fun b => (b - m) / s * phiR ((b - m) / s) - al * phiR al) (- (s * s)) p_infty
                         (0 - al * phiR al)).
    apply is_lim_minus'; [apply lim_xphi | apply is_lim_const].
Qed.

End HalfLine.

(* linearity of the integral of the bound-term integrand on [0, b] (any s, any b) *)
Lemma RInt_bound_term m s c0 c1 v a b :
  RInt (fun h => ((c0 + c1 * h) ^ 2 + v) * dens m s h) a b
  = RInt (dens m s) a b * c0 ^ 2 + RInt (fun h => h ^ 2 * dens m s h) a b * c1 ^ 2
    + 2 * RInt (fun h => h * dens m s h) a b * c1 * c0 + RInt (dens m s) a b * v.
Proof.
pose proof (RInt_correct _ _ _ (exI_dens m s a b)) as I0.
pose proof (RInt_correct _ _ _ (exI_x_dens m s a b)) as I1.
pose proof (RInt_correct _ _ _ (exI_xk_dens m s 2 a b)) as I2.
set (i0 := RInt (dens m s) a b) in *.
set (i1 := RInt (fun x => x * dens m s x) a b) in *.
set (i2 := RInt (fun x => x ^ 2 * dens m s x) a b) in *.
apply is_RInt_unique.
apply (is_RInt_ext (fun h => plus (plus (plus (scal (c0 ^ 2) (dens m s h)) (scal (c1 ^ 2) (h ^ 2 * dens m s h)))
                                        (scal (2 * c1 * c0) (h * dens m s h)))
                                  (scal v (dens m s h)))).
{ intros h _. unfold plus, scal; simpl; unfold mult; simpl. ring. }
replace (i0 * c0 ^ 2 + i2 * c1 ^ 2 + 2 * i1 * c1 * c0 + i0 * v)
  with (plus (plus (plus (scal (c0 ^ 2) i0) (scal (c1 ^ 2) i2)) (scal (2 * c1 * c0) i1)) (scal v i0)).
2:{ unfold plus, scal; simpl; unfold mult; simpl. ring. }
apply (@is_RInt_plus R_NormedModule); [ | apply (@is_RInt_scal R_NormedModule); exact I0 ].
apply (@is_RInt_plus R_NormedModule); [ | apply (@is_RInt_scal R_NormedModule); exact I1 ].
apply (@is_RInt_plus R_NormedModule); apply (@is_RInt_scal R_NormedModule); [ exact I0 | exact I2 ].
Qed.

(* ==================== the theorems ==================== *)

(* 1. step link: E[1(h >= 0)], h ~ N(m, s^2) *)
Theorem C16_step_noise PhiR (H : cdf_like PhiR) (Hp : is_lim PhiR p_infty 1) m s : 0 < s ->
  is_lim (fun b => RInt (dens m s) 0 b) p_infty (int_1 R (Rops PhiR) m s (Some 0) None).
Proof. intros Hs. apply lim_int_dens; auto. Qed.

(* 2. rectified-linear link: E[max(h, 0)] *)
Theorem C16_relu_noise PhiR (H : cdf_like PhiR) (Hp : is_lim PhiR p_infty 1) m s : 0 < s ->
  is_lim (fun b => RInt (fun h => h * dens m s h) 0 b) p_infty (int_x R (Rops PhiR) m s (Some 0) None).
Proof. intros Hs. apply lim_int_x_dens; auto. Qed.

(* 3. E[1(h >= 0) h^2].
   The task's statement 3 carries no hypothesis on s.  Without `0 < s` it is FALSE: at s = 0 the real-number
   density `dens m 0` is identically 0 (division by zero is 0 in Coq's reals), so every integral is 0,
   while the model value is (Var + E_x^2) * Zc = (0 + m^2) * (1 - PhiR 0), which is not 0 when m <> 0
   (1 - PhiR 0 > 0).  (For s < 0 it also fails: dens m s is then negative.)  The counterexample is proved
   below; the nearest true statement adds `0 < s`, exactly as in statements 1, 2 and 5. *)
Theorem C16_second_moment_half_line_fixed PhiR (H : cdf_like PhiR) (Hp : is_lim PhiR p_infty 1) m s : 0 < s ->
  is_lim (fun b => RInt (fun h => h ^ 2 * dens m s h) 0 b) p_infty (int_x2 R (Rops PhiR) m s (Some 0) None).
Proof. intros Hs. apply lim_int_x2_dens; auto. Qed.

Lemma dens_s0 m x : dens m 0 x = 0.
Proof. unfold dens, Rdiv. rewrite Rinv_0. ring. Qed.

Theorem C16_second_moment_half_line_unfixed_is_false PhiR (H : cdf_like PhiR) (Hp : is_lim PhiR p_infty 1) :
  ~ (forall m s, is_lim (fun b => RInt (fun h => h ^ 2 * dens m s h) 0 b) p_infty
                        (int_x2 R (Rops PhiR) m s (Some 0) None)).
Proof.
intros A. specialize (A 1 0).
rewrite (int_x2_half PhiR H Hp) in A.
assert (B : is_lim (fun b => RInt (fun h => h ^ 2 * dens 1 0 h) 0 b) p_infty 0).
{ apply (is_lim_ext (fun _ => 0)); [ | apply is_lim_const].
  intros b. rewrite (RInt_ext _ (fun _ => 0)).
  - rewrite RInt_const. unfold scal; simpl; unfold mult; simpl. ring.
  - intros x _. rewrite dens_s0. match goal with |- ?l = ?r => change (@eq R l r) end. ring. }
pose proof (is_lim_unique _ _ _ A) as EA. pose proof (is_lim_unique _ _ _ B) as EB.
rewrite EA in EB. injection EB as E.
generalize (PhiR_lt_1 PhiR H Hp ((0 - 1) / 0)). lra.
Qed.

(* 4. closed forms *)
Theorem C16_step_noise_closed_form PhiR m s :
  int_1 R (Rops PhiR) m s (Some 0) None = 1 - PhiR ((0 - m) / s).
Proof. reflexivity. Qed.

Theorem C16_relu_noise_closed_form PhiR (H : cdf_like PhiR) (Hp : is_lim PhiR p_infty 1) m s : 0 < s ->
  int_x R (Rops PhiR) m s (Some 0) None = m * (1 - PhiR ((0 - m) / s)) + s * phiR ((0 - m) / s).
Proof. intros _. apply int_x_half; auto. Qed.

Theorem C16_second_moment_closed_form PhiR (H : cdf_like PhiR) (Hp : is_lim PhiR p_infty 1) m s :
  int_x2 R (Rops PhiR) m s (Some 0) None
  = (m * m + s * s) * (1 - PhiR ((0 - m) / s)) + 2 * m * s * phiR ((0 - m) / s)
    + s * s * ((0 - m) / s * phiR ((0 - m) / s)).
Proof. apply int_x2_half; auto. Qed.

(* 5. step-link bound term: E[1(h >= 0) ((c0 + c1 h)^2 + v)] (twice the term in the bound) *)
Theorem C17_step_bound_term PhiR (H : cdf_like PhiR) (Hp : is_lim PhiR p_infty 1) m s c0 c1 v : 0 < s ->
  is_lim (fun b => RInt (fun h => ((c0 + c1 * h) ^ 2 + v) * dens m s h) 0 b) p_infty
         (int_1 R (Rops PhiR) m s (Some 0) None * c0 ^ 2 + int_x2 R (Rops PhiR) m s (Some 0) None * c1 ^ 2
          + 2 * int_x R (Rops PhiR) m s (Some 0) None * c1 * c0 + int_1 R (Rops PhiR) m s (Some 0) None * v).
Proof.
intros Hs.
apply (is_lim_ext (fun b => RInt (dens m s) 0 b * c0 ^ 2 + RInt (fun h => h ^ 2 * dens m s h) 0 b * c1 ^ 2
                            + 2 * RInt (fun h => h * dens m s h) 0 b * c1 * c0 + RInt (dens m s) 0 b * v)).
{ intros b. symmetry. apply RInt_bound_term. }
apply (is_lim_comb (fun b => RInt (dens m s) 0 b) (fun b => RInt (fun h => h * dens m s h) 0 b)
                   (fun b => RInt (fun h => h ^ 2 * dens m s h) 0 b)).
- apply lim_int_dens; auto.
- apply lim_int_x_dens; auto.
- apply lim_int_x2_dens; auto.
Qed.










(* cosh-1 link: the two exponential terms of the code (C16_expected_cosh_noise, props/C16.v) add up to the closed form
   E[cosh h - 1] = exp(v/2) cosh m - 1 for h ~ N(m, v) *)
Lemma cosh_noise_closed_form (m v : R) : exp (m + v / 2) / 2 + exp (- m + v / 2) / 2 - 1 = exp (v / 2) * cosh m - 1.
Proof. unfold cosh. rewrite !exp_plus. field. Qed.
