(* C17 -- from the pointwise inequality to the Gaussian expectation, for a ONE-dimensional input x (genuine Riemann integrals,
   Coquelicot): q0, the projected residuals g_i and the pre-activations h_i are arbitrary functions of x, the variational
   parameters are constants.  On every interval [a, b] and on the whole line (improper integral), the expectation of the bound
   integrand under N(mu, s^2) is at most the expectation of the true log-density; non-vacuity: for a concrete one-unit model the
   integrability hypotheses hold on every interval (the ReLU bound integrand is only piecewise continuous).  Proofs: trunc/MonoR.v.
   Input of ANY dimension D (trunc/MonoND.v): the same inequality for the iterated improper Riemann integral `is_gint` over R^D
   (trunc/GaussND.v, where the multivariate Gaussian integral formula is proved for it) against any non-negative weight, in
   particular an unnormalised Gaussian density exp (quadR D L nu x + c).
   NOT proved: the existence of the improper integrals of the bound integrands (hypotheses of the whole-line / R^D versions). *)
From Coq Require Import Reals Lra Lia List.
From Coquelicot Require Import Coquelicot.
From GT Require Import TruncGen C20_proofs GaussInt GaussND HetBoundR HetGapR C17R MonoR MonoND.
Open Scope R_scope.

Theorem C17_exp_bound_expectation_1d (q0 : R -> R) ld0 c (us : list unitf) mu s lf lg : 0 < s ->
  List.Forall (fun u => 0 < fws u /\ 0 < fwd u) us ->
  is_RInt_gen (fun x => logp_lb sLB_exp ldUB_exp (q0 x) ld0 c (map (at_x x) us) * dens mu s x)
              (Rbar_locally m_infty) (Rbar_locally p_infty) lf ->
  is_RInt_gen (fun x => logp link_exp (q0 x) ld0 c (map (at_x x) us) * dens mu s x)
              (Rbar_locally m_infty) (Rbar_locally p_infty) lg ->
  lf <= lg.
Proof. exact (mono_exp_bound_expectation_1d q0 ld0 c us mu s lf lg). Qed.
Print Assumptions C17_exp_bound_expectation_1d.

Theorem C17_coshm1_bound_expectation_1d (q0 : R -> R) ld0 c (us : list unitf) mu s lf lg : 0 < s ->
  List.Forall (fun u => 0 < fws u /\ 0 < fwd u) us ->
  is_RInt_gen (fun x => logp_lb sLB_cosh ldUB_cosh (q0 x) ld0 c (map (at_x x) us) * dens mu s x)
              (Rbar_locally m_infty) (Rbar_locally p_infty) lf ->
  is_RInt_gen (fun x => logp link_coshm1 (q0 x) ld0 c (map (at_x x) us) * dens mu s x)
              (Rbar_locally m_infty) (Rbar_locally p_infty) lg ->
  lf <= lg.
Proof. exact (mono_coshm1_bound_expectation_1d q0 ld0 c us mu s lf lg). Qed.
Print Assumptions C17_coshm1_bound_expectation_1d.

Theorem C17_relu_bound_expectation_1d (q0 : R -> R) ld0 c (us : list unitf) mu s lf lg : 0 < s ->
  List.Forall (fun u => 0 <= fws u /\ 0 <= fwd u) us ->
  is_RInt_gen (fun x => logp_lb sLB_relu ldUB_relu (q0 x) ld0 c (map (at_x x) us) * dens mu s x)
              (Rbar_locally m_infty) (Rbar_locally p_infty) lf ->
  is_RInt_gen (fun x => logp link_relu (q0 x) ld0 c (map (at_x x) us) * dens mu s x)
              (Rbar_locally m_infty) (Rbar_locally p_infty) lg ->
  lf <= lg.
Proof. exact (mono_relu_bound_expectation_1d q0 ld0 c us mu s lf lg). Qed.
Print Assumptions C17_relu_bound_expectation_1d.

Theorem C17_exp_bound_expectation_interval_1d (q0 : R -> R) ld0 c (us : list unitf) mu s a b : 0 < s -> a <= b ->
  List.Forall (fun u => 0 < fws u /\ 0 < fwd u) us ->
  ex_RInt (fun x => logp_lb sLB_exp ldUB_exp (q0 x) ld0 c (map (at_x x) us) * dens mu s x) a b ->
  ex_RInt (fun x => logp link_exp (q0 x) ld0 c (map (at_x x) us) * dens mu s x) a b ->
  RInt (fun x => logp_lb sLB_exp ldUB_exp (q0 x) ld0 c (map (at_x x) us) * dens mu s x) a b
  <= RInt (fun x => logp link_exp (q0 x) ld0 c (map (at_x x) us) * dens mu s x) a b.
Proof. exact (mono_exp_bound_expectation_interval_1d q0 ld0 c us mu s a b). Qed.
Print Assumptions C17_exp_bound_expectation_interval_1d.

Theorem C17_coshm1_bound_expectation_interval_1d (q0 : R -> R) ld0 c (us : list unitf) mu s a b : 0 < s -> a <= b ->
  List.Forall (fun u => 0 < fws u /\ 0 < fwd u) us ->
  ex_RInt (fun x => logp_lb sLB_cosh ldUB_cosh (q0 x) ld0 c (map (at_x x) us) * dens mu s x) a b ->
  ex_RInt (fun x => logp link_coshm1 (q0 x) ld0 c (map (at_x x) us) * dens mu s x) a b ->
  RInt (fun x => logp_lb sLB_cosh ldUB_cosh (q0 x) ld0 c (map (at_x x) us) * dens mu s x) a b
  <= RInt (fun x => logp link_coshm1 (q0 x) ld0 c (map (at_x x) us) * dens mu s x) a b.
Proof. exact (mono_coshm1_bound_expectation_interval_1d q0 ld0 c us mu s a b). Qed.
Print Assumptions C17_coshm1_bound_expectation_interval_1d.

Theorem C17_relu_bound_expectation_interval_1d (q0 : R -> R) ld0 c (us : list unitf) mu s a b : 0 < s -> a <= b ->
  List.Forall (fun u => 0 <= fws u /\ 0 <= fwd u) us ->
  ex_RInt (fun x => logp_lb sLB_relu ldUB_relu (q0 x) ld0 c (map (at_x x) us) * dens mu s x) a b ->
  ex_RInt (fun x => logp link_relu (q0 x) ld0 c (map (at_x x) us) * dens mu s x) a b ->
  RInt (fun x => logp_lb sLB_relu ldUB_relu (q0 x) ld0 c (map (at_x x) us) * dens mu s x) a b
  <= RInt (fun x => logp link_relu (q0 x) ld0 c (map (at_x x) us) * dens mu s x) a b.
Proof. exact (mono_relu_bound_expectation_interval_1d q0 ld0 c us mu s a b). Qed.
Print Assumptions C17_relu_bound_expectation_interval_1d.

Theorem C17_exp_bound_expectation_example ld0 c ws wd mu s a b : 0 < s -> a <= b -> 0 < ws -> 0 < wd ->
  RInt (fun x => logp_lb sLB_exp ldUB_exp (ex_q0 x) ld0 c (map (at_x x) (ex_units ws wd)) * dens mu s x) a b
  <= RInt (fun x => logp link_exp (ex_q0 x) ld0 c (map (at_x x) (ex_units ws wd)) * dens mu s x) a b.
Proof. exact (mono_exp_bound_expectation_example ld0 c ws wd mu s a b). Qed.
Print Assumptions C17_exp_bound_expectation_example.

Theorem C17_coshm1_bound_expectation_example ld0 c ws wd mu s a b : 0 < s -> a <= b -> 0 < ws -> 0 < wd ->
  RInt (fun x => logp_lb sLB_cosh ldUB_cosh (ex_q0 x) ld0 c (map (at_x x) (ex_units ws wd)) * dens mu s x) a b
  <= RInt (fun x => logp link_coshm1 (ex_q0 x) ld0 c (map (at_x x) (ex_units ws wd)) * dens mu s x) a b.
Proof. exact (mono_coshm1_bound_expectation_example ld0 c ws wd mu s a b). Qed.
Print Assumptions C17_coshm1_bound_expectation_example.

Theorem C17_relu_bound_expectation_example ld0 c ws wd mu s a b : 0 < s -> a <= b -> 0 <= ws -> 0 <= wd ->
  RInt (fun x => logp_lb sLB_relu ldUB_relu (ex_q0 x) ld0 c (map (at_x x) (ex_units ws wd)) * dens mu s x) a b
  <= RInt (fun x => logp link_relu (ex_q0 x) ld0 c (map (at_x x) (ex_units ws wd)) * dens mu s x) a b.
Proof. exact (mono_relu_bound_expectation_example ld0 c ws wd mu s a b). Qed.
Print Assumptions C17_relu_bound_expectation_example.

(* ---- any input dimension: iterated improper Riemann integrals over R^D ---- *)
Theorem C17_exp_bound_expectation_nd D (q0 : vecR -> R) ld0 c (us : list unitv) (p : vecR -> R) lf lg :
  (forall x, 0 <= p x) -> List.Forall (fun u => 0 < vws u /\ 0 < vwd u) us ->
  is_gint D (fun x => logp_lb sLB_exp ldUB_exp (q0 x) ld0 c (map (at_v x) us) * p x) lf ->
  is_gint D (fun x => logp link_exp (q0 x) ld0 c (map (at_v x) us) * p x) lg -> lf <= lg.
Proof. exact (mono_exp_bound_expectation_nd D q0 ld0 c us p lf lg). Qed.
Print Assumptions C17_exp_bound_expectation_nd.

Theorem C17_coshm1_bound_expectation_nd D (q0 : vecR -> R) ld0 c (us : list unitv) (p : vecR -> R) lf lg :
  (forall x, 0 <= p x) -> List.Forall (fun u => 0 < vws u /\ 0 < vwd u) us ->
  is_gint D (fun x => logp_lb sLB_cosh ldUB_cosh (q0 x) ld0 c (map (at_v x) us) * p x) lf ->
  is_gint D (fun x => logp link_coshm1 (q0 x) ld0 c (map (at_v x) us) * p x) lg -> lf <= lg.
Proof. exact (mono_coshm1_bound_expectation_nd D q0 ld0 c us p lf lg). Qed.
Print Assumptions C17_coshm1_bound_expectation_nd.

Theorem C17_relu_bound_expectation_nd D (q0 : vecR -> R) ld0 c (us : list unitv) (p : vecR -> R) lf lg :
  (forall x, 0 <= p x) -> List.Forall (fun u => 0 <= vws u /\ 0 <= vwd u) us ->
  is_gint D (fun x => logp_lb sLB_relu ldUB_relu (q0 x) ld0 c (map (at_v x) us) * p x) lf ->
  is_gint D (fun x => logp link_relu (q0 x) ld0 c (map (at_v x) us) * p x) lg -> lf <= lg.
Proof. exact (mono_relu_bound_expectation_nd D q0 ld0 c us p lf lg). Qed.
Print Assumptions C17_relu_bound_expectation_nd.

(* the Gaussian weight: non-negative, and its own integral over R^D exists with the closed form (gauss_nd) *)
Theorem C17_gaussian_weight D L nu c : symR D L -> gpivR D L ->
  (forall x, 0 <= exp (quadR D L nu x + c)) /\ is_gint D (fun x => exp (quadR D L nu x + c)) (exp (gvalR D L nu + c)).
Proof. exact (fun Hs Hp => conj (gauss_weight_nonneg D L nu c) (gauss_nd D L nu c Hs Hp)). Qed.
Print Assumptions C17_gaussian_weight.

(* ---- exp link, any input dimension: the expectation of the bound integrand EXISTS, with a closed form, and is a lower bound ----
   (trunc/HetBoundInt.v) Gaussian weight W x = exp (quadR D L nu x + c); affine residual projections and pre-activations
   (`unitaff`), homoscedastic quadratic form given as a list of (coefficient, affine form, affine form) (`qterm`).
   Hypothesis per unit: positive pivots of L + g1(ws) hl hl' (it is positive definite because g1 > 0; proved here for D = 1). *)
From GT Require Import GaussMom HetBoundInt.
Theorem C17_exp_bound_expectation_exists D L nu c (ts : list qterm) ld0 c0 (us : list unitaff) :
  symR D L -> gpivR D L -> List.Forall (unit_ok D L) us ->
  is_gint D (fun x => logp_lb sLB_exp ldUB_exp (q0_at D ts x) ld0 c0 (map (at_x D x) us) * exp (quadR D L nu x + c))
            (lb_value D L nu c ts ld0 c0 us).
Proof. exact (exp_bound_expectation_exists D L nu c ts ld0 c0 us). Qed.
Print Assumptions C17_exp_bound_expectation_exists.

Theorem C17_exp_lower_bound_any_dimension D L nu c (ts : list qterm) ld0 c0 (us : list unitaff) :
  symR D L -> gpivR D L -> List.Forall (unit_ok D L) us ->
  forall vg : R,
  is_gint D (fun x => logp link_exp (q0_at D ts x) ld0 c0 (map (at_x D x) us) * exp (quadR D L nu x + c)) vg ->
  lb_value D L nu c ts ld0 c0 us <= vg.
Proof. exact (C17_exp_lower_bound_nd D L nu c ts ld0 c0 us). Qed.
Print Assumptions C17_exp_lower_bound_any_dimension.

Theorem C17_exp_lower_bound_one_dimension L nu c (ts : list qterm) ld0 c0 (us : list unitaff) :
  0 < L O O -> List.Forall (fun u => 0 < aws u /\ 0 < awd u) us -> forall vg : R,
  is_gint 1 (fun x => logp link_exp (q0_at 1 ts x) ld0 c0 (map (at_x 1 x) us) * exp (quadR 1 L nu x + c)) vg ->
  lb_value 1 L nu c ts ld0 c0 us <= vg.
Proof. exact (C17_exp_lower_bound_1d L nu c ts ld0 c0 us). Qed.
Print Assumptions C17_exp_lower_bound_one_dimension.

(* ---- cosh-1 link, any input dimension (trunc/HetBoundIntC.v): sLB_cosh times the weight is a combination of THREE tilted Gaussians ---- *)
From GT Require Import HetBoundIntC.
Theorem C17_coshm1_bound_expectation_exists D L nu c (ts : list qterm) ld0 c0 (us : list unitaff) :
  symR D L -> gpivR D L -> List.Forall (unit_ok_cosh D L) us ->
  is_gint D (fun x => logp_lb sLB_cosh ldUB_cosh (q0_at D ts x) ld0 c0 (map (at_x D x) us) * exp (quadR D L nu x + c))
            (lb_value_cosh D L nu c ts ld0 c0 us).
Proof. exact (coshm1_bound_expectation_exists_ok D L nu c ts ld0 c0 us). Qed.
Print Assumptions C17_coshm1_bound_expectation_exists.

Theorem C17_coshm1_lower_bound_any_dimension D L nu c (ts : list qterm) ld0 c0 (us : list unitaff) :
  symR D L -> gpivR D L -> List.Forall (unit_ok_cosh D L) us ->
  forall vg : R,
  is_gint D (fun x => logp link_coshm1 (q0_at D ts x) ld0 c0 (map (at_x D x) us) * exp (quadR D L nu x + c)) vg ->
  lb_value_cosh D L nu c ts ld0 c0 us <= vg.
Proof. exact (C17_coshm1_lower_bound_nd D L nu c ts ld0 c0 us). Qed.
Print Assumptions C17_coshm1_lower_bound_any_dimension.
