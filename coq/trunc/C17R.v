(* C17 -- validity and tightness of the heteroscedastic lower bounds, over Coq's real numbers (stdlib Reals).
   With Woodbury (C17_precision_partial, props/C17.v) the log-density of a heteroscedastic conditional at a point x is
     ln p(y|x) = -1/2 (q0 - sum_i g_i^2 s(h_i)) - 1/2 (ld0 + sum_i ln(1 + link(h_i))) - Dy/2 ln 2pi,   s = link/(1+link),
   (`logp`), with q0 the homoscedastic quadratic form, g_i the projected residual, h_i = w_i'x + w0_i.  The code replaces
   s(h) by sLB(w; h) and ln(1+link(h)) by ldUB(w; h) with free variational parameters w (`logp_lb`) -- these are the functions
   whose Gaussian expectations `_lower_bound_integrals` and `k_func` compute in closed form (model/HetBound.v, props/C17.v:
   C17_exp_bound_factor, ...).  Proved here for ALL real h, g, q0, ld0, every number of noise units and every admissible
   variational parameter: logp_lb <= logp pointwise (exp, cosh-1, rectified-linear), = for the step link, and equality
   when h = +-w (zero input weights: h is constant and the code's w is |h|).
   Quadratic rate of the log-det part of the gap: 0 <= ldUB - ln(1+link) <= (h^2 - w^2)^2 / 192 (exp) resp. / 12 (cosh-1)
   for all h, with the SHARP constant; at the code's choice w^2 = E[h^2] the Gaussian expectation of (h^2 - w^2)^2 is
   2 v^2 + 4 m^2 v for h ~ N(m, v), i.e. s^2 (2 s^2 v1^2 + 4 m^2 v1) when the input weights are scaled by s: the gap
   vanishes quadratically.  One-dimensional version with genuine (Riemann) integrals on [-a, a]: C17_coshm1_gap_integral.
   NOT proved: monotonicity of the multivariate Gaussian integral that lifts the pointwise inequalities to the
   expectations in D dimensions (no multivariate integration library), and the rate of the quadratic-term part of the gap
   (it involves the fixed point of the variational parameter). *)
From Coq Require Import Reals Lra Lia List.
From Coquelicot Require Import Coquelicot.
From GT Require Import HetBoundR HetGapR.
Open Scope R_scope.

(* the two scalar inequalities everything reduces to *)
Theorem C17_lncosh_bound h w : 0 < w -> ln (cosh h) <= ln (cosh w) + tanh w / (2 * w) * (h * h - w * w).
Proof. exact (lncosh_bound h w). Qed.
Theorem C17_log1p_bound h w : -1 < h -> -1 < w -> ln (1 + h) <= ln (1 + w) + (h - w) / (1 + w).
Proof. exact (log1p_bound h w). Qed.

(* per link: the bound on link/(1+link) and on ln(1+link) *)
Theorem C17_exp_link h w : 0 < w -> sLB_exp w h <= sfun link_exp h /\ ln (1 + link_exp h) <= ldUB_exp w h.
Proof. intros Hw; split; [exact (exp_sLB h w Hw) | exact (exp_ldUB h w Hw)]. Qed.
Theorem C17_coshm1_link h w : 0 < w -> sLB_cosh w h <= sfun link_coshm1 h /\ ln (1 + link_coshm1 h) <= ldUB_cosh w h.
Proof. intros Hw; split; [exact (cosh_sLB h w Hw) | exact (cosh_ldUB h w Hw)]. Qed.
Theorem C17_relu_link h w : 0 <= w -> sLB_relu w h <= sfun link_relu h /\ ln (1 + link_relu h) <= ldUB_relu w h.
Proof. intros Hw; split; [exact (relu_sLB h w Hw) | exact (relu_ldUB h w Hw)]. Qed.
Theorem C17_step_link_exact h :
  sfun link_step h = (if Rle_dec 0 h then / 2 else 0) /\ ln (1 + link_step h) = (if Rle_dec 0 h then ln 2 else 0).
Proof. exact (step_exact h). Qed.

(* the assembled log-density: the bound integrand never exceeds the true log-density, any number of noise units *)
Theorem C17_exp_bound_pointwise q0 ld0 c us : List.Forall (fun u => 0 < uws u /\ 0 < uwd u) us ->
  logp_lb sLB_exp ldUB_exp q0 ld0 c us <= logp link_exp q0 ld0 c us.
Proof. exact (exp_bound_pointwise q0 ld0 c us). Qed.
Theorem C17_coshm1_bound_pointwise q0 ld0 c us : List.Forall (fun u => 0 < uws u /\ 0 < uwd u) us ->
  logp_lb sLB_cosh ldUB_cosh q0 ld0 c us <= logp link_coshm1 q0 ld0 c us.
Proof. exact (cosh_bound_pointwise q0 ld0 c us). Qed.
Theorem C17_relu_bound_pointwise q0 ld0 c us : List.Forall (fun u => 0 <= uws u /\ 0 <= uwd u) us ->
  logp_lb sLB_relu ldUB_relu q0 ld0 c us <= logp link_relu q0 ld0 c us.
Proof. exact (relu_bound_pointwise q0 ld0 c us). Qed.

(* tightness: equality where the pre-activation equals (plus or minus) the variational parameter *)
Theorem C17_exp_bound_tight q0 ld0 c us :
  List.Forall (fun u => 0 < uws u /\ 0 < uwd u /\ (uh u = uws u \/ uh u = - uws u) /\ (uh u = uwd u \/ uh u = - uwd u)) us ->
  logp_lb sLB_exp ldUB_exp q0 ld0 c us = logp link_exp q0 ld0 c us.
Proof. exact (exp_bound_tight q0 ld0 c us). Qed.
Theorem C17_coshm1_bound_tight q0 ld0 c us :
  List.Forall (fun u => 0 < uws u /\ 0 < uwd u /\ (uh u = uws u \/ uh u = - uws u) /\ (uh u = uwd u \/ uh u = - uwd u)) us ->
  logp_lb sLB_cosh ldUB_cosh q0 ld0 c us = logp link_coshm1 q0 ld0 c us.
Proof. exact (cosh_bound_tight q0 ld0 c us). Qed.

(* ---- quadratic rate of the log-det part of the gap ---- *)
Theorem C17_lncosh_gap_quadratic h w : 0 < w ->
  ln (cosh w) + tanh w / (2 * w) * (h * h - w * w) - ln (cosh h) <= (h * h - w * w) ^ 2 / 12.
Proof. exact (lncosh_gap_quadratic h w). Qed.
Theorem C17_exp_logdet_gap h w : 0 < w -> 0 <= ldUB_exp w h - ln (1 + link_exp h) <= (h * h - w * w) ^ 2 / 192.
Proof. exact (exp_ldUB_gap_bounds h w). Qed.
Theorem C17_coshm1_logdet_gap h w : 0 < w -> 0 <= ldUB_cosh w h - ln (1 + link_coshm1 h) <= (h * h - w * w) ^ 2 / 12.
Proof. exact (cosh_ldUB_gap_bounds h w). Qed.
(* E[(h^2 - E h^2)^2] for h ~ N(m, v), from E h^2 = m^2 + v, E h^4 = m^4 + 6 m^2 v + 3 v^2; and with v = s^2 v1 *)
Theorem C17_gap_moment_and_rate m v v1 s :
  (m^4 + 6 * m^2 * v + 3 * v^2) - 2 * (m^2 + v) * (m^2 + v) + (m^2 + v)^2 = 2 * v^2 + 4 * m^2 * v
  /\ 2 * (s^2 * v1)^2 + 4 * m^2 * (s^2 * v1) = s^2 * (2 * s^2 * v1^2 + 4 * m^2 * v1).
Proof. split; [exact (gap_moment m v) | exact (gap_rate m v1 s)]. Qed.
(* with genuine integrals in one dimension (standard normal weight phiG on [-a, a], h = m + s z) *)
Theorem C17_coshm1_gap_integral w m s a : 0 < w -> 0 <= a ->
  0 <= RInt (fun z => (ldUB_cosh w (m + s * z) - ln (cosh (m + s * z))) * phiG z) (- a) a
  /\ RInt (fun z => (ldUB_cosh w (m + s * z) - ln (cosh (m + s * z))) * phiG z) (- a) a
     <= RInt (fun z => ((m + s * z) ^ 2 - w ^ 2) ^ 2 / 12 * phiG z) (- a) a.
Proof. intros Hw Ha; split; [exact (cosh_ldUB_gap_RInt_nonneg w m s a Hw Ha) | exact (cosh_ldUB_gap_RInt w m s a Hw Ha)]. Qed.
Theorem C17_exp_gap_integral w m s a : 0 < w -> 0 <= a ->
  RInt (fun z => (ldUB_exp w (m + s * z) - ln (1 + link_exp (m + s * z))) * phiG z) (- a) a
  <= RInt (fun z => ((m + s * z) ^ 2 - w ^ 2) ^ 2 / 192 * phiG z) (- a) a.
Proof. exact (exp_ldUB_gap_RInt w m s a). Qed.

(* non-vacuity: the hypotheses are met, e.g. two noise units with variational parameters 1 and 1/2 *)
Example C17_bound_hypotheses_satisfiable :
  List.Forall (fun u => 0 < uws u /\ 0 < uwd u) (Unit 1 2 1 (/ 2) :: Unit (-1) 0 (/ 2) 1 :: nil).
Proof. repeat constructor; simpl; lra. Qed.

Print Assumptions C17_lncosh_bound.
Print Assumptions C17_log1p_bound.
Print Assumptions C17_exp_link.
Print Assumptions C17_coshm1_link.
Print Assumptions C17_relu_link.
Print Assumptions C17_step_link_exact.
Print Assumptions C17_exp_bound_pointwise.
Print Assumptions C17_coshm1_bound_pointwise.
Print Assumptions C17_relu_bound_pointwise.
Print Assumptions C17_exp_bound_tight.
Print Assumptions C17_coshm1_bound_tight.
Print Assumptions C17_lncosh_gap_quadratic.
Print Assumptions C17_exp_logdet_gap.
Print Assumptions C17_coshm1_logdet_gap.
Print Assumptions C17_gap_moment_and_rate.
Print Assumptions C17_coshm1_gap_integral.
Print Assumptions C17_exp_gap_integral.
