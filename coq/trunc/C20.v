(* C20 -- truncated one-dimensional Gaussian measures integrate correctly.
   The model (trunc/TruncGen.v) instantiated at the real numbers; PhiR is any function whose increments
   are the integrals of the standard normal pdf (the standard normal cdf is one).  Property theorems
   only; proofs in trunc/C20_proofs.v. *)
From Coq Require Import Reals List.
From Coquelicot Require Import Coquelicot.
From GT Require Import TruncGen C20_proofs.
Open Scope R_scope.

Definition cdf_like (PhiR : R -> R) : Prop := forall x y, PhiR y - PhiR x = RInt phiR x y.

(* integrals of 1, x, x^2, x^k of the truncated measure (per unit of untruncated mass) over finite [a,b] *)
Theorem C20_mass PhiR (H : cdf_like PhiR) mu s a b : 0 < s ->
  int_1 R (Rops PhiR) mu s (Some a) (Some b) = RInt (dens mu s) a b.
Proof. exact (int_1_spec PhiR H mu s a b). Qed.
Print Assumptions C20_mass.

Theorem C20_moment_k PhiR (H : cdf_like PhiR) mu s a b k : 0 < s -> a < b ->
  int_xk R (Rops PhiR) mu s (Some a) (Some b) k = RInt (fun x => x ^ k * dens mu s x) a b.
Proof. exact (int_xk_spec PhiR H mu s a b k). Qed.
Print Assumptions C20_moment_k.

Theorem C20_moment_1 PhiR (H : cdf_like PhiR) mu s a b : 0 < s -> a < b ->
  int_x R (Rops PhiR) mu s (Some a) (Some b) = RInt (fun x => x * dens mu s x) a b.
Proof. exact (int_x_spec PhiR H mu s a b). Qed.
Print Assumptions C20_moment_1.

Theorem C20_moment_2 PhiR (H : cdf_like PhiR) mu s a b : 0 < s -> a < b ->
  int_x2 R (Rops PhiR) mu s (Some a) (Some b) = RInt (fun x => x ^ 2 * dens mu s x) a b.
Proof. exact (int_x2_spec PhiR H mu s a b). Qed.
Print Assumptions C20_moment_2.

(* integrals over adjacent intervals add up *)
Theorem C20_additive PhiR (H : cdf_like PhiR) mu s a c b k : 0 < s -> a < c -> c < b ->
  int_xk R (Rops PhiR) mu s (Some a) (Some c) k + int_xk R (Rops PhiR) mu s (Some c) (Some b) k
  = int_xk R (Rops PhiR) mu s (Some a) (Some b) k.
Proof. exact (int_xk_additive PhiR H mu s a c b k). Qed.
Print Assumptions C20_additive.

(* the normalised truncated density has the exact truncated mean and variance *)
Theorem C20_mean PhiR (H : cdf_like PhiR) mu s a b : 0 < s -> a < b ->
  E_x R (Rops PhiR) mu s (Some a) (Some b) = RInt (fun x => x * dens mu s x) a b / RInt (dens mu s) a b.
Proof. exact (trunc_mean_spec PhiR H mu s a b). Qed.
Print Assumptions C20_mean.

Theorem C20_variance PhiR (H : cdf_like PhiR) mu s a b : 0 < s -> a < b ->
  Var R (Rops PhiR) mu s (Some a) (Some b)
  = RInt (fun x => x ^ 2 * dens mu s x) a b / RInt (dens mu s) a b
    - (RInt (fun x => x * dens mu s x) a b / RInt (dens mu s) a b) ^ 2.
Proof. exact (trunc_var_spec PhiR H mu s a b). Qed.
Print Assumptions C20_variance.

(* evaluation: inside the closed interval the measure, outside zero; an absent limit is infinite *)
Theorem C20_support PhiR lo hi x :
  in_limits R (Rops PhiR) lo hi x = true <->
  (match lo with None => True | Some a => a <= x end) /\ (match hi with None => True | Some b => x <= b end).
Proof. exact (in_limits_spec PhiR lo hi x). Qed.
Print Assumptions C20_support.

(* one-sided intervals are the limits of the two-sided ones when the cdf is normalised at infinity *)
Theorem C20_upper_infinite PhiR (H : cdf_like PhiR) (Hp : is_lim PhiR p_infty 1) mu s a k : 0 < s ->
  is_lim (fun b => int_xk R (Rops PhiR) mu s (Some a) (Some b) k) p_infty (int_xk R (Rops PhiR) mu s (Some a) None k).
Proof. exact (int_xk_upper_limit PhiR H Hp mu s a k). Qed.
Print Assumptions C20_upper_infinite.

Theorem C20_lower_infinite PhiR (H : cdf_like PhiR) (Hm : is_lim PhiR m_infty 0) mu s b k : 0 < s ->
  is_lim (fun a => int_xk R (Rops PhiR) mu s (Some a) (Some b) k) m_infty (int_xk R (Rops PhiR) mu s None (Some b) k).
Proof. exact (int_xk_lower_limit PhiR H Hm mu s b k). Qed.
Print Assumptions C20_lower_infinite.

(* non-vacuity: the hypothesis on PhiR is satisfiable (any primitive of the pdf; the standard normal cdf
   is this one shifted by 1/2) *)
Example C20_cdf_like_exists : cdf_like (fun x => RInt phiR 0 x).
Proof.
intros x y.
rewrite <- (RInt_Chasles phiR 0 x y (exI_phiR 0 x) (exI_phiR x y)).
unfold plus; simpl. ring.
Qed.
