(* C20 / C16 / C17 at the concrete standard normal cdf  Phi0 x = 1/2 + int_0^x phiR  (trunc/GaussInt.v):
   the hypotheses  cdf_like PhiR,  PhiR -> 1 at +oo,  PhiR -> 0 at -oo  of trunc/C20.v and trunc/C16R.v are discharged
   (Phi0_incr, Phi0_pinf, Phi0_minf; the limits are the Gaussian integral, proved in GaussInt.v), so every theorem
   below is hypothesis-free. *)
From Coq Require Import Reals Lra Lia List.
From Coquelicot Require Import Coquelicot.
From GT Require Import TruncGen C20_proofs C20 C16R GaussInt.
Open Scope R_scope.

Lemma Phi0_cdf_like : cdf_like Phi0.
Proof. exact Phi0_incr. Qed.

(* ---------- trunc/C20.v ---------- *)
Theorem C20_mass_Phi0 mu s a b : 0 < s ->
  int_1 R (Rops Phi0) mu s (Some a) (Some b) = RInt (dens mu s) a b.
Proof. exact (C20_mass Phi0 Phi0_incr mu s a b). Qed.
Print Assumptions C20_mass_Phi0.

Theorem C20_moment_k_Phi0 mu s a b k : 0 < s -> a < b ->
  int_xk R (Rops Phi0) mu s (Some a) (Some b) k = RInt (fun x => x ^ k * dens mu s x) a b.
Proof. exact (C20_moment_k Phi0 Phi0_incr mu s a b k). Qed.
Print Assumptions C20_moment_k_Phi0.

Theorem C20_moment_1_Phi0 mu s a b : 0 < s -> a < b ->
  int_x R (Rops Phi0) mu s (Some a) (Some b) = RInt (fun x => x * dens mu s x) a b.
Proof. exact (C20_moment_1 Phi0 Phi0_incr mu s a b). Qed.
Print Assumptions C20_moment_1_Phi0.

Theorem C20_moment_2_Phi0 mu s a b : 0 < s -> a < b ->
  int_x2 R (Rops Phi0) mu s (Some a) (Some b) = RInt (fun x => x ^ 2 * dens mu s x) a b.
Proof. exact (C20_moment_2 Phi0 Phi0_incr mu s a b). Qed.
Print Assumptions C20_moment_2_Phi0.

Theorem C20_additive_Phi0 mu s a c b k : 0 < s -> a < c -> c < b ->
  int_xk R (Rops Phi0) mu s (Some a) (Some c) k + int_xk R (Rops Phi0) mu s (Some c) (Some b) k
  = int_xk R (Rops Phi0) mu s (Some a) (Some b) k.
Proof. exact (C20_additive Phi0 Phi0_incr mu s a c b k). Qed.
Print Assumptions C20_additive_Phi0.

Theorem C20_mean_Phi0 mu s a b : 0 < s -> a < b ->
  E_x R (Rops Phi0) mu s (Some a) (Some b) = RInt (fun x => x * dens mu s x) a b / RInt (dens mu s) a b.
Proof. exact (C20_mean Phi0 Phi0_incr mu s a b). Qed.
Print Assumptions C20_mean_Phi0.

Theorem C20_variance_Phi0 mu s a b : 0 < s -> a < b ->
  Var R (Rops Phi0) mu s (Some a) (Some b)
  = RInt (fun x => x ^ 2 * dens mu s x) a b / RInt (dens mu s) a b
    - (RInt (fun x => x * dens mu s x) a b / RInt (dens mu s) a b) ^ 2.
Proof. exact (C20_variance Phi0 Phi0_incr mu s a b). Qed.
Print Assumptions C20_variance_Phi0.

Theorem C20_support_Phi0 lo hi x :
  in_limits R (Rops Phi0) lo hi x = true <->
  (match lo with None => True | Some a => a <= x end) /\ (match hi with None => True | Some b => x <= b end).
Proof. exact (C20_support Phi0 lo hi x). Qed.
Print Assumptions C20_support_Phi0.

Theorem C20_upper_infinite_Phi0 mu s a k : 0 < s ->
  is_lim (fun b => int_xk R (Rops Phi0) mu s (Some a) (Some b) k) p_infty (int_xk R (Rops Phi0) mu s (Some a) None k).
Proof. exact (C20_upper_infinite Phi0 Phi0_incr Phi0_pinf mu s a k). Qed.
Print Assumptions C20_upper_infinite_Phi0.

Theorem C20_lower_infinite_Phi0 mu s b k : 0 < s ->
  is_lim (fun a => int_xk R (Rops Phi0) mu s (Some a) (Some b) k) m_infty (int_xk R (Rops Phi0) mu s None (Some b) k).
Proof. exact (C20_lower_infinite Phi0 Phi0_incr Phi0_minf mu s b k). Qed.
Print Assumptions C20_lower_infinite_Phi0.

(* ---------- trunc/C16R.v ---------- *)
Theorem C16_step_noise_Phi0 m s : 0 < s ->
  is_lim (fun b => RInt (dens m s) 0 b) p_infty (int_1 R (Rops Phi0) m s (Some 0) None).
Proof. exact (C16R.C16_step_noise Phi0 Phi0_incr Phi0_pinf m s). Qed.
Print Assumptions C16_step_noise_Phi0.

Theorem C16_relu_noise_Phi0 m s : 0 < s ->
  is_lim (fun b => RInt (fun h => h * dens m s h) 0 b) p_infty (int_x R (Rops Phi0) m s (Some 0) None).
Proof. exact (C16R.C16_relu_noise Phi0 Phi0_incr Phi0_pinf m s). Qed.
Print Assumptions C16_relu_noise_Phi0.

Theorem C16_second_moment_half_line_Phi0 m s : 0 < s ->
  is_lim (fun b => RInt (fun h => h ^ 2 * dens m s h) 0 b) p_infty (int_x2 R (Rops Phi0) m s (Some 0) None).
Proof. exact (C16R.C16_second_moment_half_line Phi0 Phi0_incr Phi0_pinf m s). Qed.
Print Assumptions C16_second_moment_half_line_Phi0.

Theorem C16_step_noise_closed_form_Phi0 m s : int_1 R (Rops Phi0) m s (Some 0) None = 1 - Phi0 ((0 - m) / s).
Proof. exact (C16R.C16_step_noise_closed_form Phi0 m s). Qed.
Print Assumptions C16_step_noise_closed_form_Phi0.

Theorem C16_relu_noise_closed_form_Phi0 m s : 0 < s ->
  int_x R (Rops Phi0) m s (Some 0) None = m * (1 - Phi0 ((0 - m) / s)) + s * phiR ((0 - m) / s).
Proof. exact (C16R.C16_relu_noise_closed_form Phi0 Phi0_incr Phi0_pinf m s). Qed.
Print Assumptions C16_relu_noise_closed_form_Phi0.

Theorem C17_step_bound_term_Phi0 m s c0 c1 v : 0 < s ->
  is_lim (fun b => RInt (fun h => ((c0 + c1 * h) ^ 2 + v) * dens m s h) 0 b) p_infty
         (int_1 R (Rops Phi0) m s (Some 0) None * c0 ^ 2 + int_x2 R (Rops Phi0) m s (Some 0) None * c1 ^ 2
          + 2 * int_x R (Rops Phi0) m s (Some 0) None * c1 * c0 + int_1 R (Rops Phi0) m s (Some 0) None * v).
Proof. exact (C16R.C17_step_bound_term Phi0 Phi0_incr Phi0_pinf m s c0 c1 v). Qed.
Print Assumptions C17_step_bound_term_Phi0.
