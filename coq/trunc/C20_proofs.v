(* C20: the truncated-measure model (trunc/TruncGen.v) instantiated at Coq's real numbers computes the
   integrals of x^k N(x; mu, s^2) over [a, b].  Coquelicot Riemann integrals. *)
From Coq Require Import Reals Lra Lia List.
From Coquelicot Require Import Coquelicot.
From GT Require Import TruncGen.
Open Scope R_scope.

(* standard normal pdf *)
Definition phiR (x : R) : R := exp (- (x * x) / 2) / sqrt (2 * PI).
(* density of N(mu, s^2) *)
Definition dens (mu s x : R) : R := phiR ((x - mu) / s) / s.

(* ---------- helper lemmas (independent of the cdf) ---------- *)

Lemma sqrt2PI_pos : 0 < sqrt (2 * PI).
Proof. apply sqrt_lt_R0. generalize PI_RGT_0. lra. Qed.

Lemma phiR_pos x : 0 < phiR x.
Proof. unfold phiR. apply Rdiv_lt_0_compat; [apply exp_pos | apply sqrt2PI_pos]. Qed.

Lemma deriv_G (k : nat) (x : R) :
  is_derive (fun t => t ^ (S k) * phiR t) x (INR (S k) * x ^ k * phiR x - x ^ (S (S k)) * phiR x).
Proof.
unfold phiR. generalize sqrt2PI_pos. generalize (sqrt (2 * PI)). intros c Hc.
auto_derive; auto.
change (match k with 0%nat => 1 | S _ => INR k + 1 end) with (INR (S k)).
rewrite <- !tech_pow_Rmult. unfold Rdiv. generalize (INR (S k)) (exp (- (x * x) * / 2)) (x ^ k). intros. field. lra.
Qed.

Lemma cont_xkphi n x : continuous (fun x => x ^ n * phiR x) x.
Proof.
unfold phiR. generalize (sqrt (2 * PI)). intros c.
apply (ex_derive_continuous (fun x => x ^ n * (exp (- (x * x) / 2) / c))). auto_derive; auto.
Qed.

Lemma cont_phiR x : continuous phiR x.
Proof.
apply continuous_ext with (f := fun x => x ^ 0 * phiR x). intros; simpl; ring. apply cont_xkphi.
Qed.

Lemma exI_xkphi n a b : ex_RInt (fun x => x ^ n * phiR x) a b.
Proof. apply (@ex_RInt_continuous R_CompleteNormedModule). intros x _. apply cont_xkphi. Qed.

Lemma exI_phiR a b : ex_RInt phiR a b.
Proof. apply (@ex_RInt_continuous R_CompleteNormedModule). intros x _. apply cont_phiR. Qed.

(* unnormalised standardised moments *)
Definition J (k : nat) (a b : R) : R := RInt (fun t => t ^ k * phiR t) a b.

Lemma J0 a b : J 0 a b = RInt phiR a b.
Proof. unfold J. apply RInt_ext. intros; simpl; ring. Qed.

Lemma J1 a b : J 1 a b = - (phiR b - phiR a).
Proof.
unfold J.
assert (H : is_RInt (fun x => - (x ^ 1 * phiR x)) a b (phiR b - phiR a)).
{ apply (is_RInt_derive phiR).
  - intros x _. unfold phiR. generalize sqrt2PI_pos. generalize (sqrt (2 * PI)). intros c Hc.
    auto_derive; auto. unfold Rdiv. generalize (exp (- (x * x) * / 2)). intros. field. lra.
  - intros x _. apply (continuous_opp (V:=R_NormedModule)). apply cont_xkphi. }
pose proof (@is_RInt_unique R_CompleteNormedModule _ _ _ _ H) as H'.
rewrite (RInt_ext _ (fun x => Hierarchy.opp (x ^ 1 * phiR x))) in H' by (intros; reflexivity).
rewrite (@RInt_opp R_CompleteNormedModule) in H' by apply exI_xkphi.
unfold Hierarchy.opp in H'; simpl in H'. change (fun x : R => x * 1 * phiR x) with (fun x : R => x ^ 1 * phiR x) in H'. lra.
Qed.

(* integration by parts recursion on a finite interval *)
Lemma J_rec (k : nat) (a b : R) :
  J (S (S k)) a b = - (b ^ (S k) * phiR b - a ^ (S k) * phiR a) + INR (S k) * J k a b.
Proof.
unfold J.
assert (H : is_RInt (fun x => INR (S k) * x ^ k * phiR x - x ^ (S (S k)) * phiR x) a b
              (b ^ (S k) * phiR b - a ^ (S k) * phiR a)).
{ apply (is_RInt_derive (fun t => t ^ (S k) * phiR t)).
  - intros x _. apply deriv_G.
  - intros x _. apply (continuous_minus (V:=R_NormedModule)).
    + apply continuous_ext with (f := fun x => scal (INR (S k)) (x ^ k * phiR x)).
      { intros; unfold scal; simpl; unfold mult; simpl. ring. }
      apply (continuous_scal_r (K:=R_AbsRing) (V:=R_NormedModule)). apply cont_xkphi.
    + apply cont_xkphi. }
pose proof (@is_RInt_unique R_CompleteNormedModule _ _ _ _ H) as H'.
assert (E : RInt (fun x => INR (S k) * x ^ k * phiR x - x ^ (S (S k)) * phiR x) a b
           = INR (S k) * RInt (fun x => x ^ k * phiR x) a b - RInt (fun x => x ^ (S (S k)) * phiR x) a b).
{ rewrite (RInt_ext _ (fun x => minus (scal (INR (S k)) (x ^ k * phiR x)) (x ^ S (S k) * phiR x))).
  2:{ intros x _. unfold minus, plus, Hierarchy.opp, scal; simpl. unfold mult; simpl.
      generalize (phiR x) (x ^ k) (match k with 0%nat => 1 | S _ => INR k + 1 end); intros; ring. }
  rewrite (@RInt_minus R_CompleteNormedModule); [ | apply (@ex_RInt_scal R_CompleteNormedModule); apply exI_xkphi | apply exI_xkphi ].
  rewrite (@RInt_scal R_CompleteNormedModule); [ | apply exI_xkphi ].
  reflexivity. }
rewrite E in H'. lra.
Qed.

Lemma RIphi_pos a b : a < b -> 0 < RInt phiR a b.
Proof.
intros. apply RInt_gt_0; auto. intros; apply phiR_pos. intros; apply cont_phiR.
Qed.

(* Pascal-recursion binomial coefficients are the usual ones *)
Lemma binom_gt n : forall k, (n < k)%nat -> binom n k = 0%nat.
Proof.
induction n; intros [|k] H; simpl; try lia.
rewrite !IHn by lia. reflexivity.
Qed.

Lemma binom_C n : forall k, (k <= n)%nat -> INR (binom n k) = Binomial.C n k.
Proof.
induction n; intros [|k] H.
- simpl. rewrite C_n_0. reflexivity.
- lia.
- simpl. rewrite C_n_0. reflexivity.
- simpl binom. rewrite plus_INR. destruct (Nat.eq_dec k n) as [->|Hne].
  + rewrite (binom_gt n (S n)) by lia. rewrite IHn by lia. rewrite !C_n_n. simpl. ring.
  + rewrite !IHn by lia. apply pascal. lia.
Qed.

Lemma binomial_model mu s t k :
  (mu + s * t) ^ k = sum_f_R0 (fun i => INR (binom k i) * s ^ i * mu ^ (k - i) * t ^ i) k.
Proof.
rewrite (Rplus_comm mu). rewrite binomial. apply sum_eq. intros i Hi.
rewrite binom_C by lia. rewrite Rpow_mult_distr. ring.
Qed.

Lemma exI_sum (c : nat -> R) n a b :
  ex_RInt (fun t => sum_f_R0 (fun i => c i * (t ^ i * phiR t)) n) a b.
Proof.
induction n; simpl.
- apply (ex_RInt_ext (fun t => scal (c 0%nat) (t ^ 0 * phiR t))). { intros; reflexivity. }
  apply (@ex_RInt_scal R_CompleteNormedModule). apply exI_xkphi.
- apply (@ex_RInt_plus R_CompleteNormedModule _ _ _ _ IHn).
  apply (ex_RInt_ext (fun t => scal (c (S n)) (t ^ (S n) * phiR t))). { intros; reflexivity. }
  apply (@ex_RInt_scal R_CompleteNormedModule). apply exI_xkphi.
Qed.

Lemma RInt_sum (c : nat -> R) n a b :
  RInt (fun t => sum_f_R0 (fun i => c i * (t ^ i * phiR t)) n) a b
  = sum_f_R0 (fun i => c i * J i a b) n.
Proof.
induction n; simpl.
- rewrite (RInt_ext _ (fun t => scal (c 0%nat) (t ^ 0 * phiR t))) by (intros; reflexivity).
  rewrite (@RInt_scal R_CompleteNormedModule) by apply exI_xkphi. reflexivity.
- rewrite (RInt_ext _ (fun t => plus (sum_f_R0 (fun i => c i * (t ^ i * phiR t)) n)
                                     (scal (c (S n)) (t ^ (S n) * phiR t)))) by (intros; reflexivity).
  rewrite (@RInt_plus R_CompleteNormedModule).
  + rewrite IHn. rewrite (@RInt_scal R_CompleteNormedModule) by apply exI_xkphi. reflexivity.
  + apply exI_sum.
  + apply (@ex_RInt_scal R_CompleteNormedModule). apply exI_xkphi.
Qed.

(* affine change of variable x = mu + s t *)
Lemma RInt_subst (g : R -> R) mu s a b : 0 < s ->
  (forall x, continuous g x) ->
  RInt (fun x => g ((x - mu) / s) / s) a b = RInt g ((a - mu) / s) ((b - mu) / s).
Proof.
intros Hs Hg.
replace ((a - mu) / s) with (/ s * a + - mu / s) by (field; lra).
replace ((b - mu) / s) with (/ s * b + - mu / s) by (field; lra).
rewrite <- RInt_comp_lin.
- apply RInt_ext. intros x _. unfold scal; simpl; unfold mult; simpl.
  replace (/ s * x + - mu / s) with ((x - mu) / s) by (field; lra). field; lra.
- apply (@ex_RInt_continuous R_CompleteNormedModule). intros; apply Hg.
Qed.

Lemma RInt_dens mu s a b : 0 < s ->
  RInt (dens mu s) a b = RInt phiR ((a - mu) / s) ((b - mu) / s).
Proof. intros Hs. unfold dens. apply (RInt_subst phiR); auto. apply cont_phiR. Qed.


Lemma RInt_xk_dens mu s a b k : 0 < s ->
  RInt (fun x => x ^ k * dens mu s x) a b
  = sum_f_R0 (fun i => INR (binom k i) * s ^ i * mu ^ (k - i) * J i ((a - mu) / s) ((b - mu) / s)) k.
Proof.
intros Hs.
rewrite (RInt_ext _ (fun x => (fun t => (mu + s * t) ^ k * phiR t) ((x - mu) / s) / s)).
2:{ intros x _. unfold dens. assert (E : mu + s * ((x - mu) / s) = x) by (field; lra). rewrite E. match goal with |- ?l = ?r => change (@eq R l r) end. generalize (x ^ k) (phiR ((x - mu) / s)). intros; field; lra. }
rewrite (RInt_subst (fun t => (mu + s * t) ^ k * phiR t)); auto.
- rewrite (RInt_ext _ (fun t => sum_f_R0 (fun i => (INR (binom k i) * s ^ i * mu ^ (k - i)) * (t ^ i * phiR t)) k)).
  + apply RInt_sum.
  + intros t _. rewrite binomial_model. rewrite Rmult_comm. rewrite scal_sum. apply sum_eq. intros; ring.
- intros x. apply (continuous_mult (K:=R_AbsRing) (fun t => (mu + s * t) ^ k) phiR).
  + apply (ex_derive_continuous (fun t => (mu + s * t) ^ k)). auto_derive; auto.
  + apply cont_phiR.
Qed.

(* ---------- tails: x^n phiR x -> 0 at both infinities ---------- *)

Lemma exp_pow_nat y n : exp (INR n * y) = exp y ^ n.
Proof.
induction n.
- simpl. rewrite Rmult_0_l. apply exp_0.
- rewrite S_INR. replace ((INR n + 1) * y) with (y + INR n * y) by ring.
  rewrite exp_plus, IHn. reflexivity.
Qed.

Lemma is_lim_0_squeeze (f g : R -> R) (x : Rbar) :
  Rbar_locally' x (fun y => 0 <= f y <= g y) -> is_lim g x 0 -> is_lim f x 0.
Proof.
intros H Hg. apply (is_lim_le_le_loc (fun _ => 0) g f x 0); auto. apply is_lim_const.
Qed.

Lemma lim_x_exp c : 0 < c -> is_lim (fun x => x * exp (- (c * (x * x)))) p_infty 0.
Proof.
intros Hc.
apply (is_lim_0_squeeze _ (fun x => / c * / x)).
- exists 0. intros x Hx. split.
  + apply Rmult_le_pos; [lra | left; apply exp_pos].
  + assert (Hy : 0 < c * (x * x)) by (apply Rmult_lt_0_compat; [lra | apply Rmult_lt_0_compat; lra]).
    rewrite exp_Ropp.
    assert (H1 : / exp (c * (x * x)) <= / (c * (x * x))).
    { apply Rinv_le_contravar; auto. generalize (exp_ineq1_le (c * (x * x))). lra. }
    replace (/ c * / x) with (x * / (c * (x * x))) by (field; lra).
    apply Rmult_le_compat_l; lra.
- replace (Finite 0) with (Rbar_mult (/ c) (Rbar_inv p_infty)).
  + apply is_lim_scal_l. apply is_lim_inv. apply is_lim_id. discriminate.
  + simpl. f_equal. ring.
Qed.

Lemma is_lim_pow (f : R -> R) (x : Rbar) (l : R) n :
  is_lim f x l -> is_lim (fun y => f y ^ n) x (l ^ n).
Proof.
intros Hf. induction n; simpl.
- apply is_lim_const.
- apply (is_lim_mult f (fun y => f y ^ n) x l (l ^ n)); auto. exact I.
Qed.

Lemma lim_xn_exp n : is_lim (fun x => x ^ (S n) * exp (- (x * x) / 2)) p_infty 0.
Proof.
assert (Hn : 0 < INR (S n)) by (apply lt_0_INR; lia).
assert (Hc : 0 < / (2 * INR (S n))) by (apply Rinv_0_lt_compat; lra).
apply (is_lim_ext (fun x => (x * exp (- (/ (2 * INR (S n)) * (x * x)))) ^ (S n))).
- intros x. rewrite Rpow_mult_distr. f_equal. rewrite <- exp_pow_nat. f_equal. field. lra.
- replace (Finite 0) with (Finite (0 ^ (S n))) by (f_equal; simpl; ring).
  apply is_lim_pow. apply lim_x_exp; auto.
Qed.

Lemma lim_xn_phiR_p n : is_lim (fun x => x ^ n * phiR x) p_infty 0.
Proof.
assert (HS : forall m, is_lim (fun x => x ^ (S m) * phiR x) p_infty 0).
{ intros m. apply (is_lim_ext (fun x => x ^ (S m) * exp (- (x * x) / 2) * / sqrt (2 * PI))).
  - intros x. unfold phiR, Rdiv. ring.
  - replace (Finite 0) with (Rbar_mult 0 (/ sqrt (2 * PI))) by (simpl; f_equal; ring).
    apply is_lim_scal_r. apply lim_xn_exp. }
destruct n as [|m]; [ | apply HS].
apply (is_lim_0_squeeze _ (fun x => x ^ 1 * phiR x)); [ | apply HS].
exists 1. intros x Hx. generalize (phiR_pos x). intros Hp. simpl. split; [lra | nra].
Qed.

Lemma is_lim_m_of_p (f : R -> R) (l : R) :
  is_lim (fun x => f (- x)) p_infty l -> is_lim f m_infty l.
Proof.
intros H. apply is_lim_spec. apply is_lim_spec in H. intros eps. destruct (H eps) as [M HM].
exists (- M). intros x Hx. specialize (HM (- x)). rewrite Ropp_involutive in HM. apply HM. lra.
Qed.

Lemma phiR_even x : phiR (- x) = phiR x.
Proof. unfold phiR. replace (- x * - x) with (x * x) by ring. reflexivity. Qed.

Lemma lim_xn_phiR_m n : is_lim (fun x => x ^ n * phiR x) m_infty 0.
Proof.
apply is_lim_m_of_p.
apply (is_lim_ext (fun x => (-1) ^ n * (x ^ n * phiR x))).
- intros x. rewrite phiR_even. replace (- x) with (-1 * x) by ring. rewrite Rpow_mult_distr. ring.
- replace (Finite 0) with (Rbar_mult ((-1) ^ n) 0) by (simpl; f_equal; ring).
  apply is_lim_scal_l. apply lim_xn_phiR_p.
Qed.

Lemma is_lim_std_p (f : R -> R) (l : R) mu s : 0 < s ->
  is_lim f p_infty l -> is_lim (fun b => f ((b - mu) / s)) p_infty l.
Proof.
intros Hs H. apply is_lim_spec. apply is_lim_spec in H. intros eps. destruct (H eps) as [M HM].
exists (mu + s * M). intros x Hx. apply HM.
apply Rmult_lt_reg_r with s; auto. unfold Rdiv. rewrite Rmult_assoc, Rinv_l by lra. lra.
Qed.

Lemma is_lim_std_m (f : R -> R) (l : R) mu s : 0 < s ->
  is_lim f m_infty l -> is_lim (fun b => f ((b - mu) / s)) m_infty l.
Proof.
intros Hs H. apply is_lim_spec. apply is_lim_spec in H. intros eps. destruct (H eps) as [M HM].
exists (mu + s * M). intros x Hx. apply HM.
apply Rmult_lt_reg_r with s; auto. unfold Rdiv. rewrite Rmult_assoc, Rinv_l by lra. lra.
Qed.

Lemma is_lim_sum (c : nat -> R) (f : nat -> R -> R) (l : nat -> R) (x : Rbar) n :
  (forall i, is_lim (f i) x (l i)) ->
  is_lim (fun y => sum_f_R0 (fun i => c i * f i y) n) x (sum_f_R0 (fun i => c i * l i) n).
Proof.
intros H. induction n; simpl.
- apply (is_lim_scal_l (f 0%nat) (c 0%nat) x (l 0%nat)). apply H.
- apply is_lim_plus'; auto. apply (is_lim_scal_l (f (S n)) (c (S n)) x (l (S n))). apply H.
Qed.

Lemma is_lim_rec_step (f1 f2 g : R -> R) (x : Rbar) (l1 l2 lg d : R) :
  is_lim f1 x l1 -> is_lim f2 x l2 -> is_lim g x lg ->
  is_lim (fun y => - (f1 y - f2 y) + d * g y) x (- (l1 - l2) + d * lg).
Proof.
intros H1 H2 Hg. apply is_lim_plus'.
- apply (is_lim_opp (fun y => f1 y - f2 y) x (l1 - l2)). apply is_lim_minus'; auto.
- apply (is_lim_scal_l g d x lg). auto.
Qed.

(* the unnormalised pair recursion *)
Fixpoint Mpair (Z pa pb : R) (xa xb : nat -> R) (k : nat) : R * R :=
  match k with
  | 0%nat => (Z, - (pb - pa))
  | S k' => let '(u, v) := Mpair Z pa pb xa xb k' in (v, - (xb (S k') - xa (S k')) + INR (S k') * u)
  end.

Section C20.
(* the standard normal cdf, characterised by its increments (any primitive of phiR; the library uses
   jax.scipy.stats.norm.cdf) *)
Variable PhiR : R -> R.
Hypothesis PhiR_incr : forall x y, PhiR y - PhiR x = RInt phiR x y.

Definition Rops : ops R :=
  Ops R 0 1 Rplus Rminus Rmult Rdiv Ropp INR
      (fun a b => if Req_EM_T a b then true else false)
      (fun a b => if Rle_dec a b then true else false) PhiR phiR.

(* the model's own power function is the real power *)
Lemma pow_model x n : TruncGen.pow R Rops x n = x ^ n.
Proof. induction n; simpl; [reflexivity | rewrite IHn; reflexivity]. Qed.

Lemma sum_upto_model n f : sum_upto R Rops n f = sum_f_R0 f n.
Proof. induction n; simpl; [reflexivity | rewrite IHn; reflexivity]. Qed.

Lemma std_lt mu s a b : 0 < s -> a < b -> (a - mu) / s < (b - mu) / s.
Proof. intros Hs Hab. unfold Rdiv. apply Rmult_lt_compat_r; [apply Rinv_0_lt_compat; lra | lra]. Qed.

Lemma xkphi_some mu s a k :
  xkphi R Rops mu s (Some a) k = ((a - mu) / s) ^ k * phiR ((a - mu) / s).
Proof. unfold xkphi, std. rewrite pow_model. reflexivity. Qed.

(* the pair recursion computes the normalised standardised moments *)
Lemma Ls_spec mu s a b k :
  let al := (a - mu) / s in let be := (b - mu) / s in
  RInt phiR al be <> 0 ->
  Ls R Rops mu s (Some a) (Some b) (RInt phiR al be) k
  = (J k al be / RInt phiR al be, J (S k) al be / RInt phiR al be).
Proof.
intros al be HZ. induction k.
- simpl. unfold std; simpl. fold al be. rewrite J1, J0. f_equal; field; auto.
- cbn [Ls]. rewrite IHk. rewrite !xkphi_some. fold al be.
  cbn [TruncGen.add TruncGen.opp TruncGen.div TruncGen.sub TruncGen.mul TruncGen.ofnat Rops].
  f_equal. rewrite (J_rec k al be).
  generalize (INR (S k)) (J k al be) (al ^ S k) (be ^ S k) (phiR al) (phiR be). intros. field; auto.
Qed.

Lemma Zc_eq mu s a b :
  Zc R Rops mu s (Some a) (Some b) = RInt phiR ((a - mu) / s) ((b - mu) / s).
Proof. unfold Zc, PhiHi, PhiLo, std; simpl. apply PhiR_incr. Qed.

Lemma eqb_false (x : R) : x <> 0 -> TruncGen.eqb R Rops x (TruncGen.zero R Rops) = false.
Proof. intros H. simpl. destruct (Req_EM_T x 0); [contradiction | reflexivity]. Qed.

Lemma Lk_spec mu s a b k : 0 < s -> a < b ->
  Lk R Rops mu s (Some a) (Some b) k
  = J k ((a - mu) / s) ((b - mu) / s) / RInt phiR ((a - mu) / s) ((b - mu) / s).
Proof.
intros Hs Hab. pose proof (RIphi_pos _ _ (std_lt mu s a b Hs Hab)) as HZ.
unfold Lk. rewrite Zc_eq. rewrite eqb_false by lra.
rewrite Ls_spec by lra. reflexivity.
Qed.

Lemma moment_spec mu s a b k : 0 < s -> a < b ->
  moment R Rops mu s (Some a) (Some b) k * RInt phiR ((a - mu) / s) ((b - mu) / s)
  = RInt (fun x => x ^ k * dens mu s x) a b.
Proof.
intros Hs Hab. pose proof (RIphi_pos _ _ (std_lt mu s a b Hs Hab)) as HZ.
unfold moment. rewrite Zc_eq. rewrite eqb_false by lra.
rewrite sum_upto_model. rewrite RInt_xk_dens by auto.
rewrite Rmult_comm. rewrite scal_sum. apply sum_eq. intros i Hi.
rewrite Lk_spec by auto.
cbn [TruncGen.add TruncGen.opp TruncGen.div TruncGen.sub TruncGen.mul TruncGen.ofnat Rops].
rewrite (pow_model s), (pow_model mu).
generalize (INR (binom k i)) (s ^ i) (mu ^ (k - i)) (J i ((a - mu) / s) ((b - mu) / s)).
intros. field. lra.
Qed.

(* total mass on [a, b] *)
Theorem int_1_spec mu s a b : 0 < s ->
  int_1 R Rops mu s (Some a) (Some b) = RInt (dens mu s) a b.
Proof. intros Hs. unfold int_1. rewrite Zc_eq. rewrite RInt_dens; auto. Qed.

(* every moment: the recursion L_k with the binomial expansion is the integral of x^k N(x; mu, s^2) *)
Theorem int_xk_spec mu s a b k : 0 < s -> a < b ->
  int_xk R Rops mu s (Some a) (Some b) k = RInt (fun x => x ^ k * dens mu s x) a b.
Proof. intros Hs Hab. unfold int_xk. rewrite Zc_eq. apply moment_spec; auto. Qed.

Lemma E_x_some mu s a b : 0 < s -> a < b ->
  let al := (a - mu) / s in let be := (b - mu) / s in
  E_x R Rops mu s (Some a) (Some b) = mu + (phiR al - phiR be) / RInt phiR al be * s.
Proof.
intros Hs Hab al be. pose proof (RIphi_pos _ _ (std_lt mu s a b Hs Hab)) as HZ.
unfold E_x. rewrite Zc_eq. rewrite eqb_false by lra. reflexivity.
Qed.

Lemma Var_some mu s a b : 0 < s -> a < b ->
  let al := (a - mu) / s in let be := (b - mu) / s in
  let Z := RInt phiR al be in
  Var R Rops mu s (Some a) (Some b)
  = s * s * (1 - (be * phiR be - al * phiR al) / Z - (phiR al - phiR be) / Z * ((phiR al - phiR be) / Z)).
Proof.
intros Hs Hab al be Z. pose proof (RIphi_pos _ _ (std_lt mu s a b Hs Hab)) as HZ.
unfold Var. rewrite Zc_eq. rewrite eqb_false by lra. rewrite !xkphi_some.
cbn [TruncGen.add TruncGen.opp TruncGen.div TruncGen.sub TruncGen.mul TruncGen.ofnat TruncGen.one Rops phiAt std TruncGen.phi].
fold al be Z. rewrite !pow_1. reflexivity.
Qed.

Lemma RInt_x_dens mu s a b : 0 < s ->
  let al := (a - mu) / s in let be := (b - mu) / s in
  RInt (fun x => x * dens mu s x) a b = mu * RInt phiR al be + s * (phiR al - phiR be).
Proof.
intros Hs al be.
rewrite (RInt_ext _ (fun x => x ^ 1 * dens mu s x)).
2:{ intros x _. rewrite pow_1. reflexivity. }
rewrite RInt_xk_dens by auto. fold al be. simpl. rewrite J1, J0. ring.
Qed.

Lemma RInt_x2_dens mu s a b : 0 < s ->
  let al := (a - mu) / s in let be := (b - mu) / s in
  RInt (fun x => x ^ 2 * dens mu s x) a b
  = (mu * mu + s * s) * RInt phiR al be + 2 * mu * s * (phiR al - phiR be)
    - s * s * (be * phiR be - al * phiR al).
Proof.
intros Hs al be.
rewrite RInt_xk_dens by auto. fold al be. simpl. rewrite J_rec, J1, J0. simpl. ring.
Qed.

Theorem int_x_spec mu s a b : 0 < s -> a < b ->
  int_x R Rops mu s (Some a) (Some b) = RInt (fun x => x * dens mu s x) a b.
Proof.
intros Hs Hab. pose proof (RIphi_pos _ _ (std_lt mu s a b Hs Hab)) as HZ.
unfold int_x. rewrite E_x_some, Zc_eq, RInt_x_dens by auto.
cbn [TruncGen.mul Rops]. field. lra.
Qed.

Theorem int_x2_spec mu s a b : 0 < s -> a < b ->
  int_x2 R Rops mu s (Some a) (Some b) = RInt (fun x => x ^ 2 * dens mu s x) a b.
Proof.
intros Hs Hab. pose proof (RIphi_pos _ _ (std_lt mu s a b Hs Hab)) as HZ.
unfold int_x2. rewrite E_x_some, Var_some, Zc_eq, RInt_x2_dens by auto.
cbn [TruncGen.mul TruncGen.add Rops]. field. lra.
Qed.

(* integrals over adjacent intervals add up *)
Theorem int_xk_additive mu s a c b k : 0 < s -> a < c -> c < b ->
  int_xk R Rops mu s (Some a) (Some c) k + int_xk R Rops mu s (Some c) (Some b) k
  = int_xk R Rops mu s (Some a) (Some b) k.
Proof.
intros Hs Hac Hcb. rewrite !int_xk_spec by lra.
assert (Hex : forall u v, ex_RInt (fun x => x ^ k * dens mu s x) u v).
{ intros u v. apply (@ex_RInt_continuous R_CompleteNormedModule). intros x _.
  apply (continuous_mult (K:=R_AbsRing) (fun t => t ^ k) (dens mu s)).
  - apply (ex_derive_continuous (fun t => t ^ k)). auto_derive; auto.
  - unfold dens.
    apply continuous_ext with (f := fun x => scal (/ s) (phiR (/ s * x + - mu / s))).
    { intros t. unfold scal; simpl; unfold mult; simpl.
      replace (/ s * t + - mu / s) with ((t - mu) / s) by (field; lra). field; lra. }
    apply (continuous_scal_r (K:=R_AbsRing) (V:=R_NormedModule)).
    apply continuous_comp; [ | apply cont_phiR].
    apply (ex_derive_continuous (fun t => / s * t + - mu / s)). auto_derive; auto. }
apply (RInt_Chasles (fun x => x ^ k * dens mu s x) a c b); apply Hex.
Qed.

(* the normalised truncated density: exact truncated mean and variance *)
Theorem trunc_mean_spec mu s a b : 0 < s -> a < b ->
  E_x R Rops mu s (Some a) (Some b) = RInt (fun x => x * dens mu s x) a b / RInt (dens mu s) a b.
Proof.
intros Hs Hab. pose proof (RIphi_pos _ _ (std_lt mu s a b Hs Hab)) as HZ.
rewrite E_x_some, RInt_x_dens, RInt_dens by auto. field. lra.
Qed.

Theorem trunc_var_spec mu s a b : 0 < s -> a < b ->
  Var R Rops mu s (Some a) (Some b)
  = RInt (fun x => x ^ 2 * dens mu s x) a b / RInt (dens mu s) a b
    - (RInt (fun x => x * dens mu s x) a b / RInt (dens mu s) a b) ^ 2.
Proof.
intros Hs Hab. pose proof (RIphi_pos _ _ (std_lt mu s a b Hs Hab)) as HZ.
rewrite Var_some, RInt_x_dens, RInt_x2_dens, RInt_dens by auto. field. lra.
Qed.

(* support indicator: closed interval, an absent limit is infinite *)
Theorem in_limits_spec lo hi x :
  in_limits R Rops lo hi x = true <->
  (match lo with None => True | Some a => a <= x end) /\ (match hi with None => True | Some b => x <= b end).
Proof.
unfold in_limits. rewrite Bool.andb_true_iff.
assert (E : forall u v, TruncGen.leb R Rops u v = true <-> u <= v).
{ intros u v. simpl. destruct (Rle_dec u v); split; auto; discriminate. }
destruct lo, hi; rewrite ?E; tauto.
Qed.

(* general (possibly one-sided) limits: the model's pair recursion in unnormalised form *)
Lemma Ls_M mu s lo hi Z k : Z <> 0 ->
  Ls R Rops mu s lo hi Z k
  = (fst (Mpair Z (phiAt R Rops mu s lo) (phiAt R Rops mu s hi)
                  (xkphi R Rops mu s lo) (xkphi R Rops mu s hi) k) / Z,
     snd (Mpair Z (phiAt R Rops mu s lo) (phiAt R Rops mu s hi)
                  (xkphi R Rops mu s lo) (xkphi R Rops mu s hi) k) / Z).
Proof.
intros HZ. induction k.
- cbn [Ls Mpair fst snd].
  cbn [TruncGen.add TruncGen.opp TruncGen.div TruncGen.sub TruncGen.mul TruncGen.ofnat TruncGen.one Rops].
  f_equal; field; auto.
- cbn [Ls Mpair]. rewrite IHk.
  destruct (Mpair Z (phiAt R Rops mu s lo) (phiAt R Rops mu s hi)
                  (xkphi R Rops mu s lo) (xkphi R Rops mu s hi) k) as [u v].
  cbn [fst snd].
  cbn [TruncGen.add TruncGen.opp TruncGen.div TruncGen.sub TruncGen.mul TruncGen.ofnat TruncGen.one Rops].
  f_equal.
  generalize (INR (S k)) (xkphi R Rops mu s hi (S k)) (xkphi R Rops mu s lo (S k)). intros. field; auto.
Qed.

Lemma int_xk_M mu s lo hi k : Zc R Rops mu s lo hi <> 0 ->
  int_xk R Rops mu s lo hi k
  = sum_f_R0 (fun i => INR (binom k i) * s ^ i * mu ^ (k - i) *
       fst (Mpair (Zc R Rops mu s lo hi) (phiAt R Rops mu s lo) (phiAt R Rops mu s hi)
                  (xkphi R Rops mu s lo) (xkphi R Rops mu s hi) i)) k.
Proof.
intros HZ. unfold int_xk, moment. rewrite eqb_false by auto.
rewrite sum_upto_model. cbn [TruncGen.mul Rops].
rewrite Rmult_comm. rewrite scal_sum. apply sum_eq. intros i Hi.
unfold Lk. rewrite eqb_false by auto. rewrite Ls_M by auto. cbn [fst].
cbn [TruncGen.add TruncGen.opp TruncGen.div TruncGen.sub TruncGen.mul TruncGen.ofnat TruncGen.one Rops].
rewrite (pow_model s), (pow_model mu).
generalize (INR (binom k i)) (s ^ i) (mu ^ (k - i)).
generalize (fst (Mpair (Zc R Rops mu s lo hi) (phiAt R Rops mu s lo) (phiAt R Rops mu s hi)
                  (xkphi R Rops mu s lo) (xkphi R Rops mu s hi) i)).
intros. field. auto.
Qed.

Lemma PhiR_incr_lt x y : x < y -> PhiR x < PhiR y.
Proof. intros H. generalize (RIphi_pos x y H). rewrite <- PhiR_incr. lra. Qed.

(* one-sided intervals: with the cdf normalised at infinity, the lower-only / upper-only model values
   are the limits of the two-sided ones as the missing limit goes to infinity *)
Hypothesis PhiR_pinf : is_lim PhiR p_infty 1.
Hypothesis PhiR_minf : is_lim PhiR m_infty 0.

Lemma PhiR_lt_1 x : PhiR x < 1.
Proof.
assert (H : Rbar_le (PhiR (x + 1)) 1).
{ apply (is_lim_le_loc (fun _ => PhiR (x + 1)) PhiR p_infty); auto; [ | apply is_lim_const].
  exists (x + 1). intros y Hy. left. apply PhiR_incr_lt; auto. }
simpl in H. generalize (PhiR_incr_lt x (x + 1)). lra.
Qed.

Lemma PhiR_gt_0 x : 0 < PhiR x.
Proof.
assert (H : Rbar_le 0 (PhiR (x - 1))).
{ apply (is_lim_le_loc PhiR (fun _ => PhiR (x - 1)) m_infty); auto; [ | apply is_lim_const].
  exists (x - 1). intros y Hy. left. apply PhiR_incr_lt; auto. }
simpl in H. generalize (PhiR_incr_lt (x - 1) x). lra.
Qed.

Lemma J_lim_upper al i :
  let xa := fun k => al ^ k * phiR al in
  is_lim (fun be => J i al be) p_infty (fst (Mpair (1 - PhiR al) (phiR al) 0 xa (fun _ => 0) i)) /\
  is_lim (fun be => J (S i) al be) p_infty (snd (Mpair (1 - PhiR al) (phiR al) 0 xa (fun _ => 0) i)).
Proof.
intros xa. induction i.
- cbn [Mpair fst snd]. split.
  + apply (is_lim_ext (fun be => PhiR be - PhiR al)).
    { intros be. rewrite J0. apply PhiR_incr. }
    apply is_lim_minus'; auto. apply is_lim_const.
  + apply (is_lim_ext (fun be => - (phiR be - phiR al))).
    { intros be. rewrite J1. reflexivity. }
    apply (is_lim_opp (fun be => phiR be - phiR al) p_infty (0 - phiR al)).
    apply is_lim_minus'; [ | apply is_lim_const].
    apply (is_lim_ext (fun x => x ^ 0 * phiR x)); [intros; simpl; ring | apply lim_xn_phiR_p].
- destruct IHi as [IH1 IH2]. cbn [Mpair].
  destruct (Mpair (1 - PhiR al) (phiR al) 0 xa (fun _ : nat => 0) i) as [u v]. cbn [fst snd] in *.
  split; auto.
  apply (is_lim_ext (fun be => - (be ^ (S i) * phiR be - xa (S i)) + INR (S i) * J i al be)).
  { intros be. rewrite J_rec. reflexivity. }
  apply is_lim_rec_step; auto; [apply lim_xn_phiR_p | apply is_lim_const].
Qed.

Lemma J_lim_lower be i :
  let xb := fun k => be ^ k * phiR be in
  is_lim (fun al => J i al be) m_infty (fst (Mpair (PhiR be - 0) 0 (phiR be) (fun _ => 0) xb i)) /\
  is_lim (fun al => J (S i) al be) m_infty (snd (Mpair (PhiR be - 0) 0 (phiR be) (fun _ => 0) xb i)).
Proof.
intros xb. induction i.
- cbn [Mpair fst snd]. split.
  + apply (is_lim_ext (fun al => PhiR be - PhiR al)).
    { intros al. rewrite J0. apply PhiR_incr. }
    apply is_lim_minus'; auto. apply is_lim_const.
  + apply (is_lim_ext (fun al => - (phiR be - phiR al))).
    { intros al. rewrite J1. reflexivity. }
    apply (is_lim_opp (fun al => phiR be - phiR al) m_infty (phiR be - 0)).
    apply is_lim_minus'; [apply is_lim_const | ].
    apply (is_lim_ext (fun x => x ^ 0 * phiR x)); [intros; simpl; ring | apply lim_xn_phiR_m].
- destruct IHi as [IH1 IH2]. cbn [Mpair].
  destruct (Mpair (PhiR be - 0) 0 (phiR be) (fun _ : nat => 0) xb i) as [u v]. cbn [fst snd] in *.
  split; auto.
  apply (is_lim_ext (fun al => - (xb (S i) - al ^ (S i) * phiR al) + INR (S i) * J i al be)).
  { intros al. rewrite J_rec. reflexivity. }
  apply is_lim_rec_step; auto; [apply is_lim_const | apply lim_xn_phiR_m].
Qed.

Theorem int_xk_upper_limit mu s a k : 0 < s ->
  is_lim (fun b => int_xk R Rops mu s (Some a) (Some b) k) p_infty (int_xk R Rops mu s (Some a) None k).
Proof.
intros Hs.
assert (HZ : Zc R Rops mu s (Some a) None <> 0).
{ unfold Zc, PhiHi, PhiLo, std. cbn [TruncGen.sub TruncGen.one TruncGen.Phi TruncGen.div Rops].
  generalize (PhiR_lt_1 ((a - mu) / s)). lra. }
rewrite int_xk_M by auto.
apply (is_lim_ext_loc (fun b => sum_f_R0 (fun i => INR (binom k i) * s ^ i * mu ^ (k - i) *
          (fun b => J i ((a - mu) / s) ((b - mu) / s)) b) k)).
{ exists a. intros b Hab. rewrite int_xk_spec by auto. rewrite RInt_xk_dens by auto. reflexivity. }
apply (is_lim_sum (fun i => INR (binom k i) * s ^ i * mu ^ (k - i))
                  (fun i b => J i ((a - mu) / s) ((b - mu) / s))).
intros i. apply (is_lim_std_p (fun be => J i ((a - mu) / s) be)); auto.
apply (J_lim_upper ((a - mu) / s) i).
Qed.

Theorem int_xk_lower_limit mu s b k : 0 < s ->
  is_lim (fun a => int_xk R Rops mu s (Some a) (Some b) k) m_infty (int_xk R Rops mu s None (Some b) k).
Proof.
intros Hs.
assert (HZ : Zc R Rops mu s None (Some b) <> 0).
{ unfold Zc, PhiHi, PhiLo, std. cbn [TruncGen.sub TruncGen.zero TruncGen.Phi TruncGen.div Rops].
  generalize (PhiR_gt_0 ((b - mu) / s)). lra. }
rewrite int_xk_M by auto.
apply (is_lim_ext_loc (fun a => sum_f_R0 (fun i => INR (binom k i) * s ^ i * mu ^ (k - i) *
          (fun a => J i ((a - mu) / s) ((b - mu) / s)) a) k)).
{ exists b. intros a Hab. rewrite int_xk_spec by auto. rewrite RInt_xk_dens by auto. reflexivity. }
apply (is_lim_sum (fun i => INR (binom k i) * s ^ i * mu ^ (k - i))
                  (fun i a => J i ((a - mu) / s) ((b - mu) / s))).
intros i. apply (is_lim_std_m (fun al => J i al ((b - mu) / s))); auto.
apply (J_lim_lower ((b - mu) / s) i).
Qed.

End C20.

Print Assumptions pow_model.
Print Assumptions int_1_spec.
Print Assumptions int_xk_spec.
Print Assumptions int_x_spec.
Print Assumptions int_x2_spec.
Print Assumptions int_xk_additive.
Print Assumptions trunc_mean_spec.
Print Assumptions trunc_var_spec.
Print Assumptions in_limits_spec.
Print Assumptions int_xk_upper_limit.
Print Assumptions int_xk_lower_limit.
