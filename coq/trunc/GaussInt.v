(* The Gaussian integral  int_0^oo exp(-x^2/2) dx = sqrt(2 PI)/2  and a concrete standard normal cdf Phi0
   (classical proof: F t = (int_0^t e)^2, G t = int_0^1 2 exp(-t^2(1+x^2)/2)/(1+x^2) dx, (F+G)' = 0). *)
From Coq Require Import Reals Lra Lia.
From Coquelicot Require Import Coquelicot.
From GT Require Import TruncGen C20_proofs.
Open Scope R_scope.

(* ---------- the unnormalised integrand ---------- *)
Definition ge (x : R) : R := exp (- (x * x) / 2).

Lemma ge_pos x : 0 < ge x.
Proof. apply exp_pos. Qed.

Lemma cont_ge x : continuous ge x.
Proof.
apply (ex_derive_continuous ge). unfold ge. auto_derive; auto.
Qed.

Lemma exI_ge a b : ex_RInt ge a b.
Proof. apply (@ex_RInt_continuous R_CompleteNormedModule). intros x _. apply cont_ge. Qed.

Definition gI (t : R) : R := RInt ge 0 t.

Lemma gI_0 : gI 0 = 0.
Proof. unfold gI. apply (@RInt_point R_CompleteNormedModule). Qed.

Lemma gI_derive (t : R) : is_derive gI t (ge t).
Proof.
apply (is_derive_RInt ge gI 0 t).
- apply filter_forall. intros y. apply (@RInt_correct R_CompleteNormedModule). apply exI_ge.
- apply cont_ge.
Qed.

Lemma gI_nonneg t : 0 <= t -> 0 <= gI t.
Proof.
intros Ht. unfold gI. apply RInt_ge_0; auto. apply exI_ge. intros x _. left. apply ge_pos.
Qed.

Definition gF (t : R) : R := gI t * gI t.

Lemma gF_derive (t : R) : is_derive gF t (2 * ge t * gI t).
Proof.
unfold gF. evar_last.
- apply (is_derive_mult gI gI t (ge t) (ge t)); try apply gI_derive.
  intros; apply Rmult_comm.
- unfold plus, mult; simpl. ring.
Qed.

(* ---------- the auxiliary parametrised integral ---------- *)
Definition gg (t x : R) : R := 2 * exp (- (t * t) * (1 + x * x) / 2) / (1 + x * x).
Definition dgg (t x : R) : R := - 2 * t * exp (- (t * t) * (1 + x * x) / 2).

Lemma one_xx_pos x : 0 < 1 + x * x.
Proof. nra. Qed.

Lemma gg_derive (x t : R) : is_derive (fun u => gg u x) t (dgg t x).
Proof.
unfold gg, dgg. generalize (one_xx_pos x). intros Hx.
auto_derive.
- lra.
- unfold Rdiv. generalize (exp (- (t * t) * (1 + x * x) * / 2)). intros. field. lra.
Qed.

Lemma gg_Derive (x t : R) : Derive (fun u => gg u x) t = dgg t x.
Proof. apply is_derive_unique. apply gg_derive. Qed.

Lemma cont_gg t x : continuous (gg t) x.
Proof.
apply (ex_derive_continuous (gg t)). unfold gg. generalize (one_xx_pos x). intros Hx.
auto_derive. lra.
Qed.

Lemma exI_gg t a b : ex_RInt (gg t) a b.
Proof. apply (@ex_RInt_continuous R_CompleteNormedModule). intros x _. apply cont_gg. Qed.

Lemma cont2_dgg t x : continuity_2d_pt dgg t x.
Proof.
unfold dgg.
apply continuity_2d_pt_mult.
- apply continuity_2d_pt_mult.
  + apply continuity_2d_pt_const.
  + apply continuity_2d_pt_id1.
- apply (continuity_1d_2d_pt_comp exp (fun u v => - (u * u) * (1 + v * v) / 2)).
  + apply derivable_continuous_pt. apply derivable_pt_exp.
  + unfold Rdiv. apply continuity_2d_pt_mult; [ | apply continuity_2d_pt_const].
    apply continuity_2d_pt_mult.
    * apply continuity_2d_pt_opp. apply continuity_2d_pt_mult; apply continuity_2d_pt_id1.
    * apply continuity_2d_pt_plus; [apply continuity_2d_pt_const | ].
      apply continuity_2d_pt_mult; apply continuity_2d_pt_id2.
Qed.

Definition gG (t : R) : R := RInt (gg t) 0 1.

Lemma gG_derive (t : R) : is_derive gG t (RInt (dgg t) 0 1).
Proof.
unfold gG.
rewrite (RInt_ext (dgg t) (fun x => Derive (fun u => gg u x) t)).
2:{ intros x _. symmetry. apply gg_Derive. }
apply (is_derive_RInt_param gg 0 1 t).
- apply filter_forall. intros y x _. eexists. apply gg_derive.
- intros x _.
  apply (continuity_2d_pt_ext dgg).
  + intros u v. symmetry. apply gg_Derive.
  + apply cont2_dgg.
- apply filter_forall. intros y. apply exI_gg.
Qed.

Lemma dgg_split (t x : R) : dgg t x = scal (- 2 * ge t) (scal t (ge (t * x + 0))).
Proof.
unfold dgg, ge, scal; simpl. unfold mult; simpl.
replace (- (t * t) * (1 + x * x) / 2) with (- (t * t) / 2 + - ((t * x + 0) * (t * x + 0)) / 2) by field.
rewrite exp_plus. ring.
Qed.

Lemma RInt_dgg (t : R) : RInt (dgg t) 0 1 = - 2 * ge t * gI t.
Proof.
rewrite (RInt_ext (dgg t) (fun x => scal (- 2 * ge t) (scal t (ge (t * x + 0))))).
2:{ intros x _. apply dgg_split. }
assert (E : ex_RInt ge (t * 0 + 0) (t * 1 + 0)) by apply exI_ge.
rewrite (@RInt_scal R_CompleteNormedModule).
2:{ eexists. apply (@is_RInt_comp_lin R_CompleteNormedModule). apply (@RInt_correct R_CompleteNormedModule). exact E. }
rewrite (@RInt_comp_lin R_CompleteNormedModule) by exact E.
unfold gI, scal; simpl. unfold mult; simpl.
replace (t * 0 + 0) with 0 by ring. replace (t * 1 + 0) with t by ring. reflexivity.
Qed.

Definition gH (t : R) : R := gF t + gG t.

Lemma gH_derive (t : R) : is_derive gH t 0.
Proof.
unfold gH. evar_last.
- apply (is_derive_plus (V:=R_NormedModule) gF gG t). apply gF_derive. apply gG_derive.
- rewrite RInt_dgg. unfold plus; simpl. ring.
Qed.

Lemma gH_const (t : R) : gH t = gH 0.
Proof.
assert (H : is_RInt (fun _ : R => 0) 0 t (minus (gH t) (gH 0))).
{ apply (is_RInt_derive gH (fun _ => 0)).
  - intros x _. apply gH_derive.
  - intros x _. apply continuous_const. }
pose proof (@is_RInt_const R_NormedModule 0 t 0) as H0.
pose proof (is_RInt_unique _ _ _ _ H) as E1.
pose proof (is_RInt_unique _ _ _ _ H0) as E2.
rewrite E1 in E2. unfold minus, plus, Hierarchy.opp, scal in E2; simpl in E2. unfold mult in E2; simpl in E2. lra.
Qed.

(* ---------- the constant: F 0 + G 0 = PI / 2 ---------- *)
Lemma gG_0 : gG 0 = PI / 2.
Proof.
unfold gG.
assert (H : is_RInt (fun x => 2 * / (1 + x * x)) 0 1 (minus (2 * atan 1) (2 * atan 0))).
{ apply (is_RInt_derive (fun x => 2 * atan x) (fun x => 2 * / (1 + x * x))).
  - intros x _. generalize (one_xx_pos x). intros Hx. auto_derive; auto. field. nra.
  - intros x _. generalize (one_xx_pos x). intros Hx.
    apply (ex_derive_continuous (fun x => 2 * / (1 + x * x))). auto_derive. lra. }
rewrite (RInt_ext (gg 0) (fun x => 2 * / (1 + x * x))).
2:{ intros x _. unfold gg. assert (E : - (0 * 0) * (1 + x * x) / 2 = 0) by field. rewrite E, exp_0. unfold Rdiv. apply (f_equal (fun y : R => y * / (1 + x * x))). apply Rmult_1_r. }
rewrite (is_RInt_unique _ _ _ _ H).
rewrite atan_1, atan_0. unfold minus, plus, Hierarchy.opp; simpl. field.
Qed.

Lemma gH_0 : gH 0 = PI / 2.
Proof. unfold gH, gF. rewrite gI_0, gG_0. ring. Qed.

Lemma gF_eq (t : R) : gF t = PI / 2 - gG t.
Proof. generalize (gH_const t). rewrite gH_0. unfold gH. lra. Qed.

(* ---------- 0 <= G t <= 2 exp(-t^2/2) ---------- *)
Lemma gg_bounds (t x : R) : 0 <= gg t x <= 2 * ge t.
Proof.
unfold gg, ge. generalize (one_xx_pos x). intros Hx.
assert (H1 : exp (- (t * t) * (1 + x * x) / 2) <= exp (- (t * t) / 2)).
{ destruct (Req_dec (t * t * (x * x)) 0) as [E|E].
  - right. f_equal. nra.
  - left. apply exp_increasing. assert (0 <= t * t * (x * x)) by (apply Rmult_le_pos; nra). nra. }
generalize (exp_pos (- (t * t) * (1 + x * x) / 2)) H1.
generalize (exp (- (t * t) * (1 + x * x) / 2)) (exp (- (t * t) / 2)). intros u v Hu Huv.
assert (Hi : 0 < / (1 + x * x) <= 1).
{ split. apply Rinv_0_lt_compat; auto. apply Rle_trans with (/ 1); [apply Rinv_le_contravar; nra | rewrite Rinv_1; lra]. }
unfold Rdiv. generalize Hi. generalize (/ (1 + x * x)). intros w Hw. split; nra.
Qed.

Lemma gG_bounds (t : R) : 0 <= gG t <= 2 * ge t.
Proof.
unfold gG. split.
- apply RInt_ge_0. lra. apply exI_gg. intros x _. apply gg_bounds.
- replace (2 * ge t) with (RInt (fun _ => 2 * ge t) 0 1).
  + apply RInt_le. lra. apply exI_gg. apply ex_RInt_const. intros x _. apply gg_bounds.
  + rewrite RInt_const. unfold scal; simpl. unfold mult; simpl. ring.
Qed.

Lemma ge_lim : is_lim ge p_infty 0.
Proof.
apply (is_lim_0_squeeze _ (fun x => x * exp (- (/ 2 * (x * x))))).
- exists 1. intros x Hx. unfold ge. replace (- (x * x) / 2) with (- (/ 2 * (x * x))) by field.
  generalize (exp_pos (- (/ 2 * (x * x)))). intros. split; nra.
- apply lim_x_exp. lra.
Qed.

Lemma gG_lim : is_lim gG p_infty 0.
Proof.
apply (is_lim_0_squeeze _ (fun t => 2 * ge t)).
- exists 0. intros t _. apply gG_bounds.
- replace (Finite 0) with (Rbar_mult 2 0) by (simpl; f_equal; ring).
  apply is_lim_scal_l. apply ge_lim.
Qed.

Lemma gF_lim : is_lim gF p_infty (PI / 2).
Proof.
apply (is_lim_ext (fun t => PI / 2 - gG t)).
- intros t. symmetry. apply gF_eq.
- replace (Finite (PI / 2)) with (Finite (PI / 2 - 0)) by (f_equal; ring).
  apply is_lim_minus'. apply is_lim_const. apply gG_lim.
Qed.

Lemma sqrt_half_PI : sqrt (PI / 2) = sqrt (2 * PI) / 2.
Proof.
generalize PI_RGT_0. intros HP.
replace (PI / 2) with ((2 * PI) / (2 * 2)) by (field).
rewrite sqrt_div_alt by lra. rewrite sqrt_square by lra. reflexivity.
Qed.

Theorem gauss_half_line : is_lim (fun t => RInt (fun x => exp (- (x * x) / 2)) 0 t) p_infty (sqrt (2 * PI) / 2).
Proof.
change (is_lim gI p_infty (sqrt (2 * PI) / 2)).
rewrite <- sqrt_half_PI.
apply (is_lim_ext_loc (fun t => sqrt (gF t))).
- exists 0. intros t Ht. unfold gF. apply sqrt_square. apply gI_nonneg. lra.
- apply (is_lim_comp_continuous gF sqrt p_infty (PI / 2)). apply gF_lim. apply continuous_sqrt.
Qed.
Print Assumptions gauss_half_line.

(* ---------- the standard normal cdf ---------- *)
Definition Phi0 (x : R) : R := / 2 + RInt phiR 0 x.

Lemma Phi0_incr : forall x y, Phi0 y - Phi0 x = RInt phiR x y.
Proof.
intros x y. unfold Phi0.
rewrite <- (RInt_Chasles phiR 0 x y (exI_phiR 0 x) (exI_phiR x y)).
unfold plus; simpl. ring.
Qed.
Print Assumptions Phi0_incr.

Lemma RInt_phiR_ge a b : RInt phiR a b = RInt ge a b / sqrt (2 * PI).
Proof.
rewrite (RInt_ext phiR (fun x => scal (/ sqrt (2 * PI)) (ge x))).
2:{ intros x _. unfold phiR, ge, scal; simpl. unfold mult; simpl. unfold Rdiv. apply Rmult_comm. }
rewrite (@RInt_scal R_CompleteNormedModule) by apply exI_ge.
unfold scal; simpl. unfold mult; simpl. unfold Rdiv. apply Rmult_comm.
Qed.

Lemma RInt_phiR_pinf : is_lim (fun t => RInt phiR 0 t) p_infty (/ 2).
Proof.
apply (is_lim_ext (fun t => RInt ge 0 t * / sqrt (2 * PI))).
- intros t. rewrite RInt_phiR_ge. reflexivity.
- replace (Finite (/ 2)) with (Rbar_mult (sqrt (2 * PI) / 2) (/ sqrt (2 * PI))).
  + apply is_lim_scal_r. apply gauss_half_line.
  + simpl. f_equal. field. generalize sqrt2PI_pos. lra.
Qed.

Theorem Phi0_pinf : is_lim Phi0 p_infty 1.
Proof.
unfold Phi0. replace (Finite 1) with (Finite (/ 2 + / 2)) by (f_equal; field).
apply is_lim_plus'. apply is_lim_const. apply RInt_phiR_pinf.
Qed.
Print Assumptions Phi0_pinf.

Lemma RInt_phiR_neg (t : R) : RInt phiR 0 (- t) = - RInt phiR 0 t.
Proof.
assert (H : is_RInt (fun y => Hierarchy.opp (phiR (- y))) 0 t (RInt phiR (- 0) (- t))).
{ apply (@is_RInt_comp_opp R_NormedModule). apply (@RInt_correct R_CompleteNormedModule). apply exI_phiR. }
apply (@is_RInt_unique R_CompleteNormedModule) in H.
rewrite (RInt_ext _ (fun y => Hierarchy.opp (phiR y))) in H by (intros x _; rewrite phiR_even; reflexivity).
rewrite (@RInt_opp R_CompleteNormedModule) in H by apply exI_phiR.
rewrite Ropp_0 in H. rewrite <- H. reflexivity.
Qed.

Theorem Phi0_minf : is_lim Phi0 m_infty 0.
Proof.
apply is_lim_m_of_p. unfold Phi0.
apply (is_lim_ext (fun t => / 2 - RInt phiR 0 t)).
- intros t. rewrite RInt_phiR_neg. ring.
- replace (Finite 0) with (Finite (/ 2 - / 2)) by (f_equal; field).
  apply is_lim_minus'. apply is_lim_const. apply RInt_phiR_pinf.
Qed.
Print Assumptions Phi0_minf.

(* ---------- the Gaussian integral over the whole line ---------- *)
Lemma is_RInt_gen_right (f : R -> R) (a : R) (F : (R -> Prop) -> Prop) {FF : Filter F} (l : R) :
  (forall x y, ex_RInt f x y) ->
  filterlim (fun b => RInt f a b) F (locally l) ->
  is_RInt_gen f (at_point a) F l.
Proof.
intros Hex Hl. unfold is_RInt_gen.
apply (filterlimi_lim_ext (fun ab => RInt f (fst ab) (snd ab))).
- intros [x y]. simpl. apply (@RInt_correct R_CompleteNormedModule). apply Hex.
- intros P HP. unfold filtermap.
  apply (Filter_prod _ _ _ (fun x => x = a) (fun b => P (RInt f a b))).
  + reflexivity.
  + apply Hl. exact HP.
  + intros x y -> Hy. exact Hy.
Qed.

Lemma is_RInt_gen_left (f : R -> R) (b : R) (F : (R -> Prop) -> Prop) {FF : Filter F} (l : R) :
  (forall x y, ex_RInt f x y) ->
  filterlim (fun a => RInt f a b) F (locally l) ->
  is_RInt_gen f F (at_point b) l.
Proof.
intros Hex Hl. unfold is_RInt_gen.
apply (filterlimi_lim_ext (fun ab => RInt f (fst ab) (snd ab))).
- intros [x y]. simpl. apply (@RInt_correct R_CompleteNormedModule). apply Hex.
- intros P HP. unfold filtermap.
  apply (Filter_prod _ _ _ (fun a => P (RInt f a b)) (fun y => y = b)).
  + apply Hl. exact HP.
  + reflexivity.
  + intros x y Hx ->. exact Hx.
Qed.

Lemma ge_even (x : R) : ge (- x) = ge x.
Proof. unfold ge. replace (- x * - x) with (x * x) by ring. reflexivity. Qed.

Lemma RInt_ge_neg (t : R) : RInt ge (- t) 0 = RInt ge 0 t.
Proof.
assert (H : is_RInt (fun y => Hierarchy.opp (ge (- y))) 0 t (RInt ge (- 0) (- t))).
{ apply (@is_RInt_comp_opp R_NormedModule). apply (@RInt_correct R_CompleteNormedModule). apply exI_ge. }
apply (@is_RInt_unique R_CompleteNormedModule) in H.
rewrite (RInt_ext _ (fun y => Hierarchy.opp (ge y))) in H by (intros x _; rewrite ge_even; reflexivity).
rewrite (@RInt_opp R_CompleteNormedModule) in H by apply exI_ge.
rewrite Ropp_0 in H. rewrite <- (@opp_RInt_swap R_CompleteNormedModule) by apply exI_ge.
rewrite <- H. unfold Hierarchy.opp; simpl. ring.
Qed.

Lemma gauss_half_line_m : is_lim (fun t => RInt ge t 0) m_infty (sqrt (2 * PI) / 2).
Proof.
apply is_lim_m_of_p.
apply (is_lim_ext (fun t => RInt ge 0 t)).
- intros t. symmetry. apply RInt_ge_neg.
- apply gauss_half_line.
Qed.

Theorem gauss_integral :
  is_RInt_gen (fun x => exp (- (x * x) / 2)) (Rbar_locally m_infty) (Rbar_locally p_infty) (sqrt (2 * PI)).
Proof.
change (is_RInt_gen ge (Rbar_locally m_infty) (Rbar_locally p_infty) (sqrt (2 * PI))).
replace (sqrt (2 * PI)) with (plus (sqrt (2 * PI) / 2) (sqrt (2 * PI) / 2)) by (unfold plus; simpl; field).
apply (is_RInt_gen_Chasles (V:=R_NormedModule) ge 0).
- exact (@is_RInt_gen_left ge 0 (Rbar_locally m_infty) _ _ exI_ge gauss_half_line_m).
- exact (@is_RInt_gen_right ge 0 (Rbar_locally p_infty) _ _ exI_ge gauss_half_line).
Qed.
Print Assumptions gauss_integral.
