(* First and second moments of a multivariate Gaussian as ITERATED improper Riemann integrals:
     int_{R^D} (l.x + l0) exp(-x'Lx/2 + nu'x + c) dx = gmeanR D L nu l l0 * exp(gvalR D L nu + c),
   by induction on D: the class "affine times Gaussian" is closed under eliminating one variable. *)
From Coq Require Import Reals Lra Lia.
From Coquelicot Require Import Coquelicot.
From GT Require Import TruncGen C20_proofs GaussInt GaussND.
Open Scope R_scope.

(* ------------------------------------------------------------------ *)
(* 1. improper integral of a derivative over the whole line            *)
(* ------------------------------------------------------------------ *)
Lemma is_RInt_gen_derive_line (F f : R -> R) (lm lp : R) :
  (forall x : R, is_derive F x (f x)) -> (forall x : R, continuous f x) ->
  is_lim F m_infty lm -> is_lim F p_infty lp ->
  is_RInt_gen f (Rbar_locally m_infty) (Rbar_locally p_infty) (lp - lm).
Proof.
intros HD HC Hm Hp. unfold is_RInt_gen.
apply (filterlimi_lim_ext (fun ab : R * R => plus (F (snd ab)) (Hierarchy.opp (F (fst ab))))).
- intros [x y]. simpl.
  apply (is_RInt_derive F f x y).
  + intros z _. apply HD.
  + intros z _. apply HC.
- change (lp - lm) with (plus lp (Hierarchy.opp lm)).
  apply (filterlim_comp_2 (fun ab : R * R => F (snd ab)) (fun ab : R * R => Hierarchy.opp (F (fst ab))) plus
           (G := locally lp) (H := locally (Hierarchy.opp lm))).
  + apply (filterlim_comp _ _ _ (@snd R R) F _ (Rbar_locally p_infty)).
    * apply filterlim_snd.
    * exact Hp.
  + apply (filterlim_comp _ _ _ (fun ab : R * R => F (fst ab)) Hierarchy.opp _ (locally lm)).
    * apply (filterlim_comp _ _ _ (@fst R R) F _ (Rbar_locally m_infty)).
      -- apply filterlim_fst.
      -- exact Hm.
    * apply (filterlim_opp (V := R_NormedModule)).
  + apply (filterlim_plus (V := R_NormedModule)).
Qed.

(* ------------------------------------------------------------------ *)
(* 2. decay of the Gaussian kernel with general coefficients           *)
(* ------------------------------------------------------------------ *)
Definition gq (a b c t : R) : R := exp (- (a * t * t) / 2 + b * t + c).

Lemma gq_pos a b c t : 0 < gq a b c t.
Proof. apply exp_pos. Qed.

Lemma gq_bound a b c t : 0 < a ->
  gq a b c t <= exp (b * b / a + c) * exp (- (a / 4 * (t * t))).
Proof.
intros Ha. unfold gq. rewrite <- exp_plus.
assert (H : b * b / a + c + - (a / 4 * (t * t)) - (- (a * t * t) / 2 + b * t + c)
            = a / 4 * ((t - 2 * b / a) * (t - 2 * b / a))) by (field; lra).
assert (H0 : 0 <= a / 4 * ((t - 2 * b / a) * (t - 2 * b / a))).
{ apply Rmult_le_pos; [lra | ]. generalize (t - 2 * b / a). intros z. nra. }
destruct (Rle_lt_or_eq_dec _ _ H0) as [Hlt | Heq].
- left. apply exp_increasing. lra.
- right. f_equal. lra.
Qed.

Lemma lim_t_gq_p a b c : 0 < a -> is_lim (fun t => t * gq a b c t) p_infty 0.
Proof.
intros Ha.
assert (Hc : 0 < a / 4) by lra.
apply (is_lim_0_squeeze _ (fun t => exp (b * b / a + c) * (t * exp (- (a / 4 * (t * t)))))).
- exists 0. intros t Ht.
  replace (exp (b * b / a + c) * (t * exp (- (a / 4 * (t * t))))) with (t * (exp (b * b / a + c) * exp (- (a / 4 * (t * t))))) by ring.
  generalize (gq_pos a b c t) (gq_bound a b c t Ha).
  generalize (gq a b c t) (exp (b * b / a + c) * exp (- (a / 4 * (t * t)))).
  intros u v Hu Huv. split; nra.
- replace (Finite 0) with (Rbar_mult (exp (b * b / a + c)) 0) by (simpl; f_equal; ring).
  apply is_lim_scal_l. apply lim_x_exp. exact Hc.
Qed.

Lemma lim_gq_p a b c : 0 < a -> is_lim (gq a b c) p_infty 0.
Proof.
intros Ha.
apply (is_lim_0_squeeze _ (fun t => t * gq a b c t)); [ | apply lim_t_gq_p; exact Ha].
exists 1. intros t Ht. generalize (gq_pos a b c t). intros Hp. split; nra.
Qed.

Lemma gq_neg a b c t : gq a b c (- t) = gq a (- b) c t.
Proof. unfold gq. apply (f_equal exp). field. Qed.

Lemma lim_gq_m a b c : 0 < a -> is_lim (gq a b c) m_infty 0.
Proof.
intros Ha. apply is_lim_m_of_p.
apply (is_lim_ext (gq a (- b) c)).
- intros t. symmetry. apply gq_neg.
- apply lim_gq_p. exact Ha.
Qed.

Lemma lim_t_gq_m a b c : 0 < a -> is_lim (fun t => t * gq a b c t) m_infty 0.
Proof.
intros Ha. apply is_lim_m_of_p.
apply (is_lim_ext (fun t => - (t * gq a (- b) c t))).
- intros t. rewrite gq_neg. ring.
- replace (Finite 0) with (Rbar_opp 0) by (simpl; f_equal; ring).
  apply is_lim_opp. apply lim_t_gq_p. exact Ha.
Qed.

(* ------------------------------------------------------------------ *)
(* 3. one-dimensional moments                                          *)
(* ------------------------------------------------------------------ *)
Lemma gq_derive a b c (t : R) : is_derive (gq a b c) t ((b - a * t) * gq a b c t).
Proof.
unfold gq. auto_derive; auto. unfold Rdiv.
generalize (exp (- (a * t * t) * / 2 + b * t + c)). intros e. field.
Qed.

Lemma tgq_derive a b c (t : R) :
  is_derive (fun s => s * gq a b c s) t ((1 + b * t - a * t * t) * gq a b c t).
Proof.
unfold gq. auto_derive; auto. unfold Rdiv.
generalize (exp (- (a * t * t) * / 2 + b * t + c)). intros e. field.
Qed.

Lemma cont_dgq a b c (t : R) : continuous (fun s => (b - a * s) * gq a b c s) t.
Proof.
apply (ex_derive_continuous (fun s => (b - a * s) * gq a b c s)). unfold gq. auto_derive; auto.
Qed.

Lemma cont_dtgq a b c (t : R) : continuous (fun s => (1 + b * s - a * s * s) * gq a b c s) t.
Proof.
apply (ex_derive_continuous (fun s => (1 + b * s - a * s * s) * gq a b c s)). unfold gq. auto_derive; auto.
Qed.

Lemma gauss_1d_d0 a b c : 0 < a ->
  is_RInt_gen (fun t => (b - a * t) * gq a b c t) (Rbar_locally m_infty) (Rbar_locally p_infty) 0.
Proof.
intros Ha. replace 0 with (0 - 0) by ring.
apply (is_RInt_gen_derive_line (gq a b c)).
- intros t. apply gq_derive.
- intros t. apply cont_dgq.
- apply lim_gq_m. exact Ha.
- apply lim_gq_p. exact Ha.
Qed.

Lemma gauss_1d_d1 a b c : 0 < a ->
  is_RInt_gen (fun t => (1 + b * t - a * t * t) * gq a b c t) (Rbar_locally m_infty) (Rbar_locally p_infty) 0.
Proof.
intros Ha. replace 0 with (0 - 0) by ring.
apply (is_RInt_gen_derive_line (fun t => t * gq a b c t)).
- intros t. apply tgq_derive.
- intros t. apply cont_dtgq.
- apply lim_t_gq_m. exact Ha.
- apply lim_t_gq_p. exact Ha.
Qed.

(* 1-D: first moment *)
Theorem gauss_1d_t a b c : 0 < a ->
  is_RInt_gen (fun t => t * exp (- (a * t * t) / 2 + b * t + c)) (Rbar_locally m_infty) (Rbar_locally p_infty)
              (b / a * exp (ln (2 * PI / a) / 2 + b * b / (2 * a) + c)).
Proof.
intros Ha.
pose proof (is_RInt_gen_scal _ (b / a) _ (gauss_1d a b c Ha)) as H1.
pose proof (is_RInt_gen_scal _ (- / a) _ (gauss_1d_d0 a b c Ha)) as H2.
pose proof (is_RInt_gen_plus _ _ _ _ H1 H2) as H3.
replace (b / a * exp (ln (2 * PI / a) / 2 + b * b / (2 * a) + c))
  with (plus (scal (b / a) (exp (ln (2 * PI / a) / 2 + b * b / (2 * a) + c))) (scal (- / a) 0)).
- revert H3. apply is_RInt_gen_ext_eq_line. intros t.
  unfold plus, scal; simpl. unfold mult; simpl. unfold gq.
  generalize (exp (- (a * t * t) / 2 + b * t + c)). intros e. field. lra.
- unfold plus, scal; simpl. unfold mult; simpl. ring.
Qed.
Print Assumptions gauss_1d_t.

(* hence for an affine prefactor *)
Corollary gauss_1d_aff a b c al be : 0 < a ->
  is_RInt_gen (fun t => (al * t + be) * exp (- (a * t * t) / 2 + b * t + c)) (Rbar_locally m_infty) (Rbar_locally p_infty)
              ((al * b / a + be) * exp (ln (2 * PI / a) / 2 + b * b / (2 * a) + c)).
Proof.
intros Ha.
pose proof (is_RInt_gen_scal _ al _ (gauss_1d_t a b c Ha)) as H1.
pose proof (is_RInt_gen_scal _ be _ (gauss_1d a b c Ha)) as H2.
pose proof (is_RInt_gen_plus _ _ _ _ H1 H2) as H3.
replace ((al * b / a + be) * exp (ln (2 * PI / a) / 2 + b * b / (2 * a) + c))
  with (plus (scal al (b / a * exp (ln (2 * PI / a) / 2 + b * b / (2 * a) + c)))
             (scal be (exp (ln (2 * PI / a) / 2 + b * b / (2 * a) + c)))).
- revert H3. apply is_RInt_gen_ext_eq_line. intros t.
  unfold plus, scal; simpl. unfold mult; simpl. ring.
- unfold plus, scal; simpl. unfold mult; simpl. field. lra.
Qed.
Print Assumptions gauss_1d_aff.

(* 1-D: second moment *)
Theorem gauss_1d_tt a b c : 0 < a ->
  is_RInt_gen (fun t => t * t * exp (- (a * t * t) / 2 + b * t + c)) (Rbar_locally m_infty) (Rbar_locally p_infty)
              ((/ a + (b / a) * (b / a)) * exp (ln (2 * PI / a) / 2 + b * b / (2 * a) + c)).
Proof.
intros Ha.
pose proof (is_RInt_gen_scal _ (/ a) _ (gauss_1d a b c Ha)) as H1.
pose proof (is_RInt_gen_scal _ (b / a) _ (gauss_1d_t a b c Ha)) as H2.
pose proof (is_RInt_gen_scal _ (- / a) _ (gauss_1d_d1 a b c Ha)) as H3.
pose proof (is_RInt_gen_plus _ _ _ _ (is_RInt_gen_plus _ _ _ _ H1 H2) H3) as H4.
replace ((/ a + (b / a) * (b / a)) * exp (ln (2 * PI / a) / 2 + b * b / (2 * a) + c))
  with (plus (plus (scal (/ a) (exp (ln (2 * PI / a) / 2 + b * b / (2 * a) + c)))
                   (scal (b / a) (b / a * exp (ln (2 * PI / a) / 2 + b * b / (2 * a) + c))))
             (scal (- / a) 0)).
- revert H4. apply is_RInt_gen_ext_eq_line. intros t.
  unfold plus, scal; simpl. unfold mult; simpl. unfold gq.
  generalize (exp (- (a * t * t) / 2 + b * t + c)). intros e. field. lra.
- unfold plus, scal; simpl. unfold mult; simpl. field. lra.
Qed.
Print Assumptions gauss_1d_tt.

(* ------------------------------------------------------------------ *)
(* 4. elimination of the first variable from an affine form l.x + l0   *)
(* ------------------------------------------------------------------ *)
Definition linR (D : nat) (l : vecR) (l0 : R) (x : vecR) : R := sumR D (fun i => l i * x i) + l0.
Definition glinR (L : matR) (l : vecR) : vecR := fun i => l (S i) - l O * L (S i) O / L O O.
Definition glin0R (L : matR) (nu : vecR) (l : vecR) (l0 : R) : R := l0 + l O * nu O / L O O.
Fixpoint gmeanR (D : nat) (L : matR) (nu : vecR) (l : vecR) (l0 : R) : R :=      (* the expectation of l.x + l0 *)
  match D with O => l0 | S m => gmeanR m (gschurR L) (gnuR L nu) (glinR L l) (glin0R L nu l l0) end.

Lemma linR_consv m l l0 t x :
  linR (S m) l l0 (consv t x) = l O * t + linR m (fun i => l (S i)) l0 x.
Proof. unfold linR. simpl. ring. Qed.

Lemma linR_elim m L nu l l0 x : L O O <> 0 ->
  l O * (nu O - sumR m (fun i => L (S i) O * x i)) / L O O + linR m (fun i => l (S i)) l0 x
  = linR m (glinR L l) (glin0R L nu l l0) x.
Proof.
intros H0. unfold linR, glinR, glin0R.
rewrite (sumR_ext m (fun i => (l (S i) - l O * L (S i) O / L O O) * x i)
   (fun i => l (S i) * x i - (l O / L O O) * (L (S i) O * x i))).
2:{ intros i. unfold Rdiv. ring. }
rewrite sumR_minus, sumR_scal_l.
generalize (sumR m (fun i => L (S i) O * x i)).
generalize (sumR m (fun i => l (S i) * x i)).
intros A s. field. exact H0.
Qed.

(* the exponent produced by one elimination step (as in gauss_nd) *)
Lemma gexp_schur m L nu x c : L O O <> 0 ->
  ln (2 * PI / L O O) / 2
    + (nu O - sumR m (fun i => L (S i) O * x i)) * (nu O - sumR m (fun i => L (S i) O * x i)) / (2 * L O O)
    + (quadR m (fun i j => L (S i) (S j)) (fun i => nu (S i)) x + c)
  = quadR m (gschurR L) (gnuR L nu) x + (ln (2 * PI / L O O) / 2 + nu O * nu O / (2 * L O O) + c).
Proof.
intros Hne.
generalize (quadR_schur m L nu x Hne).
generalize (quadR m (fun i j => L (S i) (S j)) (fun i => nu (S i)) x).
generalize (quadR m (gschurR L) (gnuR L nu) x).
generalize (sumR m (fun i => L (S i) O * x i)).
generalize (ln (2 * PI / L O O)).
intros l s q1 q2 E. simpl in E.
replace ((nu O - s) * (nu O - s) / (2 * L O O)) with ((nu O - s) * ((nu O - s) * 1) / (2 * L O O)) by (field; exact Hne).
lra.
Qed.

Theorem gauss_nd_lin D L nu c l l0 : symR D L -> gpivR D L ->
  is_gint D (fun x => linR D l l0 x * exp (quadR D L nu x + c)) (gmeanR D L nu l l0 * exp (gvalR D L nu + c)).
Proof.
revert L nu c l l0. induction D as [|m IH]; intros L nu c l l0 Hsym Hpiv.
- apply (is_gint_val O _ (linR O l l0 (fun _ => 0) * exp (quadR O L nu (fun _ => 0) + c))).
  + unfold linR, quadR. simpl. f_equal. ring. f_equal. lra.
  + apply (gint_O (fun x => linR O l l0 x * exp (quadR O L nu x + c))).
- destruct Hpiv as [H00 Hpiv]. simpl gvalR. simpl gmeanR.
  assert (Hne : L O O <> 0) by lra.
  pose (c' := ln (2 * PI / L O O) / 2 + nu O * nu O / (2 * L O O) + c).
  apply (gint_S m _ (fun x => linR m (glinR L l) (glin0R L nu l l0) x * exp (quadR m (gschurR L) (gnuR L nu) x + c'))).
  + intros x.
    apply (is_RInt_gen_ext_eq_line
             (fun t => (l O * t + linR m (fun i => l (S i)) l0 x)
                       * exp (- (L O O * t * t) / 2 + (nu O - sumR m (fun i => L (S i) O * x i)) * t
                            + (quadR m (fun i j => L (S i) (S j)) (fun i => nu (S i)) x + c)))).
    * intros t. rewrite (quadR_consv m L nu t x Hsym), linR_consv. f_equal. f_equal. ring.
    * rewrite <- (linR_elim m L nu l l0 x Hne). unfold c'. rewrite <- (gexp_schur m L nu x c Hne).
      apply gauss_1d_aff. exact H00.
  + apply (is_gint_val m _ (gmeanR m (gschurR L) (gnuR L nu) (glinR L l) (glin0R L nu l l0)
                            * exp (gvalR m (gschurR L) (gnuR L nu) + c'))).
    * f_equal. f_equal. unfold c'. ring.
    * apply IH. apply symR_gschurR. exact Hsym. exact Hpiv.
Qed.
Print Assumptions gauss_nd_lin.

(* ------------------------------------------------------------------ *)
(* 5. second moments: product of two affine forms                      *)
(* ------------------------------------------------------------------ *)
Corollary gauss_1d_aff2 a b c al be ga de : 0 < a ->
  is_RInt_gen (fun t => (al * t + be) * (ga * t + de) * exp (- (a * t * t) / 2 + b * t + c))
              (Rbar_locally m_infty) (Rbar_locally p_infty)
              ((al * ga / a + (al * b / a + be) * (ga * b / a + de)) * exp (ln (2 * PI / a) / 2 + b * b / (2 * a) + c)).
Proof.
intros Ha.
pose proof (is_RInt_gen_scal _ (al * ga) _ (gauss_1d_tt a b c Ha)) as H1.
pose proof (is_RInt_gen_scal _ (al * de + be * ga) _ (gauss_1d_t a b c Ha)) as H2.
pose proof (is_RInt_gen_scal _ (be * de) _ (gauss_1d a b c Ha)) as H3.
pose proof (is_RInt_gen_plus _ _ _ _ (is_RInt_gen_plus _ _ _ _ H1 H2) H3) as H4.
replace ((al * ga / a + (al * b / a + be) * (ga * b / a + de)) * exp (ln (2 * PI / a) / 2 + b * b / (2 * a) + c))
  with (plus (plus (scal (al * ga) ((/ a + (b / a) * (b / a)) * exp (ln (2 * PI / a) / 2 + b * b / (2 * a) + c)))
                   (scal (al * de + be * ga) (b / a * exp (ln (2 * PI / a) / 2 + b * b / (2 * a) + c))))
             (scal (be * de) (exp (ln (2 * PI / a) / 2 + b * b / (2 * a) + c)))).
- revert H4. apply is_RInt_gen_ext_eq_line. intros t.
  unfold plus, scal; simpl. unfold mult; simpl. ring.
- unfold plus, scal; simpl. unfold mult; simpl. field. lra.
Qed.

(* the covariance l' L^-1 k accumulated along the elimination *)
Fixpoint gcovR (D : nat) (L : matR) (l k : vecR) : R :=
  match D with O => 0 | S m => l O * k O / L O O + gcovR m (gschurR L) (glinR L l) (glinR L k) end.

Theorem gauss_nd_lin2 D L nu c l l0 k k0 : symR D L -> gpivR D L ->
  is_gint D (fun x => linR D l l0 x * linR D k k0 x * exp (quadR D L nu x + c))
            ((gcovR D L l k + gmeanR D L nu l l0 * gmeanR D L nu k k0) * exp (gvalR D L nu + c)).
Proof.
revert L nu c l l0 k k0. induction D as [|m IH]; intros L nu c l l0 k k0 Hsym Hpiv.
- apply (is_gint_val O _ (linR O l l0 (fun _ => 0) * linR O k k0 (fun _ => 0) * exp (quadR O L nu (fun _ => 0) + c))).
  + unfold linR, quadR. simpl. f_equal. ring. f_equal. lra.
  + apply (gint_O (fun x => linR O l l0 x * linR O k k0 x * exp (quadR O L nu x + c))).
- destruct Hpiv as [H00 Hpiv]. simpl gvalR. simpl gmeanR. simpl gcovR.
  assert (Hne : L O O <> 0) by lra.
  pose (c' := ln (2 * PI / L O O) / 2 + nu O * nu O / (2 * L O O) + c).
  apply (gint_S m _ (fun x => (l O * k O / L O O
                               + linR m (glinR L l) (glin0R L nu l l0) x * linR m (glinR L k) (glin0R L nu k k0) x)
                              * exp (quadR m (gschurR L) (gnuR L nu) x + c'))).
  + intros x.
    apply (is_RInt_gen_ext_eq_line
             (fun t => (l O * t + linR m (fun i => l (S i)) l0 x) * (k O * t + linR m (fun i => k (S i)) k0 x)
                       * exp (- (L O O * t * t) / 2 + (nu O - sumR m (fun i => L (S i) O * x i)) * t
                            + (quadR m (fun i j => L (S i) (S j)) (fun i => nu (S i)) x + c)))).
    * intros t. rewrite (quadR_consv m L nu t x Hsym), !linR_consv. f_equal. f_equal. ring.
    * rewrite <- (linR_elim m L nu l l0 x Hne), <- (linR_elim m L nu k k0 x Hne).
      unfold c'. rewrite <- (gexp_schur m L nu x c Hne).
      apply gauss_1d_aff2. exact H00.
  + apply (is_gint_ext m (fun x => (l O * k O / L O O) * exp (quadR m (gschurR L) (gnuR L nu) x + c')
                                   + linR m (glinR L l) (glin0R L nu l l0) x * linR m (glinR L k) (glin0R L nu k k0) x
                                     * exp (quadR m (gschurR L) (gnuR L nu) x + c'))).
    * intros x. ring.
    * apply (is_gint_val m _ ((l O * k O / L O O) * exp (gvalR m (gschurR L) (gnuR L nu) + c')
               + (gcovR m (gschurR L) (glinR L l) (glinR L k)
                  + gmeanR m (gschurR L) (gnuR L nu) (glinR L l) (glin0R L nu l l0)
                    * gmeanR m (gschurR L) (gnuR L nu) (glinR L k) (glin0R L nu k k0))
                 * exp (gvalR m (gschurR L) (gnuR L nu) + c'))).
      -- replace (ln (2 * PI / L O O) / 2 + nu O * nu O / (2 * L O O) + gvalR m (gschurR L) (gnuR L nu) + c)
           with (gvalR m (gschurR L) (gnuR L nu) + c') by (unfold c'; ring).
         ring.
      -- apply is_gint_plus.
         ++ apply is_gint_scal. apply gauss_nd. apply symR_gschurR. exact Hsym. exact Hpiv.
         ++ apply IH. apply symR_gschurR. exact Hsym. exact Hpiv.
Qed.
Print Assumptions gauss_nd_lin2.

(* ------------------------------------------------------------------ *)
(* 6. sanity checks (non-vacuity): L = [[2,1],[1,2]], L^-1 = [[2,-1],[-1,2]]/3 *)
(* ------------------------------------------------------------------ *)
Definition e0R : vecR := fun i => match i with O => 1 | _ => 0 end.
Definition e1R : vecR := fun i => match i with S O => 1 | _ => 0 end.

(* mean of x0 under nu = e0 is (L^-1 e0)_0 = 2/3, mean of x1 is -1/3 *)
Lemma gmeanR_L21_0 : gmeanR 2 L21 e0R e0R 0 = 2 / 3.
Proof. unfold gmeanR, glinR, glin0R, gschurR, gnuR, L21, e0R. field. Qed.
Lemma gmeanR_L21_1 : gmeanR 2 L21 e0R e1R 0 = - 1 / 3.
Proof. unfold gmeanR, glinR, glin0R, gschurR, gnuR, L21, e0R, e1R. field. Qed.
(* covariances: (L^-1)_00 = 2/3, (L^-1)_01 = -1/3 *)
Lemma gcovR_L21_00 : gcovR 2 L21 e0R e0R = 2 / 3.
Proof. unfold gcovR, glinR, gschurR, L21, e0R. field. Qed.
Lemma gcovR_L21_01 : gcovR 2 L21 e0R e1R = - 1 / 3.
Proof. unfold gcovR, glinR, gschurR, L21, e0R, e1R. field. Qed.

(* int int x0 x1 exp(-(2 x0^2 + 2 x0 x1 + 2 x1^2)/2) dx0 dx1 = -1/3 * 2 PI / sqrt 3 *)
Lemma gauss_2d_correlated_cov :
  is_gint 2 (fun x => x 0%nat * x 1%nat * exp (quadR 2 L21 (fun _ => 0) x + 0)) (- 1 / 3 * (2 * PI / sqrt 3)).
Proof.
assert (Hs : symR 2 L21).
{ intros i j Hi Hj. unfold L21. destruct i as [|[|i]]; destruct j as [|[|j]]; try reflexivity; lia. }
assert (Hp : gpivR 2 L21) by (simpl; unfold gschurR, L21; repeat split; lra).
pose proof (gauss_nd_lin2 2 L21 (fun _ => 0) 0 e0R 0 e1R 0 Hs Hp) as H.
pose proof (is_gint_unique _ _ _ _ (gauss_nd 2 L21 (fun _ => 0) 0 Hs Hp) gauss_2d_correlated) as E.
rewrite E, gcovR_L21_01 in H.
apply (is_gint_val 2 _ ((- 1 / 3 + gmeanR 2 L21 (fun _ => 0) e0R 0 * gmeanR 2 L21 (fun _ => 0) e1R 0) * (2 * PI / sqrt 3))).
- unfold gmeanR, glinR, glin0R, gschurR, gnuR, L21, e0R, e1R. field.
  apply Rgt_not_eq. apply sqrt_lt_R0. lra.
- revert H. apply is_gint_ext. intros x. unfold linR, e0R, e1R. simpl. ring.
Qed.
